#!/usr/bin/env python3
"""rs2lean3: phase 3 of the Rust -> Lean translator: RECURSIVE functions.  Extends the subset of
tools/rs2lean2.py (which extends tools/rs2lean.py) with
  * declared groups of (mutually) recursive functions: every member gets an explicit `fuel : Nat`
    first parameter, is defined by `| 0, .. => .fuel | fuel+1, .. => body` inside one Lean `mutual`
    block, and every call of a member from a member passes the predecessor `fuel` (Lean's structural
    recursion checks the discipline); functions that call a fuel-taking function take `fuel` too and
    pass it on unchanged; a loop body that calls a member receives the callee as a parameter
    `rec__<fn>` (the hoisted body is defined before the `mutual` block);
  * recursive `enum`s (`Value`), `type` aliases, `BTreeMap<String, V>` as a key-sorted association
    list, `Vec<T>` / `VecDeque<T>` of any translated type;
  * `&mut self` methods that return `Result` (the final `self` is returned next to the value on `Ok`;
    such a call is only accepted under `?` / in return position, where an `Err` ends the caller too);
  * the `byteorder` cursor reads / writes `read_u32::<BigEndian>()?`, `write_u32::<BigEndian>(x).unwrap()`
    on a byte place, `std::str::from_utf8(..).map_err(|_| Error::X)`, `.get(..n)`, `q.pop_front().unwrap()`,
    `Cow::Borrowed`, calls of `W: Write` functions with `&mut <byte place>`.
Output: lean/JsonbModel/Generated/Translated3.lean (namespace Jsonb.Tr, after the phase-1/2 files).
The semantics of every new primitive is in the hand-written lean/JsonbModel/RustPrelude3.lean.
Same conventions as rs2lean.py / rs2lean2.py (see tools/RS2LEAN.md): reads $VERIF_REPO (default
/repo), writes the output only when it changes, prints ONE JSON status line last; `--stdout` prints
the text and writes nothing; a function outside the subset keeps its previously generated block.
Python 3 stdlib only."""
import json, os, re, sys

HERE = os.path.dirname(os.path.abspath(__file__))
sys.path.insert(0, HERE)
import rs2lean as R  # noqa: E402
import rs2lean2 as R2  # noqa: E402
from rs2lean import N, Tok, Unsupported, NeedType, FnTr, is_int, is_bytes, tystr, lname, ind  # noqa: E402
from rs2lean2 import Parser2, FnTr2, NeedLitType, norm_type, strip, U8, STR, CHAR  # noqa: E402

REPO = os.environ.get("VERIF_REPO", "/repo")
OUT = os.environ.get("RS2LEAN3_OUT", os.path.normpath(os.path.join(HERE, "..", "lean", "JsonbModel", "Generated", "Translated3.lean")))
PREV = os.environ.get("RS2LEAN3_PREV", OUT)

# `type` aliases read from the source: (file, name)
ALIASES3 = [("src/value.rs", "Object")]

# declarations translated in addition to the phase-1/2 ones: (file, kind, name)
TYPES3 = [
    ("src/value.rs", "enum", "Value"),
    ("src/de.rs", "struct", "Decoder"),
]

# (file, impl type or None, trait or None, fn name, Lean name, recursive group or None); in
# dependency order (the members of a group are consecutive)
FUNCS3 = [
    ("src/value.rs", "Value", None, "as_str", "Value.as_str", None),
    ("src/de.rs", "Decoder", None, "new", "Decoder.new", None),
    ("src/de.rs", "Decoder", None, "decode_jentries", "Decoder.decode_jentries", None),
    ("src/de.rs", "Decoder", None, "decode_jsonb", "Decoder.decode_jsonb", "decoder"),
    ("src/de.rs", "Decoder", None, "decode_scalar", "Decoder.decode_scalar", "decoder"),
    ("src/de.rs", "Decoder", None, "decode_array", "Decoder.decode_array", "decoder"),
    ("src/de.rs", "Decoder", None, "decode_object", "Decoder.decode_object", "decoder"),
    ("src/de.rs", "Decoder", None, "decode", "Decoder.decode", None),
    ("src/de.rs", None, None, "parse_jsonb", "parse_jsonb", None),
    ("src/de.rs", None, None, "from_slice", "from_slice", None),
    ("src/ser.rs", "Encoder", None, "encode_value", "Encoder.encode_value", "encoder"),
    ("src/ser.rs", "Encoder", None, "encode_array", "Encoder.encode_array", "encoder"),
    ("src/ser.rs", "Encoder", None, "encode_object", "Encoder.encode_object", "encoder"),
    ("src/ser.rs", "Encoder", None, "encode_scalar", "Encoder.encode_scalar", None),
    ("src/ser.rs", "Encoder", None, "encode", "Encoder.encode", None),
    ("src/ser.rs", "Encoder", None, "new", "Encoder.new", None),
    ("src/value.rs", "Value", None, "write_to_vec", "Value.write_to_vec", None),
    ("src/value.rs", "Value", None, "to_vec", "Value.to_vec", None),
]

# translated and elaborated on request only (RS2LEAN3_EXTRA=compare): the group translates, its agreement
# with Functions/Order.lean (`Fn.cmpScalar` & co.) is not proved yet, so it is not part of the default output
EXTRA3 = {
    "compare": [
        ("src/functions.rs", None, None, "compare_scalar", "compare_scalar", "compare"),
        ("src/functions.rs", None, None, "compare_container", "compare_container", "compare"),
        ("src/functions.rs", None, None, "compare_array", "compare_array", "compare"),
        ("src/functions.rs", None, None, "compare_object", "compare_object", "compare"),
    ],
}
for _x in os.environ.get("RS2LEAN3_EXTRA", "").split(","):
    if _x in EXTRA3:
        FUNCS3 = FUNCS3 + EXTRA3[_x]

# `from_slice`: `match decoder.decode() { Ok(v) => Ok(v), Err(_) => <text fallback> }`; the fallback
# calls the JSON text parser and is kept as a parameter `text__` holding its result
TEXT_FALLBACK = {"from_slice"}

# size_of::<T>() of the enums a Vec / VecDeque is created with (x86_64; only the threshold of the
# `capacity overflow` panic of `with_capacity` depends on it)
ENUM_SIZES = {"Value": 32}

RESERVED3 = set("fuel Value Decoder Encoder".split())

# methods that mutate their receiver (seen by the `assigned` analysis of rs2lean2)
R2.MUT_METHODS.update({"read_u32", "write_u32", "insert"})


# ----------------------------------------------------------------------------- parser

class Parser3(Parser2):
    def parse_type(self):
        if self.isid("Cow") and self.isp("<", 1):
            self.next()
            args = self.parse_generic_args()
            if len(args) != 1:
                raise Unsupported("Cow arguments")
            return args[0]                      # Cow<'a, T> is its T
        if self.isid("BTreeMap") and self.isp("<", 1):
            self.next()
            args = self.parse_generic_args()
            if len(args) != 2:
                raise Unsupported("BTreeMap arguments")
            return ("btree", args[0], args[1])
        return Parser2.parse_type(self)

    def parse_postfix(self, ns):
        """rs2lean.Parser.parse_postfix, keeping the turbofish of a method call"""
        e = self.parse_primary(ns)
        while True:
            if self.isp("?"):
                self.next()
                e = N("try", e=e)
            elif self.isp(".") and self.peek(1).k == "id":
                self.next()
                name = self.ident()
                fish = None
                if self.isp("::"):
                    self.next()
                    fish = [t.v for t in self.skip_generics()]
                if self.isp("("):
                    e = N("mcall", recv=e, name=name, args=self.parse_args(), fish=fish)
                else:
                    e = N("field", e=e, name=name)
            elif self.isp(".") and self.peek(1).k == "num":
                self.next()
                e = N("tfield", e=e, idx=self.next().v)
            elif self.isp("["):
                self.next()
                idx = self.parse_expr()
                self.expectp("]")
                e = N("index", e=e, idx=idx)
            elif self.isp("("):
                e = N("call", f=e, args=self.parse_args())
            else:
                return e

    def parse_primary(self, ns):
        t = self.peek()
        if t.k == "p" and t.v in ("|", "||"):
            self.next()
            params = []
            if t.v == "|":
                while not self.isp("|"):
                    params.append(self.parse_pattern1())
                    if self.eatp(":"):
                        self.parse_type()
                    if not self.eatp(","):
                        break
                self.expectp("|")
            if self.isp("->"):
                raise Unsupported("closure with a return type")
            return N("closure", params=params, body=self.parse_expr(ns))
        return Parser2.parse_primary(self, ns)


# ----------------------------------------------------------------------------- types

def norm3(t):
    k = t[0]
    if k == "btree":
        return ("btree", norm3(t[1]), norm3(t[2]))
    if k in ("opt", "res", "vec", "slice", "deque"):
        return (k, norm3(t[1]))
    if k == "array":
        return (k, norm3(t[1]), t[2])
    if k == "tuple":
        return (k, tuple(norm3(x) for x in t[1]))
    return norm_type(t)


def lean_type3(t, world):
    k = t[0]
    if k == "int":
        return "Int"
    if k == "bool":
        return "Bool"
    if k == "f64" or k == "char":
        return "Nat"
    if k == "ordering":
        return "Ordering"
    if k == "unit":
        return "Unit"
    if k == "str" or is_bytes(t):
        return "Bytes"
    if k in ("vec", "slice", "array", "deque"):
        return "(List %s)" % lean_type3(t[1], world)
    if k == "btree":
        return "(List (%s × %s))" % (lean_type3(t[1], world), lean_type3(t[2], world))
    if k == "opt":
        return "(Option %s)" % lean_type3(t[1], world)
    if k == "tuple":
        return "(" + " × ".join(lean_type3(x, world) for x in t[1]) + ")"
    if k == "named" and (t[1] in world.structs or t[1] in world.enums):
        return t[1]
    raise Unsupported("type `%s` not in the subset" % tystr3(t))


def tystr3(t):
    if t is not None and t[0] == "btree":
        return "BTreeMap<%s, %s>" % (tystr3(t[1]), tystr3(t[2]))
    if t is not None and t[0] == "str":
        return "str"
    return tystr(t)


def size_of3(t, world):
    if t[0] == "named" and t[1] in world.enums and t[1] in ENUM_SIZES:
        return ENUM_SIZES[t[1]]
    return R2.size_of(t, world)


def resolve_alias(t, world):
    k = t[0]
    if k == "named" and t[1] in getattr(world, "aliases", {}):
        return world.aliases[t[1]]
    if k == "btree":
        return ("btree", resolve_alias(t[1], world), resolve_alias(t[2], world))
    if k in ("opt", "res", "vec", "slice", "deque"):
        return (k, resolve_alias(t[1], world))
    if k == "array":
        return (k, resolve_alias(t[1], world), t[2])
    if k == "tuple":
        return (k, tuple(resolve_alias(x, world) for x in t[1]))
    return t


def load_alias(world, file, name):
    """`[pub] type Name[<'a>] = <type>;` at the top level of `file`"""
    try:
        toks = R.tokenize(open(os.path.join(world.repo, file), encoding="utf-8").read())
    except (OSError, Unsupported) as e:
        raise Unsupported("cannot read %s: %s" % (file, e))
    depth, hits = 0, []
    for i, t in enumerate(toks):
        if t.k == "p" and t.v in ("{", "(", "["):
            depth += 1
        elif t.k == "p" and t.v in ("}", ")", "]"):
            depth -= 1
        elif depth == 0 and t.k == "id" and t.v == "type" and toks[i + 1].k == "id" and toks[i + 1].v == name:
            p = Parser3(toks, i + 2)
            if p.isp("<"):
                inner = p.skip_generics()
                if any(x.k != "life" and not (x.k == "p" and x.v == ",") for x in inner):
                    raise Unsupported("generic type alias")
            p.expectp("=")
            ty = p.parse_type()
            if not p.isp(";"):
                raise Unsupported("type alias `%s`" % name)
            hits.append(ty)
    if not hits:
        return None
    if len(hits) > 1:
        raise Unsupported("declared more than once")
    return norm3(hits[0])


def load_error_from(world):
    """`impl From<X> for Error { fn from(..) -> Self { Error::V } }` of error.rs: {last segment of X: "V"}"""
    out = {}
    for it in world.load("src/error.rs"):
        if it["kind"] == "fn" and it["name"] == "from" and it["impl"] == "Error" and it["trait"] == "From":
            try:
                p = Parser3(it["toks"])
                p.expectp("(")
                p.eatid("mut")
                p.ident()
                p.expectp(":")
                segs = [p.ident()]
                while p.eatp("::"):
                    segs.append(p.ident())
                if p.isp("<"):
                    continue
                p.expectp(")")
                p.expectp("->")
                p.parse_type()
                body = p.parse_block()
                if body.stmts or body.tail is None or body.tail.kind != "path" or len(body.tail.segs) != 2 \
                        or body.tail.segs[0] != "Error":
                    continue
                key = "::".join(segs)
                if key in out:
                    out[key] = None
                else:
                    out[key] = body.tail.segs[1]
            except Unsupported:
                continue
    return out


def emit_enum3(world, file, name):
    """enum whose payloads are integers / bool / f64 / strings / bytes / translated types / Vec and
    BTreeMap<String, _> of translated types (possibly the enum itself) -> Lean inductive"""
    hits = world.find(file, "enum", name)
    if not hits:
        if file in world.file_errors:
            raise Unsupported("cannot read %s: %s" % (file, world.file_errors[file]))
        return None
    if len(hits) > 1:
        raise Unsupported("declared more than once")
    p = Parser3(hits[0]["toks"])
    if p.isp("<"):
        inner = p.skip_generics()
        if any(t.k != "life" and not (t.k == "p" and t.v == ",") for t in inner):
            raise Unsupported("generic enum")
    p.expectp("{")
    variants = []
    while not p.isp("}"):
        p.skip_attrs()
        vname = p.ident()
        tys = []
        if p.eatp("("):
            while not p.isp(")"):
                tys.append(resolve_alias(norm3(p.parse_type()), world))
                if not p.eatp(","):
                    break
            p.expectp(")")
        elif p.isp("{"):
            raise Unsupported("struct-like enum variant")
        if p.eatp("="):
            raise Unsupported("explicit discriminant")
        variants.append((vname, tys))
        if not p.eatp(","):
            break
    p.expectp("}")
    world.enums[name] = variants          # registered first: payloads may mention the enum itself

    def ok(t):
        k = t[0]
        if k in ("int", "bool", "f64", "str") or is_bytes(t):
            return True
        if k == "named":
            return t[1] in world.enums or t[1] in world.structs
        if k == "vec":
            return ok(t[1])
        if k == "btree":
            return t[1] == STR and ok(t[2])
        return False
    try:
        for _, tys in variants:
            for t in tys:
                if not ok(t):
                    raise Unsupported("payload type %s" % tystr3(t))
        lines = ["inductive %s where" % name]
        for v, tys in variants:
            lines.append("  | %s%s" % (lname(v), "".join(" (a%d : %s)" % (i, lean_type3(t, world)) for i, t in enumerate(tys))))
    except Unsupported:
        del world.enums[name]
        raise
    return lines


# ----------------------------------------------------------------------------- function translator

class FnTr3(FnTr2):
    def __init__(self, world, file, impl, trait, name, it, lean, lit_choice=None, group=None):
        self.group = group              # label of the recursive group this function belongs to
        self.uses_fuel = group is not None
        self.rec_stack = []             # per enclosing loop: group callees used in its body (sigs)
        self.call_mode = None
        FnTr2.__init__(self, world, file, impl, trait, name, it, lean, lit_choice)
        self.body_parser = Parser3(self.body_parser.t, self.body_parser.i)
        for x in self.idents:
            if x == "fuel" or x.startswith("rec__"):
                raise Unsupported("identifier `%s` clashes with a name used by the generated Lean" % x)

    def bind(self, name, ty):
        if name in RESERVED3:
            raise Unsupported("local name `%s` clashes with a name used by the generated Lean" % name)
        FnTr2.bind(self, name, ty)

    # -- signature: rs2lean2's parse_sig with the phase-3 type parser
    def parse_sig(self, it):
        p = Parser3(list(it["toks"]))       # a copy: splitting a `>>` token rewrites the list
        self.generics = {}
        if p.isp("<"):
            inner = p.skip_generics()
            for t in inner:
                if t.k != "life" and not (t.k == "p" and t.v == ","):
                    raise Unsupported("generic parameters not in the subset")
        p.expectp("(")
        self.params = []
        self.mutparams = []
        while not p.isp(")"):
            p.skip_attrs()
            if p.isp("&") and (p.isid("self", 1) or (p.peek(1).k == "life" and p.isid("self", 2))
                               or (p.isid("mut", 1) and p.isid("self", 2))
                               or (p.peek(1).k == "life" and p.isid("mut", 2) and p.isid("self", 3))):
                p.next()
                if p.peek().k == "life":
                    p.next()
                if p.eatid("mut"):
                    self.mutparams.append("self")
                p.next()
                self.params.append(("self", ("named", "Self")))
            elif p.isid("self"):
                p.next()
                self.params.append(("self", ("named", "Self")))
            else:
                p.eatid("mut")
                name = p.ident()
                if name == "_":
                    raise Unsupported("`_` parameter")
                p.expectp(":")
                if p.isp("&") and (p.isid("mut", 1) or (p.peek(1).k == "life" and p.isid("mut", 2))):
                    self.mutparams.append(name)
                ty = p.parse_type()
                self.params.append((name, ty))
            if not p.eatp(","):
                break
        p.expectp(")")
        self.ret = ("unit",)
        if p.eatp("->"):
            self.ret = p.parse_type()
        if p.isid("where"):
            raise Unsupported("where clause not in the subset")
        self.params = [(n, self.resolve(t)) for n, t in self.params]
        self.ret = self.resolve(self.ret)
        self.writer = None
        self.body_parser = p

    def resolve(self, t):
        t = resolve_alias(norm3(t), self.w)
        if t[0] == "btree":
            return ("btree", self.resolve(t[1]), self.resolve(t[2]))
        return resolve_alias(norm3(FnTr2.resolve(self, t)), self.w)

    def lt(self, t):
        return lean_type3(t, self.w)

    def unify(self, a, b, what="types"):
        # `&[T]` / `Vec<T>` / `[T; N]` of the same element type are one Lean type
        if a is not None and b is not None and a[0] in ("vec", "slice", "array") and b[0] in ("vec", "slice", "array") \
                and a[0] != b[0] and not is_bytes(a) and a[1] == b[1]:
            return a
        if a is not None and b is not None and a[0] == "btree" and b[0] == "btree":
            if a != b:
                raise Unsupported("%s differ: %s vs %s" % (what, tystr3(a), tystr3(b)))
            return a
        return FnTr2.unify(self, a, b, what)

    def concrete(self, t):
        if t is not None and t[0] == "btree":
            return self.concrete(t[1]) and self.concrete(t[2])
        if t is not None and t[0] == "deque":
            return self.concrete(t[1])
        return FnTr2.concrete(self, t)

    def peek_type(self, e):
        """the type of `e`, leaving no trace of its translation (None when it cannot be found)"""
        save = (self.tmp, len(self.aux_defs), getattr(self, "loop_count", 0), self.lit_sites, self.call_mode,
                [list(x) for x in self.rec_stack], self.uses_fuel)
        try:
            return self.ex0(e, None)[2]
        except Unsupported:
            return None
        finally:
            self.tmp, n, self.loop_count, self.lit_sites, self.call_mode, self.rec_stack, self.uses_fuel = save
            del self.aux_defs[n:]

    # -- calls of translated functions: fuel, `&mut` + `Result`, writers
    def callee_sig(self, e):
        """the signature of the translated function a call expression resolves to (or None)"""
        if e.kind == "mcall":
            r = strip(e.recv)
            if r.kind == "path" and r.segs == ["self"] and self.impl:
                return self.find_sig(self.impl, e.name)
            if r.kind in ("path", "field"):
                ty = self.peek_type(r)
                if ty is not None and ty[0] == "named":
                    return self.find_sig(ty[1], e.name)
            return None
        if e.kind == "call" and e.f.kind == "path":
            segs = e.f.segs
            if len(segs) == 1 and self.lookup(segs[0]) is None:
                return self.find_sig(None, segs[0])
            if len(segs) == 2:
                return self.find_sig(self.impl if segs[0] == "Self" else segs[0], segs[1])
        return None

    def needs_mode(self, sig):
        """a call whose `Result` has to be consumed on the spot (`?`, `.unwrap()`, return position)"""
        return sig is not None and sig["ret"][0] == "res" and bool(sig.get("mut") or sig.get("writer"))

    def in_mode(self, mode, e, want=None):
        self.call_mode = mode
        try:
            return self.ex0(e, want)
        finally:
            self.call_mode = None

    def place_arg(self, ae):
        """the place a `&mut` argument denotes -> ('var', x, ty) | ('field', f, ty) | ('self',)"""
        if isinstance(ae, tuple):
            _, t1 = ae
            if t1 == "self":
                return ("self",)
            for x in self.visible():
                if lname(x) == t1 and self.lookup(x) is not None:
                    return ("var", x, self.lookup(x))
            raise Unsupported("`&mut self` method called on something that is not a local variable")
        place = strip(ae)
        if place.kind == "path" and place.segs == ["self"]:
            return ("self",)
        return self.place_of(place)

    def user_call(self, sig, args, recv=None):
        mode, self.call_mode = self.call_mode, None
        muts = list(sig.get("mut", []))
        fuel = sig.get("fuel")
        writer = sig.get("writer")
        if fuel is None and "fuel" in sig:
            raise Unsupported("call of %s before its translation (dependency order)" % sig["lean"])
        if not fuel and not writer and not (muts and sig["ret"][0] == "res"):
            return FnTr2.user_call(self, sig, args, recv)
        params = sig["params"]
        allargs = ([recv] if recv is not None else []) + list(args)
        if len(allargs) != len(params):
            raise Unsupported("arity of call to %s" % sig["lean"])
        ls, terms, outs = [], [], []
        for ae, (pn, pt) in zip(allargs, params):
            if pn in muts or pt == ("writer",):
                if pt == ("writer",) and not (not isinstance(ae, tuple) and ae.kind == "refmut"):
                    raise Unsupported("a writer argument must be `&mut <place>`")
                pl = self.place_arg(ae)
                if pl[0] == "self":
                    if "self" not in self.mutparams:
                        raise Unsupported("`&mut self` method called on an immutable `self`")
                    outs.append(pl); terms.append("self")
                    continue
                if pt == ("writer",):
                    if not is_bytes(pl[2]) or pl[2][0] != "vec":
                        raise Unsupported("writer argument of type %s" % tystr3(pl[2]))
                else:
                    self.unify(pl[2], pt, "`&mut` argument type")
                outs.append(pl); terms.append(self.place_term(pl))
                continue
            if isinstance(ae, tuple):
                l1, t1 = ae
            else:
                l1, t1, _ = self.ex(ae, pt)
            ls += l1
            terms.append(self.atom(t1))
        keys = [(p[0], p[1] if len(p) > 1 else "") for p in outs]
        if len(set(keys)) != len(keys):
            raise Unsupported("the same place passed twice as `&mut`")
        # the callee
        head = sig["lean"]
        if fuel:
            self.uses_fuel = True
            if self.group is not None and sig.get("group") == self.group and self.rec_stack:
                head = "rec__" + sig["name"]
                for lvl in self.rec_stack:
                    if sig not in lvl:
                        lvl.append(sig)
            else:
                head += " fuel"
        call = " ".join([head] + terms)
        ret = sig["ret"]
        rv = ret[1] if ret[0] == "res" else ret
        if not outs:
            if ret[0] == "res":
                return ls, "(%s)" % call, ret
            ls, r = self.call_res(ls, call)
            return ls, r, ret
        # results: the value (always present for a writer function), then the `&mut` places in order
        pats, stores = [], []
        r = "()"
        if rv != ("unit",) or writer:
            r = self.fresh()
            pats.append(r)
        for pl in outs:
            if pl[0] == "self":
                pats.append("self")
            elif pl[0] == "var":
                pats.append(lname(pl[1]))
            else:
                t = self.fresh()
                pats.append(t)
                stores += self.place_store(pl, t)
        pat = pats[0] if len(pats) == 1 else "(" + ", ".join(pats) + ")"
        if ret[0] == "res":
            if mode == "try":
                if self.ret[0] != "res":
                    raise Unsupported("`?` in a function that does not return Result")
                rhs = call
            elif mode == "unwrap":
                rhs = "Rs.unwrapRes (%s)" % call
            elif mode == "orelse":
                rhs = None
            else:
                raise Unsupported("the Result of %s (a function with `&mut` parameters) must be used with `?`, "
                                  "`.unwrap()` or returned" % sig["lean"])
        else:
            rhs = call
        if mode == "orelse":
            return ls + ["let %s ← Rs.okQ (%s) text__" % (pat, call)] + stores, r, rv
        return ls + ["let %s ← Ctl.ofRes (%s)" % (pat, rhs)] + stores, r, rv

    def ex_try(self, e, want):
        inner = e.e
        if inner.kind == "mcall" and inner.name == "read_u32":
            return self.read_u32(inner, "try")
        if inner.kind in ("call", "mcall") and self.needs_mode(self.callee_sig(inner)):
            return self.in_mode("try", inner)
        return FnTr2.ex_try(self, e, want)

    def tail(self, e):
        if e is not None and e.kind in ("call", "mcall") and self.needs_mode(self.callee_sig(e)):
            ls, t, ty = self.in_mode("try", e)
            self.unify(self.ret_value_type(), ty, "returned value")
            return ls + [self.mk_ret("ok", t)]
        return FnTr2.tail(self, e)

    # -- the byteorder cursor on a byte place
    def byte_place(self, e, what):
        pl = self.place_of(e)
        if not is_bytes(pl[2]):
            raise Unsupported("`.%s()` on %s" % (what, tystr3(pl[2])))
        return pl

    def read_u32(self, e, mode):
        """`<place>.read_u32::<BigEndian>()?`: the place is a `&[u8]` cursor, advanced by 4"""
        if e.args or getattr(e, "fish", None) != ["BigEndian"]:
            raise Unsupported("only `read_u32::<BigEndian>()` is in the subset")
        pl = self.byte_place(e.recv, "read_u32")
        if pl[2][0] != "slice":
            raise Unsupported("read_u32 on %s (only a `&[u8]` cursor)" % tystr3(pl[2]))
        if self.ret[0] != "res":
            raise Unsupported("`?` in a function that does not return Result")
        err = self.w.error_from.get("std::io::Error")
        if not err:
            raise Unsupported("no `impl From<std::io::Error> for Error` found in src/error.rs")
        v, rest = self.fresh(), self.fresh()
        ls = ["let (%s, %s) ← Ctl.ofRes (Rs.mapErr (Rs.readU32BE %s) \"%s\")" % (v, rest, self.place_term(pl), err)]
        return ls + self.place_store(pl, rest), v, ("int", "u32")

    # -- expressions
    def ex0(self, e, want):
        k = e.kind
        if k == "closure":
            raise Unsupported("closure not in the subset here")
        if k == "btree_pairs":
            ls, t, ty = self.ex(e.e)
            return ls, t, ("vec", ("tuple", (ty[1], ty[2])))
        return FnTr2.ex0(self, e, want)

    def ex_call(self, e, want):
        f = e.f
        if f.kind == "path":
            segs, args = f.segs, e.args
            last2 = segs[-2:] if len(segs) >= 2 else None
            if last2 in (["Cow", "Borrowed"], ["Cow", "Owned"]) and len(args) == 1:
                ls, t, ty = self.ex(args[0], want)
                if ty != STR:
                    raise Unsupported("`Cow::%s` of %s" % (last2[1], tystr3(ty)))
                return ls, t, ty
            if last2 == ["str", "from_utf8"] and len(args) == 1:
                ls, t, ty = self.ex(args[0])
                if not is_bytes(ty):
                    raise Unsupported("from_utf8 of %s" % tystr3(ty))
                return ls, "(Rs.strFromUtf8 %s)" % self.atom(t), ("res", STR)
            if last2 in (["Vec", "with_capacity"], ["VecDeque", "with_capacity"]) and len(args) == 1:
                kind = "vec" if last2[0] == "Vec" else "deque"
                el = want[1] if (want is not None and want[0] == kind) else None
                if el is not None and el[0] == "named" and el[1] in self.w.enums:
                    ls, t, _ = self.ex(args[0], ("int", "usize"))
                    ls, r = self.call_res(ls, "Rs.vecWithCapacity %s %d %s" % (self.lt(el), size_of3(el, self.w), self.atom(t)))
                    return ls, r, (kind, el)
            if len(segs) == 2 and segs[1] == "new" and not args:
                ty = resolve_alias(("named", segs[0]), self.w)
                if segs[0] == "BTreeMap" and want is not None and want[0] == "btree":
                    ty = want
                if ty[0] == "btree":
                    return [], "(Rs.btreeNew : %s)" % self.lt(ty), ty
        return FnTr2.ex_call(self, e, want)

    def ex_mcall(self, e, want):
        name, args, recv = e.name, e.args, e.recv
        if name == "read_u32":
            raise Unsupported("`read_u32` must be followed by `?`")
        if name in ("unwrap", "expect") and (name == "expect" or not args):
            inner = recv
            while inner.kind == "paren":
                inner = inner.e
            if inner.kind == "mcall" and inner.name == "pop_front" and not inner.args:
                pl = self.place_of(inner.recv)
                if pl[0] != "var" or pl[2][0] != "deque":
                    raise Unsupported("pop_front on %s" % tystr3(pl[2]))
                r, q = self.fresh(), lname(pl[1])
                return ["let (%s, %s) ← Ctl.ofRes (Rs.unwrap (Rs.popFront %s))" % (r, q, q)], r, pl[2][1]
            if inner.kind == "mcall" and inner.name == "write_u32":
                if len(inner.args) != 1 or getattr(inner, "fish", None) != ["BigEndian"]:
                    raise Unsupported("only `write_u32::<BigEndian>(x)` is in the subset")
                pl = self.byte_place(inner.recv, "write_u32")
                if pl[2][0] != "vec":
                    raise Unsupported("write_u32 on %s (only a `Vec<u8>`)" % tystr3(pl[2]))
                ls, t, _ = self.ex(inner.args[0], ("int", "u32"))
                return ls + self.place_store(pl, "(Rs.writeU32BE %s %s)" % (self.place_term(pl), self.atom(t))), "()", ("unit",)
            if inner.kind in ("call", "mcall") and self.needs_mode(self.callee_sig(inner)):
                return self.in_mode("unwrap", inner)
        if name == "write_u32":
            raise Unsupported("`write_u32` must be followed by `.unwrap()`")
        if name == "get" and len(args) == 1 and args[0].kind == "range" and args[0].lo is None \
                and args[0].hi is not None and not args[0].incl:
            ls, t, ty = self.ex(recv)
            if is_bytes(ty):
                l1, t1, _ = self.ex(args[0].hi, ("int", "usize"))
                return ls + l1, "(Rs.getTo %s %s)" % (self.atom(t), self.atom(t1)), ("opt", ("slice", U8))
            raise Unsupported("`.get(..n)` on %s" % tystr3(ty))
        if name == "map_err" and len(args) == 1:
            c = args[0]
            if c.kind != "closure" or len(c.params) != 1 or c.params[0].kind != "p_wild":
                raise Unsupported("`map_err` is limited to `|_| Error::X`")
            ls, t, ty = self.ex(recv, ("res", want[1]) if (want is not None and want[0] == "res") else None)
            if ty[0] != "res":
                raise Unsupported("`.map_err()` on %s" % tystr3(ty))
            return ls, "(Rs.mapErr %s %s)" % (self.atom(t), self.error_name(c.body)), ty
        if name == "cmp" and len(args) == 1:
            rty = self.peek_type(recv)
            if rty == STR or (rty is not None and is_bytes(rty)):
                ls, t, _ = self.ex(recv)
                l1, t1, ty1 = self.ex(args[0])
                if not (ty1 == STR or is_bytes(ty1)) or (ty1 == STR) != (rty == STR):
                    raise Unsupported("`.cmp()` of %s and %s" % (tystr3(rty), tystr3(ty1)))
                return ls + l1, "(Rs.cmpBytes %s %s)" % (self.atom(t), self.atom(t1)), ("ordering",)
        rty = None
        if name in ("as_str", "as_bytes", "to_vec", "as_slice", "as_ref", "to_owned", "to_string", "len", "is_empty", "iter"):
            rty = self.peek_type(recv)
        if rty is not None and rty[0] == "named" and self.find_sig(rty[1], name):
            ls, t, _ = self.ex(recv)
            return self.user_call(self.find_sig(rty[1], name), args, recv=(ls, t))
        if rty is not None and rty[0] == "btree" and name in ("len", "is_empty") and not args:
            ls, t, _ = self.ex(recv)
            if name == "len":
                return ls, "(Rs.len %s)" % self.atom(t), ("int", "usize")
            return ls, "(Rs.isEmpty %s)" % self.atom(t), ("bool",)
        return FnTr2.ex_mcall(self, e, want)

    def tr_mutcall(self, e):
        pl = self.place_of(e.recv)
        ty, name, args = pl[2], e.name, e.args
        cur = self.place_term(pl)
        if name == "push" and len(args) == 1 and ty[0] == "vec" and ty[1] != U8:
            ls, t, _ = self.ex(args[0], ty[1])
            return ls + self.place_store(pl, "(Rs.vecPush %s %s)" % (cur, self.atom(t)))
        if name == "insert" and len(args) == 2 and ty[0] == "btree" and ty[1] == STR:
            l1, t1, _ = self.ex(args[0], ty[1])
            l2, t2, _ = self.ex(args[1], ty[2])
            return l1 + l2 + self.place_store(pl, "(Rs.btreeInsert %s %s %s)" % (cur, self.atom(t1), self.atom(t2)))
        return FnTr2.tr_mutcall(self, e)

    # -- a struct that holds the `&mut` borrow of a parameter (`let mut e = Encoder::new(buf);`): while the
    # struct lives the parameter cannot be named (borrow checker); at every exit its final value is the
    # struct's field
    def holder_of(self, init):
        """(param, field) when `init` is a call `T::new(p)` of a translated constructor whose body stores
        its `&mut` parameter in the only (`&mut`) field of `T`, and `p` is a `&mut` parameter here"""
        if init is None or init.kind != "call" or len(init.args) != 1:
            return None
        sig = self.callee_sig(init)
        if sig is None or not sig.get("holder"):
            return None
        a = strip(init.args[0])
        if not (a.kind == "path" and len(a.segs) == 1 and a.segs[0] in self.mutparams and a.segs[0] != "self"):
            return None
        return a.segs[0], sig["holder"]

    def ret_pack(self, term):
        parts = []
        if self.ret_value_type() != ("unit",):
            parts.append(term)
        for m in self.mutparams:
            h = getattr(self, "holders", {}).get(m)
            if h is not None and self.lookup(h[0]) is not None:
                parts.append("%s.%s" % (lname(h[0]), lname(h[1])))
            else:
                parts.append(lname(m))
        if not parts:
            return "()"
        if len(parts) == 1:
            return parts[0]
        return "(" + ", ".join(parts) + ")"

    # -- statements
    def tr_stmt(self, s):
        if s.kind == "let" and s.pat.kind == "p_path" and len(s.pat.path) == 1 and self.holder_of(s.init):
            if len(self.scopes) != 2 or self.loop_stack:
                raise Unsupported("a struct holding a `&mut` parameter must be created in the outermost block")
            p, f = self.holder_of(s.init)
            if not hasattr(self, "holders"):
                self.holders = {}
            if p in self.holders:
                raise Unsupported("`%s` is already held by `%s`" % (p, self.holders[p][0]))
            r = FnTr2.tr_stmt(self, s)
            self.holders[p] = (s.pat.path[0], f)
            return r
        if s.kind == "expr" and s.semi and s.e.kind in ("match", "if", "iflet"):
            # `match .. { .. };`: the values of the arms are dropped
            s = N("expr", e=self.drop_values(s.e), semi=True)
        if s.kind == "let" and s.ty is None and s.pat.kind == "p_path" and len(s.pat.path) == 1 \
                and s.init is not None and s.init.kind == "bin" and self.literal_only(s.init):
            site = self.lit_sites
            self.lit_sites += 1
            if site not in self.lit_choice:
                raise NeedLitType(site)
            ty = ("int", self.lit_choice[site])
            ls, t, _ = self.ex(s.init, ty)
            self.bind(s.pat.path[0], ty)
            return ls + ["let %s := %s" % (lname(s.pat.path[0]), t)], False
        if s.kind == "let" and s.init is not None and s.pat.kind == "p_wild":
            ls, t, ty = self.ex(s.init, self.resolve(s.ty) if s.ty is not None else None)
            return ls, (ty is not None and ty[0] == "never")
        return FnTr2.tr_stmt(self, s)

    def literal_only(self, e):
        while e.kind == "paren":
            e = e.e
        if e.kind == "int":
            return not e.suffix
        if e.kind == "bin" and e.op in ("+", "-", "*"):
            return self.literal_only(e.l) and self.literal_only(e.r)
        return False

    def drop_values(self, e):
        def unitise(b):
            if b is None:
                return None
            if b.kind in ("if", "iflet"):
                return self.drop_values(b)
            if b.kind != "block":
                return N("block", stmts=[N("expr", e=b, semi=True)], tail=None)
            if b.tail is None:
                return b
            return N("block", stmts=list(b.stmts) + [N("expr", e=b.tail, semi=True)], tail=None)
        if e.kind == "match":
            return N("match", scrut=e.scrut, arms=[N("arm", pat=a.pat, guard=a.guard, body=unitise(a.body)) for a in e.arms])
        if e.kind == "if":
            return N("if", cond=e.cond, then=unitise(e.then), els=unitise(e.els))
        return N("iflet", pat=e.pat, scrut=e.scrut, then=unitise(e.then), els=unitise(e.els))

    # -- `match (a, b) { (CONST, CONST | CONST) => .., (_, _) => .. }` on a tuple of integers
    def ctl_match(self, e, mode, want, M):
        scrut = e.scrut
        while scrut.kind == "paren":
            scrut = scrut.e
        if scrut.kind == "tuple" and len(scrut.items) >= 2:
            tys = [self.peek_type(it) for it in scrut.items]
            tys = [self.default_flex(t) if (t is not None and t[0] == "flex") else t for t in tys]
            if all(t is not None and (is_int(t) or t == ("bool",)) for t in tys):
                sl, names = [], []
                for it, t in zip(scrut.items, tys):
                    l1, t1, _ = self.ex(it, t)
                    sl += l1
                    if not re.fullmatch(r"[A-Za-z_][A-Za-z0-9_]*", t1):
                        v = self.fresh()
                        sl.append("let %s := %s" % (v, t1))
                        t1 = v
                    names.append(t1)
                branches, catch_all = [], False
                for a in e.arms:
                    if catch_all:
                        raise Unsupported("match arm after a catch-all arm")
                    if a.guard is not None:
                        raise Unsupported("guard on a tuple match arm")
                    if a.pat.kind == "p_wild":
                        conds = []
                    elif a.pat.kind == "p_tuple" and len(a.pat.items) == len(names):
                        conds = []
                        for q, nm, t in zip(a.pat.items, names, tys):
                            c, b = self.const_pattern(q, nm, t)
                            if b:
                                raise Unsupported("binding inside a tuple pattern of integers")
                            if c is not None:
                                conds.append(c)
                    else:
                        raise Unsupported("pattern not in the subset for a match on a tuple of integers")
                    cond = None if not conds else conds[0] if len(conds) == 1 else "(" + " && ".join(conds) + ")"
                    if cond is None:
                        catch_all = True
                    branches.append(dict(cl=[], cond=cond, body=a.body, binds=[], pre=[]))
                if not catch_all:
                    raise Unsupported("match on a tuple of integers without a catch-all arm")
                if len(branches) == 1:
                    return self.finish_ctl(("block",), sl, [dict(kind="only", body=branches[0]["body"], binds=[], pre=[])], mode, want, M)
                return self.finish_ctl(("chain",), sl, branches, mode, want, M)
        return FnTr2.ctl_match(self, e, mode, want, M)

    # -- loops: a body that calls a member of the group takes the callee as a parameter
    def tr_loop(self, e):
        if e.kind == "for":
            it = e.iter
            while it.kind in ("paren", "ref"):
                it = it.e
            if it.kind == "mcall" and it.name == "iter" and not it.args:
                ty = self.peek_type(it.recv)
                if ty is not None and ty[0] == "btree":
                    e = N("for", pat=e.pat, iter=N("btree_pairs", e=it.recv), body=e.body)
        self.rec_stack.append([])
        n_aux = len(self.aux_defs)
        try:
            lines = FnTr2.tr_loop(self, e)
        finally:
            recs = self.rec_stack.pop()
        if not recs:
            return lines
        aux = "%s.loop%d" % (self.lean, self.loop_count)
        if len(self.aux_defs) <= n_aux or not self.aux_defs[-1][0].startswith("def %s " % aux):
            raise Unsupported("translator error: hoisted loop body not found")
        params = " ".join("(rec__%s : %s)" % (s["name"], s["lean_fn"]) for s in recs)
        self.aux_defs[-1][0] = self.aux_defs[-1][0].replace("def %s " % aux, "def %s %s " % (aux, params), 1)
        if self.rec_stack:
            given = " ".join("rec__%s" % s["name"] for s in recs)
            for s in recs:
                if s not in self.rec_stack[-1]:
                    self.rec_stack[-1].append(s)
        else:
            given = " ".join("(%s fuel)" % s["lean"] for s in recs)
        hit = [i for i, l in enumerate(lines) if ("(%s " % aux) in l or ("(%s)" % aux) in l]
        if len(hit) != 1:
            raise Unsupported("translator error: loop call site not found")
        i = hit[0]
        if ("(%s)" % aux) in lines[i]:
            lines[i] = lines[i].replace("(%s)" % aux, "(%s %s)" % (aux, given), 1)
        else:
            lines[i] = lines[i].replace("(%s " % aux, "(%s %s " % (aux, given), 1)
        return lines

    # -- the text fallback of `from_slice`
    def split_text_fallback(self, body):
        if self.name not in TEXT_FALLBACK:
            return body
        t = body.tail
        ok = (t is not None and t.kind == "match" and len(t.arms) == 2 and all(a.guard is None for a in t.arms))
        if ok:
            a0, a1 = t.arms
            ok = (a0.pat.kind == "p_ctor" and a0.pat.path == ["Ok"] and len(a0.pat.args) == 1
                  and a0.pat.args[0].kind == "p_path" and len(a0.pat.args[0].path) == 1
                  and a1.pat.kind == "p_ctor" and a1.pat.path == ["Err"] and len(a1.pat.args) == 1
                  and a1.pat.args[0].kind == "p_wild")
        if ok:
            v = a0.pat.args[0].path[0]
            b0 = a0.body
            if b0.kind == "block" and not b0.stmts and b0.tail is not None:
                b0 = b0.tail
            ok = (b0.kind == "call" and b0.f.kind == "path" and b0.f.segs == ["Ok"] and len(b0.args) == 1
                  and b0.args[0].kind == "path" and b0.args[0].segs == [v])
            b1 = a1.body
            if b1.kind == "block" and not b1.stmts and b1.tail is not None:
                b1 = b1.tail
            ok = ok and b1.kind == "call" and b1.f.kind == "path" and b1.f.segs == ["parse_value"]
        if not ok:
            raise Unsupported("expected `match <decoder call> { Ok(v) => Ok(v), Err(_) => parse_value(..) }`")
        self.text_param = "text__"
        return N("block", stmts=body.stmts, tail=N("res_or_text", e=t.scrut))

    # -- whole function
    def translate(self):
        p = self.body_parser
        body = p.parse_block()
        if p.peek().k != "eof":
            raise Unsupported("tokens after the function body")
        fallback = None
        if self.name in TEXT_FALLBACK:
            body = self.split_text_fallback(body)
            fallback = body.tail.e
            body = N("block", stmts=body.stmts, tail=None)
        self.scopes = []
        self.push()
        binders, types, names = [], [], []
        for n, t in self.params:
            self.bind(n, t)
            binders.append("(%s : %s)" % (lname(n), self.lt(t)))
            types.append(self.lt(t))
            names.append(lname(n))
        if self.ret[0] == "res" and self.ret[1][0] == "res":
            raise Unsupported("nested Result")
        if fallback is not None:
            if self.mutparams or self.ret[0] != "res":
                raise Unsupported("text fallback in a function of this shape")
            self.scopes[-1]["text__"] = self.ret
            binders.append("(text__ : Res %s)" % self.lt(self.ret_value_type()))
            # the statements, then the decoder call whose error selects the fallback
            self.push()
            lines = []
            for s in body.stmts:
                l1, d1 = self.tr_stmt(s)
                if d1:
                    raise Unsupported("diverging statement before the fallback")
                lines += l1
            if not self.needs_mode(self.callee_sig(fallback)):
                raise Unsupported("the scrutinee of the fallback `match` is not a call of a translated decoder method")
            ls, t, ty = self.in_mode("orelse", fallback)
            self.unify(self.ret_value_type(), ty, "returned value")
            lines += ls + [self.mk_ret("ok", t)]
            self.pop()
        else:
            lines, _, _, _ = self.tr_block(body, "tail", None)
        out = []
        for a in self.aux_defs:
            out += a + [""]
        if self.group is not None:
            head = "def %s : %s → Res %s" % (self.lean, " → ".join(["Nat"] + types), self.lean_ret())
            zero = "  | " + ", ".join(["0"] + ["_"] * len(names)) + " => .fuel"
            succ = "  | " + ", ".join(["fuel+1"] + names) + " => Ctl.run do"
            return out, [head, zero, succ] + ind(lines, 4)
        if self.uses_fuel:
            binders = ["(fuel : Nat)"] + binders
        head = "def %s %s: Res %s := Ctl.run do" % (self.lean, "".join(x + " " for x in binders), self.lean_ret())
        return out, [head] + ind(lines)


# ----------------------------------------------------------------------------- driver

HEADER = """-- GENERATED by tools/rs2lean3.py from the Rust sources of the crate (src/*.rs); do not edit.
-- Phase 3: recursive functions.  One block per translated function or recursive group (hoisted loop
-- bodies `<fn>.loop<k>` first, then one `mutual` block per group; `fuel` decreases by one at every call
-- of a member of the group, `Res.fuel` when it is exhausted).  The meaning of every `Rs.*` / `Ctl.*`
-- name is in JsonbModel/RustPrelude.lean, RustPrelude2.lean and RustPrelude3.lean (+ RustPrelude3Str.lean);
-- the agreement theorems are in Proofs/TranslatedAgreeC*.lean.
import JsonbModel.Generated.Translated2
import JsonbModel.RustPrelude3
import JsonbModel.RustPrelude3Str

set_option linter.unusedVariables false

namespace Jsonb.Tr
open Jsonb.Rs (Ctl)
"""
FOOTER = "end Jsonb.Tr\n"


def phase2_world(repo):
    """declarations and signatures of the phase-1 and phase-2 targets"""
    world = R2.phase1_world(repo)
    for file, kind, name in R2.TYPES2:
        try:
            R2.emit_type2(world, file, kind, name)
        except Unsupported:
            pass
    for file, impl, trait, name, lean in R2.FUNCS2:
        hits = world.find(file, "fn", name, impl, trait)
        if len(hits) != 1:
            continue
        try:
            tr = FnTr2(world, file, impl, trait, name, hits[0], lean)
            for _, t in tr.params:
                R2.lean_type2(t, world)
            R2.lean_type2(tr.ret_value_type(), world)
            params = list(tr.params)
            if name in R2.TEXT_BRANCH:
                params.append(("text__", tr.ret_value_type()))
            world.sigs[(file, impl, name)] = dict(params=params, ret=tr.ret, lean=lean, writer=None, mut=list(tr.mutparams))
            if impl is None:
                world.sigs_names.add(name)
        except Exception:
            pass
    return world


def mut_ref_fields(world, sname):
    """names of the fields of struct `sname` whose declared type is `&['a] mut T`"""
    out = []
    for file in list(world.items):
        for it in world.items[file]:
            if it["kind"] == "struct" and it["name"] == sname:
                p = Parser3(list(it["toks"]))
                try:
                    if p.isp("<"):
                        p.skip_generics()
                    p.expectp("{")
                    while not p.isp("}"):
                        p.skip_attrs()
                        if p.eatid("pub") and p.isp("("):
                            p.skip_balanced()
                        fname = p.ident()
                        p.expectp(":")
                        if p.isp("&") and (p.isid("mut", 1) or (p.peek(1).k == "life" and p.isid("mut", 2))):
                            out.append(fname)
                        p.parse_type()
                        if not p.eatp(","):
                            break
                except Unsupported:
                    return []
    return out


def holder_field(world, tr, it):
    """the field in which a constructor `fn new(p: &mut T) -> S { S { f: p } }` stores its only parameter
    (None for every other function)"""
    if tr.impl is None or len(tr.params) != 1 or tr.mutparams != [tr.params[0][0]] or tr.ret != ("named", tr.impl):
        return None
    fields = world.structs.get(tr.impl)
    if not fields or len(fields) != 1 or fields[0][1] != tr.params[0][1] or mut_ref_fields(world, tr.impl) != [fields[0][0]]:
        return None
    try:
        body = Parser3(tr.body_parser.t, tr.body_parser.i).parse_block()
    except Unsupported:
        return None
    e = body.tail
    if body.stmts or e is None or e.kind != "struct" or e.path not in (["Self"], [tr.impl]) or len(e.fields) != 1:
        return None
    fname, fval = e.fields[0]
    if fname != fields[0][0] or fval.kind != "path" or fval.segs != [tr.params[0][0]]:
        return None
    return fname


def translate_fn3(world, file, impl, trait, name, lean, it, group):
    """enumerate the integer types of unannotated literal `let`s (as rs2lean2.translate_fn);
    -> (aux lines, def lines, uses_fuel)"""
    def attempt(choice):
        tr = FnTr3(world, file, impl, trait, name, it, lean, dict(choice), group)
        aux, lines = tr.translate()
        return aux, lines, tr.uses_fuel

    def solve(choice):
        try:
            return [(dict(choice), attempt(choice))]
        except NeedLitType as e:
            res, errs = [], []
            for c in R2.INT_CANDIDATES:
                ch = dict(choice)
                ch[e.site] = c
                try:
                    res += solve(ch)
                except NeedLitType:
                    raise
                except Unsupported as u:
                    errs.append(str(u))
            if not res:
                raise Unsupported("no integer type fits a literal `let` (%s)" % (errs[0] if errs else "?"))
            return res

    sols = solve({})
    texts = {}
    for ch, r in sols:
        texts.setdefault("\n".join(r[0] + r[1]), []).append(ch)
    if len(texts) == 1:
        return sols[0][1]
    allsites = set()
    for ch, _ in sols:
        allsites |= set(ch)
    if len(sols) == len(R2.INT_CANDIDATES) ** len(allsites):
        for ch, r in sols:
            if all(v == "i32" for v in ch.values()):
                return r
    raise Unsupported("ambiguous integer type of a literal `let`")


def key_of3(file, impl, name):
    return "%s::%s%s" % (file, (impl + "::") if impl else "", name)


def generate(repo, prev_text):
    world = phase2_world(repo)
    world.aliases = {}
    world.error_from = load_error_from(world)
    status = {}
    blocks = []
    prev = {m.group(1): m.group(2) for m in R.BLOCK_RE.finditer(prev_text or "")}

    def guarded(key, fn):
        try:
            r = fn()
            status[key] = "translated" if r is not None else "missing"
            return r
        except Unsupported as e:
            status[key] = "unsupported: %s" % e
        except RecursionError:
            status[key] = "unsupported: expression too deeply nested"
        except Exception as e:
            status[key] = "unsupported: translator error (%s: %s)" % (type(e).__name__, e)
        return None

    for file, name in ALIASES3:
        key = "%s::type %s" % (file, name)
        ty = guarded(key, lambda: load_alias(world, file, name))
        if ty is not None:
            world.aliases[name] = ty
    for file, kind, name in TYPES3:
        key = "%s::%s %s" % (file, kind, name)
        if kind == "enum":
            lines = guarded(key, lambda: emit_enum3(world, file, name))
        else:
            lines = guarded(key, lambda: R2.emit_type2(world, file, kind, name))
        blocks.append((key, lines))
    # signatures of all phase-3 targets first (calls inside a group go both ways)
    items = {}
    for file, impl, trait, name, lean, group in FUNCS3:
        key = key_of3(file, impl, name)
        hits = world.find(file, "fn", name, impl, trait)
        if not hits:
            status[key] = ("unsupported: cannot read %s: %s" % (file, world.file_errors[file])) if file in world.file_errors else "missing"
            continue
        if len(hits) > 1:
            status[key] = "unsupported: defined more than once"
            continue

        def sig_of():
            tr = FnTr3(world, file, impl, trait, name, hits[0], lean, None, group)
            ptys = [lean_type3(t, world) for _, t in tr.params]
            lean_type3(tr.ret_value_type(), world)
            params = list(tr.params)
            if name in TEXT_FALLBACK:
                params.append(("text__", tr.ret))
            world.sigs[(file, impl, name)] = dict(
                params=params, ret=tr.ret, lean=lean, writer=None, mut=list(tr.mutparams), name=name, group=group,
                fuel=(True if group is not None else None),
                lean_fn=" → ".join(ptys + ["Res %s" % tr.lean_ret()]))
            if impl is None:
                world.sigs_names.add(name)
            world.sigs[(file, impl, name)]["holder"] = holder_field(world, tr, hits[0])
            return hits[0]
        it = guarded(key, sig_of)
        if it is not None:
            items[key] = it
    # bodies, in order; the members of a group form one block
    done_groups = set()
    for idx, (file, impl, trait, name, lean, group) in enumerate(FUNCS3):
        key = key_of3(file, impl, name)
        if group is None:
            lines = None
            if key in items:
                def one():
                    aux, body, uses = translate_fn3(world, file, impl, trait, name, lean, items[key], None)
                    world.sigs[(file, impl, name)]["fuel"] = bool(uses)
                    return aux + body
                lines = guarded(key, one)
            if lines is None and (file, impl, name) in world.sigs:
                # callers see the shape of the retained block
                pb = prev.get(key, "")
                world.sigs[(file, impl, name)]["fuel"] = bool(re.search(r"^def %s \(fuel : Nat\)" % re.escape(lean), pb, re.M))
            blocks.append((key, lines))
            continue
        if group in done_groups:
            continue
        done_groups.add(group)
        members = [f for f in FUNCS3 if f[5] == group]
        gkey = "%s::group %s (%s)" % (members[0][0], group, ", ".join(m[3] for m in members))
        auxs, defs, good = [], [], True
        for mfile, mimpl, mtrait, mname, mlean, _ in members:
            mkey = key_of3(mfile, mimpl, mname)
            if mkey not in items:
                good = False
                continue

            def one():
                aux, body, _ = translate_fn3(world, mfile, mimpl, mtrait, mname, mlean, items[mkey], group)
                return aux, body
            r = guarded(mkey, one)
            if r is None:
                good = False
            else:
                auxs += r[0]
                defs += r[1]
        if good:
            status[gkey] = "translated"
            blocks.append((gkey, auxs + ["mutual"] + defs + ["end"]))
        else:
            status[gkey] = "unsupported: a member of the group is not translated"
            blocks.append((gkey, None))
    out = [HEADER]
    ok = True
    for key, lines in blocks:
        out.append("-- BEGIN %s\n" % key)
        if lines is not None:
            out.append("\n".join(lines) + "\n")
        else:
            ok = False
            if key in prev:
                out.append(prev[key])
                status[key] += " (kept the previously generated block)"
            else:
                out.append("-- (no translation available)\n")
        out.append("-- END %s\n\n" % key)
    out.append(FOOTER)
    ok = ok and all(v == "translated" for v in status.values())
    return "".join(out), status, ok


def main(argv):
    to_stdout = "--stdout" in argv
    try:
        prev_text = open(PREV, encoding="utf-8").read()
    except OSError:
        prev_text = ""
    text, status, ok = generate(REPO, prev_text)
    if to_stdout:
        sys.stdout.write(text)
        return 0
    try:
        old = open(OUT, encoding="utf-8").read()
    except OSError:
        old = None
    changed = False
    if old != text:
        changed = True
        os.makedirs(os.path.dirname(OUT), exist_ok=True)
        tmp_out = OUT + ".tmp%d" % os.getpid()
        with open(tmp_out, "w", encoding="utf-8") as f:
            f.write(text)
        os.replace(tmp_out, OUT)
    print(json.dumps({"ok": ok, "functions": status, "changed": changed}))
    return 0


if __name__ == "__main__":
    sys.exit(main(sys.argv[1:]))
