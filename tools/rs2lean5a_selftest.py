#!/usr/bin/env python3
"""Self-test of the phase-5a Rust -> Lean translator (tools/rs2lean5a.py: the byte-level read-only accessors of
functions.rs) and of its agreement theorems (lean/JsonbModel/Proofs/TranslatedAgreeE*.lean).  Same three questions
as the self-tests of phases 1-4:

  (a) robustness: re-formatting the source leaves the generated Lean text byte-identical; a change
      that leaves the subset keeps the committed block and says so;
  (b) sensitivity: each small LOGIC mutation of a target function (wrong tag, wrong offset, element not pushed,
      inverted test, wrong literal, a cast taken from the wrong callee, ...), applied one at a time, changes the
      generated text and makes an agreement proof FAIL, while the unmutated source PASSES;
  (c) tolerance: harmless re-spellings are still proved.

Works on a copy of $VERIF_REPO/src (default /repo) in a temporary directory under /tmp; Lean runs on
scratch files in a second temporary directory (nothing under lean/ is written).  The Lean project
is $RS2LEAN5A_LEAN (default <verif>/lean); its `JsonbModel.Proofs.TranslatedAgreeE` must be built.
Python 3 stdlib only.  Exit code 0 iff everything behaved as expected."""
import concurrent.futures, json, os, re, shutil, subprocess, sys, tempfile, time

HERE = os.path.dirname(os.path.abspath(__file__))
VERIF = os.path.normpath(os.path.join(HERE, ".."))
LEAN = os.environ.get("RS2LEAN5A_LEAN", os.path.join(VERIF, "lean"))
REPO = os.environ.get("VERIF_REPO", "/repo")
TOOL = os.path.join(HERE, "rs2lean5a.py")
JOBS = int(os.environ.get("RS2LEAN_SELFTEST_JOBS", "4"))
COMMITTED = os.path.join(LEAN, "JsonbModel", "Generated", "Translated5a.lean")

sys.path.insert(0, HERE)
import rs2lean  # noqa: E402
import rs2lean2  # noqa: E402
import rs2lean3  # noqa: E402
import rs2lean4  # noqa: E402
import rs2lean5a  # noqa: E402
from rs2lean_selftest import reformat_variants, mutate  # noqa: E402

PARTS = {}
for _f in sorted(os.listdir(os.path.join(LEAN, "JsonbModel", "Proofs"))):
    _m = re.fullmatch(r"TranslatedAgreeE(\d+)\.lean", _f)
    if _m:
        PARTS[int(_m.group(1))] = _f

F = "src/functions.rs"
K = "src/keypath.rs"
IDX = [1]                   # get_by_index, get_by_name
KEYS = [2]                  # object_keys
VALS = [3]                  # array_values, object_each
SCAL = [4]                  # type_of, as_null, as_bool, as_number, as_str
CAST = [5]                  # as_i64 .., is_*, to_*
WHOLE = [6]                 # the whole functions
KP = [7]                    # get_by_keypath
EX = [8]                    # exists_*
TCS = [9]                   # traverse_check_string

# (id, file, old text, new text, which occurrence (0-based), agreement parts to check, theorem expected to fail)
MUTATIONS = [
    # get_by_index / get_by_name
    ("gbi-object-tag", F, "        ARRAY_CONTAINER_TAG => {\n            get_jentry_by_index(value, 0, header, index)", "        OBJECT_CONTAINER_TAG => {\n            get_jentry_by_index(value, 0, header, index)", 0, IDX, "get_by_index_agrees"),
    ("gbi-offset-4", F, "get_jentry_by_index(value, 0, header, index)", "get_jentry_by_index(value, 4, header, index)", 0, IDX, "get_by_index_agrees"),
    ("gbi-extract-at-0", F, "extract_by_jentry(&jentry, encoded, val_offset, value)", "extract_by_jentry(&jentry, encoded, 0, value)", 0, IDX, "get_by_index_agrees"),
    ("gbn-array-tag", F, "        OBJECT_CONTAINER_TAG => get_jentry_by_name(value, 0, header, name, ignore_case).map(", "        ARRAY_CONTAINER_TAG => get_jentry_by_name(value, 0, header, name, ignore_case).map(", 0, IDX, "get_by_name_agrees"),
    ("gbn-always-ignore-case", F, "get_jentry_by_name(value, 0, header, name, ignore_case).map(", "get_jentry_by_name(value, 0, header, name, true).map(", 0, IDX, "get_by_name_agrees"),
    # object_keys
    ("ok-header-object-tag", F, "            let key_header = ARRAY_CONTAINER_TAG | length as u32;", "            let key_header = OBJECT_CONTAINER_TAG | length as u32;", 0, KEYS, "object_keys_agrees"),
    ("ok-key-offset-4-per-pair", F, "            let mut key_offset = 8 * length + 4;", "            let mut key_offset = 4 * length + 4;", 0, KEYS, "object_keys_agrees"),
    ("ok-entry-word-not-copied", F, "                buf.extend_from_slice(&key_encoded.to_be_bytes());\n", "", 0, KEYS, "okeys_loop1_step"),
    ("ok-offset-pushed-before-advance", F, "                key_offset += key_jentry.length as usize;\n                key_offsets.push(key_offset);", "                key_offsets.push(key_offset);\n                key_offset += key_jentry.length as usize;", 0, KEYS, "okeys_loop1_step"),
    ("ok-copies-empty-keys-too", F, "                if key_offset > prev_key_offset {", "                if key_offset >= prev_key_offset {", 0, KEYS, "okeys_loop2_step"),
    ("ok-prev-not-advanced", F, "                prev_key_offset = key_offset;\n", "", 0, KEYS, "okeys_loop2_step"),
    # array_values / object_each
    ("av-val-offset-8-per-entry", F, "            let mut val_offset = 4 * length + 4;\n            let mut items = Vec::with_capacity(length);", "            let mut val_offset = 8 * length + 4;\n            let mut items = Vec::with_capacity(length);", 0, VALS, "array_values_agrees"),
    ("av-item-not-pushed", F, "                items.push(item);\n\n                jentry_offset += 4;\n                val_offset += val_length;", "                jentry_offset += 4;\n                val_offset += val_length;", 0, VALS, None),
    ("av-val-offset-not-advanced", F, "                items.push(item);\n\n                jentry_offset += 4;\n                val_offset += val_length;", "                items.push(item);\n\n                jentry_offset += 4;", 0, VALS, "avals_loop1_step"),
    ("oe-reads-length-words", F, "            for _ in 0..length * 2 {", "            for _ in 0..length {", 0, VALS, "object_each_agrees"),
    ("oe-key-offset-not-advanced", F, "                keys.push_back(value[offset..offset + key_len].to_vec());\n                offset += key_len;", "                keys.push_back(value[offset..offset + key_len].to_vec());", 0, VALS, "oeach_loop2_step"),
    ("oe-pair-swapped", F, "                items.push((key, val));", "                items.push((val, key));", 0, VALS, "oeach_loop3_step"),
    # type_of, as_*
    ("to-true-is-number", F, "                TRUE_TAG | FALSE_TAG => Ok(TYPE_BOOLEAN),", "                FALSE_TAG => Ok(TYPE_BOOLEAN),", 0, SCAL, "type_of_agrees"),
    ("to-array-object-swapped", F, "        ARRAY_CONTAINER_TAG => Ok(TYPE_ARRAY),\n        OBJECT_CONTAINER_TAG => Ok(TYPE_OBJECT),", "        ARRAY_CONTAINER_TAG => Ok(TYPE_OBJECT),\n        OBJECT_CONTAINER_TAG => Ok(TYPE_ARRAY),", 0, SCAL, "type_of_agrees"),
    ("an-true-is-null", F, "                NULL_TAG => Some(()),", "                TRUE_TAG => Some(()),", 0, SCAL, "as_null_agrees"),
    ("ab-true-false-swapped", F, "                FALSE_TAG => Some(false),\n                TRUE_TAG => Some(true),", "                FALSE_TAG => Some(true),\n                TRUE_TAG => Some(false),", 0, SCAL, "as_bool_agrees"),
    ("anum-payload-from-4", F, "                    Number::decode(&value[8..8 + length]).ok()", "                    Number::decode(&value[4..4 + length]).ok()", 0, SCAL, "as_number_agrees"),
    ("astr-number-tag", F, "                STRING_TAG => {\n                    let length = jentry.length as usize;\n                    let s = unsafe { std::str::from_utf8_unchecked(&value[8..8 + length]) };", "                NUMBER_TAG => {\n                    let length = jentry.length as usize;\n                    let s = unsafe { std::str::from_utf8_unchecked(&value[8..8 + length]) };", 0, SCAL, "as_str_agrees"),
    # casts
    ("ai64-through-u64", F, "        Some(num) => num.as_i64(),", "        Some(num) => num.as_u64().map(|v| v as i64),", 0, CAST, None),
    ("isnull-through-bool", F, "    as_null(value).is_some()", "    as_bool(value).is_some()", 0, CAST, "is_null_agrees"),
    ("tb-true-literal", F, "        if &v.to_lowercase() == \"true\" {\n            return Ok(true);", "        if &v.to_lowercase() == \"yes\" {\n            return Ok(true);", 0, CAST, "to_bool_agrees"),
    ("tb-true-gives-false", F, "        if &v.to_lowercase() == \"true\" {\n            return Ok(true);", "        if &v.to_lowercase() == \"true\" {\n            return Ok(false);", 0, CAST, "to_bool_agrees"),
    ("ti64-true-is-2", F, "            return Ok(1_i64);", "            return Ok(2_i64);", 0, CAST, "to_i64_agrees"),
    ("ti64-parses-u64", F, "        if let Ok(v) = v.parse::<i64>() {", "        if let Ok(v) = v.parse::<u64>() {", 0, CAST, None),
    ("tu64-bool-before-number", F, "pub fn to_u64(value: &[u8]) -> Result<u64, Error> {\n    if let Some(v) = as_u64(value) {\n        return Ok(v);\n    } else if let Some(v) = as_bool(value) {", "pub fn to_u64(value: &[u8]) -> Result<u64, Error> {\n    if let Some(v) = as_i64(value) {\n        return Ok(v as u64);\n    } else if let Some(v) = as_bool(value) {", 0, CAST, "to_u64_agrees"),
    ("tf64-true-is-0", F, "            return Ok(1_f64);", "            return Ok(0_f64);", 0, CAST, "to_f64_agrees"),
    ("ts-true-text", F, "            return Ok(\"true\".to_string());", "            return Ok(\"True\".to_string());", 0, CAST, "to_str_agrees"),
    # get_by_keypath
    ("kp-index-bound-ge", F, "                if *idx > length || length + *idx < 0 {\n                    return None;", "                if *idx >= length || length + *idx < 0 {\n                    return None;", 0, KP, "gbk_loop1_step"),
    ("kp-negative-index-from-len-1", F, "                        (length + *idx) as usize\n                    };\n                    match get_jentry_by_index(value, curr_val_offset, header, idx)", "                        (length - 1 + *idx) as usize\n                    };\n                    match get_jentry_by_index(value, curr_val_offset, header, idx)", 0, KP, "gbk_loop1_step"),
    ("kp-scalar-entered", F, "            if jentry.type_code != CONTAINER_TAG {\n                return None;", "            if jentry.type_code == NULL_TAG {\n                return None;", 0, KP, "gbk_loop1_step"),
    ("kp-name-ignores-case", F, "                match get_jentry_by_name(value, curr_val_offset, header, name, false) {", "                match get_jentry_by_name(value, curr_val_offset, header, name, true) {", 0, KP, "gbk_loop1_step"),
    ("kp-offset-not-advanced", F, "                        curr_val_offset = value_offset;", "                        curr_val_offset = curr_val_offset;", 1, KP, "gbk_loop1_step"),
    ("kp-empty-path-none", F, "    if curr_val_offset == 0 {\n        return Some(value.to_vec());", "    if curr_val_offset == 0 {\n        return None;", 0, KP, "get_by_keypath_agrees"),
    # exists_*
    ("ex-object-no-break-result", F, "                if obj_key.eq(key) {\n                    matches = true;\n                    break;", "                if obj_key.eq(key) {\n                    matches = false;\n                    break;", 0, EX, "ejk_loop1"),
    ("ex-array-numbers-count", F, "                if jentry.type_code != STRING_TAG {\n                    continue;", "                if jentry.type_code != NUMBER_TAG {\n                    continue;", 0, EX, "ejk_loop2"),
    ("ex-all-is-any", F, "                if !exists_jsonb_key(value, header, key) {\n                    return false;", "                if exists_jsonb_key(value, header, key) {\n                    return true;", 0, EX, "eall_loop1"),
    ("ex-all-empty-false", F, "            Err(_) => return false,\n        }\n    }\n    true", "            Err(_) => return false,\n        }\n    }\n    false", 0, EX, "exists_all_keys_agrees"),
    ("ex-any-is-all", F, "            if exists_jsonb_key(value, header, key) {\n                return true;", "            if !exists_jsonb_key(value, header, key) {\n                return true;", 0, EX, "eany_loop1"),
    # traverse_check_string
    ("tcs-object-length-entries", F, "            OBJECT_CONTAINER_TAG => length * 2,", "            OBJECT_CONTAINER_TAG => length,", 0, TCS, "tcs_loop2_step"),
    ("tcs-scalar-no-entry", F, "            SCALAR_CONTAINER_TAG => 1,", "            SCALAR_CONTAINER_TAG => 0,", 0, TCS, "tcs_loop2_step"),
    ("tcs-val-offset-8-per-entry", F, "        let mut val_offset = offset + 4 + 4 * size;", "        let mut val_offset = offset + 4 + 8 * size;", 0, TCS, "tcs_loop2_step"),
    ("tcs-enqueues-entry-offset", F, "                CONTAINER_TAG => {\n                    offsets.push_back(val_offset);", "                CONTAINER_TAG => {\n                    offsets.push_back(jentry_offset);", 0, TCS, "tcs_loop1_step"),
    ("tcs-found-is-false", F, "                    if func(&value[val_offset..val_offset + val_length]) {\n                        return true;", "                    if func(&value[val_offset..val_offset + val_length]) {\n                        return false;", 0, TCS, "tcs_loop1_step"),
    ("tcs-default-true", F, "            jentry_offset += 4;\n            val_offset += jentry.length as usize;\n        }\n    }\n\n    false", "            jentry_offset += 4;\n            val_offset += jentry.length as usize;\n        }\n    }\n\n    true", 0, TCS, "traverse_check_string_loop"),
]

# harmless re-spellings: different generated text, same logic -> the proofs must still go through
RESPELLINGS = [
    ("ok-key-offset-commuted", F, "            let mut key_offset = 8 * length + 4;", "            let mut key_offset = 4 + length * 8;", 0, KEYS),
    ("ok-test-flipped", F, "                if key_offset > prev_key_offset {", "                if prev_key_offset < key_offset {", 0, KEYS),
    ("av-val-offset-commuted", F, "            let mut val_offset = 4 * length + 4;\n            let mut items = Vec::with_capacity(length);", "            let mut val_offset = 4 + length * 4;\n            let mut items = Vec::with_capacity(length);", 0, VALS),
    ("av-advance-explicit-sum", F, "                items.push(item);\n\n                jentry_offset += 4;\n                val_offset += val_length;", "                items.push(item);\n\n                jentry_offset = jentry_offset + 4;\n                val_offset = val_length + val_offset;", 0, VALS),
    ("to-bool-tags-swapped", F, "                TRUE_TAG | FALSE_TAG => Ok(TYPE_BOOLEAN),", "                FALSE_TAG | TRUE_TAG => Ok(TYPE_BOOLEAN),", 0, SCAL),
    ("ab-arms-swapped", F, "                FALSE_TAG => Some(false),\n                TRUE_TAG => Some(true),", "                TRUE_TAG => Some(true),\n                FALSE_TAG => Some(false),", 0, SCAL),
    ("anum-payload-end-commuted", F, "                    Number::decode(&value[8..8 + length]).ok()", "                    Number::decode(&value[8..length + 8]).ok()", 0, SCAL),
    ("ti64-explicit-else", F, "        if v {\n            return Ok(1_i64);\n        } else {\n            return Ok(0_i64);\n        }", "        if !v {\n            return Ok(0_i64);\n        } else {\n            return Ok(1_i64);\n        }", 0, CAST),
    ("kp-bound-test-flipped", F, "                if *idx > length || length + *idx < 0 {\n                    return None;", "                if length < *idx || *idx + length < 0 {\n                    return None;", 0, KP),
    ("kp-root-test-flipped", F, "    if curr_val_offset == 0 {\n        return Some(value.to_vec());", "    if 0 == curr_val_offset {\n        return Some(value.to_vec());", 0, KP),
    ("ex-key-test-flipped", F, "                if obj_key.eq(key) {\n                    matches = true;\n                    break;", "                if key.eq(obj_key) {\n                    matches = true;\n                    break;", 0, EX),
    ("tcs-size-commuted", F, "            OBJECT_CONTAINER_TAG => length * 2,", "            OBJECT_CONTAINER_TAG => 2 * length,", 0, TCS),
    ("tcs-val-offset-commuted", F, "        let mut val_offset = offset + 4 + 4 * size;", "        let mut val_offset = offset + 4 + size * 4;", 0, TCS),
]

# changes that leave the subset / remove a target: the tool must say so and keep the committed block
RETENTION = [
    ("out-of-subset-unicode-lowercase", F, "        if &v.to_lowercase() == \"true\" {\n            return Ok(true);", "        if v.to_lowercase().len() == 4 {\n            return Ok(true);", 0,
     "src/functions.rs::to_bool", "unsupported"),
    ("out-of-subset-parse-type", F, "        if let Ok(v) = v.parse::<i64>() {", "        if let Ok(v) = v.parse::<i128>() {", 0,
     "src/functions.rs::to_i64", "unsupported"),
    ("renamed-away", F, "pub fn object_keys(value: &[u8]) -> Option<Vec<u8>> {", "pub fn object_key_list(value: &[u8]) -> Option<Vec<u8>> {", 0,
     "src/functions.rs::object_keys", "missing"),
    ("out-of-subset-iterator-used-twice", F, "    let header = read_u32(value, 0).unwrap_or_default();\n\n    for key in keys {\n        match from_utf8(key) {", "    let header = read_u32(value, 0).unwrap_or_default();\n    let keys = keys.peekable();\n\n    for key in keys {\n        match from_utf8(key) {", 0,
     "src/functions.rs::exists_all_keys", "unsupported"),
    ("text-branch-falls-through", F, "pub fn as_null(value: &[u8]) -> Option<()> {\n    if !is_jsonb(value) {\n        return match parse_value(value) {\n            Ok(val) => val.as_null(),\n            Err(_) => None,\n        };\n    }", "pub fn as_null(value: &[u8]) -> Option<()> {\n    if !is_jsonb(value) {\n        let _ = parse_value(value);\n    }", 0,
     "src/functions.rs::as_null", "unsupported"),
]


def run_tool(src_root, out_path):
    """-> (generated text, status dict)"""
    env = dict(os.environ, VERIF_REPO=src_root, RS2LEAN5A_OUT=out_path, RS2LEAN5A_PREV=COMMITTED)
    if os.path.exists(out_path):
        os.remove(out_path)
    r = subprocess.run([sys.executable, TOOL], env=env, capture_output=True, text=True)
    if r.returncode != 0:
        raise RuntimeError("rs2lean5a.py crashed: " + r.stderr[-2000:])
    status = json.loads(r.stdout.strip().splitlines()[-1])
    r2 = subprocess.run([sys.executable, TOOL, "--stdout"], env=env, capture_output=True, text=True)
    if r2.returncode != 0:
        raise RuntimeError("rs2lean5a.py --stdout crashed: " + r2.stderr[-2000:])
    text = open(out_path, encoding="utf-8").read()
    if text != r2.stdout:
        raise RuntimeError("--stdout and the written file differ")
    return text, status


def scratch_lean(scratch, generated, parts, name):
    """one self-contained Lean file: generated definitions + the agreement parts"""
    imports, bodies = [], []
    texts = [generated] + [open(os.path.join(LEAN, "JsonbModel", "Proofs", PARTS[p]), encoding="utf-8").read() for p in parts]
    for t in texts:
        body = []
        for line in t.splitlines():
            m = re.match(r"import\s+(\S+)", line)
            if m:
                mod = m.group(1)
                if mod == "JsonbModel.Generated.Translated5a" or re.fullmatch(r"JsonbModel\.Proofs\.TranslatedAgreeE\d*", mod):
                    continue
                if mod not in imports:
                    imports.append(mod)
            else:
                body.append(line)
        bodies.append("\n".join(body))
    path = os.path.join(scratch, name + ".lean")
    with open(path, "w", encoding="utf-8") as f:
        f.write("\n".join("import " + m for m in imports) + "\n\n" + "\n\n".join(bodies) + "\n")
    return path


def lean_check(path):
    """-> (ok, first failing theorem or None, seconds)"""
    t0 = time.time()
    r = subprocess.run(["lake", "env", "lean", path], cwd=LEAN, capture_output=True, text=True)
    out = r.stdout + r.stderr
    dt = time.time() - t0
    errs = [int(m.group(1)) for m in re.finditer(r"^[^\n:]+:(\d+):\d+: error", out, re.M)]
    if r.returncode == 0 and not errs:
        return True, None, dt
    first = None
    if errs:
        lines = open(path, encoding="utf-8").read().splitlines()
        for ln in range(min(errs) - 1, -1, -1):
            m = re.match(r"\s*(?:theorem|def|instance)\s+(\S+)", lines[ln] if ln < len(lines) else "")
            if m:
                first = m.group(1)
                break
    return False, first or "(lean failed: %s)" % (out.strip().splitlines() or ["?"])[-1][:80], dt


def all_parts(parts):
    """a part needs the parts before it that it imports"""
    need = set()
    for p in parts:
        need.add(p)
        text = open(os.path.join(LEAN, "JsonbModel", "Proofs", PARTS[p]), encoding="utf-8").read()
        for m in re.finditer(r"^import JsonbModel\.Proofs\.TranslatedAgreeE(\d+)", text, re.M):
            need |= set(all_parts([int(m.group(1))]))
    return sorted(need)


def main():
    only = [a for a in sys.argv[1:] if not a.startswith("-")]
    t_start = time.time()
    tmp = tempfile.mkdtemp(prefix="rs2lean5a_selftest_src_", dir="/tmp")
    scratch = tempfile.mkdtemp(prefix="rs2lean5a_selftest_lean_", dir="/tmp")
    failures, rows = [], []
    have_parts = sorted(PARTS)
    try:
        shutil.copytree(os.path.join(REPO, "src"), os.path.join(tmp, "src"))
        out = os.path.join(scratch, "Translated5a.out.lean")
        base, status = run_tool(tmp, out)
        bad = {k: v for k, v in status["functions"].items() if v != "translated"}
        if bad:
            failures.append("baseline: not everything translated: %s" % bad)
        committed = open(COMMITTED, encoding="utf-8").read()
        rows.append(("baseline", "generated == committed Translated5a.lean", "yes" if committed == base else "NO", ""))
        if committed != base:
            failures.append("baseline: generated text differs from the committed Generated/Translated5a.lean")

        # (a) formatting robustness
        files = sorted(set(f[0] for f in rs2lean5a.FUNCS5A) | set(f for f, _, _ in rs2lean5a.TYPES5A)
                       | set(f[0] for f in rs2lean4.FUNCS4) | {"src/builder.rs", "src/iterator.rs", "src/jentry.rs"}
                       | set(f[0] for f in rs2lean3.FUNCS3) | set(f for f, _, _ in rs2lean3.TYPES3)
                       | set(f for f, _, _, _, _ in rs2lean2.FUNCS2) | set(f for f, _, _ in rs2lean2.TYPES2)
                       | set(f for f, _, _, _ in rs2lean.FUNCS) | set(f for f, _, _ in rs2lean.TYPES)
                       | {"src/constants.rs", "src/error.rs"})
        originals = {f: open(os.path.join(tmp, f), encoding="utf-8").read() for f in files}
        if not only:
            for vi in range(3):
                name = None
                for f in files:
                    name, text = reformat_variants(originals[f])[vi]
                    open(os.path.join(tmp, f), "w", encoding="utf-8", newline="").write(text)
                text, st = run_tool(tmp, out)
                same = text == base
                rows.append(("format", name, "identical" if same else "DIFFERENT", ""))
                if not same:
                    failures.append("format variant %s changed the output" % name)
                for f in files:
                    open(os.path.join(tmp, f), "w", encoding="utf-8").write(originals[f])

            # (a') retention of committed blocks
            for mid, file, old, new, occ, key, want in RETENTION:
                saved = mutate(tmp, file, old, new, occ)
                try:
                    text, st = run_tool(tmp, out)
                finally:
                    open(os.path.join(tmp, file), "w", encoding="utf-8").write(saved)
                got = st["functions"].get(key, "?")
                good = got.startswith(want) and text == base and st["ok"] is False
                rows.append(("retention", mid, ("%s, committed block kept" % want) if good else "WRONG: %s" % got[:70], ""))
                if not good:
                    failures.append("retention %s: status %r, text identical: %s" % (mid, got, text == base))

        jobs = []     # (kind, id, path, expected_ok, expected_theorem)
        if not only:
            jobs.append(("baseline", "unmutated", scratch_lean(scratch, base, have_parts, "base"), True, None))
        for kind, table in (("mutation", MUTATIONS), ("respelling", RESPELLINGS)):
            for row in table:
                mid, file, old, new, occ, parts = row[:6]
                if only and mid not in only:
                    continue
                expect = row[6] if kind == "mutation" else None
                if any(p not in have_parts for p in parts):
                    rows.append((kind, mid, "SKIPPED (part missing)", ""))
                    continue
                saved = mutate(tmp, file, old, new, occ)
                try:
                    text, st = run_tool(tmp, out)
                finally:
                    open(os.path.join(tmp, file), "w", encoding="utf-8").write(saved)
                nb = {k: v for k, v in st["functions"].items() if v != "translated"}
                if nb:
                    if kind == "mutation" and expect is None:
                        rows.append((kind, mid, "leaves the subset (reported, block kept)", ""))
                        continue
                    rows.append((kind, mid, "UNSUPPORTED", str(nb)[:100]))
                    failures.append("%s %s left the subset: %s" % (kind, mid, nb))
                    continue
                if text == base:
                    if kind == "respelling":
                        rows.append((kind, mid, "generated text identical (nothing to re-prove)", ""))
                        continue
                    rows.append((kind, mid, "NO CHANGE in generated text", ""))
                    failures.append("%s %s did not change the generated text" % (kind, mid))
                    continue
                jobs.append((kind, mid, scratch_lean(scratch, text, all_parts(parts), mid), kind == "respelling", expect))

        with concurrent.futures.ThreadPoolExecutor(max_workers=JOBS) as ex:
            results = list(ex.map(lambda j: lean_check(j[2]), jobs))
        for (kind, mid, path, exp_ok, exp_thm), (ok, thm, dt) in zip(jobs, results):
            if exp_ok:
                verdict = "proofs PASS" if ok else "proofs FAIL at %s" % thm
                if not ok:
                    failures.append("%s %s: expected the agreement proofs to pass, failed at %s" % (kind, mid, thm))
            else:
                verdict = ("proof FAILS at %s" % thm) if not ok else "NOT DETECTED (proofs pass)"
                if ok:
                    failures.append("mutation %s was not detected" % mid)
                elif exp_thm and thm != exp_thm:
                    verdict += " (expected %s)" % exp_thm
            rows.append((kind, mid, verdict, "%.1fs" % dt))
    finally:
        shutil.rmtree(tmp, ignore_errors=True)
        if not os.environ.get("RS2LEAN5A_KEEP"):
            shutil.rmtree(scratch, ignore_errors=True)

    w1 = max(len(r[0]) for r in rows)
    w2 = max(len(r[1]) for r in rows)
    w3 = max(len(r[2]) for r in rows)
    print("%-*s  %-*s  %-*s  %s" % (w1, "kind", w2, "case", w3, "result", "time"))
    for r in rows:
        print("%-*s  %-*s  %-*s  %s" % (w1, r[0], w2, r[1], w3, r[2], r[3]))
    n_mut = sum(1 for r in rows if r[0] == "mutation" and not r[2].startswith("SKIPPED"))
    n_det = sum(1 for r in rows if r[0] == "mutation" and r[2].startswith("proof FAILS"))
    print("mutations detected: %d / %d; wall %.0fs" % (n_det, n_mut, time.time() - t_start))
    if failures:
        print("SELFTEST FAILED:")
        for f in failures:
            print("  - " + f)
        return 1
    print("SELFTEST OK")
    return 0


if __name__ == "__main__":
    sys.exit(main())
