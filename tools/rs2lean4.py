#!/usr/bin/env python3
"""rs2lean4: phase 4 of the Rust -> Lean translator: the BUILDERS of builder.rs and the byte-level
EDITORS of functions.rs that are loops over the crate's iterators plus a builder.  Extends the subset of
tools/rs2lean3.py (which extends rs2lean2.py / rs2lean.py) with
  * groups of mutually recursive TYPES (`enum Entry` <-> `struct ArrayBuilder` / `ObjectBuilder`): one Lean
    `mutual` block of `inductive` / `structure` declarations; struct fields of type `Vec<T>`,
    `BTreeMap<&str, T>`, `Option<VecDeque<T>>`;
  * `for x in <iterator struct>` (a value whose type has a translated `impl Iterator … fn next`), also with
    `.enumerate()`: `Rs.forIter fuel T.next it init body` - the loop calls `next` until `None`; there is no
    syntactic bound, so the function takes the explicit `fuel : Nat` of phase 3 and answers `Res.fuel`
    when it is exhausted;
  * `&mut self` methods called on a local variable (`builder.push_raw(..)`, `obj_iter.next()`), by-value
    `self` methods with `&mut` parameters (`builder.build_into(buf)`);
  * `while let Some(pat) = q.pop_front()` with a tuple pattern, `if let Some(pat) = it.next()`;
  * untyped `let mut q = VecDeque::with_capacity(n)` / `BTreeSet::new()` / `BTreeMap::new()`: the element
    type is taken from the first `push_back` / `insert` (the translation is re-run with it);
  * `BTreeSet<K>` / `BTreeMap<K, i32>` keyed by `(JEntry, &[u8])` or `&str`: the key-sorted list of the
    derived `Ord` (`Rs.setContains` / `Rs.setInsert` / `Rs.mapGet` / `Rs.mapSet` of RustPrelude4.lean);
  * the sniffing public functions `f(value, ..) { if !is_jsonb(value) { <text branch> } f_jsonb(..) }`:
    the text branch is a parameter `text__` (as in phase 2).
Output: lean/JsonbModel/Generated/Translated4.lean (namespace Jsonb.Tr, after the phase-1/2/3 files).
The semantics of every new primitive is in the hand-written lean/JsonbModel/RustPrelude4.lean.
Same conventions as the earlier phases (see tools/RS2LEAN.md): reads $VERIF_REPO (default /repo), writes
the output only when it changes, prints ONE JSON status line last; `--stdout` prints the text and writes
nothing; a function outside the subset keeps its previously generated block.  Python 3 stdlib only."""
import json, os, re, sys

HERE = os.path.dirname(os.path.abspath(__file__))
sys.path.insert(0, HERE)
import rs2lean as R  # noqa: E402
import rs2lean2 as R2  # noqa: E402
import rs2lean3 as R3  # noqa: E402
from rs2lean import N, Tok, Unsupported, NeedType, is_int, is_bytes, lname, ind  # noqa: E402
from rs2lean2 import NeedLitType, strip, U8, STR  # noqa: E402
from rs2lean3 import Parser3, FnTr3, norm3, lean_type3, tystr3, resolve_alias  # noqa: E402

REPO = os.environ.get("VERIF_REPO", "/repo")
OUT = os.environ.get("RS2LEAN4_OUT", os.path.normpath(os.path.join(HERE, "..", "lean", "JsonbModel", "Generated", "Translated4.lean")))
PREV = os.environ.get("RS2LEAN4_PREV", OUT)

B = "src/builder.rs"
F = "src/functions.rs"
I = "src/iterator.rs"

# type declarations: (file, kind, name) with kind "struct" | "typegroup" (name = tuple of (kind, name))
TYPES4 = [
    (B, "typegroup", (("enum", "Entry"), ("struct", "ArrayBuilder"), ("struct", "ObjectBuilder"))),
    (I, "struct", "ObjectEntryIterator"),
    ("src/jentry.rs", "derive_ord", "JEntry"),
]

# (file, impl type or None, trait or None, fn name, Lean name, recursive group or None); dependency order
FUNCS4 = [
    (B, "ArrayBuilder", None, "new", "ArrayBuilder.new", None),
    (B, "ArrayBuilder", None, "push_raw", "ArrayBuilder.push_raw", None),
    (B, "ArrayBuilder", None, "push_array", "ArrayBuilder.push_array", None),
    (B, "ArrayBuilder", None, "push_object", "ArrayBuilder.push_object", None),
    (B, "ObjectBuilder", None, "new", "ObjectBuilder.new", None),
    (B, "ObjectBuilder", None, "push_raw", "ObjectBuilder.push_raw", None),
    (B, "ObjectBuilder", None, "push_array", "ObjectBuilder.push_array", None),
    (B, "ObjectBuilder", None, "push_object", "ObjectBuilder.push_object", None),
    (B, "ArrayBuilder", None, "build_into", "ArrayBuilder.build_into", "builder"),
    (B, "ObjectBuilder", None, "build_into", "ObjectBuilder.build_into", "builder"),
    (B, None, None, "write_entry", "write_entry", "builder"),
    (I, None, None, "iterate_object_entries", "iterate_object_entries", None),
    (I, "ObjectEntryIterator", None, "fill_keys", "ObjectEntryIterator.fill_keys", None),
    (I, "ObjectEntryIterator", "Iterator", "next", "ObjectEntryIterator.next", None),
    (F, None, None, "delete_jsonb_by_index", "delete_jsonb_by_index", None),
    (F, None, None, "delete_by_index", "delete_by_index", None),
    (F, None, None, "concat_jsonb", "concat_jsonb", None),
    (F, None, None, "concat", "concat", None),
    (F, None, None, "delete_jsonb_by_name", "delete_jsonb_by_name", None),
    (F, None, None, "array_insert_jsonb", "array_insert_jsonb", None),
    (F, None, None, "object_delete_jsonb", "object_delete_jsonb", None),
    (F, None, None, "object_pick_jsonb", "object_pick_jsonb", None),
    (F, None, None, "array_distinct_jsonb", "array_distinct_jsonb", None),
    (F, None, None, "array_intersection_jsonb", "array_intersection_jsonb", None),
    (F, None, None, "array_except_jsonb", "array_except_jsonb", None),
]

# translated and elaborated on request only (RS2LEAN4_EXTRA=object_insert,overlap): these translate, their agreement
# with Functions/Edit.lean is not proved yet (see tools/RS2LEAN.md), so they are not part of the default output
EXTRA4 = {
    "object_insert": [
        (F, None, None, "object_insert_jsonb", "object_insert_jsonb", None),
    ],
    "overlap": [
        (F, None, None, "array_overlap_jsonb", "array_overlap_jsonb", None),
    ],
}
for _x in os.environ.get("RS2LEAN4_EXTRA", "").split(","):
    if _x in EXTRA4:
        FUNCS4 = FUNCS4 + EXTRA4[_x]

# public functions of the shape `if <sniff> { <text branch; returns> } <jsonb helper>(..)`: the text
# branch calls the JSON text parser and is kept as a parameter `text__` holding its result
TEXT_PROLOGUE = {"delete_by_index", "concat"}

# size_of::<T>() of the enums a Vec is created with (x86_64, checked with a probe; only the threshold of
# the `capacity overflow` panic of `with_capacity` depends on it)
R3.ENUM_SIZES.setdefault("Entry", 32)

RESERVED4 = set("it__ Entry ArrayBuilder ObjectBuilder ObjectEntryIterator".split())

# `matches` is a token of Lean 4 (`e matches p`): a Rust local of that name is written `matches_`
R.LEAN_KEYWORDS.add("matches")


class FoundHole(Exception):
    """the element type of an untyped container `let` has been found at its first use"""

    def __init__(self, site, ty):
        Exception.__init__(self, "hole %d" % site)
        self.site, self.ty = site, ty


# ----------------------------------------------------------------------------- parser

class Parser4(Parser3):
    def parse_type(self):
        if self.isid("BTreeSet") and self.isp("<", 1):
            self.next()
            args = self.parse_generic_args()
            if len(args) != 1:
                raise Unsupported("BTreeSet arguments")
            return ("bset", args[0])
        return Parser3.parse_type(self)


# ----------------------------------------------------------------------------- types

def norm4(t):
    k = t[0]
    if k == "bset":
        return ("bset", norm4(t[1]))
    if k == "btree":
        return ("btree", norm4(t[1]), norm4(t[2]))
    if k in ("opt", "res", "vec", "slice", "deque"):
        return (k, norm4(t[1]))
    if k == "array":
        return (k, norm4(t[1]), t[2])
    if k == "tuple":
        return (k, tuple(norm4(x) for x in t[1]))
    return norm3(t)


def lean_type4(t, world):
    k = t[0]
    if k == "bset":
        return "(List %s)" % lean_type4(t[1], world)
    if k == "btree":
        return "(List (%s × %s))" % (lean_type4(t[1], world), lean_type4(t[2], world))
    if k in ("vec", "slice", "array", "deque") and not is_bytes(t):
        return "(List %s)" % lean_type4(t[1], world)
    if k == "opt":
        return "(Option %s)" % lean_type4(t[1], world)
    if k == "tuple":
        return "(" + " × ".join(lean_type4(x, world) for x in t[1]) + ")"
    if k == "hole":
        return "_"                      # never reaches the output: see FnTr4.translate
    return lean_type3(t, world)


def tystr4(t):
    if t is not None and t[0] == "bset":
        return "BTreeSet<%s>" % tystr4(t[1])
    if t is not None and t[0] == "hole":
        return "_"
    if t is not None and t[0] == "deque":
        return "VecDeque<%s>" % tystr4(t[1])
    return tystr3(t)


def size_align4(t, world):
    """(size_of, align_of) on x86_64 for the element types a Vec / VecDeque is created with"""
    if is_int(t):
        n = (64 if t[1].endswith("size") else int(t[1][1:])) // 8
        return n, n
    if t == ("bool",):
        return 1, 1
    if t == STR or (t[0] == "slice" and t[1] == U8):
        return 16, 8                    # a fat pointer
    if t[0] == "named" and t[1] in world.enums and t[1] in R3.ENUM_SIZES:
        return R3.ENUM_SIZES[t[1]], 8
    if t[0] == "named" and t[1] in world.structs:
        parts = [size_align4(ft, world) for _, ft in world.structs[t[1]]]
    elif t[0] == "tuple":
        parts = [size_align4(x, world) for x in t[1]]
    else:
        raise Unsupported("size of `%s`" % tystr4(t))
    if not parts:
        return 0, 1
    # rustc orders the fields by decreasing alignment: no padding between them when every size is a
    # multiple of its alignment; the total is rounded up to the largest alignment
    al = max(a for _, a in parts)
    if any(s % a for s, a in parts):
        raise Unsupported("size of `%s`" % tystr4(t))
    total = sum(s for s, _ in parts)
    return (total + al - 1) // al * al, al


def parse_fields4(it):
    """named fields of a struct item -> [(name, type)]; lifetime-only generics"""
    p = Parser4(list(it["toks"]))
    if p.isp("<"):
        inner = p.skip_generics()
        if any(t.k != "life" and not (t.k == "p" and t.v == ",") for t in inner):
            raise Unsupported("generic struct")
    if not p.isp("{"):
        raise Unsupported("tuple/unit struct")
    p.next()
    fields = []
    while not p.isp("}"):
        p.skip_attrs()
        if p.eatid("pub") and p.isp("("):
            p.skip_balanced()
        fname = p.ident()
        p.expectp(":")
        fields.append((fname, norm4(p.parse_type())))
        if not p.eatp(","):
            break
    p.expectp("}")
    return fields


def parse_variants4(it, world):
    p = Parser4(list(it["toks"]))
    if p.isp("<"):
        inner = p.skip_generics()
        if any(t.k != "life" and not (t.k == "p" and t.v == ",") for t in inner):
            raise Unsupported("generic enum")
    p.expectp("{")
    variants = []
    while not p.isp("}"):
        p.skip_attrs()
        vname = p.ident()
        tys = []
        if p.eatp("("):
            while not p.isp(")"):
                tys.append(resolve_alias(norm4(p.parse_type()), world))
                if not p.eatp(","):
                    break
            p.expectp(")")
        elif p.isp("{"):
            raise Unsupported("struct-like enum variant")
        if p.eatp("="):
            raise Unsupported("explicit discriminant")
        variants.append((vname, tys))
        if not p.eatp(","):
            break
    p.expectp("}")
    return variants


def field_ok4(t, world):
    k = t[0]
    if k in ("int", "bool", "f64", "str") or is_bytes(t):
        return True
    if k == "named":
        return t[1] in world.enums or t[1] in world.structs
    if k in ("vec", "deque", "opt"):
        return field_ok4(t[1], world)
    if k == "btree":
        return t[1] == STR and field_ok4(t[2], world)
    if k == "tuple":
        return all(field_ok4(x, world) for x in t[1])
    return False


def find_one(world, file, kind, name):
    hits = world.find(file, kind, name)
    if not hits:
        if file in world.file_errors:
            raise Unsupported("cannot read %s: %s" % (file, world.file_errors[file]))
        return None
    if len(hits) > 1:
        raise Unsupported("declared more than once")
    return hits[0]


def emit_struct4(world, file, name):
    it = find_one(world, file, "struct", name)
    if it is None:
        return None
    fields = parse_fields4(it)
    for _, t in fields:
        if not field_ok4(t, world):
            raise Unsupported("field type %s" % tystr4(t))
    world.structs[name] = fields
    lines = ["structure %s where" % name]
    for f, t in fields:
        lines.append("  %s : %s" % (lname(f), lean_type4(t, world)))
    lines.append("  deriving Repr, DecidableEq")
    return lines


def emit_typegroup4(world, file, members):
    """mutually recursive enums / structs -> one Lean `mutual` block"""
    decls = []
    for kind, name in members:
        it = find_one(world, file, kind, name)
        if it is None:
            return None
        decls.append((kind, name, it))
    saved = (dict(world.structs), dict(world.enums))
    try:
        for kind, name, it in decls:            # registered first: the members mention each other
            if kind == "enum":
                world.enums[name] = []
            else:
                world.structs[name] = []
        for kind, name, it in decls:
            if kind == "enum":
                world.enums[name] = parse_variants4(it, world)
            else:
                world.structs[name] = parse_fields4(it)
        lines = ["mutual"]
        for kind, name, it in decls:
            if kind == "enum":
                for _, tys in world.enums[name]:
                    for t in tys:
                        if not field_ok4(t, world):
                            raise Unsupported("payload type %s" % tystr4(t))
                lines.append("inductive %s where" % name)
                for v, tys in world.enums[name]:
                    lines.append("  | %s%s" % (lname(v), "".join(" (a%d : %s)" % (i, lean_type4(t, world)) for i, t in enumerate(tys))))
            else:
                for _, t in world.structs[name]:
                    if not field_ok4(t, world):
                        raise Unsupported("field type %s" % tystr4(t))
                lines.append("structure %s where" % name)
                for f, t in world.structs[name]:
                    lines.append("  %s : %s" % (lname(f), lean_type4(t, world)))
        lines.append("end")
        return lines
    except Unsupported:
        world.structs, world.enums = saved[0], saved[1]
        raise


def emit_derive_ord4(world, file, name):
    """`#[derive(.., PartialOrd, .., Ord)] struct Name { integer fields }` -> `def Name.cmp`: the derived `Ord`
    compares the fields in declaration order"""
    try:
        toks = R.tokenize(open(os.path.join(world.repo, file), encoding="utf-8").read())
    except (OSError, Unsupported) as e:
        raise Unsupported("cannot read %s: %s" % (file, e))
    hits = []
    for i, t in enumerate(toks):
        if t.k == "id" and t.v == "struct" and toks[i + 1].k == "id" and toks[i + 1].v == name:
            # walk back over visibility and attributes
            j = i - 1
            if j >= 0 and toks[j].k == "p" and toks[j].v == ")":
                while j >= 0 and not (toks[j].k == "p" and toks[j].v == "("):
                    j -= 1
                j -= 1
            if j >= 0 and toks[j].k == "id" and toks[j].v == "pub":
                j -= 1
            derives = []
            while j >= 0 and toks[j].k == "p" and toks[j].v == "]":
                k = j
                depth = 0
                while k >= 0:
                    if toks[k].k == "p" and toks[k].v == "]":
                        depth += 1
                    elif toks[k].k == "p" and toks[k].v == "[":
                        depth -= 1
                        if depth == 0:
                            break
                    k -= 1
                inner = toks[k + 1:j]
                if inner and inner[0].k == "id" and inner[0].v == "derive":
                    derives += [x.v for x in inner[1:] if x.k == "id"]
                j = k - 1
                if j >= 0 and toks[j].k == "p" and toks[j].v == "#":
                    j -= 1
            hits.append(derives)
    if not hits:
        return None
    if len(hits) > 1:
        raise Unsupported("declared more than once")
    if "Ord" not in hits[0] or "PartialOrd" not in hits[0]:
        raise Unsupported("`%s` does not derive PartialOrd and Ord" % name)
    fields = world.structs.get(name)
    if not fields or any(not is_int(ft) for _, ft in fields):
        raise Unsupported("derived Ord of a struct whose fields are not all integers")
    terms = ["(compare a.%s b.%s)" % (lname(f), lname(f)) for f, _ in fields]
    body = terms[-1]
    for t in reversed(terms[:-1]):
        body = "(%s.then %s)" % (t, body)
    world.derived_ord = getattr(world, "derived_ord", set()) | {name}
    return ["def %s.cmp (a b : %s) : Ordering := %s" % (name, name, body)]


def cmp_term4(t, world):
    """the `Ord` of a key type as a Lean term `K → K → Ordering`"""
    if t == STR or is_bytes(t):
        return "Rs.cmpBytes"
    if is_int(t):
        return "(compare : Int → Int → Ordering)"
    if t[0] == "named" and t[1] in getattr(world, "derived_ord", set()):
        return "%s.cmp" % t[1]
    if t[0] == "tuple" and len(t[1]) >= 2:
        parts = [cmp_term4(x, world) for x in t[1]]
        term = parts[-1]
        for p in reversed(parts[:-1]):
            term = "(Rs.cmpLex %s %s)" % (p, term)
        return term
    raise Unsupported("no `Ord` known for the key type %s" % tystr4(t))


# ----------------------------------------------------------------------------- function translator

class FnTr4(FnTr3):
    def __init__(self, world, file, impl, trait, name, it, lean, lit_choice=None, group=None, holes=None):
        self.holes = holes if holes is not None else {}
        self.hole_sites = 0
        self.open_holes = set()
        self.maprefs = {}               # local bound by `if let Some(x) = m.get_mut(&k)` -> (map place, key term, cmp term)
        FnTr3.__init__(self, world, file, impl, trait, name, it, lean, lit_choice, group)
        self.body_parser = Parser4(self.body_parser.t, self.body_parser.i)
        for x in self.idents:
            if x.endswith("__"):
                raise Unsupported("identifier `%s` clashes with a name used by the generated Lean" % x)

    def bind(self, name, ty):
        if name in RESERVED4:
            raise Unsupported("local name `%s` clashes with a name used by the generated Lean" % name)
        FnTr3.bind(self, name, ty)

    # -- signature: rs2lean3's parse_sig with the phase-4 type parser; generic `K: AsRef<str>` refused
    def parse_sig(self, it):
        toks = list(it["toks"])
        FnTr3.parse_sig(self, dict(it, toks=toks))
        # re-parse the parameter and return types with Parser4 (BTreeSet)
        p = Parser4(list(it["toks"]))
        if p.isp("<"):
            p.skip_generics()
        p.expectp("(")
        params = []
        while not p.isp(")"):
            p.skip_attrs()
            if p.isp("&") and (p.isid("self", 1) or (p.peek(1).k == "life" and p.isid("self", 2))
                               or (p.isid("mut", 1) and p.isid("self", 2))
                               or (p.peek(1).k == "life" and p.isid("mut", 2) and p.isid("self", 3))):
                p.next()
                if p.peek().k == "life":
                    p.next()
                p.eatid("mut")
                p.next()
                params.append(("self", ("named", "Self")))
            elif p.isid("self"):
                p.next()
                params.append(("self", ("named", "Self")))
            else:
                p.eatid("mut")
                name = p.ident()
                p.expectp(":")
                params.append((name, p.parse_type()))
            if not p.eatp(","):
                break
        p.expectp(")")
        ret = ("unit",)
        if p.eatp("->"):
            ret = p.parse_type()
        self.params = [(n, self.resolve(t)) for n, t in params]
        self.ret = self.resolve(ret)
        self.body_parser = p

    def resolve(self, t):
        t = norm4(t)
        if t[0] == "bset":
            return ("bset", self.resolve(t[1]))
        if t[0] == "btree":
            return ("btree", self.resolve(t[1]), self.resolve(t[2]))
        if t[0] == "deque":
            return ("deque", self.resolve(t[1]))
        if t[0] == "opt":
            return ("opt", self.resolve(t[1]))
        if t[0] == "tuple":
            return ("tuple", tuple(self.resolve(x) for x in t[1]))
        return norm4(FnTr3.resolve(self, t))

    def lt(self, t):
        return lean_type4(t, self.w)

    def concrete(self, t):
        if t is not None and t[0] == "hole":
            return False
        if t is not None and t[0] == "bset":
            return self.concrete(t[1])
        return FnTr3.concrete(self, t)

    def unify(self, a, b, what="types"):
        if a is not None and b is not None and a[0] == "bset" and b[0] == "bset":
            return ("bset", self.unify(a[1], b[1], what))
        if a is not None and b is not None and a[0] == "deque" and b[0] == "deque":
            return ("deque", self.unify(a[1], b[1], what))
        if a is not None and b is not None and (a == STR or b == STR) and a != b \
                and a[0] in ("str", "slice", "vec", "array") and b[0] in ("str", "slice", "vec", "array"):
            raise Unsupported("%s differ: %s vs %s" % (what, tystr4(a), tystr4(b)))
        return FnTr3.unify(self, a, b, what)

    def peek_type(self, e):
        save_sites = self.hole_sites
        try:
            return FnTr3.peek_type(self, e)
        except FoundHole:
            return None
        finally:
            self.hole_sites = save_sites

    # -- iterator structs: named types with a translated `impl Iterator … fn next`
    def iter_sig(self, ty):
        if ty is not None and ty[0] == "named":
            sig = self.find_sig(ty[1], "next")
            if sig is not None and sig.get("trait") == "Iterator" and sig.get("mut") == ["self"] \
                    and sig["ret"][0] == "opt" and len(sig["params"]) == 1:
                return sig
        return None

    # -- calls: `&mut self` methods on locals, by-value `self` with `&mut` parameters
    def user_call(self, sig, args, recv=None):
        muts = list(sig.get("mut", []))
        if sig.get("fuel") is None and "fuel" in sig:
            raise Unsupported("call of %s before its translation (dependency order)" % sig["lean"])
        if muts and not sig.get("fuel") and not sig.get("writer") and sig["ret"][0] != "res":
            # `&mut` parameters, no Result, no fuel: the general path of rs2lean3 (places, `&mut self` on a
            # local variable), which rs2lean2 limits to `self.method(..)`
            return self.user_call_general(sig, args, recv)
        return FnTr3.user_call(self, sig, args, recv)

    def user_call_general(self, sig, args, recv):
        mode, self.call_mode = self.call_mode, None
        muts = list(sig.get("mut", []))
        params = sig["params"]
        allargs = ([recv] if recv is not None else []) + list(args)
        if len(allargs) != len(params):
            raise Unsupported("arity of call to %s" % sig["lean"])
        ls, terms, outs = [], [], []
        for ae, (pn, pt) in zip(allargs, params):
            if pn in muts:
                pl = self.place_arg(ae)
                if pl[0] == "self":
                    if "self" not in self.mutparams:
                        raise Unsupported("`&mut self` method called on an immutable `self`")
                    outs.append(pl); terms.append("self")
                    continue
                self.unify(pl[2], pt, "`&mut` argument type")
                outs.append(pl); terms.append(self.place_term(pl))
                continue
            if isinstance(ae, tuple):
                l1, t1 = ae
            else:
                l1, t1, _ = self.ex(ae, pt)
            ls += l1
            terms.append(self.atom(t1))
        keys = [(p[0], p[1] if len(p) > 1 else "") for p in outs]
        if len(set(keys)) != len(keys):
            raise Unsupported("the same place passed twice as `&mut`")
        call = " ".join([sig["lean"]] + terms)
        ret = sig["ret"]
        pats, stores = [], []
        r = "()"
        if ret != ("unit",):
            r = self.fresh()
            pats.append(r)
        for pl in outs:
            if pl[0] == "self":
                pats.append("self")
            elif pl[0] == "var":
                pats.append(lname(pl[1]))
            else:
                t = self.fresh()
                pats.append(t)
                stores += self.place_store(pl, t)
        pat = pats[0] if len(pats) == 1 else "(" + ", ".join(pats) + ")"
        return ls + ["let %s ← Ctl.ofRes (%s)" % (pat, call)] + stores, r, ret

    def place_arg(self, ae):
        if isinstance(ae, tuple):
            _, t1 = ae
            if t1 == "self":
                return ("self",)
            for x in reversed(self.visible()):
                if lname(x) == t1 and self.lookup(x) is not None:
                    return ("var", x, self.lookup(x))
            raise Unsupported("`&mut self` method called on something that is not a local variable")
        return FnTr3.place_arg(self, ae)

    # -- assigned outer variables: rs2lean2's analysis plus method calls on locals
    def method_mut_positions(self, name):
        """-> (receiver may be mutated, set of argument positions that may be `&mut`) over every translated
        method of that name (the receiver's type is not known during this syntactic analysis)"""
        recv_mut, pos = False, set()
        for (f, i, n), sig in self.w.sigs.items():
            if n != name or i is None:
                continue
            ps = sig["params"]
            if not ps or ps[0][0] != "self":
                continue
            muts = sig.get("mut", [])
            if "self" in muts:
                recv_mut = True
            for k, (pn, _) in enumerate(ps[1:]):
                if pn in muts:
                    pos.add(k)
        return recv_mut, pos

    def assigned(self, node):
        out = []

        def pat_names(p, acc):
            if p is None:
                return
            if p.kind == "p_path" and len(p.path) == 1:
                acc.add(p.path[0])
            elif p.kind == "p_bind":
                acc.add(p.name); pat_names(p.sub, acc)
            elif p.kind == "p_tuple":
                for q in p.items:
                    pat_names(q, acc)
            elif p.kind == "p_ctor":
                for q in p.args:
                    pat_names(q, acc)
            elif p.kind == "p_or":
                for q in p.alts:
                    pat_names(q, acc)

        def hit(v, declared):
            if v is not None and v not in declared and v not in out and v not in self.deferred:
                out.append(v)

        def soft_hit(v, declared):
            # over-approximation by method name: only names that are locals here
            if v is not None and self.lookup(v) is not None:
                hit(v, declared)

        def walk(x, declared):
            if isinstance(x, (list, tuple)):
                for y in x:
                    walk(y, declared)
                return
            if not isinstance(x, N):
                return
            k = x.kind
            if k == "block":
                d = set(declared)
                for s in x.stmts:
                    if s.kind == "let":
                        walk(s.init, d)
                        pat_names(s.pat, d)
                    else:
                        walk(s.e, d)
                walk(x.tail, d)
                return
            if k == "assign":
                root = self.mutated_root(x.lhs)
                hit(root, declared)
                if root in self.maprefs:
                    # an assignment through `m.get_mut(&k)` writes the map
                    mpl = self.maprefs[root][0]
                    hit("self" if mpl[0] == "field" else mpl[1], declared)
                lhs = strip(x.lhs)
                if lhs.kind == "index":
                    walk(lhs.idx, declared)
                walk(x.rhs, declared)
                return
            if k == "map_get":
                hit(x.root, declared)
                return
            if k == "mcall":
                if x.name in R2.MUT_METHODS or x.name in ("get_mut",):
                    hit(self.mutated_root(x.recv), declared)
                else:
                    r = strip(x.recv)
                    sig = None
                    if r.kind == "path" and r.segs == ["self"] and self.impl:
                        sig = self.find_sig(self.impl, x.name)
                    if sig and "self" in sig.get("mut", []):
                        hit("self", declared)
                    if sig:
                        self.walk_call_args(sig, x.args, 1, hit, declared)
                    if sig is None:
                        recv_mut, pos = self.method_mut_positions(x.name)
                        if recv_mut:
                            soft_hit(self.mutated_root(x.recv), declared)
                        for kk, a in enumerate(x.args):
                            if kk in pos:
                                soft_hit(self.mutated_root(a), declared)
                walk(x.recv, declared)
                walk(x.args, declared)
                return
            if k == "call":
                for a in x.args:
                    if a.kind == "refmut":
                        hit(self.mutated_root(a.e), declared)
                if x.f.kind == "path":
                    sig = self.find_sig(None, x.f.segs[0]) if len(x.f.segs) == 1 else None
                    if sig:
                        self.walk_call_args(sig, x.args, 0, hit, declared)
                walk(x.args, declared)
                return
            if k == "match":
                walk(x.scrut, declared)
                for a in x.arms:
                    d = set(declared)
                    pat_names(a.pat, d)
                    walk(a.guard, d)
                    walk(a.body, d)
                return
            if k == "iflet":
                walk(x.scrut, declared)
                d = set(declared)
                pat_names(x.pat, d)
                walk(x.then, d)
                walk(x.els, declared)
                return
            if k == "for":
                walk(x.iter, declared)
                d = set(declared)
                pat_names(x.pat, d)
                walk(x.body, d)
                return
            if k == "whilelet":
                walk(x.scrut, declared)
                d = set(declared)
                pat_names(x.pat, d)
                walk(x.body, d)
                return
            for kk, v in x.__dict__.items():
                if kk not in ("kind", "toks"):
                    walk(v, declared)

        walk(node, set())
        for v in out:
            if self.lookup(v) is None:
                raise Unsupported("assignment to unknown variable `%s`" % v)
        return out

    def mutated_root(self, e):
        e = strip(e)
        if e.kind == "mcall" and e.name in ("as_mut", "unwrap") and not e.args:
            return self.mutated_root(e.recv)        # `opt.as_mut().unwrap()`: the place inside the Option
        return FnTr3.mutated_root(self, e)

    # -- expressions
    def ex0(self, e, want):
        if e.kind == "res_as_opt":
            # the scrutinee of `match r { Ok(p) => .., Err(_) => .. }`: the error value is dropped
            ls, t, ty = self.ex(e.e)
            if ty is None or ty[0] != "res":
                raise Unsupported("`match` on Ok / Err of %s" % tystr4(ty))
            r = self.fresh()
            return ls + ["let %s ← Rs.resOpt %s" % (r, self.atom(t))], r, ("opt", ty[1])
        if e.kind == "map_get":
            # the scrutinee of `if let Some(x) = m.get_mut(&k)`: the current value at the key
            return [], "(Rs.mapGet %s %s %s)" % (e.cmp, e.map, e.key), ("opt", e.vty)
        return FnTr3.ex0(self, e, want)

    def hole_found(self, holder_ty, arg, want_tuple=None):
        """`holder_ty` has a hole that the type of the expression `arg` fills: restart the translation"""
        ls, t, ty = self.ex(arg, None)
        ty = self.default_flex(ty)
        if not self.concrete(ty):
            raise Unsupported("the element type of a container could not be inferred")
        raise FoundHole(holder_ty[1], ty)

    def key_arg(self, a, kty):
        """the key argument of `contains` / `get_mut` / `insert` … -> (lines, atom)"""
        if kty[0] == "hole":
            self.hole_found(kty, a)
        ls, t, _ = self.ex(a, kty)
        return ls, self.atom(t)

    def ex_bin(self, e, want):
        if e.op in ("<", "<=", ">", ">="):
            lt_, rt_ = self.peek_type(e.l), self.peek_type(e.r)
            if lt_ == STR and rt_ == STR:
                ll, a, _ = self.ex(e.l, STR)
                rl, b, _ = self.ex(e.r, STR)
                rel = {"<": "= Ordering.lt", ">": "= Ordering.gt", "<=": "≠ Ordering.gt", ">=": "≠ Ordering.lt"}[e.op]
                return ll + rl, "(decide (Rs.cmpBytes %s %s %s))" % (self.atom(a), self.atom(b), rel), ("bool",)
        if e.op in ("==", "!="):
            lt_, rt_ = self.peek_type(e.l), self.peek_type(e.r)
            if lt_ == STR and rt_ == STR:
                ll, a, _ = self.ex(e.l, STR)
                rl, b, _ = self.ex(e.r, STR)
                return ll + rl, "(decide (%s %s %s))" % (self.atom(a), "=" if e.op == "==" else "≠", self.atom(b)), ("bool",)
        return FnTr3.ex_bin(self, e, want)

    def ex_call(self, e, want):
        f = e.f
        if f.kind == "path":
            segs, args = f.segs, e.args
            last2 = segs[-2:] if len(segs) >= 2 else None
            if last2 == ["BTreeSet", "new"] and not args and want is not None and want[0] == "bset":
                return [], "(Rs.setNew : %s)" % self.lt(want), want
            if last2 == ["BTreeMap", "new"] and not args and want is not None and want[0] == "btree" and want[1] != STR:
                return [], "(Rs.mapNew : %s)" % self.lt(want), want
            if last2 in (["Vec", "with_capacity"], ["VecDeque", "with_capacity"]) and len(args) == 1:
                kind = "vec" if last2[0] == "Vec" else "deque"
                el = want[1] if (want is not None and want[0] == kind) else None
                if el is not None and el[0] == "tuple" and self.concrete(el):
                    ls, t, _ = self.ex(args[0], ("int", "usize"))
                    ls, r = self.call_res(ls, "Rs.vecWithCapacity %s %d %s" % (self.lt(el), size_align4(el, self.w)[0], self.atom(t)))
                    return ls, r, (kind, el)
        return FnTr3.ex_call(self, e, want)

    def ex_mcall(self, e, want):
        name, args, recv = e.name, e.args, e.recv
        while recv.kind == "paren":
            recv = recv.e
        if name == "clone" and not args:
            rty = self.peek_type(recv)
            if rty is not None and (rty[0] in ("named", "tuple", "str") or is_bytes(rty)):
                return self.ex(recv, want)           # values are immutable here: a clone is the value
        if name in ("contains", "contains_key") and len(args) == 1:
            rty = self.peek_type(recv)
            if rty is not None and ((rty[0] == "bset" and name == "contains") or (rty[0] == "btree" and name == "contains_key" and rty[1] != STR)):
                ls, t, _ = self.ex(recv)
                kl, k = self.key_arg(args[0], rty[1])
                fn = "Rs.setContains" if rty[0] == "bset" else "Rs.mapContains"
                return ls + kl, "(%s %s %s %s)" % (fn, cmp_term4(rty[1], self.w), self.atom(t), k), ("bool",)
        if name == "pop_front" and not args and recv.kind == "mcall" and recv.name == "unwrap" and not recv.args \
                and recv.recv.kind == "mcall" and recv.recv.name == "as_mut" and not recv.recv.args:
            # `<place>.as_mut().unwrap().pop_front()` on an `Option<VecDeque<T>>` place
            pl = self.place_of(recv.recv.recv)
            ty = pl[2]
            if ty[0] != "opt" or ty[1][0] != "deque":
                raise Unsupported("`.as_mut().unwrap().pop_front()` on %s" % tystr4(ty))
            q, x, rest = self.fresh(), self.fresh(), self.fresh()
            ls = ["let %s ← Ctl.ofRes (Rs.unwrap %s)" % (q, self.place_term(pl)),
                  "let (%s, %s) := Rs.popFrontOpt %s" % (x, rest, q)]
            return ls + self.place_store(pl, "(some %s)" % rest), x, ("opt", ty[1][1])
        return FnTr3.ex_mcall(self, e, want)

    # -- statements: untyped containers, set / map updates, assignment through `get_mut`
    CONTAINER_NEW = {("BTreeSet", "new"): "bset", ("BTreeMap", "new"): "btree", ("VecDeque", "with_capacity"): "deque",
                     ("VecDeque", "new"): "deque"}

    def tr_stmt(self, s):
        if s.kind == "let" and s.ty is None and s.pat.kind == "p_path" and len(s.pat.path) == 1 and s.init is not None \
                and s.init.kind == "call" and s.init.f.kind == "path" and len(s.init.f.segs) >= 2 \
                and tuple(s.init.f.segs[-2:]) in self.CONTAINER_NEW:
            kind = self.CONTAINER_NEW[tuple(s.init.f.segs[-2:])]
            site = self.hole_sites
            self.hole_sites += 2 if kind == "btree" else 1

            def slot(i):
                return self.holes.get(i, ("hole", i))
            ty = ("btree", slot(site), slot(site + 1)) if kind == "btree" else (kind, slot(site))
            x = s.pat.path[0]
            if self.concrete(ty):
                ls, t, ty2 = self.ex(s.init, ty)
                self.bind(x, ty2)
                return ls + ["let %s := %s" % (lname(x), t)], False
            for i in ([site, site + 1] if kind == "btree" else [site]):
                if i not in self.holes:
                    self.open_holes.add(i)
            self.bind(x, ty)
            return ["let %s := _" % lname(x)], False
        return FnTr3.tr_stmt(self, s)

    def tr_mutcall(self, e):
        pl = self.place_of(e.recv)
        ty, name, args = pl[2], e.name, e.args
        cur = self.place_term(pl)
        if name == "push_back" and len(args) == 1 and ty[0] == "deque" and ty[1][0] == "hole":
            self.hole_found(ty[1], args[0])
        if name == "insert" and len(args) == 1 and ty[0] == "bset":
            kl, k = self.key_arg(args[0], ty[1])
            return kl + self.place_store(pl, "(Rs.setInsert %s %s %s)" % (cmp_term4(ty[1], self.w), cur, k))
        if name == "insert" and len(args) == 2 and ty[0] == "btree" and ty[1] != STR:
            kl, k = self.key_arg(args[0], ty[1])
            if ty[2][0] == "hole":
                self.hole_found(ty[2], args[1])
            vl, v, _ = self.ex(args[1], ty[2])
            return kl + vl + self.place_store(pl, "(Rs.mapInsert %s %s %s %s)" % (cmp_term4(ty[1], self.w), cur, k, self.atom(v)))
        return FnTr3.tr_mutcall(self, e)

    def tr_assign(self, e):
        lines = FnTr3.tr_assign(self, e)
        root = strip(e.lhs)
        if root.kind == "path" and len(root.segs) == 1 and root.segs[0] in self.maprefs:
            mpl, key, cmp = self.maprefs[root.segs[0]]
            lines = lines + self.place_store(mpl, "(Rs.mapInsert %s %s %s %s)" % (cmp, self.place_term(mpl), key, lname(root.segs[0])))
        return lines

    # -- `if let Some(x) = m.get_mut(&k) { .. } else { .. }`: `x` aliases the entry of `m` at `k`; every
    # assignment through it is written to the map at once (`tr_assign`)
    def ctl(self, e, mode, want):
        if e.kind == "iflet":
            sc = e.scrut
            while sc.kind == "paren":
                sc = sc.e
            if sc.kind == "mcall" and sc.name == "get_mut" and len(sc.args) == 1:
                mpl = self.place_of(sc.recv)
                mty = mpl[2]
                if mty[0] != "btree" or mty[1] == STR:
                    raise Unsupported("`.get_mut()` on %s" % tystr4(mty))
                if not (e.pat.kind == "p_ctor" and e.pat.path == ["Some"] and len(e.pat.args) == 1
                        and e.pat.args[0].kind == "p_path" and len(e.pat.args[0].path) == 1):
                    raise Unsupported("`if let` on `.get_mut()` is limited to `Some(x)`")
                x = e.pat.args[0].path[0]
                kl, k = self.key_arg(sc.args[0], mty[1])
                if mty[2][0] == "hole":
                    # the value type is fixed by an `insert` of the other branch: look there first
                    if e.els is not None:
                        save = (self.tmp, len(self.aux_defs), getattr(self, "loop_count", 0), self.lit_sites)
                        try:
                            self.tr_block(e.els, "value", None)
                        except Unsupported:
                            pass
                        finally:
                            self.tmp, n, self.loop_count, self.lit_sites = save
                            del self.aux_defs[n:]
                    raise Unsupported("the value type of a map could not be inferred")
                kv = self.fresh()
                pre = kl + ["let %s := %s" % (kv, k)]
                cmp = cmp_term4(mty[1], self.w)
                if x in self.maprefs:
                    raise Unsupported("nested `get_mut` bindings of the same name")
                self.maprefs[x] = (mpl, kv, cmp)
                try:
                    e2 = N("iflet", pat=e.pat, scrut=N("map_get", cmp=cmp, map=self.place_term(mpl), key=kv, vty=mty[2],
                                                       root=("self" if mpl[0] == "field" else mpl[1])),
                           then=e.then, els=e.els)
                    ls, term, ty, div = FnTr3.ctl(self, e2, mode, want)
                finally:
                    del self.maprefs[x]
                return pre + ls, term, ty, div
        return FnTr3.ctl(self, e, mode, want)

    # -- `match <call returning Result> { Ok(p) => .., Err(_) => .. }` (the call has no `&mut` parameters)
    def ctl_match(self, e, mode, want, M):
        scrut = e.scrut
        while scrut.kind == "paren":
            scrut = scrut.e
        if scrut.kind in ("call", "mcall") and len(e.arms) == 2 and all(a.guard is None for a in e.arms):
            kinds = []
            for a in e.arms:
                p = a.pat
                if p.kind == "p_ctor" and p.path == ["Ok"] and len(p.args) == 1:
                    kinds.append("ok")
                elif p.kind == "p_ctor" and p.path == ["Err"] and len(p.args) == 1 and p.args[0].kind == "p_wild":
                    kinds.append("err")
                else:
                    kinds.append(None)
            if sorted(k or "" for k in kinds) == ["err", "ok"]:
                sig = self.callee_sig(scrut)
                if sig is None or sig["ret"][0] != "res" or sig.get("mut") or sig.get("writer") or sig.get("fuel"):
                    raise Unsupported("`match` on the Result of a call that is not a translated function without `&mut` parameters")
                arms = []
                for a, k in zip(e.arms, kinds):
                    if k == "ok":
                        pat = N("p_ctor", path=["Some"], args=a.pat.args)
                    else:
                        pat = N("p_path", path=["None"])
                    arms.append(N("arm", pat=pat, guard=None, body=a.body))
                e = N("match", scrut=N("res_as_opt", e=scrut), arms=arms)
        return FnTr3.ctl_match(self, e, mode, want, M)

    # -- loops
    def tr_loop(self, e):
        if e.kind == "for":
            it = e.iter
            while it.kind in ("paren", "ref"):
                it = it.e
            if it.kind == "mcall" and it.name == "into_iter" and not it.args:
                ty = self.peek_type(it.recv)
                if ty is not None and ty[0] == "btree":
                    e = N("for", pat=e.pat, iter=N("mcall", recv=it.recv, name="iter", args=[], fish=None), body=e.body)
            enum = False
            if it.kind == "mcall" and it.name == "enumerate" and not it.args:
                inner = it.recv
                while inner.kind == "paren":
                    inner = inner.e
                ty = self.peek_type(inner)
                if self.iter_sig(ty) is not None:
                    return self.for_iter(e, inner, ty, True)
            else:
                ty = self.peek_type(it)
                if self.iter_sig(ty) is not None:
                    return self.for_iter(e, it, ty, False)
        return FnTr3.tr_loop(self, e)

    def for_iter(self, e, it, ity, enum):
        """`for pat in <iterator struct>[.enumerate()] { body }`: `Rs.forIter fuel T.next it init body`
        (`Rs.forIterEnum` with the running count).  A local iterator variable named in the loop header is
        moved into the loop (Rust forbids any later use), so its final state is dropped."""
        sig = self.iter_sig(ity)
        if self.group is not None:
            raise Unsupported("a loop over an iterator inside a recursive group")
        self.uses_fuel = True
        M = self.assigned(e)
        for m in M:
            if self.lookup(m) == ("writer",):
                raise Unsupported("writer used inside a loop")
        pre, itt, _ = self.ex(it, ity)
        item_ty = sig["ret"][1]
        elem_ty = ("tuple", (("int", "usize"), item_ty)) if enum else item_ty
        elem_lean = self.lt(elem_ty)
        pat, binds = self.let_pattern(e.pat, elem_ty)
        if re.fullmatch(r"[A-Za-z_][A-Za-z0-9_]*", pat):
            head_param, head_lines = (pat, elem_lean), []
        else:
            head_param, head_lines = ("p__", elem_lean), ["let %s := p__" % pat]
        sigma_parts = [self.lt(self.lookup(m)) for m in M]
        sigma = "Unit" if not M else sigma_parts[0] if len(M) == 1 else "(" + " × ".join(sigma_parts) + ")"
        outer_rho = self.cur_rho()
        body_rho = "(Rs.LoopCtl %s %s)" % (outer_rho, sigma)
        idents = self.idents_of(e.body)
        frees = [n for n in self.visible() if n in idents and n not in M and self.lookup(n) != ("writer",)]
        free_params = [(lname(n), self.lt(self.lookup(n))) for n in frees]
        self.loop_stack.append(dict(M=M, rho=body_rho))
        self.rec_stack.append([])
        self.push()
        try:
            for n, bt in binds:
                self.bind(n, bt)
            lines, _, _, div = self.tr_block(e.body, "value", None)
            if not div:
                lines = lines + ["pure %s" % self.state_pack(M)]
        finally:
            self.pop()
            self.rec_stack.pop()
            self.loop_stack.pop()
        self.loop_count = getattr(self, "loop_count", 0) + 1
        aux = "%s.loop%d" % (self.lean, self.loop_count)
        params = ["(%s : %s)" % p for p in free_params] + ["(%s : %s)" % head_param]
        if not M:
            params.append("(_ : Unit)")
            st_lines = []
        elif len(M) == 1:
            params.append("(%s : %s)" % (lname(M[0]), sigma))
            st_lines = []
        else:
            params.append("(st__ : %s)" % sigma)
            st_lines = ["let %s := st__" % self.state_pack(M)]
        head = "def %s %s : Ctl %s (Rs.Step %s) := Rs.loopStep do" % (aux, " ".join(params), outer_rho, sigma)
        self.aux_defs.append([head] + ind(st_lines + head_lines + lines))
        call = "%s fuel %s %s %s (%s)" % ("Rs.forIterEnum" if enum else "Rs.forIter", sig["lean"], self.atom(itt),
                                          self.state_pack(M), " ".join([aux] + [p[0] for p in free_params]))
        if not M:
            return pre + [call]
        return pre + ["let %s ← %s" % (self.state_pack(M), call)]

    # -- whole function: the sniffing prologue of the public editors
    def split_text_branch(self, body):
        if self.name not in TEXT_PROLOGUE:
            return FnTr3.split_text_branch(self, body)
        if not body.stmts:
            raise Unsupported("expected the `if !is_jsonb(..) { <text branch> }` prologue")
        s0 = body.stmts[0]
        e = s0.e if s0.kind == "expr" else None
        ok = e is not None and e.kind == "if" and e.els is None and self.is_sniff(e.cond)
        if ok:
            # the text branch must leave the function: its last statement is a `return`
            last = e.then.tail if e.then.tail is not None else (e.then.stmts[-1].e if e.then.stmts and e.then.stmts[-1].kind == "expr" else None)
            ok = last is not None and last.kind == "return" and last.e is not None
        if not ok:
            raise Unsupported("expected the `if !is_jsonb(..) { …; return …; }` prologue")
        self.text_param = "text__"
        new_then = N("block", stmts=[], tail=N("return", e=N("path", segs=["text__"])))
        s0 = N("expr", e=N("if", cond=e.cond, then=new_then, els=None), semi=False)
        return N("block", stmts=[s0] + body.stmts[1:], tail=body.tail)

    def is_sniff(self, c):
        """`!is_jsonb(x)` or a `||` / `&&` of such tests (the test itself is translated)"""
        while c.kind == "paren":
            c = c.e
        if c.kind == "bin" and c.op in ("||", "&&"):
            return self.is_sniff(c.l) and self.is_sniff(c.r)
        return (c.kind == "un" and c.op == "!" and c.e.kind == "call" and c.e.f.kind == "path"
                and c.e.f.segs == ["is_jsonb"] and len(c.e.args) == 1)

    def translate(self):
        r = self.translate0()
        if self.open_holes:
            raise Unsupported("the element type of a container could not be inferred")
        return r

    def translate0(self):
        if self.name not in TEXT_PROLOGUE:
            return FnTr3.translate(self)
        # FnTr3.translate with the text parameter of phase 2: the parameter holds the `Res` of the text branch
        p = self.body_parser
        body = p.parse_block()
        if p.peek().k != "eof":
            raise Unsupported("tokens after the function body")
        body = self.split_text_branch(body)
        self.scopes = []
        self.push()
        binders = []
        for n, t in self.params:
            self.bind(n, t)
            binders.append("(%s : %s)" % (lname(n), self.lt(t)))
        if self.ret[0] != "res":
            raise Unsupported("text prologue in a function that does not return Result")
        self.scopes[-1]["text__"] = self.ret
        binders.append("(text__ : Res %s)" % self.lean_ret())
        lines, _, _, _ = self.tr_block(body, "tail", None)
        out = []
        for a in self.aux_defs:
            out += a + [""]
        if self.uses_fuel:
            binders = ["(fuel : Nat)"] + binders
        head = "def %s %s: Res %s := Ctl.run do" % (self.lean, "".join(x + " " for x in binders), self.lean_ret())
        return out, [head] + ind(lines)

    def tail(self, e):
        # `return text__` of the sniffing prologue: the parameter already is the function's `Res`
        if e is not None and e.kind == "path" and e.segs == ["text__"] and self.text_param and self.name in TEXT_PROLOGUE:
            return ["Ctl.ret text__"]
        return FnTr3.tail(self, e)


# ----------------------------------------------------------------------------- driver

HEADER = """-- GENERATED by tools/rs2lean4.py from the Rust sources of the crate (src/*.rs); do not edit.
-- Phase 4: the builders of builder.rs and the byte-level editors of functions.rs.  One block per translated
-- declaration, function or recursive group (hoisted loop bodies `<fn>.loop<k>` first).  The meaning of every
-- `Rs.*` / `Ctl.*` name is in JsonbModel/RustPrelude.lean, RustPrelude2.lean, RustPrelude3.lean and
-- RustPrelude4.lean; the agreement theorems are in Proofs/TranslatedAgreeD*.lean.
import JsonbModel.Generated.Translated3
import JsonbModel.RustPrelude4

set_option linter.unusedVariables false

namespace Jsonb.Tr
open Jsonb.Rs (Ctl)
"""
FOOTER = "end Jsonb.Tr\n"


def phase3_world(repo):
    """declarations and signatures of the phase-1/2/3 targets (rs2lean3.generate builds them; the world it
    works on is captured, rs2lean3.py itself is not modified)"""
    box = {}
    orig = R3.phase2_world

    def capture(r):
        w = orig(r)
        box["w"] = w
        return w
    R3.phase2_world = capture
    try:
        R3.generate(repo, "")
    finally:
        R3.phase2_world = orig
    return box["w"]


def translate_fn4(world, file, impl, trait, name, lean, it, group):
    """enumerate the integer types of unannotated literal `let`s (as rs2lean3.translate_fn3); the element
    types of untyped containers are found by re-running; -> (aux lines, def lines, uses_fuel)"""
    def attempt(choice):
        holes = {}
        for _ in range(16):
            try:
                tr = FnTr4(world, file, impl, trait, name, it, lean, dict(choice), group, holes)
                aux, lines = tr.translate()
                return aux, lines, tr.uses_fuel
            except FoundHole as h:
                if h.site in holes:
                    raise Unsupported("the element type of a container could not be inferred")
                holes[h.site] = h.ty
        raise Unsupported("the element type of a container could not be inferred")

    def solve(choice):
        try:
            return [(dict(choice), attempt(choice))]
        except NeedLitType as e:
            res, errs = [], []
            for c in R2.INT_CANDIDATES:
                ch = dict(choice)
                ch[e.site] = c
                try:
                    res += solve(ch)
                except NeedLitType:
                    raise
                except Unsupported as u:
                    errs.append(str(u))
            if not res:
                raise Unsupported("no integer type fits a literal `let` (%s)" % (errs[0] if errs else "?"))
            return res

    sols = solve({})
    texts = {}
    for ch, r in sols:
        texts.setdefault("\n".join(r[0] + r[1]), []).append(ch)
    if len(texts) == 1:
        return sols[0][1]
    allsites = set()
    for ch, _ in sols:
        allsites |= set(ch)
    if len(sols) == len(R2.INT_CANDIDATES) ** len(allsites):
        for ch, r in sols:
            if all(v == "i32" for v in ch.values()):
                return r
    raise Unsupported("ambiguous integer type of a literal `let`")


def key_of4(file, impl, name):
    return "%s::%s%s" % (file, (impl + "::") if impl else "", name)


def generate(repo, prev_text):
    world = phase3_world(repo)
    status = {}
    blocks = []
    prev = {m.group(1): m.group(2) for m in R.BLOCK_RE.finditer(prev_text or "")}

    def guarded(key, fn):
        try:
            r = fn()
            status[key] = "translated" if r is not None else "missing"
            return r
        except Unsupported as e:
            status[key] = "unsupported: %s" % e
        except RecursionError:
            status[key] = "unsupported: expression too deeply nested"
        except Exception as e:
            status[key] = "unsupported: translator error (%s: %s)" % (type(e).__name__, e)
        return None

    for file, kind, name in TYPES4:
        if kind == "typegroup":
            key = "%s::types %s" % (file, ", ".join(n for _, n in name))
            lines = guarded(key, lambda: emit_typegroup4(world, file, name))
        elif kind == "derive_ord":
            key = "%s::derive(Ord) for %s" % (file, name)
            lines = guarded(key, lambda: emit_derive_ord4(world, file, name))
        else:
            key = "%s::%s %s" % (file, kind, name)
            lines = guarded(key, lambda: emit_struct4(world, file, name))
        blocks.append((key, lines))
    # signatures of all phase-4 targets first (calls inside a group go both ways)
    items = {}
    for file, impl, trait, name, lean, group in FUNCS4:
        key = key_of4(file, impl, name)
        hits = world.find(file, "fn", name, impl, trait)
        if not hits:
            status[key] = ("unsupported: cannot read %s: %s" % (file, world.file_errors[file])) if file in world.file_errors else "missing"
            continue
        if len(hits) > 1:
            status[key] = "unsupported: defined more than once"
            continue

        def sig_of():
            tr = FnTr4(world, file, impl, trait, name, hits[0], lean, None, group)
            ptys = [lean_type4(t, world) for _, t in tr.params]
            lean_type4(tr.ret_value_type(), world)
            params = list(tr.params)
            if name in TEXT_PROLOGUE:
                params.append(("text__", tr.ret))
            world.sigs[(file, impl, name)] = dict(
                params=params, ret=tr.ret, lean=lean, writer=None, mut=list(tr.mutparams), name=name, group=group,
                trait=trait, fuel=(True if group is not None else None), holder=None,
                lean_fn=" → ".join(ptys + ["Res %s" % tr.lean_ret()]))
            if impl is None:
                world.sigs_names.add(name)
            return hits[0]
        it = guarded(key, sig_of)
        if it is not None:
            items[key] = it
    # the phase-2 iterators are `impl Iterator`
    for (f, i, n), sig in world.sigs.items():
        if n == "next" and i in ("ArrayIterator", "ObjectKeyIterator") and "trait" not in sig:
            sig["trait"] = "Iterator"
    done_groups = set()
    for idx, (file, impl, trait, name, lean, group) in enumerate(FUNCS4):
        key = key_of4(file, impl, name)
        if group is None:
            lines = None
            if key in items:
                def one():
                    aux, body, uses = translate_fn4(world, file, impl, trait, name, lean, items[key], None)
                    world.sigs[(file, impl, name)]["fuel"] = bool(uses)
                    return aux + body
                lines = guarded(key, one)
            if lines is None and (file, impl, name) in world.sigs:
                pb = prev.get(key, "")
                world.sigs[(file, impl, name)]["fuel"] = bool(re.search(r"^def %s \(fuel : Nat\)" % re.escape(lean), pb, re.M))
            blocks.append((key, lines))
            continue
        if group in done_groups:
            continue
        done_groups.add(group)
        members = [f for f in FUNCS4 if f[5] == group]
        gkey = "%s::group %s (%s)" % (members[0][0], group, ", ".join(m[3] if m[1] is None else "%s::%s" % (m[1], m[3]) for m in members))
        auxs, defs, good = [], [], True
        for mfile, mimpl, mtrait, mname, mlean, _ in members:
            mkey = key_of4(mfile, mimpl, mname)
            if mkey not in items:
                good = False
                continue

            def one():
                aux, body, _ = translate_fn4(world, mfile, mimpl, mtrait, mname, mlean, items[mkey], group)
                return aux, body
            r = guarded(mkey, one)
            if r is None:
                good = False
            else:
                auxs += r[0]
                defs += r[1]
        if good:
            status[gkey] = "translated"
            blocks.append((gkey, auxs + ["mutual"] + defs + ["end"]))
        else:
            status[gkey] = "unsupported: a member of the group is not translated"
            blocks.append((gkey, None))
    out = [HEADER]
    ok = True
    for key, lines in blocks:
        out.append("-- BEGIN %s\n" % key)
        if lines is not None:
            out.append("\n".join(lines) + "\n")
        else:
            ok = False
            if key in prev:
                out.append(prev[key])
                status[key] += " (kept the previously generated block)"
            else:
                out.append("-- (no translation available)\n")
        out.append("-- END %s\n\n" % key)
    out.append(FOOTER)
    ok = ok and all(v == "translated" for v in status.values())
    return "".join(out), status, ok


def main(argv):
    to_stdout = "--stdout" in argv
    try:
        prev_text = open(PREV, encoding="utf-8").read()
    except OSError:
        prev_text = ""
    text, status, ok = generate(REPO, prev_text)
    if to_stdout:
        sys.stdout.write(text)
        return 0
    try:
        old = open(OUT, encoding="utf-8").read()
    except OSError:
        old = None
    changed = False
    if old != text:
        changed = True
        os.makedirs(os.path.dirname(OUT), exist_ok=True)
        tmp_out = OUT + ".tmp%d" % os.getpid()
        with open(tmp_out, "w", encoding="utf-8") as f:
            f.write(text)
        os.replace(tmp_out, OUT)
    print(json.dumps({"ok": ok, "functions": status, "changed": changed}))
    return 0


if __name__ == "__main__":
    sys.exit(main(sys.argv[1:]))
