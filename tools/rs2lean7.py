#!/usr/bin/env python3
"""rs2lean7: phase 7 of the Rust -> Lean translator: the PUBLIC DISPATCHERS of the editors of functions.rs together
with their JSON-text (`Value`-level) branches - `array_insert`, `array_distinct`, `array_intersection`, `array_except`,
`array_overlap`, `object_insert`, `object_delete`, `object_pick` (text -> `parse_value` -> `write_to_vec` -> the `_jsonb`
half), `delete_by_index`, `delete_by_name`, `strip_nulls` + `strip_value_nulls` (text -> `parse_value` -> an in-place edit
of the `Value` -> `write_to_vec`), `concat` + `concat_values` (`from_slice` of both arguments), `array_length`
(+ `Value::array_length`).
Phases 2-6 kept every text branch as a parameter `text__`; here the branch is translated AS IT IS: the call of the
translated JSON text parser of phase 6b (`parse_value`), of the translated encoder of phase 3 (`Value::write_to_vec`) and
of the `_jsonb` halves of phases 4 / 6c.
Extends the subset of tools/rs2lean6c.py (-> rs2lean5b.py -> rs2lean4.py -> rs2lean3.py -> rs2lean2.py -> rs2lean.py) with
  * calls of `parse_value` (phase 6b; fuel-taking), also as the scrutinee of `match parse_value(..) { Ok(v) => .., Err(_) => .. }`;
  * an untyped `let mut b = Vec::new();` whose only uses are `<value>.write_to_vec(&mut b)` and `&b`: a `Vec<u8>`;
  * `match &mut val { Value::Array(arr) => { <edits of arr> }, Value::Object(obj) => { .. }, _ => return Err(..) };`
    on a local `val` of an enum type: the arm works on the payload and puts it back (`val = Value::Array(arr)`);
  * `Vec<Value>`: `arr.remove(i)` (`Rs.vecRemove`, panics out of range as the standard library does),
    `arr.retain(|item| <pure bool>)` (`List.filter`), `matches!(<expr>, <pattern> [if <pure guard>])`;
  * `BTreeMap<String, Value>`: `obj.remove(name)` (`Rs.btreeRemove`), `obj.retain(|_, v| <pure bool>)`,
    `a.append(&mut b)` (`Rs.btreeAppend`; `Rs.vecAppend7` on `Vec`s), `vec![a, b]`;
  * `match val { .. }` on a PARAMETER `val: &mut <enum>` (same rewriting), `for v in arr { f(v); }` / `for (_, v) in
    obj.iter_mut() { f(v); }` over `&mut` elements whose body is ONE call of a function of `&mut` element
    (`Rs.forEachMut`, `Rs.forEachMutVal`: the container is rebuilt from the final values);
  * `from_slice(x)` (phase 3 kept its fallback as `text__`): the parameter is the translated `parse_value` of the SAME argument;
  * functions whose dispatcher already exists with text parameters in an earlier phase (`delete_by_index`, `concat`, `array_length`)
    are emitted under the Lean name `Whole.<fn>` (same block name, another file); `delete_by_name` likewise.
Output: lean/JsonbModel/Generated/Translated7.lean (namespace Jsonb.Tr, imports the phase-6b, 6c and 5b files).
The semantics of every new primitive is in the hand-written lean/JsonbModel/RustPrelude7.lean.
Same conventions as the earlier phases (see tools/RS2LEAN.md): reads $VERIF_REPO (default /repo), writes the output only
when it changes, prints ONE JSON status line last; `--stdout` prints the text and writes nothing; a function outside the
subset keeps its previously generated block.  Python 3 stdlib only."""
import json, os, re, sys

HERE = os.path.dirname(os.path.abspath(__file__))
sys.path.insert(0, HERE)
import rs2lean as R  # noqa: E402
import rs2lean2 as R2  # noqa: E402
import rs2lean3 as R3  # noqa: E402
import rs2lean4 as R4  # noqa: E402
import rs2lean5b as R5b  # noqa: E402
import rs2lean6b as R6b  # noqa: E402
import rs2lean6c as R6c  # noqa: E402
from rs2lean import N, Tok, Unsupported, NeedType, is_int, is_bytes, lname, ind  # noqa: E402
from rs2lean2 import NeedLitType, strip, U8, STR, CHAR  # noqa: E402
from rs2lean3 import FnTr3  # noqa: E402
from rs2lean4 import FoundHole  # noqa: E402
from rs2lean6c import FnTr6c, lean_type6c  # noqa: E402

REPO = os.environ.get("VERIF_REPO", "/repo")
OUT = os.environ.get("RS2LEAN7_OUT", os.path.normpath(os.path.join(HERE, "..", "lean", "JsonbModel", "Generated", "Translated7.lean")))
PREV = os.environ.get("RS2LEAN7_PREV", OUT)

F = "src/functions.rs"

# (file, impl type or None, trait or None, fn name, Lean name, recursive group or None); dependency order
FUNCS7 = [
    ("src/value.rs", "Value", None, "array_length", "Value.array_length", None),
    (F, None, None, "array_length", "Whole.array_length", None),
    (F, None, None, "array_distinct", "array_distinct", None),
    (F, None, None, "array_insert", "array_insert", None),
    (F, None, None, "array_intersection", "array_intersection", None),
    (F, None, None, "array_except", "array_except", None),
    (F, None, None, "array_overlap", "array_overlap", None),
    (F, None, None, "object_insert", "object_insert", None),
    (F, None, None, "object_delete", "object_delete", None),
    (F, None, None, "object_pick", "object_pick", None),
    # dispatchers an earlier phase emitted with text PARAMETERS (`Tr.delete_by_index .. text__`): the whole function
    # gets the Lean name `Whole.<fn>`
    (F, None, None, "delete_by_index", "Whole.delete_by_index", None),
    (F, None, None, "delete_by_name", "Whole.delete_by_name", None),
    (F, None, None, "strip_value_nulls", "strip_value_nulls", "stripv"),
    (F, None, None, "strip_nulls", "strip_nulls", None),
    (F, None, None, "concat_values", "concat_values", None),
    (F, None, None, "concat", "Whole.concat", None),
]
R2.MUT_METHODS.update({"remove", "retain", "append"})
if os.environ.get("RS2LEAN7_ONLY"):      # debugging aid: translate some functions only
    FUNCS7 = [f for f in FUNCS7 if f[3] in os.environ["RS2LEAN7_ONLY"].split(",")]


def world6c(repo):
    """declarations and signatures of the phase-1..4 and 6c targets (rs2lean6c.generate builds them on the world of
    rs2lean5b.phase4_world; the world is captured, no earlier tool is modified)"""
    box = {}
    orig = R5b.phase4_world

    def capture(r):
        w = orig(r)
        box["w"] = w
        return w
    R5b.phase4_world = capture
    try:
        R6c.generate(repo, "")
    finally:
        R5b.phase4_world = orig
    return box["w"]


def world6b(repo):
    box = {}
    orig = R6b.phase3_world

    def capture(r):
        w = orig(r)
        box["w"] = w
        return w
    R6b.phase3_world = capture
    try:
        R6b.generate(repo, "")
    finally:
        R6b.phase3_world = orig
    return box["w"]


def annotate_vec_new(toks):
    """`let mut X = Vec :: new ( ) ;` whose uses are `. write_to_vec ( & mut X )` and `& X` only -> `let mut X : Vec < u8 > = ..`
    (the parameter type of `Value::write_to_vec` fixes the element type)"""
    out = []
    i = 0
    n = len(toks)

    def v(j):
        return toks[j].v if j < n else None
    while i < n:
        if (v(i) == "let" and v(i + 1) == "mut" and toks[i + 2].k == "id" and v(i + 3) == "=" and v(i + 4) == "Vec"
                and v(i + 5) == "::" and v(i + 6) == "new" and v(i + 7) == "(" and v(i + 8) == ")" and v(i + 9) == ";"):
            x = v(i + 2)
            uses = [j for j in range(i + 10, n) if toks[j].k == "id" and toks[j].v == x]
            okw = False
            good = True
            for j in uses:
                if v(j - 1) == "mut" and v(j - 2) == "&" and v(j - 3) == "(" and v(j - 4) == "write_to_vec" and v(j + 1) == ")":
                    okw = True
                elif v(j - 1) == "&":
                    pass
                else:
                    good = False
            if good and okw:
                t0 = toks[i + 2]
                mk = lambda k, s: Tok(k, s, t0.pos)
                out += toks[i:i + 3] + [mk("p", ":"), mk("id", "Vec"), mk("p", "<"), mk("id", "u8"), mk("p", ">")]
                i += 3
                continue
        out.append(toks[i])
        i += 1
    return out




class FnTr7(FnTr6c):
    def __init__(self, world, file, impl, trait, name, it, lean, lit_choice=None, group=None, holes=None):
        toks = list(it["toks"])
        if any(t.k == "id" and t.v == "write_to_vec" for t in toks):
            it = dict(it, toks=annotate_vec_new(toks))
        FnTr6c.__init__(self, world, file, impl, trait, name, it, lean, lit_choice, group, holes)

    # -- `match &mut x { Value::Array(arr) => { <edits of arr> } .. }` (also `match x { Value::Array(ref mut arr) => .. }`)
    # on a local `x` of an enum type: the arm works on the payload and puts it back -
    # `match x { Value::Array(arr) => { let mut arr = arr; <edits>; x = Value::Array(arr); } .. }`
    def desugar_match_mut(self, e):
        sc = e.scrut
        while sc.kind == "paren":
            sc = sc.e
        if sc.kind == "path" and len(sc.segs) == 1 and sc.segs[0] in self.mutparams and sc.segs[0] != "self":
            # `match val { .. }` on a parameter `val: &mut <enum>`: the arms bind the payloads by `&mut` reference
            inner = sc
        elif sc.kind != "refmut":
            return None
        else:
            inner = strip(sc)
        if inner.kind != "path" or len(inner.segs) != 1:
            raise Unsupported("`match &mut <expr>` on something that is not a local variable")
        x = inner.segs[0]
        arms = []
        for a in e.arms:
            pat = a.pat
            if pat.kind == "p_ctor" and len(pat.args) == 1 and pat.args[0].kind == "p_path" and len(pat.args[0].path) == 1 \
                    and a.guard is None:
                v = pat.args[0].path[0]
                if v == x:
                    raise Unsupported("`match &mut %s`: the arm shadows the scrutinee" % x)
                b = a.body
                if b.kind != "block":
                    b = N("block", stmts=[N("expr", e=b, semi=True)], tail=None)
                if b.tail is not None:
                    # the match is a statement: the arm's value is `()`
                    if b.tail.kind not in ("if", "iflet", "match", "mcall", "block", "for", "while", "whilelet", "loop"):
                        raise Unsupported("`match &mut %s`: an arm with a value" % x)
                    b = N("block", stmts=list(b.stmts) + [N("expr", e=b.tail, semi=True)], tail=None)
                back = N("expr", e=N("assign", op="=", lhs=N("path", segs=[x]),
                                     rhs=N("call", f=N("path", segs=list(pat.path)), args=[N("path", segs=[v])])), semi=True)
                rebind = N("let", pat=N("p_path", path=[v]), ty=None, init=N("path", segs=[v]))
                self.mut_payloads = getattr(self, "mut_payloads", set()) | {v}
                arms.append(N("arm", pat=pat, guard=None, body=N("block", stmts=[rebind] + list(b.stmts) + [back], tail=None)))
            elif pat.kind in ("p_wild",) or (pat.kind == "p_path"):
                arms.append(a)
            else:
                raise Unsupported("`match &mut %s`: arm pattern not in the subset" % x)
        return N("match", scrut=N("path", segs=[x]), arms=arms)

    # -- no text parameter: the sniffing prologue is translated as it is
    def translate0(self):
        return FnTr3.translate(self)

    def tr_block(self, b, mode, want):
        if b is not None and b.kind == "block":
            new, changed = [], False
            for st in b.stmts:
                if st.kind == "expr" and st.e.kind == "match":
                    d = self.desugar_match_mut(st.e)
                    if d is not None:
                        st = N("expr", e=d, semi=True)
                        changed = True
                new.append(st)
            tail = b.tail
            if tail is not None and tail.kind == "match" and self.ret == ("unit",):
                # the body of a function returning `()` that ends in the `match`
                d = self.desugar_match_mut(tail)
                if d is not None:
                    new.append(N("expr", e=d, semi=True))
                    tail = None
                    changed = True
            if changed:
                b = N("block", stmts=new, tail=tail)
        return FnTr6c.tr_block(self, b, mode, want)

    def tr_mutcall(self, e):
        pl = self.place_of(e.recv)
        ty, name, args = pl[2], e.name, e.args
        if name == "remove" and len(args) == 1 and ty[0] == "vec" and not is_bytes(ty):
            # `v.remove(i)` (the removed element is dropped): panics out of range, as the standard library does
            l1, t1, _ = self.ex(args[0], ("int", "usize"))
            r = self.fresh()
            return l1 + ["let %s ← Ctl.ofRes (Rs.vecRemove %s %s)" % (r, self.place_term(pl), self.atom(t1))] + self.place_store(pl, r)
        if name == "retain" and len(args) == 1 and ty[0] == "vec" and not is_bytes(ty):
            # `v.retain(|item| <pure bool>)`: the elements the closure accepts, in order
            fn, rty = self.pure_closure(args[0], ty[1], ("bool",))
            if rty != ("bool",):
                raise Unsupported("`.retain()` closure of type %s" % R4.tystr4(rty))
            return self.place_store(pl, "(List.filter %s %s)" % (fn, self.place_term(pl)))
        if name == "append" and len(args) == 1 and (ty[0] == "btree" and ty[1] == STR or ty[0] == "vec" and not is_bytes(ty)):
            # `a.append(&mut b)`: everything of `b` moves to `a` (a map: inserted in key order, the value of `b` wins for
            # an equal key), `b` is left empty
            a = args[0]
            if a.kind != "refmut":
                raise Unsupported("`.append(&mut <local>)` only")
            a = strip(a)
            if not (a.kind == "path" and len(a.segs) == 1 and self.lookup(a.segs[0]) is not None):
                raise Unsupported("`.append(&mut <local>)` only")
            aty = self.lookup(a.segs[0])
            self.unify(ty, aty, "`.append()` argument")
            prim = "Rs.btreeAppend" if ty[0] == "btree" else "Rs.vecAppend7"
            return self.place_store(pl, "(%s %s %s)" % (prim, self.place_term(pl), lname(a.segs[0]))) \
                + ["let %s : %s := []" % (lname(a.segs[0]), self.lt(aty))]
        if name == "retain" and len(args) == 1 and ty[0] == "btree" and ty[1] == STR:
            # `m.retain(|k, v| <pure bool>)`: the entries the closure accepts, in order
            fn, rty = self.pure_closure(args[0], ("tuple", (ty[1], ty[2])), ("bool",))
            if rty != ("bool",):
                raise Unsupported("`.retain()` closure of type %s" % R4.tystr4(rty))
            return self.place_store(pl, "(List.filter %s %s)" % (fn, self.place_term(pl)))
        if name == "remove" and len(args) == 1 and ty[0] == "btree" and ty[1] == STR:
            # `m.remove(key)` on a `BTreeMap<String, V>` (the removed value is dropped)
            l1, t1, kty = self.ex(args[0], STR)
            if kty != STR:
                raise Unsupported("`.remove()` key of type %s" % R4.tystr4(kty))
            return l1 + self.place_store(pl, "(Rs.btreeRemove %s %s)" % (self.place_term(pl), self.atom(t1)))
        return FnTr6c.tr_mutcall(self, e)

    # -- `match parse_value(..) { Ok(p) => .., Err(_) => .. }`: phase 4's rule, also for a fuel-taking callee (`Rs.resOpt`
    # drops the error value only; a panic or exhausted fuel of the callee ends the function)
    def ctl_match(self, e, mode, want, M):
        scrut = e.scrut
        while scrut.kind == "paren":
            scrut = scrut.e
        if scrut.kind == "call" and len(e.arms) == 2 and all(a.guard is None for a in e.arms):
            sig = self.callee_sig(scrut)
            if sig is not None and sig["ret"][0] == "res" and sig.get("fuel") and not sig.get("mut") and not sig.get("writer"):
                kinds = []
                for a in e.arms:
                    p = a.pat
                    if p.kind == "p_ctor" and p.path == ["Ok"] and len(p.args) == 1:
                        kinds.append("ok")
                    elif p.kind == "p_ctor" and p.path == ["Err"] and len(p.args) == 1 and p.args[0].kind == "p_wild":
                        kinds.append("err")
                    else:
                        kinds.append(None)
                if sorted(k or "" for k in kinds) == ["err", "ok"]:
                    arms = []
                    for a, k in zip(e.arms, kinds):
                        pat = N("p_ctor", path=["Some"], args=a.pat.args) if k == "ok" else N("p_path", path=["None"])
                        arms.append(N("arm", pat=pat, guard=None, body=a.body))
                    e = N("match", scrut=N("res_as_opt", e=scrut), arms=arms)
                    return FnTr3.ctl_match(self, e, mode, want, M)
        return FnTr6c.ctl_match(self, e, mode, want, M)

    # -- `for v in arr { f(v); }` / `for (_, v) in obj.iter_mut() { f(v); }` over the `&mut` elements of a `Vec<T>` /
    # the `&mut` values of a `BTreeMap<String, T>`, the body being ONE call of a translated function whose only
    # parameter is `&mut T` and whose value is `()`: the container is rebuilt from the final values (`Rs.forEachMut`,
    # `Rs.forEachMutVal`; the first panic / error / exhausted fuel of a call ends the function)
    def for_each_mut(self, e):
        it = e.iter
        while it.kind == "paren":
            it = it.e
        body = e.body
        if body.kind != "block" or body.tail is not None and body.stmts:
            return None
        st = body.stmts[0].e if (len(body.stmts) == 1 and body.stmts[0].kind == "expr") else (body.tail if not body.stmts else None)
        if st is None or st.kind != "call" or st.f.kind != "path" or len(st.f.segs) != 1 or len(st.args) != 1:
            return None
        a = strip(st.args[0])
        if a.kind != "path" or len(a.segs) != 1:
            return None
        v = a.segs[0]
        sig = self.find_sig(None, st.f.segs[0]) if self.lookup(st.f.segs[0]) is None else None
        if sig is None or len(sig["params"]) != 1 or sig.get("mut") != [sig["params"][0][0]] or sig["ret"] != ("unit",):
            return None
        ety = sig["params"][0][1]
        if it.kind == "path" and len(it.segs) == 1 and e.pat.kind == "p_path" and e.pat.path == [v]:
            pl = self.place_of(it)
            if self.resolve(pl[2]) != ("vec", ety):
                return None
            prim = "Rs.forEachMut"
        elif it.kind == "mcall" and it.name == "iter_mut" and not it.args and e.pat.kind == "p_tuple" and len(e.pat.items) == 2 \
                and e.pat.items[0].kind == "p_wild" and e.pat.items[1].kind == "p_path" and e.pat.items[1].path == [v]:
            pl = self.place_of(it.recv)
            if self.resolve(pl[2]) != ("btree", STR, ety):
                return None
            prim = "Rs.forEachMutVal"
        else:
            return None
        head = sig["lean"]
        if sig.get("fuel"):
            self.uses_fuel = True
            if self.group is not None and sig.get("group") == self.group and self.rec_stack:
                raise Unsupported("a loop over `&mut` elements inside a hoisted loop body")
            head += " fuel"
        r = self.fresh()
        return ["let %s ← Ctl.ofRes (%s %s (%s))" % (r, prim, self.place_term(pl), head)] + self.place_store(pl, r)

    def tr_loop(self, e):
        if e.kind == "for":
            r = self.for_each_mut(e)
            if r is not None:
                return r
            it = e.iter
            while it.kind == "paren":
                it = it.e
            if it.kind == "mcall" and it.name == "iter_mut":
                raise Unsupported("`for .. in x.iter_mut()` whose body is not one call `f(v)` of a function of `&mut` element")
            if it.kind == "path" and len(it.segs) == 1 and self.lookup(it.segs[0]) is not None \
                    and it.segs[0] in getattr(self, "mut_payloads", set()):
                raise Unsupported("`for v in <&mut Vec>` whose body is not one call `f(v)` of a function of `&mut` element")
        return FnTr6c.tr_loop(self, e)

    def pure_closure(self, c, arg_ty, want):
        # `|a, b| e` on pairs: `|(a, b)| e`
        if c.kind == "closure" and len(c.params) == 2 and arg_ty is not None and arg_ty[0] == "tuple" and len(arg_ty[1]) == 2:
            c = N("closure", params=[N("p_tuple", items=list(c.params))], body=c.body)
        # `|x| { <expr> }`: a block that is only an expression is that expression
        if c.kind == "closure":
            b = c.body
            while b.kind in ("block", "paren") and (b.kind == "paren" or (not b.stmts and b.tail is not None)):
                b = b.e if b.kind == "paren" else b.tail
            c = N("closure", params=c.params, body=b)
        return FnTr6c.pure_closure(self, c, arg_ty, want)

    # -- `from_slice(x)`: phase 3 kept the fallback `Err(_) => parse_value(buf)` as the parameter `text__`; here it is the
    # translated parser applied to the SAME argument
    def user_call(self, sig, args, recv=None):
        if recv is None and sig.get("name") == "from_slice" and len(sig["params"]) == 2 and sig["params"][1][0] == "text__" \
                and len(args) == 1 and not isinstance(args[0], tuple):
            l1, t1, ty1 = self.ex(args[0], sig["params"][0][1])
            if not is_bytes(ty1):
                raise Unsupported("from_slice of %s" % R4.tystr4(ty1))
            if self.find_sig(None, "parse_value") is None:
                raise Unsupported("from_slice: the text parser is not translated")
            self.uses_fuel = True
            a = self.atom(t1)
            args = [(l1, a), ([], "(parse_value fuel %s)" % a)]
        return FnTr6c.user_call(self, sig, args, recv)

    def ex0(self, e, want):
        if e.kind == "macro" and e.name == "vec" and not any(t.k == "p" and t.v == ";" for t in e.toks):
            # `vec![a, b, ..]` of values
            q = R4.Parser4(list(e.toks) + [Tok("eof", None, 0)])
            items = []
            while q.peek().k != "eof":
                items.append(q.parse_expr())
                if not q.eatp(","):
                    break
            if q.peek().k != "eof" or not items:
                raise Unsupported("`vec![..]` arguments")
            el = want[1] if (want is not None and want[0] == "vec") else None
            ls, ts = [], []
            for it in items:
                l1, t1, ty1 = self.ex(it, el)
                el = ty1 if el is None else el
                self.unify(el, ty1, "`vec![..]` element")
                ls += l1
                ts.append(self.atom(t1))
            return ls, "[%s]" % ", ".join(ts), ("vec", el)
        if e.kind == "macro" and e.name == "matches":
            # `matches!(<place>, <pattern> [if <pure guard>])` -> a pure Lean `match` with a catch-all `false`
            q = R4.Parser4(list(e.toks) + [Tok("eof", None, 0)])
            scrut = q.parse_expr()
            if not q.eatp(","):
                raise Unsupported("matches! arguments")
            pat = q.parse_pattern()
            guard = None
            if q.isid("if"):
                q.next()
                guard = q.parse_expr()
            q.eatp(",")
            if q.peek().k != "eof":
                raise Unsupported("matches! arguments")
            ls, t, ty = self.ex(scrut)
            ty = self.resolve(ty)
            if ls:
                raise Unsupported("matches! on an effectful expression")
            ps, binds = self.ctor_pattern(pat, ty, top=False)
            g = "true"
            if guard is not None:
                self.push()
                save = self.tmp
                try:
                    for n, bt in binds:
                        self.bind(n, bt)
                    gl, gt, gty = self.ex(guard, ("bool",))
                finally:
                    self.pop()
                if gl:
                    self.tmp = save
                    raise Unsupported("matches! guard that is not a pure expression")
                if gty != ("bool",):
                    raise Unsupported("matches! guard of type %s" % R4.tystr4(gty))
                g = gt
            if ps == "_" or not ps.startswith("("):
                if ps.startswith("."):
                    return [], "(match %s with | %s => %s | _ => false)" % (self.atom(t), ps, g), ("bool",)
                raise Unsupported("matches! pattern not in the subset")
            return [], "(match %s with | %s => %s | _ => false)" % (self.atom(t), ps, g), ("bool",)
        return FnTr6c.ex0(self, e, want)


def translate_fn7(world, file, impl, trait, name, lean, it, group):
    """as rs2lean6c.translate_fn6c, with the phase-7 function translator; -> (aux, lines, uses_fuel)"""
    orig = R4.FnTr4
    R4.FnTr4 = FnTr7
    FnTr3.user_call = R6c._user_call3
    try:
        return R4.translate_fn4(world, file, impl, trait, name, lean, it, group)
    finally:
        R4.FnTr4 = orig
        FnTr3.user_call = R6c._orig_user_call3


HEADER = """-- GENERATED by tools/rs2lean7.py from the Rust sources of the crate (src/*.rs); do not edit.
-- Phase 7: the public dispatchers of the editors of functions.rs WITH their JSON-text branches (the calls of the
-- translated text parser, of the translated encoder and of the `_jsonb` halves).  One block per translated function or
-- recursive group (hoisted loop bodies `<fn>.loop<k>` first).  The meaning of every `Rs.*` / `Ctl.*` name is in
-- JsonbModel/RustPrelude.lean … RustPrelude6c.lean and RustPrelude7.lean; the agreement theorems are in
-- Proofs/TranslatedAgreeK*.lean.
import JsonbModel.Generated.Translated6b
import JsonbModel.Generated.Translated6c
import JsonbModel.Generated.Translated5b
import JsonbModel.RustPrelude7

set_option linter.unusedVariables false

namespace Jsonb.Tr
open Jsonb.Rs (Ctl)
"""
FOOTER = "end Jsonb.Tr\n"


def key_of(file, impl, name):
    return "%s::%s%s" % (file, (impl + "::") if impl else "", name)


def build_world(repo):
    world = world6c(repo)
    wb = world6b(repo)
    # the JSON text parser of phase 6b (Generated/Translated6b.lean, imported by the header)
    for k in (("src/parser.rs", None, "parse_value"),):
        if k in wb.sigs and k not in world.sigs:
            world.sigs[k] = dict(wb.sigs[k])
            world.sigs_names.add(k[2])
    return world


def generate(repo, prev_text):
    world = build_world(repo)
    status = {}
    blocks = []
    prev = {m.group(1): m.group(2) for m in R.BLOCK_RE.finditer(prev_text or "")}

    def guarded(key, fn):
        try:
            r = fn()
            status[key] = "translated" if r is not None else "missing"
            return r
        except Unsupported as e:
            status[key] = "unsupported: %s" % e
        except RecursionError:
            status[key] = "unsupported: expression too deeply nested"
        except Exception as e:
            if os.environ.get("RS2LEAN7_DEBUG"):
                raise
            status[key] = "unsupported: translator error (%s: %s)" % (type(e).__name__, e)
        return None

    items = {}
    for file, impl, trait, name, lean, group in FUNCS7:
        key = key_of(file, impl, name)
        hits = world.find(file, "fn", name, impl, trait)
        if not hits:
            status[key] = ("unsupported: cannot read %s: %s" % (file, world.file_errors[file])) if file in world.file_errors else "missing"
            continue
        if len(hits) > 1:
            status[key] = "unsupported: defined more than once"
            continue

        def sig_of():
            tr = FnTr7(world, file, impl, trait, name, hits[0], lean, None, group)
            ptys = [lean_type6c(t, world) for _, t in tr.params]
            lean_type6c(tr.ret_value_type(), world)
            world.sigs[(file, impl, name)] = dict(
                params=list(tr.params), ret=tr.ret, lean=lean, writer=None, mut=list(tr.mutparams),
                name=name, group=group, trait=trait, fuel=(True if group is not None else None), holder=None, fmt=False,
                lean_fn=" → ".join(ptys + ["Res %s" % tr.lean_ret()]))
            if impl is None:
                world.sigs_names.add(name)
            return hits[0]
        it = guarded(key, sig_of)
        if it is not None:
            items[key] = it
    done_groups = set()
    for file, impl, trait, name, lean, group in FUNCS7:
        key = key_of(file, impl, name)
        if group is None:
            lines = None
            if key in items:
                def one():
                    aux, body, uses = translate_fn7(world, file, impl, trait, name, lean, items[key], None)
                    world.sigs[(file, impl, name)]["fuel"] = bool(uses)
                    return aux + body
                lines = guarded(key, one)
            if lines is None and (file, impl, name) in world.sigs:
                pb = prev.get(key, "")
                world.sigs[(file, impl, name)]["fuel"] = bool(re.search(r"^def %s \(fuel : Nat\)" % re.escape(lean), pb, re.M))
            blocks.append((key, lines))
            continue
        if group in done_groups:
            continue
        done_groups.add(group)
        members = [f for f in FUNCS7 if f[5] == group]
        gkey = "%s::group %s (%s)" % (members[0][0], group, ", ".join(m[3] if m[1] is None else "%s::%s" % (m[1], m[3]) for m in members))
        auxs, defs, good = [], [], True
        for mfile, mimpl, mtrait, mname, mlean, _ in members:
            mkey = key_of(mfile, mimpl, mname)
            if mkey not in items:
                good = False
                continue

            def one():
                aux, body, _ = translate_fn7(world, mfile, mimpl, mtrait, mname, mlean, items[mkey], group)
                return aux, body
            r = guarded(mkey, one)
            if r is None:
                good = False
            else:
                auxs += r[0]
                defs += r[1]
        if good:
            status[gkey] = "translated"
            blocks.append((gkey, auxs + ["mutual"] + defs + ["end"]))
        else:
            status[gkey] = "unsupported: a member of the group is not translated"
            blocks.append((gkey, None))
    out = [HEADER]
    ok = True
    for key, lines in blocks:
        out.append("-- BEGIN %s\n" % key)
        if lines is not None:
            out.append("\n".join(lines) + "\n")
        else:
            ok = False
            if key in prev:
                out.append(prev[key])
                status[key] += " (kept the previously generated block)"
            else:
                out.append("-- (no translation available)\n")
        out.append("-- END %s\n\n" % key)
    out.append(FOOTER)
    ok = ok and all(v == "translated" for v in status.values())
    return "".join(out), status, ok


def main(argv):
    to_stdout = "--stdout" in argv
    try:
        prev_text = open(PREV, encoding="utf-8").read()
    except OSError:
        prev_text = ""
    text, status, ok = generate(REPO, prev_text)
    if to_stdout:
        sys.stdout.write(text)
        if "--status" in argv:
            sys.stderr.write(json.dumps(status, indent=1) + "\n")
        return 0
    try:
        old = open(OUT, encoding="utf-8").read()
    except OSError:
        old = None
    changed = False
    if old != text:
        changed = True
        os.makedirs(os.path.dirname(OUT), exist_ok=True)
        tmp_out = OUT + ".tmp%d" % os.getpid()
        with open(tmp_out, "w", encoding="utf-8") as f:
            f.write(text)
        os.replace(tmp_out, OUT)
    print(json.dumps({"ok": ok, "functions": status, "changed": changed}))
    return 0


if __name__ == "__main__":
    sys.exit(main(sys.argv[1:]))
