#!/usr/bin/env python3
"""rs2lean5b: phase 5b of the Rust -> Lean translator: the recursive RELATIONAL functions of functions.rs -
`compare` and its group (`compare_scalar`, `compare_container`, `compare_array`, `compare_object`), the
comparable key (`convert_to_comparable` and its group) and containment (`scalar_eq`, `array_contains`,
`contains_jsonb`).  Extends the subset of tools/rs2lean4.py (-> rs2lean3.py -> rs2lean2.py -> rs2lean.py) with
  * the public `compare`: `if <sniff> { <text> } else if <sniff> { <text> } else if <sniff> { <text> }` whose
    branches all leave the function: each text branch calls the JSON text parser (and `compare` itself on the
    re-encoded documents) and is kept as a parameter `text1__`, `text2__`, `text3__` holding its result;
  * functions without a result (`fn f(.., buf: &mut Vec<u8>)`) inside a recursive group, `return;`;
  * `let x = match <call returning Result> { Ok(p) => p, Err(_) => { return; } };`;
  * `if let Ok(p) = <call returning Result> { .. }`;
  * `x.saturating_add(n)`, `a ^ b` and `>>` on signed integers (arithmetic shift), `b[i] ^= m` on a byte array.
Output: lean/JsonbModel/Generated/Translated5b.lean (namespace Jsonb.Tr, after the phase-1..4 files).
The semantics of every new primitive is in the hand-written lean/JsonbModel/RustPrelude5b.lean.
Same conventions as the earlier phases (see tools/RS2LEAN.md): reads $VERIF_REPO (default /repo), writes
the output only when it changes, prints ONE JSON status line last; `--stdout` prints the text and writes
nothing; a function outside the subset keeps its previously generated block.  Python 3 stdlib only."""
import json, os, re, sys

HERE = os.path.dirname(os.path.abspath(__file__))
sys.path.insert(0, HERE)
import rs2lean as R  # noqa: E402
import rs2lean2 as R2  # noqa: E402
import rs2lean3 as R3  # noqa: E402
import rs2lean4 as R4  # noqa: E402
from rs2lean import N, Tok, Unsupported, NeedType, is_int, is_bytes, lname, ind  # noqa: E402
from rs2lean2 import NeedLitType, strip, U8, STR  # noqa: E402
from rs2lean3 import FnTr3  # noqa: E402
from rs2lean4 import Parser4, FnTr4, FoundHole, lean_type4  # noqa: E402

REPO = os.environ.get("VERIF_REPO", "/repo")
OUT = os.environ.get("RS2LEAN5B_OUT", os.path.normpath(os.path.join(HERE, "..", "lean", "JsonbModel", "Generated", "Translated5b.lean")))
PREV = os.environ.get("RS2LEAN5B_PREV", OUT)

F = "src/functions.rs"

# (file, impl type or None, trait or None, fn name, Lean name, recursive group or None); dependency order
FUNCS5B = [
    (F, None, None, "compare_scalar", "compare_scalar", "compare"),
    (F, None, None, "compare_container", "compare_container", "compare"),
    (F, None, None, "compare_array", "compare_array", "compare"),
    (F, None, None, "compare_object", "compare_object", "compare"),
    (F, None, None, "compare", "compare", None),
    (F, None, None, "scalar_convert_to_comparable", "scalar_convert_to_comparable", "comparable"),
    (F, None, None, "array_convert_to_comparable", "array_convert_to_comparable", "comparable"),
    (F, None, None, "object_convert_to_comparable", "object_convert_to_comparable", "comparable"),
    (F, None, None, "convert_to_comparable", "convert_to_comparable", None),
]

# public functions whose first statement is an `if` / `else if` chain of sniffing tests, every branch of which
# leaves the function: branch k is the parameter `text<k>__` holding its result
TEXT_CHAIN = {"compare": 3}

# public functions without a result (`fn f(value: &[u8], buf: &mut Vec<u8>)`) that contain one statement
# `if !is_jsonb(value) { <text branch>; return; }`: the text branch calls the JSON text parser (and the function itself
# on the re-encoded document) and is kept as a parameter `text__` holding its result (the final buffer)
TEXT_UNIT = {"convert_to_comparable"}


class FnTr5b(FnTr4):
    # -- expressions
    def ex_mcall(self, e, want):
        if e.name == "saturating_add" and len(e.args) == 1:
            save = self.tmp
            ls, t, ty = self.ex(e.recv, want if (want is not None and want[0] == "int") else None)
            ty = self.default_flex(ty) if R.is_flex(ty) else ty
            if is_int(ty):
                l1, t1, _ = self.ex(e.args[0], ty)
                return ls + l1, "(Rs.saturatingAdd %s %s %s)" % (self.ity(ty), self.atom(t), self.atom(t1)), ty
            self.tmp = save
        return FnTr4.ex_mcall(self, e, want)

    def idents_of(self, node):
        # a `return` inside a loop body yields the final values of the `&mut` parameters: they are free
        # variables of the hoisted body even where it never names them
        acc = FnTr4.idents_of(self, node)
        found = []

        def walk(x):
            if isinstance(x, (list, tuple)):
                for y in x:
                    walk(y)
            elif isinstance(x, N):
                if x.kind in ("return", "try"):
                    found.append(x)
                for kk, v in x.__dict__.items():
                    if kk != "kind":
                        walk(v)
        walk(node)
        if found:
            acc = set(acc) | set(self.mutparams)
        return acc

    def tr_assign(self, e):
        # `b[i] op= x` on a byte array with a literal index and a literal operand: `b[i] = b[i] op x`
        lhs = strip(e.lhs)
        if lhs.kind == "index" and e.op != "=" and e.op.endswith("=") and lhs.idx.kind == "int" and strip(e.rhs).kind == "int":
            e = N("assign", op="=", lhs=e.lhs, rhs=N("bin", op=e.op[:-1], l=lhs, r=e.rhs))
        return FnTr4.tr_assign(self, e)

    def ctl(self, e, mode, want):
        # `if let Ok(p) = <call of a translated function without &mut parameters> { .. }`: the error value is dropped
        if e.kind == "iflet" and e.pat.kind == "p_ctor" and e.pat.path == ["Ok"] and len(e.pat.args) == 1:
            sc = e.scrut
            while sc.kind == "paren":
                sc = sc.e
            if sc.kind in ("call", "mcall"):
                sig = self.callee_sig(sc)
                if sig is None or sig["ret"][0] != "res" or sig.get("mut") or sig.get("writer") or sig.get("fuel"):
                    raise Unsupported("`if let Ok(..)` on a call that is not a translated function without `&mut` parameters")
                e = N("iflet", pat=N("p_ctor", path=["Some"], args=e.pat.args), scrut=N("res_as_opt", e=sc),
                      then=e.then, els=e.els)
        return FnTr4.ctl(self, e, mode, want)

    def ex_bin(self, e, want):
        if e.op in ("&", "|", "^"):
            save = self.tmp
            ls, lt, rt, ty = self.pair(e.l, e.r, want if (want is not None and want[0] == "int") else None)
            if is_int(ty) and ty[1][0] == "i":
                fn = {"&": "bitandS", "|": "bitorS", "^": "bitxorS"}[e.op]
                return ls, "(Rs.%s %s %s %s)" % (fn, self.ity(ty), self.atom(lt), self.atom(rt)), ty
            self.tmp = save
        return FnTr4.ex_bin(self, e, want)

    # -- whole function: the sniffing chain of `compare`
    def always_returns(self, b):
        """every path through the block ends in `return <e>`"""
        last = b.tail if b.tail is not None else (b.stmts[-1].e if b.stmts and b.stmts[-1].kind == "expr" else None)
        if last is None:
            return False
        while last.kind == "paren":
            last = last.e
        if last.kind == "return":
            return last.e is not None
        if last.kind == "match":
            for a in last.arms:
                body = a.body
                if body.kind != "block":
                    body = N("block", stmts=[], tail=body)
                if not self.always_returns(body):
                    return False
            return bool(last.arms)
        if last.kind == "if" and last.els is not None:
            els = last.els if last.els.kind == "block" else N("block", stmts=[], tail=last.els)
            return self.always_returns(last.then) and self.always_returns(els)
        return False

    def split_text_unit(self, body):
        hits = []
        for i, s0 in enumerate(body.stmts):
            e = s0.e if s0.kind == "expr" else None
            if e is not None and e.kind == "if" and e.els is None and self.is_sniff(e.cond):
                hits.append((i, e))
        if len(hits) != 1:
            raise Unsupported("expected one `if !is_jsonb(..) { <text branch>; return; }` statement")
        i, e = hits[0]
        last = e.then.tail if e.then.tail is not None else (e.then.stmts[-1].e if e.then.stmts and e.then.stmts[-1].kind == "expr" else None)
        if last is None or last.kind != "return" or last.e is not None:
            raise Unsupported("the text branch must end with `return;`")
        for s1 in body.stmts[:i]:
            if not (s1.kind == "let" and s1.init is not None and strip(s1.init).kind == "int"):
                raise Unsupported("only literal `let`s may precede the text branch")
        self.text_params = ["text__"]
        then = N("block", stmts=[], tail=N("return", e=N("path", segs=["text__"])))
        s0 = N("expr", e=N("if", cond=e.cond, then=then, els=None), semi=False)
        return N("block", stmts=body.stmts[:i] + [s0] + body.stmts[i + 1:], tail=body.tail)

    def split_text_branch(self, body):
        if self.name in TEXT_UNIT:
            return self.split_text_unit(body)
        if self.name not in TEXT_CHAIN:
            return FnTr4.split_text_branch(self, body)
        want = TEXT_CHAIN[self.name]
        if not body.stmts:
            raise Unsupported("expected the `if !is_jsonb(..) { <text branch> } else if ..` prologue")
        s0 = body.stmts[0]
        e = s0.e if s0.kind == "expr" else None
        conds = []
        cur = e
        while cur is not None and cur.kind == "if" and self.is_sniff(cur.cond) and self.always_returns(cur.then):
            conds.append(cur.cond)
            cur = cur.els
            if cur is not None and cur.kind == "block" and not cur.stmts and cur.tail is not None and cur.tail.kind == "if":
                cur = cur.tail
        if cur is not None or len(conds) != want:
            raise Unsupported("expected a chain of %d `if !is_jsonb(..) { …; return …; }` text branches" % want)
        self.text_params = ["text%d__" % (k + 1) for k in range(want)]
        node = None
        for k in reversed(range(want)):
            then = N("block", stmts=[], tail=N("return", e=N("path", segs=[self.text_params[k]])))
            node = N("if", cond=conds[k], then=then, els=node)
        s0 = N("expr", e=node, semi=False)
        return N("block", stmts=[s0] + body.stmts[1:], tail=body.tail)

    def translate0(self):
        if self.name not in TEXT_CHAIN and self.name not in TEXT_UNIT:
            return FnTr4.translate0(self)
        p = self.body_parser
        body = p.parse_block()
        if p.peek().k != "eof":
            raise Unsupported("tokens after the function body")
        body = self.split_text_branch(body)
        self.scopes = []
        self.push()
        binders = []
        for n, t in self.params:
            self.bind(n, t)
            binders.append("(%s : %s)" % (lname(n), self.lt(t)))
        if self.name in TEXT_CHAIN and (self.ret[0] != "res" or self.mutparams):
            raise Unsupported("text prologue in a function of this shape")
        if self.name in TEXT_UNIT and (self.ret != ("unit",) or not self.mutparams or self.group is not None):
            raise Unsupported("text prologue in a function of this shape")
        for tp in self.text_params:
            self.scopes[-1][tp] = ("res", self.ret)
            binders.append("(%s : Res %s)" % (tp, self.lean_ret()))
        self.text_param = self.text_params[0]
        lines, _, _, _ = self.tr_block(body, "tail", None)
        out = []
        for a in self.aux_defs:
            out += a + [""]
        if self.uses_fuel:
            binders = ["(fuel : Nat)"] + binders
        head = "def %s %s: Res %s := Ctl.run do" % (self.lean, "".join(x + " " for x in binders), self.lean_ret())
        return out, [head] + ind(lines)

    def tail(self, e):
        if (e is not None and e.kind == "path" and len(e.segs) == 1 and (self.name in TEXT_CHAIN or self.name in TEXT_UNIT)
                and e.segs[0] in getattr(self, "text_params", [])):
            return ["Ctl.ret %s" % e.segs[0]]
        return FnTr4.tail(self, e)


# ----------------------------------------------------------------------------- driver

HEADER = """-- GENERATED by tools/rs2lean5b.py from the Rust sources of the crate (src/*.rs); do not edit.
-- Phase 5b: the recursive relational functions of functions.rs (compare, comparable key, contains).  One block
-- per translated function or recursive group (hoisted loop bodies `<fn>.loop<k>` first).  The meaning of every
-- `Rs.*` / `Ctl.*` name is in JsonbModel/RustPrelude.lean … RustPrelude4.lean and RustPrelude5b.lean; the
-- agreement theorems are in Proofs/TranslatedAgreeF*.lean.
import JsonbModel.Generated.Translated4
import JsonbModel.RustPrelude5b

set_option linter.unusedVariables false

namespace Jsonb.Tr
open Jsonb.Rs (Ctl)
"""
FOOTER = "end Jsonb.Tr\n"


def phase4_world(repo):
    """declarations and signatures of the phase-1..4 targets (rs2lean4.generate builds them; the world it
    works on is captured, rs2lean4.py itself is not modified)"""
    box = {}
    orig = R4.phase3_world

    def capture(r):
        w = orig(r)
        box["w"] = w
        return w
    R4.phase3_world = capture
    try:
        R4.generate(repo, "")
    finally:
        R4.phase3_world = orig
    return box["w"]


def translate_fn5b(world, file, impl, trait, name, lean, it, group):
    """as rs2lean4.translate_fn4, with the phase-5b function translator"""
    orig = R4.FnTr4
    R4.FnTr4 = FnTr5b
    try:
        return R4.translate_fn4(world, file, impl, trait, name, lean, it, group)
    finally:
        R4.FnTr4 = orig


def key_of(file, impl, name):
    return "%s::%s%s" % (file, (impl + "::") if impl else "", name)


def generate(repo, prev_text):
    world = phase4_world(repo)
    status = {}
    blocks = []
    prev = {m.group(1): m.group(2) for m in R.BLOCK_RE.finditer(prev_text or "")}

    def guarded(key, fn):
        try:
            r = fn()
            status[key] = "translated" if r is not None else "missing"
            return r
        except Unsupported as e:
            status[key] = "unsupported: %s" % e
        except RecursionError:
            status[key] = "unsupported: expression too deeply nested"
        except Exception as e:
            status[key] = "unsupported: translator error (%s: %s)" % (type(e).__name__, e)
        return None

    # signatures of all phase-5b targets first (calls inside a group go both ways)
    items = {}
    for file, impl, trait, name, lean, group in FUNCS5B:
        key = key_of(file, impl, name)
        hits = world.find(file, "fn", name, impl, trait)
        if not hits:
            status[key] = ("unsupported: cannot read %s: %s" % (file, world.file_errors[file])) if file in world.file_errors else "missing"
            continue
        if len(hits) > 1:
            status[key] = "unsupported: defined more than once"
            continue

        def sig_of():
            tr = FnTr5b(world, file, impl, trait, name, hits[0], lean, None, group)
            ptys = [lean_type4(t, world) for _, t in tr.params]
            lean_type4(tr.ret_value_type(), world)
            params = list(tr.params)
            for k in range(TEXT_CHAIN.get(name, 0)):
                params.append(("text%d__" % (k + 1), tr.ret))
            if name in TEXT_UNIT:
                params.append(("text__", ("res", tr.ret)))
            world.sigs[(file, impl, name)] = dict(
                params=params, ret=tr.ret, lean=lean, writer=None, mut=list(tr.mutparams), name=name, group=group,
                trait=trait, fuel=(True if group is not None else None), holder=None,
                lean_fn=" → ".join(ptys + ["Res %s" % tr.lean_ret()]))
            if impl is None:
                world.sigs_names.add(name)
            return hits[0]
        it = guarded(key, sig_of)
        if it is not None:
            items[key] = it
    done_groups = set()
    for idx, (file, impl, trait, name, lean, group) in enumerate(FUNCS5B):
        key = key_of(file, impl, name)
        if group is None:
            lines = None
            if key in items:
                def one():
                    aux, body, uses = translate_fn5b(world, file, impl, trait, name, lean, items[key], None)
                    world.sigs[(file, impl, name)]["fuel"] = bool(uses)
                    return aux + body
                lines = guarded(key, one)
            if lines is None and (file, impl, name) in world.sigs:
                pb = prev.get(key, "")
                world.sigs[(file, impl, name)]["fuel"] = bool(re.search(r"^def %s \(fuel : Nat\)" % re.escape(lean), pb, re.M))
            blocks.append((key, lines))
            continue
        if group in done_groups:
            continue
        done_groups.add(group)
        members = [f for f in FUNCS5B if f[5] == group]
        gkey = "%s::group %s (%s)" % (members[0][0], group, ", ".join(m[3] if m[1] is None else "%s::%s" % (m[1], m[3]) for m in members))
        auxs, defs, good = [], [], True
        for mfile, mimpl, mtrait, mname, mlean, _ in members:
            mkey = key_of(mfile, mimpl, mname)
            if mkey not in items:
                good = False
                continue

            def one():
                aux, body, _ = translate_fn5b(world, mfile, mimpl, mtrait, mname, mlean, items[mkey], group)
                return aux, body
            r = guarded(mkey, one)
            if r is None:
                good = False
            else:
                auxs += r[0]
                defs += r[1]
        if good:
            status[gkey] = "translated"
            blocks.append((gkey, auxs + ["mutual"] + defs + ["end"]))
        else:
            status[gkey] = "unsupported: a member of the group is not translated"
            blocks.append((gkey, None))
    out = [HEADER]
    ok = True
    for key, lines in blocks:
        out.append("-- BEGIN %s\n" % key)
        if lines is not None:
            out.append("\n".join(lines) + "\n")
        else:
            ok = False
            if key in prev:
                out.append(prev[key])
                status[key] += " (kept the previously generated block)"
            else:
                out.append("-- (no translation available)\n")
        out.append("-- END %s\n\n" % key)
    out.append(FOOTER)
    ok = ok and all(v == "translated" for v in status.values())
    return "".join(out), status, ok


def main(argv):
    to_stdout = "--stdout" in argv
    try:
        prev_text = open(PREV, encoding="utf-8").read()
    except OSError:
        prev_text = ""
    text, status, ok = generate(REPO, prev_text)
    if to_stdout:
        sys.stdout.write(text)
        return 0
    try:
        old = open(OUT, encoding="utf-8").read()
    except OSError:
        old = None
    changed = False
    if old != text:
        changed = True
        os.makedirs(os.path.dirname(OUT), exist_ok=True)
        tmp_out = OUT + ".tmp%d" % os.getpid()
        with open(tmp_out, "w", encoding="utf-8") as f:
            f.write(text)
        os.replace(tmp_out, OUT)
    print(json.dumps({"ok": ok, "functions": status, "changed": changed}))
    return 0


if __name__ == "__main__":
    sys.exit(main(sys.argv[1:]))
