#!/usr/bin/env python3
"""rs2lean5b: phase 5b of the Rust -> Lean translator: the recursive RELATIONAL functions of functions.rs -
`compare` and its group (`compare_scalar`, `compare_container`, `compare_array`, `compare_object`), the
comparable key (`convert_to_comparable` and its group) and containment (`Number::eq`, `scalar_eq`, `array_contains`,
`contains_jsonb`, `contains`).  Extends the subset of tools/rs2lean4.py (-> rs2lean3.py -> rs2lean2.py -> rs2lean.py) with
  * the public `compare` / `contains`: `if <sniff> { <text> } [else if <sniff> { <text> } ..]` whose branches all leave
    the function: each text branch calls the JSON text parser (and the function itself on the re-encoded documents) and
    is kept as a parameter `text1__`, `text2__`, .. holding its result; `convert_to_comparable` (no result, `&mut` buffer):
    `if <sniff> { <text>; return; }` -> the parameter `text__` holds the final buffer;
  * `return;` inside a loop of a function with `&mut` parameters (the parameters are free variables of the hoisted body);
  * `if let Ok(p) = <call> { .. }`, `match (<call>, <call>) { (Ok(a), Ok(b)) => .., _ => .. }` on calls of translated
    functions without `&mut` parameters (`Rs.resOpt`: the error values are dropped, panics stay);
  * `x.saturating_add(n)`, `& | ^` on signed integers (two's complement), `b[i] op= lit` on a byte array,
    `r.unwrap_or(<bool>)` on a `Result<bool>`;
  * `a == b` / `a != b` on a type with a translated `impl PartialEq .. fn eq` (`Number`; where a type implements the trait
    more than once the item is selected by its signature, `SELECT`);
  * `for x in <iterator struct>` INSIDE a recursive group: bounded by the function's `fuel` like a call of a member, the
    members the body calls are parameters of the hoisted body; a hoisted body that needs `fuel` itself (it calls a
    fuel-taking function that is not a member, or collects an iterator) takes it as its first parameter;
  * `<iterator struct>.filter(|p| c).map(|p| x).collect()` with pure closures: `Rs.collectIter fuel T.next it`, then
    `List.filter` / `List.map`; `let v: Vec<_> = ..` (the annotation's `_` is inferred).
Output: lean/JsonbModel/Generated/Translated5b.lean (namespace Jsonb.Tr, after the phase-1..4 files).
The semantics of every new primitive is in the hand-written lean/JsonbModel/RustPrelude5b.lean.
Same conventions as the earlier phases (see tools/RS2LEAN.md): reads $VERIF_REPO (default /repo), writes
the output only when it changes, prints ONE JSON status line last; `--stdout` prints the text and writes
nothing; a function outside the subset keeps its previously generated block.  Python 3 stdlib only."""
import json, os, re, sys

HERE = os.path.dirname(os.path.abspath(__file__))
sys.path.insert(0, HERE)
import rs2lean as R  # noqa: E402
import rs2lean2 as R2  # noqa: E402
import rs2lean3 as R3  # noqa: E402
import rs2lean4 as R4  # noqa: E402
from rs2lean import N, Tok, Unsupported, NeedType, is_int, is_bytes, lname, ind  # noqa: E402
from rs2lean2 import NeedLitType, strip, U8, STR  # noqa: E402
from rs2lean3 import FnTr3  # noqa: E402
from rs2lean4 import Parser4, FnTr4, FoundHole, lean_type4  # noqa: E402

REPO = os.environ.get("VERIF_REPO", "/repo")
OUT = os.environ.get("RS2LEAN5B_OUT", os.path.normpath(os.path.join(HERE, "..", "lean", "JsonbModel", "Generated", "Translated5b.lean")))
PREV = os.environ.get("RS2LEAN5B_PREV", OUT)

F = "src/functions.rs"

# (file, impl type or None, trait or None, fn name, Lean name, recursive group or None); dependency order
FUNCS5B = [
    (F, None, None, "compare_scalar", "compare_scalar", "compare"),
    (F, None, None, "compare_container", "compare_container", "compare"),
    (F, None, None, "compare_array", "compare_array", "compare"),
    (F, None, None, "compare_object", "compare_object", "compare"),
    (F, None, None, "compare", "compare", None),
    (F, None, None, "scalar_convert_to_comparable", "scalar_convert_to_comparable", "comparable"),
    (F, None, None, "array_convert_to_comparable", "array_convert_to_comparable", "comparable"),
    (F, None, None, "object_convert_to_comparable", "object_convert_to_comparable", "comparable"),
    (F, None, None, "convert_to_comparable", "convert_to_comparable", None),
    ("src/number.rs", "Number", "PartialEq", "eq", "Number.eq", None),
    (F, None, None, "scalar_eq", "scalar_eq", None),
    (F, None, None, "array_contains", "array_contains", None),
    (F, None, None, "contains_jsonb", "contains_jsonb", "contains"),
    (F, None, None, "contains", "contains", None),
]

# where a type implements a trait more than once (`impl PartialEq for Number`, `impl PartialEq<&Number> for Number`):
# the item whose signature text (tokens up to the body, joined by one blank) matches this pattern
SELECT = {("src/number.rs", "Number", "eq"): r"other : & Self\b"}

# public functions whose first statement is an `if` / `else if` chain of sniffing tests, every branch of which
# leaves the function: branch k is the parameter `text<k>__` holding its result
TEXT_CHAIN = {"compare": 3, "contains": 1}

# public functions without a result (`fn f(value: &[u8], buf: &mut Vec<u8>)`) that contain one statement
# `if !is_jsonb(value) { <text branch>; return; }`: the text branch calls the JSON text parser (and the function itself
# on the re-encoded document) and is kept as a parameter `text__` holding its result (the final buffer)
TEXT_UNIT = {"convert_to_comparable"}


class FnTr5b(FnTr4):
    # -- expressions
    def ex_mcall0(self, e, want):
        if e.name == "unwrap_or" and len(e.args) == 1:
            save = self.tmp
            ls, t, ty = self.ex(e.recv, ("res", want) if want is not None else None)
            if ty is not None and ty[0] == "res" and ty[1] == ("bool",):
                l1, d, _ = self.ex(e.args[0], ("bool",))
                ls, r = self.call_res(ls + l1, "Rs.resUnwrapOr %s %s" % (self.atom(t), self.atom(d)))
                return ls, r, ("bool",)
            self.tmp = save
        if e.name == "saturating_add" and len(e.args) == 1:
            save = self.tmp
            ls, t, ty = self.ex(e.recv, want if (want is not None and want[0] == "int") else None)
            ty = self.default_flex(ty) if R.is_flex(ty) else ty
            if is_int(ty):
                l1, t1, _ = self.ex(e.args[0], ty)
                return ls + l1, "(Rs.saturatingAdd %s %s %s)" % (self.ity(ty), self.atom(t), self.atom(t1)), ty
            self.tmp = save
        return FnTr4.ex_mcall(self, e, want)

    def idents_of(self, node):
        # a `return` inside a loop body yields the final values of the `&mut` parameters: they are free
        # variables of the hoisted body even where it never names them
        acc = FnTr4.idents_of(self, node)
        found = []

        def walk(x):
            if isinstance(x, (list, tuple)):
                for y in x:
                    walk(y)
            elif isinstance(x, N):
                if x.kind in ("return", "try"):
                    found.append(x)
                for kk, v in x.__dict__.items():
                    if kk != "kind":
                        walk(v)
        walk(node)
        if found:
            acc = set(acc) | set(self.mutparams)
        return acc

    def for_iter(self, e, it, ity, enum):
        """as FnTr4.for_iter, also inside a recursive group: the loop is bounded by the function's `fuel` (the
        predecessor, as for a call of a member), the members its body calls are parameters of the hoisted body"""
        if self.group is None:
            return FnTr4.for_iter(self, e, it, ity, enum)
        sig = self.iter_sig(ity)
        self.uses_fuel = True
        M = self.assigned(e)
        for m in M:
            if self.lookup(m) == ("writer",):
                raise Unsupported("writer used inside a loop")
        pre, itt, _ = self.ex(it, ity)
        item_ty = sig["ret"][1]
        elem_ty = ("tuple", (("int", "usize"), item_ty)) if enum else item_ty
        elem_lean = self.lt(elem_ty)
        pat, binds = self.let_pattern(e.pat, elem_ty)
        if re.fullmatch(r"[A-Za-z_][A-Za-z0-9_]*", pat):
            head_param, head_lines = (pat, elem_lean), []
        else:
            head_param, head_lines = ("p__", elem_lean), ["let %s := p__" % pat]
        sigma_parts = [self.lt(self.lookup(m)) for m in M]
        sigma = "Unit" if not M else sigma_parts[0] if len(M) == 1 else "(" + " × ".join(sigma_parts) + ")"
        outer_rho = self.cur_rho()
        body_rho = "(Rs.LoopCtl %s %s)" % (outer_rho, sigma)
        idents = self.idents_of(e.body)
        frees = [n for n in self.visible() if n in idents and n not in M and self.lookup(n) != ("writer",)]
        free_params = [(lname(n), self.lt(self.lookup(n))) for n in frees]
        self.loop_stack.append(dict(M=M, rho=body_rho))
        self.rec_stack.append([])
        self.push()
        try:
            for n, bt in binds:
                self.bind(n, bt)
            lines, _, _, div = self.tr_block(e.body, "value", None)
            if not div:
                lines = lines + ["pure %s" % self.state_pack(M)]
        finally:
            self.pop()
            recs = self.rec_stack.pop()
            self.loop_stack.pop()
        self.loop_count = getattr(self, "loop_count", 0) + 1
        aux = "%s.loop%d" % (self.lean, self.loop_count)
        params = ["(rec__%s : %s)" % (s["name"], s["lean_fn"]) for s in recs]
        params += ["(%s : %s)" % p for p in free_params] + ["(%s : %s)" % head_param]
        if not M:
            params.append("(_ : Unit)")
            st_lines = []
        elif len(M) == 1:
            params.append("(%s : %s)" % (lname(M[0]), sigma))
            st_lines = []
        else:
            params.append("(st__ : %s)" % sigma)
            st_lines = ["let %s := st__" % self.state_pack(M)]
        head = "def %s %s : Ctl %s (Rs.Step %s) := Rs.loopStep do" % (aux, " ".join(params), outer_rho, sigma)
        self.aux_defs.append([head] + ind(st_lines + head_lines + lines))
        if self.rec_stack:
            given = ["rec__%s" % s["name"] for s in recs]
            for s in recs:
                if s not in self.rec_stack[-1]:
                    self.rec_stack[-1].append(s)
        else:
            given = ["(%s fuel)" % s["lean"] for s in recs]
        call = "%s fuel %s %s %s (%s)" % ("Rs.forIterEnum" if enum else "Rs.forIter", sig["lean"], self.atom(itt),
                                          self.state_pack(M), " ".join([aux] + given + [p[0] for p in free_params]))
        if not M:
            return pre + [call]
        return pre + ["let %s ← %s" % (self.state_pack(M), call)]

    def tr_stmt(self, s):
        # `let x: Vec<_> = <expr>;`: the annotation only fixes the container, the element type is that of the expression
        if s.kind == "let" and s.ty is not None and s.init is not None and self.has_infer_hole(s.ty):
            s = N("let", pat=s.pat, ty=None, init=s.init)
        return FnTr4.tr_stmt(self, s)

    def has_infer_hole(self, t):
        if isinstance(t, tuple):
            if t == ("named", "_"):
                return True
            return any(self.has_infer_hole(x) for x in t)
        return False

    def tr_assign(self, e):
        # `b[i] op= x` on a byte array with a literal index and a literal operand: `b[i] = b[i] op x`
        lhs = strip(e.lhs)
        if lhs.kind == "index" and e.op != "=" and e.op.endswith("=") and lhs.idx.kind == "int" and strip(e.rhs).kind == "int":
            e = N("assign", op="=", lhs=e.lhs, rhs=N("bin", op=e.op[:-1], l=lhs, r=e.rhs))
        return FnTr4.tr_assign(self, e)

    def ctl(self, e, mode, want):
        # `if let Ok(p) = <call of a translated function without &mut parameters> { .. }`: the error value is dropped
        if e.kind == "iflet" and e.pat.kind == "p_ctor" and e.pat.path == ["Ok"] and len(e.pat.args) == 1:
            sc = e.scrut
            while sc.kind == "paren":
                sc = sc.e
            if sc.kind in ("call", "mcall"):
                sig = self.callee_sig(sc)
                if sig is None or sig["ret"][0] != "res" or sig.get("mut") or sig.get("writer") or sig.get("fuel"):
                    raise Unsupported("`if let Ok(..)` on a call that is not a translated function without `&mut` parameters")
                e = N("iflet", pat=N("p_ctor", path=["Some"], args=e.pat.args), scrut=N("res_as_opt", e=sc),
                      then=e.then, els=e.els)
        return FnTr4.ctl(self, e, mode, want)

    def ctl_match(self, e, mode, want, M):
        # `match (f(..), g(..)) { (Ok(a), Ok(b)) => .., _ => .. }` on calls of translated functions without `&mut`
        # parameters: both calls are evaluated (in order), the error values are dropped
        scrut = e.scrut
        while scrut.kind == "paren":
            scrut = scrut.e
        if scrut.kind == "tuple" and len(scrut.items) >= 2 and all(strip(x).kind in ("call", "mcall") for x in scrut.items):
            sigs = [self.callee_sig(strip(x)) for x in scrut.items]
            if all(sg is not None and sg["ret"][0] == "res" and not sg.get("mut") and not sg.get("writer") and not sg.get("fuel") for sg in sigs):
                def conv(p):
                    if p.kind == "p_ctor" and p.path == ["Ok"] and len(p.args) == 1:
                        return N("p_ctor", path=["Some"], args=p.args)
                    if p.kind == "p_ctor" and p.path == ["Err"] and len(p.args) == 1 and p.args[0].kind == "p_wild":
                        return N("p_path", path=["None"])
                    if p.kind == "p_wild":
                        return p
                    raise Unsupported("pattern not in the subset for a match on a tuple of Results")
                arms = []
                for a in e.arms:
                    if a.guard is not None:
                        raise Unsupported("guard on a match on a tuple of Results")
                    if a.pat.kind == "p_wild":
                        pat = a.pat
                    elif a.pat.kind == "p_tuple" and len(a.pat.items) == len(scrut.items):
                        pat = N("p_tuple", items=[conv(q) for q in a.pat.items])
                    else:
                        raise Unsupported("pattern not in the subset for a match on a tuple of Results")
                    arms.append(N("arm", pat=pat, guard=None, body=a.body))
                e = N("match", scrut=N("tuple", items=[N("res_as_opt", e=strip(x)) for x in scrut.items]), arms=arms)
        return FnTr4.ctl_match(self, e, mode, want, M)

    def pure_closure(self, c, arg_ty, want):
        """a closure `|pat| expr` whose body is a pure expression of the subset -> (Lean `fun`, result type)"""
        if c.kind != "closure" or len(c.params) != 1:
            raise Unsupported("closure shape not in the subset")
        pat, binds = self.let_pattern(c.params[0], arg_ty)
        self.push()
        save = self.tmp
        try:
            for n, bt in binds:
                self.bind(n, bt)
            ls, t, ty = self.ex(c.body, want)
        finally:
            self.pop()
        if ls:
            self.tmp = save
            raise Unsupported("closure whose body is not a pure expression")
        ty = self.default_flex(ty) if R.is_flex(ty) else ty
        return "(fun %s => %s)" % (pat, t), ty

    def ex_mcall(self, e, want):
        # `<iterator struct>.filter(|p| c).map(|p| x).collect()`: the items are collected (`Rs.collectIter`, bounded by
        # the function's fuel), then filtered and mapped with the (pure) closures
        if e.name == "collect" and not e.args:
            chain, cur = [], strip(e.recv)
            while cur.kind == "mcall" and cur.name in ("filter", "map") and len(cur.args) == 1:
                chain.append((cur.name, cur.args[0]))
                cur = strip(cur.recv)
            ity = self.peek_type(cur) if chain else None
            sig = self.iter_sig(ity) if ity is not None else None
            if sig is not None:
                self.uses_fuel = True
                pre, itt, _ = self.ex(cur, ity)
                item_ty = sig["ret"][1]
                items = self.fresh()
                lines = pre + ["let %s ← Rs.collectIter fuel %s %s" % (items, sig["lean"], self.atom(itt))]
                term = items
                for kind, c in reversed(chain):
                    if kind == "filter":
                        fn, rty = self.pure_closure(c, item_ty, ("bool",))
                        if rty != ("bool",):
                            raise Unsupported("`.filter()` closure of type %s" % R4.tystr4(rty))
                        term = "(List.filter %s %s)" % (fn, term)
                    else:
                        fn, rty = self.pure_closure(c, item_ty, None)
                        self.need_concrete(rty)
                        term = "(List.map %s %s)" % (fn, term)
                        item_ty = rty
                return lines, term, ("vec", item_ty)
        return self.ex_mcall0(e, want)

    def ex_bin(self, e, want):
        if e.op in ("==", "!="):
            lt_ = self.peek_type(e.l)
            if lt_ is not None and lt_[0] == "named":
                sg = self.find_sig(lt_[1], "eq")
                if sg is not None and sg.get("trait") == "PartialEq" and not sg.get("fuel"):
                    ls, t, ty = self.user_call(sg, [e.r], recv=self.ex(e.l, lt_)[:2])
                    return ls, (t if e.op == "==" else "(!%s)" % self.atom(t)), ("bool",)
        if e.op in ("&", "|", "^"):
            save = self.tmp
            ls, lt, rt, ty = self.pair(e.l, e.r, want if (want is not None and want[0] == "int") else None)
            if is_int(ty) and ty[1][0] == "i":
                fn = {"&": "bitandS", "|": "bitorS", "^": "bitxorS"}[e.op]
                return ls, "(Rs.%s %s %s %s)" % (fn, self.ity(ty), self.atom(lt), self.atom(rt)), ty
            self.tmp = save
        return FnTr4.ex_bin(self, e, want)

    # -- whole function: the sniffing chain of `compare`
    def always_returns(self, b):
        """every path through the block ends in `return <e>`"""
        last = b.tail if b.tail is not None else (b.stmts[-1].e if b.stmts and b.stmts[-1].kind == "expr" else None)
        if last is None:
            return False
        while last.kind == "paren":
            last = last.e
        if last.kind == "return":
            return last.e is not None
        if last.kind == "match":
            for a in last.arms:
                body = a.body
                if body.kind != "block":
                    body = N("block", stmts=[], tail=body)
                if not self.always_returns(body):
                    return False
            return bool(last.arms)
        if last.kind == "if" and last.els is not None:
            els = last.els if last.els.kind == "block" else N("block", stmts=[], tail=last.els)
            return self.always_returns(last.then) and self.always_returns(els)
        return False

    def split_text_unit(self, body):
        hits = []
        for i, s0 in enumerate(body.stmts):
            e = s0.e if s0.kind == "expr" else None
            if e is not None and e.kind == "if" and e.els is None and self.is_sniff(e.cond):
                hits.append((i, e))
        if len(hits) != 1:
            raise Unsupported("expected one `if !is_jsonb(..) { <text branch>; return; }` statement")
        i, e = hits[0]
        last = e.then.tail if e.then.tail is not None else (e.then.stmts[-1].e if e.then.stmts and e.then.stmts[-1].kind == "expr" else None)
        if last is None or last.kind != "return" or last.e is not None:
            raise Unsupported("the text branch must end with `return;`")
        for s1 in body.stmts[:i]:
            if not (s1.kind == "let" and s1.init is not None and strip(s1.init).kind == "int"):
                raise Unsupported("only literal `let`s may precede the text branch")
        self.text_params = ["text__"]
        then = N("block", stmts=[], tail=N("return", e=N("path", segs=["text__"])))
        s0 = N("expr", e=N("if", cond=e.cond, then=then, els=None), semi=False)
        return N("block", stmts=body.stmts[:i] + [s0] + body.stmts[i + 1:], tail=body.tail)

    def split_text_branch(self, body):
        if self.name in TEXT_UNIT:
            return self.split_text_unit(body)
        if self.name not in TEXT_CHAIN:
            return FnTr4.split_text_branch(self, body)
        want = TEXT_CHAIN[self.name]
        if not body.stmts:
            raise Unsupported("expected the `if !is_jsonb(..) { <text branch> } else if ..` prologue")
        s0 = body.stmts[0]
        e = s0.e if s0.kind == "expr" else None
        conds = []
        cur = e
        while cur is not None and cur.kind == "if" and self.is_sniff(cur.cond) and self.always_returns(cur.then):
            conds.append(cur.cond)
            cur = cur.els
            if cur is not None and cur.kind == "block" and not cur.stmts and cur.tail is not None and cur.tail.kind == "if":
                cur = cur.tail
        if cur is not None or len(conds) != want:
            raise Unsupported("expected a chain of %d `if !is_jsonb(..) { …; return …; }` text branches" % want)
        self.text_params = ["text%d__" % (k + 1) for k in range(want)]
        node = None
        for k in reversed(range(want)):
            then = N("block", stmts=[], tail=N("return", e=N("path", segs=[self.text_params[k]])))
            node = N("if", cond=conds[k], then=then, els=node)
        s0 = N("expr", e=node, semi=False)
        return N("block", stmts=[s0] + body.stmts[1:], tail=body.tail)

    def translate(self):
        """a hoisted loop body that needs the function's `fuel` (it calls a fuel-taking function that is not a member of
        the group, or collects an iterator) takes it as its first parameter"""
        out, lines = FnTr4.translate(self)
        blocks, cur = [], []
        for l in out:
            if l == "":
                if cur:
                    blocks.append(cur)
                cur = []
            else:
                cur.append(l)
        if cur:
            blocks.append(cur)
        changed = True
        while changed:
            changed = False
            for b in blocks:
                m = re.match(r"def (\S+) ", b[0])
                if not m:
                    continue
                name = m.group(1)
                if "(fuel : Nat)" in b[0] or not any(re.search(r"\bfuel\b", l) for l in b[1:]):
                    continue
                b[0] = b[0].replace("def %s " % name, "def %s (fuel : Nat) " % name, 1)
                site = re.compile(r"\(%s(?=[ )])" % re.escape(name))
                for b2 in blocks:
                    for i in range(1, len(b2)):
                        b2[i] = site.sub("(%s fuel" % name, b2[i])
                for i in range(len(lines)):
                    lines[i] = site.sub("(%s fuel" % name, lines[i])
                changed = True
        out2 = []
        for b in blocks:
            out2 += b + [""]
        return out2, lines

    def translate0(self):
        if self.name not in TEXT_CHAIN and self.name not in TEXT_UNIT:
            return FnTr4.translate0(self)
        p = self.body_parser
        body = p.parse_block()
        if p.peek().k != "eof":
            raise Unsupported("tokens after the function body")
        body = self.split_text_branch(body)
        self.scopes = []
        self.push()
        binders = []
        for n, t in self.params:
            self.bind(n, t)
            binders.append("(%s : %s)" % (lname(n), self.lt(t)))
        if self.name in TEXT_CHAIN and self.mutparams:
            raise Unsupported("text prologue in a function of this shape")
        if self.name in TEXT_UNIT and (self.ret != ("unit",) or not self.mutparams or self.group is not None):
            raise Unsupported("text prologue in a function of this shape")
        for tp in self.text_params:
            self.scopes[-1][tp] = ("res", self.ret)
            binders.append("(%s : Res %s)" % (tp, self.lean_ret()))
        self.text_param = self.text_params[0]
        lines, _, _, _ = self.tr_block(body, "tail", None)
        out = []
        for a in self.aux_defs:
            out += a + [""]
        if self.uses_fuel:
            binders = ["(fuel : Nat)"] + binders
        head = "def %s %s: Res %s := Ctl.run do" % (self.lean, "".join(x + " " for x in binders), self.lean_ret())
        return out, [head] + ind(lines)

    def tail(self, e):
        if (e is not None and e.kind == "path" and len(e.segs) == 1 and (self.name in TEXT_CHAIN or self.name in TEXT_UNIT)
                and e.segs[0] in getattr(self, "text_params", [])):
            return ["Ctl.ret %s" % e.segs[0]]
        return FnTr4.tail(self, e)


# ----------------------------------------------------------------------------- driver

HEADER = """-- GENERATED by tools/rs2lean5b.py from the Rust sources of the crate (src/*.rs); do not edit.
-- Phase 5b: the recursive relational functions of functions.rs (compare, comparable key, contains).  One block
-- per translated function or recursive group (hoisted loop bodies `<fn>.loop<k>` first).  The meaning of every
-- `Rs.*` / `Ctl.*` name is in JsonbModel/RustPrelude.lean … RustPrelude4.lean and RustPrelude5b.lean; the
-- agreement theorems are in Proofs/TranslatedAgreeF*.lean.
import JsonbModel.Generated.Translated4
import JsonbModel.RustPrelude5b

set_option linter.unusedVariables false

namespace Jsonb.Tr
open Jsonb.Rs (Ctl)
"""
FOOTER = "end Jsonb.Tr\n"


def phase4_world(repo):
    """declarations and signatures of the phase-1..4 targets (rs2lean4.generate builds them; the world it
    works on is captured, rs2lean4.py itself is not modified)"""
    box = {}
    orig = R4.phase3_world

    def capture(r):
        w = orig(r)
        box["w"] = w
        return w
    R4.phase3_world = capture
    try:
        R4.generate(repo, "")
    finally:
        R4.phase3_world = orig
    return box["w"]


def translate_fn5b(world, file, impl, trait, name, lean, it, group):
    """as rs2lean4.translate_fn4, with the phase-5b function translator"""
    orig = R4.FnTr4
    R4.FnTr4 = FnTr5b
    try:
        return R4.translate_fn4(world, file, impl, trait, name, lean, it, group)
    finally:
        R4.FnTr4 = orig


def key_of(file, impl, name):
    return "%s::%s%s" % (file, (impl + "::") if impl else "", name)


def generate(repo, prev_text):
    world = phase4_world(repo)
    status = {}
    blocks = []
    prev = {m.group(1): m.group(2) for m in R.BLOCK_RE.finditer(prev_text or "")}

    def guarded(key, fn):
        try:
            r = fn()
            status[key] = "translated" if r is not None else "missing"
            return r
        except Unsupported as e:
            status[key] = "unsupported: %s" % e
        except RecursionError:
            status[key] = "unsupported: expression too deeply nested"
        except Exception as e:
            status[key] = "unsupported: translator error (%s: %s)" % (type(e).__name__, e)
        return None

    # signatures of all phase-5b targets first (calls inside a group go both ways)
    items = {}
    for file, impl, trait, name, lean, group in FUNCS5B:
        key = key_of(file, impl, name)
        hits = world.find(file, "fn", name, impl, trait)
        if not hits:
            status[key] = ("unsupported: cannot read %s: %s" % (file, world.file_errors[file])) if file in world.file_errors else "missing"
            continue
        if len(hits) > 1 and (file, impl, name) in SELECT:
            def sigtext(it_):
                out = []
                for t in it_["toks"]:
                    if t.k == "p" and t.v == "{":
                        break
                    out.append(str(t.v))
                return " ".join(out)
            hits = [h for h in hits if re.search(SELECT[(file, impl, name)], sigtext(h))]
            if not hits:
                status[key] = "missing"
                continue
        if len(hits) > 1:
            status[key] = "unsupported: defined more than once"
            continue

        def sig_of():
            tr = FnTr5b(world, file, impl, trait, name, hits[0], lean, None, group)
            ptys = [lean_type4(t, world) for _, t in tr.params]
            lean_type4(tr.ret_value_type(), world)
            params = list(tr.params)
            for k in range(TEXT_CHAIN.get(name, 0)):
                params.append(("text%d__" % (k + 1), tr.ret))
            if name in TEXT_UNIT:
                params.append(("text__", ("res", tr.ret)))
            world.sigs[(file, impl, name)] = dict(
                params=params, ret=tr.ret, lean=lean, writer=None, mut=list(tr.mutparams), name=name, group=group,
                trait=trait, fuel=(True if group is not None else None), holder=None,
                lean_fn=" → ".join(ptys + ["Res %s" % tr.lean_ret()]))
            if impl is None:
                world.sigs_names.add(name)
            return hits[0]
        it = guarded(key, sig_of)
        if it is not None:
            items[key] = it
    done_groups = set()
    for idx, (file, impl, trait, name, lean, group) in enumerate(FUNCS5B):
        key = key_of(file, impl, name)
        if group is None:
            lines = None
            if key in items:
                def one():
                    aux, body, uses = translate_fn5b(world, file, impl, trait, name, lean, items[key], None)
                    world.sigs[(file, impl, name)]["fuel"] = bool(uses)
                    return aux + body
                lines = guarded(key, one)
            if lines is None and (file, impl, name) in world.sigs:
                pb = prev.get(key, "")
                world.sigs[(file, impl, name)]["fuel"] = bool(re.search(r"^def %s \(fuel : Nat\)" % re.escape(lean), pb, re.M))
            blocks.append((key, lines))
            continue
        if group in done_groups:
            continue
        done_groups.add(group)
        members = [f for f in FUNCS5B if f[5] == group]
        gkey = "%s::group %s (%s)" % (members[0][0], group, ", ".join(m[3] if m[1] is None else "%s::%s" % (m[1], m[3]) for m in members))
        auxs, defs, good = [], [], True
        for mfile, mimpl, mtrait, mname, mlean, _ in members:
            mkey = key_of(mfile, mimpl, mname)
            if mkey not in items:
                good = False
                continue

            def one():
                aux, body, _ = translate_fn5b(world, mfile, mimpl, mtrait, mname, mlean, items[mkey], group)
                return aux, body
            r = guarded(mkey, one)
            if r is None:
                good = False
            else:
                auxs += r[0]
                defs += r[1]
        if good:
            status[gkey] = "translated"
            blocks.append((gkey, auxs + ["mutual"] + defs + ["end"]))
        else:
            status[gkey] = "unsupported: a member of the group is not translated"
            blocks.append((gkey, None))
    out = [HEADER]
    ok = True
    for key, lines in blocks:
        out.append("-- BEGIN %s\n" % key)
        if lines is not None:
            out.append("\n".join(lines) + "\n")
        else:
            ok = False
            if key in prev:
                out.append(prev[key])
                status[key] += " (kept the previously generated block)"
            else:
                out.append("-- (no translation available)\n")
        out.append("-- END %s\n\n" % key)
    out.append(FOOTER)
    ok = ok and all(v == "translated" for v in status.values())
    return "".join(out), status, ok


def main(argv):
    to_stdout = "--stdout" in argv
    try:
        prev_text = open(PREV, encoding="utf-8").read()
    except OSError:
        prev_text = ""
    text, status, ok = generate(REPO, prev_text)
    if to_stdout:
        sys.stdout.write(text)
        return 0
    try:
        old = open(OUT, encoding="utf-8").read()
    except OSError:
        old = None
    changed = False
    if old != text:
        changed = True
        os.makedirs(os.path.dirname(OUT), exist_ok=True)
        tmp_out = OUT + ".tmp%d" % os.getpid()
        with open(tmp_out, "w", encoding="utf-8") as f:
            f.write(text)
        os.replace(tmp_out, OUT)
    print(json.dumps({"ok": ok, "functions": status, "changed": changed}))
    return 0


if __name__ == "__main__":
    sys.exit(main(sys.argv[1:]))
