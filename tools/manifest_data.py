NOTES = ("Every check regenerates lean/JsonbModel/Generated/Constants.lean from /repo/src/constants.rs, rebuilds the "
         "property's theorem module and the model driver, audits axioms, rebuilds the Rust harness against /repo's "
         "working tree and runs the correspondence + oracle request stream. Genuine defects repaired in /repo are "
         "listed as `fixed:` lines in known_findings.json; their witnesses run first from corpus/.")

CLAIMED = {
 "C01": {
  "text": "Unbounded theorems in Lean 4: decode(encode v) = v (up to Int64(0)->UInt64(0) and NaN canonicalisation) for every value of any shape and depth within the format's field widths, re-encode identity, injectivity, shortest number widths, and the reserve-and-patch Encoder model writes exactly the README layout written as a pure spec function. The encoder/decoder models are tied to ser.rs/de.rs/number.rs by the correspondence check; the README layout and the round trip are additionally evaluated on the real code (oracle ops).",
  "note": "Trusted: Lean kernel + {propext, Classical.choice, Quot.sound}; constants translator; line-protocol glue; the sampled correspondence between the hand-written Encoder/Decoder/Number models and the Rust code. Domain hypothesis `goodTop` = field widths of the format (count < 2^29, nested payload < 2^28 bytes), valid UTF-8, sorted unique keys (BTreeMap).",
 },
 "C05": {
  "text": "Byte-level Lean models of every accessor (same running jentry/value/key offsets as functions.rs and iterator.rs, slices that can panic made explicit) and tree-level spec functions. Proved, unbounded: iterate_array/iterate_object_entries on the README layout yield exactly the members; get_jentry_by_index lands on the sum of earlier payload lengths; array_length and get_by_index refine the tree functions for every index and hand back canonical documents. All other accessors (get_by_name incl. ignore-case, key paths with negative indices, keys, each, values, type_of, casts, key existence, string traversal) are tied by correspondence (model vs Rust) and decided by the spec oracle (tree answer vs Rust) over all indices, all keys with case variants and prefixes, and key paths drawn from the document.",
  "note": "Refinement theorems exist for array_length and get_by_index only so far; for the other accessors the claim rests on the sampled oracle, not on a theorem (listed as not_yet_proved in the evidence). to_f64/to_str on floats depend on ryu / str::parse, modelled (parseF64 validated against Rust by the strf64 op).",
 },
 "C06": {
  "text": "Byte-level Lean models of every editor (iterate inputs, push raw entries into Array/ObjectBuilder models, build_into the caller's buffer; i32 index arithmetic with overflow as an explicit panic; error codes InvalidJsonType/InvalidObject/ObjectDuplicateKey) and tree-level spec functions for each. Proved, unbounded: builder frame/layout theorem with nested builders, array-from-raw-entries = canonical array, delete_by_index for every i32, concat of arrays. All editors are run with empty, random and document-shaped prior buffers; the real code's appended bytes are compared with the model (correspondence) and with encodeSpec of the tree edit (oracle), documented errors must leave the buffer untouched.",
  "note": "Defect D18 (build_object wrote keys in argument order) repaired in /repo. Refinement theorems cover the array editors named above; the other editors rest on correspondence + oracle (listed in evidence as not_yet_proved).",
 },
 "C13": {
  "text": "Spec functions distinct / intersection / except / overlap on element lists with identity = same entry word and payload; proved laws: first occurrence, no repeats, idempotence, intersection/except partition the first list by one decision sequence, overlap iff intersection non-empty; byte-level array_distinct refines the spec and yields a canonical array. Correspondence and oracle over pairs of derived documents with heavy duplication, nested equal/unequal containers, scalar and object operands, empty arrays.",
  "note": "Byte-level refinement is proved for array_distinct only; intersection/except/overlap byte walkers are tied by correspondence and decided by the spec oracle.",
 },
 "C14": {
  "text": "The unchanged code violates this property in three specific ways (genuine defect D14, not a small repair: the key format would have to change). Each is proved as a negation theorem with a concrete witness evaluated by the Lean kernel on the byte-level model of convert_to_comparable, replayed on the real code from corpus/C14, and listed in known_findings.json with a narrow matcher (class of the first difference found by walking the two documents in compare order). Every pair of derived documents is checked on the real code (key order vs compare); a disagreement outside the three classes is a VIOLATION. Key bytes themselves are tied by correspondence (with prefixes).",
  "note": "Level is proof for the negations; the positive embedding theorem on the restricted domain is still open, so outside the finding classes the claim rests on the sampled oracle.",
 },
 "C10": {
  "text": "Theorem: for every byte string (and every fuel) the decoder model reaches no panic site; valid encodings decode without running out of fuel. The model mirrors de.rs/number.rs call by call with every unwrap/index/assert as an explicit panic outcome; correspondence runs truncations, bit flips, substitutions, insert/delete, rewritten count/type/length words and random bytes through parse_jsonb and the model. Any panic of the real code is reported as a violation.",
  "note": "Three genuine defects were repaired first (fix: commits 62e309b, 3f3a454, 5f197fa). Still to be proved: UTF-8 of returned strings (checked by correspondence now), prefix rejection, text fallback of from_slice (needs the JSON parser model).",
 },
 "C17": {
  "text": "Theorem (frame property): for every prior buffer content, Value::write_to_vec's model appends exactly the README layout of the value and leaves the prefix untouched; proved through the literal reserve_jentries/replace_jentry (List.set at absolute index) model. Correspondence runs write_to_vec with random and document-shaped prefixes.",
  "note": "So far only the Encoder is covered by a theorem; builders, editors, selector writers and convert_to_comparable follow (DESIGN section 6 C17).",
 },
 "C18": {
  "text": "Theorems: every i64/u64/f64 bit pattern survives compact_encode/decode exactly (NaN to canonical NaN, infinities preserved) in the shortest of the 1/2/3/5/9-byte forms; Number::decode's model never panics and rejects empty input and trailing bytes; the literal model of `impl Ord for Number` (nine arms, cmp_int_float, OrderedFloat on bit patterns) equals the mathematical order of exact values with NaN greatest, hence a total order; int = uint iff same integer; int = float iff same real; i64/u64 views exact or absent; as_f64 of a u64 within half an ulp (ties to even), exact below 2^53, monotone. Correspondence: boundary numbers pairwise, floats against their integer neighbours in both orders, random triples; order laws also evaluated on the real code (numlaws).",
  "note": "Defects D2 (decode panics / accepts trailing bytes) and D10 (integer-vs-float comparison through `as f64`, not transitive) were repaired in /repo first. Floats are bit patterns (no Lean Float); OrderedFloat 4.x semantics read from its source and modelled; Rust `as f64` rounding modelled (ofNatRNE) and validated against the real conversion by the numview op.",
 },
}

NOT_YET = {}
