NOTES = ("Every check regenerates lean/JsonbModel/Generated/Constants.lean from /repo/src/constants.rs, rebuilds the "
         "property's theorem module and the model driver, audits axioms, rebuilds the Rust harness against /repo's "
         "working tree and runs the correspondence + oracle request stream. Genuine defects repaired in /repo are "
         "listed as `fixed:` lines in known_findings.json; their witnesses run first from corpus/.")

CLAIMED = {
 "C01": {
  "text": "Unbounded theorems in Lean 4: decode(encode v) = v (up to Int64(0)->UInt64(0) and NaN canonicalisation) for every value of any shape and depth within the format's field widths, re-encode identity, injectivity, shortest number widths, and the reserve-and-patch Encoder model writes exactly the README layout written as a pure spec function. The encoder/decoder models are tied to ser.rs/de.rs/number.rs by the correspondence check; the README layout and the round trip are additionally evaluated on the real code (oracle ops).",
  "note": "Trusted: Lean kernel + {propext, Classical.choice, Quot.sound}; constants translator; line-protocol glue; the sampled correspondence between the hand-written Encoder/Decoder/Number models and the Rust code. Domain hypothesis `goodTop` = field widths of the format (count < 2^29, nested payload < 2^28 bytes), valid UTF-8, sorted unique keys (BTreeMap).",
 },
 "C05": {
  "text": 'Byte-level Lean models of every accessor (same running jentry/value/key offsets as functions.rs and iterator.rs, slices that can panic made explicit) and tree-level spec functions. Refinement theorems, unbounded over all good documents and all arguments, for every accessor named in the property (index, name incl. ignore-case rule, key path incl. negative indices, length, keys, pairs, elements, type name, as_* casts, key existence, string traversal) and the corollary that returned sub-values are canonical documents. Correspondence ties the models to the Rust; the spec functions are also evaluated against the real code.',
  "note": "to_* casts from strings depend on Rust's str::parse (modelled and validated by dedicated ops). The model covers the JSONB branch; the text branch is C11.",
 },
 "C06": {
  "text": 'Byte-level models of every editor and tree-level spec functions, with refinement theorems into any prior buffer for ALL editors of the property (concat 5 cases, delete by name/index/key path, array_insert with clamping, object insert/update/delete/pick, strip_nulls, build_array/build_object) including the documented error outcomes, built on a proved frame/layout theorem for ArrayBuilder/ObjectBuilder with nested builders. Real code is run with empty, random and document-shaped prior buffers and compared with model and spec; documented errors must leave the buffer untouched.',
  "note": "Defect D18 (build_object wrote keys in argument order) repaired in /repo. Side conditions of the theorems are the format's field widths on the result.",
 },
 "C12": {
  "text": "The PostgreSQL @> rules as a tree-level function with proved characterisations (array rule, order and multiplicity ignored, object rule, bare scalar at the top, scalars only equals), scalar equality = compare equality (numbers by value across encodings), reflexivity and transitivity for all good documents (unbounded induction). The byte-level model of contains_jsonb (offset walkers, scalar_eq) is tied to the Rust by correspondence; the real code is compared with the spec function on derived pairs (dropped/reordered/duplicated/nested/re-typed members) and reflexivity/transitivity are evaluated on the real code for triples.",
  "note": "Defect D9 (raw payload comparison of numbers) repaired in /repo. The refinement between the byte walker and the tree function is not proved; it rests on correspondence and the oracle.",
 },
 "C13": {
  "text": 'Spec functions on element lists with identity = same entry word and payload; proved laws (first occurrence, idempotence, partition, overlap iff intersection non-empty) and byte-level refinement of all four functions for array, object and scalar operands (count map = multiset of identities), results canonical arrays.',
  "note": '—',
 },
 "C14": {
  "text": "The unchanged code violates this property in three specific ways (genuine defect D14, not a small repair: the key format would have to change). Each is proved as a negation theorem with a concrete witness evaluated by the Lean kernel on the byte-level model of convert_to_comparable, replayed on the real code from corpus/C14, and listed in known_findings.json with a narrow matcher (class of the first difference found by walking the two documents in compare order). Every pair of derived documents is checked on the real code (key order vs compare); a disagreement outside the three classes is a VIOLATION. Key bytes themselves are tied by correspondence (with prefixes).",
  "note": "Proof for the negations and for the positive embedding / injectivity theorems on the restricted domain (C14_embedding_partial, C14_key_eq_iff_partial; C14_not_embedding_deep shows the depth restriction is necessary); byte-level key = spec key (C14_key_refines). Outside the finding classes the real code is judged by the oracle.",
 },
 "C04": {
  "text": 'Refinement theorem: the byte-level model of compare (compare_scalar/container/array/object with their separately tracked offsets) returns exactly the documented comparison cmpJV on the encodings of any two good documents; cmpJV proved reflexive, antisymmetric, transitive, Equal iff equal JSON values (numbers by exact value), ranking of kinds, element-wise-then-length for arrays. Order laws are also evaluated on the real code for derived triples (cmplaws).',
  "note": "Relies on C18's exact number order (defect D10 repaired). The text/JSONB mixing of compare's arguments is covered under C11.",
 },
 "C02": {
  "text": 'Model of parser.rs + util.rs as written, with every index/slice/unwrap/checked subtraction an explicit panic outcome: proved total (no panic for any byte string), fuel adequate, integers exact, complete on compact RFC 8259 renderings of arbitrary trees. Correspondence on strict and lenient renderings (whitespace, escape spellings incl. surrogate pairs and \\u{XXXX}, number spellings around 2^63/2^64/1e400/subnormals), single-token corruptions, truncations at every offset of tricky strings, token soups. Oracles: the intended value shipped with each generated text (jexpect) and an independent strict RFC 8259 reader in Lean (spec:jparse: whatever it accepts must be accepted with the same value).',
  "note": 'Float rounding is exact big-Nat arithmetic by construction (F64.ofDecimal) and validated against fast_float2; the relaxed-language soundness direction is decided by correspondence only.',
 },
 "C03": {
  "text": "Theorems (unbounded, any nesting, all string contents): the byte-level model of to_string/to_pretty_string over the binary layout produces text that an independent strict RFC 8259 parser written in Lean accepts and reads back to a value equal to the document — identical, hence byte-identical re-encoding, when non-negative integers are stored unsigned; pretty equals compact after removing insignificant whitespace; escaper emits no control byte and is inverted by the strict string reader. The model text is tied to the real text by correspondence (to_string and to_pretty_string on every generated document, every byte 0..0x7f as value and key), ryu output is validated per instance, and serde_json + parse_value + an indentation-shape check judge the real text on the Rust side.",
  "note": "Defect D8 (control characters emitted raw) repaired in /repo. Float formatting (ryu) is external and enters as the hypothesis fmtOK, discharged per instance by the goodFmt check in the driver.",
 },
 "C08": {
  "text": 'Model of selector.rs (position frontier with raw offsets, select_* walkers, i64 index arithmetic, filter_expr dispatch, value collection and comparison, writers) and a tree-level denotational spec evalPaths. Proved refinement, unbounded over good documents and all paths the parser can build: in all mode the appended bytes are exactly the canonical encodings of the denoted items in document order with their offsets (soundness at every fuel, completeness, no panic, error iff the path denotes nothing), first/array/mixed/predicate modes, path_exists/path_match, termination; writers only append; index arithmetic exact. Correspondence (model vs Rust) and spec oracle (evalPaths on the decoded tree, re-encoded, vs Rust) in all four modes over paths drawn from each document.',
  "note": "Defects D6 (todo!()), index overflow, D13 (scalar root) repaired in /repo. Cross-kind comparisons follow the code's derived order (not judged by the property). suppPaths (ASTs the parser can build) is not proved of the parser model.",
 },
 "C09": {
  "text": 'Model of jsonpath/parser.rs over a model of the nom 7.1.3 combinators (ordered choice, Failure propagation through cut, overflow-checked number recognisers): proved total for every byte string, print->parse identity for step sequences. Oracles: generated paths in random spacing/keyword-case/quoting layouts with the intended AST shipped in the request (jpexpect), print->parse round trip on the real code (jproundtrip), correspondence on corruptions, truncations and token soups.',
  "note": 'Five defects repaired in /repo (unterminated quote panic, empty string, float literals, last - 2147483648, tab/newline/& as name delimiters, negative literal as left operand).',
 },
 "C15": {
  "text": "Theorems on the selector model: first = all truncated to one, mixed rule, exists iff all-mode non-empty, offsets delimit items, predicate paths give path_match's boolean in every mode with exists true. The modes oracle evaluates all of the property's clauses on the real code (four modes, exists, predicate_match and the five convenience functions) for every generated (path, document).",
  "note": 'array-mode = the all-mode items is evaluated on the real code, not proved.',
 },
 "C16": {
  "text": 'Model of keypath.rs over the nom model: proved total for every byte string; print->parse identity for all key paths without escapes; empty list. Oracles: generated key paths in random spacing with the intended elements (kpexpect), round trip on the real code, correspondence on corruptions/truncations/soups.',
  "note": 'Defects D4 (unterminated quote panic, empty string rejected) and tab/newline delimiters repaired in /repo.',
 },
 "C10": {
  "text": "Theorems about a model that mirrors de.rs/number.rs call by call with every unwrap/index/assert as an explicit panic outcome: for every byte string the decoder returns a value or an error (no panic site, fuel adequate); every string and key returned is valid UTF-8; every proper prefix of a valid encoding is rejected and valid encodings are consumed exactly; a text shorter than 2^27 bytes starting with a JSON start byte other than a space is rejected by the binary decoder, so from_slice parses it as text; from_slice never panics. Correspondence runs truncations at every offset, bit flips, substitutions, insert/delete, rewritten count/type/length words and random bytes through parse_jsonb / from_slice and the model. Any panic of the real code is a violation.",
  "note": "Four genuine defects were repaired first (fix: commits 62e309b, 3f3a454, 5f197fa, 2d9dc44).",
 },
 "C11": {
  "text": "Model T.* of every public document function INCLUDING its is_jsonb sniffing and its text branch, as written (which argument is sniffed, what a parse error returns). Theorems: for every accepted text (not starting with a space) the function on the text equals the function on the encoding of the text, in every text/binary combination, for all functions listed in evidence; via generic theorems for the parse-encode-run shape and via the C04/C05/C06 refinement theorems for tree-implemented text branches. Correspondence runs every op with `t:` (whole function) on text and binary arguments; the tj oracle runs, on the real code alone, each op under all 2^k text/binary choices against the all-binary call.",
  "note": "Defects D12a/b (to_serde_json, type_of on text) and D17 (second argument sniffed with the first) repaired in /repo. Known finding D21: arrays with >= 2^24 elements are sniffed as text (C11_sniff_false_huge). contains/concat/delete_by_index text branches: correspondence + oracle only.",
 },
 "C19": {
  "text": "Model of to_serde_json / to_serde_json_object (byte walker) and of the two From conversions over a mirror of serde_json::Value (PosInt/NegInt/Float, insertion-ordered map). Proved so far: number kinds and number round trip. Correspondence ties the walker model to the Rust on every generated document; the serdecheck oracle evaluates on the real code: structural equality with an independent strict parse of to_string's text (serde_json), number kinds, tree conversion = byte conversion, inverse conversion equal to the original, object-only variant.",
  "note": "Structural refinement and inverse theorems for whole documents are still open (numbers done); the claim beyond numbers rests on correspondence and the oracle. serde_json's float parser is within 1 ulp of exact (false alarm corrected: the oracle tolerates 1 ulp only where serde_json's own parse is the reference).",
 },
 "C17": {
  "text": "Theorem (frame property): for every prior buffer content, Value::write_to_vec's model appends exactly the README layout of the value and leaves the prefix untouched; proved through the literal reserve_jentries/replace_jentry (List.set at absolute index) model. Correspondence runs write_to_vec with random and document-shaped prefixes.",
  "note": "So far only the Encoder is covered by a theorem; builders, editors, selector writers and convert_to_comparable follow (DESIGN section 6 C17).",
 },
 "C18": {
  "text": "Theorems: every i64/u64/f64 bit pattern survives compact_encode/decode exactly (NaN to canonical NaN, infinities preserved) in the shortest of the 1/2/3/5/9-byte forms; Number::decode's model never panics and rejects empty input and trailing bytes; the literal model of `impl Ord for Number` (nine arms, cmp_int_float, OrderedFloat on bit patterns) equals the mathematical order of exact values with NaN greatest, hence a total order; int = uint iff same integer; int = float iff same real; i64/u64 views exact or absent; as_f64 of a u64 within half an ulp (ties to even), exact below 2^53, monotone. Correspondence: boundary numbers pairwise, floats against their integer neighbours in both orders, random triples; order laws also evaluated on the real code (numlaws).",
  "note": "Defects D2 (decode panics / accepts trailing bytes) and D10 (integer-vs-float comparison through `as f64`, not transitive) were repaired in /repo first. Floats are bit patterns (no Lean Float); OrderedFloat 4.x semantics read from its source and modelled; Rust `as f64` rounding modelled (ofNatRNE) and validated against the real conversion by the numview op.",
 },
}

NOT_YET = {}
