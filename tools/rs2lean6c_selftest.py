#!/usr/bin/env python3
"""Self-test of the phase-6c Rust -> Lean translator (tools/rs2lean6c.py: the renderer, the serde bridge and the
editors of functions.rs that phases 4 / 5 left) and of its agreement theorems
(lean/JsonbModel/Proofs/TranslatedAgreeI*.lean).  Same three questions as the self-tests of phases 1-5:

  (a) robustness: re-formatting the source leaves the generated Lean text byte-identical; a change
      that leaves the subset keeps the committed block and says so;
  (b) sensitivity: each small LOGIC mutation of a target function (wrong separator, wrong offset, offset not
      advanced, wrong tag, inverted test, wrong error, entry not pushed, ...), applied one at a time, changes the
      generated text and makes an agreement proof FAIL, while the unmutated source PASSES;
  (c) tolerance: harmless re-spellings are still proved.

Works on a copy of $VERIF_REPO/src (default /repo) in a temporary directory under /tmp; Lean runs on
scratch files in a second temporary directory (nothing under lean/ is written).  The Lean project
is $RS2LEAN6C_LEAN (default <verif>/lean); its `JsonbModel.Proofs.TranslatedAgreeI` must be built.
Python 3 stdlib only.  Exit code 0 iff everything behaved as expected."""
import concurrent.futures, json, os, re, shutil, subprocess, sys, tempfile, time

HERE = os.path.dirname(os.path.abspath(__file__))
VERIF = os.path.normpath(os.path.join(HERE, ".."))
LEAN = os.environ.get("RS2LEAN6C_LEAN", os.path.join(VERIF, "lean"))
REPO = os.environ.get("VERIF_REPO", "/repo")
TOOL = os.path.join(HERE, "rs2lean6c.py")
JOBS = int(os.environ.get("RS2LEAN_SELFTEST_JOBS", "4"))
COMMITTED = os.path.join(LEAN, "JsonbModel", "Generated", "Translated6c.lean")

sys.path.insert(0, HERE)
import rs2lean  # noqa: E402
import rs2lean2  # noqa: E402
import rs2lean3  # noqa: E402
import rs2lean4  # noqa: E402
import rs2lean6c  # noqa: E402
from rs2lean_selftest import reformat_variants, mutate  # noqa: E402

PARTS = {}
for _f in sorted(os.listdir(os.path.join(LEAN, "JsonbModel", "Proofs"))):
    _m = re.fullmatch(r"TranslatedAgreeI(\d+)\.lean", _f)
    if _m:
        PARTS[int(_m.group(1))] = _f

F = "src/functions.rs"
STR = [6]                   # the renderer (needs 1-5)
SER = [9]                   # the serde bridge (needs 1-8)
OVL = [10]                  # array_overlap_jsonb
OIN = [12]                  # object_insert_jsonb
STP = [15]                  # the strip_nulls family
BAR = [16]                  # build_array
BOB = [17]                  # build_object
DKP = [24]                  # the delete_by_keypath family (needs 18-23)

ARR_SEP = ("            for i in 0..length {\n                if i > 0 {\n                    if pretty_opts.enabled {\n"
           "                        json.push_str(\",\\n\");\n                    } else {\n                        json.push(',');\n")
SCA_TAIL = "    *jentry_offset += 4;\n    *value_offset += length;\n    Ok(())\n}\n"
SN_PUSH_OBJ = "                        builder.push_object(strip_nulls_object(item_header, item)?);"
DK_OTHER = ("                if i != idx {\n                    builder.push_raw(entry.0, entry.1);\n"
            "                } else if !keypath.is_empty() {")
DK_OKEY = ("                if !key.eq(name) {\n                    builder.push_raw(key, jentry, item);\n"
           "                } else if !keypath.is_empty() {")
DK_SCALAR_HIT = "                        _ => return Ok(None),\n                    }\n                }\n            }\n            Ok(Some(builder))"
OI_LOOP = ("    for _ in 0..idx {\n        if let Some((key, jentry, item)) = obj_iter.next() {\n"
           "            builder.push_raw(key, jentry, item);\n        }\n    }\n")

# (id, file, old text, new text, which occurrence (0-based), agreement parts to check, theorem expected to fail)
MUTATIONS = [
    # the renderer
    ("gi-indent-byte", F, "        String::from_utf8(vec![0x20; self.indent]).unwrap()", "        String::from_utf8(vec![0x09; self.indent]).unwrap()", 0, STR, "generate_indent_agrees"),
    ("sc-true-as-false", F, "        TRUE_TAG => json.push_str(\"true\"),", "        TRUE_TAG => json.push_str(\"false\"),", 0, STR, "scalar_to_string_step"),
    ("sc-string-under-number-tag", F, "        STRING_TAG => {\n            escape_scalar_string(value, *value_offset, *value_offset + length, json);", "        NUMBER_TAG => {\n            escape_scalar_string(value, *value_offset, *value_offset + length, json);", 0, STR, "scalar_to_string_step"),
    ("sc-entry-offset-8", F, SCA_TAIL, SCA_TAIL.replace("*jentry_offset += 4;", "*jentry_offset += 8;"), 0, STR, "scalar_to_string_step"),
    ("sc-value-offset-not-advanced", F, SCA_TAIL, SCA_TAIL.replace("    *value_offset += length;\n", ""), 0, STR, "scalar_to_string_step"),
    ("sc-number-from-offset-0", F, "            let num = Number::decode(&value[*value_offset..*value_offset + length])?;", "            let num = Number::decode(&value[0..*value_offset + length])?;", 0, STR, "scalar_to_string_step"),
    ("ct-array-bracket", F, "                json.push('[');", "                json.push('(');", 0, STR, "container_to_string_step"),
    ("ct-array-values-after-8n", F, "            let mut value_offset = 4 + *offset + 4 * length;", "            let mut value_offset = 4 + *offset + 8 * length;", 0, STR, "container_to_string_step"),
    ("ct-array-separator", F, ARR_SEP, ARR_SEP.replace("json.push(',');", "json.push(';');"), 0, STR, "cts_loop1_step"),
    ("ct-array-separator-before-first", F, ARR_SEP, ARR_SEP.replace("if i > 0 {", "if i >= 0 {"), 0, STR, "cts_loop1_step"),
    ("ct-object-keys-after-4n", F, "            let mut key_offset = 4 + *offset + 8 * length;", "            let mut key_offset = 4 + *offset + 4 * length;", 0, STR, "container_to_string_step"),
    ("ct-key-offset-not-advanced", F, "                jentry_offset += 4;\n                key_offset += key_length;\n", "                jentry_offset += 4;\n", 0, STR, "cts_loop2_step"),
    ("ct-key-end-is-length", F, "                keys.push_back((key_offset, key_offset + key_length));", "                keys.push_back((key_offset, key_length));", 0, STR, "cts_loop2_step"),
    ("ct-colon", F, "                    json.push(':');", "                    json.push('=');", 0, STR, "cts_loop3_step"),
    ("ct-pretty-colon-without-space", F, "                    json.push_str(\": \");", "                    json.push_str(\":\");", 0, STR, "cts_loop3_step"),
    ("ct-scalar-doc-value-at-4", F, "            let mut value_offset = 8 + *offset;", "            let mut value_offset = 4 + *offset;", 0, STR, "container_to_string_step"),
    ("ts-error-text", F, "        json.clear();\n        json.push_str(\"null\");", "        json.clear();\n        json.push_str(\"nil\");", 0, STR, "to_string_doc"),
    ("ts-pretty-by-default", F, "    if container_to_string(value, &mut 0, &mut json, &PrettyOpts::new(false)).is_err() {", "    if container_to_string(value, &mut 0, &mut json, &PrettyOpts::new(true)).is_err() {", 0, STR, "to_string_jsonb_agrees"),
    ("ts-empty-text", F, "            return \"null\".to_string();", "            return \"\".to_string();", 0, STR, "to_string_text_agrees"),
    # the serde bridge
    ("sj-true-as-false", F, "        TRUE_TAG => serde_json::Value::Bool(true),", "        TRUE_TAG => serde_json::Value::Bool(false),", 0, SER, "scalar_to_serde_json_step"),
    ("sj-nonfinite-error", F, "                    None => {\n                        return Err(Error::InvalidJson);", "                    None => {\n                        return Err(Error::InvalidJsonb);", 0, SER, "scalar_to_serde_json_step"),
    ("sj-string-under-number-tag", F, "        STRING_TAG => {\n            let len = jentry.length as usize;\n            let s = unsafe", "        FALSE_TAG => {\n            let len = jentry.length as usize;\n            let s = unsafe", 0, SER, "scalar_to_serde_json_step"),
    ("sj-scalar-payload-from-4", F, "            scalar_to_serde_json(jentry, &value[8..])?", "            scalar_to_serde_json(jentry, &value[4..])?", 0, SER, "containter_to_serde_json_step"),
    ("sj-member-dropped", F, "                let item = scalar_to_serde_json(jentry, val)?;\n                obj.insert(key.to_string(), item);", "                let item = scalar_to_serde_json(jentry, val)?;\n                let _ = (key, item);", 1, SER, "serde_loop1_step"),
    ("sj-array-item-dropped", F, "                let item = scalar_to_serde_json(jentry, val)?;\n                arr.push(item);", "                let item = scalar_to_serde_json(jentry, val)?;", 0, SER, None),
    ("sj-scalar-read-error", F, "                Err(_) => {\n                    return Err(Error::InvalidJsonb);\n                }\n            };\n            let jentry = JEntry::decode_jentry(encoded);\n            scalar_to_serde_json", "                Err(_) => {\n                    return Err(Error::InvalidEOF);\n                }\n            };\n            let jentry = JEntry::decode_jentry(encoded);\n            scalar_to_serde_json", 0, SER, "containter_to_serde_json_step"),
    ("sjo-array-is-error", F, "        ARRAY_CONTAINER_TAG | SCALAR_CONTAINER_TAG => None,", "        SCALAR_CONTAINER_TAG => None,", 0, SER, "containter_to_serde_json_object_agrees"),
    # array_overlap_jsonb
    ("ov-found-is-false", F, "                if item_set.contains(&(jentry1, item1)) {\n                    return Ok(true);", "                if item_set.contains(&(jentry1, item1)) {\n                    return Ok(false);", 0, OVL, "ov_loop2_step"),
    ("ov-default-true", F, "        }\n    }\n\n    Ok(false)\n}\n\n/// Insert a new value into a JSONB object", "        }\n    }\n\n    Ok(true)\n}\n\n/// Insert a new value into a JSONB object", 0, OVL, "array_overlap_jsonb_agrees"),
    ("ov-scalar-payload-from-4", F, "            item_set.insert((jentry2, &value2[8..]));", "            item_set.insert((jentry2, &value2[4..]));", 0, OVL, "array_overlap_jsonb_agrees"),
    # object_insert_jsonb
    ("oi-duplicate-allowed", F, "            if !update_flag {\n                return Err(Error::ObjectDuplicateKey);", "            if update_flag {\n                return Err(Error::ObjectDuplicateKey);", 0, OIN, "oi_loop1_step"),
    ("oi-position-not-advanced", F, "        } else if new_key > obj_key {\n            idx = i + 1;", "        } else if new_key > obj_key {\n            idx = i;", 0, OIN, "oi_loop1_step"),
    ("oi-first-members-dropped", F, OI_LOOP, OI_LOOP.replace("            builder.push_raw(key, jentry, item);\n", "            let _ = (key, jentry, item);\n"), 0, OIN, None),
    ("oi-old-member-kept", F, "    if duplicate_key {\n        let _ = obj_iter.next();\n    }\n", "", 0, OIN, "object_insert_jsonb_agrees"),
    ("oi-not-object-error", F, "        return Err(Error::InvalidObject);", "        return Err(Error::InvalidJsonb);", 0, OIN, "object_insert_jsonb_agrees"),
    ("oi-scalar-payload-from-4", F, "            builder.push_raw(new_key, new_jentry, &new_value[8..]);", "            builder.push_raw(new_key, new_jentry, &new_value[4..]);", 0, OIN, "object_insert_jsonb_agrees"),
    # strip_nulls
    ("sn-array-nulls-dropped", F, "            _ => builder.push_raw(jentry, item),\n        }\n    }\n    Ok(builder)\n}\n\nfn strip_nulls_object", "            NULL_TAG => continue,\n            _ => builder.push_raw(jentry, item),\n        }\n    }\n    Ok(builder)\n}\n\nfn strip_nulls_object", 0, STP, "sa_loop1_step"),
    ("sn-object-nulls-kept", F, "            NULL_TAG => continue,\n            _ => builder.push_raw(key, jentry, item),", "            _ => builder.push_raw(key, jentry, item),", 0, STP, "so_loop1_step"),
    ("sn-nested-object-as-array", F, SN_PUSH_OBJ, "                        builder.push_array(strip_nulls_array(item_header, item)?);", 0, STP, "sa_loop1_step"),
    ("sn-scalar-doc-dropped", F, "        _ => buf.extend_from_slice(value),\n    }\n    Ok(())\n}\n\nfn strip_nulls_array", "        _ => buf.extend_from_slice(&value[4..]),\n    }\n    Ok(())\n}\n\nfn strip_nulls_array", 0, STP, "strip_nulls_jsonb_agrees"),
    # build_array / build_object
    ("ba-object-header", F, "    let header = ARRAY_CONTAINER_TAG | len;", "    let header = OBJECT_CONTAINER_TAG | len;", 0, BAR, "build_array_into_agrees"),
    ("ba-scalar-payload-from-4", F, "                data.extend_from_slice(&value[8..]);", "                data.extend_from_slice(&value[4..]);", 0, BAR, "ba_loop1_step"),
    ("ba-count-not-incremented", F, "        len += 1;\n        buf.extend_from_slice(&encoded_jentry);", "        buf.extend_from_slice(&encoded_jentry);", 0, BAR, "ba_loop1_step"),
    ("ba-container-entry-string-tag", F, "                data.extend_from_slice(value);\n                (CONTAINER_TAG | value.len() as u32).to_be_bytes()", "                data.extend_from_slice(value);\n                (STRING_TAG | value.len() as u32).to_be_bytes()", 0, BAR, "ba_loop1_step"),
    ("bo-key-entry-number-tag", F, "        let encoded_key_jentry = (STRING_TAG | key.len() as u32).to_be_bytes();", "        let encoded_key_jentry = (NUMBER_TAG | key.len() as u32).to_be_bytes();", 0, BOB, "bo_loop1_step"),
    ("bo-key-bytes-not-written", F, "        key_data.extend_from_slice(key.as_bytes());\n", "", 0, BOB, "bo_loop1_step"),
    ("bo-values-before-keys", F, "    buf.extend_from_slice(&key_data);\n    buf.extend_from_slice(&val_data);", "    buf.extend_from_slice(&val_data);\n    buf.extend_from_slice(&key_data);", 0, BOB, "build_object_into_agrees"),
    ("bo-array-header", F, "    let header = OBJECT_CONTAINER_TAG | len;", "    let header = ARRAY_CONTAINER_TAG | len;", 0, BOB, "build_object_into_agrees"),
    # the delete_by_keypath family
    ("dk-index-from-end-sign", F, "            let idx = if *idx < 0 { len + *idx } else { *idx };", "            let idx = if *idx < 0 { len - *idx } else { *idx };", 0, DKP, "del_arr_step"),
    ("dk-index-len-in-range", F, "            if idx < 0 || idx >= len {\n                return Ok(None);", "            if idx < 0 || idx > len {\n                return Ok(None);", 0, DKP, "del_arr_step"),
    ("dk-array-index-test-inverted", F, DK_OTHER, DK_OTHER.replace("if i != idx {", "if i == idx {"), 0, DKP, "dka_loop1_other"),
    ("dk-array-empty-path-descends", F, DK_OTHER, DK_OTHER.replace("} else if !keypath.is_empty() {", "} else if keypath.is_empty() {"), 0, DKP, "dka_loop1_drop"),
    ("dk-array-scalar-hit-error", F, DK_SCALAR_HIT, DK_SCALAR_HIT.replace("return Ok(None)", "return Err(Error::InvalidJsonType)"), 0, DKP, "dka_loop1_hit"),
    ("dk-array-nested-header-at-4", F, "                            let item_header = read_u32(item_value, 0)?;", "                            let item_header = read_u32(item_value, 4)?;", 0, DKP, "dka_loop1_hit"),
    ("dk-array-name-is-error", F, "        _ => Ok(None),\n    }\n}\n\nfn delete_jsonb_object_by_keypath", "        _ => Err(Error::InvalidJsonType),\n    }\n}\n\nfn delete_jsonb_object_by_keypath", 0, DKP, "del_arr_step"),
    # (checked without I24: the kernel evaluation of its witness on this mutated loop takes minutes)
    ("dk-object-key-test-inverted", F, DK_OKEY, DK_OKEY.replace("if !key.eq(name) {", "if key.eq(name) {"), 0, [23], "dko_loop1_other"),
    ("dk-object-empty-path-descends", F, DK_OKEY, DK_OKEY.replace("} else if !keypath.is_empty() {", "} else if keypath.is_empty() {"), 0, DKP, "dko_loop1_drop"),
    ("dk-object-scalar-hit-error", F, DK_SCALAR_HIT, DK_SCALAR_HIT.replace("return Ok(None)", "return Err(Error::InvalidJsonType)"), 1, DKP, "dko_loop1_hit"),
    ("dk-object-nested-header-at-4", F, "                            let item_header = read_u32(item, 0)?;", "                            let item_header = read_u32(item, 4)?;", 0, DKP, "dko_loop1_hit"),
    ("dk-object-index-is-error", F, "        _ => Ok(None),\n    }\n}\n\n/// Deletes a key (and its value)", "        _ => Err(Error::InvalidJsonType),\n    }\n}\n\n/// Deletes a key (and its value)", 0, DKP, "del_obj_step"),
    ("dk-top-nothing-deleted-drops-header", F, "                None => {\n                    buf.extend_from_slice(value);\n                }\n            };", "                None => {\n                    buf.extend_from_slice(&value[4..]);\n                }\n            };", 0, DKP, "delete_by_keypath_jsonb_agrees"),
    ("dk-top-scalar-error", F, "        _ => return Err(Error::InvalidJsonType),\n    }\n    Ok(())\n}\n\nfn delete_jsonb_array_by_keypath", "        _ => return Err(Error::InvalidJsonb),\n    }\n    Ok(())\n}\n\nfn delete_jsonb_array_by_keypath", 0, DKP, "delete_by_keypath_jsonb_agrees"),
]

# harmless re-spellings: different generated text, same logic -> the proofs must still go through
RESPELLINGS = [
    ("ct-array-offset-commuted", F, "            let mut value_offset = 4 + *offset + 4 * length;", "            let mut value_offset = 4 + *offset + length * 4;", 0, STR),
    ("sc-value-offset-explicit-sum", F, SCA_TAIL, SCA_TAIL.replace("*value_offset += length;", "*value_offset = *value_offset + length;"), 0, STR),
    ("ct-separator-test-flipped", F, ARR_SEP, ARR_SEP.replace("if i > 0 {", "if 0 < i {"), 0, STR),
    ("ct-key-offset-commuted", F, "            let mut key_offset = 4 + *offset + 8 * length;", "            let mut key_offset = 4 + *offset + length * 8;", 0, STR),
    ("sj-number-arms-swapped", F, "                Number::Int64(v) => serde_json::Value::Number(serde_json::Number::from(v)),\n                Number::UInt64(v) => serde_json::Value::Number(serde_json::Number::from(v)),", "                Number::UInt64(v) => serde_json::Value::Number(serde_json::Number::from(v)),\n                Number::Int64(v) => serde_json::Value::Number(serde_json::Number::from(v)),", 0, SER),
    ("ov-test-negated-arms", F, "                if !item_set.contains(&(jentry2.clone(), item2)) {\n                    item_set.insert((jentry2, item2));\n                }", "                if item_set.contains(&(jentry2.clone(), item2)) {\n                } else {\n                    item_set.insert((jentry2, item2));\n                }", 0, OVL),
    ("oi-position-commuted", F, "        } else if new_key > obj_key {\n            idx = i + 1;", "        } else if new_key > obj_key {\n            idx = 1 + i;", 0, OIN),
    ("ba-count-explicit-sum", F, "        len += 1;\n        buf.extend_from_slice(&encoded_jentry);", "        len = len + 1;\n        buf.extend_from_slice(&encoded_jentry);", 0, BAR),
    ("ba-header-commuted", F, "    let header = ARRAY_CONTAINER_TAG | len;", "    let header = len | ARRAY_CONTAINER_TAG;", 0, BAR),
    ("bo-count-explicit-sum", F, "        val_jentries.push_back(encoded_val_jentry);\n        len += 1;", "        val_jentries.push_back(encoded_val_jentry);\n        len = len + 1;", 0, BOB),
    ("dk-range-test-flipped", F, "            if idx < 0 || idx >= len {\n                return Ok(None);", "            if idx >= len || idx < 0 {\n                return Ok(None);", 0, DKP),
    ("dk-index-test-flipped", F, DK_OTHER, DK_OTHER.replace("if i != idx {", "if idx != i {"), 0, DKP),
]

# changes that leave the subset / remove a target: the tool must say so and keep the committed block
RETENTION = [
    ("out-of-subset-format-width", F, "            json.push_str(&num.to_string());", "            json.push_str(&format!(\"{:>8}\", num));", 0,
     "src/functions.rs::scalar_to_string", "unsupported"),
    ("renamed-away", F, "fn scalar_to_serde_json(jentry: JEntry", "fn scalar_to_serde(jentry: JEntry", 0,
     "src/functions.rs::scalar_to_serde_json", "missing"),
    ("out-of-subset-no-clear", F, "        json.clear();\n        json.push_str(\"null\");\n    }\n    json\n}\n\n/// Convert `JSONB` value to pretty String", "        json.push_str(\"null\");\n    }\n    json\n}\n\n/// Convert `JSONB` value to pretty String", 0,
     "src/functions.rs::to_string", "unsupported"),
    ("out-of-subset-serde-variant", F, "        NULL_TAG => serde_json::Value::Null,", "        NULL_TAG => serde_json::Value::default(),", 0,
     "src/functions.rs::scalar_to_serde_json", "unsupported"),
    ("out-of-subset-rev", F, "    for value in items.into_iter() {\n        let header = read_u32(value, 0)?;\n        let encoded_jentry", "    for value in items.into_iter().rev() {\n        let header = read_u32(value, 0)?;\n        let encoded_jentry", 0,
     "src/functions.rs::build_array", "unsupported"),
    ("out-of-subset-pop-back", F, "    match keypath.pop_front() {\n        Some(KeyPath::Index(idx)) => {", "    match keypath.pop_back() {\n        Some(KeyPath::Index(idx)) => {", 0,
     "src/functions.rs::delete_jsonb_array_by_keypath", "unsupported"),
]

# the tree after the repair of `build_array` / `build_object` (bodies in the private `build_array_into` /
# `build_object_into`, the public names are rollback wrappers): the body of `build_array` is reported under the `_into` key,
# and a wrapper that leaves the recognised shape must be rejected (NOT translated as the callee's outcome)
RETENTION_KEY_REPAIRED = {"out-of-subset-rev": "src/functions.rs::build_array_into"}
RETENTION_REPAIRED = [
    ("wrapper-truncate-other-length", F, "        buf.truncate(start);", "        buf.truncate(start + 1);", 0,
     "src/functions.rs::build_array", "unsupported"),
    ("wrapper-test-inverted", F, "    let res = build_object_into(items, buf);\n    if res.is_err() {", "    let res = build_object_into(items, buf);\n    if res.is_ok() {", 0,
     "src/functions.rs::build_object", "unsupported"),
    ("wrapper-other-buffer-start", F, "    let start = buf.len();\n    let res = build_array_into(items, buf);", "    let start = buf.len() - 1;\n    let res = build_array_into(items, buf);", 0,
     "src/functions.rs::build_array", "unsupported"),
    ("wrapper-result-replaced", F, "        buf.truncate(start);\n    }\n    res\n}\n\nfn build_object_into", "        buf.truncate(start);\n    }\n    Ok(())\n}\n\nfn build_object_into", 0,
     "src/functions.rs::build_object", "unsupported"),
]


def run_tool(src_root, out_path):
    """-> (generated text, status dict)"""
    env = dict(os.environ, VERIF_REPO=src_root, RS2LEAN6C_OUT=out_path, RS2LEAN6C_PREV=COMMITTED)
    if os.path.exists(out_path):
        os.remove(out_path)
    r = subprocess.run([sys.executable, TOOL], env=env, capture_output=True, text=True)
    if r.returncode != 0:
        raise RuntimeError("rs2lean6c.py crashed: " + r.stderr[-2000:])
    status = json.loads(r.stdout.strip().splitlines()[-1])
    r2 = subprocess.run([sys.executable, TOOL, "--stdout"], env=env, capture_output=True, text=True)
    if r2.returncode != 0:
        raise RuntimeError("rs2lean6c.py --stdout crashed: " + r2.stderr[-2000:])
    text = open(out_path, encoding="utf-8").read()
    if text != r2.stdout:
        raise RuntimeError("--stdout and the written file differ")
    return text, status


def scratch_lean(scratch, generated, parts, name):
    """one self-contained Lean file: generated definitions + the agreement parts"""
    imports, bodies = [], []
    texts = [generated] + [open(os.path.join(LEAN, "JsonbModel", "Proofs", PARTS[p]), encoding="utf-8").read() for p in parts]
    for t in texts:
        body = []
        for line in t.splitlines():
            m = re.match(r"import\s+(\S+)", line)
            if m:
                mod = m.group(1)
                if mod == "JsonbModel.Generated.Translated6c" or re.fullmatch(r"JsonbModel\.Proofs\.TranslatedAgreeI\d*", mod):
                    continue
                if mod not in imports:
                    imports.append(mod)
            else:
                body.append(line)
        bodies.append("\n".join(body))
    path = os.path.join(scratch, name + ".lean")
    with open(path, "w", encoding="utf-8") as f:
        f.write("\n".join("import " + m for m in imports) + "\n\n" + "\n\n".join(bodies) + "\n")
    return path


def lean_check(path):
    """-> (ok, first failing theorem or None, seconds)"""
    t0 = time.time()
    r = subprocess.run(["lake", "env", "lean", path], cwd=LEAN, capture_output=True, text=True)
    out = r.stdout + r.stderr
    dt = time.time() - t0
    errs = [int(m.group(1)) for m in re.finditer(r"^[^\n:]+:(\d+):\d+: error", out, re.M)]
    if r.returncode == 0 and not errs:
        return True, None, dt
    first = None
    if errs:
        lines = open(path, encoding="utf-8").read().splitlines()
        for ln in range(min(errs) - 1, -1, -1):
            m = re.match(r"\s*(?:theorem|def|instance)\s+(\S+)", lines[ln] if ln < len(lines) else "")
            if m:
                first = m.group(1)
                break
    return False, first or "(lean failed: %s)" % (out.strip().splitlines() or ["?"])[-1][:80], dt


def all_parts(parts):
    """a part needs the parts before it that it imports"""
    need = set()
    for p in parts:
        need.add(p)
        text = open(os.path.join(LEAN, "JsonbModel", "Proofs", PARTS[p]), encoding="utf-8").read()
        for m in re.finditer(r"^import JsonbModel\.Proofs\.TranslatedAgreeI(\d+)", text, re.M):
            need |= set(all_parts([int(m.group(1))]))
    return sorted(need)


def main():
    only = [a for a in sys.argv[1:] if not a.startswith("-")]
    t_start = time.time()
    tmp = tempfile.mkdtemp(prefix="rs2lean6c_selftest_src_", dir="/tmp")
    scratch = tempfile.mkdtemp(prefix="rs2lean6c_selftest_lean_", dir="/tmp")
    failures, rows = [], []
    have_parts = sorted(PARTS)
    try:
        shutil.copytree(os.path.join(REPO, "src"), os.path.join(tmp, "src"))
        out = os.path.join(scratch, "Translated6c.out.lean")
        base, status = run_tool(tmp, out)
        bad = {k: v for k, v in status["functions"].items() if v != "translated"}
        if bad:
            failures.append("baseline: not everything translated: %s" % bad)
        committed = open(COMMITTED, encoding="utf-8").read()
        rows.append(("baseline", "generated == committed Translated6c.lean", "yes" if committed == base else "NO", ""))
        if committed != base:
            failures.append("baseline: generated text differs from the committed Generated/Translated6c.lean")

        # (a) formatting robustness
        files = sorted(set(f[0] for f in rs2lean6c.FUNCS6C) | set(f[0] for f in rs2lean4.FUNCS4) | {"src/builder.rs", "src/iterator.rs", "src/jentry.rs"}
                       | set(f[0] for f in rs2lean3.FUNCS3) | set(f for f, _, _ in rs2lean3.TYPES3)
                       | set(f for f, _, _, _, _ in rs2lean2.FUNCS2) | set(f for f, _, _ in rs2lean2.TYPES2)
                       | set(f for f, _, _, _ in rs2lean.FUNCS) | set(f for f, _, _ in rs2lean.TYPES)
                       | {"src/constants.rs", "src/error.rs"})
        originals = {f: open(os.path.join(tmp, f), encoding="utf-8").read() for f in files}
        if not only:
            for vi in range(3):
                name = None
                for f in files:
                    name, text = reformat_variants(originals[f])[vi]
                    open(os.path.join(tmp, f), "w", encoding="utf-8", newline="").write(text)
                text, st = run_tool(tmp, out)
                same = text == base
                rows.append(("format", name, "identical" if same else "DIFFERENT", ""))
                if not same:
                    failures.append("format variant %s changed the output" % name)
                for f in files:
                    open(os.path.join(tmp, f), "w", encoding="utf-8").write(originals[f])

            # (a') retention of committed blocks
            repaired = "fn build_array_into" in open(os.path.join(tmp, F), encoding="utf-8").read()
            retention = [(mid, file, old, new, occ, RETENTION_KEY_REPAIRED.get(mid, key) if repaired else key, want)
                         for mid, file, old, new, occ, key, want in RETENTION] + (RETENTION_REPAIRED if repaired else [])
            for mid, file, old, new, occ, key, want in retention:
                saved = mutate(tmp, file, old, new, occ)
                try:
                    text, st = run_tool(tmp, out)
                finally:
                    open(os.path.join(tmp, file), "w", encoding="utf-8").write(saved)
                got = st["functions"].get(key, "?")
                good = got.startswith(want) and text == base and st["ok"] is False
                rows.append(("retention", mid, ("%s, committed block kept" % want) if good else "WRONG: %s" % got[:70], ""))
                if not good:
                    failures.append("retention %s: status %r, text identical: %s" % (mid, got, text == base))

        jobs = []     # (kind, id, path, expected_ok, expected_theorem)
        if not only:
            jobs.append(("baseline", "unmutated", scratch_lean(scratch, base, have_parts, "base"), True, None))
        for kind, table in (("mutation", MUTATIONS), ("respelling", RESPELLINGS)):
            for row in table:
                mid, file, old, new, occ, parts = row[:6]
                if only and mid not in only:
                    continue
                expect = row[6] if kind == "mutation" else None
                if any(p not in have_parts for p in parts):
                    rows.append((kind, mid, "SKIPPED (part missing)", ""))
                    continue
                saved = mutate(tmp, file, old, new, occ)
                try:
                    text, st = run_tool(tmp, out)
                finally:
                    open(os.path.join(tmp, file), "w", encoding="utf-8").write(saved)
                nb = {k: v for k, v in st["functions"].items() if v != "translated"}
                if nb:
                    if kind == "mutation" and expect is None:
                        rows.append((kind, mid, "leaves the subset (reported, block kept)", ""))
                        continue
                    rows.append((kind, mid, "UNSUPPORTED", str(nb)[:100]))
                    failures.append("%s %s left the subset: %s" % (kind, mid, nb))
                    continue
                if text == base:
                    if kind == "respelling":
                        rows.append((kind, mid, "generated text identical (nothing to re-prove)", ""))
                        continue
                    rows.append((kind, mid, "NO CHANGE in generated text", ""))
                    failures.append("%s %s did not change the generated text" % (kind, mid))
                    continue
                jobs.append((kind, mid, scratch_lean(scratch, text, all_parts(parts), mid), kind == "respelling", expect))

        with concurrent.futures.ThreadPoolExecutor(max_workers=JOBS) as ex:
            results = list(ex.map(lambda j: lean_check(j[2]), jobs))
        for (kind, mid, path, exp_ok, exp_thm), (ok, thm, dt) in zip(jobs, results):
            if exp_ok:
                verdict = "proofs PASS" if ok else "proofs FAIL at %s" % thm
                if not ok:
                    failures.append("%s %s: expected the agreement proofs to pass, failed at %s" % (kind, mid, thm))
            else:
                verdict = ("proof FAILS at %s" % thm) if not ok else "NOT DETECTED (proofs pass)"
                if ok:
                    failures.append("mutation %s was not detected" % mid)
                elif exp_thm and thm != exp_thm:
                    verdict += " (expected %s)" % exp_thm
            rows.append((kind, mid, verdict, "%.1fs" % dt))
    finally:
        shutil.rmtree(tmp, ignore_errors=True)
        if not os.environ.get("RS2LEAN6C_KEEP"):
            shutil.rmtree(scratch, ignore_errors=True)

    w1 = max(len(r[0]) for r in rows)
    w2 = max(len(r[1]) for r in rows)
    w3 = max(len(r[2]) for r in rows)
    print("%-*s  %-*s  %-*s  %s" % (w1, "kind", w2, "case", w3, "result", "time"))
    for r in rows:
        print("%-*s  %-*s  %-*s  %s" % (w1, r[0], w2, r[1], w3, r[2], r[3]))
    n_mut = sum(1 for r in rows if r[0] == "mutation" and not r[2].startswith("SKIPPED"))
    n_det = sum(1 for r in rows if r[0] == "mutation" and r[2].startswith("proof FAILS"))
    print("mutations detected: %d / %d; wall %.0fs" % (n_det, n_mut, time.time() - t_start))
    if failures:
        print("SELFTEST FAILED:")
        for f in failures:
            print("  - " + f)
        return 1
    print("SELFTEST OK")
    return 0


if __name__ == "__main__":
    sys.exit(main())
