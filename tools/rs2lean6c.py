#!/usr/bin/env python3
"""rs2lean6c: phase 6c of the Rust -> Lean translator: the remaining byte-level functions of functions.rs -
the RENDERER (`to_string`, `to_pretty_string`, `container_to_string`, `scalar_to_string`,
`PrettyOpts::generate_indent`), the SERDE BRIDGE (`to_serde_json`, `to_serde_json_object`,
`containter_to_serde_json`, `containter_to_serde_json_object`, `scalar_to_serde_json`) and the editors phases 4 / 5 left
(`object_insert_jsonb`, `array_overlap_jsonb`, the `strip_nulls` family, `build_array`, `build_object`, the
`delete_by_keypath` family).
Extends the subset of tools/rs2lean5b.py (-> rs2lean4.py -> rs2lean3.py -> rs2lean2.py -> rs2lean.py; a few
expression forms are shared with rs2lean5a.py) with
  * recursive groups whose members take `&mut usize` / `&mut String` parameters and return `Result<(), Error>`
    (the final values next to the result, on `Ok` only - phase 3's rule) and a by-reference struct (`&PrettyOpts`);
    a group that formats numbers takes the float formatter `fmt__ : Nat → Bytes` as a fixed first parameter;
  * `num.to_string()` / `format!("{}", num)` on a `Number` (`Rs.displayNumber fmt__`, the phase-5a MAPPING),
    `vec![b; n]` of bytes, `String::from_utf8(v).unwrap()`, `s.clear()`, `&mut <literal>` arguments (a fresh local);
  * `if <call with &mut places>.is_err() { x.clear(); .. }`: the places the callee may have written are lost on
    `Err`; accepted only when the `then` block starts by clearing every such place that is read afterwards;
  * `serde_json::Value` / `serde_json::Map<String, Value>` / `serde_json::Number` as the model's mirror type `SJ`
    (`Rs.sj*` of RustPrelude6c.lean, a MAPPING), `for (k, je, v) in <iterator struct>` with `?` in the body;
  * a public function whose text branch `if !is_jsonb(value) { let val = parse_value(value)?; return f(&val.to_vec()); }`
    is kept as a parameter `text__` (as in phases 4 / 5a);
  * the ROLLBACK WRAPPER, recognised as a whole and only in exactly this shape (`build_array` / `build_object` over
    `build_array_into` / `build_object_into`):
        `let start = buf.len(); let res = f(p1, .., buf, .., pn); if res.is_err() { buf.truncate(start); } res`
    where `buf` is the only `&mut` parameter of the function (a `&mut Vec<u8>`), every argument is a distinct parameter
    passed as it is, `f` is a translated free function with the same `Result<(), Error>` and `buf` in its only `&mut`
    position.  By the convention of all phases a `&mut Vec<u8>` parameter is an argument and the `.ok` result carries
    the new buffer; on `Err` (and on a panic) the written places are not represented at all.  So `buf.len()` (pure,
    total), the test and `buf.truncate(start)` (total, and only on `Err`) leave no trace and the wrapper is
    `def g .. buf : Res Bytes := f .. buf`, the callee's outcome (`Ok` with the callee's buffer, the callee's `Err` or
    panic).  Anything that differs from the shape is translated (or rejected) by the ordinary rules.
  The private bodies `build_array_into` / `build_object_into` are OPTIONAL targets: where the source does not define
  them (the tree before the repair, `build_array` / `build_object` holding the whole body) they are left out without a
  block or a status line.
Output: lean/JsonbModel/Generated/Translated6c.lean (namespace Jsonb.Tr, after the phase-1..4 files and the phase-5a
file, which declares `KeyPath`).
The semantics of every new primitive is in the hand-written lean/JsonbModel/RustPrelude6c.lean.
Same conventions as the earlier phases (see tools/RS2LEAN.md): reads $VERIF_REPO (default /repo), writes
the output only when it changes, prints ONE JSON status line last; `--stdout` prints the text and writes
nothing; a function outside the subset keeps its previously generated block.  Python 3 stdlib only."""
import json, os, re, sys

HERE = os.path.dirname(os.path.abspath(__file__))
sys.path.insert(0, HERE)
import rs2lean as R  # noqa: E402
import rs2lean2 as R2  # noqa: E402
import rs2lean3 as R3  # noqa: E402
import rs2lean4 as R4  # noqa: E402
import rs2lean5b as R5b  # noqa: E402
from rs2lean import N, Tok, Unsupported, NeedType, is_int, is_bytes, lname, ind  # noqa: E402
from rs2lean2 import NeedLitType, strip, U8, STR, CHAR  # noqa: E402
from rs2lean3 import FnTr3  # noqa: E402
from rs2lean4 import Parser4, FnTr4, FoundHole, lean_type4, tystr4  # noqa: E402
from rs2lean5b import FnTr5b  # noqa: E402

REPO = os.environ.get("VERIF_REPO", "/repo")
OUT = os.environ.get("RS2LEAN6C_OUT", os.path.normpath(os.path.join(HERE, "..", "lean", "JsonbModel", "Generated", "Translated6c.lean")))
PREV = os.environ.get("RS2LEAN6C_PREV", OUT)

F = "src/functions.rs"

# (file, impl type or None, trait or None, fn name, Lean name, recursive group or None); dependency order
FUNCS6C = [
    (F, "PrettyOpts", None, "generate_indent", "PrettyOpts.generate_indent", None),
    (F, None, None, "container_to_string", "container_to_string", "renderer"),
    (F, None, None, "scalar_to_string", "scalar_to_string", "renderer"),
    (F, None, None, "to_string", "to_string", None),
    (F, None, None, "to_pretty_string", "to_pretty_string", None),
    (F, None, None, "containter_to_serde_json", "containter_to_serde_json", "serde"),
    (F, None, None, "scalar_to_serde_json", "scalar_to_serde_json", "serde"),
    (F, None, None, "containter_to_serde_json_object", "containter_to_serde_json_object", None),
    (F, None, None, "to_serde_json", "to_serde_json", None),
    (F, None, None, "to_serde_json_object", "to_serde_json_object", None),
    (F, None, None, "array_overlap_jsonb", "array_overlap_jsonb", None),
    (F, None, None, "object_insert_jsonb", "object_insert_jsonb", None),
    (F, None, None, "strip_nulls_array", "strip_nulls_array", "strip"),
    (F, None, None, "strip_nulls_object", "strip_nulls_object", "strip"),
    (F, None, None, "strip_nulls_jsonb", "strip_nulls_jsonb", None),
    (F, None, None, "build_array_into", "build_array_into", None),
    (F, None, None, "build_array", "build_array", None),
    (F, None, None, "build_object_into", "build_object_into", None),
    (F, None, None, "build_object", "build_object", None),
    (F, None, None, "delete_jsonb_array_by_keypath", "delete_jsonb_array_by_keypath", "delkp"),
    (F, None, None, "delete_jsonb_object_by_keypath", "delete_jsonb_object_by_keypath", "delkp"),
    (F, None, None, "delete_by_keypath_jsonb", "delete_by_keypath_jsonb", None),
]

# targets that exist only after the repair of `build_array` / `build_object` (the bodies moved to private functions, the
# public names are rollback wrappers): absent from the source => no block, no status
OPTIONAL6C = {(F, None, "build_array_into"), (F, None, "build_object_into")}

# public functions of the shape `if !is_jsonb(value) { <text branch; returns> } <jsonb helper>(value)`: the text branch
# calls the JSON text parser and is kept as a parameter `text__` holding its result (phase 4's rule)
R4.TEXT_PROLOGUE.update({"to_serde_json", "to_serde_json_object"})

# recursive groups whose members format numbers: every member takes `fmt__ : Nat → Bytes` (the text of an `f64`,
# `ryu`'s shortest representation, supplied by the caller exactly as in the model) as a fixed first parameter
GROUP_FMT = {"renderer"}

RESERVED6C = set("fmt__".split())

# `serde_json::Value`, `serde_json::Map<String, serde_json::Value>`, `serde_json::Number`: MAPPED to the model's mirror
# type `SJ` of Functions/Serde.lean (RustPrelude6c.lean).  The token stream of a function is rewritten first: each of
# these paths becomes ONE identifier the earlier parsers read as a named type / the head of a path.
SJ = ("sj",)
SJMAP = ("sjmap",)
SJNUM = ("sjnum",)
SERDE_IDS = {"SerdeJsonValue": SJ, "SerdeJsonMap": SJMAP, "SerdeJsonNumber": SJNUM}
SIZE_OF_SERDE_VALUE = 72      # size_of::<serde_json::Value>() with `preserve_order` (x86_64, checked with a probe)


def rewrite_serde(toks):
    """`serde_json :: Map [< String , serde_json :: Value >]` -> SerdeJsonMap, `serde_json :: Value` -> SerdeJsonValue,
    `serde_json :: Number` -> SerdeJsonNumber"""
    for t in toks:
        if t.k == "id" and t.v in SERDE_IDS:
            raise Unsupported("identifier `%s` clashes with a name used by the translator" % t.v)
    out, i, n = [], 0, len(toks)

    def isp(j, v):
        return j < n and toks[j].k == "p" and toks[j].v == v

    def isid(j, v):
        return j < n and toks[j].k == "id" and toks[j].v == v
    while i < n:
        t = toks[i]
        if isid(i, "serde_json") and isp(i + 1, "::") and i + 2 < n and toks[i + 2].k == "id":
            what = toks[i + 2].v
            if what == "Map":
                j = i + 3
                if isp(j, "<"):
                    ok = (isid(j + 1, "String") and isp(j + 2, ",") and isid(j + 3, "serde_json") and isp(j + 4, "::")
                          and isid(j + 5, "Value"))
                    if ok and isp(j + 6, ">"):
                        j += 7
                    elif ok and isp(j + 6, ">>"):
                        # `Option<serde_json::Map<String, serde_json::Value>>`: keep one closer
                        out.append(Tok("id", "SerdeJsonMap", t.pos))
                        out.append(Tok("p", ">", toks[j + 6].pos))
                        i = j + 7
                        continue
                    else:
                        raise Unsupported("`serde_json::Map` with parameters other than `<String, serde_json::Value>`")
                out.append(Tok("id", "SerdeJsonMap", t.pos))
                i = j
                continue
            if what in ("Value", "Number"):
                out.append(Tok("id", "SerdeJson" + what, t.pos))
                i += 3
                continue
            raise Unsupported("`serde_json::%s` not in the subset" % what)
        out.append(t)
        i += 1
    return out


def rewrite_into_iter(toks):
    """the signature of `build_array` / `build_object`: a parameter `impl IntoIterator<Item = T>` is a `Vec<T>` (the
    function consumes it with one `.into_iter()`); a generic `K: AsRef<str>` is a `String` (the only thing a function
    can do with a `K` is `.as_ref()`, which the translator erases on strings).  Only the tokens before the body."""
    # end of the signature: the `{` at depth 0
    depth, end = 0, None
    for i, t in enumerate(toks):
        if t.k == "p" and t.v in ("(", "[", "<"):
            depth += 1
        elif t.k == "p" and t.v in (")", "]", ">"):
            depth -= 1
        elif t.k == "p" and t.v == ">>":
            depth -= 2
        elif t.k == "p" and t.v == "{" and depth == 0:
            end = i
            break
    if end is None:
        return toks
    sig, body = [], list(toks[end:])
    for t in toks[:end]:
        if t.k == "p" and t.v == ">>":
            sig += [Tok("p", ">", t.pos), Tok("p", ">", t.pos)]
        else:
            sig.append(t)
    if not any(t.k == "id" and t.v in ("IntoIterator", "AsRef") for t in sig):
        return toks
    # generic parameters `K: AsRef<str>`
    asref = set()
    if sig and sig[0].k == "p" and sig[0].v == "<":
        out, i, depth = [], 0, 0
        gl = []
        while i < len(sig):
            t = sig[i]
            if t.k == "p" and t.v == "<":
                depth += 1
            elif t.k == "p" and t.v == ">":
                depth -= 1
                if depth == 0:
                    gl = sig[1:i]
                    sig = sig[i + 1:]
                    break
            i += 1
        keep, j = [], 0
        parts, cur, d = [], [], 0
        for t in gl:
            if t.k == "p" and t.v == "<":
                d += 1
            elif t.k == "p" and t.v == ">":
                d -= 1
            if t.k == "p" and t.v == "," and d == 0:
                parts.append(cur); cur = []
            else:
                cur.append(t)
        if cur:
            parts.append(cur)
        for part in parts:
            txt = " ".join(str(t.v) for t in part)
            m = re.fullmatch(r"([A-Za-z_][A-Za-z0-9_]*) : AsRef < str >", txt)
            if m:
                asref.add(m.group(1))
            else:
                keep.append(part)
        gen = []
        if keep:
            gen = [Tok("p", "<", 0)]
            for n, part in enumerate(keep):
                gen += ([Tok("p", ",", 0)] if n else []) + part
            gen.append(Tok("p", ">", 0))
        sig = gen + sig
    out, i = [], 0
    while i < len(sig):
        t = sig[i]
        if t.k == "id" and t.v == "impl" and i + 4 < len(sig) and sig[i + 1].k == "id" and sig[i + 1].v == "IntoIterator" \
                and sig[i + 2].k == "p" and sig[i + 2].v == "<" and sig[i + 3].k == "id" and sig[i + 3].v == "Item" \
                and sig[i + 4].k == "p" and sig[i + 4].v == "=":
            out += [Tok("id", "Vec", t.pos), Tok("p", "<", t.pos)]
            i += 5
            continue
        if t.k == "id" and t.v in asref:
            out.append(Tok("id", "String", t.pos))
            i += 1
            continue
        out.append(t)
        i += 1
    if any(t.k == "id" and t.v in ("IntoIterator", "AsRef") for t in out):
        raise Unsupported("generic parameters not in the subset")
    for t in body:
        if t.k == "id" and t.v in asref:
            raise Unsupported("the generic parameter `%s` is named in the body" % t.v)
    return out + body


def lean_type6c(t, world):
    k = t[0]
    if t == SJ or t == SJNUM:
        return "SJ"
    if t == SJMAP:
        return "(List (Bytes × SJ))"
    if k in ("vec", "slice", "array", "deque") and not is_bytes(t):
        return "(List %s)" % lean_type6c(t[1], world)
    if k == "opt":
        return "(Option %s)" % lean_type6c(t[1], world)
    if k == "tuple":
        return "(" + " × ".join(lean_type6c(x, world) for x in t[1]) + ")"
    return lean_type4(t, world)


class FnTr6c(FnTr5b):
    def __init__(self, world, file, impl, trait, name, it, lean, lit_choice=None, group=None, holes=None):
        self.uses_fmt = group in GROUP_FMT
        self.lit_tmp = 0
        if any(t.k == "id" and t.v == "serde_json" for t in it["toks"]):
            it = dict(it, toks=rewrite_serde(list(it["toks"])))
        if any(t.k == "id" and t.v in ("IntoIterator", "AsRef") for t in it["toks"]):
            it = dict(it, toks=rewrite_into_iter(list(it["toks"])))
        FnTr5b.__init__(self, world, file, impl, trait, name, it, lean, lit_choice, group, holes)

    def resolve(self, t):
        if t is not None and t[0] == "named" and t[1] in SERDE_IDS:
            return SERDE_IDS[t[1]]
        return FnTr5b.resolve(self, t)

    # -- the rollback wrapper `let start = buf.len(); let res = f(.., buf, ..); if res.is_err() { buf.truncate(start); } res`
    def translate(self):
        w = self.rollback_wrapper()
        if w is not None:
            return w
        return FnTr5b.translate(self)

    def rollback_wrapper(self):
        """-> ([], def lines) when the body is exactly the rollback wrapper (see the module docstring), else None (the
        ordinary rules then translate or reject the body)"""
        if self.group is not None or self.impl is not None or len(self.mutparams) != 1 or self.mutparams[0] == "self":
            return None
        buf = self.mutparams[0]
        pty = dict(self.params)
        if not is_bytes(pty.get(buf)) or self.ret[0] != "res" or self.ret_value_type() != ("unit",):
            return None
        bp = self.body_parser
        try:
            q = type(bp)(bp.t, bp.i)
            body = q.parse_block()
            if q.peek().k != "eof":
                return None
        except Unsupported:
            return None

        def var(e, name=None):
            e = strip(e) if e is not None else None
            return e is not None and e.kind == "path" and len(e.segs) == 1 and (name is None or e.segs[0] == name)

        def let_of(s):
            if s.kind == "let" and s.ty is None and s.init is not None and s.pat.kind == "p_path" and len(s.pat.path) == 1:
                return s.pat.path[0], strip(s.init)
            return None, None
        if len(body.stmts) != 3 or body.tail is None:
            return None
        start, e0 = let_of(body.stmts[0])
        res, e1 = let_of(body.stmts[1])
        names = [n for n, _ in self.params]
        if start is None or res is None or start == res or start in names or res in names:
            return None
        if not (e0.kind == "mcall" and e0.name == "len" and not e0.args and var(e0.recv, buf)):
            return None
        if not (e1.kind == "call" and e1.f.kind == "path" and len(e1.f.segs) == 1 and all(var(a) for a in e1.args)):
            return None
        args = [strip(a).segs[0] for a in e1.args]
        if len(set(args)) != len(args) or any(a not in names for a in args) or args.count(buf) != 1:
            return None
        s2 = body.stmts[2]
        if not (s2.kind == "expr" and s2.e.kind == "if" and s2.e.els is None):
            return None
        c = strip(s2.e.cond)
        if not (c.kind == "mcall" and c.name == "is_err" and not c.args and var(c.recv, res)):
            return None
        th = s2.e.then
        if not (th.kind == "block" and th.tail is None and len(th.stmts) == 1 and th.stmts[0].kind == "expr"):
            return None
        t = strip(th.stmts[0].e)
        if not (t.kind == "mcall" and t.name == "truncate" and len(t.args) == 1 and var(t.recv, buf) and var(t.args[0], start)):
            return None
        if not var(body.tail, res):
            return None
        # the callee: a translated free function, same result type, `buf` in its only `&mut` position, same types
        self.scopes = []
        self.push()
        for n, ty in self.params:
            self.bind(n, ty)
        sig = self.callee_sig(e1)
        if sig is None or sig.get("group") is not None or sig.get("fmt") or sig.get("fuel") or sig.get("writer") \
                or sig.get("holder"):
            return None
        cps = sig["params"]
        if sig["ret"] != self.ret or len(cps) != len(args) or list(sig.get("mut", [])) != [cps[args.index(buf)][0]]:
            return None
        for a, (_, cty) in zip(args, cps):
            if pty[a] != cty:
                return None
        binders = "".join("(%s : %s) " % (lname(n), self.lt(ty)) for n, ty in self.params)
        head = "def %s %s: Res %s :=" % (self.lean, binders, self.lean_ret())
        return [], [head,
                    "  -- rollback wrapper: `%s` is the buffer on `Ok` only; `%s.truncate(%s)` acts on `Err`, where no buffer is represented"
                    % (lname(buf), buf, start),
                    "  (%s %s)" % (sig["lean"], " ".join(lname(a) for a in args))]

    def lt(self, t):
        return lean_type6c(t, self.w)

    # -- untyped `Vec::with_capacity(n)`: the element type is that of the first `push` (as rs2lean4 does for queues)
    CONTAINER_NEW = dict(FnTr5b.CONTAINER_NEW)
    CONTAINER_NEW[("Vec", "with_capacity")] = "vec"

    # -- a match arm / branch whose body is one mutating method call (`TAG => json.push_str("null"),`): a statement
    def body_as_block(self, b):
        if b is not None and b.kind == "mcall" and b.name in R2.MUT_METHODS:
            return N("block", stmts=[N("expr", e=b, semi=True)], tail=None)
        return FnTr5b.body_as_block(self, b)

    # -- expressions
    def ex0(self, e, want):
        k = e.kind
        if k == "macro" and e.name == "vec":
            # `vec![b; n]` of bytes
            toks = list(e.toks)
            depth, cut = 0, None
            for i, t in enumerate(toks):
                if t.k == "p" and t.v in ("(", "[", "{"):
                    depth += 1
                elif t.k == "p" and t.v in (")", "]", "}"):
                    depth -= 1
                elif t.k == "p" and t.v == ";" and depth == 0:
                    cut = i
                    break
            if cut is None:
                raise Unsupported("`vec![..]` is limited to `vec![<byte>; <length>]`")
            q1 = Parser4(toks[:cut] + [Tok("eof", None, 0)])
            el = q1.parse_expr()
            q2 = Parser4(toks[cut + 1:] + [Tok("eof", None, 0)])
            n = q2.parse_expr()
            if q1.peek().k != "eof" or q2.peek().k != "eof":
                raise Unsupported("`vec![..]` arguments")
            if want is not None and not is_bytes(want):
                raise Unsupported("`vec![x; n]` of %s" % tystr4(want))
            l1, t1, _ = self.ex(el, U8)
            l2, t2, _ = self.ex(n, ("int", "usize"))
            ls, r = self.call_res(l1 + l2, "Rs.vecRepeat %s %s" % (self.atom(t1), self.atom(t2)))
            return ls, r, ("vec", U8)
        if k == "macro" and e.name == "format":
            toks = list(e.toks)
            if len(toks) >= 3 and toks[0].k == "str" and toks[0].v == "{}" and toks[1].k == "p" and toks[1].v == ",":
                q = Parser4(toks[2:] + [Tok("eof", None, 0)])
                arg = q.parse_expr()
                q.eatp(",")
                if q.peek().k != "eof":
                    raise Unsupported("format! arguments")
                ls, t, ty = self.ex(arg)
                if ty != ("named", "Number"):
                    raise Unsupported("format!(\"{}\", ..) of %s (only a `Number`)" % tystr4(ty))
                self.uses_fmt = True
                return ls, "(Rs.displayNumber fmt__ %s)" % self.atom(t), STR
        if k == "macro" and e.name == "unreachable":
            toks = list(e.toks)
            if len(toks) == 1 and toks[0].k == "str":
                msg = "internal error: entered unreachable code: " + R2.rust_str_bytes(toks[0].v).decode("utf-8")
            elif not toks:
                msg = "internal error: entered unreachable code"
            else:
                raise Unsupported("unreachable! with format arguments")
            return ["Ctl.ret (.panic %s)" % R2.lean_str_lit(msg.encode("utf-8"))], "()", ("never",)
        if k == "path" and e.segs == ["SerdeJsonValue", "Null"]:
            return [], "Rs.sjNull", SJ
        return FnTr5b.ex0(self, e, want)

    def ex_call(self, e, want):
        f = e.f
        if f.kind == "path":
            segs, args = f.segs, e.args
            last2 = segs[-2:] if len(segs) >= 2 else None
            if len(segs) == 2 and segs[0] == "SerdeJsonValue" and len(args) == 1:
                ctor = {"Bool": ("Rs.sjBool", ("bool",)), "Number": ("Rs.sjNumber", SJNUM), "String": ("Rs.sjString", STR),
                        "Array": ("Rs.sjArray", ("vec", SJ)), "Object": ("Rs.sjObject", SJMAP)}.get(segs[1])
                if ctor is None:
                    raise Unsupported("`serde_json::Value::%s` not in the subset" % segs[1])
                ls, t, _ = self.ex(args[0], ctor[1])
                return ls, "(%s %s)" % (ctor[0], self.atom(t)), SJ
            if segs == ["SerdeJsonNumber", "from"] and len(args) == 1:
                ls, t, ty = self.ex(args[0])
                if ty == ("int", "i64"):
                    return ls, "(Rs.sjNumberFromI64 %s)" % self.atom(t), SJNUM
                if ty == ("int", "u64"):
                    return ls, "(Rs.sjNumberFromU64 %s)" % self.atom(t), SJNUM
                raise Unsupported("`serde_json::Number::from` of %s (only `i64`, `u64`)" % tystr4(ty))
            if segs == ["SerdeJsonNumber", "from_f64"] and len(args) == 1:
                ls, t, _ = self.ex(args[0], ("f64",))
                return ls, "(Rs.sjNumberFromF64 %s)" % self.atom(t), ("opt", SJNUM)
            if segs == ["SerdeJsonMap", "with_capacity"] and len(args) == 1:
                ls, t, _ = self.ex(args[0], ("int", "usize"))
                return ls, "(Rs.sjMapWithCapacity %s)" % self.atom(t), SJMAP
            if segs and segs[0] in SERDE_IDS:
                raise Unsupported("`%s` not in the subset" % "::".join(segs))
            if last2 in (["Vec", "with_capacity"], ["VecDeque", "with_capacity"]) and len(args) == 1:
                kind = "vec" if last2[0] == "Vec" else "deque"
                el = want[1] if (want is not None and want[0] == kind) else None
                if el == SJ:
                    ls, t, _ = self.ex(args[0], ("int", "usize"))
                    ls, r = self.call_res(ls, "Rs.vecWithCapacity SJ %d %s" % (SIZE_OF_SERDE_VALUE, self.atom(t)))
                    return ls, r, (kind, el)
            if last2 == ["String", "from_utf8"] and len(args) == 1:
                ls, t, ty = self.ex(args[0], ("vec", U8))
                if not is_bytes(ty):
                    raise Unsupported("String::from_utf8 of %s" % tystr4(ty))
                return ls, "(Rs.stringFromUtf8 %s)" % self.atom(t), ("res", STR)
        return FnTr5b.ex_call(self, e, want)

    def ex_mcall(self, e, want):
        name, args, recv = e.name, e.args, e.recv
        while recv.kind == "paren":
            recv = recv.e
        if name == "collect" and not args and want is not None and want[0] == "btree" and want[1] == STR:
            # `<vec of pairs>.into_iter().map(|(k, v)| (..)).collect()` into a `BTreeMap<String, V>`: the pairs are
            # inserted in order (the last value of a repeated key wins)
            cur, closure = strip(recv), None
            if cur.kind == "mcall" and cur.name == "map" and len(cur.args) == 1:
                closure, cur = cur.args[0], strip(cur.recv)
            if cur.kind == "mcall" and cur.name in ("into_iter", "iter") and not cur.args:
                cur = strip(cur.recv)
            ls, t, ty = self.ex(cur)
            if ty is None or ty[0] not in ("vec", "slice", "deque") or is_bytes(ty):
                raise Unsupported("`.collect()` into a BTreeMap from %s" % tystr4(ty))
            term, ety = self.atom(t), ty[1]
            if closure is not None:
                fn, ety = self.pure_closure(closure, ety, ("tuple", (want[1], want[2])))
                term = "(List.map %s %s)" % (fn, term)
            self.unify(("tuple", (want[1], want[2])), ety, "collected pairs")
            return ls, "(Rs.btreeCollect %s)" % term, want
        if name == "to_string" and not args:
            rty = self.peek_type(recv)
            if rty == ("named", "Number"):
                ls, t, _ = self.ex(recv)
                self.uses_fmt = True
                return ls, "(Rs.displayNumber fmt__ %s)" % self.atom(t), STR
        if name == "unwrap" and not args and recv.kind == "call" and recv.f.kind == "path" \
                and recv.f.segs[-2:] == ["String", "from_utf8"]:
            ls, t, ty = self.ex(recv)
            ls, r = self.call_res(ls, "Rs.unwrapRes %s" % self.atom(t))
            return ls, r, ty[1]
        return FnTr5b.ex_mcall(self, e, want)

    def tr_mutcall(self, e):
        pl = self.place_of(e.recv)
        ty, name, args = pl[2], e.name, e.args
        if name == "clear" and not args and (ty == STR or ty[0] in ("vec", "deque")):
            return self.place_store(pl, "([] : %s)" % self.lt(ty))
        if name == "insert" and len(args) == 2 and ty == SJMAP:
            l1, t1, _ = self.ex(args[0], STR)
            l2, t2, _ = self.ex(args[1], SJ)
            return l1 + l2 + self.place_store(pl, "(Rs.sjMapInsert %s %s %s)" % (self.place_term(pl), self.atom(t1), self.atom(t2)))
        if name == "push" and len(args) == 1 and ty[0] == "vec" and ty[1][0] == "hole":
            self.hole_found(ty[1], args[0])
        return FnTr5b.tr_mutcall(self, e)

    # -- calls: `&mut <literal>` arguments, the `fmt__` parameter of a formatting group
    def place_arg(self, ae):
        if not isinstance(ae, tuple) and ae.kind == "refmut":
            inner = ae.e
            while inner.kind == "paren":
                inner = inner.e
            if inner.kind == "int":
                # `&mut 0`: a fresh local nobody else can name
                ls, t, ty = self.ex(inner, getattr(self, "lit_arg_want", None))
                ty = self.default_flex(ty)
                self.lit_tmp += 1
                x = "lit%d__" % self.lit_tmp
                self.scopes[-1][x] = ty
                self.pending_lits = getattr(self, "pending_lits", []) + ["let %s := %s" % (lname(x), t)]
                return ("var", x, ty)
        return FnTr5b.place_arg(self, ae)

    def user_call(self, sig, args, recv=None):
        # the types of `&mut <literal>` arguments are those of the parameters
        muts = list(sig.get("mut", []))
        params = sig["params"]
        allargs = ([recv] if recv is not None else []) + list(args)
        self.pending_lits = []
        if len(allargs) == len(params):
            new = []
            for ae, (pn, pt) in zip(allargs, params):
                if pn in muts and not isinstance(ae, tuple) and ae.kind == "refmut" and strip(ae).kind == "int":
                    self.lit_arg_want = pt
                    pl = self.place_arg(ae)
                    new.append(N("refmut", e=N("path", segs=[pl[1]])))
                else:
                    new.append(ae)
            allargs = new
        pre = self.pending_lits
        self.pending_lits = []
        if sig.get("fmt"):
            if sig.get("group") not in GROUP_FMT:
                raise Unsupported("call of %s, which formats numbers, from another function" % sig["lean"])
            self.uses_fmt = True
        if recv is not None:
            recv, args = allargs[0], allargs[1:]
        else:
            args = allargs
        ls, t, ty = FnTr5b.user_call(self, sig, args, recv)
        return pre + ls, t, ty

    # -- `match q.pop_front() { Some(pat) => .., _ => .. }`; or-patterns nested in `Some(..)` that bind the same names
    def ctl_match(self, e, mode, want, M):
        scrut = e.scrut
        while scrut.kind == "paren":
            scrut = scrut.e
        if scrut.kind == "mcall" and scrut.name == "pop_front" and not scrut.args:
            pl = self.place_of(scrut.recv)
            if pl[0] != "var" or pl[2][0] != "deque":
                raise Unsupported("pop_front on %s" % tystr4(pl[2]))
            ety = ("opt", pl[2][1])
            r, q = self.fresh(), lname(pl[1])
            pre = ["let (%s, %s) := Rs.popFrontOpt %s" % (r, q, q)]
            arms = [N("arm", pat=self.distribute_or(a.pat), guard=a.guard, body=a.body) for a in e.arms]
            branches = []
            for a in arms:
                if a.guard is not None:
                    raise Unsupported("guard on a match arm of `pop_front()`")
                alts = a.pat.alts if a.pat.kind == "p_or" else [a.pat]
                pats, binds = [], None
                for alt in alts:
                    p1, b1 = self.ctor_pattern(alt, ety, top=False)
                    if binds is not None and b1 != binds:
                        raise Unsupported("alternatives that bind different names")
                    binds = b1
                    pats.append(p1)
                branches.append(dict(pat=" | ".join(pats), binds=binds or [], body=a.body))
            ls, term, ty, div = self.finish_ctl(("match", [r]), [], branches, mode, want, M)
            return pre + ls, term, ty, div
        return FnTr5b.ctl_match(self, e, mode, want, M)

    def distribute_or(self, p):
        """`Some(A(x) | B(x))` -> `Some(A(x)) | Some(B(x))` (Lean has alternatives at the top of an arm only)"""
        if p.kind == "p_ctor" and len(p.args) == 1 and p.args[0].kind == "p_or":
            return N("p_or", alts=[N("p_ctor", path=p.path, args=[alt]) for alt in p.args[0].alts])
        return p

    # -- `if <call with &mut places>.is_err() { x.clear(); .. }`
    def ctl(self, e, mode, want):
        if e.kind == "if" and e.els is None and mode == "stmt":
            c = e.cond
            while c.kind == "paren":
                c = c.e
            if c.kind == "mcall" and c.name == "is_err" and not c.args and strip(c.recv).kind in ("call", "mcall"):
                call = strip(c.recv)
                sig = self.callee_sig(call)
                if sig is not None and self.needs_mode(sig):
                    return self.if_is_err(e, call, sig)
        return FnTr5b.ctl(self, e, mode, want)

    def if_is_err(self, e, call, sig):
        """`if f(.., &mut x, ..).is_err() { x.clear(); rest }`: on `Err` the places `f` may have written hold values
        the translation does not represent; the `then` block must start by clearing each of them that is read later
        (a `&mut <literal>` argument is never read)"""
        rv = sig["ret"][1]
        if rv != ("unit",):
            raise Unsupported("`.is_err()` on a call whose Ok value is not `()`")
        # the places passed as `&mut`
        muts = list(sig.get("mut", []))
        params = sig["params"]
        if len(call.args) != len(params) or call.kind != "call":
            raise Unsupported("`.is_err()` on a call of this shape")
        lost = []
        for ae, (pn, pt) in zip(call.args, params):
            if pn in muts:
                if ae.kind == "refmut" and strip(ae).kind == "int":
                    continue
                pl = FnTr5b.place_arg(self, ae)
                if pl[0] != "var":
                    raise Unsupported("`.is_err()` on a call that writes a place other than a local variable")
                lost.append(pl[1])
        # the `then` block: `x.clear();` for every lost place, first
        stmts = list(e.then.stmts)
        cleared = []
        while stmts and stmts[0].kind == "expr" and stmts[0].e.kind == "mcall" and stmts[0].e.name == "clear" \
                and not stmts[0].e.args and strip(stmts[0].e.recv).kind == "path" and len(strip(stmts[0].e.recv).segs) == 1 \
                and strip(stmts[0].e.recv).segs[0] in lost and strip(stmts[0].e.recv).segs[0] not in cleared:
            cleared.append(strip(stmts[0].e.recv).segs[0])
            stmts.pop(0)
        if sorted(cleared) != sorted(lost):
            raise Unsupported("after `.is_err()` the `then` block must start by clearing the places the callee may have written (%s)"
                              % ", ".join(lost))
        M = self.assigned(e)
        for x in lost:
            if x not in M:
                M.append(x)
        ls, t, ty = self.in_mode("probe", call)
        # `ls` ends with `let <t> ← Rs.resOpt (<call>)`: `t` is the Option holding the final values (`None` on `Err`)
        self.push()
        try:
            clr = []
            for x in lost:
                clr += self.place_store(("var", x, self.lookup(x)), "([] : %s)" % self.lt(self.lookup(x)))
            rest = N("block", stmts=stmts, tail=e.then.tail)
            bl, _, _, div = self.tr_block(rest, "value", None)
            if div:
                raise Unsupported("a diverging `then` block after `.is_err()`")
        finally:
            self.pop()
        pat = self.state_pack(M)
        okpat = self.probe_pat
        lines = ls + ["let %s ← (match %s with" % (pat, t),
                      "  | some %s => do" % okpat,
                      "    pure %s" % pat,
                      "  | none => do"] + ind(clr + bl + ["pure %s" % pat], 4)
        lines[-1] = lines[-1] + ")"
        return lines, "()", ("unit",), False


# FnTr3.user_call knows the modes "try" / "unwrap" / "orelse"; the mode "probe" (`.is_err()`) is added here by
# wrapping the method: the call is translated in mode "try" and its last line re-written
_orig_user_call3 = FnTr3.user_call


def _user_call3(self, sig, args, recv=None):
    if getattr(self, "call_mode", None) != "probe":
        return _orig_user_call3(self, sig, args, recv)
    self.call_mode = "unwrap"
    ls, r, rv = _orig_user_call3(self, sig, args, recv)
    m = re.fullmatch(r"let (.*) ← Ctl\.ofRes \(Rs\.unwrapRes \((.*)\)\)", ls[-1]) if ls else None
    if not m:
        raise Unsupported("translator error: probe call shape")
    self.probe_pat = m.group(1)
    t = self.fresh()
    ls[-1] = "let %s ← Rs.resOpt (%s)" % (t, m.group(2))
    return ls, t, rv


# ----------------------------------------------------------------------------- driver

HEADER = """-- GENERATED by tools/rs2lean6c.py from the Rust sources of the crate (src/*.rs); do not edit.
-- Phase 6c: the renderer, the serde bridge and the remaining editors of functions.rs.  One block per translated
-- function or recursive group (hoisted loop bodies `<fn>.loop<k>` first).  The meaning of every `Rs.*` / `Ctl.*`
-- name is in JsonbModel/RustPrelude.lean … RustPrelude4.lean, RustPrelude5a.lean and RustPrelude6c.lean; the
-- agreement theorems are in Proofs/TranslatedAgreeI*.lean.
import JsonbModel.Generated.Translated5a
import JsonbModel.RustPrelude6c

set_option linter.unusedVariables false

namespace Jsonb.Tr
open Jsonb.Rs (Ctl)
"""
FOOTER = "end Jsonb.Tr\n"


def translate_fn6c(world, file, impl, trait, name, lean, it, group):
    """as rs2lean4.translate_fn4, with the phase-6c function translator; -> (aux, lines, uses_fuel, uses_fmt)"""
    orig = R4.FnTr4
    box = {}

    class Capture(FnTr6c):
        def translate(self):
            r = FnTr6c.translate(self)
            box["fmt"] = self.uses_fmt
            return r
    R4.FnTr4 = Capture
    FnTr3.user_call = _user_call3
    try:
        aux, lines, uses = R4.translate_fn4(world, file, impl, trait, name, lean, it, group)
        return aux, lines, uses, bool(box.get("fmt"))
    finally:
        R4.FnTr4 = orig
        FnTr3.user_call = _orig_user_call3


def key_of(file, impl, name):
    return "%s::%s%s" % (file, (impl + "::") if impl else "", name)


def add_fmt_param(lines, lean):
    """`def f : Nat → ..` of a group member -> `def f (fmt__ : Nat → Bytes) : Nat → ..`;
    `def f (fuel : Nat) ..` / `def f ..` of a plain function -> `(fmt__ : Nat → Bytes)` after `fuel`"""
    out = list(lines)
    for i, l in enumerate(out):
        if l.startswith("def %s " % lean):
            rest = l[len("def %s " % lean):]
            if rest.startswith("(fuel : Nat) "):
                out[i] = "def %s (fuel : Nat) (fmt__ : Nat → Bytes) %s" % (lean, rest[len("(fuel : Nat) "):])
            else:
                out[i] = "def %s (fmt__ : Nat → Bytes) %s" % (lean, rest)
            return out
    raise Unsupported("translator error: definition head of %s not found" % lean)


def add_fmt_aux(aux):
    """hoisted loop bodies that name `fmt__` take it as their first parameter (after `fuel`); every use of such a
    body (`(<aux> ..`) passes it"""
    blocks, cur = [], []
    for l in aux:
        if l == "":
            if cur:
                blocks.append(cur)
            cur = []
        else:
            cur.append(l)
    if cur:
        blocks.append(cur)
    names = []
    for b in blocks:
        m = re.match(r"def (\S+) ", b[0])
        if m and "(fmt__ : Nat → Bytes)" not in b[0] and any(re.search(r"\bfmt__\b", l) for l in b[1:]):
            name = m.group(1)
            head = "def %s " % name
            rest = b[0][len(head):]
            if rest.startswith("(fuel : Nat) "):
                b[0] = head + "(fuel : Nat) (fmt__ : Nat → Bytes) " + rest[len("(fuel : Nat) "):]
            else:
                b[0] = head + "(fmt__ : Nat → Bytes) " + rest
            names.append(name)
    out = []
    for b in blocks:
        out += b + [""]
    return out, names


def pass_fmt(lines, names):
    out = list(lines)
    for name in names:
        site_f = re.compile(r"\(%s fuel(?=[ )])" % re.escape(name))
        site = re.compile(r"\(%s(?=[ )])(?! fuel)" % re.escape(name))
        for i in range(len(out)):
            if out[i].startswith("def %s " % name):
                continue
            out[i] = site_f.sub("(%s fuel fmt__" % name, out[i])
            out[i] = site.sub("(%s fmt__" % name, out[i])
    return out


def generate(repo, prev_text):
    world = R5b.phase4_world(repo)
    # `enum KeyPath` of keypath.rs (the `delete_by_keypath` family) is declared by phase 5a
    # (Generated/Translated5a.lean, imported by the header): registered here
    try:
        R3.emit_enum3(world, "src/keypath.rs", "KeyPath")
    except Unsupported:
        pass
    status = {}
    blocks = []
    prev = {m.group(1): m.group(2) for m in R.BLOCK_RE.finditer(prev_text or "")}

    def guarded(key, fn):
        try:
            r = fn()
            status[key] = "translated" if r is not None else "missing"
            return r
        except Unsupported as e:
            status[key] = "unsupported: %s" % e
        except RecursionError:
            status[key] = "unsupported: expression too deeply nested"
        except Exception as e:
            status[key] = "unsupported: translator error (%s: %s)" % (type(e).__name__, e)
        return None

    # signatures of all phase-6c targets first (calls inside a group go both ways)
    items = {}
    for file, impl, trait, name, lean, group in FUNCS6C:
        key = key_of(file, impl, name)
        hits = world.find(file, "fn", name, impl, trait)
        if not hits and (file, impl, name) in OPTIONAL6C and file not in world.file_errors:
            continue
        if not hits:
            status[key] = ("unsupported: cannot read %s: %s" % (file, world.file_errors[file])) if file in world.file_errors else "missing"
            continue
        if len(hits) > 1:
            status[key] = "unsupported: defined more than once"
            continue

        def sig_of():
            tr = FnTr6c(world, file, impl, trait, name, hits[0], lean, None, group)
            ptys = [lean_type6c(t, world) for _, t in tr.params]
            lean_type6c(tr.ret_value_type(), world)
            params = list(tr.params)
            fmt = group in GROUP_FMT
            world.sigs[(file, impl, name)] = dict(
                params=params, ret=tr.ret, lean=(lean + " fmt__") if fmt else lean, writer=None, mut=list(tr.mutparams),
                name=name, group=group, trait=trait, fuel=(True if group is not None else None), holder=None, fmt=fmt,
                lean_fn=" → ".join(ptys + ["Res %s" % tr.lean_ret()]))
            if impl is None:
                world.sigs_names.add(name)
            return hits[0]
        it = guarded(key, sig_of)
        if it is not None:
            items[key] = it
    done_groups = set()
    for idx, (file, impl, trait, name, lean, group) in enumerate(FUNCS6C):
        key = key_of(file, impl, name)
        if (file, impl, name) in OPTIONAL6C and key not in items and key not in status:
            continue
        if group is None:
            lines = None
            if key in items:
                def one():
                    aux, body, uses, fmt = translate_fn6c(world, file, impl, trait, name, lean, items[key], None)
                    sig = world.sigs[(file, impl, name)]
                    sig["fuel"] = bool(uses)
                    sig["fmt"] = bool(fmt)
                    if fmt:
                        aux, names = add_fmt_aux(aux)
                        body = pass_fmt(add_fmt_param(body, lean), names)
                        aux = pass_fmt(aux, names)
                    return aux + body
                lines = guarded(key, one)
            if lines is None and (file, impl, name) in world.sigs:
                pb = prev.get(key, "")
                world.sigs[(file, impl, name)]["fuel"] = bool(re.search(r"^def %s \(fuel : Nat\)" % re.escape(lean), pb, re.M))
                world.sigs[(file, impl, name)]["fmt"] = bool(re.search(r"^def %s .*\(fmt__ : Nat → Bytes\)" % re.escape(lean), pb, re.M))
            blocks.append((key, lines))
            continue
        if group in done_groups:
            continue
        done_groups.add(group)
        members = [f for f in FUNCS6C if f[5] == group]
        gkey = "%s::group %s (%s)" % (members[0][0], group, ", ".join(m[3] if m[1] is None else "%s::%s" % (m[1], m[3]) for m in members))
        auxs, defs, good = [], [], True
        used_fmt = False
        for mfile, mimpl, mtrait, mname, mlean, _ in members:
            mkey = key_of(mfile, mimpl, mname)
            if mkey not in items:
                good = False
                continue

            def one():
                aux, body, _, fmt = translate_fn6c(world, mfile, mimpl, mtrait, mname, mlean, items[mkey], group)
                if group in GROUP_FMT:
                    body = add_fmt_param(body, mlean)
                return aux, body, fmt
            r = guarded(mkey, one)
            if r is None:
                good = False
            else:
                auxs += r[0]
                defs += r[1]
                used_fmt = used_fmt or r[2]
        if good and group in GROUP_FMT:
            auxs, names = add_fmt_aux(auxs)
            auxs = pass_fmt(auxs, names)
            defs = pass_fmt(defs, names)
        if good:
            status[gkey] = "translated"
            blocks.append((gkey, auxs + ["mutual"] + defs + ["end"]))
        else:
            status[gkey] = "unsupported: a member of the group is not translated"
            blocks.append((gkey, None))
    out = [HEADER]
    ok = True
    for key, lines in blocks:
        out.append("-- BEGIN %s\n" % key)
        if lines is not None:
            out.append("\n".join(lines) + "\n")
        else:
            ok = False
            if key in prev:
                out.append(prev[key])
                status[key] += " (kept the previously generated block)"
            else:
                out.append("-- (no translation available)\n")
        out.append("-- END %s\n\n" % key)
    out.append(FOOTER)
    ok = ok and all(v == "translated" for v in status.values())
    return "".join(out), status, ok


def main(argv):
    to_stdout = "--stdout" in argv
    try:
        prev_text = open(PREV, encoding="utf-8").read()
    except OSError:
        prev_text = ""
    text, status, ok = generate(REPO, prev_text)
    if to_stdout:
        sys.stdout.write(text)
        if "--status" in argv:
            sys.stderr.write(json.dumps(status, indent=1) + "\n")
        return 0
    try:
        old = open(OUT, encoding="utf-8").read()
    except OSError:
        old = None
    changed = False
    if old != text:
        changed = True
        os.makedirs(os.path.dirname(OUT), exist_ok=True)
        tmp_out = OUT + ".tmp%d" % os.getpid()
        with open(tmp_out, "w", encoding="utf-8") as f:
            f.write(text)
        os.replace(tmp_out, OUT)
    print(json.dumps({"ok": ok, "functions": status, "changed": changed}))
    return 0


if __name__ == "__main__":
    sys.exit(main(sys.argv[1:]))
