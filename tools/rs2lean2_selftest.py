#!/usr/bin/env python3
"""Self-test of the phase-2 Rust -> Lean translator (tools/rs2lean2.py) and of its agreement
theorems (lean/JsonbModel/Proofs/TranslatedAgreeB*.lean).  Same three questions as
tools/rs2lean_selftest.py:

  (a) robustness: re-formatting the source (one token per line, few long lines with block comments
      and CRLF, extra attributes / tabs / blank lines) leaves the generated Lean text byte-identical;
      a change that leaves the subset keeps the committed block and says so;
  (b) sensitivity: each small LOGIC mutation of a target function (off-by-one in an offset,
      `4 *` -> `8 *`, wrong mask, swapped accumulators, missing `+ 4`, `<` vs `<=`, …), applied one
      at a time, changes the generated text and makes an agreement proof FAIL, while the unmutated
      source PASSES;
  (c) tolerance: harmless re-spellings are still proved.

Works on a copy of $VERIF_REPO/src (default /repo) in a temporary directory under /tmp; Lean runs on
scratch files in a second temporary directory (nothing under lean/ is written).  The Lean project
is $RS2LEAN2_LEAN (default <verif>/lean); its `JsonbModel.Proofs.TranslatedAgreeB` must be built.
Python 3 stdlib only.  Exit code 0 iff everything behaved as expected."""
import concurrent.futures, json, os, re, shutil, subprocess, sys, tempfile, time

HERE = os.path.dirname(os.path.abspath(__file__))
VERIF = os.path.normpath(os.path.join(HERE, ".."))
LEAN = os.environ.get("RS2LEAN2_LEAN", os.path.join(VERIF, "lean"))
REPO = os.environ.get("VERIF_REPO", "/repo")
TOOL = os.path.join(HERE, "rs2lean2.py")
PARTS = {1: "TranslatedAgreeB1.lean", 2: "TranslatedAgreeB2.lean", 3: "TranslatedAgreeB3.lean", 4: "TranslatedAgreeB4.lean", 5: "TranslatedAgreeB5.lean"}
JOBS = int(os.environ.get("RS2LEAN_SELFTEST_JOBS", "4"))
COMMITTED = os.path.join(LEAN, "JsonbModel", "Generated", "Translated2.lean")

sys.path.insert(0, HERE)
import rs2lean  # noqa: E402
import rs2lean2  # noqa: E402
from rs2lean_selftest import reformat_variants, mutate  # noqa: E402

F = "src/functions.rs"
U = "src/util.rs"
B = "src/builder.rs"
S = "src/ser.rs"
I = "src/iterator.rs"
GJBI = "let mut val_offset = offset + 4 * length + 4;"

# (id, file, old text, new text, which occurrence (0-based), agreement parts to check, theorem expected to fail)
MUTATIONS = [
    # get_jentry_by_index
    ("gjbi-4x-to-8x", F, GJBI, "let mut val_offset = offset + 8 * length + 4;", 0, [1], "get_jentry_by_index_agrees"),
    ("gjbi-missing-plus-4", F, GJBI, "let mut val_offset = offset + 4 * length;", 0, [1], "get_jentry_by_index_agrees"),
    ("gjbi-jentry-start", F, "    let mut jentry_offset = offset + 4;\n    let mut val_offset = offset + 4 * length + 4;", "    let mut jentry_offset = offset;\n    let mut val_offset = offset + 4 * length + 4;", 0, [1], "get_jentry_by_index_agrees"),
    ("gjbi-lt-to-le", F, "        if i < index {", "        if i <= index {", 0, [1], "gjbi_loop1_step"),
    ("gjbi-step-8", F, "        if i < index {\n            jentry_offset += 4;", "        if i < index {\n            jentry_offset += 8;", 0, [1], "gjbi_loop1_step"),
    ("gjbi-swapped-accumulators", F, "            jentry_offset += 4;\n            val_offset += val_length;\n            continue;", "            jentry_offset += val_length;\n            val_offset += 4;\n            continue;", 0, [1], "gjbi_loop1_step"),
    ("gjbi-wrong-mask", F, "    let length = (header & CONTAINER_HEADER_LEN_MASK) as usize;\n    if index >= length {", "    let length = (header & CONTAINER_HEADER_TYPE_MASK) as usize;\n    if index >= length {", 0, [1], "get_jentry_by_index_agrees"),
    ("gjbi-returns-jentry-offset", F, "return Some((jentry, encoded, val_offset));", "return Some((jentry, encoded, jentry_offset));", 0, [1], "gjbi_loop1_step"),
    ("gjbi-no-continue", F, "            val_offset += val_length;\n            continue;\n", "            val_offset += val_length;\n", 0, [1], "gjbi_loop1_step"),
    ("gjbi-range-from-1", F, "    for i in 0..length {\n        let encoded = read_u32(value, jentry_offset).ok()?;\n        let jentry = JEntry::decode_jentry(encoded);\n        let val_length", "    for i in 1..length {\n        let encoded = read_u32(value, jentry_offset).ok()?;\n        let jentry = JEntry::decode_jentry(encoded);\n        let val_length", 0, [1], "get_jentry_by_index_agrees"),
    ("gjbi-read-offset-plus-1", F, "        let encoded = read_u32(value, jentry_offset).ok()?;\n        let jentry = JEntry::decode_jentry(encoded);\n        let val_length = jentry.length as usize;\n        if i < index {", "        let encoded = read_u32(value, jentry_offset + 1).ok()?;\n        let jentry = JEntry::decode_jentry(encoded);\n        let val_length = jentry.length as usize;\n        if i < index {", 0, [1], "gjbi_loop1_step"),
    # extract_by_jentry
    ("extract-slice-end", F, "CONTAINER_TAG => value[offset..offset + length].to_vec(),", "CONTAINER_TAG => value[offset..offset + length + 1].to_vec(),", 0, [1], "extract_by_jentry_agrees"),
    ("extract-wrong-tag", F, "buf.extend_from_slice(&SCALAR_CONTAINER_TAG.to_be_bytes());\n            buf.extend_from_slice(&encoded.to_be_bytes());\n            if jentry.length > 0 {", "buf.extend_from_slice(&ARRAY_CONTAINER_TAG.to_be_bytes());\n            buf.extend_from_slice(&encoded.to_be_bytes());\n            if jentry.length > 0 {", 0, [1], "extract_by_jentry_agrees"),
    ("extract-swapped-words", F, "buf.extend_from_slice(&SCALAR_CONTAINER_TAG.to_be_bytes());\n            buf.extend_from_slice(&encoded.to_be_bytes());\n            if jentry.length > 0 {", "buf.extend_from_slice(&encoded.to_be_bytes());\n            buf.extend_from_slice(&SCALAR_CONTAINER_TAG.to_be_bytes());\n            if jentry.length > 0 {", 0, [1], "extract_by_jentry_agrees"),
    ("extract-always-slices", F, "            if jentry.length > 0 {\n                buf.extend_from_slice(&value[offset..offset + length]);", "            if jentry.length >= 0 {\n                buf.extend_from_slice(&value[offset..offset + length]);", 0, [1], "extract_by_jentry_agrees"),
    # is_array / is_object / array_length
    ("is-array-object-tag", F, "matches!(header & CONTAINER_HEADER_TYPE_MASK, ARRAY_CONTAINER_TAG)", "matches!(header & CONTAINER_HEADER_TYPE_MASK, OBJECT_CONTAINER_TAG)", 0, [1], "is_array_agrees"),
    ("is-object-len-mask", F, "matches!(header & CONTAINER_HEADER_TYPE_MASK, OBJECT_CONTAINER_TAG)", "matches!(header & CONTAINER_HEADER_LEN_MASK, OBJECT_CONTAINER_TAG)", 0, [1], "is_object_agrees"),
    ("array-length-type-mask", F, "            let length = (header & CONTAINER_HEADER_LEN_MASK) as usize;\n            Some(length)", "            let length = (header & JENTRY_OFF_LEN_MASK) as usize;\n            Some(length)", 0, [1], "array_length_agrees"),
    ("array-length-offset-4", F, "    let header = read_u32(value, 0).ok()?;\n    match header & CONTAINER_HEADER_TYPE_MASK {\n        ARRAY_CONTAINER_TAG => {\n            let length", "    let header = read_u32(value, 4).ok()?;\n    match header & CONTAINER_HEADER_TYPE_MASK {\n        ARRAY_CONTAINER_TAG => {\n            let length", 0, [1], "array_length_agrees"),
    # decode_hex_escape (util.rs)
    ("hex-shift-3", U, "n = (n << 4) + hex;", "n = (n << 3) + hex;", 0, [2], "dhe_loop1_step"),
    ("hex-start-1", U, "    let mut n = 0;\n    for number in numbers {", "    let mut n = 1;\n    for number in numbers {", 0, [2], "decode_hex_escape_agrees"),
    ("hex-minus", U, "n = (n << 4) + hex;", "n = (n << 4) - hex;", 0, [2], "dhe_loop1_step"),
    ("hex-error-name", U, "ParseErrorCode::InvalidHex(number)", "ParseErrorCode::InvalidEscaped(number)", 0, [2], "dhe_loop1_step"),
    # escape_scalar_string
    ("esc-backslash-text", F, "            0x5C => \"\\\\\\\\\",", "            0x5C => \"\\\\\\\"\",", 0, [2], "esc_loop1_step"),
    ("esc-control-range", F, "b @ 0x00..=0x1F => {", "b @ 0x00..=0x1E => {", 0, [2], "esc_loop1_step"),
    ("esc-last-start-off-by-one", F, "        last_start = i + 1;", "        last_start = i;", 0, [2], "esc_loop1_step"),
    ("esc-range-from-start-plus-1", F, "    for i in start..end {\n        // add backslash", "    for i in start + 1..end {\n        // add backslash", 0, [2], "escape_scalar_string_run"),
    ("esc-hex-width", F, "format!(\"\\\\u{:04x}\", b)", "format!(\"\\\\u{:02x}\", b)", 0, [2], "esc_loop1_step"),
    ("esc-no-closing-quote", F, "        json.push_str(&val);\n    }\n    json.push('\\\"');\n}", "        json.push_str(&val);\n    }\n}", 0, [2], "escape_scalar_string_run"),
    ("esc-run-one-too-long", F, "let val = String::from_utf8_lossy(&value[last_start..i]);", "let val = String::from_utf8_lossy(&value[last_start..i + 1]);", 0, [2], "esc_loop1_step"),
    ("esc-tab-as-n", F, "            0x09 => \"\\\\t\",", "            0x09 => \"\\\\n\",", 0, [2], "esc_loop1_step"),
    # (equal inside the domain; on an empty range beyond the buffer it now slices and panics)
    ("esc-le-at-the-end", F, "    if last_start < end {", "    if last_start <= end {", 0, [2], "escape_scalar_string_empty_range"),
    # reserve_jentries / replace_jentry (builder.rs, ser.rs)
    ("reserve-one-more", B, "    let new_len = old_len + len;", "    let new_len = old_len + len + 1;", 0, [3], "reserve_jentries_agrees"),
    ("reserve-fill-1", B, "    buf.resize(new_len, 0);", "    buf.resize(new_len, 1);", 0, [3], "reserve_jentries_agrees"),
    ("reserve-returns-new-len", B, "    buf.resize(new_len, 0);\n    old_len", "    buf.resize(new_len, 0);\n    new_len", 0, [3], "reserve_jentries_agrees"),
    ("replace-index-off-by-one", B, "        buf[*jentry_index + i] = *b;", "        buf[*jentry_index + i + 1] = *b;", 0, [3], "rj_loop1_step"),
    ("replace-advance-8", B, "    *jentry_index += 4;", "    *jentry_index += 8;", 0, [3], "replace_jentry_agrees"),
    ("replace-no-advance", B, "    *jentry_index += 4;\n", "", 0, [3], "replace_jentry_agrees"),
    ("ser-reserve-fill", S, "        self.buf.resize(new_len, 0);", "        self.buf.resize(new_len, 255);", 0, [3], "encoder_reserve_jentries_agrees"),
    ("ser-replace-index", S, "            self.buf[*jentry_index + i] = *b;", "            self.buf[*jentry_index + 4 - i] = *b;", 0, [3], "erj_loop1_step"),
    ("ser-replace-advance", S, "        *jentry_index += 4;", "        *jentry_index += 3;", 0, [3], "encoder_replace_jentry_agrees"),
    # get_jentry_by_name
    ("gjbn-8x-to-4x", F, "    let mut val_offset = offset + 8 * length + 4;", "    let mut val_offset = offset + 4 * length + 4;", 0, [4], "get_jentry_by_name_agrees"),
    ("gjbn-key-offset-missing-4", F, "    let mut key_offset = offset + 8 * length + 4;", "    let mut key_offset = offset + 8 * length;", 0, [4], "get_jentry_by_name_agrees"),
    ("gjbn-keys-not-skipped", F, "        jentry_offset += 4;\n        val_offset += key_jentry.length as usize;\n        key_jentries.push_back(key_jentry);", "        jentry_offset += 4;\n        key_jentries.push_back(key_jentry);", 0, [4], "gjbn_loop1_step"),
    ("gjbn-no-break", F, "            result = Some((val_jentry, val_encoded, val_offset));\n            break;\n", "            result = Some((val_jentry, val_encoded, val_offset));\n", 0, [4], "gjbn_loop2_step"),
    ("gjbn-last-caseless-wins", F, " && name.eq_ignore_ascii_case(key) && result.is_none() {", " && name.eq_ignore_ascii_case(key) {", 0, [4], "gjbn_loop2_step"),
    ("gjbn-second-loop-step-8", F, "        jentry_offset += 4;\n        val_offset += val_length;\n    }\n    result", "        jentry_offset += 8;\n        val_offset += val_length;\n    }\n    result", 0, [4], "gjbn_loop2_step"),
    ("gjbn-returns-key-offset", F, "        if name.eq(key) {\n            result = Some((val_jentry, val_encoded, val_offset));", "        if name.eq(key) {\n            result = Some((val_jentry, val_encoded, key_offset));", 0, [4], "gjbn_loop2_step"),
    ("gjbn-ignores-flag", F, "        } else if ignore_case && name.eq_ignore_ascii_case(key)", "        } else if name.eq_ignore_ascii_case(key)", 0, [4], "gjbn_loop2_step"),
    # iterator.rs
    ("iter-array-8x", I, "        val_offset: 4 * length + 4,", "        val_offset: 8 * length + 4,", 0, [5], "iterate_array_agrees"),
    ("iter-array-val-offset-stuck", I, "        self.idx += 1;\n        self.val_offset += val_length;", "        self.idx += 1;", 0, [5], "array_iterator_next_agrees"),
    ("iter-array-gt", I, "        if self.idx >= self.length {", "        if self.idx > self.length {", 0, [5], "array_iterator_next_agrees"),
    ("iter-array-idx-2", I, "        self.idx += 1;\n        self.val_offset += val_length;", "        self.idx += 2;\n        self.val_offset += val_length;", 0, [5], "array_iterator_next_agrees"),
    ("iter-array-jentry-8", I, "        self.val_offset += val_length;\n        self.jentry_offset += 4;", "        self.val_offset += val_length;\n        self.jentry_offset += 8;", 0, [5], "array_iterator_next_agrees"),
    ("iter-array-item-start", I, "&self.value[self.val_offset..self.val_offset + val_length],", "&self.value[self.jentry_offset..self.val_offset + val_length],", 0, [5], "array_iterator_next_agrees"),
    ("iter-keys-4x", I, "        key_offset: 8 * length + 4,", "        key_offset: 4 * length + 4,", 0, [5], "iteate_object_keys_agrees"),
    ("iter-keys-offset-step", I, "        self.key_offset += key_length;", "        self.key_offset += 4;", 0, [5], "object_key_iterator_next_agrees"),
]

# harmless re-spellings: different generated text, same logic -> the proofs must still go through
RESPELLINGS = [
    ("gjbi-commuted-sum", F, GJBI, "let mut val_offset = 4 + offset + 4 * length;", 0, [1]),
    ("gjbi-gt-flipped", F, "        if i < index {", "        if index > i {", 0, [1]),
    ("gjbi-explicit-else", F, "            val_offset += val_length;\n            continue;\n        }\n        return Some((jentry, encoded, val_offset));", "            val_offset += val_length;\n            continue;\n        } else {\n            return Some((jentry, encoded, val_offset));\n        }", 0, [1]),
    ("extract-len-ne-0", F, "            if jentry.length > 0 {\n                buf.extend_from_slice(&value[offset..offset + length]);", "            if jentry.length != 0 {\n                buf.extend_from_slice(&value[offset..offset + length]);", 0, [1]),
    ("esc-ge-instead-of-gt", F, "        if i > last_start {", "        if i >= last_start {", 0, [2]),
    ("hex-commuted-sum", U, "n = (n << 4) + hex;", "n = hex + (n << 4);", 0, [2]),
    ("reserve-commuted", B, "    let new_len = old_len + len;", "    let new_len = len + old_len;", 0, [3]),
    ("gjbn-commuted-offsets", F, "    let mut key_offset = offset + 8 * length + 4;", "    let mut key_offset = 4 + 8 * length + offset;", 0, [4]),
    ("iter-array-flipped-test", I, "        if self.idx >= self.length {", "        if self.length <= self.idx {", 0, [5]),
    ("gjbn-flipped-test", F, " && name.eq_ignore_ascii_case(key) && result.is_none() {", " && result.is_none() && name.eq_ignore_ascii_case(key) {", 0, [4]),
]

# changes that leave the subset / remove a target: the tool must say so and keep the committed block
RETENTION = [
    ("out-of-subset-closure", F, "        let jentry = JEntry::decode_jentry(encoded);\n        let val_length = jentry.length as usize;\n        if i < index {", "        let jentry = (|| JEntry::decode_jentry(encoded))();\n        let val_length = jentry.length as usize;\n        if i < index {", 0,
     "src/functions.rs::get_jentry_by_index", "unsupported"),
    ("unbounded-loop", F, "    for i in 0..length {\n        let encoded = read_u32(value, jentry_offset).ok()?;\n        let jentry = JEntry::decode_jentry(encoded);\n        let val_length", "    let i = 0;\n    loop {\n        let encoded = read_u32(value, jentry_offset).ok()?;\n        let jentry = JEntry::decode_jentry(encoded);\n        let val_length", 0,
     "src/functions.rs::get_jentry_by_index", "unsupported"),
    ("renamed-away", F, "fn extract_by_jentry(jentry: &JEntry", "fn extract_by_entry(jentry: &JEntry", 0,
     "src/functions.rs::extract_by_jentry", "missing"),
]


def run_tool(src_root, out_path):
    """-> (generated text, status dict)"""
    env = dict(os.environ, VERIF_REPO=src_root, RS2LEAN2_OUT=out_path, RS2LEAN2_PREV=COMMITTED)
    if os.path.exists(out_path):
        os.remove(out_path)
    r = subprocess.run([sys.executable, TOOL], env=env, capture_output=True, text=True)
    if r.returncode != 0:
        raise RuntimeError("rs2lean2.py crashed: " + r.stderr[-2000:])
    status = json.loads(r.stdout.strip().splitlines()[-1])
    r2 = subprocess.run([sys.executable, TOOL, "--stdout"], env=env, capture_output=True, text=True)
    if r2.returncode != 0:
        raise RuntimeError("rs2lean2.py --stdout crashed: " + r2.stderr[-2000:])
    text = open(out_path, encoding="utf-8").read()
    if text != r2.stdout:
        raise RuntimeError("--stdout and the written file differ")
    return text, status


def scratch_lean(scratch, generated, parts, name):
    """one self-contained Lean file: generated definitions + the agreement parts"""
    imports, bodies = [], []
    texts = [generated] + [open(os.path.join(LEAN, "JsonbModel", "Proofs", PARTS[p]), encoding="utf-8").read() for p in parts]
    for t in texts:
        body = []
        for line in t.splitlines():
            m = re.match(r"import\s+(\S+)", line)
            if m:
                mod = m.group(1)
                if mod == "JsonbModel.Generated.Translated2" or re.fullmatch(r"JsonbModel\.Proofs\.TranslatedAgreeB\d*", mod):
                    continue
                if mod not in imports:
                    imports.append(mod)
            else:
                body.append(line)
        bodies.append("\n".join(body))
    path = os.path.join(scratch, name + ".lean")
    with open(path, "w", encoding="utf-8") as f:
        f.write("\n".join("import " + m for m in imports) + "\n\n" + "\n\n".join(bodies) + "\n")
    return path


def lean_check(path):
    """-> (ok, first failing theorem or None, seconds)"""
    t0 = time.time()
    r = subprocess.run(["lake", "env", "lean", path], cwd=LEAN, capture_output=True, text=True)
    out = r.stdout + r.stderr
    dt = time.time() - t0
    errs = [int(m.group(1)) for m in re.finditer(r"^[^\n:]+:(\d+):\d+: error", out, re.M)]
    if r.returncode == 0 and not errs:
        return True, None, dt
    first = None
    if errs:
        lines = open(path, encoding="utf-8").read().splitlines()
        for ln in range(min(errs) - 1, -1, -1):
            m = re.match(r"\s*(?:theorem|def|instance)\s+(\S+)", lines[ln] if ln < len(lines) else "")
            if m:
                first = m.group(1)
                break
    return False, first or "(lean failed: %s)" % (out.strip().splitlines() or ["?"])[-1][:80], dt


def all_parts(parts):
    """a part needs the parts before it that it imports"""
    need = set()
    for p in parts:
        need.add(p)
        text = open(os.path.join(LEAN, "JsonbModel", "Proofs", PARTS[p]), encoding="utf-8").read()
        for m in re.finditer(r"^import JsonbModel\.Proofs\.TranslatedAgreeB(\d)", text, re.M):
            need |= set(all_parts([int(m.group(1))]))
    return sorted(need)


def main():
    only = [a for a in sys.argv[1:] if not a.startswith("-")]
    t_start = time.time()
    tmp = tempfile.mkdtemp(prefix="rs2lean2_selftest_src_", dir="/tmp")
    scratch = tempfile.mkdtemp(prefix="rs2lean2_selftest_lean_", dir="/tmp")
    failures, rows = [], []
    have_parts = [p for p in PARTS if os.path.exists(os.path.join(LEAN, "JsonbModel", "Proofs", PARTS[p]))]
    try:
        shutil.copytree(os.path.join(REPO, "src"), os.path.join(tmp, "src"))
        out = os.path.join(scratch, "Translated2.out.lean")
        base, status = run_tool(tmp, out)
        bad = {k: v for k, v in status["functions"].items() if v != "translated"}
        if bad:
            failures.append("baseline: not everything translated: %s" % bad)
        committed = open(COMMITTED, encoding="utf-8").read()
        rows.append(("baseline", "generated == committed Translated2.lean", "yes" if committed == base else "NO", ""))
        if committed != base:
            failures.append("baseline: generated text differs from the committed Generated/Translated2.lean")

        # (a) formatting robustness
        files = sorted(set(f for f, _, _, _, _ in rs2lean2.FUNCS2) | set(f for f, _, _ in rs2lean2.TYPES2)
                       | set(f for f, _, _, _ in rs2lean.FUNCS) | set(f for f, _, _ in rs2lean.TYPES) | {"src/constants.rs"})
        originals = {f: open(os.path.join(tmp, f), encoding="utf-8").read() for f in files}
        if not only:
            for vi in range(3):
                name = None
                for f in files:
                    name, text = reformat_variants(originals[f])[vi]
                    open(os.path.join(tmp, f), "w", encoding="utf-8", newline="").write(text)
                text, st = run_tool(tmp, out)
                same = text == base
                rows.append(("format", name, "identical" if same else "DIFFERENT", ""))
                if not same:
                    failures.append("format variant %s changed the output" % name)
                for f in files:
                    open(os.path.join(tmp, f), "w", encoding="utf-8").write(originals[f])

            # (a') retention of committed blocks
            for mid, file, old, new, occ, key, want in RETENTION:
                saved = mutate(tmp, file, old, new, occ)
                try:
                    text, st = run_tool(tmp, out)
                finally:
                    open(os.path.join(tmp, file), "w", encoding="utf-8").write(saved)
                got = st["functions"].get(key, "?")
                good = got.startswith(want) and text == base and st["ok"] is False
                rows.append(("retention", mid, ("%s, committed block kept" % want) if good else "WRONG: %s" % got[:70], ""))
                if not good:
                    failures.append("retention %s: status %r, text identical: %s" % (mid, got, text == base))

        jobs = []     # (kind, id, path, expected_ok, expected_theorem)
        if not only:
            jobs.append(("baseline", "unmutated", scratch_lean(scratch, base, have_parts, "base"), True, None))
        for kind, table in (("mutation", MUTATIONS), ("respelling", RESPELLINGS)):
            for row in table:
                mid, file, old, new, occ, parts = row[:6]
                if only and mid not in only:
                    continue
                expect = row[6] if kind == "mutation" else None
                if any(p not in have_parts for p in parts):
                    rows.append((kind, mid, "SKIPPED (part missing)", ""))
                    failures.append("%s %s: agreement part missing" % (kind, mid))
                    continue
                saved = mutate(tmp, file, old, new, occ)
                try:
                    text, st = run_tool(tmp, out)
                finally:
                    open(os.path.join(tmp, file), "w", encoding="utf-8").write(saved)
                nb = {k: v for k, v in st["functions"].items() if v != "translated"}
                if nb:
                    rows.append((kind, mid, "UNSUPPORTED", str(nb)[:100]))
                    failures.append("%s %s left the subset: %s" % (kind, mid, nb))
                    continue
                if text == base:
                    if kind == "respelling":
                        rows.append((kind, mid, "generated text identical (nothing to re-prove)", ""))
                        continue
                    rows.append((kind, mid, "NO CHANGE in generated text", ""))
                    failures.append("%s %s did not change the generated text" % (kind, mid))
                    continue
                jobs.append((kind, mid, scratch_lean(scratch, text, all_parts(parts), mid), kind == "respelling", expect))

        with concurrent.futures.ThreadPoolExecutor(max_workers=JOBS) as ex:
            results = list(ex.map(lambda j: lean_check(j[2]), jobs))
        for (kind, mid, path, exp_ok, exp_thm), (ok, thm, dt) in zip(jobs, results):
            if exp_ok:
                verdict = "proofs PASS" if ok else "proofs FAIL at %s" % thm
                if not ok:
                    failures.append("%s %s: expected the agreement proofs to pass, failed at %s" % (kind, mid, thm))
            else:
                verdict = ("proof FAILS at %s" % thm) if not ok else "NOT DETECTED (proofs pass)"
                if ok:
                    failures.append("mutation %s was not detected" % mid)
                elif exp_thm and thm != exp_thm:
                    verdict += " (expected %s)" % exp_thm
            rows.append((kind, mid, verdict, "%.1fs" % dt))
    finally:
        shutil.rmtree(tmp, ignore_errors=True)
        if not os.environ.get("RS2LEAN2_KEEP"):
            shutil.rmtree(scratch, ignore_errors=True)

    w1 = max(len(r[0]) for r in rows)
    w2 = max(len(r[1]) for r in rows)
    w3 = max(len(r[2]) for r in rows)
    print("%-*s  %-*s  %-*s  %s" % (w1, "kind", w2, "case", w3, "result", "time"))
    for r in rows:
        print("%-*s  %-*s  %-*s  %s" % (w1, r[0], w2, r[1], w3, r[2], r[3]))
    n_mut = sum(1 for r in rows if r[0] == "mutation")
    n_det = sum(1 for r in rows if r[0] == "mutation" and r[2].startswith("proof FAILS"))
    print("mutations detected: %d / %d; wall %.0fs" % (n_det, n_mut, time.time() - t_start))
    if failures:
        print("SELFTEST FAILED:")
        for f in failures:
            print("  - " + f)
        return 1
    print("SELFTEST OK")
    return 0


if __name__ == "__main__":
    sys.exit(main())
