#!/usr/bin/env python3
"""rs2lean6a: phase 6a of the Rust -> Lean translator: the JSONPath SELECTOR of src/jsonpath/selector.rs (and the AST
types of src/jsonpath/path.rs it walks).  Extends the subset of tools/rs2lean5b.py (-> rs2lean4 -> rs2lean3 -> rs2lean2 ->
rs2lean) with
  * the AST types: enums with tuple payloads (`Position::Container((usize, usize))`), `Box<T>` (= `T`), struct-like
    variants (`Expr::BinaryOp { op, left, right }`), a group of mutually recursive enums nested through `Vec`
    (`Path` / `ArithmeticFunc` / `Expr` / `FilterFunc`), structs of them (`JsonPath`, `Selector`);
  * the selector's `nom` readers `map(be_u32, |x| <pure>)(input)`, `count(f, n)(input)`, `take(n)(input)` as plain
    readers (`Rs.nomMap` / `Rs.nomBeU32` / `Rs.nomCount` / `Rs.nomTake` of RustPrelude6a.lean); `?` on their result converts
    the nom error with the crate's `impl From<nom::Err<..>> for Error`, read from src/error.rs;
  * patterns: tuples nested in enum constructors, struct-like variants, alternatives that bind the same names;
    `matches!(x, Enum::Variant(..))`; `x == Enum::UnitVariant` on an enum that derives `PartialEq`;
  * `#[derive(PartialOrd)]` on `enum PathValue` -> `PathValue.partial_cmp` (variant order, then the payloads);
  * `v[i]` on any `Vec`, `s.first()`, `.iter().skip(n)`, `v.append(&mut w)`, `q.truncate(n)`, `q.pop_front()` as a value,
    `o.expect("text")`, `data.write_u32::<BigEndian>(x)?` on a `Vec<u8>`, untyped `Vec::new()`, `unreachable!()`.
Output: lean/JsonbModel/Generated/Translated6a.lean (namespace Jsonb.Tr, after the phase-1..4 files).
The semantics of every new primitive is in the hand-written lean/JsonbModel/RustPrelude6a.lean.
Same conventions as the earlier phases (see tools/RS2LEAN.md): reads $VERIF_REPO (default /repo), writes the output only
when it changes, prints ONE JSON status line last; `--stdout` prints the text and writes nothing; a function outside the
subset keeps its previously generated block.  Python 3 stdlib only."""
import json, os, re, sys

HERE = os.path.dirname(os.path.abspath(__file__))
sys.path.insert(0, HERE)
import rs2lean as R  # noqa: E402
import rs2lean2 as R2  # noqa: E402
import rs2lean3 as R3  # noqa: E402
import rs2lean4 as R4  # noqa: E402
import rs2lean5b as R5b  # noqa: E402
from rs2lean import N, Tok, Unsupported, NeedType, is_int, is_bytes, lname, ind  # noqa: E402
from rs2lean2 import NeedLitType, strip, U8, STR  # noqa: E402
from rs2lean4 import Parser4, FnTr4, FoundHole, norm4, lean_type4, tystr4, resolve_alias  # noqa: E402
from rs2lean5b import FnTr5b  # noqa: E402

REPO = os.environ.get("VERIF_REPO", "/repo")
OUT = os.environ.get("RS2LEAN6A_OUT", os.path.normpath(os.path.join(HERE, "..", "lean", "JsonbModel", "Generated", "Translated6a.lean")))
PREV = os.environ.get("RS2LEAN6A_PREV", OUT)

P = "src/jsonpath/path.rs"
S = "src/jsonpath/selector.rs"
F = "src/functions.rs"
NUM = "src/number.rs"

# the output, in order: ("enum" | "struct", file, name), ("typegroup", file, ((kind, name), ..)),
# ("derive_partial_ord", file, name), ("fn", file, impl, trait, name, lean, group)
ITEMS6A = [
    ("enum", P, "ArrayIndex"),
    ("enum", P, "PathValue"),
    ("enum", P, "BinaryOperator"),
    ("enum", P, "UnaryArithmeticOperator"),
    ("enum", P, "BinaryArithmeticOperator"),
    ("typegroup", P, (("enum", "Path"), ("enum", "ArithmeticFunc"), ("enum", "Expr"), ("enum", "FilterFunc"))),
    ("struct", P, "JsonPath"),
    ("enum", S, "Position"),
    ("enum", S, "ExprValue"),
    ("enum", S, "Mode"),
    ("struct", S, "Selector"),
    ("fn", NUM, "Number", "PartialOrd", "partial_cmp", "Number.partial_cmp", None),
    ("derive_partial_ord", P, "PathValue"),
    ("fn", P, "JsonPath", None, "is_predicate", "JsonPath.is_predicate", None),
    ("fn", S, None, None, "decode_header", "decode_header", None),
    ("fn", S, None, None, "decode_jentry", "decode_jentry", None),
    ("fn", S, None, None, "decode_jentries", "decode_jentries", None),
    ("fn", S, None, None, "decode_string", "decode_string", None),
    ("fn", S, "Selector", None, "new", "Selector.new", None),
    ("fn", S, "Selector", None, "root_position", "Selector.root_position", None),
    ("fn", S, "Selector", None, "select_object_values", "Selector.select_object_values", None),
    ("fn", S, "Selector", None, "select_array_values", "Selector.select_array_values", None),
    ("fn", S, "Selector", None, "select_by_name", "Selector.select_by_name", None),
    ("fn", S, "Selector", None, "select_by_indices", "Selector.select_by_indices", None),
    ("fn", S, "Selector", None, "select_path", "Selector.select_path", None),
    ("fn", S, "Selector", None, "build_predicate_result", "Selector.build_predicate_result", None),
    ("fn", S, "Selector", None, "build_values", "Selector.build_values", None),
    ("fn", S, "Selector", None, "build_scalar_array", "Selector.build_scalar_array", None),
    ("fn", S, "Selector", None, "compare_value", "Selector.compare_value", None),
    ("fn", S, "Selector", None, "compare", "Selector.compare", None),
    ("fn", S, "Selector", None, "convert_expr_val", "Selector.convert_expr_val", None),
    ("fn", S, "Selector", None, "find_positions", "Selector.find_positions", "selector"),
    ("fn", S, "Selector", None, "filter_expr", "Selector.filter_expr", "selector"),
    ("fn", S, "Selector", None, "eval_exists", "Selector.eval_exists", "selector"),
    ("fn", S, "Selector", None, "select", "Selector.select", None),
    ("fn", S, "Selector", None, "exists", "Selector.exists", None),
    ("fn", S, "Selector", None, "predicate_match", "Selector.predicate_match", None),
    ("fn", F, None, None, "path_exists", "path_exists", None),
    ("fn", F, None, None, "path_match", "path_match", None),
    ("fn", F, None, None, "get_by_path", "get_by_path", None),
    ("fn", F, None, None, "get_by_path_first", "get_by_path_first", None),
    ("fn", F, None, None, "get_by_path_array", "get_by_path_array", None),
]

# public functions of functions.rs of the shape `.. if !is_jsonb(value) { <text branch> } else { <jsonb branch> } ..`: the text
# branch calls the JSON text parser (and the selector on the re-encoded document) and is kept as a parameter `text__`
# holding its outcome: the function's result when the `if` is the tail expression, the final values of the `&mut`
# parameters (or the error the branch leaves with) when it is a statement
TEXT_IFELSE6 = {"path_exists", "path_match", "get_by_path", "get_by_path_first", "get_by_path_array"}

# where a type implements a trait more than once: the item whose signature text matches this pattern
SELECT = {(NUM, "Number", "partial_cmp"): r"other : & Self\b"}

# size_of::<T>() of the enums a Vec is created with (x86_64, checked with a probe; only the threshold of the
# `capacity overflow` panic of `with_capacity` depends on it)
R3.ENUM_SIZES.setdefault("PathValue", 24)

RESERVED6A = set("""ArrayIndex PathValue BinaryOperator UnaryArithmeticOperator BinaryArithmeticOperator Path ArithmeticFunc
Expr FilterFunc JsonPath Position ExprValue Mode Selector""".split())

R2.MUT_METHODS.update({"append"})

NOM_COMBINATORS = {"map", "count", "take", "be_u32"}


# ----------------------------------------------------------------------------- parser

class Parser6(Parser4):
    def parse_type(self):
        if self.isid("Box") and self.isp("<", 1):
            self.next()
            args = self.parse_generic_args()
            if len(args) != 1:
                raise Unsupported("Box arguments")
            return args[0]                      # Box<T> is its T
        if self.isid("IResult") and self.isp("<", 1):
            self.next()
            args = self.parse_generic_args()
            if len(args) != 2:
                raise Unsupported("IResult arguments (only `IResult<I, O>`)")
            return ("res", ("tuple", (args[0], args[1])))
        return Parser4.parse_type(self)

    def parse_pattern1(self):
        # struct-like variant patterns `Enum::Variant { a, b: pat }`
        save = self.i
        amp = 0
        while self.isp("&", amp) or self.isp("&&", amp):
            amp += 1
        j = amp
        if self.peek(j).k == "id" and self.peek(j).v not in ("ref", "mut", "_"):
            k = j + 1
            segs = [self.peek(j).v]
            while self.isp("::", k) and self.peek(k + 1).k == "id":
                segs.append(self.peek(k + 1).v)
                k += 2
            if self.isp("{", k) and len(segs) >= 2:
                for _ in range(k + 1):
                    self.next()
                fields, rest = [], False
                while not self.isp("}"):
                    if self.eatp(".."):
                        rest = True
                        break
                    self.eatid("ref")
                    self.eatid("mut")
                    fname = self.ident()
                    if self.eatp(":"):
                        fpat = self.parse_pattern()
                    else:
                        fpat = N("p_path", path=[fname])
                    fields.append((fname, fpat))
                    if not self.eatp(","):
                        break
                self.expectp("}")
                return N("p_struct", path=segs, fields=fields, rest=rest)
        self.i = save
        return Parser4.parse_pattern1(self)


# ----------------------------------------------------------------------------- types

def derives_of(world, file, kind, name):
    """the traits named by the `#[derive(..)]` attributes of `kind name` in `file` (None when not found)"""
    try:
        toks = R.tokenize(open(os.path.join(world.repo, file), encoding="utf-8").read())
    except (OSError, Unsupported) as e:
        raise Unsupported("cannot read %s: %s" % (file, e))
    hits = []
    for i, t in enumerate(toks):
        if t.k == "id" and t.v == kind and toks[i + 1].k == "id" and toks[i + 1].v == name:
            j = i - 1
            if j >= 0 and toks[j].k == "p" and toks[j].v == ")":
                while j >= 0 and not (toks[j].k == "p" and toks[j].v == "("):
                    j -= 1
                j -= 1
            if j >= 0 and toks[j].k == "id" and toks[j].v == "pub":
                j -= 1
            derives = []
            while j >= 0 and toks[j].k == "p" and toks[j].v == "]":
                k = j
                depth = 0
                while k >= 0:
                    if toks[k].k == "p" and toks[k].v == "]":
                        depth += 1
                    elif toks[k].k == "p" and toks[k].v == "[":
                        depth -= 1
                        if depth == 0:
                            break
                    k -= 1
                inner = toks[k + 1:j]
                if inner and inner[0].k == "id" and inner[0].v == "derive":
                    derives += [x.v for x in inner[1:] if x.k == "id"]
                j = k - 1
                if j >= 0 and toks[j].k == "p" and toks[j].v == "#":
                    j -= 1
            hits.append(derives)
    if not hits:
        return None
    if len(hits) > 1:
        raise Unsupported("declared more than once")
    return hits[0]


def parse_variants6(it, world):
    """-> [(variant, [types], [field names] or None)]; lifetime-only generics"""
    p = Parser6(list(it["toks"]))
    if p.isp("<"):
        inner = p.skip_generics()
        if any(t.k != "life" and not (t.k == "p" and t.v == ",") for t in inner):
            raise Unsupported("generic enum")
    p.expectp("{")
    variants = []
    while not p.isp("}"):
        p.skip_attrs()
        vname = p.ident()
        tys, names = [], None
        if p.eatp("("):
            while not p.isp(")"):
                tys.append(resolve_alias(norm4(p.parse_type()), world))
                if not p.eatp(","):
                    break
            p.expectp(")")
        elif p.eatp("{"):
            names = []
            while not p.isp("}"):
                p.skip_attrs()
                fname = p.ident()
                p.expectp(":")
                names.append(fname)
                tys.append(resolve_alias(norm4(p.parse_type()), world))
                if not p.eatp(","):
                    break
            p.expectp("}")
        if p.eatp("="):
            raise Unsupported("explicit discriminant")
        variants.append((vname, tys, names))
        if not p.eatp(","):
            break
    p.expectp("}")
    return variants


def parse_fields6(it):
    p = Parser6(list(it["toks"]))
    if p.isp("<"):
        inner = p.skip_generics()
        if any(t.k != "life" and not (t.k == "p" and t.v == ",") for t in inner):
            raise Unsupported("generic struct")
    if not p.isp("{"):
        raise Unsupported("tuple/unit struct")
    p.next()
    fields = []
    while not p.isp("}"):
        p.skip_attrs()
        if p.eatid("pub") and p.isp("("):
            p.skip_balanced()
        fname = p.ident()
        p.expectp(":")
        fields.append((fname, norm4(p.parse_type())))
        if not p.eatp(","):
            break
    p.expectp("}")
    return fields


def field_ok6(t, world):
    k = t[0]
    if k in ("int", "bool", "f64", "str") or is_bytes(t):
        return True
    if k == "named":
        return t[1] in world.enums or t[1] in world.structs
    if k in ("vec", "deque", "opt"):
        return field_ok6(t[1], world)
    if k == "tuple":
        return all(field_ok6(x, world) for x in t[1])
    return False


def variant_lines(world, name, variants):
    lines = []
    for v, tys, names in variants:
        for t in tys:
            if not field_ok6(t, world):
                raise Unsupported("payload type %s" % tystr4(t))
        if names is None:
            binders = "".join(" (a%d : %s)" % (i, lean_type4(t, world)) for i, t in enumerate(tys))
        else:
            binders = "".join(" (%s : %s)" % (lname(n), lean_type4(t, world)) for n, t in zip(names, tys))
        lines.append("  | %s%s" % (lname(v), binders))
    return lines


def register_enum(world, name, variants):
    world.enums[name] = [(v, tys) for v, tys, _ in variants]
    vf = getattr(world, "variant_fields", None)
    if vf is None:
        vf = world.variant_fields = {}
    for v, _, names in variants:
        if names is not None:
            vf[(name, v)] = list(names)


def emit_enum6(world, file, name):
    it = R4.find_one(world, file, "enum", name)
    if it is None:
        return None
    variants = parse_variants6(it, world)
    saved = dict(world.enums)
    try:
        register_enum(world, name, variants)
        lines = ["inductive %s where" % name] + variant_lines(world, name, variants)
        lines.append("  deriving Repr, DecidableEq")
    except Unsupported:
        world.enums = saved
        raise
    note_derives(world, file, "enum", name)
    return lines


def note_derives(world, file, kind, name):
    d = derives_of(world, file, kind, name)
    tab = getattr(world, "derives", None)
    if tab is None:
        tab = world.derives = {}
    tab[name] = list(d or [])


def emit_struct6(world, file, name):
    it = R4.find_one(world, file, "struct", name)
    if it is None:
        return None
    fields = parse_fields6(it)
    for _, t in fields:
        if not field_ok6(t, world):
            raise Unsupported("field type %s" % tystr4(t))
    world.structs[name] = fields
    lines = ["structure %s where" % name]
    for f, t in fields:
        lines.append("  %s : %s" % (lname(f), lean_type4(t, world)))
    return lines


def emit_typegroup6(world, file, members):
    """mutually recursive enums (nested through `Vec` / `Box`) -> one Lean `mutual` block"""
    decls = []
    for kind, name in members:
        if kind != "enum":
            raise Unsupported("a type group of this phase contains enums only")
        it = R4.find_one(world, file, kind, name)
        if it is None:
            return None
        decls.append((name, it))
    saved = (dict(world.enums), dict(getattr(world, "variant_fields", {})))
    try:
        for name, it in decls:
            world.enums[name] = []
        parsed = []
        for name, it in decls:
            variants = parse_variants6(it, world)
            register_enum(world, name, variants)
            parsed.append((name, variants))
        lines = ["mutual"]
        for name, variants in parsed:
            lines.append("inductive %s where" % name)
            lines += variant_lines(world, name, variants)
        lines.append("end")
    except Unsupported:
        world.enums, world.variant_fields = saved[0], saved[1]
        raise
    for name, it in decls:
        note_derives(world, file, "enum", name)
    return lines


def emit_derive_partial_ord6(world, file, name):
    """`#[derive(.., PartialOrd, ..)] enum Name { .. }` -> `def Name.partial_cmp`: the derived `PartialOrd` of an enum
    compares the variant indices (declaration order) and, inside one variant, the payloads lexicographically with
    their own `partial_cmp`"""
    d = derives_of(world, file, "enum", name)
    if d is None:
        return None
    if "PartialOrd" not in d:
        raise Unsupported("`%s` does not derive PartialOrd" % name)
    variants = world.enums.get(name)
    if not variants:
        raise Unsupported("derived PartialOrd of an enum that is not translated")

    def field_cmp(t, a, b):
        """-> a Lean term of type `Res (Option Ordering)`"""
        if t == ("bool",):
            return "(Res.ok (some (compare %s.toNat %s.toNat)))" % (a, b)
        if is_int(t):
            return "(Res.ok (some (compare %s %s)))" % (a, b)
        if t == STR or is_bytes(t):
            return "(Res.ok (some (Rs.cmpBytes %s %s)))" % (a, b)
        if t[0] == "named":
            hits = [v for (f, i, n), v in world.sigs.items() if i == t[1] and n == "partial_cmp" and v.get("trait") == "PartialOrd"]
            if len(hits) == 1 and not hits[0].get("fuel") and not hits[0].get("mut") and hits[0]["ret"] == ("opt", ("ordering",)):
                return "(%s %s %s)" % (hits[0]["lean"], a, b)
        raise Unsupported("no `PartialOrd` known for the payload type %s" % tystr4(t))

    lines = ["def %s.partial_cmp (a b : %s) : Res (Option Ordering) :=" % (name, name), "  match a, b with"]
    for idx, (v, tys) in enumerate(variants):
        if len(tys) > 1:
            raise Unsupported("derived PartialOrd of a variant with more than one field")
        if not tys:
            lines.append("  | .%s, .%s => Res.ok (some Ordering.eq)" % (lname(v), lname(v)))
        else:
            lines.append("  | .%s x, .%s y => %s" % (lname(v), lname(v), field_cmp(tys[0], "x", "y")))
    lines.append("  | _, _ => Res.ok (some (compare (%s.variantIdx a) (%s.variantIdx b)))" % (name, name))
    idx_lines = ["def %s.variantIdx : %s → Nat" % (name, name)]
    for idx, (v, tys) in enumerate(variants):
        idx_lines.append("  | .%s%s => %d" % (lname(v), " _" * len(tys), idx))
    world.sigs[(file, name, "partial_cmp")] = dict(
        params=[("self", ("named", name)), ("other", ("named", name))], ret=("opt", ("ordering",)),
        lean="%s.partial_cmp" % name, writer=None, mut=[], name="partial_cmp", group=None, trait="PartialOrd",
        fuel=False, holder=None)
    return idx_lines + [""] + lines


def load_nom_error(world):
    """`impl From<nom::Err<..>> for Error { fn from(..) -> Self { Error::V } }` of error.rs -> "V" (or None)"""
    out = []
    for it in world.load("src/error.rs"):
        if it["kind"] == "fn" and it["name"] == "from" and it["impl"] == "Error" and it["trait"] == "From":
            try:
                p = Parser6(list(it["toks"]))
                p.expectp("(")
                p.eatid("mut")
                p.ident()
                p.expectp(":")
                segs = [p.ident()]
                while p.eatp("::"):
                    segs.append(p.ident())
                if segs != ["nom", "Err"] or not p.isp("<"):
                    continue
                p.skip_generics()
                p.expectp(")")
                p.expectp("->")
                p.parse_type()
                body = p.parse_block()
                if body.stmts or body.tail is None or body.tail.kind != "path" or len(body.tail.segs) != 2 \
                        or body.tail.segs[0] != "Error":
                    continue
                out.append(body.tail.segs[1])
            except Unsupported:
                continue
    return out[0] if len(out) == 1 else None


# ----------------------------------------------------------------------------- function translator

class FnTr6(FnTr5b):
    def __init__(self, world, file, impl, trait, name, it, lean, lit_choice=None, group=None, holes=None):
        FnTr5b.__init__(self, world, file, impl, trait, name, it, lean, lit_choice, group, holes)
        self.body_parser = Parser6(self.body_parser.t, self.body_parser.i)
        self.is_nom = any(t.k == "id" and t.v == "IResult" for t in self.sig_toks(it))

    @staticmethod
    def sig_toks(it):
        out = []
        depth = 0
        for t in it["toks"]:
            if t.k == "p" and t.v == "{" and depth == 0:
                break
            if t.k == "p" and t.v in ("(", "["):
                depth += 1
            elif t.k == "p" and t.v in (")", "]"):
                depth -= 1
            out.append(t)
        return out

    def bind(self, name, ty):
        if name in RESERVED6A:
            raise Unsupported("local name `%s` clashes with a name used by the generated Lean" % name)
        FnTr5b.bind(self, name, ty)

    # -- signature: the phase-4 one with the phase-6a type parser (Box, IResult)
    def parse_sig(self, it):
        toks = list(it["toks"])
        # `Box<T>` -> `T`, `IResult<I, O>` -> `Result<(I, O)>` on the token level, then the earlier parsers apply
        out, k = [], 0
        while k < len(toks):
            t = toks[k]
            if t.k == "id" and t.v in ("Box", "IResult") and toks[k + 1].k == "p" and toks[k + 1].v == "<" and not self.in_body(toks, k):
                q = Parser6(list(toks), k)
                start = q.i
                ty = q.parse_type()
                out += self.type_toks(ty, t.pos)
                # parse_type may have split a `>>` in its private copy: resynchronise on the copy
                toks = q.t
                k = q.i
                continue
            out.append(t)
            k += 1
        FnTr5b.parse_sig(self, dict(it, toks=out))

    @staticmethod
    def in_body(toks, k):
        depth = 0
        for t in toks[:k]:
            if t.k == "p" and t.v == "{":
                return True
        return False

    def type_toks(self, ty, pos):
        """tokens that the earlier type parsers read back as `ty`"""
        def T(k, v):
            return Tok(k, v, pos)
        k = ty[0]
        if k == "int":
            return [T("id", ty[1])]
        if k == "bool":
            return [T("id", "bool")]
        if k == "f64":
            return [T("id", "f64")]
        if k == "ordering":
            return [T("id", "Ordering")]
        if k == "unit":
            return [T("p", "("), T("p", ")")]
        if k == "str":
            return [T("id", "str")]
        if k == "other":
            return [T("id", ty[1])]
        if k == "named":
            return [T("id", ty[1])]
        if k in ("opt", "res", "vec", "deque", "bset"):
            nm = {"opt": "Option", "res": "Result", "vec": "Vec", "deque": "VecDeque", "bset": "BTreeSet"}[k]
            return [T("id", nm), T("p", "<")] + self.type_toks(ty[1], pos) + [T("p", ">")]
        if k == "slice":
            return [T("p", "[")] + self.type_toks(ty[1], pos) + [T("p", "]")]
        if k == "array":
            return [T("p", "[")] + self.type_toks(ty[1], pos) + [T("p", ";"), Tok("num", ty[2], pos), T("p", "]")]
        if k == "tuple":
            out = [T("p", "(")]
            for i, x in enumerate(ty[1]):
                out += self.type_toks(x, pos) + [T("p", ",")]
            return out + [T("p", ")")]
        if k == "btree":
            return [T("id", "BTreeMap"), T("p", "<")] + self.type_toks(ty[1], pos) + [T("p", ",")] + self.type_toks(ty[2], pos) + [T("p", ">")]
        raise Unsupported("type `%s` in a signature" % tystr4(ty))

    # -- patterns
    def norm_pattern(self, pat, ty):
        """struct-like variant patterns -> positional constructor patterns"""
        if pat.kind == "p_struct":
            en = self.impl if pat.path[0] == "Self" else pat.path[0]
            names = getattr(self.w, "variant_fields", {}).get((en, pat.path[-1]))
            if len(pat.path) != 2 or names is None:
                raise Unsupported("struct pattern `%s { .. }`" % "::".join(pat.path))
            given = dict(pat.fields)
            if len(given) != len(pat.fields) or any(f not in names for f in given):
                raise Unsupported("fields of the pattern `%s { .. }`" % "::".join(pat.path))
            if not pat.rest and set(given) != set(names):
                raise Unsupported("pattern `%s { .. }` does not name every field" % "::".join(pat.path))
            return N("p_ctor", path=pat.path, args=[given.get(f, N("p_wild")) for f in names])
        return pat

    def ctor_pattern(self, pat, ty, top=False):
        pat = self.norm_pattern(pat, ty)
        k = pat.kind
        if k == "p_ctor" and not (pat.path == ["Some"] and ty[0] == "opt"):
            en = self.impl if pat.path[0] == "Self" else pat.path[0]
            if len(pat.path) == 2 and ty == ("named", en) and en in self.w.enums:
                for vn, tys in self.w.enums[en]:
                    if vn == pat.path[1] and len(tys) == len(pat.args) and tys:
                        parts, binds = [], []
                        for q, qt in zip(pat.args, tys):
                            s1, b1 = self.ctor_pattern(q, qt)
                            parts.append(s1); binds += b1
                        names = [n for n, _ in binds]
                        if len(set(names)) != len(names):
                            raise Unsupported("a pattern binds the same name twice")
                        return "(.%s %s)" % (lname(vn), " ".join(parts)), binds
            raise Unsupported("pattern `%s(..)` against %s" % ("::".join(pat.path), tystr4(ty)))
        return FnTr5b.ctor_pattern(self, pat, ty, top)

    # -- `match` on an enum: alternatives may bind the same names (`A(x) | B(x) => ..`)
    def ctl_match(self, e, mode, want, M):
        scrut = e.scrut
        while scrut.kind == "paren":
            scrut = scrut.e
        if scrut.kind != "tuple" and any(a.pat.kind == "p_or" for a in e.arms):
            sty = self.peek_type(scrut)
            if sty is not None and sty[0] == "named" and sty[1] in self.w.enums:
                sl, st, sty = self.ex(scrut)
                branches = []
                for a in e.arms:
                    if a.guard is not None:
                        raise Unsupported("guard on an enum match arm")
                    alts = a.pat.alts if a.pat.kind == "p_or" else [a.pat]
                    pats, binds = [], None
                    for alt in alts:
                        p1, b1 = self.ctor_pattern(alt, sty, top=False)
                        if binds is not None and b1 != binds:
                            raise Unsupported("alternatives of a pattern that bind different names")
                        binds = b1
                        pats.append(p1)
                    branches.append(dict(pat=" | ".join(pats), binds=binds or [], body=a.body))
                return self.finish_ctl(("match", [st]), sl, branches, mode, want, M)
        return FnTr5b.ctl_match(self, e, mode, want, M)

    # -- expressions
    def enum_derives(self, en, trait):
        return trait in getattr(self.w, "derives", {}).get(en, [])

    def unit_variant_of(self, e):
        """(enum, variant) when `e` is a path naming a unit variant of a translated enum"""
        x = strip(e)
        if x.kind == "path" and len(x.segs) == 2:
            en = self.impl if x.segs[0] == "Self" else x.segs[0]
            if en in self.w.enums and self.lookup(x.segs[0]) is None:
                for vn, tys in self.w.enums[en]:
                    if vn == x.segs[1] and not tys:
                        return en, vn
        return None

    def ex_bin(self, e, want):
        if e.op in ("==", "!="):
            # `x == Enum::UnitVariant` with the derived `PartialEq`: equal discriminants, nothing else to compare
            for a, b in ((e.l, e.r), (e.r, e.l)):
                uv = self.unit_variant_of(b)
                if uv is not None and self.unit_variant_of(a) is None:
                    en, vn = uv
                    ty = self.peek_type(a)
                    if ty == ("named", en):
                        if not self.enum_derives(en, "PartialEq"):
                            raise Unsupported("`==` on `%s`, which does not derive PartialEq" % en)
                        ls, t, _ = self.ex(a, ty)
                        term = "(match %s with | .%s => true | _ => false)" % (t, lname(vn))
                        return ls, term if e.op == "==" else "(!%s)" % term, ("bool",)
        return FnTr5b.ex_bin(self, e, want)

    def ex0(self, e, want):
        k = e.kind
        if k == "macro" and e.name == "unreachable":
            toks = list(e.toks)
            if len(toks) == 1 and toks[0].k == "str":
                msg = "internal error: entered unreachable code: " + R2.rust_str_bytes(toks[0].v).decode("utf-8")
            elif not toks:
                msg = "internal error: entered unreachable code"
            else:
                raise Unsupported("unreachable! with format arguments")
            return ["Ctl.ret (.panic %s)" % R2.lean_str_lit(msg.encode("utf-8"))], "()", ("never",)
        if k == "macro" and e.name == "matches":
            p = Parser6(list(e.toks) + [Tok("eof", None, 0)])
            scrut = p.parse_expr()
            p.expectp(",")
            pat = p.parse_pattern()
            if not p.isid("if"):
                p.eatp(",")
                sty = self.peek_type(scrut) if p.peek().k == "eof" else None
                if sty is not None and sty[0] == "named" and sty[1] in self.w.enums:
                    ls, t, sty = self.ex(scrut)
                    alts = pat.alts if pat.kind == "p_or" else [pat]
                    pats = []
                    for alt in alts:
                        p1, b1 = self.ctor_pattern(alt, sty)
                        if b1:
                            raise Unsupported("binding inside matches!")
                        pats.append(p1)
                    return ls, "(match %s with | %s => true | _ => false)" % (t, " | ".join(pats)), ("bool",)
        if k == "text_effect":
            # the text branch in statement position: the final values of the `&mut` parameters, or its error
            names = [lname(m) for m in self.mutparams]
            pat = names[0] if len(names) == 1 else "(" + ", ".join(names) + ")"
            return ["let %s ← Ctl.ofRes text__" % pat], "()", ("unit",)
        if k == "skipped":
            ls, t, ty = self.ex(e.e)
            if ty is None or ty[0] not in ("vec", "slice", "deque", "array") or is_bytes(ty):
                raise Unsupported("`.iter().skip(n)` on %s" % tystr4(ty))
            l1, t1, _ = self.ex(e.n, ("int", "usize"))
            return ls + l1, "(Rs.skip %s %s)" % (self.atom(t), self.atom(t1)), ty
        if k == "index":
            rty = self.peek_type(e.e)
            if rty is not None and rty[0] in ("vec", "slice", "deque", "array") and not is_bytes(rty) and e.idx.kind != "range" \
                    and self.concrete(rty):
                ls, t, _ = self.ex(e.e)
                il, it, _ = self.ex(e.idx, ("int", "usize"))
                ls, r = self.call_res(ls + il, "Rs.indexVec %s %s" % (self.atom(t), self.atom(it)))
                return ls, r, rty[1]
        return FnTr5b.ex0(self, e, want)

    def pure_closure(self, c, arg_ty, want):
        # `|x| { <expr> }`: a block that is only an expression is that expression
        if c.kind == "closure":
            b = c.body
            while b.kind in ("block", "paren") and (b.kind == "paren" or (not b.stmts and b.tail is not None)):
                b = b.e if b.kind == "paren" else b.tail
            c = N("closure", params=c.params, body=b)
        return FnTr5b.pure_closure(self, c, arg_ty, want)

    def nom_parser(self, e):
        """a nom parser expression -> (Lean term of type `Bytes → Res (Bytes × α)`, α)"""
        if e.kind == "path" and e.segs == ["be_u32"] and self.lookup("be_u32") is None:
            return "Rs.nomBeU32", ("int", "u32")
        if e.kind == "path" and len(e.segs) == 1 and self.lookup(e.segs[0]) is None:
            sig = self.find_sig(None, e.segs[0])
            if sig is not None and sig.get("nom") and len(sig["params"]) == 1 and is_bytes(sig["params"][0][1]):
                return sig["lean"], sig["ret"][1][1][1]
        if e.kind == "call" and e.f.kind == "path" and self.lookup(e.f.segs[0]) is None:
            name, args = e.f.segs, e.args
            if name == ["map"] and len(args) == 2:
                p, pty = self.nom_parser(args[0])
                fn, rty = self.pure_closure(args[1], pty, None)
                self.need_concrete(rty)
                return "(Rs.nomMap %s %s)" % (p, fn), rty
            if name == ["count"] and len(args) == 2:
                p, pty = self.nom_parser(args[0])
                ls, t, _ = self.ex(args[1], ("int", "usize"))
                if ls:
                    raise Unsupported("effectful argument of a nom combinator")
                return "(Rs.nomCount %s %s)" % (p, self.atom(t)), ("vec", pty)
            if name == ["take"] and len(args) == 1:
                ls, t, _ = self.ex(args[0], ("int", "usize"))
                if ls:
                    raise Unsupported("effectful argument of a nom combinator")
                return "(Rs.nomTake %s)" % self.atom(t), ("slice", U8)
        raise Unsupported("nom parser expression not in the subset (only `be_u32`, `map`, `count`, `take`, translated readers)")

    def ex_call(self, e, want):
        f = e.f
        if f.kind == "call" and f.f.kind == "path" and len(f.f.segs) == 1 and f.f.segs[0] in NOM_COMBINATORS \
                and self.lookup(f.f.segs[0]) is None and len(e.args) == 1:
            p, pty = self.nom_parser(f)
            ls, t, ty = self.ex(e.args[0])
            if not is_bytes(ty):
                raise Unsupported("nom parser applied to %s" % tystr4(ty))
            return ls, "(%s %s)" % (p[1:-1] if p.startswith("(") else p, self.atom(t)), ("res", ("tuple", (("slice", U8), pty)))
        return FnTr5b.ex_call(self, e, want)

    def ex_try(self, e, want):
        inner = e.e
        if inner.kind == "mcall" and inner.name == "write_u32":
            if len(inner.args) != 1 or getattr(inner, "fish", None) != ["BigEndian"]:
                raise Unsupported("only `write_u32::<BigEndian>(x)` is in the subset")
            pl = self.byte_place(inner.recv, "write_u32")
            if pl[2][0] != "vec":
                raise Unsupported("write_u32 on %s (only a `Vec<u8>`: it cannot fail)" % tystr4(pl[2]))
            if self.ret[0] != "res":
                raise Unsupported("`?` in a function that does not return Result")
            ls, t, _ = self.ex(inner.args[0], ("int", "u32"))
            return ls + self.place_store(pl, "(Rs.writeU32BE %s %s)" % (self.place_term(pl), self.atom(t))), "()", ("unit",)
        if inner.kind == "call":
            sig = self.callee_sig(inner)
            if sig is not None and sig.get("nom"):
                err = getattr(self.w, "nom_error", None)
                if not err:
                    raise Unsupported("no `impl From<nom::Err<..>> for Error` found in src/error.rs")
                if self.ret[0] != "res":
                    raise Unsupported("`?` in a function that does not return Result")
                ls, t, ty = self.ex(inner)
                ls, r = self.call_res(ls, "Rs.mapErr %s \"%s\"" % (self.atom(t), err))
                return ls, r, ty[1]
        return FnTr5b.ex_try(self, e, want)

    def ex_mcall(self, e, want):
        name, args, recv = e.name, e.args, e.recv
        while recv.kind == "paren":
            recv = recv.e
        if name == "expect" and len(args) == 1 and args[0].kind == "lit_other" and args[0].what == "str":
            inner = recv
            if not (inner.kind == "mcall" and inner.name in ("pop_front", "write_u32")):
                ls, t, ty = self.ex(recv, ("opt", want) if want is not None else None)
                if ty[0] != "opt":
                    raise Unsupported("`.expect()` on %s" % tystr4(ty))
                msg = R2.lean_str_lit(R2.rust_str_bytes(args[0].text))
                ls, r = self.call_res(ls, "Rs.expect %s %s" % (self.atom(t), msg))
                return ls, r, ty[1]
        if name == "first" and not args:
            rty = self.peek_type(recv)
            if rty is not None and rty[0] in ("vec", "slice", "deque", "array") and not is_bytes(rty):
                ls, t, _ = self.ex(recv)
                return ls, "(Rs.firstOf %s)" % self.atom(t), ("opt", rty[1])
        if name == "pop_front" and not args:
            r0 = strip(recv)
            if r0.kind == "path" and len(r0.segs) == 1:
                pl = self.place_of(r0)
                if pl[0] == "var" and pl[2][0] == "deque" and self.concrete(pl[2]):
                    x, q = self.fresh(), lname(pl[1])
                    return ["let (%s, %s) := Rs.popFrontOpt %s" % (x, q, q)], x, ("opt", pl[2][1])
        return FnTr5b.ex_mcall(self, e, want)

    CONTAINER_NEW = dict(FnTr4.CONTAINER_NEW)
    CONTAINER_NEW[("Vec", "with_capacity")] = "vec"
    CONTAINER_NEW[("Vec", "new")] = "vec"

    def tr_mutcall(self, e):
        pl = self.place_of(e.recv)
        ty, name, args = pl[2], e.name, e.args
        cur = self.place_term(pl)
        if ty[0] == "vec" and ty[1][0] == "hole":
            if name == "push" and len(args) == 1:
                self.hole_found(ty[1], args[0])
            if name == "extend_from_slice" and len(args) == 1:
                raise FoundHole(ty[1][1], U8)
            if name == "append" and len(args) == 1:
                aty = self.peek_type(strip(args[0]))
                if aty is not None and aty[0] == "vec" and self.concrete(aty):
                    raise FoundHole(ty[1][1], aty[1])
        if name == "append" and len(args) == 1 and ty[0] == "vec" and not is_bytes(ty):
            a = strip(args[0])
            if not (a.kind == "path" and len(a.segs) == 1 and self.lookup(a.segs[0]) is not None):
                raise Unsupported("`.append(&mut <local>)` only")
            aty = self.lookup(a.segs[0])
            self.unify(ty, aty, "`.append()` argument")
            return self.place_store(pl, "(Rs.vecAppend %s %s)" % (cur, lname(a.segs[0]))) + ["let %s : %s := []" % (lname(a.segs[0]), self.lt(aty))]
        if name == "truncate" and len(args) == 1 and ty[0] in ("deque", "vec") and not is_bytes(ty):
            ls, t, _ = self.ex(args[0], ("int", "usize"))
            return ls + self.place_store(pl, "(Rs.truncate %s %s)" % (cur, self.atom(t)))
        return FnTr5b.tr_mutcall(self, e)

    # -- the text-branch plumbing of phase 5b is keyed by function NAMES of functions.rs (`compare`, `contains`): off here
    def split_text_branch(self, body):
        return FnTr4.split_text_branch(self, body)

    def translate0(self):
        if self.name in TEXT_IFELSE6 and self.impl is None:
            return self.translate_ifelse()
        return FnTr4.translate0(self)

    def tail(self, e):
        if e is not None and e.kind == "path" and e.segs == ["text__"] and getattr(self, "ifelse_text", False):
            return ["Ctl.ret text__"]
        return FnTr4.tail(self, e)

    # -- `if !is_jsonb(value) { <text branch> } else { <jsonb branch> }` (TEXT_IFELSE6)
    def split_ifelse(self, body):
        """the text branch of the one sniffing `if .. else ..` becomes a use of the parameter `text__`"""
        hits = []

        def is_target(e):
            return e is not None and e.kind == "if" and e.els is not None and e.els.kind == "block" and self.is_plain_sniff6(e.cond)
        for i, s0 in enumerate(body.stmts):
            if s0.kind == "expr" and is_target(s0.e):
                hits.append(("stmt", i))
        if is_target(body.tail):
            hits.append(("tail", None))
        if len(hits) != 1:
            raise Unsupported("expected one `if !is_jsonb(<parameter>) { <text branch> } else { <jsonb branch> }`")
        kind, i = hits[0]
        if kind == "tail":
            e = body.tail
            if self.mutparams:
                raise Unsupported("a text branch in tail position of a function with `&mut` parameters")
            then = N("block", stmts=[], tail=N("path", segs=["text__"]))
            return N("block", stmts=body.stmts, tail=N("if", cond=e.cond, then=then, els=e.els))
        e = body.stmts[i].e
        if self.ret_value_type() != ("unit",) or not self.mutparams or self.ret[0] != "res":
            raise Unsupported("a text branch in statement position: only in a `Result<(), _>` function with `&mut` parameters")
        then = N("block", stmts=[N("expr", e=N("text_effect"), semi=True)], tail=None)
        s1 = N("expr", e=N("if", cond=e.cond, then=then, els=e.els), semi=False)
        return N("block", stmts=body.stmts[:i] + [s1] + body.stmts[i + 1:], tail=body.tail)

    def is_plain_sniff6(self, c):
        """`!is_jsonb(p)` for a parameter `p` of this function that is not `&mut`"""
        while c.kind == "paren":
            c = c.e
        if not (c.kind == "un" and c.op == "!" and c.e.kind == "call" and c.e.f.kind == "path"
                and c.e.f.segs == ["is_jsonb"] and len(c.e.args) == 1):
            return False
        a = strip(c.e.args[0])
        return a.kind == "path" and len(a.segs) == 1 and a.segs[0] in [n for n, _ in self.params] \
            and a.segs[0] not in self.mutparams

    def translate_ifelse(self):
        p = self.body_parser
        body = p.parse_block()
        if p.peek().k != "eof":
            raise Unsupported("tokens after the function body")
        body = self.split_ifelse(body)
        self.ifelse_text = True
        self.scopes = []
        self.push()
        binders = []
        for n, t in self.params:
            self.bind(n, t)
            binders.append("(%s : %s)" % (lname(n), self.lt(t)))
        if self.ret[0] != "res":
            raise Unsupported("text branch in a function that does not return Result")
        self.scopes[-1]["text__"] = self.ret
        self.text_param = "text__"
        binders.append("(text__ : Res %s)" % self.lean_ret())
        lines, _, _, _ = self.tr_block(body, "tail", None)
        out = []
        for a in self.aux_defs:
            out += a + [""]
        if self.uses_fuel:
            binders = ["(fuel : Nat)"] + binders
        head = "def %s %s: Res %s := Ctl.run do" % (self.lean, "".join(x + " " for x in binders), self.lean_ret())
        return out, [head] + ind(lines)

    # -- `for x in v.iter().skip(n)`
    def tr_loop(self, e):
        if e.kind == "for":
            it = e.iter
            while it.kind in ("paren", "ref"):
                it = it.e
            if it.kind == "mcall" and it.name == "skip" and len(it.args) == 1:
                inner = it.recv
                while inner.kind == "paren":
                    inner = inner.e
                if inner.kind == "mcall" and inner.name == "iter" and not inner.args:
                    e = N("for", pat=e.pat, iter=N("skipped", e=inner.recv, n=it.args[0]), body=e.body)
        return FnTr5b.tr_loop(self, e)

    # -- assigned outer variables: rs2lean4's analysis plus `Type::f(.., p, ..)` / `Self::f(..)` calls whose callee has
    # `&mut` parameters, `.append(&mut w)` arguments, and struct-like patterns
    def assigned(self, node):
        base = FnTr5b.assigned(self, node)
        out = list(base)

        def pat_names(p, acc):
            if p is None:
                return
            if p.kind == "p_path" and len(p.path) == 1:
                acc.add(p.path[0])
            elif p.kind == "p_bind":
                acc.add(p.name); pat_names(p.sub, acc)
            elif p.kind == "p_tuple":
                for q in p.items:
                    pat_names(q, acc)
            elif p.kind == "p_ctor":
                for q in p.args:
                    pat_names(q, acc)
            elif p.kind == "p_or":
                for q in p.alts:
                    pat_names(q, acc)
            elif p.kind == "p_struct":
                for _, q in p.fields:
                    pat_names(q, acc)

        def hit(v, declared):
            if v is not None and v not in declared and v not in out and v not in self.deferred and self.lookup(v) is not None:
                out.append(v)

        def walk(x, declared):
            if isinstance(x, (list, tuple)):
                for y in x:
                    walk(y, declared)
                return
            if not isinstance(x, N):
                return
            k = x.kind
            if k == "block":
                d = set(declared)
                for s in x.stmts:
                    if s.kind == "let":
                        walk(s.init, d)
                        pat_names(s.pat, d)
                    else:
                        walk(s.e, d)
                walk(x.tail, d)
                return
            if k == "call" and x.f.kind == "path" and len(x.f.segs) == 2:
                sig = self.find_sig(self.impl if x.f.segs[0] == "Self" else x.f.segs[0], x.f.segs[1])
                if sig:
                    self.walk_call_args(sig, x.args, 0, hit, declared)
            if k == "mcall" and x.name == "append":
                for a in x.args:
                    hit(self.mutated_root(a), declared)
            if k == "text_effect":
                for m in self.mutparams:
                    hit(m, declared)
            if k == "match":
                walk(x.scrut, declared)
                for a in x.arms:
                    d = set(declared)
                    pat_names(a.pat, d)
                    walk(a.guard, d)
                    walk(a.body, d)
                return
            if k == "iflet":
                walk(x.scrut, declared)
                d = set(declared)
                pat_names(x.pat, d)
                walk(x.then, d)
                walk(x.els, declared)
                return
            if k in ("for", "whilelet"):
                walk(x.iter if k == "for" else x.scrut, declared)
                d = set(declared)
                pat_names(x.pat, d)
                walk(x.body, d)
                return
            for kk, v in x.__dict__.items():
                if kk not in ("kind", "toks"):
                    walk(v, declared)

        walk(node, set())
        return out


# ----------------------------------------------------------------------------- driver

HEADER = """-- GENERATED by tools/rs2lean6a.py from the Rust sources of the crate (src/*.rs); do not edit.
-- Phase 6a: the JSONPath selector (src/jsonpath/selector.rs) and the AST types of src/jsonpath/path.rs.  One block per
-- translated declaration, function or recursive group (hoisted loop bodies `<fn>.loop<k>` first).  The meaning of every
-- `Rs.*` / `Ctl.*` name is in JsonbModel/RustPrelude.lean … RustPrelude5b.lean and RustPrelude6a.lean; the agreement
-- theorems are in Proofs/TranslatedAgreeG*.lean.
import JsonbModel.Generated.Translated4
import JsonbModel.RustPrelude6a

set_option linter.unusedVariables false

namespace Jsonb.Tr
open Jsonb.Rs (Ctl)
"""
FOOTER = "end Jsonb.Tr\n"


def translate_fn6(world, file, impl, trait, name, lean, it, group):
    """as rs2lean4.translate_fn4, with the phase-6a function translator"""
    orig = R4.FnTr4
    R4.FnTr4 = FnTr6
    try:
        return R4.translate_fn4(world, file, impl, trait, name, lean, it, group)
    finally:
        R4.FnTr4 = orig


def key_of(file, impl, name):
    return "%s::%s%s" % (file, (impl + "::") if impl else "", name)


def generate(repo, prev_text):
    world = R5b.phase4_world(repo)
    world.nom_error = load_nom_error(world)
    status = {}
    blocks = []
    prev = {m.group(1): m.group(2) for m in R.BLOCK_RE.finditer(prev_text or "")}

    def guarded(key, fn):
        try:
            r = fn()
            status[key] = "translated" if r is not None else "missing"
            return r
        except Unsupported as e:
            status[key] = "unsupported: %s" % e
        except RecursionError:
            status[key] = "unsupported: expression too deeply nested"
        except Exception as e:
            status[key] = "unsupported: translator error (%s: %s)" % (type(e).__name__, e)
        return None

    funcs = [x[1:] for x in ITEMS6A if x[0] == "fn"]

    def find_hits(file, impl, trait, name):
        hits = world.find(file, "fn", name, impl, trait)
        if len(hits) > 1 and (file, impl, name) in SELECT:
            def sigtext(it_):
                out = []
                for t in it_["toks"]:
                    if t.k == "p" and t.v == "{":
                        break
                    out.append(str(t.v))
                return " ".join(out)
            hits = [h for h in hits if re.search(SELECT[(file, impl, name)], sigtext(h))]
        return hits

    items = {}

    def register_sig(file, impl, trait, name, lean, group):
        key = key_of(file, impl, name)
        hits = find_hits(file, impl, trait, name)
        if not hits:
            status[key] = ("unsupported: cannot read %s: %s" % (file, world.file_errors[file])) if file in world.file_errors else "missing"
            return
        if len(hits) > 1:
            status[key] = "unsupported: defined more than once"
            return

        def sig_of():
            tr = FnTr6(world, file, impl, trait, name, hits[0], lean, None, group)
            ptys = [lean_type4(t, world) for _, t in tr.params]
            lean_type4(tr.ret_value_type(), world)
            world.sigs[(file, impl, name)] = dict(
                params=list(tr.params), ret=tr.ret, lean=lean, writer=None, mut=list(tr.mutparams), name=name, group=group,
                trait=trait, fuel=(True if group is not None else None), holder=None, nom=tr.is_nom,
                lean_fn=" → ".join(ptys + ["Res %s" % tr.lean_ret()]))
            if impl is None:
                world.sigs_names.add(name)
            return hits[0]
        it = guarded(key, sig_of)
        if it is not None:
            items[key] = it

    done_groups = set()
    sigs_done = False
    for item in ITEMS6A:
        kind = item[0]
        if kind in ("enum", "struct"):
            _, file, name = item
            key = "%s::%s %s" % (file, kind, name)
            lines = guarded(key, (lambda: emit_enum6(world, file, name)) if kind == "enum" else (lambda: emit_struct6(world, file, name)))
            blocks.append((key, lines))
            continue
        if kind == "typegroup":
            _, file, members = item
            key = "%s::types %s" % (file, ", ".join(n for _, n in members))
            lines = guarded(key, lambda: emit_typegroup6(world, file, members))
            blocks.append((key, lines))
            continue
        if kind == "derive_partial_ord":
            _, file, name = item
            key = "%s::derive(PartialOrd) for %s" % (file, name)
            lines = guarded(key, lambda: emit_derive_partial_ord6(world, file, name))
            blocks.append((key, lines))
            continue
        # functions: the signatures of all of them are registered when the first one is reached (all types are known then)
        if not sigs_done:
            sigs_done = True
            for f in funcs:
                register_sig(*f)
        _, file, impl, trait, name, lean, group = item
        key = key_of(file, impl, name)
        if group is None:
            lines = None
            if key in items:
                def one():
                    aux, body, uses = translate_fn6(world, file, impl, trait, name, lean, items[key], None)
                    world.sigs[(file, impl, name)]["fuel"] = bool(uses)
                    return aux + body
                lines = guarded(key, one)
            if lines is None and (file, impl, name) in world.sigs:
                pb = prev.get(key, "")
                world.sigs[(file, impl, name)]["fuel"] = bool(re.search(r"^def %s \(fuel : Nat\)" % re.escape(lean), pb, re.M))
            blocks.append((key, lines))
            continue
        if group in done_groups:
            continue
        done_groups.add(group)
        members = [f for f in funcs if f[5] == group]
        gkey = "%s::group %s (%s)" % (members[0][0], group, ", ".join(m[3] if m[1] is None else "%s::%s" % (m[1], m[3]) for m in members))
        auxs, defs, good = [], [], True
        for mfile, mimpl, mtrait, mname, mlean, _ in members:
            mkey = key_of(mfile, mimpl, mname)
            if mkey not in items:
                good = False
                continue

            def one():
                aux, body, _ = translate_fn6(world, mfile, mimpl, mtrait, mname, mlean, items[mkey], group)
                return aux, body
            r = guarded(mkey, one)
            if r is None:
                good = False
            else:
                auxs += r[0]
                defs += r[1]
        if good:
            status[gkey] = "translated"
            blocks.append((gkey, auxs + ["mutual"] + defs + ["end"]))
        else:
            status[gkey] = "unsupported: a member of the group is not translated"
            blocks.append((gkey, None))
    out = [HEADER]
    ok = True
    for key, lines in blocks:
        out.append("-- BEGIN %s\n" % key)
        if lines is not None:
            out.append("\n".join(lines) + "\n")
        else:
            ok = False
            if key in prev:
                out.append(prev[key])
                status[key] += " (kept the previously generated block)"
            else:
                out.append("-- (no translation available)\n")
        out.append("-- END %s\n\n" % key)
    out.append(FOOTER)
    ok = ok and all(v == "translated" for v in status.values())
    return "".join(out), status, ok


def main(argv):
    to_stdout = "--stdout" in argv
    try:
        prev_text = open(PREV, encoding="utf-8").read()
    except OSError:
        prev_text = ""
    text, status, ok = generate(REPO, prev_text)
    if to_stdout:
        sys.stdout.write(text)
        return 0
    try:
        old = open(OUT, encoding="utf-8").read()
    except OSError:
        old = None
    changed = False
    if old != text:
        changed = True
        os.makedirs(os.path.dirname(OUT), exist_ok=True)
        tmp_out = OUT + ".tmp%d" % os.getpid()
        with open(tmp_out, "w", encoding="utf-8") as f:
            f.write(text)
        os.replace(tmp_out, OUT)
    print(json.dumps({"ok": ok, "functions": status, "changed": changed}))
    return 0


if __name__ == "__main__":
    sys.exit(main(sys.argv[1:]))
