#!/bin/sh
# Build the framework from files on disk only (offline): Lean model + proofs + driver, Rust harness.
set -e
cd "$(dirname "$0")"
export CARGO_NET_OFFLINE=true
python3 tools/gen_constants.py
python3 tools/rs2lean.py > /dev/null
python3 tools/rs2lean2.py > /dev/null
python3 tools/rs2lean3.py > /dev/null
python3 tools/rs2lean4.py > /dev/null
python3 tools/rs2lean5a.py > /dev/null
python3 tools/rs2lean5b.py > /dev/null
python3 tools/rs2lean6a.py > /dev/null
python3 tools/rs2lean6b.py > /dev/null
python3 tools/rs2lean6c.py > /dev/null
python3 tools/rs2lean6d.py > /dev/null
python3 tools/rs2lean7.py > /dev/null
(cd lean && lake build JsonbModel jvmodel JsonbModel.Proofs.TranslatedAgree JsonbModel.Proofs.TranslatedAgreeB JsonbModel.Proofs.TranslatedAgreeC JsonbModel.Proofs.TranslatedAgreeD JsonbModel.Proofs.TranslatedAgreeE JsonbModel.Proofs.TranslatedAgreeF JsonbModel.Proofs.TranslatedAgreeG JsonbModel.Proofs.TranslatedAgreeH JsonbModel.Proofs.TranslatedAgreeI JsonbModel.Proofs.TranslatedAgreeJ JsonbModel.Proofs.TranslatedAgreeJ8 JsonbModel.Proofs.TranslatedAgreeK JsonbModel.Proofs.PathEscapes JsonbModel.Proofs.PathArith $(for i in 01 02 03 04 05 06 07 08 09 10 11 12 13 14 15 16 17 18 19 20; do echo JsonbModel.Props.C$i; done))
(cd harness && cargo build --offline)
echo setup-ok
