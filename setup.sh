#!/bin/sh
# Build the framework from files on disk only (offline): Lean model + proofs + driver, Rust harness.
set -e
cd "$(dirname "$0")"
export CARGO_NET_OFFLINE=true
python3 tools/gen_constants.py
(cd lean && lake build JsonbModel jvmodel)
(cd harness && cargo build --offline)
echo setup-ok
