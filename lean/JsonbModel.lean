import JsonbModel.Generated.Constants
import JsonbModel.Base
import JsonbModel.Num
import JsonbModel.Value
import JsonbModel.Utf8
import JsonbModel.De
