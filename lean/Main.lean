import JsonbModel.Driver.Ops

partial def loop (hin : IO.FS.Stream) (hout : IO.FS.Stream) : IO Unit := do
  let line ← hin.getLine
  if line.isEmpty then return ()
  hout.putStrLn (Jsonb.Driver.step line)
  loop hin hout

def main : IO Unit := do
  let hin ← IO.getStdin
  let hout ← IO.getStdout
  loop hin hout
  hout.flush
