/-
UTF-8 well-formedness (RFC 3629 / Unicode Table 3-7), the predicate Rust's
`std::str::from_utf8` decides.
-/
import JsonbModel.Base

namespace Jsonb

@[inline] def isCont (b : UInt8) : Bool := 0x80 ≤ b && b ≤ 0xBF

def validUtf8 : Bytes → Bool
  | [] => true
  | b0 :: rest =>
    if b0 < 0x80 then validUtf8 rest
    else if 0xC2 ≤ b0 && b0 ≤ 0xDF then
      match rest with
      | b1 :: r => isCont b1 && validUtf8 r
      | _ => false
    else if b0 == 0xE0 then
      match rest with
      | b1 :: b2 :: r => (0xA0 ≤ b1 && b1 ≤ 0xBF) && isCont b2 && validUtf8 r
      | _ => false
    else if (0xE1 ≤ b0 && b0 ≤ 0xEC) || b0 == 0xEE || b0 == 0xEF then
      match rest with
      | b1 :: b2 :: r => isCont b1 && isCont b2 && validUtf8 r
      | _ => false
    else if b0 == 0xED then
      match rest with
      | b1 :: b2 :: r => (0x80 ≤ b1 && b1 ≤ 0x9F) && isCont b2 && validUtf8 r
      | _ => false
    else if b0 == 0xF0 then
      match rest with
      | b1 :: b2 :: b3 :: r => (0x90 ≤ b1 && b1 ≤ 0xBF) && isCont b2 && isCont b3 && validUtf8 r
      | _ => false
    else if 0xF1 ≤ b0 && b0 ≤ 0xF3 then
      match rest with
      | b1 :: b2 :: b3 :: r => isCont b1 && isCont b2 && isCont b3 && validUtf8 r
      | _ => false
    else if b0 == 0xF4 then
      match rest with
      | b1 :: b2 :: b3 :: r => (0x80 ≤ b1 && b1 ≤ 0x8F) && isCont b2 && isCont b3 && validUtf8 r
      | _ => false
    else false

end Jsonb
