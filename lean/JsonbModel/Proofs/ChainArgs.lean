/-
C07 (chains of operations), part 1: resolving document-valued arguments.

An argument of a chain operation is a literal document, the current document, or a sub-value of
the current document picked by a key path.  The byte side resolves it with `get_by_keypath`; this
file shows that both sides resolve to the same document, and which side conditions make the
resolved document `goodTop` (a whole-document operand) or `good` (a value that gets embedded
into a container, so its own image must fit a 28-bit entry length).
No Mathlib.
-/
import JsonbModel.Chain
import JsonbModel.Proofs.TextEquiv
import JsonbModel.Proofs.AccessDocs
import JsonbModel.Proofs.EditRefine3
import JsonbModel.Proofs.StripRefine
import JsonbModel.Proofs.SetRefine2
import JsonbModel.Proofs.SelectRefine9
import JsonbModel.Proofs.TopLevel
import JsonbModel.Proofs.SerLayout

namespace Jsonb
open JV

/-! ### both sides resolve an argument to the same document -/

theorem argOf_refines (v : JV) (hg : goodTop v = true) (a : Arg JV) :
    Fn.argOf (encodeSpec v) (a.map encodeSpec) = .ok ((Spec.argOf v a).map encodeSpec) := by
  cases a with
  | lit w => rfl
  | self => rfl
  | sub kp => exact getByKeypath_refines v hg kp

theorem argsOf_refines (v : JV) (hg : goodTop v = true) : ∀ (as : List (Arg JV)),
    Fn.argsOf (encodeSpec v) (as.map (Arg.map encodeSpec))
      = .ok ((Spec.argsOf v as).map (fun ws => ws.map encodeSpec))
  | [] => rfl
  | a :: as => by
    simp only [List.map_cons, Fn.argsOf, Spec.argsOf, argOf_refines v hg a, argsOf_refines v hg as]
    cases Spec.argOf v a with
    | none => rfl
    | some w =>
      cases Spec.argsOf v as with
      | none => rfl
      | some ws => rfl

theorem kargsOf_refines (v : JV) (hg : goodTop v = true) : ∀ (kas : List (Bytes × Arg JV)),
    Fn.kargsOf (encodeSpec v) (kas.map (fun ka => (ka.1, ka.2.map encodeSpec)))
      = .ok ((Spec.kargsOf v kas).map (fun ws => ws.map docMember))
  | [] => rfl
  | (k, a) :: kas => by
    simp only [List.map_cons, Fn.kargsOf, Spec.kargsOf, argOf_refines v hg a, kargsOf_refines v hg kas]
    cases Spec.argOf v a with
    | none => rfl
    | some w =>
      cases Spec.kargsOf v kas with
      | none => rfl
      | some ws => rfl

/-- `withArg` on the byte side = case distinction on the tree-side argument -/
theorem withArg_refines (v : JV) (hg : goodTop v = true) (a : Arg JV) (f : Bytes → Res (Option Bytes)) :
    Fn.withArg (encodeSpec v) (a.map encodeSpec) f
      = match Spec.argOf v a with
        | some w => f (encodeSpec w)
        | none => .ok none := by
  simp only [Fn.withArg, argOf_refines v hg a]
  cases Spec.argOf v a <;> rfl

/-! ### side conditions on arguments -/

/-- the argument is used as a whole document (operand of `concat`): a literal must be a
canonical document; the current document and its sub-values always are -/
def ArgTop : Arg JV → Prop
  | .lit w => goodTop w = true
  | .self => True
  | .sub _ => True

/-- the argument gets embedded as an element / member value: its image must fit an entry
(`good`).  Proper sub-values of the current document always do; the current document itself
(`self`, or the empty key path) only when it is itself below 2^28 bytes. -/
def ArgEmb (v : JV) : Arg JV → Prop
  | .lit w => good w = true
  | .self => good v = true
  | .sub kp => kp = [] → good v = true

/-- operand of a set function: it is taken as a list of elements (`Spec.elems`: the elements of
an array, otherwise the document itself as one element) -/
def ArgSet : Arg JV → Prop
  | .lit w => goodTop w = true ∧ goodL (Spec.elems w) = true
  | .self => True
  | .sub _ => True

theorem goodL_elems_of_good (w : JV) (h : good w = true) : goodL (Spec.elems w) = true := by
  cases w with
  | arr vs => exact (good_arr_parts vs h).2
  | _ => simp [Spec.elems, goodL, h]

theorem argOf_goodTop {v : JV} (hg : goodTop v = true) {a : Arg JV} (ha : ArgTop a) {w : JV}
    (hw : Spec.argOf v a = some w) : goodTop w = true := by
  cases a with
  | lit w' => simp only [Spec.argOf, Option.some.injEq] at hw; subst hw; exact ha
  | self => simp only [Spec.argOf, Option.some.injEq] at hw; subst hw; exact hg
  | sub kp =>
    rcases spec_getByKeypath_good kp v hg w hw with ⟨_, rfl⟩ | h
    · exact hg
    · exact good_goodTop w h

theorem argOf_good {v : JV} (hg : goodTop v = true) {a : Arg JV} (ha : ArgEmb v a) {w : JV}
    (hw : Spec.argOf v a = some w) : good w = true := by
  cases a with
  | lit w' => simp only [Spec.argOf, Option.some.injEq] at hw; subst hw; exact ha
  | self => simp only [Spec.argOf, Option.some.injEq] at hw; subst hw; exact ha
  | sub kp =>
    rcases spec_getByKeypath_good kp v hg w hw with ⟨hk, rfl⟩ | h
    · exact ha hk
    · exact h

theorem argOf_set {v : JV} (hg : goodTop v = true) (hev : goodL (Spec.elems v) = true) {a : Arg JV}
    (ha : ArgSet a) {w : JV} (hw : Spec.argOf v a = some w) :
    goodTop w = true ∧ goodL (Spec.elems w) = true := by
  cases a with
  | lit w' => simp only [Spec.argOf, Option.some.injEq] at hw; subst hw; exact ha
  | self => simp only [Spec.argOf, Option.some.injEq] at hw; subst hw; exact ⟨hg, hev⟩
  | sub kp =>
    rcases spec_getByKeypath_good kp v hg w hw with ⟨_, rfl⟩ | h
    · exact ⟨hg, hev⟩
    · exact ⟨good_goodTop w h, goodL_elems_of_good w h⟩

theorem argsOf_goodL {v : JV} (hg : goodTop v = true) : ∀ {as : List (Arg JV)},
    (∀ a ∈ as, ArgEmb v a) → ∀ {ws : List JV}, Spec.argsOf v as = some ws →
      goodL ws = true ∧ ws.length = as.length
  | [], _, ws, h => by
    simp only [Spec.argsOf, Option.some.injEq] at h; subst h; exact ⟨rfl, rfl⟩
  | a :: as, ha, ws, h => by
    simp only [Spec.argsOf] at h
    cases h1 : Spec.argOf v a with
    | none => rw [h1] at h; simp at h
    | some w =>
      cases h2 : Spec.argsOf v as with
      | none => rw [h1, h2] at h; simp at h
      | some ws' =>
        rw [h1, h2] at h
        simp only [Option.some.injEq] at h; subst h
        have ih := argsOf_goodL hg (fun a' ha' => ha a' (List.mem_cons_of_mem _ ha')) h2
        have hgw := argOf_good hg (ha a List.mem_cons_self) h1
        simp only [goodL, Bool.and_eq_true, List.length_cons]
        exact ⟨⟨hgw, ih.1⟩, by rw [ih.2]⟩

theorem kargsOf_goodK {v : JV} (hg : goodTop v = true) : ∀ {kas : List (Bytes × Arg JV)},
    (∀ ka ∈ kas, ka.1.length < 268435456 ∧ validUtf8 ka.1 = true ∧ ArgEmb v ka.2) →
    ∀ {ws : List (Bytes × JV)}, Spec.kargsOf v kas = some ws → goodK ws = true
  | [], _, ws, h => by
    simp only [Spec.kargsOf, Option.some.injEq] at h; subst h; rfl
  | (k, a) :: kas, ha, ws, h => by
    simp only [Spec.kargsOf] at h
    cases h1 : Spec.argOf v a with
    | none => rw [h1] at h; simp at h
    | some w =>
      cases h2 : Spec.kargsOf v kas with
      | none => rw [h1, h2] at h; simp at h
      | some ws' =>
        rw [h1, h2] at h
        simp only [Option.some.injEq] at h; subst h
        have ih := kargsOf_goodK hg (fun a' ha' => ha a' (List.mem_cons_of_mem _ ha')) h2
        have hka := ha (k, a) List.mem_cons_self
        have hgw := argOf_good hg hka.2.2 h1
        simp only [goodK, Bool.and_eq_true, decide_eq_true_eq]
        exact ⟨⟨⟨hka.1, hka.2.1⟩, hgw⟩, ih⟩

end Jsonb
