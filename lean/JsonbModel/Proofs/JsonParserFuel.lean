/-
The fuel of the JSON text parser model is adequate: `parseValue` never returns `.fuel`.
-/
import JsonbModel.Proofs.JsonParserTotal

namespace Jsonb
namespace JP

theorem NF_of_eq_ok {α} {r : Res α} {a : α} (h : r = .ok a) : NF r := by rw [h]; exact NF_ok a

theorem NF_bind' {α β} {x : Res α} {f : α → Res β} (hx : NF x) (hf : ∀ a, x = .ok a → NF (f a)) :
    NF (x >>= f) := by
  cases x with
  | ok a => simpa using hf a rfl
  | err e => simp
  | panic s => simp
  | fuel => exact absurd rfl (by unfold NF at hx; exact hx)

theorem skipUnused_NF (buf : Bytes) (i : Nat) : NF (skipUnused buf i) := by
  obtain ⟨j, e, _⟩ := skipUnused_spec buf i
  exact NF_of_eq_ok e

theorem next_NF (buf : Bytes) (i : Nat) : NF (next buf i) := by unfold next; nf_tac
theorem mustIs_NF (buf : Bytes) (i : Nat) (c : UInt8) : NF (mustIs buf i c) := by unfold mustIs; nf_tac
theorem mustAll_NF (buf : Bytes) (i : Nat) (cs : List UInt8) : NF (mustAll buf i cs) := by
  induction cs generalizing i with
  | nil => simp [mustAll]
  | cons c cs ih =>
    unfold mustAll
    exact NF_bind (mustIs_NF buf i c) (fun j => ih j)

theorem checkNext_NF (buf : Bytes) (i : Nat) (c : UInt8) : NF (checkNext buf i c) :=
  NF_of_eq_ok (checkNext_eq buf i c)
theorem checkNextEither_NF (buf : Bytes) (i : Nat) (c d : UInt8) : NF (checkNextEither buf i c d) :=
  NF_of_eq_ok (checkNextEither_eq buf i c d)
theorem checkDigit_NF (buf : Bytes) (i : Nat) : NF (checkDigit buf i) :=
  NF_of_eq_ok (checkDigit_eq buf i)
theorem stepDigits_NF (buf : Bytes) (i : Nat) : NF (stepDigits buf i) := by
  rcases stepDigits_spec buf i with ⟨e, he⟩ | ⟨j, he, _⟩
  · rw [he]; simp
  · exact NF_of_eq_ok he
theorem slice_NF (s : String) (buf : Bytes) (a b : Nat) : NF (slice s buf a b) := by unfold slice; nf_tac
theorem classifyNumber_NF (s : Bytes) (a b c : Bool) : NF (classifyNumber s a b c) := by
  unfold classifyNumber; nf_tac
theorem lexSign_NF (buf : Bytes) (i : Nat) : NF (lexSign buf i) := by
  unfold lexSign; have := checkNext_NF; nf_tac
theorem lexInt_NF (buf : Bytes) (i : Nat) : NF (lexInt buf i) := by
  unfold lexInt; have := checkNext_NF; have := checkDigit_NF; have := stepDigits_NF; nf_tac
theorem lexFrac_NF (buf : Bytes) (i : Nat) : NF (lexFrac buf i) := by
  unfold lexFrac; have := checkNext_NF; have := stepDigits_NF; nf_tac
theorem lexExp_NF (buf : Bytes) (i : Nat) : NF (lexExp buf i) := by
  unfold lexExp; have := checkNextEither_NF; have := stepDigits_NF; nf_tac
theorem lexNumber_NF (buf : Bytes) (i : Nat) : NF (lexNumber buf i) := by
  unfold lexNumber
  have := lexSign_NF; have := lexInt_NF; have := lexFrac_NF; have := lexExp_NF; nf_tac
theorem parseNumber_NF (buf : Bytes) (i : Nat) : NF (parseNumber buf i) := by
  unfold parseNumber
  have := lexNumber_NF; have := slice_NF; have := classifyNumber_NF; nf_tac
theorem asStrUnwrap_NF (k : JV) : NF (asStrUnwrap k) := by unfold asStrUnwrap; nf_tac

theorem parse_NF (fuel : Nat) (buf : Bytes) :
    (∀ i, 2 * (buf.length - i) + 1 ≤ fuel → NF (parseJsonValue fuel buf i)) ∧
    (∀ i first vals, 2 * (buf.length - i) + 2 ≤ fuel → NF (arrLoop fuel buf i first vals)) ∧
    (∀ i first obj, 2 * (buf.length - i) + 2 ≤ fuel → NF (objLoop fuel buf i first obj)) := by
  induction fuel with
  | zero =>
    refine ⟨fun i h => ?_, fun i _ _ h => ?_, fun i _ _ h => ?_⟩ <;> omega
  | succ fuel ih =>
    obtain ⟨ihv, iha, iho⟩ := ih
    refine ⟨?_, ?_, ?_⟩
    · intro i hf
      simp only [parseJsonValue]
      refine NF_bind' (skipUnused_NF buf i) ?_
      intro i' hi'
      have hi := (skipUnused_Spec buf i).2 i' hi'
      refine NF_bind' (next_NF buf i') ?_
      intro c hc
      have hlt : i' < buf.length := (List.getElem?_eq_some_iff.mp ((next_Spec buf i').2 c hc)).1
      have lit : ∀ (cs : List UInt8) (v : JV),
          NF (mustAll buf i' cs >>= fun idx => (pure (v, idx) : Res (JV × Nat))) :=
        fun cs v => NF_bind (mustAll_NF buf i' cs) (fun _ => NF_pure _)
      split
      · exact lit _ _
      · split
        · exact lit _ _
        · split
          · exact lit _ _
          · split
            · exact parseNumber_NF buf i'
            · split
              · exact (parseJsonString_spec buf i').2.1
              · split
                · refine NF_bind' (mustIs_NF buf i' _) ?_
                  intro j hj
                  obtain ⟨rfl, -⟩ := (mustIs_Spec buf i' _).2 j hj
                  exact iha _ _ _ (by omega)
                · split
                  · refine NF_bind' (mustIs_NF buf i' _) ?_
                    intro j hj
                    obtain ⟨rfl, -⟩ := (mustIs_Spec buf i' _).2 j hj
                    exact iho _ _ _ (by omega)
                  · exact NF_err _
    · intro i first vals hf
      simp only [arrLoop]
      refine NF_bind' (skipUnused_NF buf i) ?_
      intro i' hi'
      have hi := (skipUnused_Spec buf i).2 i' hi'
      refine NF_bind' (next_NF buf i') ?_
      intro c hc
      have hlt : i' < buf.length := (List.getElem?_eq_some_iff.mp ((next_Spec buf i').2 c hc)).1
      split
      · exact NF_pure _
      · split
        · exact NF_err _
        · refine NF_bind' (ihv _ (by split <;> omega)) ?_
          rintro ⟨v, j⟩ hv
          have ha := ((parse_Spec fuel buf).1 _).2 _ hv
          simp only [Adv] at ha
          exact iha _ _ _ (by split at ha <;> omega)
    · intro i first obj hf
      simp only [objLoop]
      refine NF_bind' (skipUnused_NF buf i) ?_
      intro i' hi'
      have hi := (skipUnused_Spec buf i).2 i' hi'
      refine NF_bind' (next_NF buf i') ?_
      intro c hc
      have hlt : i' < buf.length := (List.getElem?_eq_some_iff.mp ((next_Spec buf i').2 c hc)).1
      split
      · exact NF_pure _
      · split
        · exact NF_err _
        · refine NF_bind' (ihv _ (by split <;> omega)) ?_
          rintro ⟨key, j⟩ hk
          have hka := ((parse_Spec fuel buf).1 _).2 _ hk
          simp only [Adv] at hka
          simp only
          split
          · exact NF_err _
          · refine NF_bind' (skipUnused_NF buf j) ?_
            intro j' hj'
            have hjj := (skipUnused_Spec buf j).2 j' hj'
            refine NF_bind' (next_NF buf j') ?_
            intro c2 hc2
            split
            · exact NF_err _
            · refine NF_bind' (ihv _ (by split at hka <;> omega)) ?_
              rintro ⟨v, j2⟩ hv
              have hva := ((parse_Spec fuel buf).1 _).2 _ hv
              simp only [Adv] at hva
              refine NF_bind (asStrUnwrap_NF key) ?_
              intro k
              exact iho _ _ _ (by split at hka <;> omega)

/-- **Fuel adequacy**: the `.fuel` outcome of the model is never returned. -/
theorem _root_.Jsonb.parseValue_fuel (bs : Bytes) : parseValue bs ≠ .fuel := by
  have : NF (parseValue bs) := by
    unfold parseValue
    refine NF_bind ((parse_NF (fuelFor bs) bs).1 0 (by unfold fuelFor; omega)) ?_
    rintro ⟨v, j⟩
    refine NF_bind (skipUnused_NF bs j) ?_
    intro j'
    show NF (if _ then _ else _)
    split
    · exact NF_err _
    · exact NF_pure _
  unfold NF at this
  exact this

end JP
end Jsonb
