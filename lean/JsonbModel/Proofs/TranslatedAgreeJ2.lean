/-
Agreement theorems, phase 6d, part 2: the relation `Agr L h p p'` ("on every input shorter than `L` the translated
parser `p'` answers `h` of what the model parser `p` answers") and its closure under every nom combinator of
`Nom.lean` (naturality of the combinators in the result type).  The translation uses the very same combinator
definitions as the model; the two differ in the types of the syntax trees only (`Tr.Path` for `Path`, …).
-/
import JsonbModel.Proofs.TranslatedAgreeJ1
import JsonbModel.Proofs.NomFine
import JsonbModel.Proofs.TranslatedAgreeBUtf8

set_option linter.unusedSimpArgs false
set_option linter.unusedVariables false

namespace Jsonb.TrAgree
open Jsonb.Nom

/-- the outcome of a parser with its value mapped -/
def mapR {α β : Type} (h : α → β) : PR α → PR β
  | .ok a r => .ok (h a) r
  | .error => .error
  | .failure => .failure
  | .panic s => .panic s
  | .fuel => .fuel

@[simp] theorem mapR_ok {α β : Type} (h : α → β) (a : α) (r : Bytes) : mapR h (.ok a r) = .ok (h a) r := rfl
@[simp] theorem mapR_error {α β : Type} (h : α → β) : mapR h (.error : PR α) = .error := rfl
@[simp] theorem mapR_failure {α β : Type} (h : α → β) : mapR h (.failure : PR α) = .failure := rfl
@[simp] theorem mapR_panic {α β : Type} (h : α → β) (s : String) : mapR h (.panic s : PR α) = .panic s := rfl
@[simp] theorem mapR_fuel {α β : Type} (h : α → β) : mapR h (.fuel : PR α) = .fuel := rfl

theorem mapR_id {α : Type} (r : PR α) : mapR id r = r := by cases r <;> rfl

/-- on every input shorter than `L`, `p'` answers `h` of what `p` answers -/
def Agr {α β : Type} (L : Nat) (h : α → β) (p : Parser α) (p' : Parser β) : Prop :=
  ∀ i : Bytes, i.length < L → p' i = mapR h (p i)

theorem agr_refl {α : Type} {L : Nat} (p : Parser α) : Agr L id p p := fun i _ => (mapR_id _).symm

theorem agr_mono {α β : Type} {L L' : Nat} {h : α → β} {p : Parser α} {p' : Parser β} (hl : L' ≤ L)
    (hp : Agr L h p p') : Agr L' h p p' := fun i hi => hp i (by omega)

theorem agr_congr {α β : Type} {L : Nat} {h : α → β} {p q : Parser α} {p' q' : Parser β}
    (e : q = p) (e' : q' = p') (hp : Agr L h p p') : Agr L h q q' := by subst e; subst e'; exact hp

/-- the sequencing step -/
theorem mapR_bind {α β γ δ : Type} (h : α → β) (k : γ → δ) (r : PR α) (f : α → Bytes → PR γ)
    (f' : β → Bytes → PR δ) (hf : ∀ a t, r = .ok a t → f' (h a) t = mapR k (f a t)) :
    (mapR h r).bind f' = mapR k (r.bind f) := by
  cases r with
  | ok a t => exact hf a t rfl
  | error => rfl
  | failure => rfl
  | panic s => rfl
  | fuel => rfl

section comb
variable {α β γ δ α' β' γ' δ' : Type} {L : Nat}
variable {h : α → α'} {k : β → β'} {m : γ → γ'} {n : δ → δ'}
variable {p : Parser α} {p' : Parser α'} {q : Parser β} {q' : Parser β'} {s : Parser γ} {s' : Parser γ'}
variable {u : Parser δ} {u' : Parser δ'}

theorem agr_map {g : α → β} {g' : α' → β'} (hp : Agr L h p p') (hg : ∀ a, g' (h a) = k (g a)) :
    Agr L k (map p g) (map p' g') := by
  intro i hi; unfold map; rw [hp i hi]
  exact mapR_bind h k _ _ _ (fun a t _ => by simp [hg])

theorem agr_value (v : β) (hp : Agr L h p p') : Agr L k (value v p) (value (k v) p') := by
  intro i hi; unfold value; rw [hp i hi]
  exact mapR_bind h k _ _ _ (fun a t _ => rfl)

/-- what follows a successful `p` runs on an input that is still shorter than `L` -/
theorem rest_lt (fp : Fine L p) {i : Bytes} (hi : i.length < L) {a : α} {t : Bytes} (e : p i = .ok a t) :
    t.length < L := by
  have := (fp i hi).2 a t e; omega

theorem agr_pair (hp : Agr L h p p') (fp : Fine L p) (hq : Agr L k q q') :
    Agr L (Prod.map h k) (pair p q) (pair p' q') := by
  intro i hi; unfold pair; rw [hp i hi]
  refine mapR_bind h _ _ _ _ (fun a t e => ?_)
  rw [hq t (rest_lt fp hi e)]
  exact mapR_bind k _ _ _ _ (fun b t' _ => rfl)

theorem agr_preceded (hp : Agr L h p p') (fp : Fine L p) (hq : Agr L k q q') :
    Agr L k (preceded p q) (preceded p' q') := by
  intro i hi; unfold preceded; rw [hp i hi]
  exact mapR_bind h _ _ _ _ (fun a t e => hq t (rest_lt fp hi e))

theorem agr_terminated (hp : Agr L h p p') (fp : Fine L p) (hq : Agr L k q q') :
    Agr L h (terminated p q) (terminated p' q') := by
  intro i hi; unfold terminated; rw [hp i hi]
  refine mapR_bind h _ _ _ _ (fun a t e => ?_)
  rw [hq t (rest_lt fp hi e)]
  exact mapR_bind k _ _ _ _ (fun b t' _ => rfl)

theorem agr_delimited (hp : Agr L h p p') (fp : Fine L p) (hq : Agr L k q q') (fq : Fine L q)
    (hs : Agr L m s s') : Agr L k (delimited p q s) (delimited p' q' s') := by
  intro i hi; unfold delimited; rw [hp i hi]
  refine mapR_bind h _ _ _ _ (fun a t e => ?_)
  have ht := rest_lt fp hi e
  rw [hq t ht]
  refine mapR_bind k _ _ _ _ (fun b t' e' => ?_)
  rw [hs t' (rest_lt fq ht e')]
  exact mapR_bind m _ _ _ _ (fun c t'' _ => rfl)

/-- `delimited` whose opening parser consumes at least one byte: the middle parser only has to agree on inputs
shorter than `L` for the whole to agree on inputs shorter than `L + 1` (the recursion knot of `expr_or`) -/
theorem agr_delimited_strict (hp : Agr (L + 1) h p p') (fp : Fine (L + 1) p)
    (strict : ∀ i a t, p i = .ok a t → t.length < i.length)
    (hq : Agr L k q q') (fq : Fine L q) (hs : Agr L m s s') :
    Agr (L + 1) k (delimited p q s) (delimited p' q' s') := by
  intro i hi; unfold delimited; rw [hp i hi]
  refine mapR_bind h _ _ _ _ (fun a t e => ?_)
  have ht : t.length < L := by have := strict i a t e; omega
  rw [hq t ht]
  refine mapR_bind k _ _ _ _ (fun b t' e' => ?_)
  rw [hs t' (rest_lt fq ht e')]
  exact mapR_bind m _ _ _ _ (fun c t'' _ => rfl)

theorem agr_separatedPair (hp : Agr L h p p') (fp : Fine L p) (hq : Agr L k q q') (fq : Fine L q)
    (hs : Agr L m s s') : Agr L (Prod.map h m) (separatedPair p q s) (separatedPair p' q' s') := by
  intro i hi; unfold separatedPair; rw [hp i hi]
  refine mapR_bind h _ _ _ _ (fun a t e => ?_)
  have ht := rest_lt fp hi e
  rw [hq t ht]
  refine mapR_bind k _ _ _ _ (fun b t' e' => ?_)
  rw [hs t' (rest_lt fq ht e')]
  exact mapR_bind m _ _ _ _ (fun c t'' _ => rfl)

theorem agr_tuple3 (hp : Agr L h p p') (fp : Fine L p) (hq : Agr L k q q') (fq : Fine L q)
    (hs : Agr L m s s') :
    Agr L (fun x => (h x.1, k x.2.1, m x.2.2)) (tuple3 p q s) (tuple3 p' q' s') := by
  intro i hi; unfold tuple3; rw [hp i hi]
  refine mapR_bind h _ _ _ _ (fun a t e => ?_)
  have ht := rest_lt fp hi e
  rw [hq t ht]
  refine mapR_bind k _ _ _ _ (fun b t' e' => ?_)
  rw [hs t' (rest_lt fq ht e')]
  exact mapR_bind m _ _ _ _ (fun c t'' _ => rfl)

theorem agr_tuple4 (hp : Agr L h p p') (fp : Fine L p) (hq : Agr L k q q') (fq : Fine L q)
    (hs : Agr L m s s') (fs : Fine L s) (hu : Agr L n u u') :
    Agr L (fun x => (h x.1, k x.2.1, m x.2.2.1, n x.2.2.2)) (tuple4 p q s u) (tuple4 p' q' s' u') := by
  intro i hi; unfold tuple4; rw [hp i hi]
  refine mapR_bind h _ _ _ _ (fun a t e => ?_)
  have ht := rest_lt fp hi e
  rw [hq t ht]
  refine mapR_bind k _ _ _ _ (fun b t' e' => ?_)
  have ht' := rest_lt fq ht e'
  rw [hs t' ht']
  refine mapR_bind m _ _ _ _ (fun c t'' e'' => ?_)
  rw [hu t'' (rest_lt fs ht' e'')]
  exact mapR_bind n _ _ _ _ (fun d t''' _ => rfl)

theorem agr_alt {p2 : Parser α} {p2' : Parser α'} (hp : Agr L h p p') (hq : Agr L h p2 p2') :
    Agr L h (alt p p2) (alt p' p2') := by
  intro i hi; unfold alt; rw [hp i hi, hq i hi]
  cases p i <;> rfl

theorem agr_opt (hp : Agr L h p p') : Agr L (Option.map h) (opt p) (opt p') := by
  intro i hi; unfold opt; rw [hp i hi]
  cases p i <;> rfl

theorem agr_cond (b : Bool) (hp : Agr L h p p') : Agr L (Option.map h) (Nom.cond b p) (Nom.cond b p') := by
  intro i hi; unfold Nom.cond
  cases b with
  | false => rfl
  | true =>
    simp only [if_true]; rw [hp i hi]
    exact mapR_bind h _ _ _ _ (fun a t _ => rfl)

theorem agr_mapRes {f : α → Option β} {f' : α' → Option β'} (hp : Agr L h p p')
    (hf : ∀ a, f' (h a) = (f a).map k) : Agr L k (mapRes p f) (mapRes p' f') := by
  intro i hi; unfold mapRes; rw [hp i hi]
  refine mapR_bind h _ _ _ _ (fun a t _ => ?_)
  rw [hf a]; cases f a <;> rfl

theorem agr_not (hp : Agr L h p p') : Agr L id (Nom.not p) (Nom.not p') := by
  intro i hi; unfold Nom.not; rw [hp i hi]
  cases p i <;> rfl

theorem many0Loop_agr (hp : Agr L h p p') (fp : Fine L p) : ∀ (n : Nat) (i : Bytes) (acc : List α),
    i.length < L → many0Loop p' n i (acc.map h) = mapR (List.map h) (many0Loop p n i acc) := by
  intro n
  induction n with
  | zero => intro i acc _; rfl
  | succ n ih =>
    intro i acc hi
    unfold many0Loop
    rw [hp i hi]
    cases e : p i with
    | ok o i1 =>
      simp only [mapR_ok]
      by_cases hl : (i1.length == i.length) = true
      · simp [hl]
      · simp only [hl, Bool.false_eq_true, if_false]
        have := ih i1 (o :: acc) (rest_lt fp hi e)
        simpa using this
    | error => simp
    | failure => rfl
    | panic s => rfl
    | fuel => rfl

theorem agr_many0 (hp : Agr L h p p') (fp : Fine L p) : Agr L (List.map h) (many0 p) (many0 p') := by
  intro i hi; unfold many0
  exact many0Loop_agr hp fp _ i [] hi

theorem sepList1Loop_agr (hs : Agr L k q q') (fs : Fine L q) (hp : Agr L h p p') (fp : Fine L p) :
    ∀ (n : Nat) (i : Bytes) (acc : List α), i.length < L →
      sepList1Loop q' p' n i (acc.map h) = mapR (List.map h) (sepList1Loop q p n i acc) := by
  intro n
  induction n with
  | zero => intro i acc _; rfl
  | succ n ih =>
    intro i acc hi
    unfold sepList1Loop
    rw [hs i hi]
    cases e : q i with
    | ok o i1 =>
      simp only [mapR_ok]
      by_cases hl : (i1.length == i.length) = true
      · simp [hl]
      · simp only [hl, Bool.false_eq_true, if_false]
        have h1 := rest_lt fs hi e
        rw [hp i1 h1]
        cases e2 : p i1 with
        | ok o2 i2 =>
          simp only [mapR_ok]
          have := ih i2 (o2 :: acc) (rest_lt fp h1 e2)
          simpa using this
        | error => simp
        | failure => rfl
        | panic s => rfl
        | fuel => rfl
    | error => simp
    | failure => rfl
    | panic s => rfl
    | fuel => rfl

theorem agr_separatedList1 (hs : Agr L k q q') (fs : Fine L q) (hp : Agr L h p p') (fp : Fine L p) :
    Agr L (List.map h) (separatedList1 q p) (separatedList1 q' p') := by
  intro i hi; unfold separatedList1; rw [hp i hi]
  refine mapR_bind h _ _ _ _ (fun a t e => ?_)
  have := sepList1Loop_agr hs fs hp fp (t.length + 1) t [a] (rest_lt fp hi e)
  simpa using this

/-- `map` with a block closure (`Rs.mapTry`) against the model's explicit continuation -/
theorem agr_mapTry {g : α → Bytes → PR β} {f' : α' → Res β'} (hp : Agr L h p p')
    (hf : ∀ a r, Rs.resToPR (f' (h a)) r = mapR k (g a r)) :
    Agr L k (fun i => (p i).bind g) (Rs.mapTry p' f') := by
  intro i hi; unfold Rs.mapTry; rw [hp i hi]
  exact mapR_bind h _ _ _ _ (fun a t _ => hf a t)

/-- a block closure that is total -/
theorem agr_mapTry_pure {g : α → β} {f' : α' → Res β'} (hp : Agr L h p p')
    (hf : ∀ a, f' (h a) = .ok (k (g a))) : Agr L k (map p g) (Rs.mapTry p' f') := by
  intro i hi; unfold Rs.mapTry map; rw [hp i hi]
  exact mapR_bind h _ _ _ _ (fun a t _ => by rw [hf a]; rfl)

end comb

/-- a translated hand-written scanner used as a parser -/
theorem agr_parserOf {L : Nat} {p : Parser Bytes} (f : Bytes → Res (Bytes × Bytes))
    (hf : ∀ i : Bytes, i.length < L → Rs.toPR (f i) = p i) : Agr L id p (Rs.parserOf f) := by
  intro i hi; unfold Rs.parserOf; rw [hf i hi, mapR_id]

theorem agr_nomU64 {L : Nat} : Agr L (fun n : Nat => (n : Int)) u64 Rs.nomU64 := by
  intro i _
  show Nom.map u64 _ i = _
  unfold Nom.map
  cases u64 i <;> rfl

/-! ### string literals of the grammar -/
theorem pp_strLit_bytes (s : String) (bs : Bytes) (h : s.toByteArray.data.toList = bs) : Rs.strLit s = bs := by
  rw [strLit_eq, h]

end Jsonb.TrAgree
