/-
Strict ⊆ relaxed: every text the independent strict RFC 8259 reader (`Strict.parse`,
Spec/StrictJson.lean) accepts is accepted by the crate's relaxed parser (`parseValue`,
JsonParser.lean = parser.rs + util.rs) with the same value.
-/
import JsonbModel.Proofs.StrictSubset4
namespace Jsonb
namespace SS
open Jsonb.JP

theorem map_pair_inv {α β : Type} {o : Option (α × Bytes)} {f : α → β} {b : β} {r : Bytes}
    (h : o.map (fun (a, r) => (f a, r)) = some (b, r)) : ∃ a, o = some (a, r) ∧ b = f a := by
  cases o with
  | none => simp at h
  | some p =>
    obtain ⟨a, r'⟩ := p
    simp only [Option.map_some, Option.some.injEq, Prod.mk.injEq] at h
    exact ⟨a, by rw [h.2], h.1.symm⟩

/-! ### The simulation statements -/

/-- values: the crate's `parse_json_value` at a cursor whose remaining input is `bs` -/
def VSim (n : Nat) : Prop :=
  ∀ bs v r, Strict.value n bs = some (v, r) → ∀ buf i, buf.drop i = bs →
    ∃ j, buf.drop j = r ∧ ∀ F, FuelOr (parseJsonValue F buf i) (v, j)

/-- how a loop is entered: at the first element (`first`), or in front of the comma that
precedes the next element -/
def Entry (buf : Bytes) (i : Nat) (first : Bool) (bs : Bytes) : Prop :=
  (first = true ∧ buf.drop i = bs) ∨
  (first = false ∧ ∃ w, AllWs w ∧ buf.drop i = w ++ 0x2C :: bs)

def ESim (n : Nat) : Prop :=
  ∀ bs vs r, Strict.elements n bs = some (vs, r) → ∀ buf i first acc, Entry buf i first bs →
    ∃ j, buf.drop j = r ∧ ∀ F, FuelOr (arrLoop F buf i first acc) (.arr (acc ++ vs), j)

def MSim (n : Nat) : Prop :=
  ∀ bs kvs r, Strict.members n bs = some (kvs, r) → ∀ buf i first obj, Entry buf i first bs →
    ∃ j, buf.drop j = r ∧ ∀ F, FuelOr (objLoop F buf i first obj)
      (.obj (kvs.foldl (fun m kv => insertKV kv.1 kv.2 m) obj), j)

theorem ESim_succ (n : Nat) (hV : VSim n) (hE : ESim n) : ESim (n + 1) := by
  intro bs vs r h buf i first acc hent
  unfold Strict.elements at h
  split at h
  · exact absurd h (by simp)
  rename_i v r1 hv
  -- the cursor of the element and the loop body there
  have hp : ∃ p, buf.drop p = bs ∧ ∀ F, arrLoop (F + 1) buf i first acc = (do
      let (value, idx) ← parseJsonValue F buf p
      arrLoop F buf idx false (acc ++ [value])) := by
    rcases hent with ⟨rfl, hi⟩ | ⟨rfl, w, hw, hi⟩
    · obtain ⟨c, rest, hs, hc⟩ := value_start hv
      exact ⟨i, hi, fun F => arrLoop_first hi hs hc F acc⟩
    · exact ⟨i + w.length + 1, drop_succ_of_drop (drop_add_of_drop hi),
        fun F => arrLoop_comma hi hw F acc⟩
  obtain ⟨p, hpd, hbody⟩ := hp
  obtain ⟨j1, hj1, hpv⟩ := hV bs v r1 hv buf p hpd
  split at h
  · -- a comma: more elements
    rename_i r' hs
    obtain ⟨vs', hvs', rfl⟩ := map_pair_inv (f := fun vs => v :: vs) h
    obtain ⟨w', hw', he'⟩ := skipWs_split hs
    obtain ⟨j, hj, hloop⟩ := hE r' vs' r hvs' buf j1 false (acc ++ [v])
      (Or.inr ⟨rfl, w', hw', hj1.trans he'⟩)
    refine ⟨j, hj, ?_⟩
    intro F
    cases F with
    | zero => exact Or.inl (by simp [arrLoop])
    | succ F =>
      rw [hbody F]
      refine FuelOr_bind (hpv F) ?_
      have := hloop F
      simpa [List.append_assoc] using this
  · -- the closing bracket
    rename_i r' hs
    simp only [Option.some.injEq, Prod.mk.injEq] at h
    obtain ⟨rfl, rfl⟩ := h
    obtain ⟨w', hw', he'⟩ := skipWs_split hs
    have hd := hj1.trans he'
    refine ⟨j1 + w'.length + 1, drop_succ_of_drop (drop_add_of_drop hd), ?_⟩
    intro F
    cases F with
    | zero => exact Or.inl (by simp [arrLoop])
    | succ F =>
      rw [hbody F]
      refine FuelOr_bind (hpv F) ?_
      cases F with
      | zero => exact Or.inl (by simp [arrLoop])
      | succ F => exact Or.inr (arrLoop_close hd hw' F false _)
  · exact absurd h (by simp)

theorem MSim_succ (n : Nat) (hV : VSim n) (hM : MSim n) : MSim (n + 1) := by
  intro bs kvs r h buf i first obj hent
  unfold Strict.members at h
  split at h
  rotate_left
  · exact absurd h (by simp)
  rename_i r0 hs0
  split at h
  rotate_left
  · exact absurd h (by simp)
  rename_i k r1 hk
  split at h
  · exact absurd h (by simp)
  rename_i hutf
  have hutf' : validUtf8 k = true := by simpa using hutf
  split at h
  rotate_left
  · exact absurd h (by simp)
  rename_i r2 hs1
  split at h
  · exact absurd h (by simp)
  rename_i v r3 hv
  -- the cursor of the key and the loop body there
  have hp : ∃ p, buf.drop p = bs ∧ ∀ F, objLoop (F + 1) buf i first obj = objStep F buf p obj := by
    rcases hent with ⟨rfl, hi⟩ | ⟨rfl, w, hw, hi⟩
    · exact ⟨i, hi, fun F => objLoop_first hi hs0 F obj⟩
    · exact ⟨i + w.length + 1, drop_succ_of_drop (drop_add_of_drop hi),
        fun F => objLoop_comma hi hw F obj⟩
  obtain ⟨p, hpd, hbody⟩ := hp
  obtain ⟨j1, hj1, hkey⟩ := key_sim hpd hs0 hk hutf'
  obtain ⟨w1, hw1, he1⟩ := skipWs_split hs1
  have hc := hj1.trans he1
  have hr2 : buf.drop (j1 + w1.length + 1) = r2 := drop_succ_of_drop (drop_add_of_drop hc)
  obtain ⟨j3, hj3, hval⟩ := hV r2 v r3 hv buf (j1 + w1.length + 1) hr2
  -- the body up to the recursive call
  have hstep : ∀ F (b : JV × Nat), FuelOr (objLoop F buf j3 false (insertKV k v obj)) b →
      FuelOr (objStep F buf p obj) b := by
    intro F b hb
    unfold objStep
    refine FuelOr_bind (hkey F) ?_
    simp only [isString, Bool.not_true, Bool.false_eq_true, if_false]
    rw [skipUnused_ws hw1 hc (Tok_cons _ (by decide) (by decide))]
    simp only [bind_ok, next_view (drop_add_of_drop hc)]
    rw [if_neg (by decide)]
    refine FuelOr_bind (hval F) ?_
    simpa [asStrUnwrap] using hb
  split at h
  · -- a comma: more members
    rename_i r4 hs3
    obtain ⟨kvs', hkvs', rfl⟩ := map_pair_inv (f := fun kvs => (k, v) :: kvs) h
    obtain ⟨w3, hw3, he3⟩ := skipWs_split hs3
    obtain ⟨j, hj, hloop⟩ := hM r4 kvs' r hkvs' buf j3 false (insertKV k v obj)
      (Or.inr ⟨rfl, w3, hw3, hj3.trans he3⟩)
    refine ⟨j, hj, ?_⟩
    intro F
    cases F with
    | zero => exact Or.inl (by simp [objLoop])
    | succ F =>
      rw [hbody F]
      exact hstep F _ (hloop F)
  · -- the closing brace
    rename_i r4 hs3
    simp only [Option.some.injEq, Prod.mk.injEq] at h
    obtain ⟨rfl, rfl⟩ := h
    obtain ⟨w3, hw3, he3⟩ := skipWs_split hs3
    have hd := hj3.trans he3
    refine ⟨j3 + w3.length + 1, drop_succ_of_drop (drop_add_of_drop hd), ?_⟩
    intro F
    cases F with
    | zero => exact Or.inl (by simp [objLoop])
    | succ F =>
      rw [hbody F]
      apply hstep
      cases F with
      | zero => exact Or.inl (by simp [objLoop])
      | succ F => exact Or.inr (objLoop_close hd hw3 F false _)
  · exact absurd h (by simp)

theorem VSim_succ (n : Nat) (hE : ESim n) (hM : MSim n) : VSim (n + 1) := by
  intro bs v r h buf i hi
  unfold Strict.value at h
  split at h
  · exact absurd h (by simp)
  rename_i b rest hs
  obtain ⟨w, hw, he⟩ := skipWs_split hs
  have hi' := hi.trans he
  have hd := drop_add_of_drop hi'
  -- it is enough to look at the cursor after the white space
  suffices hmain : StartByte b ∧ ∃ j, buf.drop j = r ∧
      ∀ F, FuelOr (parseJsonValue (F + 1) buf (i + w.length)) (v, j) by
    obtain ⟨hsb, j, hj, hF⟩ := hmain
    refine ⟨j, hj, ?_⟩
    intro F
    rw [pv_skip hi' hw (Tok_start _ hsb)]
    cases F with
    | zero => exact Or.inl rfl
    | succ F => exact hF F
  split at h
  · -- null
    rename_i hb
    simp only [beq_iff_eq] at hb; subst hb
    obtain ⟨r', hr', hvr⟩ := Option.map_eq_some_iff.mp h
    simp only [Prod.mk.injEq] at hvr
    obtain ⟨rfl, rfl⟩ := hvr
    have hl := expectLit_some hr'
    subst hl
    refine ⟨Or.inl rfl, i + w.length + 4, ?_, fun F => Or.inr (pv_null F hd)⟩
    exact drop_add_of_drop (a := [0x6E, 0x75, 0x6C, 0x6C]) hd
  split at h
  · -- true
    rename_i hb
    simp only [beq_iff_eq] at hb; subst hb
    obtain ⟨r', hr', hvr⟩ := Option.map_eq_some_iff.mp h
    simp only [Prod.mk.injEq] at hvr
    obtain ⟨rfl, rfl⟩ := hvr
    have hl := expectLit_some hr'
    subst hl
    refine ⟨Or.inr (Or.inl rfl), i + w.length + 4, ?_, fun F => Or.inr (pv_true F hd)⟩
    exact drop_add_of_drop (a := [0x74, 0x72, 0x75, 0x65]) hd
  split at h
  · -- false
    rename_i hb
    simp only [beq_iff_eq] at hb; subst hb
    obtain ⟨r', hr', hvr⟩ := Option.map_eq_some_iff.mp h
    simp only [Prod.mk.injEq] at hvr
    obtain ⟨rfl, rfl⟩ := hvr
    have hl := expectLit_some hr'
    subst hl
    refine ⟨Or.inr (Or.inr (Or.inl rfl)), i + w.length + 5, ?_, fun F => Or.inr (pv_false F hd)⟩
    exact drop_add_of_drop (a := [0x66, 0x61, 0x6C, 0x73, 0x65]) hd
  split at h
  · -- a string
    rename_i hb
    simp only [beq_iff_eq] at hb; subst hb
    split at h
    rotate_left
    · exact absurd h (by simp)
    rename_i s r1 hsb
    split at h
    rotate_left
    · exact absurd h (by simp)
    rename_i hu
    simp only [Option.some.injEq, Prod.mk.injEq] at h
    obtain ⟨rfl, rfl⟩ := h
    obtain ⟨j, hj, hr⟩ := string_sim hd hsb hu
    exact ⟨Or.inr (Or.inr (Or.inr (Or.inr (Or.inr (Or.inl rfl))))), j, hr,
      fun F => Or.inr (by rw [pv_string F hd, hj])⟩
  split at h
  · -- an array
    rename_i hb
    simp only [beq_iff_eq] at hb; subst hb
    refine ⟨Or.inr (Or.inr (Or.inr (Or.inr (Or.inr (Or.inr (Or.inl rfl)))))), ?_⟩
    have hd1 := drop_succ_of_drop hd
    split at h
    · -- empty
      rename_i r' hs'
      simp only [Option.some.injEq, Prod.mk.injEq] at h
      obtain ⟨rfl, rfl⟩ := h
      obtain ⟨w', hw', he'⟩ := skipWs_split hs'
      have hd2 := hd1.trans he'
      refine ⟨i + w.length + 1 + w'.length + 1, drop_succ_of_drop (drop_add_of_drop hd2), ?_⟩
      intro F
      rw [pv_arr F hd]
      cases F with
      | zero => exact Or.inl (by simp [arrLoop])
      | succ F => exact Or.inr (arrLoop_close hd2 hw' F true [])
    · obtain ⟨vs, hvs, rfl⟩ := map_pair_inv (f := fun vs => JV.arr vs) h
      obtain ⟨j, hj, hloop⟩ := hE rest vs r hvs buf (i + w.length + 1) true [] (Or.inl ⟨rfl, hd1⟩)
      refine ⟨j, hj, ?_⟩
      intro F
      rw [pv_arr F hd]
      simpa using hloop F
  split at h
  · -- an object
    rename_i hb
    simp only [beq_iff_eq] at hb; subst hb
    refine ⟨Or.inr (Or.inr (Or.inr (Or.inr (Or.inr (Or.inr (Or.inr rfl)))))), ?_⟩
    have hd1 := drop_succ_of_drop hd
    split at h
    · -- empty
      rename_i r' hs'
      simp only [Option.some.injEq, Prod.mk.injEq] at h
      obtain ⟨rfl, rfl⟩ := h
      obtain ⟨w', hw', he'⟩ := skipWs_split hs'
      have hd2 := hd1.trans he'
      refine ⟨i + w.length + 1 + w'.length + 1, drop_succ_of_drop (drop_add_of_drop hd2), ?_⟩
      intro F
      rw [pv_obj F hd]
      cases F with
      | zero => exact Or.inl (by simp [objLoop])
      | succ F => exact Or.inr (objLoop_close hd2 hw' F true [])
    · obtain ⟨kvs, hkvs, rfl⟩ := map_pair_inv (f := fun kvs => JV.obj (mkObj kvs)) h
      obtain ⟨j, hj, hloop⟩ := hM rest kvs r hkvs buf (i + w.length + 1) true [] (Or.inl ⟨rfl, hd1⟩)
      refine ⟨j, hj, ?_⟩
      intro F
      rw [pv_obj F hd]
      exact hloop F
  split at h
  · -- a number
    rename_i hb
    obtain ⟨nm, hnm, rfl⟩ := map_pair_inv (f := fun nm => JV.num nm) h
    obtain ⟨j, hj, hr⟩ := number_sim hd hnm
    have hb' : JP.isDigit b = true ∨ b = 0x2D := by
      simp only [Bool.or_eq_true, beq_iff_eq] at hb
      rcases hb with hb | hb
      · exact Or.inr hb
      · exact Or.inl hb
    refine ⟨?_, j, hr, fun F => Or.inr (by rw [parseJsonValue_number F hd hb', hj])⟩
    rcases hb' with hb' | hb'
    · exact Or.inr (Or.inr (Or.inr (Or.inl hb')))
    · exact Or.inr (Or.inr (Or.inr (Or.inr (Or.inl hb'))))
  · exact absurd h (by simp)

theorem sim_all : ∀ n, VSim n ∧ ESim n ∧ MSim n := by
  intro n
  induction n with
  | zero =>
    refine ⟨?_, ?_, ?_⟩
    · intro bs v r h; simp [Strict.value] at h
    · intro bs vs r h; simp [Strict.elements] at h
    · intro bs kvs r h; simp [Strict.members] at h
  | succ n ih =>
    obtain ⟨hV, hE, hM⟩ := ih
    exact ⟨VSim_succ n hE hM, ESim_succ n hV hE, MSim_succ n hV hM⟩

/-- **value-level inclusion**: if the strict reader (any fuel) reads a value `v` from the input at
cursor `i` and leaves `r`, then `parse_json_value` (any fuel) at `i` either runs out of fuel or
returns the same `v` with the cursor at `r` -/
theorem value_sim {n : Nat} {bs : Bytes} {v : JV} {r : Bytes} (h : Strict.value n bs = some (v, r))
    {buf : Bytes} {i : Nat} (hi : buf.drop i = bs) :
    ∃ j, buf.drop j = r ∧ ∀ F, FuelOr (parseJsonValue F buf i) (v, j) :=
  (sim_all n).1 bs v r h buf i hi

end SS

open SS JP in
/-- what legitimately differs between the two readers' value representations: nothing.
`Strict.parse` already builds objects with `mkObj` (sorted keys, last duplicate wins) and
already classifies numbers as the crate does (`uint` for a non-negative integer literal below
`2^64`, `int` for a literal with a minus sign down to `-2^63` — `-0` included — and otherwise the
`F64.ofDecimal` double of the same decimal decomposition), so the canonical form is the value
itself. -/
def canonOf (v : JV) : JV := v

theorem canonOf_eq (v : JV) : canonOf v = v := rfl

open SS JP in
/-- **strict ⊆ relaxed, with the same meaning**: every byte string the independent strict
RFC 8259 reader accepts is accepted by the crate's parser model and yields the same value:
same decoded strings (all escapes, surrogate pairs), same number classification and rounding,
same arrays, same objects (sorted keys, the last of duplicate keys wins). -/
theorem strict_subset {t : Bytes} {v : JV} (h : Strict.parse t = some v) :
    parseValue t = .ok (canonOf v) := by
  unfold Strict.parse at h
  split at h
  rotate_left
  · exact absurd h (by simp)
  rename_i v' r hv
  split at h
  rotate_left
  · exact absurd h (by simp)
  rename_i hws
  simp only [Option.some.injEq] at h
  subst h
  obtain ⟨j, hj, hF⟩ := value_sim hv (buf := t) (i := 0) rfl
  have hnf := parseValue_fuel t
  have hws' : Strict.skipWs r = [] := by simpa using hws
  obtain ⟨w, hw, he⟩ := skipWs_split hws'
  have hd := hj.trans he
  have hskip : skipUnused t j = .ok (j + w.length) := skipUnused_ws hw hd Tok_nil
  have hend : ¬ (j + w.length < t.length) := by
    have := drop_add_of_drop hd
    have hl := congrArg List.length this
    simp only [List.length_drop, List.length_nil] at hl
    omega
  unfold parseValue at hnf ⊢
  rcases hF (fuelFor t) with hf | hf
  · rw [hf] at hnf; exact absurd rfl hnf
  · rw [hf]
    simp only [bind_ok, hskip, if_neg hend, pure_eq, canonOf]


/-- **no third outcome**: every byte string is either accepted with a value or rejected with an
error — never a panic, never out of the model's fuel (totality + fuel adequacy) -/
theorem relaxed_rejects_or_accepts (t : Bytes) :
    (∃ v, parseValue t = .ok v) ∨ (∃ e, parseValue t = .err e) := by
  cases h : parseValue t with
  | ok v => exact Or.inl ⟨v, rfl⟩
  | err e => exact Or.inr ⟨e, rfl⟩
  | panic s => exact absurd h (parseValue_ne_panic t s)
  | fuel => exact absurd h (parseValue_fuel t)

/-- the strict reader never accepts what the crate rejects -/
theorem strict_none_of_err {t : Bytes} {e : String} (h : parseValue t = .err e) :
    Strict.parse t = none := by
  cases hs : Strict.parse t with
  | none => rfl
  | some v => rw [strict_subset hs] at h; exact absurd h (by simp)

/-! ### Kernel-checked examples (the strict side is evaluated by the kernel, the crate side
follows from `strict_subset`) -/

/-- ` {"b" : [1, -0, 1.5e3], "a" : "é😀\n", "b" : null} ` : white space, nested
containers, all three number kinds, a BMP escape, a surrogate pair, a simple escape, a duplicate
key (the last wins) and unsorted keys (sorted) -/
example : parseValue
    [0x20, 0x7B, 0x22, 0x62, 0x22, 0x20, 0x3A, 0x20, 0x5B, 0x31, 0x2C, 0x20, 0x2D, 0x30, 0x2C, 0x20,
     0x31, 0x2E, 0x35, 0x65, 0x33, 0x5D, 0x2C, 0x20, 0x22, 0x61, 0x22, 0x20, 0x3A, 0x20, 0x22,
     0x5C, 0x75, 0x30, 0x30, 0x65, 0x39, 0x5C, 0x75, 0x64, 0x38, 0x33, 0x64, 0x5C, 0x75, 0x64, 0x65,
     0x30, 0x30, 0x5C, 0x6E, 0x22, 0x2C, 0x20, 0x22, 0x62, 0x22, 0x20, 0x3A, 0x20, 0x6E, 0x75, 0x6C,
     0x6C, 0x7D, 0x20]
    = .ok (.obj [([0x61], .str [0xC3, 0xA9, 0xF0, 0x9F, 0x98, 0x80, 0x0A]), ([0x62], .null)]) :=
  strict_subset (by rfl)

/-- `[18446744073709551615,18446744073709551616,-9223372036854775808,-9223372036854775809,1e400]` -/
example : parseValue
    ([0x5B] ++ [0x31,0x38,0x34,0x34,0x36,0x37,0x34,0x34,0x30,0x37,0x33,0x37,0x30,0x39,0x35,0x35,0x31,0x36,0x31,0x35]
      ++ [0x2C] ++ [0x31,0x38,0x34,0x34,0x36,0x37,0x34,0x34,0x30,0x37,0x33,0x37,0x30,0x39,0x35,0x35,0x31,0x36,0x31,0x36]
      ++ [0x2C, 0x2D] ++ [0x39,0x32,0x32,0x33,0x33,0x37,0x32,0x30,0x33,0x36,0x38,0x35,0x34,0x37,0x37,0x35,0x38,0x30,0x38]
      ++ [0x2C, 0x2D] ++ [0x39,0x32,0x32,0x33,0x33,0x37,0x32,0x30,0x33,0x36,0x38,0x35,0x34,0x37,0x37,0x35,0x38,0x30,0x39]
      ++ [0x2C, 0x31, 0x65, 0x34, 0x30, 0x30, 0x5D])
    = .ok (.arr [.num (.uint 18446744073709551615), .num (.float 4895412794951729152),
        .num (.int (-9223372036854775808)), .num (.float 14114281232179134464),
        .num (.float 9218868437227405312)]) :=
  strict_subset (by rfl)


/-- texts the strict reader rejects (each is one of the crate's documented relaxations or plainly
invalid), checked by the kernel: form feed as white space, a raw line feed inside a string, a
lone high surrogate, `\u{0041}`, a leading zero, a trailing comma -/
example : Strict.parse [0x0C, 0x31] = none := rfl
example : Strict.parse [0x22, 0x61, 0x0A, 0x62, 0x22] = none := rfl
example : Strict.parse [0x22, 0x5C, 0x75, 0x44, 0x38, 0x33, 0x44, 0x22] = none := rfl
example : Strict.parse [0x22, 0x5C, 0x75, 0x7B, 0x30, 0x30, 0x34, 0x31, 0x7D, 0x22] = none := rfl
example : Strict.parse [0x30, 0x31] = none := rfl
example : Strict.parse [0x5B, 0x31, 0x2C, 0x5D] = none := rfl

end Jsonb

#print axioms Jsonb.strict_subset
#print axioms Jsonb.relaxed_rejects_or_accepts
#print axioms Jsonb.strict_none_of_err
#print axioms Jsonb.SS.value_sim
#print axioms Jsonb.SS.number_sim
#print axioms Jsonb.SS.string_sim
