import JsonbModel.Proofs.TranslatedAgreeC6

set_option linter.unusedSimpArgs false
set_option linter.unusedVariables false

namespace Jsonb.TrAgree
open Jsonb.Rs JV

/-! ## the encoder: statements against the model functions as they are -/

/-- **`Encoder::encode_value` = `encValue`** -/
theorem encode_value_agrees (v : JV) (b : Bytes) (g : Nat) (hg : 2 * depth v < g) (hwf : numsWF v)
    (hsz : b.length + encSize v < 18446744073709551616) :
    Tr.Encoder.encode_value g ⟨b⟩ (ofJV v) = (encValue b v).map ofEnc := by
  obtain ⟨b', len, hm, _, _, _, ht⟩ := enc_value_agrees v b g hg hwf hsz
  rw [hm, ht]; rfl

/-- `Encoder::encode_array` / `encode_object` on their own: the buffer of the model's `encValue` on
the container (the model inlines them there) -/
theorem encode_array_agrees (vs : List JV) (b : Bytes) (g : Nat) (hg : 2 * depthL vs < g) (hwf : numsWFL vs)
    (hsz : b.length + encSize (.arr vs) < 18446744073709551616) :
    (Tr.Encoder.encode_array (g + 1) ⟨b⟩ (ofJVs vs)).map Prod.snd =
      (encValue b (.arr vs)).map (fun r => (⟨r.1⟩ : Tr.Encoder)) := by
  obtain ⟨b', len, hm, _, _, _, ht⟩ := enc_value_agrees (.arr vs) b (g + 2) (by simp only [depth]; omega) hwf hsz
  simp only [ofJV] at ht
  rw [encode_value_arr] at ht
  rw [hm]
  cases h : Tr.Encoder.encode_array (g + 1) ⟨b⟩ (ofJVs vs) with
  | ok p =>
    rw [h] at ht
    simp only [Res.bind, make_container_jentry_agrees] at ht
    obtain ⟨n, e⟩ := p
    have hn : ∃ m : Nat, n = (m : Int) ∨ True := ⟨0, Or.inr trivial⟩
    simp only [Res.map, Res.bind]
    cases hj : Tr.JEntry.make_container_jentry n with
    | ok je => rw [hj] at ht; simp only [Res.ok.injEq, Prod.mk.injEq] at ht; rw [ht.2]
    | err x => rw [hj] at ht; cases ht
    | panic x => rw [hj] at ht; cases ht
    | fuel => rw [hj] at ht; cases ht
  | err x => rw [h] at ht; cases ht
  | panic x => rw [h] at ht; cases ht
  | fuel => rw [h] at ht; cases ht

theorem encode_object_agrees (kvs : List (Bytes × JV)) (b : Bytes) (g : Nat) (hg : 2 * depthK kvs < g) (hwf : numsWFK kvs)
    (hsz : b.length + encSize (.obj kvs) < 18446744073709551616) :
    (Tr.Encoder.encode_object (g + 1) ⟨b⟩ (ofKVs kvs)).map Prod.snd =
      (encValue b (.obj kvs)).map (fun r => (⟨r.1⟩ : Tr.Encoder)) := by
  obtain ⟨b', len, hm, _, _, _, ht⟩ := enc_value_agrees (.obj kvs) b (g + 2) (by simp only [depth]; omega) hwf hsz
  simp only [ofJV] at ht
  rw [encode_value_obj] at ht
  rw [hm]
  cases h : Tr.Encoder.encode_object (g + 1) ⟨b⟩ (ofKVs kvs) with
  | ok p =>
    rw [h] at ht
    simp only [Res.bind] at ht
    obtain ⟨n, e⟩ := p
    simp only [Res.map, Res.bind]
    cases hj : Tr.JEntry.make_container_jentry n with
    | ok je => rw [hj] at ht; simp only [Res.ok.injEq, Prod.mk.injEq] at ht; rw [ht.2]
    | err x => rw [hj] at ht; cases ht
    | panic x => rw [hj] at ht; cases ht
    | fuel => rw [hj] at ht; cases ht
  | err x => rw [h] at ht; cases ht
  | panic x => rw [h] at ht; cases ht
  | fuel => rw [h] at ht; cases ht

/-- **`Encoder::encode_scalar` = `encScalarDoc`** (the returned length is not part of the model) -/
theorem encode_scalar_agrees (v : JV) (b : Bytes) (g : Nat) (hg : 2 * depth v < g) (hwf : numsWF v)
    (hsz : b.length + 8 + encSize v < 18446744073709551616) :
    (Tr.Encoder.encode_scalar g ⟨b⟩ (ofJV v)).map Prod.snd = (encScalarDoc b v).map Tr.Encoder.mk := by
  have hl0 : ((b ++ u32be C.SCALAR_CONTAINER_TAG) ++ zeros 4).length = b.length + 8 := by simp [u32be, zeros]
  obtain ⟨b', len, hm, hl, hle, hlt, ht⟩ := enc_value_agrees v ((b ++ u32be C.SCALAR_CONTAINER_TAG) ++ zeros 4) g hg hwf
    (by rw [hl0]; omega)
  rw [hl0] at hl
  obtain ⟨b2, h2, _⟩ := replaceJentry_ok' b' (jentryWord (ety v) len) (b.length + 4) (by omega)
  unfold Tr.Encoder.encode_scalar encScalarDoc
  have hT : C.SCALAR_CONTAINER_TAG < 4294967296 := by decide
  have hres := encoder_reserve_jentries_agrees (b ++ u32be C.SCALAR_CONTAINER_TAG) 4 (by simp [u32be]; omega)
  have h4 : ((4 : Nat) : Int) = 4 := rfl
  simp (disch := omega) only [writeU32BE_nat _ _ hT, Rs.add_usize_ok', Ctl.ofRes_ok', Ctl.val_bind']
  rw [← h4, hres]
  simp only [Ctl.ofRes_ok', Ctl.val_bind', ht, Rs.usize_nat _ (show len < 18446744073709551616 by omega)]
  have hlen1 : (b ++ u32be C.SCALAR_CONTAINER_TAG).length = b.length + 4 := by simp [u32be]
  simp (disch := omega) only [Rs.add_usize_ok', Ctl.ofRes_ok', Ctl.val_bind', hlen1]
  rw [encoder_replace_jentry_agrees b' (ety v) len (b.length + 4) (ety_lt v) hlt (by omega) (by omega),
    ← jentryWord_lt _ _ hlt, hm]
  simp only [h2, Res.map, Res.bind, Ctl.ofRes_ok', Ctl.val_bind', Ctl.run_ret']

theorem encode_of_array (g : Nat) (self : Tr.Encoder) (vs : List Tr.Value) :
    Tr.Encoder.encode g self (.Array vs) = (Tr.Encoder.encode_array g self vs).map Prod.snd := by
  unfold Tr.Encoder.encode
  dsimp only
  cases Tr.Encoder.encode_array g self vs <;> rfl

theorem encode_of_object (g : Nat) (self : Tr.Encoder) (kvs : List (Bytes × Tr.Value)) :
    Tr.Encoder.encode g self (.Object kvs) = (Tr.Encoder.encode_object g self kvs).map Prod.snd := by
  unfold Tr.Encoder.encode
  dsimp only
  cases Tr.Encoder.encode_object g self kvs <;> rfl

theorem encode_of_scalar (g : Nat) (self : Tr.Encoder) (tv : Tr.Value)
    (h : match tv with | .Array _ => False | .Object _ => False | _ => True) :
    Tr.Encoder.encode g self tv = (Tr.Encoder.encode_scalar g self tv).map Prod.snd := by
  unfold Tr.Encoder.encode
  cases tv with
  | Array _ => exact absurd h id
  | Object _ => exact absurd h id
  | _ => dsimp only; cases Tr.Encoder.encode_scalar g self _ <;> rfl

theorem writeToVec_container (b : Bytes) (v : JV) (h : match v with | .arr _ => True | .obj _ => True | _ => False) :
    (writeToVec b v).map Tr.Encoder.mk = (encValue b v).map (fun r => (⟨r.1⟩ : Tr.Encoder)) := by
  cases v with
  | arr vs => simp only [writeToVec]; cases encValue b (.arr vs) <;> rfl
  | obj kvs => simp only [writeToVec]; cases encValue b (.obj kvs) <;> rfl
  | _ => exact absurd h id

/-- **`Encoder::encode`, translated from source, is the model's `writeToVec`** (= `Value::write_to_vec`,
the function C01 / C17 are about), for every value whose numbers are Rust values, every prior
buffer with room below `2^64` bytes, and every fuel above twice the nesting depth -/
theorem encode_agrees (v : JV) (b : Bytes) (g : Nat) (hg : 2 * depth v < g) (hwf : numsWF v)
    (hsz : b.length + 8 + encSize v < 18446744073709551616) :
    Tr.Encoder.encode g ⟨b⟩ (ofJV v) = (writeToVec b v).map Tr.Encoder.mk := by
  cases v with
  | arr vs =>
    obtain ⟨g, rfl⟩ : ∃ g', g = g' + 1 := ⟨g - 1, by omega⟩
    simp only [depth] at hg
    rw [writeToVec_container _ _ trivial, ← encode_array_agrees vs b g (by omega) hwf (by omega)]
    exact encode_of_array _ _ _
  | obj kvs =>
    obtain ⟨g, rfl⟩ : ∃ g', g = g' + 1 := ⟨g - 1, by omega⟩
    simp only [depth] at hg
    rw [writeToVec_container _ _ trivial, ← encode_object_agrees kvs b g (by omega) hwf (by omega)]
    exact encode_of_object _ _ _
  | null => rw [encode_of_scalar _ _ _ trivial, encode_scalar_agrees _ b g hg hwf hsz]; rfl
  | bool x => rw [encode_of_scalar _ _ _ trivial, encode_scalar_agrees _ b g hg hwf hsz]; rfl
  | num n => rw [encode_of_scalar _ _ _ trivial, encode_scalar_agrees _ b g hg hwf hsz]; rfl
  | str x => rw [encode_of_scalar _ _ _ trivial, encode_scalar_agrees _ b g hg hwf hsz]; rfl

/-- **`Value::write_to_vec`, translated from source (an `Encoder` holding the caller's buffer, then
`encode`), is the model's `writeToVec`** -/
theorem write_to_vec_agrees (v : JV) (b : Bytes) (g : Nat) (hg : 2 * depth v < g) (hwf : numsWF v)
    (hsz : b.length + 8 + encSize v < 18446744073709551616) :
    Tr.Value.write_to_vec g (ofJV v) b = writeToVec b v := by
  unfold Tr.Value.write_to_vec Tr.Encoder.new
  simp only [Ctl.run_ret', Ctl.ofRes_ok', Ctl.val_bind']
  rw [encode_agrees v b g hg hwf hsz]
  cases writeToVec b v <;> rfl

/-- **`Value::to_vec`, translated from source, is the model's `toVec`** (the function C01 is about): for
every value whose numbers are Rust values and whose encoding stays below `2^64` bytes, and every
fuel above twice the nesting depth -/
theorem to_vec_agrees (v : JV) (g : Nat) (hg : 2 * depth v < g) (hwf : numsWF v)
    (hsz : 8 + encSize v < 18446744073709551616) :
    Tr.Value.to_vec g (ofJV v) = toVec v := by
  unfold Tr.Value.to_vec toVec
  dsimp only
  rw [write_to_vec_agrees v [] g hg hwf (by simpa using hsz)]
  cases writeToVec [] v <;> rfl

end Jsonb.TrAgree
