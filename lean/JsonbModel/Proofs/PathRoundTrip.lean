/-
Print → parse round trips for the two path languages.
-/
import JsonbModel.PathParser
import JsonbModel.PathPrint

namespace Jsonb
namespace PathRT
open Nom PathParser PathPrint

/-! ### decimal digits -/

theorem digit_props : ∀ d : Fin 10,
    isDigit (UInt8.ofNat (48 + d.val)) = true ∧
    (UInt8.ofNat (48 + d.val)).toNat - 48 = d.val ∧
    UInt8.ofNat (48 + d.val) ≠ 45 ∧ UInt8.ofNat (48 + d.val) ≠ 43 ∧
    isSpace (UInt8.ofNat (48 + d.val)) = false ∧
    UInt8.ofNat (48 + d.val) ≠ 34 ∧ UInt8.ofNat (48 + d.val) ≠ 42 ∧
    UInt8.ofNat (48 + d.val) ≠ 108 ∧ UInt8.ofNat (48 + d.val) ≠ 76 := by decide

theorem decBytes_lt (n : Nat) (h : n < 10) : decBytes n = [UInt8.ofNat (48 + n)] := by
  rw [decBytes]; simp [h]

theorem decBytes_ge (n : Nat) (h : ¬ n < 10) :
    decBytes n = decBytes (n / 10) ++ [UInt8.ofNat (48 + n % 10)] := by
  rw [decBytes]; simp [h]

/-- the first byte of a decimal numeral is a digit -/
theorem decBytes_head (n : Nat) : ∃ d, d < 10 ∧ ∃ t, decBytes n = UInt8.ofNat (48 + d) :: t := by
  induction n using Nat.strongRecOn with
  | ind n ih =>
    by_cases h : n < 10
    · exact ⟨n, h, [], decBytes_lt n h⟩
    · obtain ⟨d, hd, t, ht⟩ := ih (n / 10) (by omega)
      exact ⟨d, hd, t ++ [UInt8.ofNat (48 + n % 10)], by rw [decBytes_ge n h, ht]; rfl⟩

/-- signed value accumulated by the `ints!` loop -/
def sgn (neg : Bool) (n : Nat) : Int := if neg then -(n : Int) else (n : Int)

theorem intLoop_digit (neg : Bool) (lo hi : Int) (d : Nat) (hd : d < 10) (rest : Bytes) (v : Int)
    (first : Bool) (h1 : lo ≤ v * 10 ∧ v * 10 ≤ hi)
    (h2 : lo ≤ v * 10 + sgn neg d ∧ v * 10 + sgn neg d ≤ hi) :
    intLoop neg lo hi (UInt8.ofNat (48 + d) :: rest) v first =
      intLoop neg lo hi rest (v * 10 + sgn neg d) false := by
  obtain ⟨p1, p2, _⟩ := digit_props ⟨d, hd⟩
  simp only at p1 p2
  have hstep : intStep neg (v * 10) (UInt8.ofNat (48 + d)) = v * 10 + sgn neg d := by
    unfold intStep sgn; rw [p2]; cases neg <;> simp <;> omega
  rw [intLoop, if_pos p1, if_neg (by omega), hstep, if_neg (by omega)]

theorem intLoop_decBytes (neg : Bool) (lo hi : Int) (hlo : lo ≤ 0) (hhi : 0 ≤ hi) (n : Nat) :
    ∀ (rest : Bytes), lo ≤ sgn neg n → sgn neg n ≤ hi →
    intLoop neg lo hi (decBytes n ++ rest) 0 true = intLoop neg lo hi rest (sgn neg n) false := by
  induction n using Nat.strongRecOn with
  | ind n ih =>
    intro rest hr1 hr2
    by_cases h : n < 10
    · rw [decBytes_lt n h]
      simp only [List.singleton_append]
      rw [intLoop_digit neg lo hi n h rest 0 true (by omega) (by omega)]
      simp
    · rw [decBytes_ge n h, List.append_assoc, List.singleton_append]
      have hq : n / 10 < n := by omega
      have hdm := Nat.div_add_mod n 10
      have hs1 : lo ≤ sgn neg (n / 10) ∧ sgn neg (n / 10) ≤ hi := by
        unfold sgn at *; cases neg <;> simp at * <;> omega
      rw [ih (n / 10) hq _ hs1.1 hs1.2]
      have hmod : n % 10 < 10 := Nat.mod_lt _ (by omega)
      have e : sgn neg (n / 10) * 10 + sgn neg (n % 10) = sgn neg n := by
        unfold sgn; cases neg <;> simp <;> omega
      rw [intLoop_digit neg lo hi (n % 10) hmod rest _ false
        (by unfold sgn at *; cases neg <;> simp at * <;> omega) (by rw [e]; omega), e]

/-- `rest` does not start with an ASCII digit -/
def noDigitHead (rest : Bytes) : Prop := ∀ b t, rest = b :: t → isDigit b = false

theorem intLoop_end (neg : Bool) (lo hi : Int) (rest : Bytes) (v : Int) (h : noDigitHead rest) :
    intLoop neg lo hi rest v false = .ok v rest := by
  cases rest with
  | nil => simp [intLoop]
  | cons b t => simp [intLoop, h b t rfl]

theorem splitSign_other (b : UInt8) (r : Bytes) (h1 : b ≠ 45) (h2 : b ≠ 43) :
    splitSign (b :: r) = (false, b :: r) := by
  unfold splitSign
  split
  · rename_i heq; simp at heq; exact absurd heq.1 h1
  · rename_i heq; simp at heq; exact absurd heq.1 h2
  · rfl

/-- `i32` reads back a printed in-range integer -/
theorem signedInt_intBytes (lo hi : Int) (hlo : lo ≤ 0) (hhi : 0 ≤ hi) (i : Int)
    (h1 : lo ≤ i) (h2 : i ≤ hi) (rest : Bytes) (hrest : noDigitHead rest) :
    signedInt lo hi (intBytes i ++ rest) = .ok i rest := by
  unfold signedInt intBytes
  by_cases hneg : i < 0
  · rw [if_pos hneg]
    have hs : splitSign (45 :: decBytes i.natAbs ++ rest) = (true, decBytes i.natAbs ++ rest) := rfl
    rw [hs]
    simp only []
    obtain ⟨d, _, t, ht⟩ := decBytes_head i.natAbs
    have hne : (decBytes i.natAbs ++ rest).isEmpty = false := by rw [ht]; rfl
    rw [hne]
    simp only [Bool.false_eq_true, if_false]
    have hsg : sgn true i.natAbs = i := by unfold sgn; simp; omega
    rw [intLoop_decBytes true lo hi hlo hhi _ _ (by omega) (by omega), hsg]
    exact intLoop_end _ _ _ _ _ hrest
  · rw [if_neg hneg]
    obtain ⟨d, hd, t, ht⟩ := decBytes_head i.natAbs
    obtain ⟨_, _, p3, p4, _⟩ := digit_props ⟨d, hd⟩
    have hs : splitSign (decBytes i.natAbs ++ rest) = (false, decBytes i.natAbs ++ rest) := by
      rw [ht]; exact splitSign_other _ _ p3 p4
    rw [hs]
    simp only []
    have hne : (decBytes i.natAbs ++ rest).isEmpty = false := by rw [ht]; rfl
    rw [hne]
    simp only [Bool.false_eq_true, if_false]
    have hsg : sgn false i.natAbs = i := by unfold sgn; simp; omega
    rw [intLoop_decBytes false lo hi hlo hhi _ _ (by omega) (by omega), hsg]
    exact intLoop_end _ _ _ _ _ hrest

def inI32 (i : Int) : Prop := -2147483648 ≤ i ∧ i ≤ 2147483647

instance (i : Int) : Decidable (inI32 i) := by unfold inI32; infer_instance

theorem i32_intBytes (i : Int) (h : inI32 i) (rest : Bytes) (hrest : noDigitHead rest) :
    i32 (intBytes i ++ rest) = .ok i rest :=
  signedInt_intBytes _ _ (by omega) (by omega) i h.1 h.2 rest hrest

theorem i64_intBytes (i : Int) (h : -9223372036854775808 ≤ i ∧ i ≤ 9223372036854775807)
    (rest : Bytes) (hrest : noDigitHead rest) : i64 (intBytes i ++ rest) = .ok i rest :=
  signedInt_intBytes _ _ (by omega) (by omega) i h.1 h.2 rest hrest

/-! ### `raw_string` and `string` on text without escapes -/

/-- scanning plain bytes: no backslash, no stop byte, up to a stop byte or the end of input -/
theorem scan_plain (stop : UInt8 → Bool) (s rest : Bytes)
    (hs : ∀ b ∈ s, b ≠ 92 ∧ stop b = false)
    (hrest : rest = [] ∨ ∃ c t, rest = c :: t ∧ c ≠ 92 ∧ stop c = true) :
    ∀ (n i e : Nat), s.length + 1 ≤ n → scan stop n (s ++ rest) i e = .ok (i + s.length, e) := by
  induction s with
  | nil =>
    intro n i e hn
    obtain ⟨n, rfl⟩ : ∃ m, n = m + 1 := ⟨n - 1, by simp at hn; omega⟩
    rcases hrest with rfl | ⟨c, t, rfl, hc, hst⟩
    · simp [scan]
    · have : (c == 92) = false := by simpa using hc
      simp [scan, this, hst]
  | cons b s ih =>
    intro n i e hn
    obtain ⟨n, rfl⟩ : ∃ m, n = m + 1 := ⟨n - 1, by simp at hn; omega⟩
    have hb := hs b (by simp)
    have hb1 : (b == 92) = false := by simpa using hb.1
    simp only [List.cons_append, scan, hb1, hb.2, Bool.false_eq_true, if_false]
    rw [ih (fun x hx => hs x (by simp [hx])) n (i + 1) e (by simp at hn; omega)]
    simp only [List.length_cons]
    have : i + 1 + s.length = i + (s.length + 1) := by omega
    rw [this]

/-- bytes allowed in an unescaped, unquoted name -/
def plainNameByte (b : UInt8) : Bool := !isRawDelim b && b != 92

/-- `rest` is empty or starts with one of the `raw_string` delimiters -/
def delimHead (rest : Bytes) : Prop := rest = [] ∨ ∃ c t, rest = c :: t ∧ isRawDelim c = true

theorem rawDelim_ne_bs (c : UInt8) (h : isRawDelim c = true) : c ≠ 92 := by
  intro hc; subst hc; simp [isRawDelim, rawDelims] at h

/-- `raw_string` reads back a plain name followed by a delimiter (or the end of input) -/
theorem rawString_plain (s rest : Bytes) (hne : s ≠ []) (hs : s.all plainNameByte = true)
    (hu : validUtf8 s = true) (hrest : delimHead rest) :
    rawString (s ++ rest) = .ok s rest := by
  have hs' : ∀ b ∈ s, b ≠ 92 ∧ isRawDelim b = false := by
    intro b hb
    have := List.all_eq_true.mp hs b hb
    simp [plainNameByte] at this
    exact ⟨this.2, this.1⟩
  have hscan : rawScan ((s ++ rest).length + 1) (s ++ rest) 0 0 = .ok (0 + s.length, 0) := by
    apply scan_plain isRawDelim s rest hs'
    · rcases hrest with h | ⟨c, t, h, hc⟩
      · exact Or.inl h
      · exact Or.inr ⟨c, t, h, rawDelim_ne_bs c hc, hc⟩
    · simp
  unfold rawString
  rw [hscan]
  have hpos : 0 + s.length > 0 := by
    cases s with
    | nil => exact absurd rfl hne
    | cons => simp
  simp only [Nat.zero_add] at hpos ⊢
  rw [if_pos hpos, if_neg (by simp)]
  simp [hu]

/-- `string` reads back a quoted text without backslash and quote -/
theorem string_plain (s rest : Bytes) (hs : s.all (fun b => b != 92 && b != 34) = true)
    (hu : validUtf8 s = true) :
    string (34 :: (s ++ 34 :: rest)) = .ok s rest := by
  have hs' : ∀ b ∈ s, b ≠ 92 ∧ (fun c : UInt8 => c == 34) b = false := by
    intro b hb
    have := List.all_eq_true.mp hs b hb
    simpa using this
  have hscan : strScan ((34 :: (s ++ 34 :: rest)).length + 1) (s ++ 34 :: rest) 1 0
      = .ok (1 + s.length, 0) := by
    apply scan_plain _ s (34 :: rest) hs'
    · exact Or.inr ⟨34, rest, rfl, by decide, by simp⟩
    · simp; omega
  unfold string
  simp only [bne_self_eq_false, Bool.false_eq_true, if_false]
  rw [hscan]
  have hlt : 1 + s.length < (34 :: (s ++ 34 :: rest)).length := by simp; omega
  simp only []
  rw [if_pos hlt]
  have htake : (List.take (1 + s.length) (34 :: (s ++ 34 :: rest))).drop 1 = s := by
    rw [Nat.add_comm, List.take_succ_cons]; simp
  have hdrop : List.drop (1 + s.length + 1) (34 :: (s ++ 34 :: rest)) = rest := by
    rw [Nat.add_comm 1 s.length]
    simp
  simp [htake, hdrop, hu]

/-- `string` fails on input that does not start with a quote -/
theorem string_error (i : Bytes) (h : ∀ t, i ≠ 34 :: t) : string i = .error := by
  unfold string
  cases i with
  | nil => rfl
  | cons q body =>
    have : q ≠ 34 := fun hq => h body (by rw [hq])
    simp [this]

/-! ### key paths -/

def isError {α} : PR α → Bool
  | .error => true
  | _ => false

/-- A plain (unquoted) key name that `Display` + `parse_key_paths` give back unchanged:
non-empty; no `raw_string` delimiter (which now includes tab/LF/CR and `&`) and no backslash;
valid UTF-8; and nom's `i32` fails on it (otherwise `key_path` reads an `Index`, e.g. for `12`
or `7up`; all-digit names that overflow `i32`, like `99999999999`, are fine). -/
def goodName (s : Bytes) : Bool :=
  !s.isEmpty && s.all plainNameByte && validUtf8 s && isError (i32 s)

/-- A quoted key name: no backslash, no double quote, valid UTF-8 (may be empty). -/
def goodQuoted (s : Bytes) : Bool := s.all (fun b => b != 92 && b != 34) && validUtf8 s

/-- The key paths for which print → parse is the identity. -/
def goodKP : KeyPath → Bool
  | .index i => decide (inI32 i)
  | .quoted s => goodQuoted s
  | .name s => goodName s

theorem intLoop_error_append (neg : Bool) (lo hi : Int) (rest : Bytes) (s : Bytes) :
    ∀ (v : Int) (f : Bool), intLoop neg lo hi s v f = .error →
      intLoop neg lo hi (s ++ rest) v f = .error := by
  induction s with
  | nil => intro v f h; simp [intLoop] at h
  | cons b t ih =>
    intro v f h
    simp only [List.cons_append]
    unfold intLoop at h ⊢
    split
    · rename_i hd
      rw [if_pos hd] at h
      split
      · rfl
      · rename_i h1
        rw [if_neg h1] at h
        split
        · rfl
        · rename_i h2
          rw [if_neg h2] at h
          exact ih _ _ h
    · rename_i hd
      rw [if_neg hd] at h
      split
      · rfl
      · rename_i hf; rw [if_neg hf] at h; simp at h

theorem i32_error_append (b : UInt8) (t rest : Bytes) (h1 : b ≠ 45) (h2 : b ≠ 43)
    (h : isError (i32 (b :: t)) = true) : i32 (b :: t ++ rest) = .error := by
  unfold i32 signedInt at h ⊢
  simp only [List.cons_append]
  rw [splitSign_other _ _ h1 h2] at h ⊢
  simp only [List.isEmpty_cons, Bool.false_eq_true, if_false] at h ⊢
  apply intLoop_error_append _ _ _ rest (b :: t)
  cases hh : intLoop false (-2147483648) 2147483647 (b :: t) 0 true <;> simp [hh, isError] at h ⊢

theorem i32_nondigit (b : UInt8) (t : Bytes) (h1 : b ≠ 45) (h2 : b ≠ 43) (h3 : isDigit b = false) :
    i32 (b :: t) = .error := by
  unfold i32 signedInt
  rw [splitSign_other _ _ h1 h2]
  simp [intLoop, h3]

theorem dropSpaces_nonspace (b : UInt8) (t : Bytes) (h : isSpace b = false) :
    dropSpaces (b :: t) = b :: t := by
  simp [dropSpaces, h]

/-- `rest` is what follows an element inside `{…}`: a comma or the closing brace -/
def kpEnd (rest : Bytes) : Prop := ∃ c t, rest = c :: t ∧ (c = 44 ∨ c = 125)

theorem kpEnd_props {rest : Bytes} (h : kpEnd rest) :
    noDigitHead rest ∧ delimHead rest ∧ dropSpaces rest = rest := by
  obtain ⟨c, t, rfl, hc⟩ := h
  rcases hc with rfl | rfl
  · exact ⟨by intro b t' e; simp at e; rw [← e.1]; decide,
      Or.inr ⟨_, _, rfl, by decide⟩, dropSpaces_nonspace _ _ (by decide)⟩
  · exact ⟨by intro b t' e; simp at e; rw [← e.1]; decide,
      Or.inr ⟨_, _, rfl, by decide⟩, dropSpaces_nonspace _ _ (by decide)⟩

theorem intBytes_head (i : Int) : ∃ b t, intBytes i = b :: t ∧ isSpace b = false ∧
    b ≠ 34 ∧ b ≠ 42 ∧ b ≠ 108 ∧ b ≠ 76 := by
  unfold intBytes
  split
  · exact ⟨45, _, rfl, by decide, by decide, by decide, by decide, by decide⟩
  · obtain ⟨d, hd, t, ht⟩ := decBytes_head i.natAbs
    obtain ⟨_, _, _, _, p5, p6, p7, p8, p9⟩ := digit_props ⟨d, hd⟩
    exact ⟨_, t, ht, p5, p6, p7, p8, p9⟩

theorem plainNameByte_not_space (b : UInt8) (h : plainNameByte b = true) : isSpace b = false := by
  have h' : ¬ (b ∈ rawDelims) ∧ b ≠ 92 := by simpa [plainNameByte, isRawDelim] using h
  cases hs : isSpace b with
  | false => rfl
  | true =>
    exfalso
    have : b = 32 ∨ b = 9 ∨ b = 13 ∨ b = 10 := by simpa [isSpace, or_assoc] using hs
    rcases this with rfl | rfl | rfl | rfl <;> simp [rawDelims] at h'

theorem plainNameByte_props (b : UInt8) (h : plainNameByte b = true) :
    b ≠ 45 ∧ b ≠ 43 ∧ b ≠ 34 ∧ b ≠ 42 := by
  have h' : ¬ (b ∈ rawDelims) ∧ b ≠ 92 := by simpa [plainNameByte, isRawDelim] using h
  refine ⟨?_, ?_, ?_, ?_⟩ <;> intro hb <;> subst hb <;> simp [rawDelims] at h'

/-- `key_path` reads back one printed good element -/
theorem keyPath_print (k : KeyPath) (hk : goodKP k = true) (rest : Bytes) (hr : kpEnd rest) :
    keyPath (printKeyPath k ++ rest) = .ok k rest := by
  obtain ⟨hnd, hdl, _⟩ := kpEnd_props hr
  cases k with
  | index i =>
    have hi : inI32 i := by simpa [goodKP] using hk
    simp [keyPath, printKeyPath, alt, map, i32_intBytes i hi rest hnd, PR.bind]
  | quoted s =>
    have hq : s.all (fun b => b != 92 && b != 34) = true ∧ validUtf8 s = true := by
      simpa [goodKP, goodQuoted] using hk
    have e : printKeyPath (.quoted s) ++ rest = 34 :: (s ++ 34 :: rest) := by
      simp [printKeyPath]
    rw [e]
    have h1 : i32 (34 :: (s ++ 34 :: rest)) = .error :=
      i32_nondigit _ _ (by decide) (by decide) (by decide)
    simp [keyPath, alt, map, h1, string_plain s rest hq.1 hq.2, PR.bind]
  | name s =>
    cases s with
    | nil => simp [goodKP, goodName] at hk
    | cons b t =>
      have hg : (b :: t).all plainNameByte = true ∧ validUtf8 (b :: t) = true ∧
          isError (i32 (b :: t)) = true := by
        simpa [goodKP, goodName, and_assoc] using hk
      obtain ⟨hall, hu, herr⟩ := hg
      have hb : plainNameByte b = true := (List.all_eq_true.mp hall) b (by simp)
      obtain ⟨p1, p2, p3, _⟩ := plainNameByte_props b hb
      have h1 := i32_error_append b t rest p1 p2 herr
      have h2 : string (b :: t ++ rest) = .error :=
        string_error _ (by intro t' e; simp at e; exact p3 e.1)
      have h3 := rawString_plain (b :: t) rest (by simp) hall hu hdl
      simp only [List.cons_append] at h1 h2 h3
      simp only [printKeyPath]
      simp [keyPath, alt, map, h1, h2, h3, PR.bind]

theorem printKeyPath_head (k : KeyPath) (hk : goodKP k = true) :
    ∃ b t, printKeyPath k = b :: t ∧ isSpace b = false := by
  cases k with
  | index i =>
    obtain ⟨b, t, h, hs, _⟩ := intBytes_head i
    exact ⟨b, t, h, hs⟩
  | quoted s => exact ⟨34, s ++ [34], by simp [printKeyPath], by decide⟩
  | name s =>
    cases s with
    | nil => simp [goodKP, goodName] at hk
    | cons b t =>
      have : isSpace b = false := by
        have hg : (b :: t).all plainNameByte = true ∧
            validUtf8 (b :: t) = true ∧ isError (i32 (b :: t)) = true := by
          simpa [goodKP, goodName, and_assoc] using hk
        exact plainNameByte_not_space b ((List.all_eq_true.mp hg.1) b (by simp))
      exact ⟨b, t, rfl, this⟩

/-- `delimited(multispace0, key_path, multispace0)` reads back one printed good element -/
theorem keyPathWs_print (k : KeyPath) (hk : goodKP k = true) (rest : Bytes) (hr : kpEnd rest) :
    delimited ws keyPath ws (printKeyPath k ++ rest) = .ok k rest := by
  obtain ⟨b, t, hbt, hsp⟩ := printKeyPath_head k hk
  have h1 : dropSpaces (printKeyPath k ++ rest) = printKeyPath k ++ rest := by
    rw [hbt]; exact dropSpaces_nonspace _ _ hsp
  have h2 := (kpEnd_props hr).2.2
  simp [delimited, ws, multispace0, h1, keyPath_print k hk rest hr, h2, PR.bind]

/-- `,e1,e2,…` -/
def commaList : List KeyPath → Bytes
  | [] => []
  | k :: ks => 44 :: printKeyPath k ++ commaList ks

theorem printKeyPathList_cons (k : KeyPath) (ks : List KeyPath) :
    printKeyPathList (k :: ks) = printKeyPath k ++ commaList ks := by
  induction ks generalizing k with
  | nil => simp [printKeyPathList, commaList]
  | cons k' ks ih =>
    rw [printKeyPathList, ih k']
    · simp [commaList]
    · simp

theorem kpEnd_commaList (ks : List KeyPath) (tail : Bytes) : kpEnd (commaList ks ++ 125 :: tail) := by
  cases ks with
  | nil => exact ⟨125, tail, rfl, Or.inr rfl⟩
  | cons k ks => exact ⟨44, _, rfl, Or.inl rfl⟩

theorem length_le_commaList (ks : List KeyPath) : ks.length ≤ (commaList ks).length := by
  induction ks with
  | nil => simp
  | cons a as ih => simp [commaList]; omega

theorem ws_nonspace (b : UInt8) (t : Bytes) (h : isSpace b = false) :
    ws (b :: t) = .ok () (b :: t) := by
  simp [ws, multispace0, dropSpaces, h]

theorem ws_nil : ws [] = .ok () [] := rfl

theorem char_hit (c : UInt8) (t : Bytes) : char c (c :: t) = .ok c t := by simp [char]

/-- the loop of `separated_list1(char(','), …)` over the remaining printed elements -/
theorem sepLoop_commaList (ks : List KeyPath) (hks : ks.all goodKP = true) (tail : Bytes) :
    ∀ (n : Nat) (acc : List KeyPath), ks.length + 1 ≤ n →
    sepList1Loop (char 44) (delimited ws keyPath ws) n (commaList ks ++ 125 :: tail) acc =
      .ok (acc.reverse ++ ks) (125 :: tail) := by
  induction ks with
  | nil =>
    intro n acc hn
    obtain ⟨n, rfl⟩ : ∃ m, n = m + 1 := ⟨n - 1, by simp at hn; omega⟩
    simp [commaList, sepList1Loop, char]
  | cons k ks ih =>
    intro n acc hn
    obtain ⟨n, rfl⟩ : ∃ m, n = m + 1 := ⟨n - 1, by simp at hn; omega⟩
    have hk : goodKP k = true ∧ ks.all goodKP = true := by simpa using hks
    have hstep := keyPathWs_print k hk.1 (commaList ks ++ 125 :: tail) (kpEnd_commaList ks tail)
    simp only [commaList, List.cons_append, List.append_assoc, sepList1Loop, char, beq_self_eq_true,
      if_true]
    rw [if_neg (by simp)]
    rw [hstep]
    simp only []
    rw [ih hk.2 n (k :: acc) (by simp at hn; omega)]
    simp

/-- `parse_key_paths(format!("{}", KeyPaths { paths: ps }))` = `Ok(ps)` for good `ps`
(including the empty list, printed `{}`). -/
theorem parseKeyPaths_print (ps : List KeyPath) (hps : ps.all goodKP = true) :
    parseKeyPaths (printKeyPaths ps) = .ok ps := by
  unfold parseKeyPaths printKeyPaths
  cases ps with
  | nil =>
    have h1 : keyPath [125] = .error := by
      have a : i32 [125] = .error := i32_nondigit _ _ (by decide) (by decide) (by decide)
      have b : string [125] = .error := string_error _ (by intro t e; simp at e)
      have c : rawString [125] = .error := by
        simp [rawString, rawScan, scan, isRawDelim, rawDelims]
      simp [keyPath, alt, map, a, b, c, PR.bind]
    simp [printKeyPathList, keyPaths, alt, delimited, preceded, terminated, map, separatedList1, ws,
      multispace0, dropSpaces, isSpace, char, h1, PR.bind, finish]
  | cons k ks =>
    have hk : goodKP k = true ∧ ks.all goodKP = true := by simpa using hps
    rw [printKeyPathList_cons]
    have hfirst := keyPathWs_print k hk.1 (commaList ks ++ [125]) (kpEnd_commaList ks [])
    have hloop := sepLoop_commaList ks hk.2 [] ((commaList ks ++ [125]).length + 1) [k]
      (by have := length_le_commaList ks; simp; omega)
    have hsl : separatedList1 (char 44) (delimited ws keyPath ws)
        (printKeyPath k ++ (commaList ks ++ [125])) = .ok (k :: ks) [125] := by
      unfold separatedList1
      rw [hfirst]
      simp only [PR.bind]
      rw [hloop]; simp
    have e : [123] ++ (printKeyPath k ++ commaList ks) ++ [125]
        = 123 :: (printKeyPath k ++ (commaList ks ++ [125])) := by simp
    rw [e]
    simp only [keyPaths, alt, delimited, preceded, terminated, PR.bind,
      ws_nonspace 123 _ (by decide), char_hit, hsl, ws_nil, finish]

/-- an example satisfying the predicate: `{a,"b c",-3,99999999999,测}` -/
example : [KeyPath.name [97], .quoted [98, 32, 99], .index (-3),
    .name [57, 57, 57, 57, 57, 57, 57, 57, 57, 57, 57], .name [0xE6, 0xB5, 0x8B]].all goodKP = true := by
  decide

/-! ### JSONPath step sequences -/

/-- An array index that `Display` + `parse_json_path` give back unchanged: any `Index(n)` /
`LastIndex(n)` with `n` an `i32`.  (`LastIndex(i32::MIN)` prints as `last-2147483648`; since the
fix of `index` the offset after `last -` is read as an `i64`, so it parses back.) -/
def goodIndex : Index → Bool
  | .index n => decide (inI32 n)
  | .last n => decide (inI32 n)

def goodArrayIndex : ArrayIndex → Bool
  | .index i => goodIndex i
  | .slice s e => goodIndex s && goodIndex e

/-- A field name printed without quotes: non-empty, no `raw_string` delimiter, no backslash,
valid UTF-8.  (All-digit names are fine here: `.12` is a `DotField`.) -/
def goodField (s : Bytes) : Bool := !s.isEmpty && s.all plainNameByte && validUtf8 s

/-- what may follow a printed `Index`: `,` or `]`, or the ` to ` of a slice -/
def idxEnd (r : Bytes) : Prop :=
  (∃ c t, r = c :: t ∧ (c = 44 ∨ c = 93)) ∨ (∃ t, r = 32 :: 116 :: 111 :: 32 :: t)

theorem idxEnd_props {r : Bytes} (h : idxEnd r) :
    noDigitHead r ∧ char 45 (dropSpaces r) = .error ∧ char 43 (dropSpaces r) = .error := by
  rcases h with ⟨c, t, rfl, rfl | rfl⟩ | ⟨t, rfl⟩
  · exact ⟨by intro b t' e; simp at e; rw [← e.1]; decide, by simp [dropSpaces, isSpace, char],
      by simp [dropSpaces, isSpace, char]⟩
  · exact ⟨by intro b t' e; simp at e; rw [← e.1]; decide, by simp [dropSpaces, isSpace, char],
      by simp [dropSpaces, isSpace, char]⟩
  · exact ⟨by intro b t' e; simp at e; rw [← e.1]; decide, by simp [dropSpaces, isSpace, char],
      by simp [dropSpaces, isSpace, char]⟩

theorem tagNoCase_last (t : Bytes) :
    tagNoCase kwLast (108 :: 97 :: 115 :: 116 :: t) = .ok [108, 97, 115, 116] t := by
  simp [tagNoCase, kwLast, isPrefixNoCase, lowerByte]

theorem i32_l (t : Bytes) : i32 (108 :: t) = .error :=
  i32_nondigit _ _ (by decide) (by decide) (by decide)

theorem ws_eq (i : Bytes) : ws i = .ok () (dropSpaces i) := rfl

theorem intBytes_natAbs_neg (n : Int) (h : n < 0) : intBytes n = 45 :: intBytes (n.natAbs : Int) := by
  unfold intBytes
  rw [if_pos h, if_neg (by omega)]
  simp

/-- `index` reads back a printed good `Index` -/
theorem index_print (x : Index) (hx : goodIndex x = true) (r : Bytes) (hr : idxEnd r) :
    index (printIndex x ++ r) = .ok x r := by
  obtain ⟨hnd, hm, hp⟩ := idxEnd_props hr
  cases x with
  | index n =>
    have hn : inI32 n := by simpa [goodIndex] using hx
    simp [index, printIndex, alt, map, i32_intBytes n hn r hnd, PR.bind]
  | last n =>
    have hn : -2147483648 ≤ n ∧ n ≤ 2147483647 := by
      have : inI32 n := by simpa [goodIndex] using hx
      exact this
    by_cases hpos : n > 0
    · have e : printIndex (.last n) ++ r = 108 :: 97 :: 115 :: 116 :: 43 :: (intBytes n ++ r) := by
        simp [printIndex, hpos]
      rw [e]
      obtain ⟨b, t, hbt, hsp, _⟩ := intBytes_head n
      have hds : dropSpaces (intBytes n ++ r) = intBytes n ++ r := by
        rw [hbt]; exact dropSpaces_nonspace _ _ hsp
      have hi := i32_intBytes n ⟨by omega, by omega⟩ r hnd
      simp [index, alt, map, preceded, tuple4, i32_l, tagNoCase_last, ws_eq, dropSpaces, isSpace,
        char, hds, hi, PR.bind]
    · by_cases hneg : n < 0
      · have e : printIndex (.last n) ++ r
            = 108 :: 97 :: 115 :: 116 :: 45 :: (intBytes (n.natAbs : Int) ++ r) := by
          have : ¬ n > 0 := hpos
          simp [printIndex, this, hneg, intBytes_natAbs_neg n hneg]
        rw [e]
        obtain ⟨b, t, hbt, hsp, _⟩ := intBytes_head (n.natAbs : Int)
        have hds : dropSpaces (intBytes (n.natAbs : Int) ++ r) = intBytes (n.natAbs : Int) ++ r := by
          rw [hbt]; exact dropSpaces_nonspace _ _ hsp
        have hi := i64_intBytes (n.natAbs : Int) ⟨by omega, by omega⟩ r hnd
        have hsat : lastMinus (n.natAbs : Int) = .last n := by
          unfold lastMinus saturatingNeg64 clampI32
          rw [if_neg (by omega), if_neg (by omega), if_neg (by omega)]
          congr 1; omega
        simp [index, alt, map, preceded, tuple4, i32_l, tagNoCase_last, ws_eq, dropSpaces, isSpace,
          char, hds, hi, hsat, PR.bind]
      · have h0 : n = 0 := by omega
        subst h0
        have e : printIndex (.last 0) ++ r = 108 :: 97 :: 115 :: 116 :: r := by
          simp [printIndex]
        rw [e]
        simp [index, alt, map, preceded, tuple4, i32_l, tagNoCase_last, ws_eq, hm, hp, PR.bind]

/-- what may follow a printed `ArrayIndex`: `,` or `]` -/
def aiEnd (r : Bytes) : Prop := ∃ c t, r = c :: t ∧ (c = 44 ∨ c = 93)

theorem printIndex_head (x : Index) : ∃ b t, printIndex x = b :: t ∧ isSpace b = false ∧ b ≠ 42 := by
  cases x with
  | index n =>
    obtain ⟨b, t, h, h1, _, h3, _⟩ := intBytes_head n
    exact ⟨b, t, h, h1, h3⟩
  | last n => exact ⟨108, _, by simp [printIndex]; rfl, by decide, by decide⟩

theorem tagNoCase_to_miss (c : UInt8) (t : Bytes) (h : c = 44 ∨ c = 93) :
    tagNoCase kwTo (c :: t) = .error := by
  rcases h with rfl | rfl <;> simp [tagNoCase, kwTo, isPrefixNoCase, lowerByte]

/-- `array_index` reads back a printed good `ArrayIndex` -/
theorem arrayIndex_print (a : ArrayIndex) (ha : goodArrayIndex a = true) (r : Bytes) (hr : aiEnd r) :
    arrayIndex (printArrayIndex a ++ r) = .ok a r := by
  obtain ⟨c, t, rfl, hc⟩ := hr
  have hsp : dropSpaces (c :: t) = c :: t :=
    dropSpaces_nonspace _ _ (by rcases hc with rfl | rfl <;> decide)
  cases a with
  | index i =>
    have hi := index_print i (by simpa [goodArrayIndex] using ha) (c :: t) (Or.inl ⟨c, t, rfl, hc⟩)
    simp only [printArrayIndex]
    simp [arrayIndex, alt, map, separatedPair, delimited, hi, ws_eq, hsp,
      tagNoCase_to_miss c t hc, PR.bind]
  | slice s e =>
    have hg : goodIndex s = true ∧ goodIndex e = true := by simpa [goodArrayIndex] using ha
    have e1 : printArrayIndex (.slice s e) ++ c :: t
        = printIndex s ++ (32 :: 116 :: 111 :: 32 :: (printIndex e ++ c :: t)) := by
      simp [printArrayIndex]
    rw [e1]
    have hs := index_print s hg.1 (32 :: 116 :: 111 :: 32 :: (printIndex e ++ c :: t))
      (Or.inr ⟨_, rfl⟩)
    have he := index_print e hg.2 (c :: t) (Or.inl ⟨c, t, rfl, hc⟩)
    obtain ⟨b, t', hbt, hb1, _⟩ := printIndex_head e
    have hds : dropSpaces (printIndex e ++ c :: t) = printIndex e ++ c :: t := by
      rw [hbt]; exact dropSpaces_nonspace _ _ hb1
    have htag : tagNoCase kwTo (116 :: 111 :: 32 :: (printIndex e ++ c :: t))
        = .ok [116, 111] (32 :: (printIndex e ++ c :: t)) := by
      simp [tagNoCase, kwTo, isPrefixNoCase, lowerByte]
    simp [arrayIndex, alt, map, separatedPair, delimited, hs, ws_eq, dropSpaces, isSpace, htag, hds,
      he, PR.bind]

theorem printArrayIndex_head (a : ArrayIndex) :
    ∃ b t, printArrayIndex a = b :: t ∧ isSpace b = false ∧ b ≠ 42 := by
  cases a with
  | index i => exact printIndex_head i
  | slice s e =>
    obtain ⟨b, t, h, h1, h2⟩ := printIndex_head s
    exact ⟨b, t ++ ([32, 116, 111, 32] ++ printIndex e), by simp [printArrayIndex, h], h1, h2⟩

/-- `delimited(multispace0, array_index, multispace0)`, possibly after the space of `", "` -/
theorem arrayIndexWs_print (a : ArrayIndex) (ha : goodArrayIndex a = true) (r : Bytes) (hr : aiEnd r) :
    delimited ws arrayIndex ws (printArrayIndex a ++ r) = .ok a r ∧
    delimited ws arrayIndex ws (32 :: (printArrayIndex a ++ r)) = .ok a r := by
  obtain ⟨b, t, hbt, hb1, _⟩ := printArrayIndex_head a
  have hds : dropSpaces (printArrayIndex a ++ r) = printArrayIndex a ++ r := by
    rw [hbt]; exact dropSpaces_nonspace _ _ hb1
  have hr' : dropSpaces r = r := by
    obtain ⟨c, t, rfl, hc⟩ := hr
    exact dropSpaces_nonspace _ _ (by rcases hc with rfl | rfl <;> decide)
  have h := arrayIndex_print a ha r hr
  constructor
  · simp [delimited, ws_eq, hds, h, hr', PR.bind]
  · simp [delimited, ws_eq, dropSpaces, isSpace, hds, h, hr', PR.bind]

/-- `, a1, a2, …` -/
def commaSpList : List ArrayIndex → Bytes
  | [] => []
  | a :: as => 44 :: 32 :: printArrayIndex a ++ commaSpList as

theorem printArrayIndexList_cons (a : ArrayIndex) (as : List ArrayIndex) :
    printArrayIndexList (a :: as) = printArrayIndex a ++ commaSpList as := by
  induction as generalizing a with
  | nil => simp [printArrayIndexList, commaSpList]
  | cons a' as ih =>
    rw [printArrayIndexList, ih a']
    · simp [commaSpList]
    · simp

theorem aiEnd_commaSpList (as : List ArrayIndex) (tail : Bytes) :
    aiEnd (commaSpList as ++ 93 :: tail) := by
  cases as with
  | nil => exact ⟨93, tail, rfl, Or.inr rfl⟩
  | cons a as => exact ⟨44, _, rfl, Or.inl rfl⟩

theorem length_le_commaSpList (as : List ArrayIndex) : as.length ≤ (commaSpList as).length := by
  induction as with
  | nil => simp
  | cons a as ih => simp [commaSpList]; omega

theorem sepLoop_commaSpList (as : List ArrayIndex) (has : as.all goodArrayIndex = true)
    (tail : Bytes) :
    ∀ (n : Nat) (acc : List ArrayIndex), as.length + 1 ≤ n →
    sepList1Loop (char 44) (delimited ws arrayIndex ws) n (commaSpList as ++ 93 :: tail) acc =
      .ok (acc.reverse ++ as) (93 :: tail) := by
  induction as with
  | nil =>
    intro n acc hn
    obtain ⟨n, rfl⟩ : ∃ m, n = m + 1 := ⟨n - 1, by simp at hn; omega⟩
    simp [commaSpList, sepList1Loop, char]
  | cons a as ih =>
    intro n acc hn
    obtain ⟨n, rfl⟩ : ∃ m, n = m + 1 := ⟨n - 1, by simp at hn; omega⟩
    have ha : goodArrayIndex a = true ∧ as.all goodArrayIndex = true := by simpa using has
    have hstep := (arrayIndexWs_print a ha.1 (commaSpList as ++ 93 :: tail)
      (aiEnd_commaSpList as tail)).2
    simp only [commaSpList, List.cons_append, List.append_assoc, sepList1Loop, char,
      beq_self_eq_true, if_true]
    rw [if_neg (by simp)]
    rw [hstep]
    simp only []
    rw [ih ha.2 n (a :: acc) (by simp at hn; omega)]
    simp

/-- `array_indices` reads back a printed non-empty list of good indices -/
theorem arrayIndices_print (a : ArrayIndex) (as : List ArrayIndex)
    (h : (a :: as).all goodArrayIndex = true) (tail : Bytes) :
    arrayIndices (91 :: (printArrayIndexList (a :: as) ++ 93 :: tail)) = .ok (a :: as) tail := by
  have ha : goodArrayIndex a = true ∧ as.all goodArrayIndex = true := by simpa using h
  rw [printArrayIndexList_cons, List.append_assoc]
  have hfirst := (arrayIndexWs_print a ha.1 (commaSpList as ++ 93 :: tail)
    (aiEnd_commaSpList as tail)).1
  have hloop := sepLoop_commaSpList as ha.2 tail ((commaSpList as ++ 93 :: tail).length + 1) [a]
    (by have := length_le_commaSpList as; simp; omega)
  have hsl : separatedList1 (char 44) (delimited ws arrayIndex ws)
      (printArrayIndex a ++ (commaSpList as ++ 93 :: tail)) = .ok (a :: as) (93 :: tail) := by
    unfold separatedList1
    rw [hfirst]
    simp only [PR.bind]
    rw [hloop]; simp
  simp only [arrayIndices, delimited, char_hit, PR.bind, hsl]

/-- The path steps covered by the JSONPath round trip. -/
def goodStep : Path → Bool
  | .dotWildcard => true
  | .bracketWildcard => true
  | .dotField s => goodField s
  | .arrayIndices is => !is.isEmpty && is.all goodArrayIndex
  | _ => false

/-- what follows a printed step: the end of input or the next step (`.` or `[`) -/
def stepEnd (r : Bytes) : Prop := r = [] ∨ ∃ c t, r = c :: t ∧ (c = 46 ∨ c = 91)

theorem stepEnd_props {r : Bytes} (h : stepEnd r) : delimHead r ∧ dropSpaces r = r := by
  rcases h with rfl | ⟨c, t, rfl, rfl | rfl⟩
  · exact ⟨Or.inl rfl, rfl⟩
  · exact ⟨Or.inr ⟨_, _, rfl, by decide⟩, dropSpaces_nonspace _ _ (by decide)⟩
  · exact ⟨Or.inr ⟨_, _, rfl, by decide⟩, dropSpaces_nonspace _ _ (by decide)⟩

variable (f : Nat → Bytes)

/-- `inner_path` reads back one printed good step -/
theorem innerPath_print (p : Path) (hp : goodStep p = true) (r : Bytes) (hr : stepEnd r) :
    innerPath (printPath f p ++ r) = .ok p r := by
  obtain ⟨hdl, _⟩ := stepEnd_props hr
  cases p with
  | dotWildcard =>
    simp [printPath, innerPath, alt, value, tag, isPrefix, PR.bind]
  | bracketWildcard =>
    simp [printPath, innerPath, alt, value, tag, isPrefix, bracketWildcard, delimited, char, ws_eq,
      dropSpaces, isSpace, PR.bind]
  | dotField s =>
    cases s with
    | nil => simp [goodStep, goodField] at hp
    | cons b t =>
      have hg : (b :: t).all plainNameByte = true ∧ validUtf8 (b :: t) = true := by
        simpa [goodStep, goodField] using hp
      have hb : plainNameByte b = true := (List.all_eq_true.mp hg.1) b (by simp)
      obtain ⟨_, _, p3, p4⟩ := plainNameByte_props b hb
      have e : printPath f (.dotField (b :: t)) ++ r = 46 :: b :: (t ++ r) := by
        simp [printPath]
      rw [e]
      have h2 : string (b :: (t ++ r)) = .error :=
        string_error _ (by intro t' e; simp at e; exact p3 e.1)
      have h3 := rawString_plain (b :: t) r (by simp) hg.1 hg.2 hdl
      simp only [List.cons_append] at h3
      have hb42 : (42 == b) = false := by
        simpa using (fun h : (42 : UInt8) = b => p4 h.symm)
      simp [innerPath, alt, value, map, tag, isPrefix, hb42, bracketWildcard, delimited, char,
        colonField, dotField, preceded, h2, h3, PR.bind]
  | arrayIndices is =>
    cases is with
    | nil => simp [goodStep] at hp
    | cons a as =>
      have hg : (a :: as).all goodArrayIndex = true := by simpa [goodStep] using hp
      have e : printPath f (.arrayIndices (a :: as)) ++ r
          = 91 :: (printArrayIndexList (a :: as) ++ 93 :: r) := by
        simp [printPath]
      rw [e]
      have hai := arrayIndices_print a as hg r
      obtain ⟨b, t, hbt, hb1, hb2⟩ := printArrayIndex_head a
      have hl : printArrayIndexList (a :: as) ++ 93 :: r = b :: (t ++ (commaSpList as ++ 93 :: r)) := by
        rw [printArrayIndexList_cons, hbt]; simp
      have hbw : bracketWildcard (91 :: (printArrayIndexList (a :: as) ++ 93 :: r)) = .error := by
        rw [hl]
        have : (b == 42) = false := by simpa using hb2
        simp [bracketWildcard, delimited, value, char, ws_eq, dropSpaces, hb1, this, PR.bind]
      simp [innerPath, alt, value, map, tag, isPrefix, hbw, colonField, dotField, preceded, char,
        hai, PR.bind]
  | root => simp [goodStep] at hp
  | current => simp [goodStep] at hp
  | colonField s => simp [goodStep] at hp
  | objectField s => simp [goodStep] at hp
  | arithmeticExpr e => simp [goodStep] at hp
  | filterExpr e => simp [goodStep] at hp
  | predicate e => simp [goodStep] at hp

theorem printPath_head (p : Path) (hp : goodStep p = true) :
    ∃ c t, printPath f p = c :: t ∧ (c = 46 ∨ c = 91) := by
  cases p with
  | dotWildcard => exact ⟨46, [42], by simp [printPath], Or.inl rfl⟩
  | bracketWildcard => exact ⟨91, [42, 93], by simp [printPath], Or.inr rfl⟩
  | dotField s => exact ⟨46, s, by simp [printPath], Or.inl rfl⟩
  | arrayIndices is => exact ⟨91, _, by simp [printPath]; rfl, Or.inr rfl⟩
  | root => simp [goodStep] at hp
  | current => simp [goodStep] at hp
  | colonField s => simp [goodStep] at hp
  | objectField s => simp [goodStep] at hp
  | arithmeticExpr e => simp [goodStep] at hp
  | filterExpr e => simp [goodStep] at hp
  | predicate e => simp [goodStep] at hp

/-- `delimited(multispace0, inner_path, multispace0)` reads back one printed good step -/
theorem innerPathWs_print (p : Path) (hp : goodStep p = true) (r : Bytes) (hr : stepEnd r) :
    delimited ws innerPath ws (printPath f p ++ r) = .ok p r := by
  obtain ⟨c, t, hct, hc⟩ := printPath_head f p hp
  have hds : dropSpaces (printPath f p ++ r) = printPath f p ++ r := by
    rw [hct]; exact dropSpaces_nonspace _ _ (by rcases hc with rfl | rfl <;> decide)
  simp [delimited, ws_eq, hds, innerPath_print f p hp r hr, (stepEnd_props hr).2, PR.bind]

theorem stepEnd_printPaths (ps : List Path) (hps : ps.all goodStep = true) :
    stepEnd (printPaths f ps) := by
  cases ps with
  | nil => exact Or.inl (by simp [printPaths])
  | cons p ps =>
    have hp : goodStep p = true := by
      have : goodStep p = true ∧ ps.all goodStep = true := by simpa using hps
      exact this.1
    obtain ⟨c, t, hct, hc⟩ := printPath_head f p hp
    exact Or.inr ⟨c, t ++ printPaths f ps, by simp [printPaths, hct], hc⟩

/-- `many0(q)` over printed good steps, for any parser `q` that reads one printed step and
fails at the end of input -/
theorem many0Loop_steps (q : Parser Path)
    (hq : ∀ p, goodStep p = true → ∀ r, stepEnd r → q (printPath f p ++ r) = .ok p r)
    (hend : q [] = .error) (ps : List Path) (hps : ps.all goodStep = true) :
    ∀ (n : Nat) (acc : List Path), ps.length + 1 ≤ n →
      many0Loop q n (printPaths f ps) acc = .ok (acc.reverse ++ ps) [] := by
  induction ps with
  | nil =>
    intro n acc hn
    obtain ⟨n, rfl⟩ : ∃ m, n = m + 1 := ⟨n - 1, by simp at hn; omega⟩
    simp [printPaths, many0Loop, hend]
  | cons p ps ih =>
    intro n acc hn
    obtain ⟨n, rfl⟩ : ∃ m, n = m + 1 := ⟨n - 1, by simp at hn; omega⟩
    have hp : goodStep p = true ∧ ps.all goodStep = true := by simpa using hps
    have hstep := hq p hp.1 (printPaths f ps) (stepEnd_printPaths f ps hp.2)
    obtain ⟨c, t, hct, _⟩ := printPath_head f p hp.1
    have hlen : ((printPaths f ps).length == (printPath f p ++ printPaths f ps).length) = false := by
      rw [hct]; simp; omega
    simp only [printPaths, many0Loop, hstep, hlen, Bool.false_eq_true, if_false]
    rw [ih hp.2 n (p :: acc) (by simp at hn; omega)]
    simp

theorem many0_steps (q : Parser Path)
    (hq : ∀ p, goodStep p = true → ∀ r, stepEnd r → q (printPath f p ++ r) = .ok p r)
    (hend : q [] = .error) (ps : List Path) (hps : ps.all goodStep = true) :
    many0 q (printPaths f ps) = .ok ps [] := by
  unfold many0
  rw [many0Loop_steps f q hq hend ps hps _ [] (by
    have : ps.length ≤ (printPaths f ps).length := by
      clear hq hend
      induction ps with
      | nil => simp
      | cons p ps ih =>
        have hp : goodStep p = true ∧ ps.all goodStep = true := by simpa using hps
        obtain ⟨c, t, hct, _⟩ := printPath_head f p hp.1
        have := ih hp.2
        simp [printPaths, hct]; omega
    omega)]
  simp

theorem innerPathWs_nil : delimited ws innerPath ws [] = .error := by
  simp [delimited, ws_eq, dropSpaces, innerPath, alt, value, map, tag, isPrefix, bracketWildcard,
    colonField, dotField, arrayIndices, objectField, preceded, terminated, char, PR.bind]

theorem path_nil (R : Bool → Parser Expr) : path R [] = .error := by
  simp only [path, alt, innerPathWs_nil]
  simp [map, delimited, filterExpr, ws_eq, dropSpaces, char, PR.bind]

theorem path_step (R : Bool → Parser Expr) (p : Path) (hp : goodStep p = true) (r : Bytes)
    (hr : stepEnd r) : path R (printPath f p ++ r) = .ok p r := by
  simp [path, alt, innerPathWs_print f p hp r hr]

/-- the `predicate` alternative fails on `$` followed by printed steps: `expr_paths` consumes
everything and no operator follows -/
theorem exprAtom_steps_error (R : Bool → Parser Expr) (steps : List Path)
    (hs : steps.all goodStep = true) :
    exprAtom R true (36 :: printPaths f steps) = .error := by
  have hm := many0_steps f (delimited ws innerPath ws) (innerPathWs_print f) innerPathWs_nil steps hs
  have hie : delimited ws (innerExpr true) ws (36 :: printPaths f steps)
      = .ok (.paths (.root :: steps)) [] := by
    simp [delimited, ws_eq, dropSpaces, isSpace, innerExpr, alt, map, exprPaths, pair, value, char,
      hm, PR.bind]
  simp only [exprAtom, alt, map, tuple3, pair, hie, PR.bind]
  simp [binaryArithOp, unaryArithOp, op, alt, value, char, tag,
    isPrefix, delimited, terminated, preceded, existsFn, kwExists, PR.bind]

theorem exprOr_steps_error (n : Nat) (steps : List Path) (hs : steps.all goodStep = true) :
    exprOr (n + 1) true (36 :: printPaths f steps) = .error := by
  simp [exprOr, exprOrStep, exprAnd, separatedList1, exprAtom_steps_error f _ steps hs, PR.bind]

/-- `parse_json_path(format!("{}", JsonPath { paths: [Root, steps…] }))` = `Ok` of the same
paths, for steps among `DotWildcard`, `BracketWildcard`, `DotField(good name)`,
`ArrayIndices(non-empty list of good indices)`. -/
theorem parseJsonPath_print (steps : List Path) (hs : steps.all goodStep = true) :
    parseJsonPath (printJsonPath f (.root :: steps)) = .ok (.root :: steps) := by
  have e : printJsonPath f (.root :: steps) = 36 :: printPaths f steps := by
    simp [printJsonPath, printPaths, printPath]
  rw [e]
  unfold parseJsonPath
  generalize hn : (36 :: printPaths f steps).length = n
  have hpred : predicate (n + 1) (36 :: printPaths f steps) = .error := by
    simp [predicate, map, delimited, ws_eq, dropSpaces, isSpace, exprOr_steps_error f n steps hs,
      PR.bind]
  have hm := many0_steps f (path (exprOr (n + 1))) (path_step f _) (path_nil _) steps hs
  have hpaths : paths (n + 1) (36 :: printPaths f steps) = .ok (.root :: steps) [] := by
    simp [paths, map, pair, opt, prePath, alt, value, char, hm, PR.bind]
  simp [jsonPath, delimited, ws_eq, dropSpaces, isSpace, predicateOrPaths, alt, hpred, hpaths,
    PR.bind, finish]

/-- an example: `$.store.book[0, 1 to last-1, last+2, last-2147483648 to -2147483648].*[*].测` -/
example : [Path.dotField [115, 116, 111, 114, 101], .dotField [98, 111, 111, 107],
    .arrayIndices [.index (.index 0), .slice (.index 1) (.last (-1)), .index (.last 2),
      .slice (.last (-2147483648)) (.index (-2147483648))],
    .dotWildcard, .bracketWildcard, .dotField [0xE6, 0xB5, 0x8B]].all goodStep = true := by
  decide

end PathRT

theorem parseKeyPaths_printKeyPaths (ps : List KeyPath) (hps : ps.all PathRT.goodKP = true) :
    parseKeyPaths (printKeyPaths ps) = .ok ps := PathRT.parseKeyPaths_print ps hps

theorem parseKeyPaths_printKeyPaths_nil : parseKeyPaths (printKeyPaths []) = .ok [] :=
  PathRT.parseKeyPaths_print [] rfl

/-- JSONPath print → parse round trip for `$` followed by good steps. -/
theorem parseJsonPath_printJsonPath (fmtF64 : Nat → Bytes) (steps : List Path)
    (hs : steps.all PathRT.goodStep = true) :
    parseJsonPath (printJsonPath fmtF64 (.root :: steps)) = .ok (.root :: steps) :=
  PathRT.parseJsonPath_print fmtF64 steps hs

end Jsonb

