/-
C10 core: the decoder model never reaches a panic site, for any bytes and any fuel; and every
string / key in a decoded value is well-formed UTF-8.
-/
import JsonbModel.De

namespace Jsonb

theorem Num.dec_ne_panic (bs : Bytes) (s : String) : Num.dec bs ≠ .panic s := by
  unfold Num.dec
  split
  · simp
  · simp only; repeat' split
    all_goals simp

theorem readEntries_length (n : Nat) (bs : Bytes) (es : List (Nat × Nat)) (rest : Bytes)
    (h : readEntries n bs = some (es, rest)) : es.length = n := by
  induction n generalizing bs es rest with
  | zero => simp [readEntries] at h; simp [h.1.symm]
  | succ n ih =>
    simp only [readEntries] at h
    cases hr : readU32 bs with
    | none => simp [hr] at h
    | some p =>
      obtain ⟨e, bs'⟩ := p
      simp only [hr] at h
      cases hr2 : readEntries n bs' with
      | none => simp [hr2] at h
      | some q =>
        obtain ⟨es0, r0⟩ := q
        simp only [hr2, Option.some.injEq, Prod.mk.injEq] at h
        rw [← h.1]; simp [ih bs' es0 r0 hr2]

def NoPanic {α} (r : Res α) : Prop := ∀ s, r ≠ .panic s

theorem decItems_length (fuel : Nat) (es : List (Nat × Nat)) (bs : Bytes) (vs : List JV) (rest : Bytes)
    (h : decItems fuel es bs = .ok (vs, rest)) : vs.length = es.length := by
  induction es generalizing fuel bs vs rest with
  | nil =>
    cases fuel with
    | zero => simp [decItems] at h
    | succ f => simp [decItems] at h; simp [h.1.symm]
  | cons e es ih =>
    obtain ⟨ty, len⟩ := e
    cases fuel with
    | zero => simp [decItems] at h
    | succ f =>
      simp only [decItems] at h
      split at h
      · rename_i v bs' _
        split at h
        · rename_i vs' bs'' hh
          simp only [Res.ok.injEq, Prod.mk.injEq] at h
          rw [← h.1]; simp [ih f bs' vs' bs'' hh]
        all_goals simp at h
      all_goals simp at h

theorem dec_nopanic (fuel : Nat) :
    (∀ bs, NoPanic (decJsonb fuel bs)) ∧
    (∀ ty len bs, NoPanic (decScalar fuel ty len bs)) ∧
    (∀ es bs, NoPanic (decItems fuel es bs)) ∧
    (∀ ks es bs, ks.length ≤ es.length → NoPanic (decObjVals fuel ks es bs)) := by
  induction fuel with
  | zero =>
    refine ⟨?_, ?_, ?_, ?_⟩ <;> intros <;> intro s <;> simp [decJsonb, decScalar, decItems, decObjVals]
  | succ f ih =>
    obtain ⟨ihJ, ihS, ihI, ihO⟩ := ih
    refine ⟨?_, ?_, ?_, ?_⟩
    · intro bs s
      simp only [decJsonb]
      split
      · simp
      · rename_i h bs1 _
        split
        · split
          · simp
          · split
            · simp
            · exact ihS _ _ _ s
        · split
          · split
            · simp
            · rename_i es bs2 _
              have := ihI es bs2
              split <;> simp_all [NoPanic]
          · split
            · split
              · simp
              · rename_i es bs2 hre
                have hlen := readEntries_length _ _ _ _ hre
                have h1 := ihI (es.take (hdrLen h)) bs2
                split
                · rename_i ks bs3 hk
                  have hkl := decItems_length _ _ _ _ _ hk
                  have h2 := ihO ks (es.drop (hdrLen h)) bs3 (by
                    rw [hkl]; simp [hlen]; omega)
                  split <;> simp_all [NoPanic]
                all_goals simp_all [NoPanic]
            · simp
    · intro ty len bs s
      simp only [decScalar]
      repeat' split
      all_goals first
        | (simp; done)
        | exact ihJ _ s
        | (rename_i h; exact absurd h (Num.dec_ne_panic _ _))
    · intro es bs s
      cases es with
      | nil => simp [decItems]
      | cons e es =>
        obtain ⟨ty, len⟩ := e
        simp only [decItems]
        have h1 := ihS ty len bs
        split
        · rename_i v bs1 _
          have h2 := ihI es bs1
          split <;> simp_all [NoPanic]
        all_goals simp_all [NoPanic]
    · intro ks es bs hle s
      cases ks with
      | nil => simp [decObjVals]
      | cons k ks =>
        cases es with
        | nil => simp at hle
        | cons e es =>
          obtain ⟨ty, len⟩ := e
          simp only [decObjVals]
          split
          · have h1 := ihS ty len bs
            split
            · rename_i v bs1 _
              have h2 := ihO ks es bs1 (by simpa using hle)
              split <;> simp_all [NoPanic]
            all_goals simp_all [NoPanic]
          · simp

theorem parseJsonb_ne_panic (bs : Bytes) (s : String) : parseJsonb bs ≠ .panic s := by
  unfold parseJsonb
  split
  · simp
  · have := (dec_nopanic (decFuel bs)).1 bs
    split <;> simp_all [NoPanic]

end Jsonb
