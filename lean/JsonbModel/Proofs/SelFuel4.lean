/-
Quantitative fuel adequacy for the JSONPath selector, part 4: closed forms for the cost.

For a base `b ≥ 5`:  `fecost b e ≤ 2 * b ^ exprSize e`  and
`wcost b a paths ≤ (a + 1) * b ^ pathsSize paths`;  hence `Sel.selFuel` (base
`(length + 4) * (pathsIdx + 2) ≥ 8`, exponent `pathsSize + 2`) covers the model's cost and the
extra `pathsSize + 1` the tree evaluator needs.
No Mathlib.
-/
import JsonbModel.Proofs.SelFuel3

namespace Jsonb
open JV Sel

/-! ### arithmetic -/

theorem one_le_pow' (b n : Nat) (hb : 1 ≤ b) : 1 ≤ b ^ n := Nat.pow_pos hb

theorem le_mul_of_one_le_left' (x y : Nat) (hx : 1 ≤ x) : y ≤ x * y := by
  have := Nat.mul_le_mul_right y hx
  omega

theorem le_mul_of_one_le_right' (x y : Nat) (hy : 1 ≤ y) : x ≤ x * y := by
  have := Nat.mul_le_mul_left x hy
  omega

/-- a non-filter path element -/
theorem arith_step (a a' b k y : Nat) (hb : 2 ≤ b) (hy : 1 ≤ y) (hk : b ≤ k) (ha : a' ≤ a * b) :
    1 + (a' + 1) * y ≤ (a + 1) * (k * y) := by
  have h1 : (a' + 1) * y ≤ (a * b + 1) * y := Nat.mul_le_mul_right y (by omega)
  have h2 : (a + 1) * (b * y) ≤ (a + 1) * (k * y) := Nat.mul_le_mul_left _ (Nat.mul_le_mul_right y hk)
  have h3 : (a * b + 1) * y = a * (b * y) + y := by rw [Nat.add_mul, Nat.mul_assoc, Nat.one_mul]
  have h4 : (a + 1) * (b * y) = a * (b * y) + b * y := by rw [Nat.add_mul, Nat.one_mul]
  have h5 : 2 * y ≤ b * y := Nat.mul_le_mul_right y hb
  omega

/-- a filter path element -/
theorem arith_filter (a b x y fe w : Nat) (hb : 5 ≤ b) (hx : 1 ≤ x) (hy : 1 ≤ y) (hfe : fe ≤ 2 * x)
    (hw : w ≤ (a + 1) * y) : a + 2 + fe + w ≤ (a + 1) * (b * x * y) := by
  have hz1 : y ≤ x * y := le_mul_of_one_le_left' x y hx
  have hz2 : x ≤ x * y := le_mul_of_one_le_right' x y hy
  have e1 : b * x * y = b * (x * y) := Nat.mul_assoc b x y
  rw [e1]
  generalize x * y = z at hz1 hz2
  have h1 : (a + 1) * (5 * z) ≤ (a + 1) * (b * z) := Nat.mul_le_mul_left _ (Nat.mul_le_mul_right z hb)
  have h2 : (a + 1) * (5 * z) = 5 * ((a + 1) * z) := by
    rw [Nat.mul_left_comm]
  have h3 : (a + 1) * y ≤ (a + 1) * z := Nat.mul_le_mul_left _ hz1
  have h4 : (a + 1) * z = a * z + z := by rw [Nat.add_mul, Nat.one_mul]
  have h5 : a ≤ a * z := le_mul_of_one_le_right' a z (by omega)
  omega

/-- `&&`, `||` and comparisons -/
theorem arith_bin (b x y fl fr : Nat) (hb : 3 ≤ b) (hx : 1 ≤ x) (hy : 1 ≤ y) (hl : fl ≤ 2 * x)
    (hr : fr ≤ 2 * y) : 1 + fl + fr ≤ 2 * (b * x * y) := by
  have hz1 : y ≤ x * y := le_mul_of_one_le_left' x y hx
  have hz2 : x ≤ x * y := le_mul_of_one_le_right' x y hy
  have e1 : b * x * y = b * (x * y) := Nat.mul_assoc b x y
  rw [e1]
  generalize x * y = z at hz1 hz2
  have h1 : 3 * z ≤ b * z := Nat.mul_le_mul_right z hb
  omega

/-- `exists(paths)` -/
theorem arith_exists (b y w : Nat) (hb : 2 ≤ b) (hy : 1 ≤ y) (hw : w ≤ (1 + 1) * y) :
    2 + w ≤ 2 * (b * y) := by
  have h1 : 2 * y ≤ b * y := Nat.mul_le_mul_right y hb
  omega

theorem pmul_le (b : Nat) (hb : 1 ≤ b) (p : Path) : pmul b p ≤ b := by
  unfold pmul; split <;> omega

theorem pcost_plain (b a : Nat) (p : Path) (hp : isPlain p = true) : pcost b a p = 1 := by
  cases p <;> first | (simp [isPlain] at hp; done) | simp only [pcost]

/-! ### the closed forms -/

/-- both bounds at once, by induction on a bound `n` of the AST size -/
theorem selCost_le (b : Nat) (hb : 5 ≤ b) : ∀ n : Nat,
    (∀ e : Expr, exprSize e ≤ n → fecost b e ≤ 2 * b ^ exprSize e) ∧
    (∀ ps : List Path, pathsSize ps ≤ n → ∀ a, wcost b a ps ≤ (a + 1) * b ^ pathsSize ps)
  | 0 => by
    refine ⟨fun e he => ?_, fun ps hps a => ?_⟩
    · have := exprSize_pos e; omega
    · cases ps with
      | nil => simp only [wcost_nil, pathsSize, Nat.pow_zero]; omega
      | cons p rest => have := pathSize_pos p; simp only [pathsSize] at hps; omega
  | n + 1 => by
    obtain ⟨ihe, ihp⟩ := selCost_le b hb n
    refine ⟨fun e he => ?_, fun ps hps a => ?_⟩
    · cases e with
      | binaryOp op l r =>
        simp only [exprSize] at he ⊢
        simp only [fecost]
        have hl := ihe l (by omega)
        have hr := ihe r (by omega)
        have e1 : b ^ (1 + exprSize l + exprSize r) = b * b ^ exprSize l * b ^ exprSize r := by
          rw [Nat.pow_add, Nat.pow_add, Nat.pow_one]
        rw [e1]
        exact arith_bin b _ _ _ _ (by omega) (one_le_pow' b _ (by omega)) (one_le_pow' b _ (by omega)) hl hr
      | existsFn ps =>
        simp only [exprSize] at he ⊢
        simp only [fecost]
        have hw := ihp ps (by omega) 1
        have e1 : b ^ (1 + pathsSize ps) = b * b ^ pathsSize ps := by rw [Nat.pow_add, Nat.pow_one]
        rw [e1]
        exact arith_exists b _ _ (by omega) (one_le_pow' b _ (by omega)) hw
      | paths ps =>
        simp only [fecost]
        have := one_le_pow' b (exprSize (.paths ps)) (by omega); omega
      | value pv =>
        simp only [fecost]
        have := one_le_pow' b (exprSize (.value pv)) (by omega); omega
      | arithUnary op e' =>
        simp only [fecost]
        have := one_le_pow' b (exprSize (.arithUnary op e')) (by omega); omega
      | arithBinary op l r =>
        simp only [fecost]
        have := one_le_pow' b (exprSize (.arithBinary op l r)) (by omega); omega
    · cases ps with
      | nil => simp only [wcost_nil, pathsSize, Nat.pow_zero]; omega
      | cons p rest =>
        simp only [pathsSize] at hps ⊢
        have hpp := pathSize_pos p
        rw [wcost_cons, Nat.pow_add]
        have hy := one_le_pow' b (pathsSize rest) (by omega)
        have hk : b ≤ b ^ pathSize p := by
          have := Nat.pow_le_pow_right (n := b) (by omega : 0 < b) hpp
          rwa [Nat.pow_one] at this
        have hrest := ihp rest (by omega) (a * pmul b p)
        rcases path_cases p with hp | rfl | rfl | ⟨e, hpe⟩
        · rw [pcost_plain b a p hp]
          have := arith_step a (a * pmul b p) b (b ^ pathSize p) (b ^ pathsSize rest) (by omega) hy hk
            (Nat.mul_le_mul_left a (pmul_le b (by omega) p))
          omega
        · simp only [pcost]
          have := arith_step a (a * pmul b .root) b (b ^ pathSize .root) (b ^ pathsSize rest) (by omega) hy hk
            (Nat.mul_le_mul_left a (pmul_le b (by omega) _))
          omega
        · simp only [pcost]
          have := arith_step a (a * pmul b .current) b (b ^ pathSize .current) (b ^ pathsSize rest) (by omega)
            hy hk (Nat.mul_le_mul_left a (pmul_le b (by omega) _))
          omega
        · have hpc : pcost b a p = a + 2 + fecost b e := by rcases hpe with rfl | rfl <;> simp only [pcost]
          have hpm : pmul b p = 1 := by rcases hpe with rfl | rfl <;> simp [pmul, isPlain]
          have hse : pathSize p = 1 + exprSize e := by rcases hpe with rfl | rfl <;> simp only [pathSize]
          have hfe := ihe e (by omega)
          rw [hpm, Nat.mul_one] at hrest
          rw [hpc, hpm, Nat.mul_one, hse, Nat.pow_add, Nat.pow_one]
          exact arith_filter a b _ _ _ _ hb (one_le_pow' b _ (by omega)) hy hfe hrest

theorem fecost_le (b : Nat) (hb : 5 ≤ b) (e : Expr) : fecost b e ≤ 2 * b ^ exprSize e :=
  (selCost_le b hb (exprSize e)).1 e (Nat.le_refl _)

theorem wcost_le (b : Nat) (hb : 5 ≤ b) (ps : List Path) (a : Nat) :
    wcost b a ps ≤ (a + 1) * b ^ pathsSize ps :=
  (selCost_le b hb (pathsSize ps)).2 ps (Nat.le_refl _) a

/-! ### `Sel.selFuel` covers the cost -/

/-- the base of `Sel.selFuel` -/
def selBase (root : Bytes) (jp : JsonPath) : Nat := (root.length + 4) * (pathsIdx jp + 2)

theorem selBase_ge (root : Bytes) (jp : JsonPath) : 8 ≤ selBase root jp := by
  have : 4 * 2 ≤ (root.length + 4) * (pathsIdx jp + 2) := Nat.mul_le_mul (by omega) (by omega)
  exact this

theorem selBase_mul (root : Bytes) (jp : JsonPath) :
    (root.length + 1) * (pathsIdx jp + 1) ≤ selBase root jp :=
  Nat.mul_le_mul (by omega) (by omega)

theorem selFuel_eq (root : Bytes) (jp : JsonPath) :
    selFuel root jp = selBase root jp ^ (pathsSize jp + 2) + 16 := rfl

/-- the model's cost, the spec's slack, and room to spare -/
theorem selFuel_covers (root : Bytes) (jp : JsonPath) :
    (1 + wcost (selBase root jp) 1 jp) + (pathsSize jp + 1) ≤ selFuel root jp := by
  have hb := selBase_ge root jp
  rw [selFuel_eq]
  generalize selBase root jp = b at hb
  have h1 := wcost_le b (by omega) jp 1
  have h2 : pathsSize jp < b ^ pathsSize jp := Nat.lt_pow_self (by omega)
  have e1 : b ^ (pathsSize jp + 2) = b ^ pathsSize jp * (b * b) := by
    rw [Nat.pow_add, Nat.pow_two]
  have h3 : 8 * 8 ≤ b * b := Nat.mul_le_mul hb hb
  have h4 : b ^ pathsSize jp * (8 * 8) ≤ b ^ pathsSize jp * (b * b) := Nat.mul_le_mul_left _ h3
  rw [e1]
  generalize b ^ pathsSize jp = y at h1 h2 h4
  generalize y * (b * b) = z at h4
  omega

end Jsonb
