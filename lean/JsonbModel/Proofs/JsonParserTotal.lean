/-
The JSON text parser model never reaches a panic site, for any input bytes
(`parseValue_ne_panic`), and every successful sub-parse advances the cursor inside the buffer.
-/
import JsonbModel.Proofs.JsonParserString

namespace Jsonb
namespace JP

/-- no panic, and a postcondition on success -/
def Spec {α} (r : Res α) (P : α → Prop) : Prop := NP r ∧ ∀ a, r = .ok a → P a

theorem Spec_ok {α} {a : α} {P : α → Prop} (h : P a) : Spec (Res.ok a) P :=
  ⟨NP_ok a, fun b hb => by cases hb; exact h⟩
theorem Spec_pure {α} {a : α} {P : α → Prop} (h : P a) : Spec (pure a : Res α) P := Spec_ok h
theorem Spec_err {α} {e : String} {P : α → Prop} : Spec (Res.err e : Res α) P :=
  ⟨NP_err e, fun b hb => by cases hb⟩
theorem Spec_fuel {α} {P : α → Prop} : Spec (Res.fuel : Res α) P :=
  ⟨NP_fuel, fun b hb => by cases hb⟩

theorem Spec_bind {α β} {x : Res α} {f : α → Res β} {Q : α → Prop} {P : β → Prop}
    (hx : Spec x Q) (hf : ∀ a, Q a → Spec (f a) P) : Spec (x >>= f) P := by
  cases x with
  | ok a => simpa using hf a (hx.2 a rfl)
  | err e => exact Spec_err
  | panic s => exact absurd rfl (hx.1 s)
  | fuel => exact Spec_fuel

theorem Spec_mono {α} {r : Res α} {P Q : α → Prop} (h : Spec r P) (hpq : ∀ a, P a → Q a) :
    Spec r Q := ⟨h.1, fun a ha => hpq a (h.2 a ha)⟩

theorem skipUnused_Spec (buf : Bytes) (i : Nat) :
    Spec (skipUnused buf i) (fun j => i ≤ j ∧ (j ≤ buf.length ∨ j = i)) := by
  obtain ⟨j, e, h⟩ := skipUnused_spec buf i
  rw [e]; exact Spec_ok h

theorem next_Spec (buf : Bytes) (i : Nat) : Spec (next buf i) (fun c => buf[i]? = some c) := by
  unfold next
  cases buf[i]? with
  | none => exact Spec_err
  | some c => exact Spec_ok rfl

theorem mustIs_Spec (buf : Bytes) (i : Nat) (c : UInt8) :
    Spec (mustIs buf i c) (fun j => j = i + 1 ∧ i < buf.length) := by
  unfold mustIs
  cases h : buf[i]? with
  | none => exact Spec_err
  | some v =>
    simp only
    split
    · exact Spec_ok ⟨rfl, (List.getElem?_eq_some_iff.mp h).1⟩
    · exact Spec_err

theorem mustAll_Spec (buf : Bytes) (i : Nat) (cs : List UInt8) :
    Spec (mustAll buf i cs) (fun j => j = i + cs.length ∧ (0 < cs.length → j ≤ buf.length)) := by
  induction cs generalizing i with
  | nil => exact Spec_ok ⟨rfl, fun h => absurd h (by simp)⟩
  | cons c cs ih =>
    unfold mustAll
    refine Spec_bind (mustIs_Spec buf i c) ?_
    rintro j ⟨rfl, hlt⟩
    refine Spec_mono (ih (i + 1)) ?_
    rintro j ⟨rfl, hj⟩
    refine ⟨by simp only [List.length_cons]; omega, fun _ => ?_⟩
    cases cs with
    | nil => simp; omega
    | cons _ _ => exact hj (by simp)

/-- the cursor advanced and is inside the buffer -/
def Adv (buf : Bytes) (i : Nat) (p : JV × Nat) : Prop := i < p.2 ∧ p.2 ≤ buf.length

theorem parseNumber_Spec (buf : Bytes) (i : Nat) : Spec (parseNumber buf i) (Adv buf i) := by
  obtain ⟨np, h⟩ := parseNumber_spec buf i
  exact ⟨np, fun ⟨v, j⟩ e => h v j e⟩

theorem parseJsonString_Spec (buf : Bytes) (i : Nat) :
    Spec (parseJsonString buf i) (Adv buf i) := by
  obtain ⟨np, -, h⟩ := parseJsonString_spec buf i
  exact ⟨np, fun ⟨v, j⟩ e => h v j e⟩

theorem asStrUnwrap_Spec (key : JV) (h : isString key = true) :
    Spec (asStrUnwrap key) (fun _ => True) := by
  cases key <;> simp [isString] at h
  exact Spec_ok trivial

theorem parse_Spec (fuel : Nat) (buf : Bytes) :
    (∀ i, Spec (parseJsonValue fuel buf i) (Adv buf i)) ∧
    (∀ i first vals, Spec (arrLoop fuel buf i first vals) (Adv buf i)) ∧
    (∀ i first obj, Spec (objLoop fuel buf i first obj) (Adv buf i)) := by
  induction fuel with
  | zero => exact ⟨fun _ => Spec_fuel, fun _ _ _ => Spec_fuel, fun _ _ _ => Spec_fuel⟩
  | succ fuel ih =>
    obtain ⟨ihv, iha, iho⟩ := ih
    refine ⟨?_, ?_, ?_⟩
    · intro i
      simp only [parseJsonValue]
      refine Spec_bind (skipUnused_Spec buf i) ?_
      intro i' hi'
      refine Spec_bind (next_Spec buf i') ?_
      intro c hc
      have hlt : i' < buf.length := (List.getElem?_eq_some_iff.mp hc).1
      have lit : ∀ (cs : List UInt8) (v : JV), 0 < cs.length →
          Spec (mustAll buf i' cs >>= fun idx => pure (v, idx)) (Adv buf i) := by
        intro cs v hcs
        refine Spec_bind (mustAll_Spec buf i' cs) ?_
        rintro j ⟨rfl, hj⟩
        exact Spec_pure ⟨by show i < i' + cs.length; omega, hj hcs⟩
      split
      · exact lit _ _ (by simp)
      · split
        · exact lit _ _ (by simp)
        · split
          · exact lit _ _ (by simp)
          · split
            · exact Spec_mono (parseNumber_Spec buf i') (fun p hp => ⟨by have := hp.1; omega, hp.2⟩)
            · split
              · exact Spec_mono (parseJsonString_Spec buf i') (fun p hp => ⟨by have := hp.1; omega, hp.2⟩)
              · split
                · refine Spec_bind (mustIs_Spec buf i' _) ?_
                  rintro j ⟨rfl, -⟩
                  exact Spec_mono (iha (i' + 1) true []) (fun p hp => ⟨by have := hp.1; omega, hp.2⟩)
                · split
                  · refine Spec_bind (mustIs_Spec buf i' _) ?_
                    rintro j ⟨rfl, -⟩
                    exact Spec_mono (iho (i' + 1) true []) (fun p hp => ⟨by have := hp.1; omega, hp.2⟩)
                  · exact Spec_err
    · intro i first vals
      simp only [arrLoop]
      refine Spec_bind (skipUnused_Spec buf i) ?_
      intro i' hi'
      refine Spec_bind (next_Spec buf i') ?_
      intro c hc
      have hlt : i' < buf.length := (List.getElem?_eq_some_iff.mp hc).1
      split
      · exact Spec_pure ⟨by show i < i' + 1; omega, by show i' + 1 ≤ _; omega⟩
      · split
        · exact Spec_err
        · refine Spec_bind (ihv _) ?_
          rintro ⟨v, j⟩ hv
          refine Spec_mono (iha j false _) ?_
          intro p hp
          have h1 := hv.1; have h2 := hp.1
          simp only at h1
          exact ⟨by split at h1 <;> omega, hp.2⟩
    · intro i first obj
      simp only [objLoop]
      refine Spec_bind (skipUnused_Spec buf i) ?_
      intro i' hi'
      refine Spec_bind (next_Spec buf i') ?_
      intro c hc
      have hlt : i' < buf.length := (List.getElem?_eq_some_iff.mp hc).1
      split
      · exact Spec_pure ⟨by show i < i' + 1; omega, by show i' + 1 ≤ _; omega⟩
      · split
        · exact Spec_err
        · refine Spec_bind (ihv _) ?_
          rintro ⟨key, j⟩ hk
          simp only
          split
          · exact Spec_err
          · rename_i hstr
            refine Spec_bind (skipUnused_Spec buf j) ?_
            intro j' hj'
            refine Spec_bind (next_Spec buf j') ?_
            intro c2 hc2
            split
            · exact Spec_err
            · refine Spec_bind (ihv _) ?_
              rintro ⟨v, j2⟩ hv
              refine Spec_bind (asStrUnwrap_Spec key (by simpa using hstr)) ?_
              intro k _
              refine Spec_mono (iho j2 false _) ?_
              intro p hp
              have h1 := hk.1; have h2 := hv.1; have h3 := hp.1
              simp only at h1 h2
              exact ⟨by split at h1 <;> omega, hp.2⟩

/-- **Totality**: `parse_value` cannot panic, whatever the input bytes. -/
theorem _root_.Jsonb.parseValue_ne_panic (bs : Bytes) (s : String) : parseValue bs ≠ .panic s := by
  have : Spec (parseValue bs) (fun _ => True) := by
    unfold parseValue
    refine Spec_bind ((parse_Spec (fuelFor bs) bs).1 0) ?_
    rintro ⟨v, j⟩ _
    refine Spec_bind (skipUnused_Spec bs j) ?_
    intro j' _
    split
    · exact Spec_err
    · exact Spec_pure trivial
  exact this.1 s

end JP
end Jsonb
