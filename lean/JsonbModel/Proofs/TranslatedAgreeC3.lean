import JsonbModel.Proofs.TranslatedAgreeC2

set_option linter.unusedSimpArgs false
set_option linter.unusedVariables false

namespace Jsonb.TrAgree
open Jsonb.Rs

theorem Num.dec_err_name (bs : Bytes) (e : String) (h : Num.dec bs = .err e) : e = "InvalidJsonbNumber" := by
  unfold Num.dec at h
  split at h
  · simp at h; exact h.symm
  · simp only at h
    repeat' split at h
    all_goals (first | (simp at h; done) | (simp at h; exact h.symm))

theorem readEntries_bound : ∀ (n : Nat) (bs : Bytes) (es : List (Nat × Nat)) (rest : Bytes),
    readEntries n bs = some (es, rest) → ∀ x ∈ es, x.2 < 4294967296 := by
  intro n
  induction n with
  | zero => intro bs es rest h; simp [readEntries] at h; simp [h.1]
  | succ n ih =>
    intro bs es rest h
    unfold readEntries at h
    cases hr : readU32 bs with
    | none => simp [hr] at h
    | some p =>
      obtain ⟨w, bs1⟩ := p
      simp only [hr] at h
      cases hq : readEntries n bs1 with
      | none => simp [hq] at h
      | some q =>
        obtain ⟨es', r⟩ := q
        simp only [hq, Option.some.injEq, Prod.mk.injEq] at h
        obtain ⟨h1, h2⟩ := h
        subst h1
        intro x hx
        rcases List.mem_cons.mp hx with hx | hx
        · subst hx; have := jeLen_lt w; simp only; omega
        · exact ih bs1 es' r hq x hx

theorem decode_array_succ (g : Nat) (h : Nat) (bs : Bytes) :
    Tr.Decoder.decode_array (g + 1) ⟨bs⟩ (h : Int) = match readEntries (hdrLen h) bs with
      | none => .err "InvalidUtf8"
      | some (es, rest) =>
        Ctl.run (Rs.forIn (es.map ofEntry) ((⟨rest⟩ : Tr.Decoder), ([] : List Tr.Value))
            (Tr.Decoder.decode_array.loop1 (Tr.Decoder.decode_scalar g)) >>= fun st =>
          Ctl.ret (Res.ok (Tr.Value.Array st.2, st.1))) := by
  rw [Tr.Decoder.decode_array]
  have hL := hdrLen_lt h
  simp only [hdrLen_cast]
  rw [decode_jentries_agrees _ _ (by omega)]
  cases readEntries (hdrLen h) bs with
  | none => simp only [Ctl.ofRes_err', Ctl.ret_bind', Ctl.run_ret']
  | some q =>
    obtain ⟨es, rest⟩ := q
    have hcap : Rs.vecWithCapacity Tr.Value 32 ((hdrLen h : Nat) : Int) = .ok [] := by
      unfold Rs.vecWithCapacity; rw [if_pos (by simp; omega)]
    simp only [Ctl.ofRes_ok', Ctl.val_bind', hcap]

theorem decode_object_succ (g : Nat) (h : Nat) (bs : Bytes) :
    Tr.Decoder.decode_object (g + 1) ⟨bs⟩ (h : Int) = match readEntries (hdrLen h * 2) bs with
      | none => .err "InvalidUtf8"
      | some (es, rest) =>
        Ctl.run (Rs.forRangeAux (Tr.Decoder.decode_object.loop1 (Tr.Decoder.decode_scalar g)) (hdrLen h) 0
              (es.map ofEntry, (⟨rest⟩ : Tr.Decoder), ([] : List Tr.Value)) >>= fun st1 =>
            Rs.forRangeAux (Tr.Decoder.decode_object.loop2 (Tr.Decoder.decode_scalar g)) (hdrLen h) 0
              (st1.2.2, st1.1, st1.2.1, ([] : List (Bytes × Tr.Value))) >>= fun st2 =>
          Ctl.ret (Res.ok (Tr.Value.Object st2.2.2.2, st2.2.2.1))) := by
  rw [Tr.Decoder.decode_object]
  have hL := hdrLen_lt h
  simp only [hdrLen_cast]
  simp (disch := omega) only [Rs.mul_usize_ok', Ctl.ofRes_ok', Ctl.val_bind']
  rw [decode_jentries_agrees_int _ (hdrLen h * 2) _ (by omega) (by omega)]
  cases readEntries (hdrLen h * 2) bs with
  | none => simp only [Ctl.ofRes_err', Ctl.ret_bind', Ctl.run_ret']
  | some q =>
    obtain ⟨es, rest⟩ := q
    have hcap : Rs.vecWithCapacity Tr.Value 32 ((hdrLen h : Nat) : Int) = .ok [] := by
      unfold Rs.vecWithCapacity; rw [if_pos (by simp; omega)]
    simp only [Ctl.ofRes_ok', Ctl.val_bind', hcap, Rs.forRange_zero, Rs.btreeNew]

/-! ## the group: `decode_jsonb` / `decode_scalar` (with `decode_array` / `decode_object` inlined, as in
the model) agree with `decJsonb` / `decScalar` -/

/-- The translated decoder, given MORE fuel than the model (`f < g`: the model inlines
`decode_array` / `decode_object` into `decJsonb`, the translation spends one unit on that call, and
the model's loops `decItems` / `decObjVals` spend one unit per element where the `for` loops of the
translation spend none), computes the model's result whenever the model does not run out of fuel. -/
theorem dec_agrees : ∀ (f : Nat),
    (∀ (g : Nat) (bs : Bytes), f < g → decJsonb f bs ≠ .fuel →
      Tr.Decoder.decode_jsonb g ⟨bs⟩ = tr (decJsonb f bs)) ∧
    (∀ (g ty len : Nat) (bs : Bytes), f < g → len < 4294967296 → decScalar f ty len bs ≠ .fuel →
      Tr.Decoder.decode_scalar g ⟨bs⟩ ⟨(ty : Nat), (len : Nat)⟩ = tr (decScalar f ty len bs)) := by
  intro f
  induction f using Nat.strongRecOn with
  | _ f ih =>
    cases f with
    | zero => exact ⟨fun g bs _ h => absurd rfl h, fun g ty len bs _ _ h => absurd rfl h⟩
    | succ f =>
      refine ⟨?_, ?_⟩
      · -- decode_jsonb
        intro g bs hg hne
        obtain ⟨g, rfl⟩ : ∃ g', g = g' + 1 := ⟨g - 1, by omega⟩
        rw [decode_jsonb_succ]
        simp only [decJsonb] at hne ⊢
        cases hr : readU32 bs with
        | none => rfl
        | some p =>
          obtain ⟨h, bs1⟩ := p
          simp only [hr] at hne ⊢
          by_cases h1 : hdrType h = C.SCALAR_CONTAINER_TAG
          · simp only [if_pos h1] at hne ⊢
            by_cases h2 : h ≠ C.SCALAR_CONTAINER_TAG
            · simp only [if_pos h2]; rfl
            · simp only [if_neg h2] at hne ⊢
              cases hr2 : readU32 bs1 with
              | none => rfl
              | some q =>
                obtain ⟨e, bs2⟩ := q
                simp only [hr2] at hne ⊢
                exact (ih f (by omega)).2 g (jeType e) (jeLen e) bs2 (by omega) (by have := jeLen_lt e; omega) hne
          · simp only [if_neg h1] at hne ⊢
            by_cases h4 : hdrType h = C.ARRAY_CONTAINER_TAG
            · simp only [if_pos h4] at hne ⊢
              obtain ⟨g, rfl⟩ : ∃ g', g = g' + 1 := ⟨g - 1, by omega⟩
              rw [decode_array_succ]
              cases hq : readEntries (hdrLen h) bs1 with
              | none => rfl
              | some q =>
                obtain ⟨es, bs2⟩ := q
                simp only [hq] at hne ⊢
                have hrec : RecOK f (Tr.Decoder.decode_scalar g) := by
                  intro f' hf' ty len bs hl hn
                  exact (ih f' (by omega)).2 g ty len bs (by omega) hl hn
                have hne' : decItems f es bs2 ≠ .fuel := by
                  intro c; rw [c] at hne; exact hne rfl
                rw [da_run _ es f bs2 [] hrec (readEntries_bound _ _ _ _ hq) hne']
                cases hi : decItems f es bs2 with
                | fuel => exact absurd hi hne'
                | err e => simp only [eofErr, Ctl.ofRes_err', Ctl.ret_bind', Ctl.run_ret']; rfl
                | panic s => simp only [eofErr, Ctl.ofRes_panic', Ctl.ret_bind', Ctl.run_ret']; rfl
                | ok r =>
                  obtain ⟨vs, bs3⟩ := r
                  simp only [eofErr, Ctl.ofRes_ok', Ctl.val_bind', Ctl.run_ret', List.nil_append]
                  rfl
            · simp only [if_neg h4] at hne ⊢
              by_cases h5 : hdrType h = C.OBJECT_CONTAINER_TAG
              · simp only [if_pos h5] at hne ⊢
                obtain ⟨g, rfl⟩ : ∃ g', g = g' + 1 := ⟨g - 1, by omega⟩
                rw [decode_object_succ]
                cases hq : readEntries (hdrLen h * 2) bs1 with
                | none => rfl
                | some q =>
                  obtain ⟨es, bs2⟩ := q
                  simp only [hq] at hne ⊢
                  have hlen := readEntries_length _ _ _ _ hq
                  have hbound := readEntries_bound _ _ _ _ hq
                  have hrec : RecOK f (Tr.Decoder.decode_scalar g) := by
                    intro f' hf' ty len bs hl hn
                    exact (ih f' (by omega)).2 g ty len bs (by omega) hl hn
                  have hne1 : decItems f (es.take (hdrLen h)) bs2 ≠ .fuel := by
                    intro c; rw [c] at hne; exact hne rfl
                  have htl : (es.take (hdrLen h)).length = hdrLen h := by simp; omega
                  have hsplit : es = es.take (hdrLen h) ++ es.drop (hdrLen h) := (List.take_append_drop _ _).symm
                  have hb1 : ∀ x ∈ es.take (hdrLen h), x.2 < 4294967296 :=
                    fun x hx => hbound x (List.mem_of_mem_take hx)
                  have hb2 : ∀ x ∈ es.drop (hdrLen h), x.2 < 4294967296 :=
                    fun x hx => hbound x (List.mem_of_mem_drop hx)
                  have hrun1 := do_run1 _ (es.take (hdrLen h)) f bs2 [] (es.drop (hdrLen h)) 0 hrec hb1 hne1
                  rw [htl, ← hsplit] at hrun1
                  rw [hrun1]
                  cases hi : decItems f (es.take (hdrLen h)) bs2 with
                  | fuel => exact absurd hi hne1
                  | err e => simp only [eofErr, Ctl.ofRes_err', Ctl.ret_bind', Ctl.run_ret']; rfl
                  | panic s => simp only [eofErr, Ctl.ofRes_panic', Ctl.ret_bind', Ctl.run_ret']; rfl
                  | ok r =>
                    obtain ⟨ks, bs3⟩ := r
                    simp only [hi] at hne
                    have hkl : ks.length = hdrLen h := by rw [decItems_length _ _ _ _ _ hi, htl]
                    have hne2 : decObjVals f ks (es.drop (hdrLen h)) bs3 ≠ .fuel := by
                      intro c; rw [c] at hne; exact hne rfl
                    have hrun2 := do_run2 _ ks f (es.drop (hdrLen h)) bs3 [] 0 hrec hb2
                      (by simp; omega) hne2
                    rw [hkl] at hrun2
                    simp only [eofErr, Ctl.ofRes_ok', Ctl.val_bind', List.nil_append]
                    have he : ([] : List (Bytes × Tr.Value)) = ofKVs [] := rfl
                    rw [he, hrun2]
                    cases hj : decObjVals f ks (es.drop (hdrLen h)) bs3 with
                    | fuel => exact absurd hj hne2
                    | err e => simp only [eofErr, Ctl.ofRes_err', Ctl.ret_bind', Ctl.run_ret']; rfl
                    | panic s => simp only [eofErr, Ctl.ofRes_panic', Ctl.ret_bind', Ctl.run_ret']; rfl
                    | ok r2 =>
                      obtain ⟨kvs, bs4⟩ := r2
                      simp only [eofErr, Ctl.ofRes_ok', Ctl.val_bind', Ctl.run_ret', mkObj_eq]
                      rfl
              · simp only [if_neg h5]; rfl
      · -- decode_scalar
        intro g ty len bs hg hl hne
        obtain ⟨g, rfl⟩ : ∃ g', g = g' + 1 := ⟨g - 1, by omega⟩
        rw [decode_scalar_succ _ _ _ hl]
        simp only [decScalar] at hne ⊢
        by_cases h1 : ty = C.NULL_TAG
        · simp only [if_pos h1]; rfl
        simp only [if_neg h1] at hne ⊢
        by_cases h2 : ty = C.TRUE_TAG
        · simp only [if_pos h2]; rfl
        simp only [if_neg h2] at hne ⊢
        by_cases h3 : ty = C.FALSE_TAG
        · simp only [if_pos h3]; rfl
        simp only [if_neg h3] at hne ⊢
        by_cases h4 : ty = C.STRING_TAG
        · simp only [if_pos h4]
          by_cases hl' : len ≤ bs.length
          · simp only [if_pos hl']
            by_cases hu : validUtf8 (List.take len bs) = true
            · simp only [if_pos hu]; rfl
            · simp only [if_neg hu]; rfl
          · simp only [if_neg hl']; rfl
        simp only [if_neg h4] at hne ⊢
        by_cases h5 : ty = C.NUMBER_TAG
        · simp only [if_pos h5]
          by_cases hl' : len ≤ bs.length
          · simp only [if_pos hl']
            cases hd : Num.dec (List.take len bs) with
            | ok n => rfl
            | err e =>
              have := Num.dec_err_name _ _ hd
              subst this; rfl
            | panic s => rfl
            | fuel => rfl
          · simp only [if_neg hl']; rfl
        simp only [if_neg h5] at hne ⊢
        by_cases h6 : ty = C.CONTAINER_TAG
        · simp only [if_pos h6] at hne ⊢
          exact (ih f (by omega)).1 g bs (by omega) hne
        · simp only [if_neg h6]; rfl

end Jsonb.TrAgree
