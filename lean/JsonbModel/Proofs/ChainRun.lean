/-
C07 (chains of operations), part 5: whole chains, by induction over the list of operations.

`ChainOK v ops` — every operation satisfies `OpOK` at the tree state the chain has reached;
`runChain_refines` — the byte-level chain returns exactly the encodings of the tree-level
intermediate documents; `runChain_good` — all of them canonical; the corollaries spell out what
canonical means for every intermediate byte string (decodes, decoder stops exactly at the end,
re-encodes to the identical bytes, byte equality ⇔ value identity).
No Mathlib.
-/
import JsonbModel.Proofs.ChainStep

namespace Jsonb
open JV

/-- `OpOK` of each operation at the tree state reached (a refused operation keeps the state) -/
def ChainOK (v : JV) : List (ChainOp JV) → Prop
  | [] => True
  | op :: ops => OpOK v op ∧ ChainOK ((Spec.chainStep v op).getD v) ops

/-- the state after one step (the result, or the unchanged document when refused) is canonical -/
theorem chainStep_getD_good (v : JV) (hg : goodTop v = true) (op : ChainOp JV) (hok : OpOK v op) :
    goodTop ((Spec.chainStep v op).getD v) = true := by
  cases h : Spec.chainStep v op with
  | none => exact hg
  | some r => exact chainStep_good v hg op hok r h

/-- **chain theorem**: from a canonical start document, under `ChainOK`, the byte-level chain
(each result feeding the next operation) succeeds and its list of intermediate documents is
exactly the list of encodings of the tree-level chain's intermediate documents -/
theorem runChain_refines : ∀ (ops : List (ChainOp JV)) (v : JV), goodTop v = true → ChainOK v ops →
    Fn.runChain (encodeSpec v) (ops.map (ChainOp.map encodeSpec))
      = .ok ((Spec.runChain v ops).map encodeSpec)
  | [], _, _, _ => rfl
  | op :: ops, v, hg, hok => by
    have e : ((Spec.chainStep v op).map encodeSpec).getD (encodeSpec v)
        = encodeSpec ((Spec.chainStep v op).getD v) := by
      cases Spec.chainStep v op <;> rfl
    simp only [List.map_cons, Fn.runChain, chainStep_refines v hg op hok.1, e,
      runChain_refines ops _ (chainStep_getD_good v hg op hok.1) hok.2, Spec.runChain]

/-- every intermediate document of the tree-level chain is canonical -/
theorem runChain_good : ∀ (ops : List (ChainOp JV)) (v : JV), goodTop v = true → ChainOK v ops →
    ∀ r ∈ Spec.runChain v ops, goodTop r = true
  | [], _, _, _, r, hr => by simp [Spec.runChain] at hr
  | op :: ops, v, hg, hok, r, hr => by
    have hg' := chainStep_getD_good v hg op hok.1
    simp only [Spec.runChain, List.mem_cons] at hr
    rcases hr with rfl | hr
    · exact hg'
    · exact runChain_good ops _ hg' hok.2 r hr

/-! ### what "canonical" gives for a byte string -/

/-- the decoder stops exactly at the end of a canonical document: nothing trails the value -/
theorem decJsonb_encodeSpec_exact (v : JV) (hg : goodTop v = true) :
    decJsonb (decFuel (encodeSpec v)) (encodeSpec v) = .ok (norm v, []) := by
  cases v with
  | arr vs =>
    simp only [goodTop, Bool.and_eq_true, decide_eq_true_eq] at hg
    have h := decJsonb_arr vs hg.1 hg.2 (decFuel (encodeSpec (arr vs))) (by
      have := szL_le vs
      simp only [decFuel, encodeSpec, entry, List.length_append, u32be_length, wordsL_length]
      omega) []
    simp only [List.append_nil] at h
    simp only [norm]; exact h
  | obj kvs =>
    simp only [goodTop, Bool.and_eq_true, decide_eq_true_eq] at hg
    have h := decJsonb_obj kvs hg.1.1 hg.1.2 hg.2 (decFuel (encodeSpec (obj kvs))) (by
      have := szK_le kvs
      simp only [decFuel, encodeSpec, entry, List.length_append, u32be_length, wordsK_length, keyWords_length]
      omega) []
    simp only [List.append_nil] at h
    simp only [norm]; exact h
  | null =>
    have h := decJsonb_scalarDoc null hg (by simp) (by simp) (decFuel (encodeSpec null)) (by simp [decFuel]) []
    simp only [List.append_nil] at h
    exact h
  | bool b =>
    have h := decJsonb_scalarDoc (bool b) hg (by simp) (by simp) (decFuel (encodeSpec (bool b))) (by simp [decFuel]) []
    simp only [List.append_nil] at h
    exact h
  | num n =>
    have h := decJsonb_scalarDoc (num n) hg (by simp) (by simp) (decFuel (encodeSpec (num n))) (by simp [decFuel]) []
    simp only [List.append_nil] at h
    exact h
  | str s =>
    have h := decJsonb_scalarDoc (str s) hg (by simp) (by simp) (decFuel (encodeSpec (str s))) (by simp [decFuel]) []
    simp only [List.append_nil] at h
    exact h

/-- `b` is canonical JSONB for the tree `r`: `r` is well-formed within the field widths and `b`
is its README layout.  Everything the property calls canonical follows (`Canon.facts`). -/
def Canon (b : Bytes) (r : JV) : Prop := goodTop r = true ∧ b = encodeSpec r

/-- a canonical byte string decodes (to the value up to the decoder's number normal form
`norm`); the decoder consumes it exactly (nothing trails the value); the decoded value is
well-formed (keys strictly sorted hence unique, all lengths inside their fields); re-encoding the
decoded value — by the README layout function and by the model of the real serializer `to_vec` —
gives the identical bytes (so every nested length is the exact one) -/
theorem Canon.facts {b : Bytes} {r : JV} (h : Canon b r) :
    parseJsonb b = .ok (norm r) ∧
    decJsonb (decFuel b) b = .ok (norm r, []) ∧
    goodTop (norm r) = true ∧
    encodeSpec (norm r) = b ∧
    toVec (norm r) = .ok b := by
  obtain ⟨hg, rfl⟩ := h
  refine ⟨parseJsonb_encodeSpec r hg, decJsonb_encodeSpec_exact r hg, goodTop_norm r hg,
    encodeSpec_norm r, ?_⟩
  rw [toVec_eq_encodeSpec (norm r) (goodTop_norm r hg), encodeSpec_norm]

/-- **byte equality coincides with value identity** on canonical documents (identity up to the
two representation changes of `norm`: `Int64(0)` = `UInt64(0)`, all NaNs equal) -/
theorem encodeSpec_eq_iff (r₁ r₂ : JV) (h₁ : goodTop r₁ = true) (h₂ : goodTop r₂ = true) :
    encodeSpec r₁ = encodeSpec r₂ ↔ norm r₁ = norm r₂ := by
  constructor
  · intro h
    have a := parseJsonb_encodeSpec r₁ h₁
    have b := parseJsonb_encodeSpec r₂ h₂
    rw [h] at a; rw [a] at b
    exact Res.ok.inj b
  · intro h
    rw [← encodeSpec_norm r₁, ← encodeSpec_norm r₂, h]

/-! ### every intermediate byte string of a chain -/

/-- the `i`-th intermediate byte string of the byte-level chain is canonical for the `i`-th
intermediate tree of the tree-level chain -/
theorem runChain_nth (v : JV) (hg : goodTop v = true) (ops : List (ChainOp JV)) (hok : ChainOK v ops)
    (bs : List Bytes) (h : Fn.runChain (encodeSpec v) (ops.map (ChainOp.map encodeSpec)) = .ok bs)
    (i : Nat) (b : Bytes) (hb : bs[i]? = some b) :
    ∃ r, (Spec.runChain v ops)[i]? = some r ∧ Canon b r := by
  rw [runChain_refines ops v hg hok] at h
  have hbs : bs = (Spec.runChain v ops).map encodeSpec := (Res.ok.inj h).symm
  subst hbs
  rw [List.getElem?_map] at hb
  cases hr : (Spec.runChain v ops)[i]? with
  | none => rw [hr] at hb; simp at hb
  | some r =>
    rw [hr] at hb
    simp only [Option.map_some, Option.some.injEq] at hb
    exact ⟨r, rfl, runChain_good ops v hg hok r (List.mem_of_getElem? hr), hb.symm⟩

/-- both lists have the same length: one intermediate document per operation -/
theorem runChain_length (v : JV) : ∀ (ops : List (ChainOp JV)), (Spec.runChain v ops).length = ops.length := by
  intro ops
  induction ops generalizing v with
  | nil => rfl
  | cons op ops ih => simp [Spec.runChain, ih]

/-- **however the bytes were produced**: two intermediate byte strings of two chains (any start
documents, any operations) are equal exactly when the corresponding trees are the same value -/
theorem chains_byte_eq_iff
    (v₁ : JV) (hg₁ : goodTop v₁ = true) (ops₁ : List (ChainOp JV)) (hok₁ : ChainOK v₁ ops₁)
    (v₂ : JV) (hg₂ : goodTop v₂ = true) (ops₂ : List (ChainOp JV)) (hok₂ : ChainOK v₂ ops₂)
    (bs₁ bs₂ : List Bytes)
    (h₁ : Fn.runChain (encodeSpec v₁) (ops₁.map (ChainOp.map encodeSpec)) = .ok bs₁)
    (h₂ : Fn.runChain (encodeSpec v₂) (ops₂.map (ChainOp.map encodeSpec)) = .ok bs₂)
    (i j : Nat) (b₁ b₂ : Bytes) (hb₁ : bs₁[i]? = some b₁) (hb₂ : bs₂[j]? = some b₂) :
    ∃ r₁ r₂, (Spec.runChain v₁ ops₁)[i]? = some r₁ ∧ (Spec.runChain v₂ ops₂)[j]? = some r₂ ∧
      (b₁ = b₂ ↔ norm r₁ = norm r₂) := by
  obtain ⟨r₁, e₁, g₁, rfl⟩ := runChain_nth v₁ hg₁ ops₁ hok₁ bs₁ h₁ i b₁ hb₁
  obtain ⟨r₂, e₂, g₂, rfl⟩ := runChain_nth v₂ hg₂ ops₂ hok₂ bs₂ h₂ j b₂ hb₂
  exact ⟨r₁, r₂, e₁, e₂, encodeSpec_eq_iff r₁ r₂ g₁ g₂⟩

end Jsonb
