/-
Agreement theorems, phase 6b, part 1: the primitives of RustPrelude6b.lean on natural numbers / bytes, and
the small cursor helpers of parser.rs (`step`, `step_by`, `next`, `must_is`, `check_next`,
`check_next_either`, `check_digit`) EQUAL the model's `JP.next`, `JP.mustIs`, `JP.checkNext`, … of
JsonParser.lean.
-/
import JsonbModel.Generated.Translated6b
import JsonbModel.Proofs.RustPrelude2Lemmas
import JsonbModel.Proofs.TranslatedAgreeC1
import JsonbModel.Proofs.JsonParserLemmas

set_option linter.unusedSimpArgs false
set_option linter.unusedVariables false

namespace Jsonb.TrAgree
open Jsonb.Rs

/-- the parser state `Parser { buf, idx }` with a natural cursor -/
def pz (buf : Bytes) (idx : Nat) : Tr.Parser := ⟨buf, (idx : Int)⟩

/- propositional (not `rfl`) on purpose: `simp` then rewrites under `decide` with a congruence step instead of a
definitional one that leaves the `Decidable` instance behind -/
theorem pz_buf (buf : Bytes) (idx : Nat) : (pz buf idx).buf = buf := Eq.trans rfl rfl
theorem pz_idx (buf : Bytes) (idx : Nat) : (pz buf idx).idx = (idx : Int) := Eq.trans rfl rfl

/-! ## `Res` plumbing of the model (propositional copies, see RustPrelude2Lemmas.lean) -/

theorem rb_ok {α β : Type} (a : α) (f : α → Res β) : (Res.ok a >>= f) = f a := Eq.trans rfl rfl
theorem rb_err {α β : Type} (e : String) (f : α → Res β) : ((Res.err e : Res α) >>= f) = .err e := Eq.trans rfl rfl
theorem rb_panic {α β : Type} (e : String) (f : α → Res β) : ((Res.panic e : Res α) >>= f) = .panic e := Eq.trans rfl rfl
theorem rb_fuel {α β : Type} (f : α → Res β) : ((Res.fuel : Res α) >>= f) = .fuel := Eq.trans rfl rfl
theorem rb_pure {α : Type} (a : α) : (pure a : Res α) = .ok a := Eq.trans rfl rfl
theorem rm_ok {α β : Type} (f : α → β) (a : α) : (Res.ok a).map f = .ok (f a) := Eq.trans rfl rfl
theorem rm_err {α β : Type} (f : α → β) (e : String) : (Res.err e : Res α).map f = .err e := Eq.trans rfl rfl
theorem rm_panic {α β : Type} (f : α → β) (e : String) : (Res.panic e : Res α).map f = .panic e := Eq.trans rfl rfl
theorem rm_fuel {α β : Type} (f : α → β) : (Res.fuel : Res α).map f = .fuel := Eq.trans rfl rfl
theorem ofRes_fuel' {ρ α : Type} : (Ctl.ofRes (.fuel : Res α) : Ctl ρ α) = .ret .fuel := Eq.trans rfl rfl

/-! ## primitives -/

theorem tp_getByte_nat (s : Bytes) (i : Nat) :
    Rs.getByte s (i : Int) = (s[i]?).map (fun b => (b.toNat : Int)) := by
  unfold Rs.getByte
  have h : ¬ ((i : Int) < 0) := by omega
  rw [if_neg h]
  simp only [Int.toNat_natCast]
  cases s[i]? <;> rfl

theorem tp_index_nat (s : Bytes) (i : Nat) :
    Rs.index s (i : Int) = match s[i]? with
      | some b => .ok (b.toNat : Int)
      | none => .panic "index out of bounds" := by
  unfold Rs.index
  have h : ¬ ((i : Int) < 0) := by omega
  rw [if_neg h]
  simp only [Int.toNat_natCast]
  cases s[i]? <;> rfl

theorem tp_len (s : Bytes) : Rs.len s = (s.length : Int) := Eq.trans rfl rfl

theorem tp_lt_len (i : Nat) (s : Bytes) : decide ((i : Int) < (s.length : Int)) = decide (i < s.length) := by
  by_cases h : i < s.length
  · have : (i : Int) < (s.length : Int) := by omega
    simp [h, this]
  · have : ¬ (i : Int) < (s.length : Int) := by omega
    simp [h, this]

/-- a `u8` comparison of the translation against the model's `==` on bytes -/
theorem tp_beq (b c : UInt8) : decide ((b.toNat : Int) = (c.toNat : Int)) = (b == c) := by
  by_cases h : b = c
  · subst h; simp
  · have h1 : ¬ b.toNat = c.toNat := fun e => h (UInt8.toNat_inj.mp e)
    have h2 : ¬ (b.toNat : Int) = (c.toNat : Int) := by omega
    simp [h, h2]

/-- the same against a literal: `k` is the value of the byte literal `c` -/
theorem tp_beq_lit (b c : UInt8) (k : Int) (hk : k = (c.toNat : Int)) :
    decide ((b.toNat : Int) = k) = (b == c) := by
  subst hk; exact tp_beq b c

theorem tp_bne_lit (b c : UInt8) (k : Int) (hk : k = (c.toNat : Int)) :
    decide ((b.toNat : Int) ≠ k) = (b != c) := by
  have := tp_beq_lit b c k hk
  by_cases h : (b.toNat : Int) = k
  · have h' : (b == c) = true := by rw [← this]; simp [h]
    simp [h, bne, h']
  · have h' : (b == c) = false := by rw [← this]; simp [h]
    simp [h, bne, h']

/-- the flipped spellings `lit == b`, `lit != b` -/
theorem tp_beq_lit' (b c : UInt8) (k : Int) (hk : k = (c.toNat : Int)) :
    decide (k = (b.toNat : Int)) = (b == c) := by
  rw [← tp_beq_lit b c k hk]
  exact decide_eq_decide.mpr eq_comm

theorem tp_bne_lit' (b c : UInt8) (k : Int) (hk : k = (c.toNat : Int)) :
    decide (k ≠ (b.toNat : Int)) = (b != c) := by
  rw [← tp_bne_lit b c k hk]
  exact decide_eq_decide.mpr ne_comm

theorem tp_isDigit (b : UInt8) : Rs.isAsciiDigit (b.toNat : Int) = JP.isDigit b := by
  unfold Rs.isAsciiDigit JP.isDigit
  have h30 : (0x30 : UInt8).toNat = 48 := rfl
  have h39 : (0x39 : UInt8).toNat = 57 := rfl
  have e1 : decide ((48 : Int) ≤ (b.toNat : Int)) = decide ((0x30 : UInt8) ≤ b) :=
    decide_eq_decide.mpr (by rw [UInt8.le_iff_toNat_le]; omega)
  have e2 : decide ((b.toNat : Int) ≤ (57 : Int)) = decide (b ≤ (0x39 : UInt8)) :=
    decide_eq_decide.mpr (by rw [UInt8.le_iff_toNat_le]; omega)
  rw [e1, e2]

theorem tp_isWs (b : UInt8) : Rs.isAsciiWhitespace (b.toNat : Int) = JP.isWs b := by
  unfold Rs.isAsciiWhitespace JP.isWs
  rw [tp_beq_lit b 0x20 32 rfl, tp_beq_lit b 0x09 9 rfl, tp_beq_lit b 0x0A 10 rfl,
    tp_beq_lit b 0x0C 12 rfl, tp_beq_lit b 0x0D 13 rfl]

/-- `Parser` field updates on `pz` -/
theorem pz_with_idx (buf : Bytes) (idx j : Nat) : ({ pz buf idx with idx := (j : Int) } : Tr.Parser) = pz buf j := rfl

/-- checked `usize` addition landing on a natural number -/
theorem tp_add_usize (a : Nat) (k : Int) (r : Nat) (hr : (a : Int) + k = (r : Int))
    (h : r < 18446744073709551616) : Rs.add .usize (a : Int) k = .ok (r : Int) := by
  rw [Rs.add_usize_ok' _ _ (by omega), hr]

/-- the commuted spelling `k + a` -/
theorem tp_add_usize' (a : Nat) (k : Int) (r : Nat) (hr : (a : Int) + k = (r : Int))
    (h : r < 18446744073709551616) : Rs.add .usize k (a : Int) = .ok (r : Int) := by
  rw [Rs.add_usize_ok' _ _ (by omega), ← hr, Int.add_comm]

theorem tp_sub_usize (a : Nat) (k : Int) (r : Nat) (hr : (a : Int) - k = (r : Int))
    (h : r < 18446744073709551616) : Rs.sub .usize (a : Int) k = .ok (r : Int) := by
  rw [Rs.sub_usize_ok' _ _ (by omega), hr]

/-! ## step, step_by -/

theorem parser_step_agrees (buf : Bytes) (idx : Nat) (h : idx + 1 < 18446744073709551616) :
    Tr.Parser.step (pz buf idx) = .ok (pz buf (idx + 1)) := by
  unfold Tr.Parser.step
  simp only [pz_idx, tp_add_usize idx 1 (idx + 1) (by omega) h, Ctl.ofRes_ok', Ctl.val_bind', Ctl.run_ret']
  rfl

theorem parser_step_by_agrees (buf : Bytes) (idx : Nat) (k : Int) (r : Nat) (hr : (idx : Int) + k = (r : Int))
    (h : r < 18446744073709551616) : Tr.Parser.step_by (pz buf idx) k = .ok (pz buf r) := by
  unfold Tr.Parser.step_by
  simp only [pz_idx, tp_add_usize idx k r hr h, Ctl.ofRes_ok', Ctl.val_bind', Ctl.run_ret']
  rfl

/-! ## next, must_is, check_next, check_next_either, check_digit -/

theorem parser_next_agrees (buf : Bytes) (idx : Nat) :
    Tr.Parser.next (pz buf idx) = (JP.next buf idx).map (fun c => ((c.toNat : Int), pz buf idx)) := by
  unfold Tr.Parser.next JP.next
  simp only [pz_buf, pz_idx, tp_getByte_nat]
  cases buf[idx]? with
  | none => rfl
  | some c => rfl

theorem tp_get_of_lt {buf : Bytes} {idx : Nat} (h : idx < buf.length) : buf[idx]? = some buf[idx] :=
  List.getElem?_eq_getElem h

theorem tp_lt_of_get {buf : Bytes} {idx : Nat} {v : UInt8} (hg : buf[idx]? = some v) : idx < buf.length := by
  by_cases h : idx < buf.length
  · exact h
  · rw [List.getElem?_eq_none (Nat.le_of_not_lt h)] at hg; cases hg

theorem parser_must_is_agrees (buf : Bytes) (idx : Nat) (c : UInt8) (hb : buf.length < 18446744073709551616) :
    Tr.Parser.must_is (pz buf idx) (c.toNat : Int) = (JP.mustIs buf idx c).map (fun j => pz buf j) := by
  unfold Tr.Parser.must_is JP.mustIs
  simp only [pz_buf, pz_idx, tp_getByte_nat]
  cases hg : buf[idx]? with
  | none => rfl
  | some v =>
    have hlt : idx < buf.length := tp_lt_of_get hg
    simp only [Option.map_some, parser_step_agrees buf idx (by omega), Ctl.ofRes_ok', Ctl.val_bind', tp_beq]
    cases hvc : (v == c) with
    | true => simp only [if_true, Ctl.run_ret']; rfl
    | false => simp only [Bool.false_eq_true, if_false, Ctl.run_ret']; rfl

theorem parser_check_next_agrees (buf : Bytes) (idx : Nat) (c : UInt8) :
    Tr.Parser.check_next (pz buf idx) (c.toNat : Int) = (JP.checkNext buf idx c).map (fun b => (b, pz buf idx)) := by
  unfold Tr.Parser.check_next
  rw [JP.checkNext_eq]
  simp only [pz_buf, pz_idx, tp_getByte_nat, tp_len, tp_lt_len]
  by_cases h : idx < buf.length
  · simp only [h, decide_true, if_true, tp_get_of_lt h, Option.map_some, Rs.unwrap_some, Ctl.ofRes_ok', Ctl.val_bind', tp_beq]
    cases hvc : (buf[idx] == c) with
    | true =>
      have : (some buf[idx] == some c) = true := by simpa using hvc
      simp only [if_true, Ctl.ret_bind', Ctl.run_ret', this]; rfl
    | false =>
      have : (some buf[idx] == some c) = false := by simpa using hvc
      simp only [Bool.false_eq_true, if_false, Ctl.pure_eq', Ctl.val_bind', Ctl.run_ret', this]; rfl
  · have hn : buf[idx]? = none := List.getElem?_eq_none (Nat.le_of_not_lt h)
    simp only [h, decide_false, Bool.false_eq_true, if_false, Ctl.pure_eq', Ctl.val_bind', Ctl.run_ret', hn]
    rfl

theorem parser_check_next_either_agrees (buf : Bytes) (idx : Nat) (c1 c2 : UInt8) :
    Tr.Parser.check_next_either (pz buf idx) (c1.toNat : Int) (c2.toNat : Int) =
      (JP.checkNextEither buf idx c1 c2).map (fun b => (b, pz buf idx)) := by
  unfold Tr.Parser.check_next_either
  rw [JP.checkNextEither_eq]
  simp only [pz_buf, pz_idx, tp_getByte_nat, tp_len, tp_lt_len]
  by_cases h : idx < buf.length
  · simp only [h, decide_true, if_true, tp_get_of_lt h, Option.map_some, Rs.unwrap_some, Ctl.ofRes_ok', Ctl.val_bind', tp_beq]
    cases hvc : (buf[idx] == c1 || buf[idx] == c2) with
    | true =>
      have : (some buf[idx] == some c1 || some buf[idx] == some c2) = true := by simpa using hvc
      simp only [if_true, Ctl.ret_bind', Ctl.run_ret', this]; rfl
    | false =>
      have : (some buf[idx] == some c1 || some buf[idx] == some c2) = false := by simpa using hvc
      simp only [Bool.false_eq_true, if_false, Ctl.pure_eq', Ctl.val_bind', Ctl.run_ret', this]; rfl
  · have hn : buf[idx]? = none := List.getElem?_eq_none (Nat.le_of_not_lt h)
    simp only [h, decide_false, Bool.false_eq_true, if_false, Ctl.pure_eq', Ctl.val_bind', Ctl.run_ret', hn]
    rfl

theorem parser_check_digit_agrees (buf : Bytes) (idx : Nat) :
    Tr.Parser.check_digit (pz buf idx) = (JP.checkDigit buf idx).map (fun b => (b, pz buf idx)) := by
  unfold Tr.Parser.check_digit
  rw [JP.checkDigit_eq]
  simp only [pz_buf, pz_idx, tp_getByte_nat, tp_len, tp_lt_len]
  by_cases h : idx < buf.length
  · simp only [h, decide_true, if_true, tp_get_of_lt h, Option.map_some, Rs.unwrap_some, Ctl.ofRes_ok', Ctl.val_bind', tp_isDigit,
      Option.any_some]
    cases hvc : JP.isDigit buf[idx] with
    | true => simp only [if_true, Ctl.ret_bind', Ctl.run_ret']; rfl
    | false => simp only [Bool.false_eq_true, if_false, Ctl.pure_eq', Ctl.val_bind', Ctl.run_ret']; rfl
  · have hn : buf[idx]? = none := List.getElem?_eq_none (Nat.le_of_not_lt h)
    simp only [h, decide_false, Bool.false_eq_true, if_false, Ctl.pure_eq', Ctl.val_bind', Ctl.run_ret', hn]
    rfl

end Jsonb.TrAgree
