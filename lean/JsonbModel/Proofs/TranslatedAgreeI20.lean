/-
Phase 6c, editors: the `delete_by_keypath` family.  I20: the precondition `KeysDistinct` (no object reachable from the
document holds the same key twice), the entries behind the hit, the two loops against `Fn.delArrItems` /
`Fn.delObjMembers` for ANY callees that agree with the model below the fuel.
-/
import JsonbModel.Proofs.TranslatedAgreeI19

set_option linter.unusedSimpArgs false
set_option linter.unusedVariables false

namespace Jsonb.TrAgree
open Jsonb.Rs

/-- the containers reachable from a document: the document, the container items of a reachable array, the container
values of the members of a reachable object (each walked as what its header word says it is) -/
inductive SubDoc (root : Bytes) : Bytes → Prop where
  | root : SubDoc root root
  | arr (v : Bytes) (h : Nat) (items : List (JE × Bytes)) (x : JE × Bytes) :
      SubDoc root v → readU32At v 0 = some h → hdrType h = C.ARRAY_CONTAINER_TAG → iterArray v h = .ok items → x ∈ items → x.1.ty = C.CONTAINER_TAG →
      SubDoc root x.2
  | obj (v : Bytes) (h : Nat) (ms : List (Bytes × JE × Bytes)) (m : Bytes × JE × Bytes) :
      SubDoc root v → readU32At v 0 = some h → hdrType h = C.OBJECT_CONTAINER_TAG → iterObjEntries v h = .ok ms → m ∈ ms → m.2.1.ty = C.CONTAINER_TAG →
      SubDoc root m.2.2

/-- The precondition of the agreement theorems of the `delete_by_keypath` family: no object reachable from the document
holds the same key twice.  The model passes the key path functionally and continues with the EMPTY path after a
successful recursive call; in the source the remaining path is whatever the callee left in the shared `VecDeque` (not
empty when the nested object does not hold the next name).  The two differ only if a later member of the same object
carries the matched key again.  (`encodeSpec v` has the precondition for every good `v`: keys strictly increasing.) -/
def KeysDistinct (root : Bytes) : Prop :=
  ∀ v, SubDoc root v → ∀ h ms, readU32At v 0 = some h → hdrType h = C.OBJECT_CONTAINER_TAG → iterObjEntries v h = .ok ms → (ms.map (fun m => m.1)).Nodup

theorem subDoc_length_le (root : Bytes) : ∀ v, SubDoc root v → v.length ≤ root.length := by
  intro v hs
  induction hs with
  | root => exact Nat.le_refl _
  | arr v h items x _ _ _ hit hx _ ih => have := iterArray_item_le v h items hit x hx; omega
  | obj v h ms m _ _ _ hms hm _ ih => have := iterObjEntries_item_le v h ms hms m hm; omega

/-- what the loops assume about the two functions they call: they agree with the model below some fuel, on every
reachable container -/
def DelRecOK (root : Bytes) (f : Nat) (recA : DelArrFn) (recO : DelObjFn) : Prop :=
  ∀ f', f' < f → ∀ (item : Bytes) (ih : Nat) (kp : List KeyPath), SubDoc root item → readU32At item 0 = some ih →
    (hdrType ih = C.ARRAY_CONTAINER_TAG → Fn.delArrKp f' kp ih item ≠ .fuel → (Fn.delArrKp f' kp ih item).isPanic = false →
      DelRel arrB (recA item (ih : Int) (kp.map ofKPath)) (Fn.delArrKp f' kp ih item)) ∧
    (hdrType ih = C.OBJECT_CONTAINER_TAG → Fn.delObjKp f' kp ih item ≠ .fuel → (Fn.delObjKp f' kp ih item).isPanic = false →
      DelRel objB (recO item (ih : Int) (kp.map ofKPath)) (Fn.delObjKp f' kp ih item))

theorem DelRecOK.mono {root : Bytes} {f f' : Nat} {recA recO} (h : DelRecOK root f recA recO) (hf : f' ≤ f) :
    DelRecOK root f' recA recO :=
  fun f'' hlt => h f'' (by omega)

/-- what a loop of the family answers in terms of the model's loop function -/
def DelLoop {β σ : Type} (c : Ctl (Option β × List Tr.KeyPath) σ) (done : σ → Prop) : Prop := ∃ s, c = .val s ∧ done s

def ArrRel (c : Ctl (Option Tr.ArrayBuilder × List Tr.KeyPath) (Tr.ArrayBuilder × List Tr.KeyPath)) (acc : List BEntry)
    (m : Res (Option (List BEntry))) : Prop :=
  match m with
  | .ok (some es) => ∃ kp', c = .val (arrB (acc ++ es), kp')
  | .ok none => ∃ kp', c = .ret (.ok (none, kp'))
  | .err e => c = .ret (.err e)
  | .panic _ => True
  | .fuel => True

def ObjRel (c : Ctl (Option Tr.ObjectBuilder × List Tr.KeyPath) (Tr.ObjectBuilder × List Tr.KeyPath))
    (m : Res (Option (List (Bytes × BEntry)))) : Prop :=
  match m with
  | .ok (some r) => ∃ kp', c = .val (objB r, kp')
  | .ok none => ∃ kp', c = .ret (.ok (none, kp'))
  | .err e => c = .ret (.err e)
  | .panic _ => True
  | .fuel => True

/-! ## the entries behind the hit: pushed as they are, whatever the key path holds -/

theorem dka_tail (recA : DelArrFn) (recO : DelObjFn) (idx : Nat) :
    ∀ (rest : List (JE × Bytes)) (f i : Nat) (acc : List BEntry) (kp : List KeyPath) (kpT : List Tr.KeyPath), idx < i →
      ArrRel (Rs.forIn (Rs.enumerateFrom i (rest.map ofItem)) (arrB acc, kpT)
          (Tr.delete_jsonb_array_by_keypath.loop1 recA recO (idx : Int))) acc (Fn.delArrItems f kp rest idx i) := by
  intro rest
  induction rest with
  | nil =>
    intro f i acc kp kpT _
    cases f with
    | zero => simp only [Fn.delArrItems, ArrRel]
    | succ f =>
      simp only [Fn.delArrItems, ArrRel, List.map_nil, Rs.enumerateFrom, Rs.forIn_nil, List.append_nil]
      exact ⟨kpT, rfl⟩
  | cons x rest ih =>
    intro f i acc kp kpT hi
    cases f with
    | zero => simp only [Fn.delArrItems, ArrRel]
    | succ f =>
      have hs := dka_loop1_other recA recO idx i x acc kpT (by omega)
      rw [delArrItems_other f kp x rest idx i (by omega), List.map_cons, Rs.enumerateFrom, Rs.forIn_next _ _ _ _ _ hs]
      have hn := ih f (i + 1) (acc ++ [Fn.rawOf x]) kp kpT (by omega)
      cases hm : Fn.delArrItems f kp rest idx (i + 1) with
      | fuel => simp only [ArrRel]
      | panic s => simp only [ArrRel]
      | err e => rw [hm] at hn; simpa only [ArrRel] using hn
      | ok o =>
        rw [hm] at hn
        cases o with
        | none => simpa only [ArrRel] using hn
        | some es =>
          simp only [ArrRel, List.append_assoc, List.singleton_append] at hn ⊢
          exact hn

theorem dko_tail (recA : DelArrFn) (recO : DelObjFn) (name : Bytes) :
    ∀ (rest : List (Bytes × JE × Bytes)) (f : Nat) (acc : List (Bytes × BEntry)) (kp : List KeyPath) (kpT : List Tr.KeyPath),
      (∀ m ∈ rest, m.1 ≠ name) →
      ObjRel (Rs.forIn (rest.map ofMember) (objB acc, kpT) (Tr.delete_jsonb_object_by_keypath.loop1 recA recO name))
        (Fn.delObjMembers f kp name rest acc) := by
  intro rest
  induction rest with
  | nil =>
    intro f acc kp kpT _
    cases f with
    | zero => simp only [Fn.delObjMembers, ObjRel]
    | succ f =>
      simp only [Fn.delObjMembers, ObjRel, List.map_nil, Rs.forIn_nil]
      exact ⟨kpT, rfl⟩
  | cons m rest ih =>
    intro f acc kp kpT hne
    cases f with
    | zero => simp only [Fn.delObjMembers, ObjRel]
    | succ f =>
      have hm := hne m List.mem_cons_self
      have hs := dko_loop1_other recA recO name m acc kpT hm
      rw [delObjMembers_other f kp name m rest acc hm, List.map_cons, Rs.forIn_next _ _ _ _ _ hs]
      exact ih f _ kp kpT (fun y hy => hne y (List.mem_cons_of_mem _ hy))

end Jsonb.TrAgree
