/-
Agreement theorems, phase 6b, part 4: the string helpers of util.rs — `encode_invalid_unicode`
(= `JP.encodeInvalidUnicode`), `parse_escaped_string` (= `JP.parseEscaped`), `parse_string` (= `JP.parseString`) —
for EVERY byte string, modulo the panic texts and the name of the `io::Error` (`RSim`, TranslatedAgreeH3.lean).
-/
import JsonbModel.Proofs.TranslatedAgreeH3
import JsonbModel.Proofs.TranslatedAgreeB2

set_option linter.unusedSimpArgs false
set_option linter.unusedVariables false

namespace Jsonb.TrAgree
open Jsonb.Rs

/-! ## encode_invalid_unicode -/

theorem tp_encodeChar (c : Nat) : Rs.encodeChar c = encodeUtf8 c := rfl

theorem eiu_run (bs : Bytes) : ∀ (s : Bytes),
    Rs.forIn (Rs.iterBytes bs) s Tr.encode_invalid_unicode.loop1 =
      (Ctl.val (s ++ (bs.map (fun n => encodeUtf8 n.toNat)).flatten) : Ctl Bytes Bytes) := by
  induction bs with
  | nil => intro s; simp [Rs.iterBytes, Rs.forIn]
  | cons b bs ih =>
    intro s
    simp only [Rs.iterBytes, List.map_cons] at ih ⊢
    have hstep : Tr.encode_invalid_unicode.loop1 (b.toNat : Int) s = Ctl.val (.next (s ++ encodeUtf8 b.toNat)) := by
      unfold Tr.encode_invalid_unicode.loop1
      simp only [Rs.pushChar, Rs.u8AsChar, Int.toNat_natCast, tp_encodeChar, Ctl.pure_eq', Rs.loopStep_val']
    rw [Rs.forIn_next _ _ _ _ _ hstep, ih]
    simp [List.flatten_cons, List.append_assoc]

/-- **`encode_invalid_unicode`** -/
theorem encode_invalid_unicode_agrees (numbers s : Bytes) :
    Tr.encode_invalid_unicode numbers s = .ok (s ++ JP.encodeInvalidUnicode numbers) := by
  unfold Tr.encode_invalid_unicode JP.encodeInvalidUnicode
  simp only [eiu_run, Ctl.val_bind', Ctl.run_ret', Rs.pushChar, tp_encodeChar, List.append_assoc]

/-! ## primitives of `parse_escaped_string` against the model's -/

theorem sim_index0 (site : String) (d : Bytes) :
    RSim (Rs.index d (0 : Int)) (JP.data0 site d) (fun b => (b.toNat : Int)) := by
  cases d with
  | nil => exact ⟨_, rfl⟩
  | cons b d => exact (rfl : Rs.index (b :: d) 0 = _)

theorem sim_index1 (site : String) (d : Bytes) :
    RSim (Rs.index d (1 : Int)) (JP.bufIndex site d 1) (fun b => (b.toNat : Int)) := by
  match d with
  | [] => exact ⟨_, rfl⟩
  | [_] => exact ⟨_, rfl⟩
  | _ :: b :: d => exact (rfl : Rs.index (_ :: b :: d) 1 = _)

theorem sim_sliceFrom (site : String) (d : Bytes) (k : Int) (n : Nat) (hk : k = (n : Int)) :
    RSim (Rs.sliceFrom d k) (JP.dataFrom site d n) id := by
  subst hk
  unfold Rs.sliceFrom JP.dataFrom
  by_cases h : n ≤ d.length
  · rw [if_pos h, if_pos (by omega)]
    show Res.ok _ = Res.ok _
    simp
  · rw [if_neg h, if_neg (by omega)]
    exact ⟨_, rfl⟩

theorem dataFrom_ok {site : String} {d c : Bytes} {n : Nat} (h : JP.dataFrom site d n = .ok c) :
    c = d.drop n ∧ n ≤ d.length := by
  unfold JP.dataFrom at h
  by_cases hn : n ≤ d.length
  · rw [if_pos hn] at h; cases h; exact ⟨rfl, hn⟩
  · rw [if_neg hn] at h; cases h

theorem data0_ok {site : String} {d : Bytes} {b : UInt8} (h : JP.data0 site d = .ok b) : ∃ r, d = b :: r := by
  cases d with
  | nil => cases h
  | cons x r => cases h; exact ⟨r, rfl⟩

theorem tp_len_repeat : Rs.len (Rs.bytesRepeat (0 : Int) (C.UNICODE_LEN : Int)) = (4 : Int) := by decide

theorem sim_readExact (d : Bytes) :
    RSim (Rs.mapErr (Rs.readExact d (4 : Int)) "InvalidUtf8") (JP.readExact d) id := by
  unfold Rs.readExact JP.readExact
  have h4 : (4 : Int).toNat = 4 := rfl
  have hu : C.UNICODE_LEN = 4 := rfl
  rw [h4, hu]
  by_cases h : 4 ≤ d.length
  · rw [if_pos h, if_pos h]; exact (rfl : Res.ok _ = _)
  · rw [if_neg h, if_neg h]; exact (rfl : Res.err _ = _)

theorem readExact_ok {d : Bytes} {p : Bytes × Bytes} (h : JP.readExact d = .ok p) :
    p = (d.take 4, d.drop 4) ∧ 4 ≤ d.length := by
  unfold JP.readExact at h
  have hu : C.UNICODE_LEN = 4 := rfl
  rw [hu] at h
  by_cases hn : 4 ≤ d.length
  · rw [if_pos hn] at h; cases h; exact ⟨rfl, hn⟩
  · rw [if_neg hn] at h; cases h

theorem decodeHexEscape_ne_io (bs : Bytes) (n : Nat) :
    JP.decodeHexEscape bs n ≠ .err "io: failed to fill whole buffer" := by
  induction bs generalizing n with
  | nil => simp [JP.decodeHexEscape]
  | cons b bs ih =>
    rw [JP.decodeHexEscape]
    rcases JP.decodeHexVal_spec b with h | ⟨m, h, _⟩
    · rw [h]; simp only [rb_ok]; intro c; exact absurd (Res.err.inj c) (by decide)
    · rw [h]; simp only [rb_ok]
      split
      · intro c; cases c
      · exact ih _

theorem sim_decode_hex_escape (numbers : Bytes) (idx : Int) :
    RSim (Tr.decode_hex_escape numbers idx) (JP.decodeHexEscape numbers 0) Int.ofNat :=
  RSim_of_eq (decode_hex_escape_agrees numbers idx) (decodeHexEscape_ne_io numbers 0)

theorem sim_charFromU32 (site : String) (n : Nat) :
    RSim (Rs.unwrap (Rs.charFromU32 (n : Int))) (JP.charFromU32 site n) id := by
  unfold Rs.charFromU32 JP.charFromU32
  by_cases h : n < 0xD800 ∨ (0xE000 ≤ n ∧ n < 0x110000)
  · rw [if_pos h, if_pos (by omega)]
    show Res.ok _ = Res.ok _
    simp
  · rw [if_neg h, if_neg (by omega)]
    exact ⟨_, rfl⟩

/-! ## parse_escaped_string -/

theorem Ctl.bind_assoc' {ρ α β γ : Type} (x : Ctl ρ α) (f : α → Ctl ρ β) (g : β → Ctl ρ γ) :
    ((x >>= f) >>= g) = (x >>= fun a => f a >>= g) := by
  cases x <;> rfl

/-- the model's `(remaining data, pushed bytes)` seen from the translation, which also returns the advanced error
position `idx` (`idx0` on entry, with `len0` bytes of data) and appends to `str_buf = s` -/
def escRes (idx0 len0 : Nat) (s : Bytes) (p : Bytes × Bytes) : Bytes × Int × Bytes :=
  (p.1, ((idx0 + len0 - p.1.length : Nat) : Int), s ++ p.2)

theorem escRes_mk (idx0 len0 : Nat) (s d out : Bytes) (i : Nat) (s' : Bytes) (hi : idx0 + len0 - d.length = i)
    (hs : s ++ out = s') : escRes idx0 len0 s (d, out) = (d, (i : Int), s') := by
  subst hi; subst hs; rfl

macro "esc_simple" : tactic => `(tactic|
  (simp only [if_true, Ctl.pure_eq', Ctl.val_bind', rb_pure]
   exact FSim_ret _ _ _ (escRes_mk _ _ _ _ _ _ _ (by simp only [List.length_cons]; omega) rfl)))

theorem FSim_bind2 {ρ α α' β γ : Type} {x : Ctl ρ α'} {B : α' → Ctl ρ α} {ma : Res γ} {h : γ → α} {k : α → Ctl ρ ρ}
    {f : γ → Res β} {g : β → ρ} (ha : CSim (x >>= B) ma h) (hk : ∀ c, ma = .ok c → FSim (k (h c)) (f c) g) :
    FSim (x >>= fun a => B a >>= k) (ma >>= f) g := by
  rw [← Ctl.bind_assoc']; exact FSim_bind ha hk

theorem CSim_bind_last {ρ α α' γ : Type} {a : Ctl ρ α} {ma : Res γ} {h : γ → α} {k : α → Ctl ρ α'}
    {h' : γ → α'} (ha : CSim a ma h) (hk : ∀ c, ma = .ok c → CSim (k (h c)) (.ok c) h') : CSim (a >>= k) ma h' := by
  cases ma with
  | ok c => have : a = .val (h c) := ha; subst this; exact hk c rfl
  | err e => have : a = .ret (.err (normE e)) := ha; subst this; exact (rfl : (Ctl.ret _ : Ctl ρ α') = _)
  | panic s => obtain ⟨s', hs⟩ := (ha : ∃ s, a = .ret (.panic s)); subst hs; exact ⟨s', rfl⟩
  | fuel => have : a = .ret .fuel := ha; subst this; exact (rfl : (Ctl.ret _ : Ctl ρ α') = _)

theorem tp_usize_drop_len (d : Bytes) (n : Nat) : (List.drop n d).length = d.length - n := List.length_drop

/-- the block reading four hex digits, plain or in braces (`if data[0] == b'{' { .. } else { .. }`), against the
model's `readHex4`; `i` is the error position on entry -/
theorem hexblock_sim {ρ : Type} (site : String) (d : Bytes) (i : Nat) (hi : i + 6 < 18446744073709551616) :
    CSim (ρ := ρ)
      (Ctl.ofRes (Rs.index d 0) >>= fun a =>
        if decide (a = 123) = true then
          Ctl.ofRes (Rs.sliceFrom d 1) >>= fun tmp5 =>
          Ctl.ofRes (Rs.mapErr (Rs.readExact tmp5 4) "InvalidUtf8") >>= fun __x =>
          Ctl.ofRes (Rs.index __x.snd 0) >>= fun tmp8 =>
          (if decide (tmp8 ≠ 125) = true then Ctl.ret (Res.err "UnexpectedEndOfHexEscape") else pure ()) >>= fun _ =>
          Ctl.ofRes (Rs.sliceFrom __x.snd 1) >>= fun tmp9 =>
          Ctl.ofRes (Rs.add .usize (i : Int) 6) >>= fun tmp10 =>
          pure (tmp9, __x.fst, tmp10)
        else
          Ctl.ofRes (Rs.mapErr (Rs.readExact d 4) "InvalidUtf8") >>= fun __x =>
          Ctl.ofRes (Rs.add .usize (i : Int) 4) >>= fun tmp13 =>
          pure (__x.snd, __x.fst, tmp13))
      (JP.readHex4 site d)
      (fun p => (p.2, p.1, ((i + d.length - p.2.length : Nat) : Int))) := by
  unfold JP.readHex4
  refine CSim_bind (CSim_ofRes (sim_index0 _ d)) ?_
  intro x hx
  obtain ⟨d2, rfl⟩ := data0_ok hx
  simp only [tp_beq_lit _ 0x7B 123 rfl]
  cases hb : (x == 0x7B) with
  | true =>
    simp only [if_true]
    refine CSim_bind (CSim_ofRes (sim_sliceFrom _ _ 1 1 rfl)) ?_
    intro d2' hd2
    obtain ⟨hd2e, -⟩ := dataFrom_ok hd2
    simp only [List.drop_succ_cons, List.drop_zero] at hd2e
    subst d2'
    simp only [id]
    refine CSim_bind (CSim_ofRes (sim_readExact _)) ?_
    intro p hp
    obtain ⟨rfl, h4⟩ := readExact_ok hp
    simp only [id]
    refine CSim_bind (CSim_ofRes (sim_index0 _ _)) ?_
    intro y hy
    obtain ⟨d3, hd3⟩ := data0_ok hy
    simp only [tp_bne_lit _ 0x7D 125 rfl]
    cases hy2 : (y != 0x7D) with
    | true =>
      simp only [if_true, Ctl.ret_bind']
      exact CSim_err _ _ _ rfl
    | false =>
      simp only [Bool.false_eq_true, if_false, Ctl.pure_eq', Ctl.val_bind']
      refine CSim_bind (CSim_ofRes (sim_sliceFrom _ _ 1 1 rfl)) ?_
      intro d3' hd3'
      obtain ⟨rfl, -⟩ := dataFrom_ok hd3'
      have hl : (List.drop 4 d2).length = d3.length + 1 := by rw [hd3]; rfl
      have hl2 : (List.drop 4 d2).length = d2.length - 4 := List.length_drop
      simp only [id, tp_add_usize i 6 (i + 6) (by omega) hi, Ctl.ofRes_ok', Ctl.val_bind', rb_pure]
      refine CSim_val _ _ _ ?_
      have hl3 : (List.drop 1 (List.drop 4 d2)).length = (List.drop 4 d2).length - 1 := List.length_drop
      have : i + (x :: d2).length - (List.drop 1 (List.drop 4 d2)).length = i + 6 := by
        simp only [List.length_cons]; omega
      simp only [this]
  | false =>
    simp only [Bool.false_eq_true, if_false]
    refine CSim_bind_last (CSim_ofRes (sim_readExact _)) ?_
    intro p hp
    obtain ⟨rfl, h4⟩ := readExact_ok hp
    simp only [id, tp_add_usize i 4 (i + 4) (by omega) (by omega), Ctl.ofRes_ok', Ctl.val_bind']
    refine CSim_val _ _ _ ?_
    have hl2 : (List.drop 4 (x :: d2)).length = (x :: d2).length - 4 := List.length_drop
    have : i + (x :: d2).length - (List.drop 4 (x :: d2)).length = i + 4 := by omega
    simp only [this]

theorem readHex4_ok {site : String} {d : Bytes} {c : Bytes × Bytes} (h : JP.readHex4 site d = .ok c) :
    c.1.length = 4 ∧ c.2.length + 4 ≤ d.length := by
  unfold JP.readHex4 at h
  cases d with
  | nil => cases h
  | cons x d2 =>
    simp only [JP.data0, rb_ok] at h
    cases hb : (x == 0x7B) with
    | false =>
      simp only [hb, Bool.false_eq_true, if_false] at h
      obtain ⟨rfl, h4⟩ := readExact_ok h
      have hl2 : (List.drop 4 (x :: d2)).length = (x :: d2).length - 4 := List.length_drop
      exact ⟨by simp only [List.length_take]; omega, by show (List.drop 4 (x :: d2)).length + 4 ≤ _; omega⟩
    | true =>
      simp only [hb, if_true, JP.dataFrom, List.length_cons, List.drop_succ_cons, List.drop_zero] at h
      rw [if_pos (by omega)] at h
      simp only [rb_ok] at h
      cases hr : JP.readExact d2 with
      | ok p =>
        obtain ⟨rfl, h4⟩ := readExact_ok hr
        rw [hr] at h
        simp only [rb_ok] at h
        cases hdd : List.drop 4 d2 with
        | nil => rw [hdd] at h; cases h
        | cons y d3 =>
          rw [hdd] at h
          simp only [JP.data0, rb_ok] at h
          cases hy : (y != 0x7D) with
          | true => simp only [hy, if_true] at h; cases h
          | false =>
            simp only [hy, Bool.false_eq_true, if_false, List.length_cons, List.drop_succ_cons, List.drop_zero] at h
            rw [if_pos (by omega)] at h
            simp only [rb_ok, rb_pure] at h
            cases h
            have hl2 : (List.drop 4 d2).length = d2.length - 4 := List.length_drop
            rw [hdd] at hl2
            simp only [List.length_cons] at hl2 ⊢
            exact ⟨by simp only [List.length_take]; omega, by omega⟩
      | err e => rw [hr] at h; cases h
      | panic s => rw [hr] at h; cases h
      | fuel => rw [hr] at h; cases h

theorem tp_range (x lo hi : Nat) (klo khi : Int) (h1 : klo = (lo : Int)) (h2 : khi = (hi : Int)) :
    (decide (klo ≤ (x : Int)) && decide ((x : Int) ≤ khi)) = decide (lo ≤ x ∧ x ≤ hi) := by
  subst h1; subst h2
  by_cases h : lo ≤ x ∧ x ≤ hi
  · have a : (lo : Int) ≤ (x : Int) := by omega
    have b : (x : Int) ≤ (hi : Int) := by omega
    simp [h, a, b]
  · by_cases a : (lo : Int) ≤ (x : Int)
    · have b : ¬ (x : Int) ≤ (hi : Int) := by omega
      simp [h, a, b]
    · simp [h, a]

theorem tp_sub_u16 (a b : Nat) (h : b ≤ a) (ha : a < 65536) (kb : Int) (hk : kb = (b : Int)) :
    Rs.sub .u16 (a : Int) kb = .ok ((a - b : Nat) : Int) := by
  subst hk
  rw [Rs.sub_ok _ _ _ (by rw [Rs.inRange_iff]; simp; omega)]
  congr 1; omega

theorem tp_cast_u32 (a : Nat) (h : a < 4294967296) : Rs.cast .u32 (a : Int) = (a : Int) :=
  Rs.cast_of_inRange _ _ (by rw [Rs.inRange_iff]; simp; omega)

theorem tp_shl_u32_10 (a : Nat) : Rs.shl .u32 (a : Int) 10 = .ok (((a <<< 10) % 4294967296 : Nat) : Int) := by
  have hs : (0 ≤ (10 : Int) ∧ (10 : Int) < ((IntTy.u32.bits : Nat) : Int)) := by simp [IntTy.bits]
  have hw : Rs.wrap .u32 ((a : Int) * ((2 ^ (10 : Int).toNat : Nat) : Int)) = (((a <<< 10) % 4294967296 : Nat) : Int) := by
    simp [Rs.wrap, IntTy.bits, IntTy.signed, Nat.shiftLeft_eq]
  simp only [Rs.shl, hs, and_self, if_true, hw]

theorem tp_add_u32 (a : Nat) (k : Int) (r : Nat) (hr : (a : Int) + k = (r : Int)) (h : r < 4294967296) :
    Rs.add .u32 (a : Int) k = .ok (r : Int) := by
  rw [Rs.add_ok _ _ _ (by rw [Rs.inRange_iff]; simp; omega), hr]

theorem tp_hi_sub (x : Nat) (h : 55296 ≤ x ∧ x ≤ 56319) : x - 55296 < 1024 := by omega
theorem tp_lo_sub (x : Nat) (h : 56320 ≤ x ∧ x ≤ 57343) : x - 56320 < 1024 := by omega
theorem tp_lt_u32_of_lt (x : Nat) (h : x < 1024) : x < 4294967296 := by omega

theorem tp_lt_lit (n k : Nat) (ki : Int) (hk : ki = (k : Int)) : decide ((n : Int) < ki) = decide (n < k) := by
  subst hk
  by_cases h : n < k
  · have : (n : Int) < (k : Int) := by omega
    simp [h, this]
  · have : ¬ (n : Int) < (k : Int) := by omega
    simp [h, this]

theorem parse_escaped_string_sim (data s : Bytes) (idx : Nat) (h : idx + data.length < 18446744073709551600) :
    RSim (Tr.parse_escaped_string data (idx : Int) s) (JP.parseEscaped data) (escRes idx data.length s) := by
  unfold Tr.parse_escaped_string JP.parseEscaped
  show FSim _ _ _
  refine FSim_bind (CSim_ofRes (sim_index0 _ data)) ?_
  intro byte hbyte
  obtain ⟨d1, rfl⟩ := data0_ok hbyte
  simp only [tp_add_usize idx 1 (idx + 1) (by omega) (by simp at h; omega), Ctl.ofRes_ok', Ctl.val_bind']
  refine FSim_bind (CSim_ofRes (sim_sliceFrom _ _ 1 1 rfl)) ?_
  intro d1' hd1
  obtain ⟨hd1e, -⟩ := dataFrom_ok hd1
  simp only [List.drop_succ_cons, List.drop_zero] at hd1e
  subst d1'
  simp only [List.length_cons] at h
  simp only [id, tp_beq_lit _ 0x5C 92 rfl, tp_beq_lit _ 0x22 34 rfl,
    tp_beq_lit _ 0x2F 47 rfl, tp_beq_lit _ 0x62 98 rfl, tp_beq_lit _ 0x66 102 rfl, tp_beq_lit _ 0x6E 110 rfl,
    tp_beq_lit _ 0x72 114 rfl, tp_beq_lit _ 0x74 116 rfl, tp_beq_lit _ 0x75 117 rfl]
  by_cases hu : byte = 0x75
  · subst hu
    simp only [JP.u_beq_1, JP.u_beq_2, JP.u_beq_3, JP.u_beq_4, JP.u_beq_5, JP.u_beq_6, JP.u_beq_7, JP.u_beq_8,
      beq_self_eq_true, Bool.false_eq_true, if_false, if_true, Ctl.bind_assoc', tp_len_repeat]
    refine FSim_bind2 (hexblock_sim _ d1 (idx + 1) (by omega)) ?_
    intro c hc
    obtain ⟨hn4, hcl⟩ := readHex4_ok hc
    obtain ⟨nums, d⟩ := c
    simp only at hn4 hcl ⊢
    generalize hi1 : idx + 1 + d1.length - d.length = i1
    have hi1b : i1 + d.length < 18446744073709551600 := by omega
    have hres : ∀ (d' out s' : Bytes) (j : Nat), j + d'.length = i1 + d.length → s ++ out = s' →
        escRes idx (d1.length + 1) s (d', out) = (d', (j : Int), s') := by
      intro d' out s' j hj hs
      exact escRes_mk _ _ _ _ _ _ _ (by omega) hs
    unfold JP.afterHex
    refine FSim_bind (CSim_ofRes (sim_decode_hex_escape _ _)) ?_
    intro hex hhex
    have hlt : hex < 65536 := (JP.decodeHexEscape4 nums hn4).2 hex hhex
    simp only [Int.ofNat_eq_natCast, tp_range hex 56320 57343 56320 57343 rfl rfl, tp_range hex 55296 56319 55296 56319 rfl rfl]
    by_cases hDC : 56320 ≤ hex ∧ hex ≤ 57343
    · simp only [hDC, and_self, decide_true, if_true, encode_invalid_unicode_agrees, Ctl.ofRes_ok', Ctl.val_bind', Ctl.ret_bind', rb_pure]
      exact FSim_ret _ _ _ (hres _ _ _ _ rfl rfl)
    have eDC : decide (56320 ≤ hex ∧ hex ≤ 57343) = false := by simp only [hDC, decide_false]
    simp only [eDC, Bool.false_eq_true, if_false, if_neg hDC]
    by_cases hD8 : 55296 ≤ hex ∧ hex ≤ 56319
    · have eD8 : decide (55296 ≤ hex ∧ hex ≤ 56319) = true := by simp only [hD8, and_self, decide_true]
      simp only [eD8, if_true, if_pos hD8, Ctl.bind_assoc', tp_len, tp_lt_lit _ 2 2 rfl]
      by_cases hl2 : d.length < 2
      · simp only [hl2, decide_true, if_true, encode_invalid_unicode_agrees, Ctl.ofRes_ok', Ctl.val_bind', Ctl.ret_bind', rb_pure]
        exact FSim_ret _ _ _ (hres _ _ _ _ rfl rfl)
      simp only [hl2, decide_false, Bool.false_eq_true, if_false, Ctl.pure_eq', Ctl.val_bind']
      refine FSim_bind (CSim_ofRes (sim_index0 _ d)) ?_
      intro d0 hd0
      refine FSim_bind (h := id) (ma := (if (d0 == 92) = true then do
            let d1 ← JP.bufIndex "parse_escaped_string(surrogate): data[1]" d 1
            pure (d1 == 117)
          else pure false)) ?blk ?_
      case blk =>
        simp only [tp_beq_lit _ 0x5C 92 rfl]
        cases (d0 == 0x5C) with
        | true =>
          simp only [if_true]
          refine CSim_bind (CSim_ofRes (sim_index1 _ d)) ?_
          intro y hy
          simp only [tp_beq_lit _ 0x75 117 rfl, Ctl.pure_eq', rb_pure]
          exact CSim_val _ _ _ rfl
        | false =>
          simp only [Bool.false_eq_true, if_false, Ctl.pure_eq', rb_pure]
          exact CSim_val _ _ _ rfl
      intro isBsU hBsU
      cases isBsU with
      | false =>
        simp only [id, Bool.false_eq_true, if_false, Bool.not_false, if_true, encode_invalid_unicode_agrees, Ctl.ofRes_ok', Ctl.val_bind',
          Ctl.ret_bind', rb_pure]
        exact FSim_ret _ _ _ (hres _ _ _ _ rfl rfl)
      | true =>
        simp only [id, if_true, Bool.not_true, Bool.false_eq_true, if_false, tp_add_usize i1 2 (i1 + 2) (by omega) (by omega),
          Ctl.ofRes_ok', Ctl.val_bind', Ctl.bind_assoc']
        refine FSim_bind (CSim_ofRes (sim_sliceFrom _ _ 2 2 rfl)) ?_
        intro dd hdd
        obtain ⟨hdde, hdle⟩ := dataFrom_ok hdd
        have hddl : dd.length + 2 = d.length := by rw [hdde, List.length_drop]; omega
        simp only [id, Ctl.pure_eq', Ctl.val_bind']
        unfold JP.pairLow
        refine FSim_bind2 (hexblock_sim _ dd (i1 + 2) (by omega)) ?_
        intro c2 hc2
        obtain ⟨hn42, hcl2⟩ := readHex4_ok hc2
        obtain ⟨lower, d'⟩ := c2
        simp only at hn42 hcl2 ⊢
        generalize hi2 : i1 + 2 + dd.length - d'.length = i2
        refine FSim_bind (CSim_ofRes (sim_decode_hex_escape _ _)) ?_
        intro n2 hn2
        have hlt2 : n2 < 65536 := (JP.decodeHexEscape4 lower hn42).2 n2 hn2
        simp only [Int.ofNat_eq_natCast, tp_range n2 56320 57343 56320 57343 rfl rfl]
        by_cases hLo : 56320 ≤ n2 ∧ n2 ≤ 57343
        · have eLo : decide (56320 ≤ n2 ∧ n2 ≤ 57343) = true := by simp only [hLo, and_self, decide_true]
          simp only [eLo, Bool.not_true, Bool.false_eq_true, if_false, Ctl.pure_eq', Ctl.val_bind']
          have ha : hex - 55296 < 1024 := tp_hi_sub hex hD8
          have hb : n2 - 56320 < 1024 := tp_lo_sub n2 hLo
          have hpb := JP.pair_bound (hex - 55296) (n2 - 56320) ha hb
          unfold JP.pairCombine JP.subUsize
          rw [if_neg (Nat.not_lt.mpr hD8.1), if_neg (Nat.not_lt.mpr hLo.1)]
          simp only [tp_sub_u16 hex 55296 hD8.1 hlt 55296 rfl, tp_sub_u16 n2 56320 hLo.1 hlt2 56320 rfl,
            Ctl.ofRes_ok', Ctl.val_bind', tp_cast_u32 _ (tp_lt_u32_of_lt _ ha),
            tp_cast_u32 _ (tp_lt_u32_of_lt _ hb), tp_shl_u32_10, Rs.bitor_natCast, rb_ok]
          generalize ((hex - 55296) <<< 10 % 4294967296 ||| (n2 - 56320)) = m at hpb ⊢
          have hm : m < 1048576 := by omega
          rw [if_neg (by omega)]
          simp only [tp_add_u32 m 65536 (m + 65536) (by omega) (by omega), Ctl.ofRes_ok', Ctl.val_bind']
          have hk : m + 65536 < 1114112 := by omega
          generalize m + 65536 = k at hk ⊢
          refine FSim_bind (CSim_ofRes (sim_charFromU32 _ k)) ?_
          intro ch hch
          simp only [id, rb_pure]
          exact FSim_ret _ _ _ (hres _ _ _ _ (by omega) rfl)
        · have eLo : decide (56320 ≤ n2 ∧ n2 ≤ 57343) = false := by simp only [hLo, decide_false]
          simp only [eLo, Bool.not_false, if_true, encode_invalid_unicode_agrees, Ctl.ofRes_ok', Ctl.val_bind', Ctl.ret_bind', rb_pure]
          exact FSim_ret _ _ _ (hres _ _ _ _ (by omega) (by simp only [List.append_assoc]))
    · have eD8 : decide (55296 ≤ hex ∧ hex ≤ 56319) = false := by simp only [hD8, decide_false]
      have hcast : Rs.cast .u32 (hex : Int) = (hex : Int) :=
        Rs.cast_of_inRange _ _ (by rw [Rs.inRange_iff]; simp; omega)
      simp only [eD8, Bool.false_eq_true, if_false, if_neg hD8, Ctl.bind_assoc', hcast]
      refine FSim_bind (CSim_ofRes (sim_charFromU32 _ hex)) ?_
      intro ch hch
      simp only [id, Ctl.pure_eq', Ctl.val_bind', rb_pure]
      exact FSim_ret _ _ _ (hres _ _ _ _ rfl rfl)
  ·
    cases hc0 : (byte == 0x5C) with
    | true => esc_simple
    | false =>
      simp only [Bool.false_eq_true, if_false]
      cases hc1 : (byte == 0x22) with
      | true => esc_simple
      | false =>
        simp only [Bool.false_eq_true, if_false]
        cases hc2 : (byte == 0x2F) with
        | true => esc_simple
        | false =>
          simp only [Bool.false_eq_true, if_false]
          cases hc3 : (byte == 0x62) with
          | true => esc_simple
          | false =>
            simp only [Bool.false_eq_true, if_false]
            cases hc4 : (byte == 0x66) with
            | true => esc_simple
            | false =>
              simp only [Bool.false_eq_true, if_false]
              cases hc5 : (byte == 0x6E) with
              | true => esc_simple
              | false =>
                simp only [Bool.false_eq_true, if_false]
                cases hc6 : (byte == 0x72) with
                | true => esc_simple
                | false =>
                  simp only [Bool.false_eq_true, if_false]
                  cases hc7 : (byte == 0x74) with
                  | true => esc_simple
                  | false =>
                    simp only [Bool.false_eq_true, if_false]
                    have hcu : (byte == 0x75) = false := by simpa using hu
                    simp only [hcu, Bool.false_eq_true, if_false, Ctl.ret_bind']
                    exact FSim_err _ _ _ rfl

end Jsonb.TrAgree
