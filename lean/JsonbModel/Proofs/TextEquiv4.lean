/-
C11 leftovers: `concat` with one text and one JSONB argument, `delete_by_index` on a text that is
not an array, and what the text branches answer for a text that does not parse.

Not modelled in Functions/Text.lean (nothing to prove here): the text branch of
`delete_by_keypath`, `exists_any_keys`, `is_array` / `is_object`, `as_i64` / `as_u64`,
`object_each`, `array_values`.
-/
import JsonbModel.Proofs.TextEquiv3

namespace Jsonb
open JV

/-! ### goodness of a concatenation does not see the codec's normalisation

`concat` with a text argument sends the JSONB argument through `from_slice`, i.e. works on
`norm v` (numbers in stored form).  `goodTop (Spec.concat a b)` only looks at counts, key order,
string validity and number well-formedness, all of which `norm` keeps. -/

/-- members related one by one: same key, value kept or normalised -/
def NormRel (m m' : List (Bytes × JV)) : Prop :=
  List.Forall₂ (fun x y => y.1 = x.1 ∧ (y.2 = x.2 ∨ y.2 = norm x.2)) m m'

theorem NormRel_refl : ∀ m : List (Bytes × JV), NormRel m m
  | [] => .nil
  | _ :: m => .cons ⟨rfl, .inl rfl⟩ (NormRel_refl m)

theorem NormRel_normKvs : ∀ m : List (Bytes × JV), NormRel m (normKvs m)
  | [] => by simp only [normKvs]; exact .nil
  | (k, v) :: m => by simp only [normKvs]; exact .cons ⟨rfl, .inr rfl⟩ (NormRel_normKvs m)

theorem NormRel_insertKV (k : Bytes) (v v' : JV) (hv : v' = v ∨ v' = norm v) :
    ∀ {m m' : List (Bytes × JV)}, NormRel m m' → NormRel (insertKV k v m) (insertKV k v' m') := by
  intro m m' h
  induction h with
  | nil => exact .cons ⟨rfl, hv⟩ .nil
  | @cons x y m m' hxy hm ih =>
    obtain ⟨k1, v1⟩ := x
    obtain ⟨k2, v2⟩ := y
    have hk : k2 = k1 := hxy.1
    subst hk
    simp only [insertKV]
    cases lexCmp k k2 with
    | lt => exact .cons ⟨rfl, hv⟩ (.cons hxy hm)
    | eq => exact .cons ⟨rfl, hv⟩ hm
    | gt => exact .cons hxy ih

theorem NormRel_foldl : ∀ {r r' : List (Bytes × JV)}, NormRel r r' → ∀ {m m' : List (Bytes × JV)}, NormRel m m' →
    NormRel (r.foldl (fun m kv => insertKV kv.1 kv.2 m) m) (r'.foldl (fun m kv => insertKV kv.1 kv.2 m) m') := by
  intro r r' h
  induction h with
  | nil => intro m m' hm; exact hm
  | @cons x y r r' hxy _ ih =>
    intro m m' hm
    simp only [List.foldl_cons]
    apply ih
    rw [hxy.1]
    exact NormRel_insertKV x.1 x.2 y.2 hxy.2 hm

theorem NormRel_keys {m m' : List (Bytes × JV)} (h : NormRel m m') : m.map (·.1) = m'.map (·.1) := by
  induction h with
  | nil => rfl
  | cons hxy _ ih => simp only [List.map_cons, ih, hxy.1]

theorem NormRel_goodK {m m' : List (Bytes × JV)} (h : NormRel m m') (hg : goodK m = true) : goodK m' = true := by
  induction h with
  | nil => rfl
  | @cons x y m m' hxy _ ih =>
    obtain ⟨k1, v1⟩ := x
    obtain ⟨k2, v2⟩ := y
    have hk : k2 = k1 := hxy.1
    subst hk
    simp only [goodK, Bool.and_eq_true] at hg ⊢
    refine ⟨⟨hg.1.1, ?_⟩, ih hg.2⟩
    rcases hxy.2 with h2 | h2
    · have h2' : v2 = v1 := h2
      rw [h2']; exact hg.1.2
    · have h2' : v2 = norm v1 := h2
      rw [h2']; exact good_norm v1 hg.1.2

theorem NormRel_goodTop {m m' : List (Bytes × JV)} (h : NormRel m m') (hg : goodTop (obj m) = true) :
    goodTop (obj m') = true := by
  simp only [goodTop, Bool.and_eq_true, decide_eq_true_eq] at hg ⊢
  have hk := NormRel_keys h
  have hl : m'.length = m.length := by
    have := congrArg List.length hk; simpa using this.symm
  exact ⟨⟨by omega, keysSorted_same_keys m m' hk hg.1.2⟩, NormRel_goodK h hg.2⟩

/-- the elements a non-object/object concatenation puts side by side -/
def asItems : JV → List JV
  | arr l => l
  | x => [x]

def isObj : JV → Bool
  | obj _ => true
  | _ => false

theorem concat_items (a b : JV) (h : (isObj a && isObj b) = false) :
    Spec.concat a b = arr (asItems a ++ asItems b) := by
  cases a <;> cases b <;> simp_all [Spec.concat, asItems, isObj]

theorem asItems_norm (b : JV) : asItems (norm b) = normList (asItems b) := by
  cases b <;> simp [asItems, norm, normList]

theorem isObj_norm (b : JV) : isObj (norm b) = isObj b := by
  cases b <;> simp [isObj, norm]

theorem goodTop_arr_append_norm_right (xs ys : List JV) (h : goodTop (arr (xs ++ ys)) = true) :
    goodTop (arr (xs ++ normList ys)) = true := by
  simp only [goodTop, Bool.and_eq_true, decide_eq_true_eq, List.length_append, goodL_append,
    normList_length] at h ⊢
  exact ⟨h.1, h.2.1, goodL_norm ys h.2.2⟩

theorem goodTop_arr_append_norm_left (xs ys : List JV) (h : goodTop (arr (xs ++ ys)) = true) :
    goodTop (arr (normList xs ++ ys)) = true := by
  simp only [goodTop, Bool.and_eq_true, decide_eq_true_eq, List.length_append, goodL_append,
    normList_length] at h ⊢
  exact ⟨h.1, goodL_norm xs h.2.1, h.2.2⟩

/-- **the weakest hypothesis**: goodness of the plain concatenation is enough -/
theorem goodTop_concat_norm_right (a b : JV) (h : goodTop (Spec.concat a b) = true) :
    goodTop (Spec.concat a (norm b)) = true := by
  cases ho : (isObj a && isObj b) with
  | false =>
    have ho' : (isObj a && isObj (norm b)) = false := by rw [isObj_norm]; exact ho
    rw [concat_items a b ho] at h
    rw [concat_items a (norm b) ho', asItems_norm]
    exact goodTop_arr_append_norm_right _ _ h
  | true =>
    cases a <;> cases b <;> simp [isObj] at ho
    rename_i l r
    simp only [Spec.concat, norm] at h ⊢
    exact NormRel_goodTop (NormRel_foldl (NormRel_normKvs r) (NormRel_refl l)) h

theorem goodTop_concat_norm_left (a b : JV) (h : goodTop (Spec.concat a b) = true) :
    goodTop (Spec.concat (norm a) b) = true := by
  cases ho : (isObj a && isObj b) with
  | false =>
    have ho' : (isObj (norm a) && isObj b) = false := by rw [isObj_norm]; exact ho
    rw [concat_items a b ho] at h
    rw [concat_items (norm a) b ho', asItems_norm]
    exact goodTop_arr_append_norm_left _ _ h
  | true =>
    cases a <;> cases b <;> simp [isObj] at ho
    rename_i l r
    simp only [Spec.concat, norm] at h ⊢
    exact NormRel_goodTop (NormRel_foldl (NormRel_refl r) (NormRel_normKvs l)) h

/-! ### (a) `concat`, one text and one JSONB argument -/

/-- the JSONB function does not see the normalisation of its right argument -/
theorem concat_bin_norm_right (v1 v2 : JV) (h1 : goodTop v1 = true) (h2 : goodTop v2 = true)
    (hres : goodTop (Spec.concat v1 v2) = true) (buf : Bytes) :
    Fn.concat (encodeSpec v1) (encodeSpec v2) buf = .ok (buf ++ encodeSpec (Spec.concat v1 (norm v2))) := by
  have := concat_refines v1 (norm v2) h1 (goodTop_norm v2 h2) (goodTop_concat_norm_right v1 v2 hres) buf
  rw [encodeSpec_norm] at this
  exact this

theorem concat_bin_norm_left (v1 v2 : JV) (h1 : goodTop v1 = true) (h2 : goodTop v2 = true)
    (hres : goodTop (Spec.concat v1 v2) = true) (buf : Bytes) :
    Fn.concat (encodeSpec v1) (encodeSpec v2) buf = .ok (buf ++ encodeSpec (Spec.concat (norm v1) v2)) := by
  have := concat_refines (norm v1) v2 (goodTop_norm v1 h1) h2 (goodTop_concat_norm_left v1 v2 hres) buf
  rw [encodeSpec_norm] at this
  exact this

/-- in particular the two trees encode to the same bytes -/
theorem encodeSpec_concat_norm_right (v1 v2 : JV) (h1 : goodTop v1 = true) (h2 : goodTop v2 = true)
    (hres : goodTop (Spec.concat v1 v2) = true) :
    encodeSpec (Spec.concat v1 (norm v2)) = encodeSpec (Spec.concat v1 v2) := by
  have a := concat_bin_norm_right v1 v2 h1 h2 hres []
  have b := concat_refines v1 v2 h1 h2 hres []
  rw [a] at b
  simpa using Res.ok.inj b

/-- **`concat` text ⧺ JSONB**: the text goes through the parser, the JSONB argument through
`from_slice` (decoded, i.e. `norm v2`), the trees are concatenated and written; same bytes as the
all-JSONB call.  Only hypothesis on the result: the plain concatenation is inside the field widths. -/
theorem concat_text_bin {t1 : Bytes} {v1 v2 : JV} (h1 : TextOfFS t1 v1) (hg : goodTop v2 = true)
    (hs : topCount v2 < 16777216) (hres : goodTop (Spec.concat v1 v2) = true) (buf : Bytes) :
    T.concat t1 (encodeSpec v2) buf = T.concat (encodeSpec v1) (encodeSpec v2) buf := by
  have hj1 := isJsonb_encodeSpec v1 h1.small
  have hj2 := isJsonb_encodeSpec v2 hs
  simp only [T.concat, h1.notJsonb, hj1, hj2, fromSlice_textOf h1, fromSlice_bin v2 hg,
    Bool.not_false, Bool.not_true, Bool.true_or, Bool.or_self, if_true, Bool.false_eq_true, if_false]
  rw [concat_bin_norm_right v1 v2 h1.good hg hres buf,
    writeToVec_spec buf _ (goodTop_concat_norm_right v1 v2 hres)]

/-- **`concat` JSONB ⧺ text** -/
theorem concat_bin_text {t2 : Bytes} {v1 v2 : JV} (hg : goodTop v1 = true) (hs : topCount v1 < 16777216)
    (h2 : TextOfFS t2 v2) (hres : goodTop (Spec.concat v1 v2) = true) (buf : Bytes) :
    T.concat (encodeSpec v1) t2 buf = T.concat (encodeSpec v1) (encodeSpec v2) buf := by
  have hj1 := isJsonb_encodeSpec v1 hs
  have hj2 := isJsonb_encodeSpec v2 h2.small
  simp only [T.concat, h2.notJsonb, hj1, hj2, fromSlice_textOf h2, fromSlice_bin v1 hg,
    Bool.not_false, Bool.not_true, Bool.or_true, Bool.or_self, if_true, Bool.false_eq_true, if_false]
  rw [concat_bin_norm_left v1 v2 hg h2.good hres buf,
    writeToVec_spec buf _ (goodTop_concat_norm_left v1 v2 hres)]

/-- all three text cases at once, with the value they compute -/
theorem concat_text_bin_value {t1 : Bytes} {v1 v2 : JV} (h1 : TextOfFS t1 v1) (hg : goodTop v2 = true)
    (hs : topCount v2 < 16777216) (hres : goodTop (Spec.concat v1 v2) = true) (buf : Bytes) :
    T.concat t1 (encodeSpec v2) buf = .ok (buf ++ encodeSpec (Spec.concat v1 v2)) := by
  rw [concat_text_bin h1 hg hs hres buf]
  simp only [T.concat, isJsonb_encodeSpec v1 h1.small, isJsonb_encodeSpec v2 hs, Bool.not_true, Bool.or_self,
    Bool.false_eq_true, if_false]
  exact concat_refines v1 v2 h1.good hg hres buf

theorem concat_bin_text_value {t2 : Bytes} {v1 v2 : JV} (hg : goodTop v1 = true) (hs : topCount v1 < 16777216)
    (h2 : TextOfFS t2 v2) (hres : goodTop (Spec.concat v1 v2) = true) (buf : Bytes) :
    T.concat (encodeSpec v1) t2 buf = .ok (buf ++ encodeSpec (Spec.concat v1 v2)) := by
  rw [concat_bin_text hg hs h2 hres buf]
  simp only [T.concat, isJsonb_encodeSpec v1 hs, isJsonb_encodeSpec v2 h2.small, Bool.not_true, Bool.or_self,
    Bool.false_eq_true, if_false]
  exact concat_refines v1 v2 hg h2.good hres buf

/-! ### (b) `delete_by_index` on a text that is not an array -/

/-- the JSONB branch on the encoding of a non-array: the documented error, for every index -/
theorem deleteByIndex_bin_nonarr (v : JV) (hg : goodTop v = true) (hna : ∀ vs, v ≠ arr vs) (i : Int) (buf : Bytes) :
    Fn.deleteByIndex (encodeSpec v) i buf = .err "InvalidJsonType" := by
  simp only [Fn.deleteByIndex, readHdr v hg, hdrType_hdrOf v hg]
  rw [if_neg (kindOf_ne_arr v hna)]

/-- the text branch on a text that parses to a non-array: the same error -/
theorem deleteByIndex_text_nonarr_err {t : Bytes} {v : JV} (h : TextOf t v) (hna : ∀ vs, v ≠ arr vs)
    (i : Int) (buf : Bytes) : T.deleteByIndex t i buf = .err "InvalidJsonType" := by
  have hp := h.parses
  have hn := h.notJsonb
  cases v <;> first
    | exact absurd rfl (hna _)
    | simp only [T.deleteByIndex, hn, hp, Bool.not_false, if_true]

/-- **`delete_by_index` on a text that is not an array**: both branches answer `InvalidJsonType`
(and append nothing: the result carries no buffer) -/
theorem deleteByIndex_text_nonarr {t : Bytes} {v : JV} (h : TextOf t v) (hna : ∀ vs, v ≠ arr vs)
    (i : Int) (buf : Bytes) :
    T.deleteByIndex t i buf = T.deleteByIndex (encodeSpec v) i buf ∧
    T.deleteByIndex t i buf = .err "InvalidJsonType" := by
  refine ⟨?_, deleteByIndex_text_nonarr_err h hna i buf⟩
  rw [deleteByIndex_text_nonarr_err h hna i buf]
  simp only [T.deleteByIndex, isJsonb_encodeSpec v h.small, Bool.not_true, Bool.false_eq_true, if_false]
  exact (deleteByIndex_bin_nonarr v h.good hna i buf).symm

/-- `delete_by_index` on every text (array or not), index in the i32 range -/
theorem deleteByIndex_text_any {t : Bytes} {v : JV} (h : TextOf t v)
    (i : Int) (hi : -2147483648 ≤ i ∧ i ≤ 2147483647) (buf : Bytes) :
    T.deleteByIndex t i buf = T.deleteByIndex (encodeSpec v) i buf := by
  by_cases hva : ∃ vs, v = arr vs
  · obtain ⟨vs, rfl⟩ := hva
    exact deleteByIndex_text h i hi buf
  · exact (deleteByIndex_text_nonarr h (fun vs e => hva ⟨vs, e⟩) i buf).1

/-! ### (d) a text that does not parse: what each text branch answers

Not a text/JSONB agreement (there is no encoding to compare with) but the other half of the
branch structure: accessors answer "nothing", editors pass the parse error on, `compare` and
`convert_to_comparable` have their documented fallbacks. -/
section
variable {t : Bytes} {e : String} (hn : isJsonb t = false) (hp : parseValue t = .err e)
include hn hp

theorem arrayLength_unparsable : T.arrayLength t = .ok none := by
  simp [T.arrayLength, hn, hp]
theorem getByIndex_unparsable (i : Nat) : T.getByIndex t i = .ok none := by
  simp [T.getByIndex, hn, hp]
theorem getByName_unparsable (name : Bytes) (ic : Bool) : T.getByName t name ic = .ok none := by
  simp [T.getByName, hn, hp]
theorem getByKeypath_unparsable (path : List KeyPath) : T.getByKeypath t path = .ok none := by
  simp [T.getByKeypath, hn, hp]
theorem objectKeys_unparsable : T.objectKeys t = .ok none := by
  simp [T.objectKeys, hn, hp]
theorem typeOf_unparsable : T.typeOf t = .err e := by
  simp [T.typeOf, hn, hp, Res.map, Res.bind]
theorem asX_unparsable :
    T.asNull t = .ok none ∧ T.asBool t = .ok none ∧ T.asNumber t = .ok none ∧ T.asStr t = .ok none := by
  simp [T.asNull, T.asBool, T.asNumber, T.asStr, hn, hp]
theorem existsAllKeys_unparsable (keys : List Bytes) : T.existsAllKeys t keys = .ok false := by
  simp [T.existsAllKeys, hn, hp]
theorem traverseCheckString_unparsable (p : Bytes → Bool) : T.traverseCheckString t p = .ok false := by
  simp [T.traverseCheckString, hn, hp]
theorem pathExists_unparsable (jp : JsonPath) : T.pathExists t jp = .ok false := by
  simp [T.pathExists, hn, hp]
/-- `get_by_path*`: nothing is written, no offset pushed -/
theorem getByPathMode_unparsable (mode : Sel.Mode) (jp : JsonPath) (data : Bytes) :
    T.getByPathMode mode t jp data = .ok (data, []) := by
  simp [T.getByPathMode, hn, hp]
/-- the tree-side editors pass the parse error on (no buffer in the result) -/
theorem editors_unparsable (name buf : Bytes) (i : Int) :
    T.stripNulls t buf = .err e ∧ T.deleteByName t name buf = .err e ∧ T.deleteByIndex t i buf = .err e := by
  simp [T.stripNulls, T.deleteByName, T.deleteByIndex, hn, hp]
/-- the "parse, encode, run" editors too -/
theorem viaJsonb1_unparsable {α} (f : Bytes → Res α) : T.viaJsonb1 f t = .err e := by
  simp [T.viaJsonb1, T.textToJsonb, hn, hp, Res.bind]
theorem viaJsonb2_unparsable_left {α} (f : Bytes → Bytes → Res α) (b : Bytes) : T.viaJsonb2 f t b = .err e := by
  simp [T.viaJsonb2, T.textToJsonb, hn, hp, Res.bind]
/-- `convert_to_comparable`: level byte of an invalid value, then the raw text -/
theorem convertToComparable_unparsable (buf : Bytes) :
    T.convertToComparable t buf = .ok (buf ++ ([0, UInt8.ofNat C.INVALID_LEVEL] ++ t)) := by
  simp [T.convertToComparable, hn, hp]
/-- `compare`: an unparsable text is below every JSONB document -/
theorem compare_unparsable_bin (b : Bytes) (hb : isJsonb b = true) :
    T.compare t b = .ok .lt ∧ T.compare b t = .ok .gt := by
  simp [T.compare, hn, hp, hb]
end

end Jsonb
