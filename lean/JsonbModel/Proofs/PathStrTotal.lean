/-
`raw_string` and `string` never panic: the scanning loop (with `check_escaped`) establishes
that the scanned slice is a sequence of plain bytes and COMPLETE escapes (`EscOK`), and on such
data none of the unguarded `data[0]` / `char::from_u32(..).unwrap()` sites of
`util::parse_string` / `parse_escaped_string` can fire.
-/
import JsonbModel.PathParser
import JsonbModel.Proofs.NomNoPanic

namespace Jsonb

theorem Res.bind_ne_panic {α β} {r : Res α} {f : α → Res β}
    (hr : ∀ s, r ≠ .panic s) (hf : ∀ a, r = .ok a → ∀ s, f a ≠ .panic s) :
    ∀ s, r.bind f ≠ .panic s := by
  intro s
  cases r with
  | ok a => exact hf a rfl s
  | err e => simp [Res.bind]
  | panic t => exact absurd rfl (hr t)
  | fuel => simp [Res.bind]

namespace PathStr
open PathParser

/-! ### hex decoding is total and bounded -/

set_option maxRecDepth 100000 in
theorem hex_all_le : ∀ x ∈ C.HEX, x ≤ 255 := by decide

theorem hex_getD_le (i : Nat) : C.HEX.getD i 255 ≤ 255 := by
  rw [List.getD_eq_getElem?_getD]
  cases h : C.HEX[i]? with
  | none => simp
  | some x => exact hex_all_le x (List.mem_of_getElem? h)

theorem decodeHexVal_le (b : UInt8) (h : Nat) (hh : decodeHexVal b = some h) : h ≤ 255 := by
  unfold decodeHexVal at hh
  simp only [] at hh
  split at hh
  · simp at hh
  · simp only [Option.some.injEq] at hh
    subst hh
    exact hex_getD_le _

/-- result of `decode_hex_escape`: an error or a value that fits `char::from_u32` -/
def HexGood (r : Res Nat) : Prop := (∃ n, r = .ok n ∧ n ≤ 65790) ∨ (∃ e, r = .err e)

theorem decodeHexEscape_good (numbers : Bytes) : HexGood (decodeHexEscape numbers) := by
  unfold decodeHexEscape
  suffices h : ∀ acc, HexGood acc → HexGood (numbers.foldl (fun acc b => acc.bind fun n =>
      match decodeHexVal b with
      | some h => .ok (n * 16 % 65536 + h)
      | none => .err "InvalidHex") acc) from h _ (Or.inl ⟨0, rfl, by omega⟩)
  induction numbers with
  | nil => intro acc h; exact h
  | cons b bs ih =>
    intro acc h
    simp only [List.foldl_cons]
    apply ih
    rcases h with ⟨n, rfl, _⟩ | ⟨e, rfl⟩
    · simp only [Res.bind]
      cases hd : decodeHexVal b with
      | none => exact Or.inr ⟨_, rfl⟩
      | some h =>
        have := decodeHexVal_le b h hd
        exact Or.inl ⟨_, rfl, by omega⟩
    · exact Or.inr ⟨e, rfl⟩

theorem charFromU32Unwrap_ok (n : Nat) (h1 : ¬ (0xD800 ≤ n ∧ n ≤ 0xDFFF)) (h2 : n ≤ 0x10FFFF) :
    charFromU32Unwrap n = .ok (utf8Encode n) := by
  unfold charFromU32Unwrap
  rw [if_neg]
  omega

/-! ### complete escapes -/

/-- `data` is a sequence of plain bytes and escapes each of which passes `check_escaped`
relative to `data` itself (so it is entirely contained in `data`). -/
inductive EscOK : Bytes → Prop where
  | nil : EscOK []
  | plain (c : UInt8) (r : Bytes) : c ≠ 92 → EscOK r → EscOK (c :: r)
  | esc (r : Bytes) (k : Nat) : checkEscaped (92 :: r) = some k → EscOK ((92 :: r).drop k) →
      EscOK (92 :: r)

theorem EscOK.inv_esc {r : Bytes} (h : EscOK (92 :: r)) :
    ∃ k, checkEscaped (92 :: r) = some k ∧ EscOK ((92 :: r).drop k) := by
  cases h with
  | plain _ _ hc _ => exact absurd rfl hc
  | esc _ k hk hr => exact ⟨k, hk, hr⟩

theorem EscOK.inv_plain {c : UInt8} {r : Bytes} (hc : c ≠ 92) (h : EscOK (c :: r)) : EscOK r := by
  cases h with
  | plain _ _ _ hr => exact hr
  | esc _ k hk hr => exact absurd rfl hc

theorem checkEscaped_two (x c : UInt8) (rest : Bytes) (hc : c ≠ 117) :
    checkEscaped (x :: c :: rest) = some 2 := by
  simp [checkEscaped, hc]

theorem checkEscaped_six (x a b c d : UInt8) (r : Bytes) (ha : a ≠ 123) :
    checkEscaped (x :: 117 :: a :: b :: c :: d :: r) = some 6 := by
  simp [checkEscaped, ha]

theorem checkEscaped_eight (x b c d e f : UInt8) (r : Bytes) :
    checkEscaped (x :: 117 :: 123 :: b :: c :: d :: e :: f :: r) = some 8 := by
  simp [checkEscaped]

/-- the three ways `check_escaped` returns `true` -/
theorem checkEscaped_cases (rem : Bytes) (k : Nat) (h : checkEscaped rem = some k) :
    (∃ x c rest, rem = x :: c :: rest ∧ c ≠ 117 ∧ k = 2) ∨
    (∃ x a b c d r, rem = x :: 117 :: a :: b :: c :: d :: r ∧ a ≠ 123 ∧ k = 6) ∨
    (∃ x b c d e f r, rem = x :: 117 :: 123 :: b :: c :: d :: e :: f :: r ∧ k = 8) := by
  rcases rem with _ | ⟨x, _ | ⟨c, rest⟩⟩
  · simp [checkEscaped] at h
  · simp [checkEscaped] at h
  · by_cases hc : c = 117
    · subst hc
      rcases rest with _ | ⟨a, _ | ⟨b, _ | ⟨c, _ | ⟨d, r4⟩⟩⟩⟩
      · simp [checkEscaped] at h
      · simp [checkEscaped] at h
      · simp [checkEscaped] at h
      · simp [checkEscaped] at h
      · by_cases ha : a = 123
        · subst ha
          rcases r4 with _ | ⟨e, _ | ⟨f, r6⟩⟩
          · simp [checkEscaped] at h
          · simp [checkEscaped] at h
          · rw [checkEscaped_eight] at h
            exact Or.inr (Or.inr ⟨x, b, c, d, e, f, r6, rfl, by simpa using h.symm⟩)
        · rw [checkEscaped_six _ _ _ _ _ _ ha] at h
          exact Or.inr (Or.inl ⟨x, a, b, c, d, r4, rfl, ha, by simpa using h.symm⟩)
    · rw [checkEscaped_two _ _ _ hc] at h
      exact Or.inl ⟨x, c, rest, rfl, hc, by simpa using h.symm⟩

/-- what `check_escaped` guarantees -/
theorem checkEscaped_bounds (rem : Bytes) (k : Nat) (h : checkEscaped rem = some k) :
    2 ≤ k ∧ k ≤ rem.length := by
  rcases checkEscaped_cases rem k h with ⟨x, c, rest, rfl, _, rfl⟩ |
    ⟨x, a, b, c, d, r, rfl, _, rfl⟩ | ⟨x, b, c, d, e, f, r, rfl, rfl⟩ <;>
  simp only [List.length_cons] <;> omega

/-- `check_escaped` gives the same answer on any prefix that contains the escape -/
theorem checkEscaped_take (rem : Bytes) (k m : Nat) (h : checkEscaped rem = some k) (hm : k ≤ m) :
    checkEscaped (rem.take m) = some k := by
  rcases checkEscaped_cases rem k h with ⟨x, c, rest, rfl, hc, rfl⟩ |
    ⟨x, a, b, c, d, r, rfl, ha, rfl⟩ | ⟨x, b, c, d, e, f, r, rfl, rfl⟩
  · obtain ⟨m, rfl⟩ : ∃ m', m = m' + 2 := ⟨m - 2, by omega⟩
    simp only [List.take_succ_cons]
    exact checkEscaped_two _ _ _ hc
  · obtain ⟨m, rfl⟩ : ∃ m', m = m' + 6 := ⟨m - 6, by omega⟩
    simp only [List.take_succ_cons]
    exact checkEscaped_six _ _ _ _ _ _ ha
  · obtain ⟨m, rfl⟩ : ∃ m', m = m' + 8 := ⟨m - 8, by omega⟩
    simp only [List.take_succ_cons]
    exact checkEscaped_eight _ _ _ _ _ _ _

/-! ### `parse_escaped_string` on complete escapes -/

/-- no panic, and on success the remaining data is again `EscOK` -/
def Safe (r : Res (Bytes × Bytes)) : Prop :=
  (∀ s, r ≠ .panic s) ∧ ∀ out rest, r = .ok (out, rest) → EscOK rest

theorem safe_err (e : String) : Safe (.err e) := ⟨by simp, by simp⟩
theorem safe_ok (o d : Bytes) (h : EscOK d) : Safe (.ok (o, d)) :=
  ⟨by simp, by intro out rest he; simp at he; exact he.2 ▸ h⟩

/-- `readUnicode` after a `\u` that passed `check_escaped`: an error, or exactly the four digits
with everything up to the end of the escape consumed. -/
theorem readUnicode_spec (x : UInt8) (rest : Bytes) (k : Nat)
    (h : checkEscaped (x :: 117 :: rest) = some k) :
    (∃ e, readUnicode rest = .err e) ∨
    (∃ nums, readUnicode rest = .ok (nums, (x :: 117 :: rest).drop k)) := by
  rcases checkEscaped_cases _ k h with ⟨x', c, rest', heq, hc, rfl⟩ |
    ⟨x', a, b, c, d, r, heq, ha, rfl⟩ | ⟨x', b, c, d, e, f, r, heq, rfl⟩
  · simp at heq; exact absurd heq.2.1.symm hc
  · simp only [List.cons.injEq] at heq
    obtain ⟨_, _, rfl⟩ := heq
    right
    exact ⟨[a, b, c, d], by simp [readUnicode, readExact4, ha]⟩
  · simp only [List.cons.injEq] at heq
    obtain ⟨_, _, rfl⟩ := heq
    by_cases hf : f = 125
    · right; subst hf
      exact ⟨[b, c, d, e], by simp [readUnicode, readExact4]⟩
    · left
      exact ⟨"UnexpectedEndOfHexEscape", by simp [readUnicode, readExact4, hf]⟩

set_option maxRecDepth 20000 in
theorem parseLowSurrogate_safe (numbers : Bytes) (hex : Nat) (data : Bytes)
    (h1 : 0xD800 ≤ hex ∧ hex ≤ 0xDBFF) (hd : EscOK data) :
    Safe (parseLowSurrogate numbers hex data) := by
  unfold parseLowSurrogate
  split
  · exact safe_ok _ _ hd
  · split
    · rename_i data2 _
      obtain ⟨k', hk', hok'⟩ := hd.inv_esc
      rcases readUnicode_spec 92 data2 k' hk' with ⟨e, he⟩ | ⟨lower, hl⟩
      · rw [he]; exact safe_err _
      · rw [hl]; simp only [Res.bind]
        rcases decodeHexEscape_good lower with ⟨n2, hn, hb⟩ | ⟨e, he⟩
        · rw [hn]; simp only []
          split
          · exact safe_ok _ _ hok'
          · rename_i hcond
            have hc : 0xDC00 ≤ n2 ∧ n2 ≤ 0xDFFF := by
              simpa using hcond
            have hor : (hex - 0xD800) * 1024 ||| (n2 - 0xDC00) < 2 ^ 20 :=
              Nat.or_lt_two_pow (by omega) (by omega)
            rw [charFromU32Unwrap_ok _ (by omega) (by omega)]
            exact safe_ok _ _ hok'
        · rw [he]; exact safe_err _
    · exact safe_ok _ _ hd

theorem parseEscapedU_safe (x : UInt8) (rest : Bytes) (k : Nat)
    (h : checkEscaped (x :: 117 :: rest) = some k) (hok : EscOK ((x :: 117 :: rest).drop k)) :
    Safe (parseEscapedU rest) := by
  unfold parseEscapedU
  rcases readUnicode_spec x rest k h with ⟨e, he⟩ | ⟨nums, hn⟩
  · rw [he]; exact safe_err _
  · rw [hn]; simp only [Res.bind]
    rcases decodeHexEscape_good nums with ⟨hex, hh, hb⟩ | ⟨e, he⟩
    · rw [hh]; simp only []
      split
      · exact safe_ok _ _ hok
      · split
        · rename_i hc; exact parseLowSurrogate_safe _ _ _ hc hok
        · rw [charFromU32Unwrap_ok _ (by omega) (by omega)]
          exact safe_ok _ _ hok
    · rw [he]; exact safe_err _

theorem parseEscaped_safe (r : Bytes) (k : Nat) (h : checkEscaped (92 :: r) = some k)
    (hok : EscOK ((92 :: r).drop k)) : Safe (parseEscaped r) := by
  cases r with
  | nil => simp [checkEscaped] at h
  | cons c rest =>
    by_cases hc : c = 117
    · subst hc
      have : parseEscaped (117 :: rest) = parseEscapedU rest := by
        simp [parseEscaped]
      rw [this]
      exact parseEscapedU_safe 92 rest k h hok
    · have hk : k = 2 := by
        simp [checkEscaped, hc] at h; omega
      subst hk
      have hok' : EscOK rest := by simpa using hok
      unfold parseEscaped
      simp only []
      repeat' split
      all_goals first
        | exact safe_ok _ _ hok'
        | exact safe_err _
        | (rename_i h117; exact absurd (by simpa using h117) hc)

theorem parseStringLoop_ne_panic (n : Nat) (data buf : Bytes) (h : EscOK data) :
    ∀ s, parseStringLoop n data buf ≠ .panic s := by
  induction n generalizing data buf with
  | zero => simp [parseStringLoop]
  | succ n ih =>
    cases data with
    | nil => simp [parseStringLoop]
    | cons byte data =>
      unfold parseStringLoop
      split
      · rename_i hb
        have hb' : byte = 92 := by simpa using hb
        subst hb'
        obtain ⟨k, hk, hok⟩ := h.inv_esc
        obtain ⟨hs1, hs2⟩ := parseEscaped_safe data k hk hok
        exact Res.bind_ne_panic hs1 (fun a ha => by
          obtain ⟨o, rest⟩ := a
          exact ih _ _ (hs2 o rest ha))
      · rename_i hb
        have hb' : byte ≠ 92 := by simpa using hb
        exact ih _ _ (h.inv_plain hb')

theorem parseString_ne_panic (data : Bytes) (h : EscOK data) (s : String) :
    parseString data ≠ .panic s := by
  unfold parseString
  exact Res.bind_ne_panic (parseStringLoop_ne_panic _ _ _ h) (fun a _ s => by split <;> simp) s

end PathStr

/-! ### the scanning loop of `raw_string` / `string` -/
namespace PathParser
open PathStr Nom

theorem scan_spec (stop : UInt8 → Bool) (n : Nat) (rem : Bytes) (i e i' e' : Nat)
    (h : scan stop n rem i e = .ok (i', e')) :
    i ≤ i' ∧ i' - i ≤ rem.length ∧ 2 * e' + i ≤ 2 * e + i' ∧ EscOK (rem.take (i' - i)) := by
  induction n generalizing rem i e with
  | zero => simp [scan] at h
  | succ n ih =>
    cases rem with
    | nil =>
      simp [scan] at h
      obtain ⟨rfl, rfl⟩ := h
      simp; exact EscOK.nil
    | cons c r =>
      unfold scan at h
      split at h
      · rename_i hc
        have hc' : c = 92 := by simpa using hc
        subst hc'
        split at h
        · simp at h
        · rename_i k hk
          obtain ⟨h1, h2, h3, h4⟩ := ih _ _ _ h
          obtain ⟨hk2, hkl⟩ := checkEscaped_bounds _ _ hk
          simp only [List.length_drop] at h2
          refine ⟨by omega, by omega, by omega, ?_⟩
          obtain ⟨m, hm⟩ : ∃ m, i' - i = m + 1 := ⟨i' - i - 1, by omega⟩
          have htk := checkEscaped_take _ k (i' - i) hk (by omega)
          rw [hm] at htk ⊢
          simp only [List.take_succ_cons] at htk ⊢
          refine EscOK.esc _ k htk ?_
          have : (92 :: List.take m r).drop k = ((92 :: r).drop k).take (i' - (i + k)) := by
            rw [← List.take_succ_cons, ← hm, List.drop_take]
            congr 1; omega
          rw [this]; exact h4
      · split at h
        · simp at h
          obtain ⟨rfl, rfl⟩ := h
          simp; exact EscOK.nil
        · rename_i hc _
          have hc' : c ≠ 92 := by simpa using hc
          obtain ⟨h1, h2, h3, h4⟩ := ih _ _ _ h
          refine ⟨by omega, by simp only [List.length_cons]; omega, by omega, ?_⟩
          obtain ⟨m, hm⟩ : ∃ m, i' - i = m + 1 := ⟨i' - i - 1, by omega⟩
          rw [hm]
          simp only [List.take_succ_cons]
          refine EscOK.plain _ _ hc' ?_
          have : m = i' - (i + 1) := by omega
          rw [this]; exact h4

theorem ofRes_ne_panic {α} (r : Res α) (rest : Bytes) (h : ∀ s, r ≠ .panic s) (s : String) :
    ofRes r rest ≠ .panic s := by
  cases r with
  | ok a => simp [ofRes]
  | err e => simp [ofRes]
  | panic t => exact absurd rfl (h t)
  | fuel => simp [ofRes]

/-- `raw_string` never panics -/
theorem np_rawString : NoPanic rawString := by
  intro input s
  unfold rawString
  split
  · rename_i i escapes hscan
    have ⟨_, h2, h3, h4⟩ := scan_spec _ _ _ _ _ _ _ hscan
    simp only [Nat.sub_zero] at h2 h4
    split
    · rw [if_neg (by omega)]
      split
      · split <;> simp
      · rw [if_neg (by omega)]
        exact ofRes_ne_panic _ _ (parseString_ne_panic _ h4) s
    · simp
  · simp
  · rename_i t hscan
    -- the scanning loop itself never panics
    exfalso
    have : ∀ n rem i e, scan isRawDelim n rem i e ≠ .panic t := by
      intro n
      induction n with
      | zero => simp [scan]
      | succ n ih =>
        intro rem i e
        cases rem with
        | nil => simp [scan]
        | cons c r =>
          unfold scan
          split
          · split
            · simp
            · exact ih _ _ _
          · split
            · simp
            · exact ih _ _ _
    exact this _ _ _ _ hscan
  · simp

theorem scan_ne_panic (stop : UInt8 → Bool) (n : Nat) (rem : Bytes) (i e : Nat) (t : String) :
    scan stop n rem i e ≠ .panic t := by
  induction n generalizing rem i e with
  | zero => simp [scan]
  | succ n ih =>
    cases rem with
    | nil => simp [scan]
    | cons c r =>
      unfold scan
      split
      · split
        · simp
        · exact ih _ _ _
      · split
        · simp
        · exact ih _ _ _

/-- `string` never panics -/
theorem np_string : NoPanic string := by
  intro input s
  unfold string
  split
  · simp
  · rename_i q body
    split
    · simp
    · split
      · rename_i i escapes hscan
        have ⟨h1, h2, h3, h4⟩ := scan_spec _ _ _ _ _ _ _ hscan
        split
        · split
          · split <;> simp
          · rw [if_neg (by omega)]
            refine ofRes_ne_panic _ _ (parseString_ne_panic _ ?_) s
            obtain ⟨m, hm⟩ : ∃ m, i = m + 1 := ⟨i - 1, by omega⟩
            subst hm
            simpa using h4
        · simp
      · simp
      · rename_i t hscan
        exact absurd hscan (scan_ne_panic _ _ _ _ _ _)
      · simp

end PathParser
end Jsonb
