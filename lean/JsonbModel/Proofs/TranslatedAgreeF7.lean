import JsonbModel.Proofs.TranslatedAgreeF6

set_option linter.unusedSimpArgs false
set_option linter.unusedVariables false

namespace Jsonb.TrAgree
open Jsonb.Rs

theorem fillKeyEntries_lens (value : Bytes) : ∀ (n jo vo : Nat) (ks : List (Nat × Nat)) (jo' vo' : Nat),
    fillKeyEntries value n jo vo = some (ks, jo', vo') → ∀ k ∈ ks, k.2 < 268435456
  | 0, jo, vo, ks, jo', vo', h => by
    simp only [fillKeyEntries, Option.some.injEq, Prod.mk.injEq] at h
    obtain ⟨rfl, _, _⟩ := h
    simp
  | n+1, jo, vo, ks, jo', vo', h => by
    simp only [fillKeyEntries] at h
    cases hr : readU32At value jo with
    | none => rw [hr] at h; cases h
    | some w =>
      rw [hr] at h
      dsimp only at h
      cases hf : fillKeyEntries value n (jo + 4) (vo + jeLen w) with
      | none => rw [hf] at h; cases h
      | some q =>
        obtain ⟨ks1, jo1, vo1⟩ := q
        rw [hf] at h
        simp only [Option.some.injEq, Prod.mk.injEq] at h
        obtain ⟨rfl, _, _⟩ := h
        have := fillKeyEntries_lens value n (jo + 4) (vo + jeLen w) ks1 jo1 vo1 hf
        intro k hk
        simp only [List.mem_cons] at hk
        rcases hk with rfl | hk
        · exact jeLen_lt w
        · exact this k hk

theorem kasObject_some (k n : Nat) (bs : Bytes) (ks : List (Nat × Nat)) (jo vo : Nat)
    (hk : kasObject k n bs = true) (hf : fillKeyEntries bs n 0 (8 * n) = some (ks, jo, vo)) :
    KeysOK ks ∧ ∃ k', kasItems k' bs n jo vo = true := by
  cases k with
  | zero => simp [kasObject] at hk
  | succ k =>
    simp only [kasObject, hf, Bool.and_eq_true, List.all_eq_true, beq_iff_eq] at hk
    exact ⟨fun x hx => ⟨hk.1 x hx, fillKeyEntries_lens bs n 0 (8 * n) ks jo vo hf x hx⟩, k, hk.2⟩

theorem compare_object_step (g f lh rh : Nat) (left right : Bytes) (kl kr : Nat)
    (hl : left.length < 9223372036854775808) (hr : right.length < 9223372036854775808)
    (hrec : CmpRecOK f (Tr.compare_scalar g))
    (hkl : kasObject kl (hdrLen lh) left = true) (hkr : kasObject kr (hdrLen rh) right = true)
    (hne : Fn.cmpObject (f + 1) lh left rh right ≠ .fuel) :
    panicAny (Tr.compare_object (g + 1) (lh : Int) left (rh : Int) right) =
      panicAny (Fn.cmpObject (f + 1) lh left rh right) := by
  have hL := hdrLen_lt lh
  have hR := hdrLen_lt rh
  have h8 : ((8 : Nat) : Int) = 8 := rfl
  have h0 : ((0 : Nat) : Int) = 0 := rfl
  rw [Tr.compare_object]
  rw [Fn.cmpObject] at hne ⊢
  simp only [hdrLen_cast, ← h8, Rs.mul_usize_nat 8 (hdrLen lh) (by omega), Rs.mul_usize_nat 8 (hdrLen rh) (by omega),
    Rs.mul_usize_nat (hdrLen lh) 8 (by omega), Rs.mul_usize_nat (hdrLen rh) 8 (by omega), Nat.mul_comm (hdrLen lh) 8, Nat.mul_comm (hdrLen rh) 8,
    vecWithCapacity_ok Tr.JEntry 8 (hdrLen lh) (by omega), vecWithCapacity_ok Tr.JEntry 8 (hdrLen rh) (by omega),
    Ctl.ofRes_ok', Ctl.val_bind', min_cast, Rs.forRange_zero, compare_natCast]
  rw [← h0]
  rw [co_keys_run left (Tr.compare_object.loop1 left) (fun i jo vo acc h1 h2 => co_loop1_step left i jo vo acc h1 h2)
    (hdrLen lh) ((0 : Nat) : Int) 0 (8 * hdrLen lh) [] (by omega) (by omega)]
  simp only [fillKeys_eq] at hne ⊢
  cases hfl : fillKeyEntries left (hdrLen lh) 0 (8 * hdrLen lh) with
  | none => simp only [Ctl.ret_bind', Ctl.run_ret', Option.map]
  | some ql =>
    obtain ⟨lks, ljo, lvo⟩ := ql
    simp only [Ctl.val_bind', List.nil_append]
    rw [co_keys_run right (Tr.compare_object.loop2 right) (fun i jo vo acc h1 h2 => co_loop2_step right i jo vo acc h1 h2)
      (hdrLen rh) ((0 : Nat) : Int) 0 (8 * hdrLen rh) [] (by omega) (by omega)]
    cases hfr : fillKeyEntries right (hdrLen rh) 0 (8 * hdrLen rh) with
    | none => simp only [Ctl.ret_bind', Ctl.run_ret', Option.map]
    | some qr =>
      obtain ⟨rks, rjo, rvo⟩ := qr
      rw [hfl, hfr] at hne
      simp only [Ctl.val_bind', List.nil_append, Option.map] at hne ⊢
      obtain ⟨hlen1, hjo1⟩ := fillKeyEntries_length _ _ _ _ _ _ _ hfl
      obtain ⟨hlen2, hjo2⟩ := fillKeyEntries_length _ _ _ _ _ _ _ hfr
      obtain ⟨hko1, kl', hki1⟩ := kasObject_some kl _ left lks ljo lvo hkl hfl
      obtain ⟨hko2, kr', hki2⟩ := kasObject_some kr _ right rks rjo rvo hkr hfr
      have := co_run3 (Tr.compare_scalar g) left right (compare (hdrLen lh) (hdrLen rh)) hl hr
        (min (hdrLen lh) (hdrLen rh)) f ((0 : Nat) : Int) lks rks ljo rjo (8 * hdrLen lh) (8 * hdrLen rh) lvo rvo (hdrLen lh) (hdrLen rh) kl' kr'
        hrec (by rw [hlen1]; exact Nat.min_le_left _ _) (by rw [hlen2]; exact Nat.min_le_right _ _)
        (Nat.min_le_left _ _) (Nat.min_le_right _ _) hko1 hko2
        (by have := Nat.min_le_left (hdrLen lh) (hdrLen rh); omega)
        (by have := Nat.min_le_right (hdrLen lh) (hdrLen rh); omega) hki1 hki2 hne
      rw [← this]
      congr 1
      generalize Rs.forRangeAux (Tr.compare_object.loop3 (Tr.compare_scalar g) left right) (min (hdrLen lh) (hdrLen rh)) ((0 : Nat) : Int)
        (lks.map ofEntry, rks.map ofEntry, ((ljo : Nat) : Int), ((rjo : Nat) : Int), ((8 * hdrLen lh : Nat) : Int),
          ((8 * hdrLen rh : Nat) : Int), ((lvo : Nat) : Int), ((rvo : Nat) : Int)) = c
      cases c <;> rfl

end Jsonb.TrAgree
