/-
C12 refinement, part 2: one-step unfoldings of the byte-level `contains_jsonb` family on the
README layout of good containers.
-/
import JsonbModel.Proofs.ContainsRefine1

namespace Jsonb
open JV

namespace Fn

/-- `match r with | .ok true => k | r => r` -/
def andThen (r k : Res Bool) : Res Bool :=
  match r with
  | .ok true => k
  | r => r

/-- `match r with | .ok false => k | r => r` -/
def orElse (r k : Res Bool) : Res Bool :=
  match r with
  | .ok false => k
  | r => r

theorem andThen_ok (b : Bool) (k : Res Bool) : andThen (.ok b) k = if b then k else .ok false := by
  cases b <;> rfl

theorem orElse_ok (b : Bool) (k : Res Bool) : orElse (.ok b) k = if b then .ok true else k := by
  cases b <;> rfl

/-! ### iterators on complete documents -/

theorem encodeSpec_container (v : JV) (h : Spec.isScalarJ v = false) : (entry v).2 = encodeSpec v := by
  cases v <;> first | rfl | simp [Spec.isScalarJ] at h

theorem iterArray_doc (vs : List JV) (hn : vs.length < 536870912) (hg : goodL vs = true) :
    iterArray (encodeSpec (arr vs)) (C.ARRAY_CONTAINER_TAG + vs.length) = .ok (vs.map itemOf) := by
  have := iterArray_spec vs hn hg []
  simpa [encodeSpec] using this

theorem iterObjEntries_doc' (kvs : List (Bytes × JV)) (hn : kvs.length < 536870912)
    (hg : goodK kvs = true) :
    iterObjEntries (encodeSpec (obj kvs)) (C.OBJECT_CONTAINER_TAG + kvs.length)
      = .ok (kvs.map memberOf) := by
  have := iterObjEntries_spec kvs hn hg []
  simpa [encodeSpec] using this

/-- `get_jentry_by_name` (exact match) on a complete good object document -/
theorem getJentryByName_doc (kvs : List (Bytes × JV)) (hn : kvs.length < 536870912)
    (hg : goodK kvs = true) (name : Bytes) :
    getJentryByName (encodeSpec (obj kvs)) 0 (C.OBJECT_CONTAINER_TAG + kvs.length) name false
      = .ok ((lookupPos name kvs (4 + 8 * kvs.length + (keyBytes kvs).length)).map
          (fun x => (jeOf x.1, x.2))) := by
  have := getJentryByName_spec kvs hn hg [] [] 0 rfl name false
  simp only [List.nil_append, List.append_nil, Nat.zero_add] at this
  rw [show encodeSpec (obj kvs) = (entry (obj kvs)).2 from rfl, this]
  simp only [withJe, nameResult]
  cases lookupPos name kvs (4 + 8 * kvs.length + (keyBytes kvs).length) <;> simp

/-- a hit of the position-tracking lookup: the member is good and its payload can be sliced out
of the complete document -/
theorem lookupPos_slice (kvs : List (Bytes × JV)) (hg : goodK kvs = true) (name : Bytes)
    (v : JV) (p : Nat)
    (h : lookupPos name kvs (4 + 8 * kvs.length + (keyBytes kvs).length) = some (v, p)) :
    good v = true ∧ Spec.lookup name kvs = some v ∧
      slice (encodeSpec (obj kvs)) p (p + elen v) = .ok (entry v).2 := by
  obtain ⟨h1, A, B, h2, h3⟩ := lookupPos_at name kvs hg _ v p h
  refine ⟨h1, ?_, ?_⟩
  · rw [← lookupPos_fst name kvs, h]; rfl
  · have e : encodeSpec (obj kvs)
        = (u32be (C.OBJECT_CONTAINER_TAG + kvs.length) ++ (keyWords kvs ++ (wordsK kvs ++ (keyBytes kvs ++ A))))
          ++ ((entry v).2 ++ B) := by
      simp [encodeSpec, entry, h2]
    rw [e]
    exact slice_mid' _ _ _ _ _ (by simp [keyWords_length', wordsK_length']; omega)
      (by simp [keyWords_length', wordsK_length', elen]; omega)

theorem lookupPos_none (kvs : List (Bytes × JV)) (name : Bytes) (vo : Nat)
    (h : lookupPos name kvs vo = none) : Spec.lookup name kvs = none := by
  rw [← lookupPos_fst name kvs vo, h]; rfl

/-! ### one step of `contains_jsonb` on two container documents -/

theorem containsJsonb_arr_arr (f : Nat) (ls rs : List JV) (hl : ls.length < 536870912)
    (hr : rs.length < 536870912) (hgl : goodL ls = true) (hgr : goodL rs = true) :
    containsJsonb (f + 1) (encodeSpec (arr ls)) (encodeSpec (arr rs))
      = containsItems f (encodeSpec (arr ls)) (C.ARRAY_CONTAINER_TAG + ls.length)
          (ls.map itemOf) (rs.map itemOf) := by
  rw [containsJsonb, hdr_arr ls hl, hdr_arr rs hr]
  simp only [hdrType_arr _ hl, hdrType_arr _ hr]
  rw [if_neg (by decide), if_neg (by decide), if_neg (by decide), if_pos trivial,
    iterArray_doc ls hl hgl, iterArray_doc rs hr hgr]

theorem containsJsonb_arr_obj (f : Nat) (ls : List JV) (rk : List (Bytes × JV))
    (hl : ls.length < 536870912) (hr : rk.length < 536870912) :
    containsJsonb (f + 1) (encodeSpec (arr ls)) (encodeSpec (obj rk)) = .ok false := by
  rw [containsJsonb, hdr_arr ls hl, hdr_obj rk hr]
  simp only [hdrType_arr _ hl, hdrType_obj _ hr]
  rw [if_neg (by decide), if_pos (by decide)]

theorem containsJsonb_obj_arr (f : Nat) (lk : List (Bytes × JV)) (rs : List JV)
    (hl : lk.length < 536870912) (hr : rs.length < 536870912) :
    containsJsonb (f + 1) (encodeSpec (obj lk)) (encodeSpec (arr rs)) = .ok false := by
  rw [containsJsonb, hdr_obj lk hl, hdr_arr rs hr]
  simp only [hdrType_arr _ hr, hdrType_obj _ hl]
  rw [if_neg (by decide), if_pos (by decide)]

theorem containsJsonb_obj_obj (f : Nat) (lk rk : List (Bytes × JV)) (hl : lk.length < 536870912)
    (hr : rk.length < 536870912) (hgr : goodK rk = true) :
    containsJsonb (f + 1) (encodeSpec (obj lk)) (encodeSpec (obj rk))
      = if lk.length < rk.length then .ok false
        else containsMembers f (encodeSpec (obj lk)) (C.OBJECT_CONTAINER_TAG + lk.length)
          (rk.map memberOf) := by
  rw [containsJsonb, hdr_obj lk hl, hdr_obj rk hr]
  simp only [hdrType_obj _ hl, hdrType_obj _ hr, hdrLen_obj _ hl, hdrLen_obj _ hr]
  rw [if_neg (by decide), if_neg (by decide), if_pos trivial, iterObjEntries_doc' rk hr hgr]

/-! ### one step of the loops -/

theorem containsItems_nil (f : Nat) (left : Bytes) (lh : Nat) (litems : List (JE × Bytes)) :
    containsItems (f + 1) left lh litems [] = .ok true := by
  rw [containsItems]

theorem containsItems_cons_scalar (f : Nat) (left : Bytes) (lh : Nat) (litems : List (JE × Bytes))
    (rj : JE) (rval : Bytes) (rest : List (JE × Bytes)) (h : rj.ty ≠ C.CONTAINER_TAG) :
    containsItems (f + 1) left lh litems ((rj, rval) :: rest)
      = if litems.any (fun it => it.1.ty == rj.ty && scalarEq it.1.ty it.2 rval)
        then containsItems f left lh litems rest else .ok false := by
  rw [containsItems, if_pos h]

theorem containsItems_cons_container (f : Nat) (left : Bytes) (lh : Nat)
    (litems : List (JE × Bytes)) (rj : JE) (rval : Bytes) (rest : List (JE × Bytes))
    (h : rj.ty = C.CONTAINER_TAG) :
    containsItems (f + 1) left lh litems ((rj, rval) :: rest)
      = andThen (containsNested f (litems.filter (fun it => it.1.ty == C.CONTAINER_TAG)) rval)
          (containsItems f left lh litems rest) := by
  rw [containsItems, if_neg (by simp [h])]
  rfl

theorem containsNested_nil (f : Nat) (rval : Bytes) : containsNested (f + 1) [] rval = .ok false := by
  rw [containsNested]

theorem containsNested_cons (f : Nat) (lj : JE) (lval : Bytes) (rest : List (JE × Bytes))
    (rval : Bytes) :
    containsNested (f + 1) ((lj, lval) :: rest) rval
      = orElse (containsJsonb f lval rval) (containsNested f rest rval) := by
  rw [containsNested]
  rfl

theorem containsMembers_nil (f : Nat) (left : Bytes) (lh : Nat) :
    containsMembers (f + 1) left lh [] = .ok true := by
  rw [containsMembers]

theorem containsMembers_miss (f : Nat) (left : Bytes) (lh : Nat) (rkey : Bytes) (rj : JE)
    (rval : Bytes) (rest : List (Bytes × JE × Bytes))
    (h : getJentryByName left 0 lh rkey false = .ok none) :
    containsMembers (f + 1) left lh ((rkey, rj, rval) :: rest) = .ok false := by
  rw [containsMembers, h]

theorem containsMembers_ty_ne (f : Nat) (left : Bytes) (lh : Nat) (rkey : Bytes) (rj : JE)
    (rval : Bytes) (rest : List (Bytes × JE × Bytes)) (lj : JE) (lvo : Nat)
    (h : getJentryByName left 0 lh rkey false = .ok (some (lj, lvo))) (hne : lj.ty ≠ rj.ty) :
    containsMembers (f + 1) left lh ((rkey, rj, rval) :: rest) = .ok false := by
  rw [containsMembers, h]
  simp only []
  rw [if_pos hne]

theorem containsMembers_scalar (f : Nat) (left : Bytes) (lh : Nat) (rkey : Bytes) (rj : JE)
    (rval : Bytes) (rest : List (Bytes × JE × Bytes)) (lj : JE) (lvo : Nat) (lval : Bytes)
    (h : getJentryByName left 0 lh rkey false = .ok (some (lj, lvo))) (heq : lj.ty = rj.ty)
    (hs : slice left lvo (lvo + lj.len) = .ok lval) (hnc : rj.ty ≠ C.CONTAINER_TAG) :
    containsMembers (f + 1) left lh ((rkey, rj, rval) :: rest)
      = if scalarEq rj.ty lval rval then containsMembers f left lh rest else .ok false := by
  rw [containsMembers, h]
  simp only []
  rw [if_neg (by simp [heq]), hs]
  simp only []
  rw [if_pos hnc]

theorem containsMembers_container (f : Nat) (left : Bytes) (lh : Nat) (rkey : Bytes) (rj : JE)
    (rval : Bytes) (rest : List (Bytes × JE × Bytes)) (lj : JE) (lvo : Nat) (lval : Bytes)
    (h : getJentryByName left 0 lh rkey false = .ok (some (lj, lvo))) (heq : lj.ty = rj.ty)
    (hs : slice left lvo (lvo + lj.len) = .ok lval) (hc : rj.ty = C.CONTAINER_TAG) :
    containsMembers (f + 1) left lh ((rkey, rj, rval) :: rest)
      = andThen (containsJsonb f lval rval) (containsMembers f left lh rest) := by
  rw [containsMembers, h]
  simp only []
  rw [if_neg (by simp [heq]), hs]
  simp only []
  rw [if_neg (by simp [hc])]
  rfl

end Fn
end Jsonb
