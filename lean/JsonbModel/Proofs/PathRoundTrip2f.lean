/-
Corollaries of `R.sound`: precedence of `&&` over `||`, a filter on `$`, paths without the
leading `$`, and the print → parse discrepancies found on the way.
-/
import JsonbModel.Proofs.PathRoundTrip2d

namespace Jsonb
namespace PathRT2
open Nom PathParser PathPrint PathRT

/-! ### precedence -/

/-- `a || b && c` (any whitespace around the operators) is a rendering of `Or(a, And(b, c))` -/
theorem or_and_render {rp : Bool} {a b c : Expr} {sa sb sc : Bytes} (w1 w2 w3 w4 : Bytes)
    (ha : R .atom rp a sa) (hb : R .atom rp b sb) (hc : R .atom rp c sc) (hw1 : Ws w1) (hw2 : Ws w2)
    (hw3 : Ws w3) (hw4 : Ws w4) :
    R .orL rp (.binaryOp .or a (.binaryOp .and b c))
      (sa ++ (w1 ++ 124 :: 124 :: (w2 ++ (sb ++ (w3 ++ 38 :: 38 :: (w4 ++ sc)))))) := by
  have h1 := R.andL rp a a sa [] ha (.andTailNil rp a)
  have h2 := R.andL rp b _ sb _ hb (.andTailCons rp b c _ w3 w4 sc [] hw3 hw4 hc (.andTailNil rp _))
  have := R.orL rp a _ _ _ h1 (.orTailCons rp a _ _ w1 w2 _ [] hw1 hw2 h2 (.orTailNil rp _))
  simpa using this

/-- `a && b || c` (any whitespace around the operators) is a rendering of `Or(And(a, b), c)` -/
theorem and_or_render {rp : Bool} {a b c : Expr} {sa sb sc : Bytes} (w1 w2 w3 w4 : Bytes)
    (ha : R .atom rp a sa) (hb : R .atom rp b sb) (hc : R .atom rp c sc) (hw1 : Ws w1) (hw2 : Ws w2)
    (hw3 : Ws w3) (hw4 : Ws w4) :
    R .orL rp (.binaryOp .or (.binaryOp .and a b) c)
      (sa ++ (w1 ++ 38 :: 38 :: (w2 ++ (sb ++ (w3 ++ 124 :: 124 :: (w4 ++ sc)))))) := by
  have h1 := R.andL rp a _ sa _ ha (.andTailCons rp a b _ w1 w2 sb [] hw1 hw2 hb (.andTailNil rp _))
  have h2 := R.andL rp c c sc [] hc (.andTailNil rp c)
  have := R.orL rp _ _ _ _ h1 (.orTailCons rp _ c _ w3 w4 _ [] hw3 hw4 h2 (.orTailNil rp _))
  simpa using this

/-- `a && b && c` is `And(And(a, b), c)`; `a || b || c` is `Or(Or(a, b), c)` (left-associative) -/
theorem and_and_render {rp : Bool} {a b c : Expr} {sa sb sc : Bytes} (w1 w2 w3 w4 : Bytes)
    (ha : R .atom rp a sa) (hb : R .atom rp b sb) (hc : R .atom rp c sc) (hw1 : Ws w1) (hw2 : Ws w2)
    (hw3 : Ws w3) (hw4 : Ws w4) :
    R .orL rp (.binaryOp .and (.binaryOp .and a b) c)
      (sa ++ (w1 ++ 38 :: 38 :: (w2 ++ (sb ++ (w3 ++ 38 :: 38 :: (w4 ++ sc)))))) := by
  have h1 := R.andL rp a _ sa _ ha (.andTailCons rp a b _ w1 w2 sb _ hw1 hw2 hb
    (.andTailCons rp _ c _ w3 w4 sc [] hw3 hw4 hc (.andTailNil rp _)))
  have := R.orL rp _ _ _ [] h1 (.orTailNil rp _)
  simpa using this

/-- a rendered filter expression in `$?( … )` -/
theorem parse_filter {e : Expr} {s : Bytes} (h : R .orL false e s) :
    parseJsonPath (36 :: 63 :: 40 :: (s ++ [41])) = .ok [.root, .filterExpr e] := by
  have hs := R.stepsFilter e [] [] [] [] s [] [] [] Ws.nil Ws.nil Ws.nil h Ws.nil Ws.nil .stepsNil
  have := parse_rooted hs [] [] Ws.nil Ws.nil
  simpa using this

/-- Precedence, top-level predicate: the text `a || b && c` parses to `Or(a, And(b, c))`. -/
theorem parse_or_and {a b c : Expr} {sa sb sc : Bytes} (ha : R .atom true a sa)
    (hb : R .atom true b sb) (hc : R .atom true c sc) (w1 w2 w3 w4 : Bytes) (hw1 : Ws w1)
    (hw2 : Ws w2) (hw3 : Ws w3) (hw4 : Ws w4) :
    parseJsonPath (sa ++ (w1 ++ 124 :: 124 :: (w2 ++ (sb ++ (w3 ++ 38 :: 38 :: (w4 ++ sc))))))
      = .ok [.predicate (.binaryOp .or a (.binaryOp .and b c))] := by
  have := parse_predicate (or_and_render w1 w2 w3 w4 ha hb hc hw1 hw2 hw3 hw4) [] [] Ws.nil Ws.nil
  simpa using this

/-- Precedence, top-level predicate: the text `a && b || c` parses to `Or(And(a, b), c)`. -/
theorem parse_and_or {a b c : Expr} {sa sb sc : Bytes} (ha : R .atom true a sa)
    (hb : R .atom true b sb) (hc : R .atom true c sc) (w1 w2 w3 w4 : Bytes) (hw1 : Ws w1)
    (hw2 : Ws w2) (hw3 : Ws w3) (hw4 : Ws w4) :
    parseJsonPath (sa ++ (w1 ++ 38 :: 38 :: (w2 ++ (sb ++ (w3 ++ 124 :: 124 :: (w4 ++ sc))))))
      = .ok [.predicate (.binaryOp .or (.binaryOp .and a b) c)] := by
  have := parse_predicate (and_or_render w1 w2 w3 w4 ha hb hc hw1 hw2 hw3 hw4) [] [] Ws.nil Ws.nil
  simpa using this

/-- Precedence inside a filter: `$?(a || b && c)` parses to `Or(a, And(b, c))`. -/
theorem parse_filter_or_and {a b c : Expr} {sa sb sc : Bytes} (ha : R .atom false a sa)
    (hb : R .atom false b sb) (hc : R .atom false c sc) (w1 w2 w3 w4 : Bytes) (hw1 : Ws w1)
    (hw2 : Ws w2) (hw3 : Ws w3) (hw4 : Ws w4) :
    parseJsonPath (36 :: 63 :: 40 ::
        (sa ++ (w1 ++ 124 :: 124 :: (w2 ++ (sb ++ (w3 ++ 38 :: 38 :: (w4 ++ sc))))) ++ [41]))
      = .ok [.root, .filterExpr (.binaryOp .or a (.binaryOp .and b c))] :=
  parse_filter (or_and_render w1 w2 w3 w4 ha hb hc hw1 hw2 hw3 hw4)

/-- Precedence inside a filter: `$?(a && b || c)` parses to `Or(And(a, b), c)`. -/
theorem parse_filter_and_or {a b c : Expr} {sa sb sc : Bytes} (ha : R .atom false a sa)
    (hb : R .atom false b sb) (hc : R .atom false c sc) (w1 w2 w3 w4 : Bytes) (hw1 : Ws w1)
    (hw2 : Ws w2) (hw3 : Ws w3) (hw4 : Ws w4) :
    parseJsonPath (36 :: 63 :: 40 ::
        (sa ++ (w1 ++ 38 :: 38 :: (w2 ++ (sb ++ (w3 ++ 124 :: 124 :: (w4 ++ sc))))) ++ [41]))
      = .ok [.root, .filterExpr (.binaryOp .or (.binaryOp .and a b) c)] :=
  parse_filter (and_or_render w1 w2 w3 w4 ha hb hc hw1 hw2 hw3 hw4)

/-- Every good comparison / `exists` / parenthesised good expression, as `Display` writes it
when it is an operand of `&&`/`||`, is an atom rendering: the precedence theorems apply to the
printed operands. -/
theorem atom_of_good (f : Nat → Bytes) (rp : Bool) (e : Expr) (h : goodExpr f rp e = true) :
    R .atom rp e (atomText f e) := (expr_print_rend f rp e h).1

/-! ### paths without `$` -/

/-- a text `.d…` with a digit `d` is read as a float literal by the `predicate` alternative
that `parse_json_path` tries first; `unrootedOk` excludes it -/
def unrootedOk (X : Bytes) : Bool :=
  match X with
  | 46 :: c :: _ => !isDigit c
  | _ => true

theorem pathValue_dot_error (Y : Bytes) (hY : HeadOk notDigit Y) : pathValue (46 :: Y) = .error := by
  have h123 := pvA123_error 46 Y (by decide)
  have h4 : pvA4 (46 :: Y) = .error := map_error (terminated_error (u64_nondigit _ _ (by decide)))
  have h5 : pvA5 (46 :: Y) = .error :=
    map_error (terminated_error (i64_nondigit _ _ (by decide) (by decide) (by decide)))
  have h6 : pvA6 (46 :: Y) = .error := by
    apply map_error
    have hd1 : digit1 (46 :: Y) = .error := digit1_miss _ (HeadOk.cons (by decide))
    have hd2 : digit1 Y = .error := digit1_miss _ hY
    have hm : mantP (46 :: Y) = .error := by simp [mantP, alt, hd1, hd2, char, PR.bind]
    have hrf : recognizeFloat (46 :: Y) = .error := by
      rw [recognizeFloat_eq]
      have hs : optSign (46 :: Y) = .ok false (46 :: Y) := rfl
      rw [hs]; simp [PR.bind, hm]
    simp [double, alt, map, hrf, value, tagNoCase, isPrefixNoCase, lowerByte, PR.bind]
  have h7 : pvA7 (46 :: Y) = .error := map_error (string_error _ (by intro t e; simp at e))
  rw [pathValue_eq, alt_error h123.1, alt_error h123.2.1, alt_error h123.2.2, alt_error h4,
    alt_error h5, alt_error h6]
  exact h7

/-- `expr_atom` fails on input that starts like a step -/
theorem exprAtom_stepHead_error (Rr : Bool → Parser Expr) (X : Bytes)
    (hX : HeadOk (fun c => stepHead c || c == 63) X) (hok : unrootedOk X = true) :
    exprAtom Rr true X = .error := by
  cases X with
  | nil =>
    have hL : delimited ws (innerExpr true) ws [] = .error :=
      delimited_ws_error _ _ _ rfl (innerExpr_nil true)
    have b1 : eaB1 true [] = .error := map_error (tuple3_error1 hL)
    have b2 : eaB2 true [] = .error := map_error (tuple3_error1 hL)
    have b3 : eaB3 true [] = .error := by
      unfold eaB3; apply map_error; simp [pair, unaryArithOp, alt, value, char, PR.bind]
    have b4 : eaB4 Rr true [] = .error := by simp [eaB4, delimited, terminated, char, PR.bind]
    have b5 : eaB5 Rr [] = .error := by
      unfold eaB5; apply map_error; simp [existsFn, preceded, tag_nil, kwExists, PR.bind]
    rw [exprAtom_eq, alt_error b1, alt_error b2, alt_error b3, alt_error b4]
    exact b5
  | cons c Y =>
    have hc : c = 46 ∨ c = 58 ∨ c = 91 ∨ c = 63 := by
      have := hX.head; simpa [stepHead, or_assoc] using this
    have hns : isSpace c = false := by rcases hc with rfl | rfl | rfl | rfl <;> decide
    have hie : innerExpr true (c :: Y) = .error := by
      rcases hc with rfl | rfl | rfl | rfl
      · unfold innerExpr
        rw [alt_error (map_error (exprPaths_error true 46 Y (by decide) (by decide)))]
        apply map_error
        apply pathValue_dot_error
        cases Y with
        | nil => exact HeadOk.nil
        | cons d Z =>
          have : isDigit d = false := by simpa [unrootedOk] using hok
          exact HeadOk.cons (by simp [notDigit, this])
      · exact innerExpr_error_head true _ _ (by decide)
      · exact innerExpr_error_head true _ _ (by decide)
      · exact innerExpr_error_head true _ _ (by decide)
    have hL : delimited ws (innerExpr true) ws (c :: Y) = .error :=
      delimited_ws_error _ _ _ (dropSpaces_nonspace c Y hns) hie
    have b1 : eaB1 true (c :: Y) = .error := map_error (tuple3_error1 hL)
    have b2 : eaB2 true (c :: Y) = .error := map_error (tuple3_error1 hL)
    have b3 : eaB3 true (c :: Y) = .error := by
      unfold eaB3; apply map_error
      have : unaryArithOp (c :: Y) = .error :=
        unaryArithOp_error c Y (by rcases hc with rfl | rfl | rfl | rfl <;> decide)
          (by rcases hc with rfl | rfl | rfl | rfl <;> decide)
      simp [pair, this, PR.bind]
    have b4 := eaB4_error Rr true c Y (by rcases hc with rfl | rfl | rfl | rfl <;> decide)
    have b5 : eaB5 Rr (c :: Y) = .error := by
      unfold eaB5; apply map_error
      have := tag_miss 101 [120, 105, 115, 116, 115] c Y
        (by rcases hc with rfl | rfl | rfl | rfl <;> decide)
      simp [existsFn, preceded, kwExists, this, PR.bind]
    rw [exprAtom_eq, alt_error b1, alt_error b2, alt_error b3, alt_error b4]
    exact b5

theorem R.steps_head {rp : Bool} {e : Expr} {t : Bytes} (h : R .steps rp e t) (r : Bytes)
    (hr : dropSpaces r = []) : HeadOk (fun c => stepHead c || c == 63) (dropSpaces (t ++ r)) := by
  cases h with
  | stepsNil => rw [List.nil_append, hr]; exact HeadOk.nil
  | stepsPlain p ps w s w' t hw hs =>
    obtain ⟨c, t', rfl, hc⟩ := hs.head
    simp only [List.append_assoc, List.cons_append]
    have hns : ∀ c, stepHead c = true → isSpace c = false := by bytes_decide
    rw [dropSpaces_ws _ _ hw, dropSpaces_nonspace _ _ (hns c hc)]
    exact HeadOk.cons (by simp [hc])
  | stepsFilter e ps w0 w1 w2 s w3 w4 t hw0 =>
    simp only [List.append_assoc, List.cons_append]
    rw [dropSpaces_ws _ _ hw0, dropSpaces_nonspace _ _ (by decide)]
    exact HeadOk.cons (by decide)

theorem prePath_stepHead_error (X : Bytes) (hX : HeadOk (fun c => stepHead c || c == 63) X) :
    prePath X = .error := by
  cases X with
  | nil =>
    simp [prePath, alt, value, map, delimited, char, ws_eq, dropSpaces, rawString, rawScan, scan,
      PR.bind]
  | cons c Y =>
    have hc : c = 46 ∨ c = 58 ∨ c = 91 ∨ c = 63 := by
      have := hX.head; simpa [stepHead, or_assoc] using this
    have hraw : rawString (c :: Y) = .error := by
      rcases hc with rfl | rfl | rfl | rfl <;>
        simp [rawString, rawScan, scan, isRawDelim, rawDelims]
    have hns : isSpace c = false := by rcases hc with rfl | rfl | rfl | rfl <;> decide
    have h1 : value Path.root (char 36) (c :: Y) = .error :=
      value_error (char_miss _ _ _ (by rcases hc with rfl | rfl | rfl | rfl <;> decide))
    unfold prePath
    rw [alt_error h1]
    exact map_error (delimited_ws_error _ _ _ (dropSpaces_nonspace c Y hns) hraw)

theorem RStep.len2 {p : Path} {s : Bytes} (h : RStep p s) : 2 ≤ s.length := by
  cases h with
  | dotWildcard => simp
  | bracketWildcard w1 w2 => simp; omega
  | dotField s t hn => obtain ⟨c, t', rfl, _⟩ := hn.head; simp
  | colonField s t hn => obtain ⟨c, t', rfl, _⟩ := hn.head; simp
  | objectField s q w1 w2 hq => simp; omega
  | arrayIndices as t => simp

theorem unrootedOk_append (s X : Bytes) (hs : 2 ≤ s.length) : unrootedOk (s ++ X) = unrootedOk s := by
  match s, hs with
  | c :: d :: rest, _ =>
    by_cases hc : c = 46
    · subst hc; rfl
    · simp [unrootedOk, hc]

/-- A rendered sequence of plain and filter steps WITHOUT the leading `$`, with any whitespace
around, parses to these steps — provided the text does not start with `.` and a digit. -/
theorem parse_unrooted {ps : List Path} {t : Bytes} (h : R .steps false (.paths ps) t) (w0 w1 : Bytes)
    (hw0 : Ws w0) (hw1 : Ws w1) (hok : unrootedOk (dropSpaces t) = true) :
    parseJsonPath (w0 ++ (t ++ w1)) = .ok ps := by
  unfold parseJsonPath
  generalize hN : (w0 ++ (t ++ w1)).length = N
  have htN : t.length ≤ N + 1 := by rw [← hN]; simp; omega
  have hw1' := dropSpaces_ws_nil w1 hw1
  have hhead := h.steps_head w1 hw1'
  have hok' : unrootedOk (dropSpaces (t ++ w1)) = true := by
    cases h with
    | stepsNil => rw [List.nil_append, hw1']; rfl
    | stepsPlain p ps w s w' t hw hs =>
      simp only [List.append_assoc] at hok ⊢
      rw [dropSpaces_ws _ _ hw, hs.ns] at hok ⊢
      rw [unrootedOk_append _ _ hs.len2] at hok ⊢
      exact hok
    | stepsFilter e ps w0' w1' w2 s w3 w4 t hw0' =>
      simp only [List.append_assoc, List.cons_append]
      rw [dropSpaces_ws _ _ hw0', dropSpaces_nonspace _ _ (by decide)]
      rfl
  have hatom := exprAtom_stepHead_error (exprOr N) _ hhead hok'
  have hpred : predicate (N + 1) (dropSpaces (t ++ w1)) = .error := by
    unfold predicate
    apply map_error
    apply delimited_ws_error _ _ _ (dropSpaces_idem _)
    show exprOrStep (exprOr N) true _ = .error
    have hand : exprAnd (exprOr N) true (dropSpaces (t ++ w1)) = .error := by
      simp [exprAnd, separatedList1, hatom, PR.bind]
    simp [exprOrStep, separatedList1, hand, PR.bind]
  obtain ⟨r', h1, h2⟩ := h.sound ps rfl (N + 1) htN w1 (by rw [hw1']; exact HeadOk.nil)
    (dropSpaces (t ++ w1)) (dropSpaces_idem _) ((dropSpaces (t ++ w1)).length + 1) [] (by omega)
  rw [hw1'] at h2
  have hm : many0 (path (exprOr (N + 1))) (dropSpaces (t ++ w1)) = .ok ps r' := by
    unfold many0; rw [h1]; simp
  have hpaths : paths (N + 1) (dropSpaces (t ++ w1)) = .ok ps r' := by
    simp [paths, map, pair, opt, prePath_stepHead_error _ hhead, hm, PR.bind]
  have hpp : predicateOrPaths (N + 1) (dropSpaces (t ++ w1)) = .ok ps r' := by
    unfold predicateOrPaths
    rw [alt_error hpred]
    exact hpaths
  have := delimited_ws (predicateOrPaths (N + 1)) (w0 ++ (t ++ w1)) _ r' _
    (dropSpaces_ws _ _ hw0) hpp
  unfold jsonPath
  rw [this, h2]
  rfl

/-- the JSONPaths without `$` covered by print → parse: good steps, the first of which is not a
`.name` whose name starts with a digit -/
def goodUnrooted (f : Nat → Bytes) (jp : JsonPath) : Bool :=
  goodSteps f jp && unrootedOk (printJsonPath f jp)

theorem printPaths_ns (f : Nat → Bytes) (ps : List Path) (h : goodSteps f ps = true) :
    dropSpaces (printPaths f ps) = printPaths f ps := by
  cases ps with
  | nil => simp [printPaths, dropSpaces]
  | cons p ps =>
    have h2 : goodStepF f p = true ∧ goodSteps f ps = true := by simpa [goodSteps] using h
    cases p <;> simp [goodStepF] at h2 <;> simp [printPaths, printPath, dropSpaces, isSpace]

/-- print → parse for paths that do not start with `$` -/
theorem parse_print_unrooted (f : Nat → Bytes) (jp : JsonPath) (h : goodUnrooted f jp = true) :
    parseJsonPath (printJsonPath f jp) = .ok jp := by
  have hg : goodSteps f jp = true ∧ unrootedOk (printJsonPath f jp) = true := by
    simpa [goodUnrooted] using h
  have hr := steps_print_rend f jp hg.1
  have := parse_unrooted hr [] [] Ws.nil Ws.nil (by rw [printPaths_ns f jp hg.1]; exact hg.2)
  simpa [printJsonPath] using this

end PathRT2
end Jsonb
