/-
Phase 6c, renderer.  I5: the group (`container_to_string`, `scalar_to_string`) against `Fn.containerToString` /
`Fn.scalarToString` by strong induction on the model's fuel; `to_string` / `to_pretty_string` against
`Fn.toStringDoc` and the whole `T.toStringFn`.
-/
import JsonbModel.Proofs.TranslatedAgreeI4

set_option linter.unusedSimpArgs false
set_option linter.unusedVariables false

namespace Jsonb.TrAgree
open Jsonb.Rs

theorem scalar_container_facts (fmt : Nat → Bytes) (f : Nat) (value : Bytes) (jo vo w : Nat) (pretty : Bool) (indent : Nat)
    (hw : readU32At value jo = some w) (ht : jeType w = C.CONTAINER_TAG)
    (hru : ruScalar (f + 1) value jo vo = true)
    (hne : Fn.scalarToString fmt (f + 1) value jo vo pretty indent ≠ .fuel) :
    ruContainer f value vo = true ∧ Fn.containerToString fmt f value vo pretty indent ≠ .fuel := by
  have c1 : ¬ C.CONTAINER_TAG = C.NULL_TAG := by decide
  have c2 : ¬ C.CONTAINER_TAG = C.TRUE_TAG := by decide
  have c3 : ¬ C.CONTAINER_TAG = C.FALSE_TAG := by decide
  have c4 : ¬ C.CONTAINER_TAG = C.NUMBER_TAG := by decide
  have c5 : ¬ C.CONTAINER_TAG = C.STRING_TAG := by decide
  simp only [ruScalar, hw, ht, if_neg c5, if_true] at hru
  refine ⟨hru, ?_⟩
  intro c
  apply hne
  rw [Fn.scalarToString, hw]
  simp only [ht, if_neg c1, if_neg c2, if_neg c3, if_neg c4, if_neg c5, if_true, c, Res.map, Res.bind]

/-- what is proved of the pair (model fuel `f`, translation fuel `g`) -/
def RenderAgree (fmt : Nat → Bytes) (value : Bytes) (f g : Nat) : Prop :=
  (∀ (jo vo : Nat) (json : Bytes) (pretty : Bool) (indent : Nat),
    jo < 9223372036854775808 → vo < 9223372036854775808 → indent + 2 * f < 9223372036854775808 →
    ruScalar f value jo vo = true →
    Fn.scalarToString fmt f value jo vo pretty indent ≠ .fuel →
    Tr.scalar_to_string fmt g value (jo : Int) (vo : Int) json ⟨pretty, (indent : Int)⟩ =
      scalarOut jo vo json (Fn.scalarToString fmt f value jo vo pretty indent)) ∧
  (∀ (offset : Nat) (json : Bytes) (pretty : Bool) (indent : Nat),
    offset < 9223372036854775808 → indent + 2 * f < 9223372036854775808 →
    ruContainer f value offset = true →
    Fn.containerToString fmt f value offset pretty indent ≠ .fuel →
    Tr.container_to_string fmt g value (offset : Int) json ⟨pretty, (indent : Int)⟩ =
      containerOut offset json (Fn.containerToString fmt f value offset pretty indent))

/-- the renderer group: for every model fuel `f` and every larger translation fuel `g` -/
theorem render_all (fmt : Nat → Bytes) (value : Bytes) (hlen : value.length < 4611686018427387904) :
    ∀ f g : Nat, f < g → RenderAgree fmt value f g := by
  intro f
  induction f using Nat.strong_induction_on with
  | _ f IH =>
    intro g hfg
    cases f with
    | zero =>
      constructor
      · intro jo vo json pretty indent _ _ _ _ hne
        exact absurd (by rw [Fn.scalarToString]) hne
      · intro offset json pretty indent _ _ _ hne
        exact absurd (by rw [Fn.containerToString]) hne
    | succ f =>
      obtain ⟨g', rfl⟩ : ∃ m, g = m + 1 := ⟨g - 1, by omega⟩
      constructor
      · intro jo vo json pretty indent hjo hvo hind hru hne
        refine scalar_to_string_step fmt g' f value jo vo json pretty indent hlen hjo hvo hru ?_
        intro w hw ht
        obtain ⟨hrc, hnc⟩ := scalar_container_facts fmt f value jo vo w pretty indent hw ht hru hne
        exact (IH f (by omega) g' (by omega)).2 vo json pretty indent hvo (by omega) hrc hnc
      · intro offset json pretty indent hoff hind hru hne
        refine container_to_string_step fmt g' f value offset json pretty indent hlen hoff (by omega) ?_ hru hne
        intro f' hf' jo vo json' pretty' indent' hjo hvo hind' hru' hne'
        exact (IH f' (by omega) g' (by omega)).1 jo vo json' pretty' indent' hjo hvo hind' hru' hne'

/-- **`scalar_to_string`** computes the model's `scalarToString` -/
theorem scalar_to_string_agrees (fmt : Nat → Bytes) (f g : Nat) (hfg : f < g) (value : Bytes) (jo vo : Nat) (json : Bytes)
    (pretty : Bool) (indent : Nat) (hlen : value.length < 4611686018427387904)
    (hjo : jo < 9223372036854775808) (hvo : vo < 9223372036854775808) (hind : indent + 2 * f < 9223372036854775808)
    (hru : ruScalar f value jo vo = true) (hne : Fn.scalarToString fmt f value jo vo pretty indent ≠ .fuel) :
    Tr.scalar_to_string fmt g value (jo : Int) (vo : Int) json ⟨pretty, (indent : Int)⟩ =
      scalarOut jo vo json (Fn.scalarToString fmt f value jo vo pretty indent) :=
  (render_all fmt value hlen f g hfg).1 jo vo json pretty indent hjo hvo hind hru hne

/-- **`container_to_string`** computes the model's `containerToString` -/
theorem container_to_string_agrees (fmt : Nat → Bytes) (f g : Nat) (hfg : f < g) (value : Bytes) (offset : Nat) (json : Bytes)
    (pretty : Bool) (indent : Nat) (hlen : value.length < 4611686018427387904)
    (hoff : offset < 9223372036854775808) (hind : indent + 2 * f < 9223372036854775808)
    (hru : ruContainer f value offset = true) (hne : Fn.containerToString fmt f value offset pretty indent ≠ .fuel) :
    Tr.container_to_string fmt g value (offset : Int) json ⟨pretty, (indent : Int)⟩ =
      containerOut offset json (Fn.containerToString fmt f value offset pretty indent) :=
  (render_all fmt value hlen f g hfg).2 offset json pretty indent hoff hind hru hne

/-! ## `to_string`, `to_pretty_string` -/

/-- the body shared by `to_string` (`pretty = false`) and `to_pretty_string` (`pretty = true`) -/
theorem to_string_doc (fmt : Nat → Bytes) (pretty : Bool) (fuel : Nat) (value : Bytes)
    (hlen : value.length < 1152921504606846976) (hf : 2 * value.length + 8 < fuel)
    (hok : StringsOK value = true) (hne : Fn.toStringDoc fmt pretty value ≠ .fuel) :
    (match Rs.resOpt (ρ := Bytes) (Tr.container_to_string fmt fuel value (0 : Int) [] ⟨pretty, (0 : Int)⟩) with
      | .val (some r) => Res.ok r.2
      | .val none => Res.ok (Rs.pushStr [] (Rs.strLit "null"))
      | .ret r => r) = Fn.toStringDoc fmt pretty value := by
  have h0 : ((0 : Nat) : Int) = 0 := rfl
  have hne' : Fn.containerToString fmt (2 * value.length + 8) value 0 pretty 0 ≠ .fuel := by
    intro c; apply hne; rw [Fn.toStringDoc, c]
  have hag := container_to_string_agrees fmt (2 * value.length + 8) fuel hf value 0 [] pretty 0 (by omega) (by omega) (by omega)
    hok hne'
  rw [h0] at hag
  rw [hag, Fn.toStringDoc]
  cases hm : Fn.containerToString fmt (2 * value.length + 8) value 0 pretty 0 with
  | fuel => exact absurd hm hne'
  | ok t => simp only [containerOut, Res.map, Res.bind, Rs.resOpt, List.nil_append]
  | err e => simp only [containerOut, Res.map, Res.bind, Rs.resOpt, pushStr_eq, strLit_eq_lit, List.nil_append]
  | panic s => simp only [containerOut, Res.map, Res.bind, Rs.resOpt]

/-- **`to_string`** on JSONB input is the model's `toStringDoc fmt false` -/
theorem to_string_jsonb_agrees (fmt : Nat → Bytes) (fuel : Nat) (value : Bytes) (hj : isJsonb value = true)
    (hlen : value.length < 1152921504606846976) (hf : 2 * value.length + 8 < fuel)
    (hok : StringsOK value = true) (hne : Fn.toStringDoc fmt false value ≠ .fuel) :
    Tr.to_string fuel fmt value = Fn.toStringDoc fmt false value := by
  have hd := to_string_doc fmt false fuel value hlen hf hok hne
  rw [Tr.to_string]
  simp only [is_jsonb_agrees, hj, Ctl.ofRes_ok', Ctl.val_bind', Bool.not_true, Bool.false_eq_true, if_false, Ctl.pure_eq',
    pretty_opts_new_agrees]
  rw [← hd]
  cases hr : Rs.resOpt (ρ := Bytes) (Tr.container_to_string fmt fuel value 0 [] ⟨false, 0⟩) with
  | ret r => simp only [Ctl.ret_bind', Ctl.run_ret']
  | val o =>
    cases o with
    | none => simp only [Ctl.val_bind', Ctl.pure_eq', Ctl.run_ret']
    | some r => simp only [Ctl.val_bind', Ctl.pure_eq', Ctl.run_ret']

/-- **`to_pretty_string`** on JSONB input is the model's `toStringDoc fmt true` -/
theorem to_pretty_string_jsonb_agrees (fmt : Nat → Bytes) (fuel : Nat) (value : Bytes) (hj : isJsonb value = true)
    (hlen : value.length < 1152921504606846976) (hf : 2 * value.length + 8 < fuel)
    (hok : StringsOK value = true) (hne : Fn.toStringDoc fmt true value ≠ .fuel) :
    Tr.to_pretty_string fuel fmt value = Fn.toStringDoc fmt true value := by
  have hd := to_string_doc fmt true fuel value hlen hf hok hne
  rw [Tr.to_pretty_string]
  simp only [is_jsonb_agrees, hj, Ctl.ofRes_ok', Ctl.val_bind', Bool.not_true, Bool.false_eq_true, if_false, Ctl.pure_eq',
    pretty_opts_new_agrees]
  rw [← hd]
  cases hr : Rs.resOpt (ρ := Bytes) (Tr.container_to_string fmt fuel value 0 [] ⟨true, 0⟩) with
  | ret r => simp only [Ctl.ret_bind', Ctl.run_ret']
  | val o =>
    cases o with
    | none => simp only [Ctl.val_bind', Ctl.pure_eq', Ctl.run_ret']
    | some r => simp only [Ctl.val_bind', Ctl.pure_eq', Ctl.run_ret']

/-- on text input nothing is parsed: `null` for the empty input, else the input through `from_utf8_lossy` -/
theorem to_string_text_agrees (fmt : Nat → Bytes) (fuel : Nat) (value : Bytes) (hj : isJsonb value = false) :
    Tr.to_string fuel fmt value = T.toStringFn fmt false value := by
  rw [Tr.to_string, T.toStringFn]
  simp only [is_jsonb_agrees, hj, Ctl.ofRes_ok', Ctl.val_bind', Bool.not_false, if_true]
  cases value with
  | nil => simp [Rs.isEmpty, Ctl.ret_bind', Ctl.run_ret', strLit_eq_lit]
  | cons b t => simp [Rs.isEmpty, Ctl.ret_bind', Ctl.run_ret', Rs.fromUtf8Lossy]

theorem to_pretty_string_text_agrees (fmt : Nat → Bytes) (fuel : Nat) (value : Bytes) (hj : isJsonb value = false) :
    Tr.to_pretty_string fuel fmt value = T.toStringFn fmt true value := by
  rw [Tr.to_pretty_string, T.toStringFn]
  simp only [is_jsonb_agrees, hj, Ctl.ofRes_ok', Ctl.val_bind', Bool.not_false, if_true]
  cases value with
  | nil => simp [Rs.isEmpty, Ctl.ret_bind', Ctl.run_ret', strLit_eq_lit]
  | cons b t => simp [Rs.isEmpty, Ctl.ret_bind', Ctl.run_ret', Rs.fromUtf8Lossy]

/-- **the whole `to_string`** (text and JSONB input) is the model's `T.toStringFn fmt false` -/
theorem to_string_agrees (fmt : Nat → Bytes) (fuel : Nat) (value : Bytes)
    (hlen : value.length < 1152921504606846976) (hf : 2 * value.length + 8 < fuel)
    (hok : isJsonb value = true → StringsOK value = true)
    (hne : isJsonb value = true → Fn.toStringDoc fmt false value ≠ .fuel) :
    Tr.to_string fuel fmt value = T.toStringFn fmt false value := by
  cases hj : isJsonb value with
  | false => exact to_string_text_agrees fmt fuel value hj
  | true =>
    rw [to_string_jsonb_agrees fmt fuel value hj hlen hf (hok hj) (hne hj), T.toStringFn]
    simp [hj]

/-- **the whole `to_pretty_string`** is the model's `T.toStringFn fmt true` -/
theorem to_pretty_string_agrees (fmt : Nat → Bytes) (fuel : Nat) (value : Bytes)
    (hlen : value.length < 1152921504606846976) (hf : 2 * value.length + 8 < fuel)
    (hok : isJsonb value = true → StringsOK value = true)
    (hne : isJsonb value = true → Fn.toStringDoc fmt true value ≠ .fuel) :
    Tr.to_pretty_string fuel fmt value = T.toStringFn fmt true value := by
  cases hj : isJsonb value with
  | false => exact to_pretty_string_text_agrees fmt fuel value hj
  | true =>
    rw [to_pretty_string_jsonb_agrees fmt fuel value hj hlen hf (hok hj) (hne hj), T.toStringFn]
    simp [hj]

end Jsonb.TrAgree
