/-
Strict ⊆ relaxed, part 2: numbers.

A number literal is described once (`Lit`: sign, integer digits, optional fraction digits,
optional exponent) together with its text and its value.  `number_lit` shows that whenever the
strict reader accepts a number it has read the text of a well-formed `Lit` and returns its value;
`parseNumber_lit` shows that the crate's lexer + `str::parse::<u64/i64>` + `fast_float2::parse`
model returns the same value and stops at the same place.
-/
import JsonbModel.Proofs.StrictSubset1

namespace Jsonb
namespace SS
open Jsonb.JP

/-! ### Digit strings -/

def Digits (d : Bytes) : Prop := ∀ c ∈ d, JP.isDigit c = true
def NonDig (r : Bytes) : Prop := ∀ c, r.head? = some c → JP.isDigit c = false
def NoDot (r : Bytes) : Prop := r.head? ≠ some 0x2E
def NoE (r : Bytes) : Prop := r.head? ≠ some 0x45 ∧ r.head? ≠ some 0x65

theorem NonDig_nil : NonDig [] := by intro c h; simp at h
theorem NonDig_cons {c : UInt8} (s : Bytes) (h : JP.isDigit c = false) : NonDig (c :: s) := by
  intro x hx; simp only [List.head?_cons, Option.some.injEq] at hx; subst hx; exact h

theorem takeDigits_eq_span (bs : Bytes) : Strict.takeDigits bs = spanDigits bs := by
  induction bs with
  | nil => rfl
  | cons b bs ih =>
    simp only [Strict.takeDigits, spanDigits, ih]
    rfl

theorem spanDigits_spec (bs : Bytes) :
    bs = (spanDigits bs).1 ++ (spanDigits bs).2 ∧ Digits (spanDigits bs).1 ∧
      NonDig (spanDigits bs).2 := by
  induction bs with
  | nil => exact ⟨rfl, by intro c h; simp [spanDigits] at h, by intro c h; simp [spanDigits] at h⟩
  | cons b bs ih =>
    obtain ⟨h1, h2, h3⟩ := ih
    by_cases hb : JP.isDigit b = true
    · simp only [spanDigits, hb, if_true]
      refine ⟨by simp only [List.cons_append]; rw [← h1], ?_, h3⟩
      intro c hc
      rcases List.mem_cons.mp hc with rfl | hc
      · exact hb
      · exact h2 c hc
    · have hb' : JP.isDigit b = false := by simpa using hb
      simp only [spanDigits, hb', Bool.false_eq_true, if_false]
      exact ⟨rfl, by intro c h; simp at h, NonDig_cons _ hb'⟩

theorem spanDigits_append {ds rest : Bytes} (hd : Digits ds) (hr : NonDig rest) :
    spanDigits (ds ++ rest) = (ds, rest) := by
  induction ds with
  | nil =>
    cases rest with
    | nil => rfl
    | cons c r => simp [spanDigits, hr c rfl]
  | cons d ds ih =>
    simp only [List.cons_append, spanDigits, hd d (by simp), if_true,
      ih (fun x hx => hd x (by simp [hx]))]

theorem digit_ne {d c : UInt8} (hd : JP.isDigit d = true) (hc : JP.isDigit c = false) : d ≠ c := by
  intro h; rw [h, hc] at hd; exact absurd hd (by simp)

/-! ### Number literals -/

/-- a decimal literal: sign, integer digits, optional fraction digits, optional exponent
(`e`/`E`, sign text, digits) -/
structure Lit where
  neg : Bool
  ip : Bytes
  fp : Option Bytes
  ex : Option (UInt8 × Bytes × Bytes)

def signTxt (neg : Bool) : Bytes := if neg then [0x2D] else []
def fracTxt : Option Bytes → Bytes
  | none => []
  | some f => 0x2E :: f
def expTxt : Option (UInt8 × Bytes × Bytes) → Bytes
  | none => []
  | some (e, sg, ed) => e :: (sg ++ ed)
def expVal : Option (UInt8 × Bytes × Bytes) → Int
  | none => 0
  | some (_, sg, ed) => if sg = [0x2D] then -(JP.digitsVal ed : Int) else (JP.digitsVal ed : Int)

/-- the literal's text followed by `r` -/
def Lit.text (L : Lit) (r : Bytes) : Bytes :=
  signTxt L.neg ++ (L.ip ++ (fracTxt L.fp ++ (expTxt L.ex ++ r)))

def Lit.len (L : Lit) : Nat :=
  (signTxt L.neg).length + L.ip.length + (fracTxt L.fp).length + (expTxt L.ex).length

theorem Lit.text_eq (L : Lit) (r : Bytes) : L.text r = L.text [] ++ r := by
  simp [Lit.text]

theorem Lit.text_length (L : Lit) : (L.text []).length = L.len := by
  simp [Lit.text, Lit.len]; omega

def WFfp (fp : Option Bytes) : Prop := ∀ f, fp = some f → f ≠ [] ∧ Digits f
def WFex (ex : Option (UInt8 × Bytes × Bytes)) : Prop :=
  ∀ e sg ed, ex = some (e, sg, ed) →
    (e = 0x65 ∨ e = 0x45) ∧ (sg = [] ∨ sg = [0x2B] ∨ sg = [0x2D]) ∧ ed ≠ [] ∧ Digits ed

/-- RFC 8259 `number` grammar -/
def Lit.WF (L : Lit) : Prop := IntLit L.ip ∧ WFfp L.fp ∧ WFex L.ex

/-- what follows the literal: the lexer stops there -/
def Lit.End (L : Lit) (r : Bytes) : Prop :=
  NonDig r ∧ (L.ex = none → NoE r) ∧ (L.ex = none → L.fp = none → NoDot r)

/-- the value a literal denotes: an integer literal that fits `u64` (non-negative) or `i64`
(with a minus sign, `-0` included) is that integer; everything else is the nearest double of
`± digits × 10^(exponent − number of fraction digits)` -/
def Lit.value (L : Lit) : Num :=
  match L.fp, L.ex with
  | none, none =>
    if !L.neg && JP.digitsVal L.ip < 18446744073709551616 then .uint (JP.digitsVal L.ip)
    else if L.neg && JP.digitsVal L.ip ≤ 9223372036854775808 then .int (-(JP.digitsVal L.ip : Int))
    else .float (F64.ofDecimal L.neg (JP.digitsVal L.ip) 0)
  | fp, ex =>
    .float (F64.ofDecimal L.neg (JP.digitsVal (L.ip ++ fp.getD []))
      (expVal ex - ((fp.getD []).length : Int)))

/-! ### heads of the parts -/

theorem NonDig_expTxt {ex : Option (UInt8 × Bytes × Bytes)} {r : Bytes} (hw : WFex ex)
    (hr : NonDig r) : NonDig (expTxt ex ++ r) := by
  match ex, hw with
  | none, _ => simpa [expTxt] using hr
  | some (e, sg, ed), hw =>
    obtain ⟨he, -, -, -⟩ := hw e sg ed rfl
    simp only [expTxt, List.cons_append]
    apply NonDig_cons
    rcases he with rfl | rfl <;> decide

theorem NoDot_expTxt {ex : Option (UInt8 × Bytes × Bytes)} {r : Bytes} (hw : WFex ex)
    (hr : ex = none → NoDot r) : NoDot (expTxt ex ++ r) := by
  match ex, hw, hr with
  | none, _, hr => simpa [expTxt] using hr rfl
  | some (e, sg, ed), hw, _ =>
    obtain ⟨he, -, -, -⟩ := hw e sg ed rfl
    simp only [expTxt, List.cons_append, NoDot, List.head?_cons, ne_eq, Option.some.injEq]
    rcases he with rfl | rfl <;> decide

theorem NonDig_fracTxt {fp : Option Bytes} {z : Bytes} (hz : NonDig z) : NonDig (fracTxt fp ++ z) := by
  match fp with
  | none => simpa [fracTxt] using hz
  | some f => simp only [fracTxt, List.cons_append]; exact NonDig_cons _ (by decide)

/-! ### The crate's lexer on a literal -/

theorem lexSign_lit {buf : Bytes} {i : Nat} {neg : Bool} {d : UInt8} {x : Bytes}
    (h : buf.drop i = signTxt neg ++ (d :: x)) (hd : JP.isDigit d = true) :
    lexSign buf i = .ok (neg, i + (signTxt neg).length) := by
  unfold lexSign
  rw [checkNext_view h]
  cases neg with
  | true => simp [signTxt]
  | false =>
    have : d ≠ 0x2D := digit_ne hd (by decide)
    simp [signTxt, this]

theorem lexInt_lit {buf : Bytes} {i : Nat} {ds rest : Bytes} (h : buf.drop i = ds ++ rest)
    (hl : IntLit ds) (hr : NonDig rest) : lexInt buf i = .ok (i + ds.length) := by
  obtain ⟨hne, hall, hz⟩ := hl
  unfold lexInt
  rw [checkNext_view h]
  match ds, hne with
  | d :: ds', _ =>
    simp only [List.cons_append, List.head?_cons, bind_ok]
    by_cases hd : d = 0x30
    · subst hd
      have := hz rfl
      simp only [List.cons.injEq, true_and] at this
      subst this
      simp only [beq_self_eq_true, if_true] at h ⊢
      rw [checkDigit_eq, getv (drop_succ_of_drop h)]
      have : rest.head?.any JP.isDigit = false := by
        cases hh : rest.head? with
        | none => rfl
        | some c => simpa using hr c hh
      simp [this]
    · have hb : (some d == some (0x30 : UInt8)) = false := by simpa using hd
      simp only [hb, Bool.false_eq_true, if_false]
      have hlt := lt_of_drop_cons (by simpa using h : buf.drop i = d :: (ds' ++ rest))
      unfold stepDigits
      rw [if_neg (by simp; omega)]
      rw [stepDigitsLoop_view buf (d :: ds') hall i 0 rest (by simpa using h) hr]
      simp

theorem stepDigits_lit {buf : Bytes} {j : Nat} {ds rest : Bytes} (h : buf.drop j = ds ++ rest)
    (hne : ds ≠ []) (hd : Digits ds) (hr : NonDig rest) :
    stepDigits buf j = .ok (ds.length, j + ds.length) := by
  obtain ⟨d, ds', rfl⟩ := List.exists_cons_of_ne_nil hne
  have hlt := lt_of_drop_cons (by simpa using h : buf.drop j = d :: (ds' ++ rest))
  unfold stepDigits
  rw [if_neg (by simp; omega), stepDigitsLoop_view buf (d :: ds') hd j 0 rest h hr]
  simp

theorem lexFrac_lit {buf : Bytes} {i : Nat} {fp : Option Bytes} {z : Bytes}
    (h : buf.drop i = fracTxt fp ++ z) (hw : WFfp fp) (hz : NonDig z) (hn : fp = none → NoDot z) :
    lexFrac buf i = .ok (fp.isSome, i + (fracTxt fp).length) := by
  unfold lexFrac
  rw [checkNext_view h]
  match fp, hw, hn with
  | none, _, hn =>
    have : (z.head? == some 0x2E) = false := by simpa [NoDot] using hn rfl
    simp [fracTxt, this]
  | some f, hw, _ =>
    obtain ⟨hne, hd⟩ := hw f rfl
    have h' : buf.drop i = 0x2E :: (f ++ z) := by simpa [fracTxt] using h
    simp only [fracTxt, List.cons_append, List.head?_cons, beq_self_eq_true, bind_ok, if_true]
    rw [stepDigits_lit (drop_succ_of_drop h') hne hd hz]
    have : (f.length == 0) = false := by cases f <;> simp at hne ⊢
    simp only [bind_ok, this, Bool.false_eq_true, if_false, pure_eq, Option.isSome_some,
      List.length_cons]
    congr 2; omega

theorem lexExp_lit {buf : Bytes} {i : Nat} {ex : Option (UInt8 × Bytes × Bytes)} {r : Bytes}
    (h : buf.drop i = expTxt ex ++ r) (hw : WFex ex) (hr : NonDig r) (hn : ex = none → NoE r) :
    lexExp buf i = .ok (ex.isSome, i + (expTxt ex).length) := by
  unfold lexExp
  rw [checkNextEither_view h]
  match ex, hw, hn with
  | none, _, hn =>
    obtain ⟨h1, h2⟩ := hn rfl
    have : (r.head? == some 0x45 || r.head? == some 0x65) = false := by simp [h1, h2]
    simp [expTxt, this]
  | some (e, sg, ed), hw, _ =>
    obtain ⟨he, hsg, hne, hd⟩ := hw e sg ed rfl
    have h' : buf.drop i = e :: (sg ++ (ed ++ r)) := by simpa [expTxt] using h
    have h1 := drop_succ_of_drop h'
    have hE : ((some e == some (0x45 : UInt8)) || (some e == some (0x65 : UInt8))) = true := by
      rcases he with rfl | rfl <;> decide
    simp only [expTxt, List.cons_append, List.head?_cons, hE, bind_ok, if_true]
    rw [checkNextEither_view h1]
    obtain ⟨d, ed', rfl⟩ := List.exists_cons_of_ne_nil hne
    have hdd : JP.isDigit d = true := hd d (by simp)
    have nd1 : d ≠ 0x2B := digit_ne hdd (by decide)
    have nd2 : d ≠ 0x2D := digit_ne hdd (by decide)
    rcases hsg with rfl | rfl | rfl
    · simp only [List.nil_append, List.cons_append, List.head?_cons] at h1 ⊢
      have : ((some d == some (0x2B : UInt8)) || (some d == some (0x2D : UInt8))) = false := by
        simp [nd1, nd2]
      simp only [this, bind_ok, Bool.false_eq_true, if_false]
      rw [stepDigits_lit (ds := d :: ed') h1 (by simp) hd hr]
      simp only [bind_ok, List.length_cons, Nat.add_eq_zero_iff, Nat.succ_ne_self, and_false,
        beq_iff_eq, if_false, pure_eq, Option.isSome_some]
      congr 2; omega
    · simp only [List.cons_append, List.nil_append, List.head?_cons] at h1 ⊢
      simp only [beq_self_eq_true, Bool.true_or, bind_ok, if_true]
      rw [show i + 2 = i + 1 + 1 from rfl, stepDigits_lit (ds := d :: ed') (drop_succ_of_drop h1) (by simp) hd hr]
      simp only [bind_ok, List.length_cons, Nat.add_eq_zero_iff, Nat.succ_ne_self, and_false,
        beq_iff_eq, if_false, pure_eq, Option.isSome_some]
      congr 2; omega
    · simp only [List.cons_append, List.nil_append, List.head?_cons] at h1 ⊢
      simp only [beq_self_eq_true, Bool.or_true, bind_ok, if_true]
      rw [show i + 2 = i + 1 + 1 from rfl, stepDigits_lit (ds := d :: ed') (drop_succ_of_drop h1) (by simp) hd hr]
      simp only [bind_ok, List.length_cons, Nat.add_eq_zero_iff, Nat.succ_ne_self, and_false,
        beq_iff_eq, if_false, pure_eq, Option.isSome_some]
      congr 2; omega

theorem lexNumber_lit {buf : Bytes} {i : Nat} {L : Lit} {r : Bytes} (h : buf.drop i = L.text r)
    (hw : L.WF) (he : L.End r) :
    lexNumber buf i = .ok (L.neg, L.fp.isSome, L.ex.isSome, i + L.len) := by
  obtain ⟨hip, hfp, hex⟩ := hw
  obtain ⟨hr, hnoe, hnodot⟩ := he
  obtain ⟨d, ip', hipe⟩ := List.exists_cons_of_ne_nil hip.1
  have hd : JP.isDigit d = true := hip.2.1 d (by simp [hipe])
  unfold Lit.text at h
  have h0 : buf.drop i = signTxt L.neg ++ (d :: (ip' ++ (fracTxt L.fp ++ (expTxt L.ex ++ r)))) := by
    rw [h, hipe]; rfl
  have h1 := drop_add_of_drop h
  have h2 := drop_add_of_drop h1
  have h3 := drop_add_of_drop h2
  have nz : NonDig (expTxt L.ex ++ r) := NonDig_expTxt hex hr
  unfold lexNumber
  rw [lexSign_lit h0 hd]
  simp only [bind_ok]
  rw [lexInt_lit h1 hip (NonDig_fracTxt nz)]
  simp only [bind_ok]
  rw [lexFrac_lit h2 hfp nz (fun hn => NoDot_expTxt hex (fun hx => hnodot hx hn))]
  simp only [bind_ok]
  rw [lexExp_lit h3 hex hr hnoe]
  simp only [bind_ok, pure_eq, Lit.len, Nat.add_assoc]

/-! ### `fast_float2::parse` on a literal -/

def fSign (s : Bytes) : Bool × Bytes := match s with | 0x2D :: r => (true, r) | _ => (false, s)
def fFrac (s2 : Bytes) : Bytes × Bytes := match s2 with | 0x2E :: r => spanDigits r | _ => ([], s2)
def fESign (r : Bytes) : Bool × Bytes :=
  match r with | 0x2D :: r' => (true, r') | 0x2B :: r' => (false, r') | _ => (false, r)
def fExp (s3 : Bytes) : Option (Int × Bytes) :=
  match s3 with
  | c :: r =>
    if c == 0x65 || c == 0x45 then
      if (spanDigits (fESign r).2).1.isEmpty then none
      else some (if (fESign r).1 then -(JP.digitsVal (spanDigits (fESign r).2).1 : Int)
                 else (JP.digitsVal (spanDigits (fESign r).2).1 : Int), (spanDigits (fESign r).2).2)
    else some (0, s3)
  | [] => some (0, [])
/-- `parseFloat` with its stages named -/
def parseFloat' (s : Bytes) : Option Nat :=
  let p1 := fSign s
  let p2 := spanDigits p1.2
  let p3 := fFrac p2.2
  if p2.1.isEmpty && p3.1.isEmpty then none
  else match fExp p3.2 with
    | some (e, []) => some (F64.ofDecimal p1.1 (JP.digitsVal (p2.1 ++ p3.1)) (e - (p3.1.length : Int)))
    | _ => none

theorem parseFloat_eq (s : Bytes) : parseFloat s = parseFloat' s := by
  unfold parseFloat parseFloat' fSign fFrac fExp fESign
  rfl

theorem fSign_lit {neg : Bool} {d : UInt8} {x : Bytes} (hd : JP.isDigit d = true) :
    fSign (signTxt neg ++ (d :: x)) = (neg, d :: x) := by
  cases neg with
  | true => rfl
  | false =>
    have : d ≠ 0x2D := digit_ne hd (by decide)
    simp only [signTxt, Bool.false_eq_true, if_false, List.nil_append]
    unfold fSign
    split
    · rename_i heq; simp only [List.cons.injEq] at heq; exact absurd heq.1 this
    · rfl

theorem fFrac_lit {fp : Option Bytes} {z : Bytes} (hw : WFfp fp) (hz : NonDig z)
    (hn : fp = none → NoDot z) : fFrac (fracTxt fp ++ z) = (fp.getD [], z) := by
  match fp, hw, hn with
  | none, _, hn =>
    have := hn rfl
    simp only [fracTxt, List.nil_append, Option.getD_none]
    unfold fFrac
    split
    · exact absurd rfl this
    · rfl
  | some f, hw, _ =>
    obtain ⟨-, hd⟩ := hw f rfl
    simp only [fracTxt, List.cons_append, Option.getD_some]
    unfold fFrac
    exact spanDigits_append hd hz

theorem fExp_lit {ex : Option (UInt8 × Bytes × Bytes)} (hw : WFex ex) :
    fExp (expTxt ex ++ []) = some (expVal ex, []) := by
  match ex, hw with
  | none, _ => rfl
  | some (e, sg, ed), hw =>
    obtain ⟨he, hsg, hne, hd⟩ := hw e sg ed rfl
    have hE : (e == 0x65 || e == 0x45) = true := by rcases he with rfl | rfl <;> decide
    obtain ⟨d, ed', rfl⟩ := List.exists_cons_of_ne_nil hne
    have hdd : JP.isDigit d = true := hd d (by simp)
    have nd1 : d ≠ 0x2B := digit_ne hdd (by decide)
    have nd2 : d ≠ 0x2D := digit_ne hdd (by decide)
    have hsp : spanDigits (d :: ed') = (d :: ed', []) := by
      simpa using spanDigits_append hd NonDig_nil
    have hes : fESign (sg ++ (d :: ed')) = (decide (sg = [0x2D]), d :: ed') := by
      rcases hsg with rfl | rfl | rfl
      · simp only [List.nil_append]
        unfold fESign
        split
        · rename_i heq; simp only [List.cons.injEq] at heq; exact absurd heq.1 nd2
        · rename_i heq; simp only [List.cons.injEq] at heq; exact absurd heq.1 nd1
        · simp
      · rfl
      · rfl
    simp only [expTxt, List.append_nil, fExp, hE, if_true, hes, hsp, List.isEmpty_cons,
      Bool.false_eq_true, if_false, expVal, decide_eq_true_eq]

theorem parseFloat_lit {L : Lit} (hw : L.WF) :
    parseFloat (L.text []) = some (F64.ofDecimal L.neg (JP.digitsVal (L.ip ++ L.fp.getD []))
      (expVal L.ex - ((L.fp.getD []).length : Int))) := by
  obtain ⟨hip, hfp, hex⟩ := hw
  obtain ⟨d, ip', hipe⟩ := List.exists_cons_of_ne_nil hip.1
  have hd : JP.isDigit d = true := hip.2.1 d (by simp [hipe])
  have nz : NonDig (expTxt L.ex ++ []) := NonDig_expTxt hex NonDig_nil
  have e1 : fSign (L.text []) = (L.neg, L.ip ++ (fracTxt L.fp ++ (expTxt L.ex ++ []))) := by
    unfold Lit.text; rw [hipe]; exact fSign_lit hd
  have e2 : spanDigits (L.ip ++ (fracTxt L.fp ++ (expTxt L.ex ++ [])))
      = (L.ip, fracTxt L.fp ++ (expTxt L.ex ++ [])) :=
    spanDigits_append hip.2.1 (NonDig_fracTxt nz)
  have e3 := fFrac_lit (z := expTxt L.ex ++ []) hfp nz (fun _ => NoDot_expTxt hex (fun hx => by
    simp [NoDot]))
  have e4 := fExp_lit hex
  have ne : L.ip.isEmpty = false := by rw [hipe]; rfl
  rw [parseFloat_eq]
  simp only [parseFloat', e1, e2, e3, e4, ne, Bool.false_and, Bool.false_eq_true, if_false]

/-! ### `str::parse::<u64>` / `<i64>` out of range -/

theorem stripPlus_digits {ds : Bytes} (hne : ds ≠ []) (hall : Digits ds) : stripPlus ds = ds := by
  obtain ⟨d, ds', rfl⟩ := List.exists_cons_of_ne_nil hne
  have hd : d ≠ 0x2B := digit_ne (hall d (by simp)) (by decide)
  unfold stripPlus
  split
  · rename_i r heq
    simp only [List.cons.injEq] at heq
    exact absurd heq.1 hd
  · rfl

theorem parseU64_big {ds : Bytes} (hl : IntLit ds) (hv : ¬ JP.digitsVal ds < 18446744073709551616) :
    parseU64 ds = none := by
  obtain ⟨hne, hall, -⟩ := hl
  unfold parseU64
  simp only [stripPlus_digits hne hall]
  simp [hv]

theorem parseI64_big {ds : Bytes} (_hl : IntLit ds) (hv : ¬ JP.digitsVal ds ≤ 9223372036854775808) :
    parseI64 (0x2D :: ds) = none := by
  unfold parseI64
  simp [hv]

theorem classifyNumber_lit {L : Lit} (hw : L.WF) :
    classifyNumber (L.text []) L.neg L.fp.isSome L.ex.isSome = .ok (.num L.value) := by
  have hf := parseFloat_lit hw
  obtain ⟨neg, ip, fp, ex⟩ := L
  obtain ⟨hip, hfp, hex⟩ := hw
  simp only at hip hfp hex hf
  match fp, ex, hf with
  | none, none, hf =>
    have ht : (Lit.mk neg ip none none).text [] = signTxt neg ++ ip := by
      simp [Lit.text, fracTxt, expTxt]
    simp only [Option.getD_none, List.append_nil, expVal, List.length_nil, Int.ofNat_zero,
      Int.sub_zero] at hf
    simp only [classifyNumber, Option.isSome_none, Bool.not_false, Bool.and_self, if_true, hf,
      Lit.value]
    rw [ht]
    cases neg with
    | false =>
      simp only [signTxt, Bool.false_eq_true, if_false, List.nil_append, Bool.not_false, if_true,
        Bool.true_and, Bool.false_and, decide_eq_true_eq]
      by_cases hv : JP.digitsVal ip < 18446744073709551616
      · simp only [parseU64_digits hip hv, Option.map_some, hv, if_true]
      · simp only [parseU64_big hip hv, Option.map_none, hv, if_false]
    | true =>
      simp only [signTxt, if_true, List.cons_append, List.nil_append, Bool.not_true,
        Bool.false_eq_true, if_false, Bool.false_and, Bool.true_and, decide_eq_true_eq]
      by_cases hv : JP.digitsVal ip ≤ 9223372036854775808
      · simp only [parseI64_digits hip hv, Option.map_some, hv, if_true]
      · simp only [parseI64_big hip hv, Option.map_none, hv, if_false]
  | none, some x, hf =>
    simp only [classifyNumber, Option.isSome_none, Option.isSome_some, Bool.not_false, Bool.not_true,
      Bool.and_false, Bool.false_eq_true, if_false, hf, Lit.value]
  | some f, none, hf =>
    simp only [classifyNumber, Option.isSome_none, Option.isSome_some, Bool.not_false, Bool.not_true,
      Bool.false_and, Bool.false_eq_true, if_false, hf, Lit.value]
  | some f, some x, hf =>
    simp only [classifyNumber, Option.isSome_some, Bool.not_true,
      Bool.false_and, Bool.false_eq_true, if_false, hf, Lit.value]

/-- **numbers, crate side**: a well-formed literal at the cursor is lexed to its end and
classified to its value -/
theorem parseNumber_lit {buf : Bytes} {i : Nat} {L : Lit} {r : Bytes} (h : buf.drop i = L.text r)
    (hw : L.WF) (he : L.End r) :
    parseNumber buf i = .ok (.num L.value, i + L.len) := by
  have hne : L.text r ≠ [] := by
    obtain ⟨d, ip', hipe⟩ := List.exists_cons_of_ne_nil hw.1.1
    simp [Lit.text, hipe]
  obtain ⟨c, s, hcs⟩ := List.exists_cons_of_ne_nil hne
  have hlt := lt_of_drop_cons (h.trans hcs)
  have hsl : slice "parse_json_number: buf[start_idx..idx]" buf i (i + L.len) = .ok (L.text []) := by
    rw [← Lit.text_length]
    exact slice_of_drop _ (by rw [h, Lit.text_eq]) (Nat.le_of_lt hlt)
  unfold parseNumber
  simp only [lexNumber_lit h hw he, bind_ok, hsl, classifyNumber_lit hw, pure_eq]

/-! ### The strict reader's `number`, stage by stage -/

def sFrac (r1 : Bytes) : Bytes × Bytes × Bool :=
  match r1 with
  | 0x2E :: t => let (d, r) := Strict.takeDigits t; (d, r, true)
  | _ => ([], r1, false)

def sExp (r2 : Bytes) : Option (Int × Bytes × Bool) :=
  match r2 with
  | e :: t =>
    if e == 0x65 || e == 0x45 then
      let (eneg, t') := match t with
        | 0x2D :: u => (true, u)
        | 0x2B :: u => (false, u)
        | _ => (false, t)
      let (ed, r) := Strict.takeDigits t'
      if ed.isEmpty then none
      else some (if eneg then -(Strict.digitsVal ed : Int) else Strict.digitsVal ed, r, true)
    else some (0, r2, false)
  | [] => some (0, [], false)

/-- `Strict.number` with its stages named -/
def number' (bs : Bytes) : Option (Num × Bytes) :=
  let p0 := fSign bs
  let p1 := Strict.takeDigits p0.2
  if p1.1.isEmpty then none
  else if p1.1.length > 1 && p1.1.head? == some 0x30 then none
  else
    let p2 := sFrac p1.2
    if p2.2.2 && p2.1.isEmpty then none
    else
      match sExp p2.2.1 with
      | none => none
      | some (ev, r3, hasE) =>
        if !p2.2.2 && !hasE then
          let v := Strict.digitsVal p1.1
          if !p0.1 && v < 18446744073709551616 then some (.uint v, r3)
          else if p0.1 && v ≤ 9223372036854775808 then some (.int (-(v : Int)), r3)
          else some (.float (F64.ofDecimal p0.1 v 0), r3)
        else some (.float (F64.ofDecimal p0.1 (Strict.digitsVal (p1.1 ++ p2.1)) (ev - p2.1.length)), r3)

theorem number_eq (bs : Bytes) : Strict.number bs = number' bs := by
  unfold Strict.number number' fSign sFrac sExp
  rfl

theorem fSign_spec (bs : Bytes) : bs = signTxt (fSign bs).1 ++ (fSign bs).2 := by
  unfold fSign
  split <;> rfl

theorem sFrac_spec (r1 : Bytes) :
    ∃ fp : Option Bytes, r1 = fracTxt fp ++ (sFrac r1).2.1 ∧ (sFrac r1).1 = fp.getD [] ∧
      (sFrac r1).2.2 = fp.isSome ∧ (∀ f, fp = some f → Digits f ∧ NonDig (sFrac r1).2.1) ∧
      (fp = none → NoDot r1) := by
  unfold sFrac
  split
  · rename_i t
    obtain ⟨h1, h2, h3⟩ := spanDigits_spec t
    refine ⟨some (Strict.takeDigits t).1, ?_, rfl, rfl, ?_, by simp⟩
    · simp only [fracTxt, takeDigits_eq_span, List.cons_append]; rw [← h1]
    · intro f hf
      simp only [Option.some.injEq] at hf
      subst hf
      simp only [takeDigits_eq_span]
      exact ⟨h2, h3⟩
  · rename_i hne
    refine ⟨none, rfl, rfl, rfl, by simp, ?_⟩
    intro _ hd
    cases r1 with
    | nil => simp at hd
    | cons c r =>
      simp only [List.head?_cons, Option.some.injEq] at hd
      subst hd
      exact hne r rfl

theorem sExp_spec (r2 : Bytes) (ev : Int) (r3 : Bytes) (hasE : Bool)
    (h : sExp r2 = some (ev, r3, hasE)) :
    ∃ ex, WFex ex ∧ r2 = expTxt ex ++ r3 ∧ ev = expVal ex ∧ hasE = ex.isSome ∧
      (ex.isSome = true → NonDig r3) ∧ (ex = none → NoE r2) := by
  unfold sExp at h
  split at h
  · rename_i e t
    split at h
    · rename_i hE
      -- an exponent
      have hE' : e = 0x65 ∨ e = 0x45 := by simpa using hE
      -- the sign
      have hsg : ∃ sg u, (sg = [] ∨ sg = [0x2B] ∨ sg = [0x2D]) ∧ t = sg ++ u ∧
          (match t with
            | 0x2D :: u => (true, u)
            | 0x2B :: u => (false, u)
            | _ => (false, t) : Bool × Bytes) = (decide (sg = [0x2D]), u) ∧
          (sg = [] → ∀ c, u.head? = some c → c ≠ 0x2D ∧ c ≠ 0x2B) := by
        split
        · rename_i u; exact ⟨[0x2D], u, by simp, rfl, rfl, by simp⟩
        · rename_i u; exact ⟨[0x2B], u, by simp, rfl, by simp, by simp⟩
        · rename_i h1 h2
          refine ⟨[], t, by simp, rfl, by simp, ?_⟩
          intro _ c hc
          cases t with
          | nil => simp at hc
          | cons c' r =>
            simp only [List.head?_cons, Option.some.injEq] at hc
            subst hc
            exact ⟨fun he => h1 r (by rw [he]), fun he => h2 r (by rw [he])⟩
      obtain ⟨sg, u, hsg, ht, hm, -⟩ := hsg
      rw [hm] at h
      simp only [takeDigits_eq_span] at h
      obtain ⟨h1, h2, h3⟩ := spanDigits_spec u
      split at h
      · exact absurd h (by simp)
      · rename_i hne
        simp only [Option.some.injEq, Prod.mk.injEq] at h
        obtain ⟨hev, hr3, hhe⟩ := h
        have hne' : (spanDigits u).1 ≠ [] := by
          intro he; rw [he] at hne; simp at hne
        refine ⟨some (e, sg, (spanDigits u).1), ?_, ?_, ?_, hhe.symm, ?_, by simp⟩
        · intro e' sg' ed' hx
          simp only [Option.some.injEq, Prod.mk.injEq] at hx
          obtain ⟨rfl, rfl, rfl⟩ := hx
          exact ⟨hE', hsg, hne', h2⟩
        · simp only [expTxt, List.cons_append, List.append_assoc]
          rw [← hr3, ← h1, ← ht]
        · rw [← hev]
          simp only [expVal, decide_eq_true_eq]
          rfl
        · intro _; rw [← hr3]; exact h3
    · rename_i hE
      simp only [Option.some.injEq, Prod.mk.injEq] at h
      obtain ⟨hev, hr3, hhe⟩ := h
      refine ⟨none, by intro _ _ _ hx; simp at hx, by simp [expTxt, hr3], hev.symm, hhe.symm,
        by simp, ?_⟩
      intro _
      simp only [Bool.or_eq_true, beq_iff_eq, not_or] at hE
      simp only [NoE, List.head?_cons, ne_eq, Option.some.injEq]
      exact ⟨hE.2, hE.1⟩
  · simp only [Option.some.injEq, Prod.mk.injEq] at h
    obtain ⟨hev, hr3, hhe⟩ := h
    refine ⟨none, by intro _ _ _ hx; simp at hx, by simp [expTxt, hr3], hev.symm, hhe.symm,
      by simp, by intro _; simp [NoE]⟩

/-- **numbers, strict side**: whenever the strict reader accepts a number it has read exactly
the text of a well-formed literal, stopped where the crate's lexer stops, and returned the
literal's value -/
theorem number_lit {bs : Bytes} {n : Num} {r : Bytes} (h : Strict.number bs = some (n, r)) :
    ∃ L : Lit, L.WF ∧ L.End r ∧ bs = L.text r ∧ n = L.value := by
  rw [number_eq] at h
  unfold number' at h
  simp only at h
  have hs := fSign_spec bs
  generalize fSign bs = p0 at h hs
  obtain ⟨neg, s1⟩ := p0
  simp only at h hs
  rw [takeDigits_eq_span] at h
  obtain ⟨d1, d2, d3⟩ := spanDigits_spec s1
  generalize spanDigits s1 = p1 at h d1 d2 d3
  obtain ⟨ip, r1⟩ := p1
  simp only at h d1 d2 d3
  split at h
  · exact absurd h (by simp)
  rename_i hne
  split at h
  · exact absurd h (by simp)
  rename_i hlz
  obtain ⟨fp, f1, f2, f3, f4, f5⟩ := sFrac_spec r1
  generalize sFrac r1 = p2 at h f1 f2 f3 f4 f5
  obtain ⟨fd, r2, hasF⟩ := p2
  simp only at h f1 f2 f3 f4 f5
  split at h
  · exact absurd h (by simp)
  rename_i hfe
  split at h
  · exact absurd h (by simp)
  rename_i ev r3 hasE hse
  obtain ⟨ex, x1, x2, x3, x4, x5, x6⟩ := sExp_spec r2 ev r3 hasE hse
  have hipne : ip ≠ [] := by intro he; rw [he] at hne; simp at hne
  have hIL : IntLit ip := by
    refine ⟨hipne, d2, ?_⟩
    intro hh
    match ip, hh, hlz, hipne with
    | [c], hh, _, _ => simp only [List.head?_cons, Option.some.injEq] at hh; rw [hh]
    | c :: c' :: t, hh, hlz, _ => simp [hh] at hlz
  have hWfp : WFfp fp := by
    intro f hf
    refine ⟨?_, (f4 f hf).1⟩
    intro he
    subst hf he
    simp at f2 f3
    simp [f2, f3] at hfe
  let L : Lit := ⟨neg, ip, fp, ex⟩
  have hEnd : L.End r3 := by
    refine ⟨?_, ?_, ?_⟩
    · match ex, x2, x5 with
      | some x, _, x5 => exact x5 rfl
      | none, x2, _ =>
        have e32 : r2 = r3 := by simpa [expTxt] using x2
        match fp, f1, f4 with
        | some f, _, f4 => rw [← e32]; exact (f4 f rfl).2
        | none, f1, _ =>
          have e21 : r1 = r2 := by simpa [fracTxt] using f1
          rw [← e32, ← e21]; exact d3
    · intro hx
      have hx' : ex = none := hx
      have e32 : r2 = r3 := by rw [hx'] at x2; simpa [expTxt] using x2
      rw [← e32]; exact x6 hx'
    · intro hx hf
      have hx' : ex = none := hx
      have hf' : fp = none := hf
      have e32 : r2 = r3 := by rw [hx'] at x2; simpa [expTxt] using x2
      have e21 : r1 = r2 := by rw [hf'] at f1; simpa [fracTxt] using f1
      rw [← e32, ← e21]; exact f5 hf'
  have hbs : bs = L.text r3 := by
    show bs = signTxt neg ++ (ip ++ (fracTxt fp ++ (expTxt ex ++ r3)))
    rw [← x2, ← f1, ← d1, ← hs]
  have hdv : Strict.digitsVal = JP.digitsVal := rfl
  subst f2 f3 x3 x4
  simp only [hdv] at h
  have key : r = r3 ∧ n = (Lit.mk neg ip fp ex).value := by
    match fp, ex, h with
    | none, none, h =>
      simp only [Option.isSome_none, Bool.not_false, Bool.and_self, if_true] at h
      simp only [Lit.value]
      split at h
      · rename_i hc
        simp only [Option.some.injEq, Prod.mk.injEq] at h
        rw [if_pos hc]; exact ⟨h.2.symm, h.1.symm⟩
      · rename_i hc
        rw [if_neg hc]
        split at h
        · rename_i hc2
          simp only [Option.some.injEq, Prod.mk.injEq] at h
          rw [if_pos hc2]; exact ⟨h.2.symm, h.1.symm⟩
        · rename_i hc2
          simp only [Option.some.injEq, Prod.mk.injEq] at h
          rw [if_neg hc2]; exact ⟨h.2.symm, h.1.symm⟩
    | none, some x, h =>
      simp only [Option.isSome_none, Option.isSome_some, Bool.not_false, Bool.not_true,
        Bool.and_false, Bool.false_eq_true, if_false, Option.some.injEq, Prod.mk.injEq] at h
      simp only [Lit.value]
      exact ⟨h.2.symm, h.1.symm⟩
    | some f, none, h =>
      simp only [Option.isSome_none, Option.isSome_some, Bool.not_false, Bool.not_true,
        Bool.false_and, Bool.false_eq_true, if_false, Option.some.injEq, Prod.mk.injEq] at h
      simp only [Lit.value]
      exact ⟨h.2.symm, h.1.symm⟩
    | some f, some x, h =>
      simp only [Option.isSome_some, Bool.not_true,
        Bool.false_and, Bool.false_eq_true, if_false, Option.some.injEq, Prod.mk.injEq] at h
      simp only [Lit.value]
      exact ⟨h.2.symm, h.1.symm⟩
  obtain ⟨rfl, hn⟩ := key
  exact ⟨L, ⟨hIL, hWfp, x1⟩, hEnd, hbs, hn⟩

/-- **numbers**: if the strict reader reads a number `n` from the remaining input and leaves
`r`, the crate's `parse_json_number` at the same cursor returns the same `n` and leaves `r` -/
theorem number_sim {buf : Bytes} {i : Nat} {bs : Bytes} {n : Num} {r : Bytes}
    (h : buf.drop i = bs) (hs : Strict.number bs = some (n, r)) :
    ∃ j, parseNumber buf i = .ok (.num n, j) ∧ buf.drop j = r := by
  obtain ⟨L, hw, he, hbs, hn⟩ := number_lit hs
  refine ⟨i + L.len, ?_, ?_⟩
  · rw [hn]; exact parseNumber_lit (h.trans hbs) hw he
  · rw [← Lit.text_length]
    exact drop_add_of_drop (h.trans (hbs.trans (Lit.text_eq L r)))

end SS
end Jsonb
