/-
C19, part 1 (byte level): the walker `to_serde_json` over the README layout of a good document
computes the tree conversion `From<Value> for serde_json::Value`, for documents of any depth and
size.  On a non-finite float the walker returns `Err(InvalidJson)` where the tree conversion
panics (`from_f64(..).unwrap()`); `relaxP` records exactly that difference, and on documents
with finite numbers both are `.ok` of the same value.
-/
import JsonbModel.Functions.Serde
import JsonbModel.Proofs.AccessRefine2
import JsonbModel.Proofs.NumCodec

namespace Jsonb
open JV Fn Spec

/-! ### panics of the tree conversion are errors of the walker -/

/-- a panic (`from_f64(v).unwrap()` in from.rs) read as the walker's `Err(InvalidJson)` -/
def relaxP {α} : Res α → Res α
  | .panic _ => .err "InvalidJson"
  | r => r

theorem relaxP_ok {α} (a : α) : relaxP (.ok a) = .ok a := rfl

theorem relaxP_map {α β} (f : α → β) (r : Res α) : relaxP (r.map f) = (relaxP r).map f := by
  cases r <;> rfl

/-! ### finite documents: the total tree conversion -/

mutual
/-- every float of the document is finite -/
def finiteJ : JV → Bool
  | .num (.float b) => F64.isFinite b
  | .arr vs => finiteL vs
  | .obj kvs => finiteK kvs
  | _ => true
def finiteL : List JV → Bool
  | [] => true
  | v :: vs => finiteJ v && finiteL vs
def finiteK : List (Bytes × JV) → Bool
  | [] => true
  | (_, v) :: kvs => finiteJ v && finiteK kvs
end

mutual
/-- the serde_json value of a document with finite numbers (`toSJ` without the failure arm) -/
def toSJT : JV → SJ
  | .null => .null
  | .bool b => .bool b
  | .num (.int i) => sjOfInt i
  | .num (.uint n) => .pos n
  | .num (.float b) => .float b
  | .str s => .str s
  | .arr vs => .arr (toSJTL vs)
  | .obj kvs => .obj (toSJTK kvs [])
def toSJTL : List JV → List SJ
  | [] => []
  | v :: vs => toSJT v :: toSJTL vs
def toSJTK : List (Bytes × JV) → List (Bytes × SJ) → List (Bytes × SJ)
  | [], acc => acc
  | (k, v) :: kvs, acc => toSJTK kvs (SJ.insert k (toSJT v) acc)
end

theorem res_map_ok' {α β} (f : α → β) (a : α) : (Res.ok a).map f = .ok (f a) := rfl

mutual
theorem toSJ_finite : (v : JV) → finiteJ v = true → toSJ v = .ok (toSJT v)
  | .null, _ => rfl
  | .bool _, _ => rfl
  | .num (.int _), _ => rfl
  | .num (.uint _), _ => rfl
  | .num (.float b), h => by
    simp only [finiteJ] at h
    simp only [toSJ, h, if_true, toSJT]
  | .str _, _ => rfl
  | .arr vs, h => by
    simp only [finiteJ] at h
    simp only [toSJ, toSJL_finite vs h, res_map_ok', toSJT]
  | .obj kvs, h => by
    simp only [finiteJ] at h
    simp only [toSJ, toSJK_finite kvs h [], res_map_ok', toSJT]
theorem toSJL_finite : (vs : List JV) → finiteL vs = true → toSJL vs = .ok (toSJTL vs)
  | [], _ => rfl
  | v :: vs, h => by
    simp only [finiteL, Bool.and_eq_true] at h
    simp only [toSJL, toSJ_finite v h.1, toSJL_finite vs h.2, res_map_ok', toSJTL]
theorem toSJK_finite : (kvs : List (Bytes × JV)) → finiteK kvs = true → (acc : List (Bytes × SJ)) →
    toSJK kvs acc = .ok (toSJTK kvs acc)
  | [], _, _ => rfl
  | (k, v) :: kvs, h, acc => by
    simp only [finiteK, Bool.and_eq_true] at h
    simp only [toSJK, toSJ_finite v h.1, toSJK_finite kvs h.2, toSJTK]
end

/-! ### the number normalisation of the codec is invisible to serde_json -/

theorem isFinite_false_of_isNaN (b : Nat) (h : F64.isNaN b = true) : F64.isFinite b = false := by
  simp only [F64.isNaN, Bool.and_eq_true, beq_iff_eq] at h
  simp [F64.isFinite, h.1]

theorem isFinite_canonNaN : F64.isFinite F64.canonNaN = false := by decide

theorem sjOfInt_zero : sjOfInt 0 = .pos 0 := by simp [sjOfInt]

theorem sjOfNum_norm (n : Num) : sjOfNum n.norm = sjOfNum n := by
  cases n with
  | int i =>
    by_cases hi : i = 0
    · subst hi; simp [Num.norm, sjOfNum, sjOfInt_zero]
    · simp [Num.norm, hi]
  | uint n => rfl
  | float b =>
    cases hb : F64.isNaN b with
    | false => simp [Num.norm, hb]
    | true =>
      simp [Num.norm, hb, sjOfNum, isFinite_false_of_isNaN b hb, isFinite_canonNaN]

theorem num_norm_nan (b : Nat) (hb : F64.isNaN b = true) :
    (Num.float b).norm = .float F64.canonNaN := by simp [Num.norm, hb]

theorem toSJ_float_nonfinite (b : Nat) (hb : F64.isFinite b = false) :
    toSJ (.num (.float b)) = .panic "JsonNumber::from_f64(v).unwrap()" := by
  simp [toSJ, hb]

theorem toSJ_num_norm (n : Num) : toSJ (.num n.norm) = toSJ (.num n) := by
  cases n with
  | int i =>
    by_cases hi : i = 0
    · subst hi
      have : (Num.int 0).norm = .uint 0 := by simp [Num.norm]
      rw [this]; simp [toSJ, sjOfInt_zero]
    · have : (Num.int i).norm = .int i := by simp [Num.norm, hi]
      rw [this]
  | uint n => rfl
  | float b =>
    cases hb : F64.isNaN b with
    | false =>
      have : (Num.float b).norm = .float b := by simp [Num.norm, hb]
      rw [this]
    | true =>
      rw [num_norm_nan b hb, toSJ_float_nonfinite _ isFinite_canonNaN,
        toSJ_float_nonfinite _ (isFinite_false_of_isNaN b hb)]

theorem sjOfNum_relax (n : Num) : sjOfNum n = relaxP (toSJ (.num n)) := by
  cases n with
  | int i => rfl
  | uint n => rfl
  | float b =>
    cases hb : F64.isFinite b <;> simp [sjOfNum, toSJ, hb, relaxP]

/-! ### reading one stored value -/

theorem slice_all (p : Bytes) : slice p 0 p.length = .ok p := by
  have := slice_mid [] p []
  simpa using this

theorem sliceFrom_left (a p : Bytes) (n : Nat) (hn : n = a.length) :
    sliceFrom (a ++ p) n = .ok p := by
  subst hn
  unfold sliceFrom
  rw [if_pos (by simp)]
  simp

theorem tag_ne :
    (¬ C.TRUE_TAG = C.NULL_TAG) ∧ (¬ C.FALSE_TAG = C.NULL_TAG) ∧ (¬ C.FALSE_TAG = C.TRUE_TAG) ∧
    (¬ C.NUMBER_TAG = C.NULL_TAG) ∧ (¬ C.NUMBER_TAG = C.TRUE_TAG) ∧ (¬ C.NUMBER_TAG = C.FALSE_TAG) ∧
    (¬ C.STRING_TAG = C.NULL_TAG) ∧ (¬ C.STRING_TAG = C.TRUE_TAG) ∧ (¬ C.STRING_TAG = C.FALSE_TAG) ∧
    (¬ C.STRING_TAG = C.NUMBER_TAG) ∧
    (¬ C.CONTAINER_TAG = C.NULL_TAG) ∧ (¬ C.CONTAINER_TAG = C.TRUE_TAG) ∧
    (¬ C.CONTAINER_TAG = C.FALSE_TAG) ∧ (¬ C.CONTAINER_TAG = C.NUMBER_TAG) ∧
    (¬ C.CONTAINER_TAG = C.STRING_TAG) := by decide

/-- the container arm of `toSerde` on the image of a good array -/
theorem toSerde_arr (vs : List JV) (hn : vs.length < 536870912) (hg : goodL vs = true) (fuel : Nat) :
    toSerde (fuel + 1) (entry (arr vs)).2 = (serdeItems fuel (vs.map itemOf)).map SJ.arr := by
  have hh : readU32At (entry (arr vs)).2 0 = some (C.ARRAY_CONTAINER_TAG + vs.length) := by
    simp only [entry]; exact readU32At_zero _ _ (arr_header_lt _ hn)
  have hi := iterArray_spec vs hn hg []
  simp only [List.append_nil] at hi
  simp only [toSerde, hh, Option.getD_some, hdrType_arr _ hn, if_neg ne_arr_obj, if_true, hi]

/-- the container arm of `toSerde` on the image of a good object -/
theorem toSerde_obj (kvs : List (Bytes × JV)) (hn : kvs.length < 536870912) (hg : goodK kvs = true)
    (fuel : Nat) :
    toSerde (fuel + 1) (entry (obj kvs)).2 = (serdeMembers fuel (kvs.map memberOf) []).map SJ.obj := by
  have hh : readU32At (entry (obj kvs)).2 0 = some (C.OBJECT_CONTAINER_TAG + kvs.length) := by
    simp only [entry]; exact readU32At_zero _ _ (obj_header_lt _ hn)
  have hi := iterObjEntries_spec kvs hn hg []
  simp only [List.append_nil] at hi
  simp only [toSerde, hh, Option.getD_some, hdrType_obj _ hn, if_true, hi]

/-! ### the walker computes the tree conversion -/

mutual
theorem serdeScalar_spec : (v : JV) → good v = true → (fuel : Nat) → szS v ≤ fuel →
    serdeScalar fuel (itemOf v).1 (entry v).2 = relaxP (toSJ v)
  | .null, _, fuel, hf => by
    cases fuel with
    | zero => simp [szS] at hf
    | succ f => simp [serdeScalar, itemOf, ety, toSJ, relaxP]
  | .bool b, _, fuel, hf => by
    cases fuel with
    | zero => simp [szS] at hf
    | succ f =>
      obtain ⟨c1, c2, c3, _⟩ := tag_ne
      cases b <;> simp [serdeScalar, itemOf, ety, toSJ, relaxP, c1, c2, c3]
  | .num n, hg, fuel, hf => by
    cases fuel with
    | zero => simp [szS] at hf
    | succ f =>
      obtain ⟨_, _, _, c1, c2, c3, _⟩ := tag_ne
      simp only [good, decide_eq_true_eq] at hg
      have hs : slice (Num.enc n) 0 (Num.enc n).length = .ok (Num.enc n) := slice_all _
      simp only [serdeScalar, itemOf, ety, elen, entry, c1, c2, c3, if_false, if_true, hs,
        Num.dec_enc n hg, sjOfNum_relax, toSJ_num_norm]
  | .str s, _, fuel, hf => by
    cases fuel with
    | zero => simp [szS] at hf
    | succ f =>
      obtain ⟨_, _, _, _, _, _, c1, c2, c3, c4, _⟩ := tag_ne
      have hs : slice s 0 s.length = .ok s := slice_all _
      simp only [serdeScalar, itemOf, ety, elen, entry, c1, c2, c3, c4, if_false, if_true, hs,
        res_map_ok', toSJ, relaxP]
  | .arr vs, hg, fuel, hf => by
    simp only [szS] at hf
    have hp := szL_pos vs
    match fuel, hf with
    | 0, hf => omega
    | 1, hf => omega
    | f + 2, hf =>
      obtain ⟨_, _, _, _, _, _, _, _, _, _, c1, c2, c3, c4, c5⟩ := tag_ne
      simp only [good, Bool.and_eq_true, decide_eq_true_eq] at hg
      obtain ⟨⟨hn, _⟩, hgl⟩ := hg
      have ih := serdeItems_spec vs hgl f (by omega)
      simp only [serdeScalar, itemOf, ety, c1, c2, c3, c4, c5, if_false, if_true]
      rw [toSerde_arr vs hn hgl f, ih]
      simp only [toSJ, relaxP_map]
  | .obj kvs, hg, fuel, hf => by
    simp only [szS] at hf
    have hp := szK_pos kvs
    match fuel, hf with
    | 0, hf => omega
    | 1, hf => omega
    | f + 2, hf =>
      obtain ⟨_, _, _, _, _, _, _, _, _, _, c1, c2, c3, c4, c5⟩ := tag_ne
      simp only [good, Bool.and_eq_true, decide_eq_true_eq] at hg
      obtain ⟨⟨⟨hn, _⟩, _⟩, hgk⟩ := hg
      have ih := serdeMembers_spec kvs hgk f (by omega) []
      simp only [serdeScalar, itemOf, ety, c1, c2, c3, c4, c5, if_false, if_true]
      rw [toSerde_obj kvs hn hgk f, ih]
      simp only [toSJ, relaxP_map]
theorem serdeItems_spec : (vs : List JV) → goodL vs = true → (fuel : Nat) → szL vs ≤ fuel →
    serdeItems fuel (vs.map itemOf) = relaxP (toSJL vs)
  | [], _, fuel, hf => by
    cases fuel with
    | zero => simp [szL] at hf
    | succ f => simp [serdeItems, toSJL, relaxP]
  | v :: vs, hg, fuel, hf => by
    simp only [szL] at hf
    cases fuel with
    | zero => omega
    | succ f =>
      simp only [goodL, Bool.and_eq_true] at hg
      have ih1 := serdeScalar_spec v hg.1 f (by omega)
      have ih2 := serdeItems_spec vs hg.2 f (by omega)
      have e : itemOf v = ((itemOf v).1, (entry v).2) := rfl
      rw [List.map_cons, e]
      simp only [serdeItems, ih1, ih2, toSJL]
      cases toSJ v with
      | ok x => simp only [relaxP_ok, relaxP_map]
      | err e => rfl
      | panic s => rfl
      | fuel => rfl
theorem serdeMembers_spec : (kvs : List (Bytes × JV)) → goodK kvs = true → (fuel : Nat) →
    szK kvs ≤ fuel → (acc : List (Bytes × SJ)) →
    serdeMembers fuel (kvs.map memberOf) acc = relaxP (toSJK kvs acc)
  | [], _, fuel, hf, acc => by
    cases fuel with
    | zero => simp [szK] at hf
    | succ f => simp [serdeMembers, toSJK, relaxP]
  | (k, v) :: kvs, hg, fuel, hf, acc => by
    simp only [szK] at hf
    cases fuel with
    | zero => omega
    | succ f =>
      simp only [goodK, Bool.and_eq_true, decide_eq_true_eq] at hg
      have ih1 := serdeScalar_spec v hg.1.2 f (by omega)
      have e : memberOf (k, v) = (k, (itemOf v).1, (entry v).2) := rfl
      rw [List.map_cons, e]
      simp only [serdeMembers, ih1, toSJK]
      cases toSJ v with
      | ok x =>
        simp only [relaxP_ok]
        exact serdeMembers_spec kvs hg.2 f (by omega) _
      | err e => rfl
      | panic s => rfl
      | fuel => rfl
end

/-! ### whole documents -/

theorem toSerde_scalarDoc (v : JV) (hs : isScalar v = true) (hg : good v = true) (fuel : Nat)
    (hf : szS v + 1 ≤ fuel) :
    toSerde fuel (encodeSpec v) = relaxP (toSJ v) := by
  match fuel, hf with
  | f + 1, hf =>
    have hl := elen_lt_of_good v hg
    have h4 : readU32At (encodeSpec v) 4 = some (entry v).1 := by
      rw [encodeSpec_scalarA v hs]
      exact readU32At_mid _ _ _ 4 (by simp) (entry_lt v hl)
    have h8 : sliceFrom (encodeSpec v) 8 = .ok (entry v).2 := by
      rw [encodeSpec_scalarA v hs]
      have e : u32be C.SCALAR_CONTAINER_TAG ++ (u32be (entry v).1 ++ ((entry v).2 ++ []))
          = (u32be C.SCALAR_CONTAINER_TAG ++ u32be (entry v).1) ++ (entry v).2 := by simp
      rw [e]
      exact sliceFrom_left _ _ 8 (by simp)
    have ih := serdeScalar_spec v hg f (by omega)
    simp only [itemOf] at ih
    simp only [toSerde, hdr_scalar v hs, Option.getD_some, hdrType_sca, if_neg ne_sca_obj,
      if_neg ne_sca_arr, if_true, h4, h8, JE_ofWord_entry v hl, ih]

/-- the byte walker on the layout of any good document, with the fuel `to_serde_json` supplies -/
theorem toSerdeJson_relax (v : JV) (hg : goodTop v = true) :
    toSerdeJson (encodeSpec v) = relaxP (toSJ v) := by
  unfold toSerdeJson
  cases v with
  | arr vs =>
    simp only [goodTop, Bool.and_eq_true, decide_eq_true_eq] at hg
    have hsz := szL_le vs
    have hlen : (encodeSpec (arr vs)).length = 4 + 4 * vs.length + (paysL vs).length := by
      simp [encodeSpec, entry, wordsL_length]; omega
    rw [hlen, show 2 * (4 + 4 * vs.length + (paysL vs).length) + 8
      = (2 * (4 + 4 * vs.length + (paysL vs).length) + 7) + 1 by omega]
    have ih := serdeItems_spec vs hg.2 (2 * (4 + 4 * vs.length + (paysL vs).length) + 7) (by omega)
    have e : encodeSpec (arr vs) = (entry (arr vs)).2 := rfl
    rw [e, toSerde_arr vs hg.1 hg.2, ih]
    simp only [toSJ, relaxP_map]
  | obj kvs =>
    simp only [goodTop, Bool.and_eq_true, decide_eq_true_eq] at hg
    have hsz := szK_le kvs
    have hlen : (encodeSpec (obj kvs)).length
        = 4 + 8 * kvs.length + (keyBytes kvs).length + (paysK kvs).length := by
      simp [encodeSpec, entry, wordsK_length, keyWords_length]; omega
    rw [hlen, show 2 * (4 + 8 * kvs.length + (keyBytes kvs).length + (paysK kvs).length) + 8
      = (2 * (4 + 8 * kvs.length + (keyBytes kvs).length + (paysK kvs).length) + 7) + 1 by omega]
    have ih := serdeMembers_spec kvs hg.2
      (2 * (4 + 8 * kvs.length + (keyBytes kvs).length + (paysK kvs).length) + 7) (by omega) []
    have e : encodeSpec (obj kvs) = (entry (obj kvs)).2 := rfl
    rw [e, toSerde_obj kvs hg.1.1 hg.2, ih]
    simp only [toSJ, relaxP_map]
  | null => exact toSerde_scalarDoc _ rfl hg _ (by simp [szS])
  | bool b => exact toSerde_scalarDoc _ rfl hg _ (by simp [szS])
  | num n => exact toSerde_scalarDoc _ rfl hg _ (by simp [szS])
  | str s => exact toSerde_scalarDoc _ rfl hg _ (by simp [szS])

/-! ### `norm` is invisible: `toSJ (norm v) = toSJ v` for every document -/

mutual
theorem toSJ_norm : (v : JV) → toSJ (norm v) = toSJ v
  | .null => rfl
  | .bool _ => rfl
  | .num n => by simp only [norm]; exact toSJ_num_norm n
  | .str _ => rfl
  | .arr vs => by simp only [norm, toSJ, toSJL_norm vs]
  | .obj kvs => by simp only [norm, toSJ, toSJK_norm kvs []]
theorem toSJL_norm : (vs : List JV) → toSJL (normList vs) = toSJL vs
  | [] => rfl
  | v :: vs => by simp only [normList, toSJL, toSJ_norm v, toSJL_norm vs]
theorem toSJK_norm : (kvs : List (Bytes × JV)) → (acc : List (Bytes × SJ)) →
    toSJK (normKvs kvs) acc = toSJK kvs acc
  | [], _ => rfl
  | (k, v) :: kvs, acc => by
    simp only [normKvs, toSJK, toSJ_norm v]
    cases toSJ v with
    | ok x => exact toSJK_norm kvs _
    | err e => rfl
    | panic s => rfl
    | fuel => rfl
end

end Jsonb
