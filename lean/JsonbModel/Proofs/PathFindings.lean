/-
Concrete findings about the Rust path parsers / printers, proved on the model (each input was
also run through the real crate, see the validation report).
-/
import JsonbModel.PathParser
import JsonbModel.PathPrint

namespace Jsonb.PathFindings
open Jsonb

/-- `$[last+-2147483648]` -/
def lastMinSrc : Bytes :=
  [36, 91, 108, 97, 115, 116, 43, 45, 50, 49, 52, 55, 52, 56, 51, 54, 52, 56, 93]

/-- `$[last-2147483648]` -/
def lastMinPrinted : Bytes :=
  [36, 91, 108, 97, 115, 116, 45, 50, 49, 52, 55, 52, 56, 51, 54, 52, 56, 93]

def lastMinAst : JsonPath := [.root, .arrayIndices [.index (.last (-2147483648))]]

/-- F1a: the parser accepts `last+-2147483648` and produces `LastIndex(i32::MIN)` … -/
theorem lastMin_parses : parseJsonPath lastMinSrc = .ok lastMinAst := by rfl

/-- F1b: … which `Display` prints as `$[last-2147483648]` … -/
theorem lastMin_prints (f : Nat → Bytes) : printJsonPath f lastMinAst = lastMinPrinted := by
  simp [lastMinAst, lastMinPrinted, printJsonPath, PathPrint.printPaths, PathPrint.printPath,
    PathPrint.printArrayIndexList, PathPrint.printArrayIndex, PathPrint.printIndex,
    PathPrint.intBytes, PathPrint.decBytes]

/-- F1c: … and the parser REJECTS that text (`2147483648` overflows nom's `i32`, the `last - n`
alternative fails, `last` alone is followed by `-`): `Display` is not a right inverse of the
parser on `LastIndex(i32::MIN)`. -/
theorem lastMin_not_roundtrip : parseJsonPath lastMinPrinted = .err "InvalidJsonPath" := by rfl

/-- `1e` -/
def oneE : Bytes := [49, 101]

/-- F2: nom's `double` uses `cut(digit1)` after the exponent marker, so a dangling `e` is a
`Failure`, which `alt` does not recover from: `1e` is rejected although the second alternative
of `predicate_or_paths` (`paths`, Snowflake-style bare field name) would accept it — as it
accepts `1x`. -/
theorem oneE_rejected : parseJsonPath oneE = .err "InvalidJsonPath" := by rfl

theorem oneX_accepted : parseJsonPath [49, 120] = .ok [.dotField [49, 120]] := by rfl

/-- F3: `last--2147483648` (last minus i32::MIN) saturates: `LastIndex(i32::MAX)`. -/
theorem lastMinusMin_saturates :
    parseJsonPath [36, 91, 108, 97, 115, 116, 45, 45, 50, 49, 52, 55, 52, 56, 51, 54, 52, 56, 93]
      = .ok [.root, .arrayIndices [.index (.last 2147483647)]] := by rfl

end Jsonb.PathFindings

#print axioms Jsonb.PathFindings.lastMin_parses
#print axioms Jsonb.PathFindings.lastMin_prints
#print axioms Jsonb.PathFindings.lastMin_not_roundtrip
#print axioms Jsonb.PathFindings.oneE_rejected
