/-
Concrete findings about the Rust path parsers / printers, proved on the model (each input was
also run through the real crate, see the validation report).
-/
import JsonbModel.PathParser
import JsonbModel.PathPrint

namespace Jsonb.PathFindings
open Jsonb

/-- `$[last+-2147483648]` -/
def lastMinSrc : Bytes :=
  [36, 91, 108, 97, 115, 116, 43, 45, 50, 49, 52, 55, 52, 56, 51, 54, 52, 56, 93]

/-- `$[last-2147483648]` -/
def lastMinPrinted : Bytes :=
  [36, 91, 108, 97, 115, 116, 45, 50, 49, 52, 55, 52, 56, 51, 54, 52, 56, 93]

def lastMinAst : JsonPath := [.root, .arrayIndices [.index (.last (-2147483648))]]

/-- F1a: the parser accepts `last+-2147483648` and produces `LastIndex(i32::MIN)` … -/
theorem lastMin_parses : parseJsonPath lastMinSrc = .ok lastMinAst := by rfl

/-- F1b: … which `Display` prints as `$[last-2147483648]` … -/
theorem lastMin_prints (f : Nat → Bytes) : printJsonPath f lastMinAst = lastMinPrinted := by
  simp [lastMinAst, lastMinPrinted, printJsonPath, PathPrint.printPaths, PathPrint.printPath,
    PathPrint.printArrayIndexList, PathPrint.printArrayIndex, PathPrint.printIndex,
    PathPrint.intBytes, PathPrint.decBytes]

/-- F1c (REPAIRED in the crate, commit "`last - n` accepts the offset that LastIndex(i32::MIN)
prints as"): the printout parses back to the same AST.  Before the fix the offset after
`last -` was read with nom's `i32`, `2147483648` overflowed, and the text was rejected. -/
theorem lastMin_roundtrip : parseJsonPath lastMinPrinted = .ok lastMinAst := by rfl

/-- the `i64` offset saturates into the `i32` range: `$[last-2147483649]` and
`$[last-9223372036854775807]` are `LastIndex(i32::MIN)` too -/
theorem lastMinus_big_saturates :
    parseJsonPath [36, 91, 108, 97, 115, 116, 45, 50, 49, 52, 55, 52, 56, 51, 54, 52, 57, 93]
      = .ok lastMinAst ∧
    parseJsonPath [36, 91, 108, 97, 115, 116, 45, 57, 50, 50, 51, 51, 55, 50, 48, 51, 54, 56, 53,
      52, 55, 55, 53, 56, 48, 55, 93] = .ok lastMinAst := ⟨by rfl, by rfl⟩

/-- … but an offset that does not fit `i64` is still rejected: `$[last-9223372036854775808]` -/
theorem lastMinus_i64_overflow_rejected :
    parseJsonPath [36, 91, 108, 97, 115, 116, 45, 57, 50, 50, 51, 51, 55, 50, 48, 51, 54, 56, 53,
      52, 55, 55, 53, 56, 48, 56, 93] = .err "InvalidJsonPath" := by rfl

/-- `$[last - -9223372036854775808]`: `i64::MIN.saturating_neg()` = `i64::MAX`, clamped:
`LastIndex(i32::MAX)` -/
theorem lastMinus_i64_min :
    parseJsonPath [36, 91, 108, 97, 115, 116, 32, 45, 32, 45, 57, 50, 50, 51, 51, 55, 50, 48, 51,
      54, 56, 53, 52, 55, 55, 53, 56, 48, 56, 93]
      = .ok [.root, .arrayIndices [.index (.last 2147483647)]] := by rfl

/-- `1e` -/
def oneE : Bytes := [49, 101]

/-- F2: nom's `double` uses `cut(digit1)` after the exponent marker, so a dangling `e` is a
`Failure`, which `alt` does not recover from: `1e` is rejected although the second alternative
of `predicate_or_paths` (`paths`, Snowflake-style bare field name) would accept it — as it
accepts `1x`. -/
theorem oneE_rejected : parseJsonPath oneE = .err "InvalidJsonPath" := by rfl

theorem oneX_accepted : parseJsonPath [49, 120] = .ok [.dotField [49, 120]] := by rfl

/-- F3 (unchanged by the fix): `last--2147483648` (last minus i32::MIN) saturates:
`LastIndex(i32::MAX)` — now through the `clamp`, before through `i32::saturating_neg`. -/
theorem lastMinusMin_saturates :
    parseJsonPath [36, 91, 108, 97, 115, 116, 45, 45, 50, 49, 52, 55, 52, 56, 51, 54, 52, 56, 93]
      = .ok [.root, .arrayIndices [.index (.last 2147483647)]] := by rfl

/-! ### after the fix "tabs, newlines and `&` end an unquoted name" -/

/-- `$.a<TAB>.b`: the tab is no longer part of the name `a` -/
theorem tab_ends_name :
    parseJsonPath [36, 46, 97, 9, 46, 98] = .ok [.root, .dotField [97], .dotField [98]] := by rfl

/-- `$?(@.a==1&&@.b==2)`: `&&` directly after a literal/name is the conjunction -/
theorem amp_ends_name :
    parseJsonPath [36, 63, 40, 64, 46, 97, 61, 61, 49, 38, 38, 64, 46, 98, 61, 61, 50, 41]
      = .ok [.root, .filterExpr (.binaryOp .and
          (.binaryOp .eq (.paths [.current, .dotField [97]]) (.value (.num (.uint 1))))
          (.binaryOp .eq (.paths [.current, .dotField [98]]) (.value (.num (.uint 2)))))] := by rfl

/-- `$.a&b` and `{a&b}` are rejected (a lone `&` is not a token); `{a<TAB>,b}` is `{a,b}` -/
theorem amp_in_name_rejected :
    parseJsonPath [36, 46, 97, 38, 98] = .err "InvalidJsonPath" ∧
    parseKeyPaths [123, 97, 38, 98, 125] = .err "InvalidKeyPath" ∧
    parseKeyPaths [123, 97, 9, 44, 98, 125] = .ok [.name [97], .name [98]] := ⟨by rfl, by rfl, by rfl⟩

/-! ### after the fix "a negative number literal can be the left operand of a comparison"
(`expr_atom`: the comparison alternative is tried before the unary sign) -/

/-- `-1<=$` is the predicate `-1 <= $` (canonical: `(pred (bin le (val I-1) (paths (root))))`);
before the reorder the unary alternative took `-` `1` and the leftover `<=$` was an error -/
theorem neg_literal_left_of_comparison :
    parseJsonPath [45, 49, 60, 61, 36]
      = .ok [.predicate (.binaryOp .le (.value (.num (.int (-1)))) (.paths [.root]))] := by rfl

/-- `$?(-1 < @.a)` -/
theorem neg_literal_in_filter :
    parseJsonPath [36, 63, 40, 45, 49, 32, 60, 32, 64, 46, 97, 41]
      = .ok [.root, .filterExpr (.binaryOp .lt (.value (.num (.int (-1))))
          (.paths [.current, .dotField [97]]))] := by rfl

/-- `-$.a` still reaches the unary alternative -/
theorem unary_minus_path :
    parseJsonPath [45, 36, 46, 97]
      = .ok [.predicate (.arithUnary .sub (.paths [.root, .dotField [97]]))] := by rfl

/-- `-1` alone is still unary minus applied to `UInt64(1)` (not the literal `Int64(-1)`) -/
theorem unary_minus_one :
    parseJsonPath [45, 49] = .ok [.predicate (.arithUnary .sub (.value (.num (.uint 1))))] := by rfl

/-- `-1 + 2` is still binary arithmetic on the literal `Int64(-1)` -/
theorem neg_literal_arith :
    parseJsonPath [45, 49, 32, 43, 32, 50]
      = .ok [.predicate (.arithBinary .add (.value (.num (.int (-1)))) (.value (.num (.uint 2))))] := by
  rfl

/-- still rejected: a unary sign applied to a path cannot be a comparison operand
(`-$.a == 1`), and a sign separated from its digits is not a literal (`- 1 < $`) -/
theorem unary_operand_not_comparable :
    parseJsonPath [45, 36, 46, 97, 32, 61, 61, 32, 49] = .err "InvalidJsonPath" ∧
    parseJsonPath [45, 32, 49, 32, 60, 32, 36] = .err "InvalidJsonPath" := ⟨by rfl, by rfl⟩

/-- the canonical line-protocol print of `-1<=$` -/
example : (parseJsonPath [45, 49, 60, 61, 36]).toOption.map Canon.showJsonPath
    = some "(pred (bin le (val I-1) (paths (root))))" := by decide

end Jsonb.PathFindings

#print axioms Jsonb.PathFindings.lastMin_parses
#print axioms Jsonb.PathFindings.lastMin_prints
#print axioms Jsonb.PathFindings.lastMin_roundtrip
#print axioms Jsonb.PathFindings.oneE_rejected
