/-
C07 (chains of operations), part 3: the two JSONPath operations of a chain
(`get_by_path_first`, `get_by_path_array`) at the fuel the chain runs both evaluators with
(`Spec.chainSelFuel v jp = Sel.selFuel (encodeSpec v) jp`: the SAME number on both sides).

When the tree evaluator answers at that fuel, `findPositions_complete` gives the byte-level
frontier at the same fuel, and the writers (`buildValues_rep`, `buildArrayOf_rep`) produce the
canonical bytes.  When it does not answer, the fuel-adequacy hypothesis of `PathOK` asks that the
byte-level evaluator returns `Err` (path without denotation): then both sides refuse.
No Mathlib.
-/
import JsonbModel.Proofs.ChainGood

namespace Jsonb
open JV Sel

/-- side conditions of a JSONPath step on the current document `v`:
* the path is one the parser can build (`suppPaths`; this implies `okPaths`) and does not start
  with `@`;
* **fuel adequacy**: at the fuel the chain uses, either the tree evaluator already answers, or
  the byte-level evaluator answers `Err` (the path has no denotation on this document).  What is
  excluded is only "the chain's fuel is too small for this path on this document". -/
def PathOK (v : JV) (jp : JsonPath) : Prop :=
  suppPaths jp = true ∧ jp.head? ≠ some .current ∧
  ((Spec.evalPaths (Spec.chainSelFuel v jp) v none jp).isSome = true ∨
    ∃ e, Sel.findPositions (Spec.chainSelFuel v jp) (encodeSpec v) none jp = .err e)

theorem encodeSpec_isEmpty (w : JV) : (encodeSpec w).isEmpty = false := by
  have := encodeSpec_length_ge w
  cases h : encodeSpec w with
  | nil => rw [h] at this; simp at this
  | cons a l => rfl

theorem rep_goodTop {root : Bytes} {pos : Pos} {w : JV} (h : Sel.Rep root pos w) : goodTop w = true := by
  cases pos with
  | scalar ty off len => exact good_goodTop w h.2.1
  | container off len => exact h.2.1

theorem boolDoc (b : Bool) :
    u32be C.SCALAR_CONTAINER_TAG ++ u32be (if b then C.FALSE_TAG else C.TRUE_TAG)
      = encodeSpec (.bool (!b)) := by
  cases b <;> simp [encodeSpec, entry]

/-- the spec step of both JSONPath operations when the tree evaluator has no answer -/
theorem chainStep_sel_none (v : JV) (jp : JsonPath)
    (h : Spec.evalPaths (Spec.chainSelFuel v jp) v none jp = none) :
    Spec.chainStep v (.selFirst jp) = none ∧ Spec.chainStep v (.selArr jp) = none := by
  simp only [Spec.chainStep, h, and_self]

theorem select_err (jp : JsonPath) (m : Mode) (root : Bytes) (fuel : Nat) (e : String)
    (h : findPositions fuel root none jp = .err e) :
    Fn.selDoc (select jp m root [] [] fuel) = .ok none := by
  simp only [select, h, Fn.selDoc]

/-- **get_by_path_first** inside a chain -/
theorem selFirst_refines (v : JV) (hg : goodTop v = true) (jp : JsonPath) (hp : PathOK v jp) :
    Fn.chainStep (encodeSpec v) (.selFirst jp)
      = .ok ((Spec.chainStep v (.selFirst jp)).map encodeSpec) := by
  obtain ⟨hs, hhead, hfuel⟩ := hp
  have hF : Sel.selFuel (encodeSpec v) jp = Spec.chainSelFuel v jp := rfl
  simp only [Fn.chainStep, hF]
  cases hE : Spec.evalPaths (Spec.chainSelFuel v jp) v none jp with
  | none =>
    rw [(chainStep_sel_none v jp hE).1]
    rcases hfuel with h | ⟨e, he⟩
    · rw [hE] at h; simp at h
    · exact select_err jp .first _ _ e he
  | some items =>
    obtain ⟨ps, hf, hrep⟩ := findPositions_complete v hg jp hs hhead _ items hE
    simp only [Spec.chainStep, hE, select, hf]
    by_cases hpr : isPredicate jp = true
    · simp only [hpr, if_true, List.nil_append, RepL_isEmpty hrep, boolDoc, Fn.selDoc,
        encodeSpec_isEmpty, Bool.false_eq_true, if_false, Option.map_some]
    · have hnp : isPredicate jp = false := by simpa using hpr
      simp only [hnp, Bool.false_eq_true, if_false]
      have h1' : Sel.RepL (encodeSpec v) (ps.take 1) (items.take 1) := by
        cases ps <;> cases items <;> first | exact hrep.elim | trivial | exact ⟨hrep.1, trivial⟩
      rw [buildValues_rep _ _ _ h1']
      cases items with
      | nil => simp [Fn.selDoc]
      | cons w ws =>
        simp only [List.take_succ_cons, List.take_zero, List.flatMap_cons, List.flatMap_nil,
          List.append_nil, List.nil_append, Fn.selDoc, encodeSpec_isEmpty, Bool.false_eq_true, if_false,
          List.head?_cons, Option.map_some]

/-- **get_by_path_array** inside a chain; for a non-predicate path the array of the selected
items must stay inside the field widths (`goodTop (arr items)`: fewer than 2^29 items, each below
2^28 bytes) -/
theorem selArr_refines (v : JV) (hg : goodTop v = true) (jp : JsonPath) (hp : PathOK v jp)
    (hres : isPredicate jp = false → ∀ items,
      Spec.evalPaths (Spec.chainSelFuel v jp) v none jp = some items → goodTop (arr items) = true) :
    Fn.chainStep (encodeSpec v) (.selArr jp)
      = .ok ((Spec.chainStep v (.selArr jp)).map encodeSpec) := by
  obtain ⟨hs, hhead, hfuel⟩ := hp
  have hF : Sel.selFuel (encodeSpec v) jp = Spec.chainSelFuel v jp := rfl
  simp only [Fn.chainStep, hF]
  cases hE : Spec.evalPaths (Spec.chainSelFuel v jp) v none jp with
  | none =>
    rw [(chainStep_sel_none v jp hE).2]
    rcases hfuel with h | ⟨e, he⟩
    · rw [hE] at h; simp at h
    · exact select_err jp .array _ _ e he
  | some items =>
    obtain ⟨ps, hf, hrep⟩ := findPositions_complete v hg jp hs hhead _ items hE
    simp only [Spec.chainStep, hE, select, hf]
    by_cases hpr : isPredicate jp = true
    · simp only [hpr, if_true, List.nil_append, RepL_isEmpty hrep, boolDoc, Fn.selDoc,
        encodeSpec_isEmpty, Bool.false_eq_true, if_false, Option.map_some]
    · have hnp : isPredicate jp = false := by simpa using hpr
      simp only [hnp, Bool.false_eq_true, if_false]
      have hga := goodTop_arr_parts (hres hnp items hE)
      rw [buildArrayOf_rep _ ps items hrep hga.2 hga.1]
      simp only [List.nil_append, Fn.selDoc, encodeSpec_isEmpty, Bool.false_eq_true, if_false,
        Option.map_some]

/-- the document handed back by `get_by_path_first` is canonical -/
theorem selFirst_good (v : JV) (hg : goodTop v = true) (jp : JsonPath) (hp : PathOK v jp) (r : JV)
    (h : Spec.chainStep v (.selFirst jp) = some r) : goodTop r = true := by
  obtain ⟨hs, hhead, _⟩ := hp
  simp only [Spec.chainStep] at h
  cases hE : Spec.evalPaths (Spec.chainSelFuel v jp) v none jp with
  | none => rw [hE] at h; simp at h
  | some items =>
    rw [hE] at h
    simp only [] at h
    by_cases hpr : isPredicate jp = true
    · simp only [hpr, if_true, Option.some.injEq] at h; subst h; rfl
    · have hnp : isPredicate jp = false := by simpa using hpr
      simp only [hnp, Bool.false_eq_true, if_false] at h
      obtain ⟨ps, _, hrep⟩ := findPositions_complete v hg jp hs hhead _ items hE
      cases items with
      | nil => simp at h
      | cons w ws =>
        simp only [List.head?_cons, Option.some.injEq] at h; subst h
        cases ps with
        | nil => exact hrep.elim
        | cons p ps => exact rep_goodTop hrep.1

theorem selArr_good (v : JV) (jp : JsonPath)
    (hres : isPredicate jp = false → ∀ items,
      Spec.evalPaths (Spec.chainSelFuel v jp) v none jp = some items → goodTop (arr items) = true)
    (r : JV) (h : Spec.chainStep v (.selArr jp) = some r) : goodTop r = true := by
  simp only [Spec.chainStep] at h
  cases hE : Spec.evalPaths (Spec.chainSelFuel v jp) v none jp with
  | none => rw [hE] at h; simp at h
  | some items =>
    rw [hE] at h
    simp only [] at h
    by_cases hpr : isPredicate jp = true
    · simp only [hpr, if_true, Option.some.injEq] at h; subst h; rfl
    · have hnp : isPredicate jp = false := by simpa using hpr
      simp only [hnp, Bool.false_eq_true, if_false, Option.some.injEq] at h; subst h
      exact hres hnp items hE

/-- the size hypothesis of `get_by_path_array` from pure size bounds: a document below 2^28
bytes (every selected item is then below 2^28 bytes too) and fewer than 2^29 selected items -/
theorem selArr_hres_of_small (v : JV) (hg : goodTop v = true) (jp : JsonPath)
    (hs : suppPaths jp = true) (hhead : jp.head? ≠ some .current)
    (hsmall : (encodeSpec v).length < 268435456) (items : List JV)
    (hE : Spec.evalPaths (Spec.chainSelFuel v jp) v none jp = some items)
    (hn : items.length < 536870912) : goodTop (arr items) = true := by
  obtain ⟨ps, _, hrep⟩ := findPositions_complete v hg jp hs hhead _ items hE
  simp only [goodTop, Bool.and_eq_true, decide_eq_true_eq]
  exact ⟨hn, repL_goodL hsmall hrep⟩

end Jsonb
