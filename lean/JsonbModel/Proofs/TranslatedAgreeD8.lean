/-
Phase 4: `delete_jsonb_by_name`, `object_delete_jsonb`, `object_pick_jsonb` of functions.rs, translated
from source, against `Fn.deleteByName` / `Fn.objectFilter` (Functions/Edit.lean): loops that push the
items a predicate keeps.
-/
import JsonbModel.Proofs.TranslatedAgreeD7

set_option linter.unusedSimpArgs false
set_option linter.unusedVariables false

namespace Jsonb.TrAgree
open Jsonb.Rs

/-! ## pushing the items a predicate keeps -/

theorem fold_pushArr_filter (q : Tr.JEntry × Bytes → Bool) (p : JE × Bytes → Bool) (hpq : ∀ x, q (ofItem x) = p x) :
    ∀ (items : List (JE × Bytes)) (acc : List BEntry),
    (items.map ofItem).foldl (fun s x => if q x then pushArr x s else s) ⟨ofBEs acc⟩ =
      ⟨ofBEs (acc ++ (items.filter p).map Fn.rawOf)⟩
  | [], acc => by simp
  | x :: xs, acc => by
    simp only [List.map_cons, List.foldl_cons, hpq, List.filter_cons]
    cases hp : p x
    · simp only [Bool.false_eq_true, if_false]
      exact fold_pushArr_filter q p hpq xs acc
    · simp only [if_true, List.map_cons]
      have := fold_pushArr_filter q p hpq xs (acc ++ [Fn.rawOf x])
      simp only [pushArr, ofBEs_append, ofBEs, ofBE_rawOf, List.append_assoc, List.cons_append, List.nil_append] at this ⊢
      exact this

theorem fold_pushObj_filter (q : Bytes × Tr.JEntry × Bytes → Bool) (p : Bytes × JE × Bytes → Bool)
    (hpq : ∀ x, q (ofMember x) = p x) :
    ∀ (ms : List (Bytes × JE × Bytes)) (acc : List (Bytes × BEntry)),
    (ms.map ofMember).foldl (fun s x => if q x then pushObj x s else s) ⟨ofBKVs acc⟩ =
      ⟨ofBKVs (Fn.pushAll acc ((ms.filter p).map Fn.memberRaw))⟩
  | [], acc => by simp [Fn.pushAll]
  | m :: ms, acc => by
    simp only [List.map_cons, List.foldl_cons, hpq, List.filter_cons]
    cases hp : p m
    · simp only [Bool.false_eq_true, if_false]
      exact fold_pushObj_filter q p hpq ms acc
    · simp only [if_true, List.map_cons]
      have := fold_pushObj_filter q p hpq ms (bInsert (Fn.memberRaw m).1 (Fn.memberRaw m).2 acc)
      simp only [pushObj, Fn.pushAll, List.foldl_cons] at this ⊢
      rw [← this, ← btreeInsert_bInsert, ofBE_memberRaw]
      rfl

theorem filter_sumLen (p : JE × Bytes → Bool) : ∀ (l : List (JE × Bytes)), sumLen (l.filter p) ≤ sumLen l
  | [] => by simp
  | x :: xs => by
    simp only [List.filter_cons]
    cases p x
    · simp only [Bool.false_eq_true, if_false, sumLen]; have := filter_sumLen p xs; omega
    · simp only [if_true, sumLen]; have := filter_sumLen p xs; omega

theorem filter_mKeySum (p : Bytes × JE × Bytes → Bool) : ∀ (l : List (Bytes × JE × Bytes)),
    mKeySum (l.filter p) ≤ mKeySum l ∧ mPaySum (l.filter p) ≤ mPaySum l
  | [] => by simp
  | x :: xs => by
    simp only [List.filter_cons]
    have := filter_mKeySum p xs
    cases p x
    · simp only [Bool.false_eq_true, if_false, mKeySum, mPaySum]; omega
    · simp only [if_true, mKeySum, mPaySum]; omega

/-- what an object editor needs to know about the members it read -/
theorem obj_members_bounds (value : Bytes) (header : Nat) (ks : List Nat) (jo vo : Nat) (ms : List (Bytes × JE × Bytes))
    (hfk : fillKeys value (hdrLen header) 4 (4 + hdrLen header * 8) = some (ks, jo, vo))
    (hl : iterObjLoop value ks (4 + hdrLen header * 8) jo vo = .ok ms) :
    ms.length ≤ hdrLen header ∧ (∀ m ∈ ms, JEFits m.2.1) ∧ mKeySum ms ≤ value.length ∧ mPaySum ms ≤ value.length := by
  obtain ⟨f1, f2, f3, f4⟩ := fillKeys_facts value _ _ _ _ _ _ hfk
  obtain ⟨b1, b2, b3⟩ := iterObjLoop_bounds value _ _ _ _ ms hl
  refine ⟨by omega, b2, ?_⟩
  by_cases he : ms = []
  · subst he; simp [mKeySum, mPaySum]
  · have := b3 he; omega

/-- the tail shared by the object editors: members kept by a predicate, pushed in order, built -/
theorem object_filter_build (value : Bytes) (header : Nat) (ms : List (Bytes × JE × Bytes)) (p : Bytes × JE × Bytes → Bool)
    (hms : ms.length ≤ hdrLen header ∧ (∀ m ∈ ms, JEFits m.2.1) ∧ mKeySum ms ≤ value.length ∧ mPaySum ms ≤ value.length)
    (buf : Bytes) (fuel : Nat) (hfuel : 1 < fuel)
    (hv : value.length < 1152921504606846976) (hb : buf.length < 1152921504606846976) :
    ∃ n : Int, Tr.ObjectBuilder.build_into fuel ⟨ofBKVs (Fn.pushAll [] ((ms.filter p).map Fn.memberRaw))⟩ buf =
        .ok (n, buf ++ bpay (.obj (Fn.pushAll [] ((ms.filter p).map Fn.memberRaw)))) ∧
      buildObjectInto buf (Fn.pushAll [] ((ms.filter p).map Fn.memberRaw)) =
        .ok (buf ++ bpay (.obj (Fn.pushAll [] ((ms.filter p).map Fn.memberRaw)))) := by
  have hL := hdrLen_lt header
  obtain ⟨h1, h2, h3, h4⟩ := hms
  obtain ⟨p1, p2, p3, p4⟩ := pushAll_bounds (ms.filter p) [] (fun m hm => h2 m ((List.mem_filter.1 hm).1)) (by simp [RawFitsK])
  simp only [keySum, paySum, List.length_nil] at p2 p3 p4
  have hfl : (ms.filter p).length ≤ ms.length := List.length_filter_le _ _
  obtain ⟨hk, hpy⟩ := filter_mKeySum p ms
  exact object_build_raw _ p1 buf fuel hfuel (by omega) (by rw [bkeyBytes_length]; omega)
    (by rw [bkeyBytes_length, bpaysK_length]; omega)

/-! ## delete_jsonb_by_name -/

def dbnKeepObj (name : Bytes) (x : Bytes × Tr.JEntry × Bytes) : Bool := !decide (x.1 = name)
def dbnKeepArr (name : Bytes) (x : Tr.JEntry × Bytes) : Bool :=
  !(decide (x.1.type_code = (C.STRING_TAG : Int)) && decide (x.2 = name))

theorem dbn_loop1_step (name : Bytes) (x : Bytes × Tr.JEntry × Bytes) (b : Tr.ObjectBuilder) :
    Tr.delete_jsonb_by_name.loop1 name x b =
      (Ctl.val (.next (if dbnKeepObj name x then pushObj x b else b)) : Ctl Bytes (Step Tr.ObjectBuilder)) := by
  obtain ⟨k, je, d⟩ := x
  unfold Tr.delete_jsonb_by_name.loop1 dbnKeepObj pushObj
  dsimp only
  by_cases h : k = name
  · simp only [h, ne_eq, not_true_eq_false, decide_true, decide_false, Bool.not_true, Bool.false_eq_true, if_false,
      Ctl.pure_eq', Ctl.val_bind', Rs.loopStep_val']
  · simp only [h, ne_eq, not_false_eq_true, decide_true, decide_false, Bool.not_false, if_true, object_push_raw_any,
      Ctl.ofRes_ok', Ctl.pure_eq', Ctl.val_bind', Rs.loopStep_val']

theorem dbn_loop2_step (name : Bytes) (x : Tr.JEntry × Bytes) (b : Tr.ArrayBuilder) :
    Tr.delete_jsonb_by_name.loop2 name x b =
      (Ctl.val (.next (if dbnKeepArr name x then pushArr x b else b)) : Ctl Bytes (Step Tr.ArrayBuilder)) := by
  obtain ⟨je, d⟩ := x
  unfold Tr.delete_jsonb_by_name.loop2 dbnKeepArr pushArr
  dsimp only
  by_cases ht : je.type_code = (C.STRING_TAG : Int)
  · by_cases hd : d = name
    · simp only [ht, hd, decide_true, if_true, Bool.and_self, Bool.not_true, Bool.false_eq_true, if_false, Ctl.pure_eq',
        Ctl.val_bind', Rs.loopStep_val']
    · simp only [ht, hd, decide_true, decide_false, if_true, Bool.and_false, Bool.not_false, array_push_raw_any,
        Ctl.ofRes_ok', Ctl.pure_eq', Ctl.val_bind', Rs.loopStep_val']
  · simp only [ht, decide_false, Bool.false_eq_true, if_false, Bool.false_and, Bool.not_false, if_true, array_push_raw_any,
      Ctl.ofRes_ok', Ctl.pure_eq', Ctl.val_bind', Rs.loopStep_val']

theorem dbnKeepObj_model (name : Bytes) (m : Bytes × JE × Bytes) : dbnKeepObj name (ofMember m) = (m.1 != name) := by
  unfold dbnKeepObj ofMember
  by_cases h : m.1 = name <;> simp [h]

theorem dbnKeepArr_model (name : Bytes) (x : JE × Bytes) :
    dbnKeepArr name (ofItem x) = !(x.1.ty == C.STRING_TAG && x.2 == name) := by
  unfold dbnKeepArr ofItem ofJE
  by_cases h1 : x.1.ty = C.STRING_TAG
  · have : ((x.1.ty : Nat) : Int) = (C.STRING_TAG : Int) := by rw [h1]
    by_cases h2 : x.2 = name <;> simp [h1, h2]
  · have : ¬ (((x.1.ty : Nat) : Int) = (C.STRING_TAG : Int)) := by omega
    simp [h1, this]

/-- **`delete_jsonb_by_name` = `Fn.deleteByName`** (modulo the text of the panic after a failed `fill_keys`) -/
theorem delete_jsonb_by_name_agrees (value name buf : Bytes) (fuel : Nat) (hfuel : 536870913 < fuel)
    (hv : value.length < 1152921504606846976) (hb : buf.length < 1152921504606846976) :
    panicAny (Tr.delete_jsonb_by_name fuel value name buf) = panicAny (Fn.deleteByName value name buf) := by
  unfold Tr.delete_jsonb_by_name Fn.deleteByName
  simp only [read_u32_zero]
  cases hr : readU32At value 0 with
  | none => simp only [Ctl.ofRes_err', Ctl.ret_bind', Ctl.run_ret']
  | some h =>
    have hL := hdrLen_lt h
    simp only [Ctl.ofRes_ok', Ctl.val_bind', hdrType_eq, hdrLen_cast]
    by_cases hO : hdrType h = C.OBJECT_CONTAINER_TAG
    · simp only [eq_true hO, decide_true, if_true, object_builder_new_agrees, Ctl.ofRes_ok', Ctl.val_bind',
        iterate_object_entries_agrees]
      rw [forIter_object value h fuel (by omega) (fun x s => if dbnKeepObj name x then pushObj x s else s) _
        (dbn_loop1_step name)]
      unfold iterObjEntries
      dsimp only
      cases hfk : fillKeys value (hdrLen h) 4 (4 + hdrLen h * 8) with
      | none => simp only [Ctl.ret_bind', Ctl.run_ret']; rfl
      | some q =>
        obtain ⟨ks, jo, vo⟩ := q
        simp only []
        cases hl : iterObjLoop value ks (4 + hdrLen h * 8) jo vo with
        | ok ms =>
          have hfold := fold_pushObj_filter (dbnKeepObj name) (fun m => m.1 != name) (dbnKeepObj_model name) ms []
          simp only [Ctl.val_bind', hfold]
          obtain ⟨n, hT, hM⟩ := object_filter_build value h ms (fun m => m.1 != name)
            (obj_members_bounds value h ks jo vo ms hfk hl) buf fuel (by omega) hv hb
          rw [hT, hM]
          simp only [Ctl.ofRes_ok', Ctl.val_bind', Ctl.pure_eq', Ctl.run_ret']
        | err e => exact absurd hl (iterObjLoop_ne_err _ _ _ _ _ _)
        | panic p => simp only [Ctl.ret_bind', Ctl.run_ret']
        | fuel => exact absurd hl (iterObjLoop_ne_fuel _ _ _ _ _)
    · simp only [eq_false hO, decide_false, Bool.false_eq_true, if_false]
      by_cases hA : hdrType h = C.ARRAY_CONTAINER_TAG
      · simp only [eq_true hA, decide_true, if_true, array_builder_new_agrees (hdrLen h) (by omega), Ctl.ofRes_ok',
          Ctl.val_bind', iterate_array_agrees]
        rw [forIter_array value h fuel (by omega) (fun x s => if dbnKeepArr name x then pushArr x s else s) _
          (dbn_loop2_step name)]
        cases hit : iterArray value h with
        | ok items =>
          have hfold := fold_pushArr_filter (dbnKeepArr name) (fun it => !(it.1.ty == C.STRING_TAG && it.2 == name))
            (dbnKeepArr_model name) items []
          simp only [Ctl.val_bind', hfold, List.nil_append]
          obtain ⟨hb1, hb2, hb3⟩ := iterArray_bounds value h items hit
          have hraw : RawFits ((items.filter (fun it => !(it.1.ty == C.STRING_TAG && it.2 == name))).map Fn.rawOf) :=
            rawFits_map_rawOf _ (fun x hx => hb2 x ((List.mem_filter.1 hx).1))
          have hlen : (items.filter (fun it => !(it.1.ty == C.STRING_TAG && it.2 == name))).length ≤ items.length :=
            List.length_filter_le _ _
          have hsum := filter_sumLen (fun it => !(it.1.ty == C.STRING_TAG && it.2 == name)) items
          obtain ⟨n, hT, hM⟩ := array_build_raw _ hraw buf fuel (by omega) (by simp only [List.length_map]; omega)
            (by rw [bpaysL_map_rawOf]; simp only [List.length_map]; omega)
          rw [hT, hM]
          simp only [Ctl.ofRes_ok', Ctl.val_bind', Ctl.pure_eq', Ctl.run_ret']
        | err e => exact absurd hit (iterArray_ne_err _ _ _)
        | panic p => simp only [Ctl.ret_bind', Ctl.run_ret']
        | fuel => exact absurd hit (iterArray_ne_fuel _ _)
      · simp only [eq_false hA, decide_false, Bool.false_eq_true, if_false, Ctl.ret_bind', Ctl.run_ret']

end Jsonb.TrAgree
