/-
Agreement theorems, phase 6d, part 9 (NOT imported by the root `TranslatedAgreeJ`): the representation maps of the
payload types that phase 6d defines for itself are those of phases 1 / 5a.
-/
import JsonbModel.Proofs.TranslatedAgreeJ4
import JsonbModel.Proofs.TranslatedAgreeE7

namespace Jsonb.TrAgree

theorem ofKeyPath_eq : ofKeyPath = ofKP := by funext k; cases k <;> rfl
theorem ofIdx_eq : ofIdx = ofIndex := by funext i; cases i <;> rfl
theorem ofNumber_eq : ofNumber = ofNum := by funext n; cases n <;> rfl

end Jsonb.TrAgree
