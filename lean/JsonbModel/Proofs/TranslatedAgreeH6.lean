/-
Agreement theorems, phase 6b, part 6: `Parser::parse_json_string` (parser.rs; the two-pass scanner) EQUALS the
model's `JP.parseJsonString` for every buffer and cursor.  The first pass (`loop` on
`Rs.whileFuel (buf.len() + 1)`) is the model's `scanString`: every iteration moves the cursor forward, so the bound
is not exhausted; the second pass is `parse_string` (TranslatedAgreeH5.lean) on data the first pass has shaped
(`EscWF`), where neither a panic nor the `io::Error` can occur — the agreement is a plain equality.
-/
import JsonbModel.Proofs.TranslatedAgreeH5
import JsonbModel.Proofs.JsonParserString
import JsonbModel.Proofs.JsonParserTotal

set_option linter.unusedSimpArgs false
set_option linter.unusedVariables false

namespace Jsonb.TrAgree
open Jsonb.Rs

/-! ## the first pass -/

theorem tp_next_lt {buf : Bytes} {idx : Nat} (h : idx < buf.length) : JP.next buf idx = .ok buf[idx] := by
  unfold JP.next; rw [tp_get_of_lt h]
theorem tp_next_ge {buf : Bytes} {idx : Nat} (h : ¬ idx < buf.length) : JP.next buf idx = .err "InvalidEOF" := by
  unfold JP.next; rw [List.getElem?_eq_none (Nat.le_of_not_lt h)]

/-- one iteration of the `loop` of `parse_json_string` -/
theorem ss_loop1_step (buf : Bytes) (idx esc : Nat) (hb : buf.length < 9223372036854775808) (he : esc ≤ idx) :
    Tr.Parser.parse_json_string.loop1 (pz buf idx, (esc : Int)) =
      if h : idx < buf.length then
        (if buf[idx] == 0x5C then
          (match JP.next buf (idx + 1) with
           | .ok nc =>
             if nc == 0x75 then
               (match JP.next buf (idx + 2) with
                | .ok nc2 =>
                  if nc2 == 0x7B then Ctl.val (.next (pz buf (idx + 2 + (C.UNICODE_LEN + 2)), ((esc + 1 : Nat) : Int)))
                  else Ctl.val (.next (pz buf (idx + 2 + C.UNICODE_LEN), ((esc + 1 : Nat) : Int)))
                | .err e => Ctl.ret (.err e)
                | .panic s => Ctl.ret (.panic s)
                | .fuel => Ctl.ret .fuel)
             else Ctl.val (.next (pz buf (idx + 2), ((esc + 1 : Nat) : Int)))
           | .err e => Ctl.ret (.err e)
           | .panic s => Ctl.ret (.panic s)
           | .fuel => Ctl.ret .fuel)
         else if buf[idx] == 0x22 then Ctl.val (.done (pz buf (idx + 1), (esc : Int)))
         else Ctl.val (.next (pz buf (idx + 1), (esc : Int))))
      else Ctl.ret (.err "InvalidEOF") := by
  unfold Tr.Parser.parse_json_string.loop1
  simp only [parser_next_agrees]
  by_cases h : idx < buf.length
  · have hU : (C.UNICODE_LEN : Int) = 4 := rfl
    have hUn : C.UNICODE_LEN = 4 := rfl
    have a42 : Rs.add .usize (4 : Int) (2 : Int) = .ok (6 : Int) := rfl
    simp only [dif_pos h, tp_next_lt h, rm_ok, Ctl.ofRes_ok', Ctl.val_bind', tp_beq_lit _ 0x5C 92 rfl, tp_beq_lit _ 0x22 34 rfl,
      parser_step_agrees buf idx (by omega)]
    cases hc : (buf[idx] == 0x5C) with
    | true =>
      simp only [if_true, tp_add_usize esc 1 (esc + 1) (by omega) (by omega), Ctl.ofRes_ok', Ctl.val_bind', parser_next_agrees]
      by_cases h1 : idx + 1 < buf.length
      · simp only [tp_next_lt h1, rm_ok, Ctl.ofRes_ok', Ctl.val_bind', tp_beq_lit _ 0x75 117 rfl]
        cases hu : (buf[idx + 1] == 0x75) with
        | true =>
          simp only [if_true, parser_step_agrees buf (idx + 1) (by omega), Ctl.ofRes_ok', Ctl.val_bind', parser_next_agrees]
          have e2 : idx + 1 + 1 = idx + 2 := by omega
          rw [e2]
          by_cases h2 : idx + 2 < buf.length
          · simp only [tp_next_lt h2, rm_ok, Ctl.ofRes_ok', Ctl.val_bind', tp_beq_lit _ 0x7B 123 rfl, hU]
            cases hbr : (buf[idx + 2] == 0x7B) with
            | true =>
              simp only [if_true, a42, Ctl.ofRes_ok', Ctl.val_bind',
                parser_step_by_agrees buf (idx + 2) 6 (idx + 2 + (C.UNICODE_LEN + 2)) (by rw [hUn]; omega) (by rw [hUn]; omega),
                Ctl.ret_bind', Rs.loopStep_cont']
            | false =>
              simp only [Bool.false_eq_true, if_false, Ctl.ofRes_ok', Ctl.val_bind',
                parser_step_by_agrees buf (idx + 2) 4 (idx + 2 + C.UNICODE_LEN) (by rw [hUn]; omega) (by rw [hUn]; omega),
                Ctl.ret_bind', Rs.loopStep_cont']
          · simp only [tp_next_ge h2, rm_err, Ctl.ofRes_err', Ctl.ret_bind', Rs.loopStep_err']
        | false =>
          simp only [Bool.false_eq_true, if_false, parser_step_agrees buf (idx + 1) (by omega), Ctl.ofRes_ok', Ctl.val_bind',
            Ctl.ret_bind', Rs.loopStep_cont']
      · simp only [tp_next_ge h1, rm_err, Ctl.ofRes_err', Ctl.ret_bind', Rs.loopStep_err']
    | false =>
      simp only [Bool.false_eq_true, if_false]
      cases hq : (buf[idx] == 0x22) with
      | true => simp only [if_true, Ctl.ofRes_ok', Ctl.val_bind', Ctl.ret_bind', Rs.loopStep_brk']
      | false =>
        simp only [Bool.false_eq_true, if_false, Ctl.pure_eq', Ctl.val_bind', Ctl.ofRes_ok', Rs.loopStep_val',
          parser_step_agrees buf idx (by omega)]
  · simp only [dif_neg h, tp_next_ge h, rm_err, Ctl.ofRes_err', Ctl.ret_bind', Rs.loopStep_err']

/-- the first pass is the model's `scanString`; the bound `n` is not exhausted -/
theorem ss_run (buf : Bytes) (hb : buf.length < 9223372036854775808) :
    ∀ (m idx esc n : Nat), buf.length - idx = m → esc ≤ idx → buf.length - idx < n →
      Rs.whileFuel n (pz buf idx, (esc : Int)) Tr.Parser.parse_json_string.loop1 =
        (Ctl.ofRes ((JP.scanString buf idx esc).map (fun p => (pz buf p.1, (p.2 : Int)))) :
          Ctl (Tr.Value × Tr.Parser) (Tr.Parser × Int)) := by
  intro m
  induction m using Nat.strongRecOn with
  | _ m ih =>
    intro idx esc n hm he hn
    obtain ⟨n, rfl⟩ : ∃ k, n = k + 1 := ⟨n - 1, by omega⟩
    have hstep := ss_loop1_step buf idx esc hb he
    have hUn : C.UNICODE_LEN = 4 := rfl
    rw [JP.scanString]
    by_cases h : idx < buf.length
    · simp only [dif_pos h] at hstep ⊢
      cases hc : (buf[idx] == 0x5C) with
      | true =>
        rw [hc] at hstep
        simp only [if_true] at hstep ⊢
        cases h1 : JP.next buf (idx + 1) with
        | ok nc =>
          rw [h1] at hstep
          simp only at hstep ⊢
          cases hu : (nc == 0x75) with
          | true =>
            rw [hu] at hstep
            simp only [if_true] at hstep ⊢
            cases h2 : JP.next buf (idx + 2) with
            | ok nc2 =>
              rw [h2] at hstep
              simp only at hstep ⊢
              cases hbr : (nc2 == 0x7B) with
              | true =>
                rw [hbr] at hstep
                simp only [if_true] at hstep ⊢
                rw [Rs.whileFuel_next _ _ _ _ hstep]
                exact ih (buf.length - (idx + 2 + (C.UNICODE_LEN + 2))) (by rw [hUn]; omega) _ _ n rfl (by omega)
                  (by rw [hUn]; omega)
              | false =>
                rw [hbr] at hstep
                simp only [Bool.false_eq_true, if_false] at hstep ⊢
                rw [Rs.whileFuel_next _ _ _ _ hstep]
                exact ih (buf.length - (idx + 2 + C.UNICODE_LEN)) (by rw [hUn]; omega) _ _ n rfl (by omega)
                  (by rw [hUn]; omega)
            | err e => rw [h2] at hstep; simp only at hstep ⊢; rw [Rs.whileFuel_ret _ _ _ _ hstep]; rfl
            | panic s => rw [h2] at hstep; simp only at hstep ⊢; rw [Rs.whileFuel_ret _ _ _ _ hstep]; rfl
            | fuel => rw [h2] at hstep; simp only at hstep ⊢; rw [Rs.whileFuel_ret _ _ _ _ hstep]; rfl
          | false =>
            rw [hu] at hstep
            simp only [Bool.false_eq_true, if_false] at hstep ⊢
            rw [Rs.whileFuel_next _ _ _ _ hstep]
            exact ih (buf.length - (idx + 2)) (by omega) _ _ n rfl (by omega) (by omega)
        | err e => rw [h1] at hstep; simp only at hstep ⊢; rw [Rs.whileFuel_ret _ _ _ _ hstep]; rfl
        | panic s => rw [h1] at hstep; simp only at hstep ⊢; rw [Rs.whileFuel_ret _ _ _ _ hstep]; rfl
        | fuel => rw [h1] at hstep; simp only at hstep ⊢; rw [Rs.whileFuel_ret _ _ _ _ hstep]; rfl
      | false =>
        rw [hc] at hstep
        simp only [Bool.false_eq_true, if_false] at hstep ⊢
        cases hq : (buf[idx] == 0x22) with
        | true =>
          rw [hq] at hstep
          simp only [if_true] at hstep ⊢
          rw [Rs.whileFuel_done _ _ _ _ hstep]; rfl
        | false =>
          rw [hq] at hstep
          simp only [Bool.false_eq_true, if_false] at hstep ⊢
          rw [Rs.whileFuel_next _ _ _ _ hstep]
          exact ih (buf.length - (idx + 1)) (by omega) _ _ n rfl (by omega) (by omega)
    · simp only [dif_neg h] at hstep ⊢
      rw [Rs.whileFuel_ret _ _ _ _ hstep]; rfl

/-! ## the model never answers the `io` error on data the first pass has shaped -/

/-- not the error the model words differently from the crate -/
def NIO {α : Type} (r : Res α) : Prop := r ≠ .err "io: failed to fill whole buffer"

theorem NIO_ok {α : Type} (a : α) : NIO (Res.ok a) := by intro c; cases c
theorem NIO_panic {α : Type} (s : String) : NIO (Res.panic s : Res α) := by intro c; cases c
theorem NIO_fuel {α : Type} : NIO (Res.fuel : Res α) := by intro c; cases c
theorem NIO_err {α : Type} (e : String) (h : e ≠ "io: failed to fill whole buffer") : NIO (Res.err e : Res α) := by
  intro c; exact h (Res.err.inj c)
theorem NIO_bind {α β : Type} {x : Res α} {f : α → Res β} (hx : NIO x) (hf : ∀ a, x = .ok a → NIO (f a)) :
    NIO (x >>= f) := by
  cases x with
  | ok a => exact hf a rfl
  | err e => intro c; exact hx (by cases c; rfl)
  | panic s => exact NIO_panic s
  | fuel => exact NIO_fuel
theorem NIO_pure {α : Type} (a : α) : NIO (pure a : Res α) := NIO_ok a

theorem next_nio (buf : Bytes) (i : Nat) : NIO (JP.next buf i) := by
  unfold JP.next
  cases buf[i]? with
  | none => exact NIO_err _ (by decide)
  | some c => exact NIO_ok c

theorem mustIs_nio (buf : Bytes) (i : Nat) (c : UInt8) : NIO (JP.mustIs buf i c) := by
  unfold JP.mustIs
  cases buf[i]? with
  | none => exact NIO_err _ (by decide)
  | some v =>
    simp only
    split
    · exact NIO_ok _
    · exact NIO_err _ (by decide)

theorem scanString_nio (buf : Bytes) : ∀ (m i e : Nat), buf.length - i = m → NIO (JP.scanString buf i e) := by
  intro m
  induction m using Nat.strongRecOn with
  | _ m ih =>
    intro i e hm
    have hUn : C.UNICODE_LEN = 4 := rfl
    rw [JP.scanString]
    by_cases h : i < buf.length
    · simp only [dif_pos h]
      split
      · have := next_nio buf (i + 1)
        cases h1 : JP.next buf (i + 1) with
        | ok nc =>
          simp only
          split
          · have := next_nio buf (i + 2)
            cases h2 : JP.next buf (i + 2) with
            | ok nc2 =>
              simp only
              split
              · exact ih _ (by rw [hUn]; omega) _ _ rfl
              · exact ih _ (by rw [hUn]; omega) _ _ rfl
            | err e => rw [h2] at this; simp only; exact fun c => this (by cases c; rfl)
            | panic s => exact NIO_panic s
            | fuel => exact NIO_fuel
          · exact ih _ (by omega) _ _ rfl
        | err e => rw [h1] at this; simp only; exact fun c => this (by cases c; rfl)
        | panic s => exact NIO_panic s
        | fuel => exact NIO_fuel
      · split
        · exact NIO_ok _
        · exact ih _ (by omega) _ _ rfl
    · simp only [dif_neg h]
      exact NIO_err _ (by decide)

theorem decodeHexEscape_nio (bs : Bytes) (n : Nat) : NIO (JP.decodeHexEscape bs n) := decodeHexEscape_ne_io bs n

theorem charFromU32_nio (site : String) (n : Nat) : NIO (JP.charFromU32 site n) := by
  unfold JP.charFromU32; split
  · exact NIO_ok _
  · exact NIO_panic _

theorem subUsize_nio (site : String) (a b : Nat) : NIO (JP.subUsize site a b) := by
  unfold JP.subUsize; split
  · exact NIO_panic _
  · exact NIO_ok _

theorem pairCombine_nio (n1 n2 : Nat) : NIO (JP.pairCombine n1 n2) := by
  unfold JP.pairCombine
  refine NIO_bind (subUsize_nio _ _ _) (fun a _ => NIO_bind (subUsize_nio _ _ _) (fun b _ => ?_))
  simp only
  split
  · exact NIO_panic _
  · exact charFromU32_nio _ _

/-- the part of `pairLow` after the second escape has been read -/
theorem pairTail_nio (numbers lower d : Bytes) (hex : Nat) :
    NIO (do
      let n2 ← JP.decodeHexEscape lower 0
      if !(0xDC00 ≤ n2 ∧ n2 ≤ 0xDFFF) then
        pure (d, JP.encodeInvalidUnicode numbers ++ JP.encodeInvalidUnicode lower)
      else do
        let c ← JP.pairCombine hex n2
        pure (d, encodeUtf8 c) : Res (Bytes × Bytes)) := by
  refine NIO_bind (decodeHexEscape_nio _ _) (fun n2 _ => ?_)
  split
  · exact NIO_pure _
  · exact NIO_bind (pairCombine_nio _ _) (fun c _ => NIO_pure _)

theorem pairLow_nio (numbers : Bytes) (hex : Nat) (data : Bytes) (hd : JP.EscWF (0x5C :: 0x75 :: data)) :
    NIO (JP.pairLow numbers hex data) := by
  unfold JP.pairLow
  cases hd with
  | plain c d hc _ => exact absurd rfl hc
  | esc c d hc _ => exact absurd rfl hc
  | escU x a b c d hx hw =>
    rw [JP.readHex4_plain _ _ _ _ _ _ hx]
    simp only [rb_ok]
    exact pairTail_nio _ _ _ _
  | escUB a b c e f d hw =>
    rw [JP.readHex4_brace]
    split
    · exact NIO_err _ (by decide)
    · simp only [rb_ok]
      exact pairTail_nio _ _ _ _

theorem afterHex_nio (numbers data : Bytes) (hd : JP.EscWF data) : NIO (JP.afterHex numbers data) := by
  unfold JP.afterHex
  refine NIO_bind (decodeHexEscape_nio _ _) (fun hex _ => ?_)
  split
  · exact NIO_pure _
  · split
    · split
      · exact NIO_pure _
      · rename_i hlen
        match data, hd, hlen with
        | d0 :: d1 :: rest, hd, _ =>
          simp only [JP.data0, rb_ok]
          by_cases h0 : d0 = 0x5C
          · subst h0
            simp only [beq_self_eq_true, if_true, JP.bufIndex, List.getElem?_cons_succ, List.getElem?_cons_zero, rb_ok, rb_pure]
            by_cases h1 : d1 = 0x75
            · subst h1
              simp only [beq_self_eq_true, Bool.not_true, Bool.false_eq_true, if_false, JP.dataFrom, List.length_cons,
                List.drop_succ_cons, List.drop_zero]
              have h2 : 2 ≤ rest.length + 1 + 1 := by omega
              simp only [if_pos h2, rb_ok]
              exact pairLow_nio numbers hex rest hd
            · have : (d1 == 0x75) = false := by simpa using h1
              simp only [this, Bool.not_false, if_true]
              exact NIO_pure _
          · have : (d0 == 0x5C) = false := by simpa using h0
            simp only [this, Bool.false_eq_true, if_false, rb_pure, rb_ok, Bool.not_false, if_true]
            exact NIO_pure _
        | [_], _, hlen => simp at hlen
        | [], _, hlen => simp at hlen
    · exact NIO_bind (charFromU32_nio _ _) (fun c _ => NIO_pure _)

theorem parseEscaped_nio (rest : Bytes) (h : JP.EscWF (0x5C :: rest)) : NIO (JP.parseEscaped rest) := by
  unfold JP.parseEscaped
  cases h with
  | plain c d hc _ => exact absurd rfl hc
  | esc c d hc hw =>
    simp only [JP.data0, JP.dataFrom, rb_ok, List.length_cons, List.drop_succ_cons, List.drop_zero]
    have h1 : 1 ≤ d.length + 1 := by omega
    simp only [if_pos h1, rb_ok]
    have hcu : (c == 0x75) = false := by simpa using hc
    simp only [hcu]
    repeat' split
    all_goals first
      | exact NIO_pure _
      | exact NIO_err _ (by decide)
      | contradiction
  | escU x a b c d hx hw =>
    simp only [JP.data0, JP.dataFrom, rb_ok, List.length_cons, List.drop_succ_cons, List.drop_zero]
    have h1 : 1 ≤ d.length + 1 + 1 + 1 + 1 + 1 := by omega
    simp only [if_pos h1, rb_ok]
    rw [JP.readHex4_plain _ _ _ _ _ _ hx]
    simp only [rb_ok, JP.u_beq_1, JP.u_beq_2, JP.u_beq_3, JP.u_beq_4, JP.u_beq_5, JP.u_beq_6, JP.u_beq_7, JP.u_beq_8,
      beq_self_eq_true, Bool.false_eq_true, if_false, if_true]
    exact afterHex_nio _ _ hw
  | escUB a b c e f d hw =>
    simp only [JP.data0, JP.dataFrom, rb_ok, List.length_cons, List.drop_succ_cons, List.drop_zero]
    have h1 : 1 ≤ d.length + 1 + 1 + 1 + 1 + 1 + 1 + 1 := by omega
    simp only [if_pos h1, rb_ok]
    rw [JP.readHex4_brace]
    simp only [JP.u_beq_1, JP.u_beq_2, JP.u_beq_3, JP.u_beq_4, JP.u_beq_5, JP.u_beq_6, JP.u_beq_7, JP.u_beq_8,
      beq_self_eq_true, Bool.false_eq_true, if_false, if_true]
    split
    · exact NIO_err _ (by decide)
    · simp only [rb_ok]
      exact afterHex_nio _ _ hw

theorem parseStringLoop_nio : ∀ (fuel : Nat) (d acc : Bytes), JP.EscWF d → NIO (JP.parseStringLoop fuel d acc) := by
  intro fuel
  induction fuel with
  | zero => intro d acc _; exact NIO_fuel
  | succ fuel ih =>
    intro d acc hw
    unfold JP.parseStringLoop
    match d, hw with
    | [], _ => simp only [List.isEmpty_nil, if_true]; exact NIO_ok _
    | c :: rest, hw =>
      simp only [List.isEmpty_cons, Bool.false_eq_true, if_false, JP.data0, rb_ok, JP.dataFrom, List.length_cons,
        List.drop_succ_cons, List.drop_zero]
      have h1 : 1 ≤ rest.length + 1 := by omega
      simp only [if_pos h1, rb_ok]
      by_cases hc : c = 0x5C
      · subst hc
        simp only [beq_self_eq_true, if_true]
        refine NIO_bind (parseEscaped_nio rest hw) ?_
        intro p hp
        obtain ⟨d', out⟩ := p
        exact ih d' (acc ++ out) ((JP.parseEscaped_spec rest hw).2 d' out hp).1
      · have hcb : (c == 0x5C) = false := by simpa using hc
        simp only [hcb, Bool.false_eq_true, if_false]
        exact ih rest (acc ++ [c]) (JP.EscWF_tail_of_ne hw hc)

theorem parseString_nio (d : Bytes) (hw : JP.EscWF d) : NIO (JP.parseString d) := by
  unfold JP.parseString
  refine NIO_bind (parseStringLoop_nio _ d [] hw) (fun out _ => ?_)
  split
  · exact NIO_pure _
  · exact NIO_err _ (by decide)

/-! ## parse_json_string -/

theorem sim_sub_usize (site : String) (a b : Nat) (kb : Int) (hk : kb = (b : Int)) (ha : a < 18446744073709551616) :
    RSim (Rs.sub .usize (a : Int) kb) (JP.subUsize site a b) (fun r => (r : Int)) := by
  subst hk
  unfold JP.subUsize
  by_cases h : a < b
  · rw [if_pos h]
    have : Rs.sub .usize (a : Int) (b : Int) = .panic "attempt to subtract with overflow" :=
      Rs.checked_panic _ _ _ (by rw [Rs.inRange_iff]; simp; omega)
    rw [this]; exact ⟨_, rfl⟩
  · rw [if_neg h]
    exact (tp_sub_usize a b (a - b) (by omega) (by omega) : Rs.sub .usize (a : Int) (b : Int) = .ok ((a - b : Nat) : Int))

theorem subUsize_ok {site : String} {a b r : Nat} (h : JP.subUsize site a b = .ok r) : r = a - b ∧ b ≤ a := by
  unfold JP.subUsize at h
  by_cases hlt : a < b
  · rw [if_pos hlt] at h; cases h
  · rw [if_neg hlt] at h; cases h; exact ⟨rfl, by omega⟩

theorem sim_slice (site : String) (buf : Bytes) (a b : Nat) :
    RSim (Rs.slice buf (a : Int) (b : Int)) (JP.slice site buf a b) id := by
  rw [Rs.slice_nat]
  unfold JP.slice
  by_cases h1 : a > b
  · rw [if_pos h1, if_neg (by omega)]; exact ⟨_, rfl⟩
  · rw [if_neg h1]
    by_cases h2 : b > buf.length
    · rw [if_pos h2, if_neg (by omega)]; exact ⟨_, rfl⟩
    · rw [if_neg h2, if_pos (by omega)]
      show Res.ok _ = Res.ok _
      rw [List.drop_take]; rfl

theorem slice_ok {site : String} {buf d : Bytes} {a b : Nat} (h : JP.slice site buf a b = .ok d) :
    d = (buf.take b).drop a ∧ a ≤ b ∧ b ≤ buf.length := by
  unfold JP.slice at h
  by_cases h1 : a > b
  · rw [if_pos h1] at h; cases h
  · rw [if_neg h1] at h
    by_cases h2 : b > buf.length
    · rw [if_pos h2] at h; cases h
    · rw [if_neg h2] at h; cases h; exact ⟨rfl, by omega, by omega⟩

theorem mustIs_ok {buf : Bytes} {i j : Nat} {c : UInt8} (h : JP.mustIs buf i c = .ok j) : j = i + 1 ∧ i < buf.length :=
  (JP.mustIs_Spec buf i c).2 j h

/-- the model's `(value, cursor)` seen from the translation -/
def ofVP (buf : Bytes) (p : JV × Nat) : Tr.Value × Tr.Parser := (ofJV p.1, pz buf p.2)

theorem tp_gt_zero (n : Nat) : decide ((n : Int) > ((0 : Nat) : Int)) = decide (n > 0) := by
  by_cases h : n > 0
  · have : (n : Int) > 0 := by omega
    simp [h, this]
  · have : ¬ (n : Int) > 0 := by omega
    simp [h, this]

/-- `Parser::parse_json_string` against the model for every buffer and cursor, modulo the texts -/
theorem parse_json_string_sim (buf : Bytes) (idx : Nat) (hb : buf.length < 9223372036854775808) :
    RSim (Tr.Parser.parse_json_string (pz buf idx)) (JP.parseJsonString buf idx) (ofVP buf) := by
  unfold Tr.Parser.parse_json_string JP.parseJsonString
  show FSim _ _ _
  have h34 : ((34 : Int)) = (((0x22 : UInt8).toNat : Nat) : Int) := rfl
  rw [h34]
  refine FSim_bind (CSim_ofRes (RSim_of_eq (parser_must_is_agrees buf idx 0x22 (by omega)) (mustIs_nio _ _ _))) ?_
  intro st hst
  obtain ⟨rfl, hlt⟩ := mustIs_ok hst
  have h0 : ((0 : Int)) = ((0 : Nat) : Int) := rfl
  simp only [pz_buf, pz_idx, tp_len, Int.toNat_natCast, h0]
  rw [ss_run buf hb _ (idx + 1) 0 (buf.length + 1) rfl (by omega) (by omega)]
  refine FSim_bind (CSim_ofRes (RSim_of_eq rfl (scanString_nio buf _ _ _ rfl))) ?_
  intro p hp
  obtain ⟨j, esc⟩ := p
  obtain ⟨dd, hdd, hj, hwf, -, hesc⟩ := (JP.scanString_spec buf (idx + 1) 0).2 j esc hp
  have hjl : j ≤ buf.length := by
    have := JP.lt_of_drop_eq hdd
    omega
  simp only [pz_buf, pz_idx]
  refine FSim_bind (CSim_ofRes (sim_sub_usize _ j 1 1 rfl (by omega))) ?_
  intro e he
  obtain ⟨rfl, he1⟩ := subUsize_ok he
  refine FSim_bind (CSim_ofRes (sim_slice _ buf (idx + 1) (j - 1))) ?_
  intro data hdata
  obtain ⟨hde, hd1, hd2⟩ := slice_ok hdata
  have hdl : data.length = j - 1 - (idx + 1) := by
    rw [hde, List.length_drop, List.length_take]; omega
  simp only [id, tp_gt_zero]
  by_cases hes : esc > 0
  · simp only [hes, decide_true, if_true, if_pos hes, Ctl.bind_assoc',
      tp_sub_usize j 1 (j - 1) (by omega) (by omega), Ctl.ofRes_ok', Ctl.val_bind']
    refine FSim_bind (CSim_ofRes (sim_sub_usize _ (j - 1) (idx + 1) _ rfl (by omega))) ?_
    intro l1 hl1
    obtain ⟨rfl, -⟩ := subUsize_ok hl1
    refine FSim_bind (CSim_ofRes (sim_sub_usize _ (j - 1 - (idx + 1)) esc _ rfl (by omega))) ?_
    intro l2 hl2
    obtain ⟨rfl, -⟩ := subUsize_ok hl2
    simp only [tp_add_usize (idx + 1) 1 (idx + 1 + 1) (by omega) (by omega), Ctl.ofRes_ok', Ctl.val_bind']
    refine FSim_bind (CSim_ofRes (parse_string_sim data _ (idx + 1 + 1) (by omega) (by omega))) ?_
    intro s hs
    simp only [Ctl.pure_eq', Ctl.val_bind', rb_pure]
    exact FSim_ret _ _ _ rfl
  · simp only [hes, decide_false, Bool.false_eq_true, if_false, if_neg hes, Rs.strFromUtf8]
    cases hv : validUtf8 data with
    | true =>
      simp only [if_true, Rs.mapErr, Ctl.ofRes_ok', Ctl.val_bind', Ctl.pure_eq', rb_pure]
      exact FSim_ret _ _ _ rfl
    | false =>
      simp only [Bool.false_eq_true, if_false, Rs.mapErr, Ctl.ofRes_err', Ctl.ret_bind']
      exact FSim_err _ _ _ rfl

/-- the model never answers the `io` error for a string: the second pass only sees data shaped by the first -/
theorem parseJsonString_nio (buf : Bytes) (idx : Nat) : NIO (JP.parseJsonString buf idx) := by
  unfold JP.parseJsonString
  refine NIO_bind (mustIs_nio _ _ _) ?_
  intro st hst
  refine NIO_bind (scanString_nio buf _ _ _ rfl) ?_
  intro p hp
  obtain ⟨j, esc⟩ := p
  obtain ⟨dd, hdd, hj, hwf, -, hesc⟩ := (JP.scanString_spec buf st 0).2 j esc hp
  simp only
  refine NIO_bind (subUsize_nio _ _ _) ?_
  intro e he
  obtain ⟨rfl, he1⟩ := subUsize_ok he
  refine NIO_bind ?_ ?_
  · unfold JP.slice; split
    · exact NIO_panic _
    · split
      · exact NIO_panic _
      · exact NIO_ok _
  intro data hdata
  obtain ⟨hde, hd1, hd2⟩ := slice_ok hdata
  have hdata' : data = dd := by
    rw [hde]
    have : j - 1 = st + dd.length := by omega
    rw [this]; exact JP.take_drop_of_drop_eq hdd
  subst hdata'
  split
  · refine NIO_bind (subUsize_nio _ _ _) (fun _ _ => NIO_bind (subUsize_nio _ _ _) (fun _ _ => ?_))
    exact NIO_bind (parseString_nio data hwf) (fun _ _ => NIO_pure _)
  · split
    · exact NIO_pure _
    · exact NIO_err _ (by decide)

/-- **`Parser::parse_json_string`** EQUALS the model's `JP.parseJsonString` for every buffer and cursor -/
theorem parser_parse_json_string_agrees (buf : Bytes) (idx : Nat) (hb : buf.length < 9223372036854775808) :
    Tr.Parser.parse_json_string (pz buf idx) = (JP.parseJsonString buf idx).map (ofVP buf) :=
  RSim_eq (parse_json_string_sim buf idx hb) (JP.parseJsonString_spec buf idx).1 (parseJsonString_nio buf idx)

end Jsonb.TrAgree
