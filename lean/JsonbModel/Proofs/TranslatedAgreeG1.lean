/-
Agreement theorems, phase 6a (the JSONPath selector), part 1: representation maps, the `nom` readers of
selector.rs (`decode_header`, `decode_jentry`, `decode_jentries`, `decode_string`) against the model's
`readU32At` / `Sel.headerAt` / `Sel.entriesAt`, and bounds on what they read.
-/
import JsonbModel.Generated.Translated6a
import JsonbModel.Proofs.TranslatedAgree
import JsonbModel.Proofs.TranslatedAgreeD
import JsonbModel.Selector

set_option linter.unusedSimpArgs false
set_option linter.unusedVariables false

namespace Jsonb.TrAgree
open Jsonb.Rs

/-! ## Representation maps -/

/-- `Sel.Pos` ↦ the translated `enum Position` (offsets and lengths as `usize` values) -/
def ofPos : Sel.Pos → Tr.Position
  | .container off len => .Container ((off : Int), (len : Int))
  | .scalar ty off len => .Scalar ((ty : Int), (off : Int), (len : Int))

/-- a decoded entry `(type, length)` as the pair of integers `decode_jentry` answers -/
def ofPairI (p : Nat × Nat) : Int × Int := ((p.1 : Int), (p.2 : Int))

/-- `jsonpath::ArrayIndex` -/
def ofAI : ArrayIndex → Tr.ArrayIndex
  | .index i => .Index (ofIndex i)
  | .slice s e => .Slice (ofIndex s, ofIndex e)

theorem ofPos_mkPos (ty off len : Nat) :
    ofPos (Sel.mkPos ty off len) =
      if ty = C.CONTAINER_TAG then Tr.Position.Container ((off : Int), (len : Int))
      else Tr.Position.Scalar ((ty : Int), (off : Int), (len : Int)) := by
  unfold Sel.mkPos; split <;> rfl

/-! ## panics modulo their text (the lemmas of phase 5b under phase-6a names) -/

theorem panicAny_ok_g {α : Type} (a : Res α) (x : α) (h : panicAny a = panicAny (.ok x)) : a = .ok x := by
  cases a <;> simp [panicAny] at h ⊢ <;> exact h
theorem panicAny_err_g {α : Type} (a : Res α) (e : String) (h : panicAny a = panicAny (.err e)) : a = .err e := by
  cases a <;> simp [panicAny] at h ⊢ <;> exact h
theorem panicAny_panic_g {α : Type} (s t : String) : panicAny (.panic s : Res α) = panicAny (.panic t) := rfl

theorem mapErr_ok_g {α : Type} (a : α) (e : String) : Rs.mapErr (.ok a) e = .ok a := Eq.trans rfl rfl
theorem mapErr_err_g {α : Type} (e0 e : String) : Rs.mapErr (.err e0 : Res α) e = .err e := Eq.trans rfl rfl
theorem mapErr_panic_g {α : Type} (s e : String) : Rs.mapErr (.panic s : Res α) e = .panic s := Eq.trans rfl rfl

/-! ## `be_u32`, `decode_header`, `decode_jentry` on the rest of a buffer -/

theorem fromBeBytes_u32_four_g (bs : Bytes) (h : bs.length = 4) : Rs.fromBeBytes .u32 bs = (ofBe bs : Int) := by
  have h4 : ofBe bs < 4294967296 := by
    have := ofBe_lt bs; rw [h] at this; simpa using this
  exact Rs.wrap_of_inRange _ _ (by rw [Rs.inRange_iff]; simp; omega)

theorem nomBeU32_drop (root : Bytes) (off : Nat) (h : off ≤ root.length) :
    Rs.nomBeU32 (root.drop off) =
      match readU32At root off with
      | some w => .ok (root.drop (off + 4), (w : Int))
      | none => .err "Eof" := by
  unfold Rs.nomBeU32 readU32At
  by_cases h4 : off + 4 ≤ root.length
  · have h1 : 4 ≤ (root.drop off).length := by simp; omega
    have h3 : ((root.drop off).take 4).length = 4 := by simp; omega
    rw [if_pos h1, if_pos h4, fromBeBytes_u32_four_g _ h3]
    simp [List.drop_drop, Nat.add_comm]
  · have h1 : ¬ 4 ≤ (root.drop off).length := by simp; omega
    rw [if_neg h1, if_neg h4]

theorem jeLen_cast_g (w : Nat) :
    Rs.cast .usize (Rs.bitand (w : Int) (C.JENTRY_OFF_LEN_MASK : Int)) = ((jeLen w : Nat) : Int) := by
  have hL := jeLen_lt w
  rw [Rs.bitand_natCast]; exact Rs.usize_nat _ (by unfold jeLen at hL; omega)

theorem decode_header_drop (root : Bytes) (off : Nat) (h : off ≤ root.length) :
    Tr.decode_header (root.drop off) =
      match readU32At root off with
      | some w => .ok (root.drop (off + 4), ((hdrType w : Nat) : Int), ((hdrLen w : Nat) : Int))
      | none => .err "Eof" := by
  unfold Tr.decode_header
  simp only [Ctl.run, Rs.nomMap, nomBeU32_drop root off h]
  cases readU32At root off with
  | none => rfl
  | some w => simp only [hdrLen_cast]; simp only [Rs.bitand_natCast]; rfl

theorem decode_jentry_drop (root : Bytes) (off : Nat) (h : off ≤ root.length) :
    Tr.decode_jentry (root.drop off) =
      match readU32At root off with
      | some w => .ok (root.drop (off + 4), ((jeType w : Nat) : Int), ((jeLen w : Nat) : Int))
      | none => .err "Eof" := by
  unfold Tr.decode_jentry
  simp only [Ctl.run, Rs.nomMap, nomBeU32_drop root off h]
  cases readU32At root off with
  | none => rfl
  | some w => simp only [jeLen_cast_g]; simp only [Rs.bitand_natCast]; rfl

theorem readU32At_some_le_g (root : Bytes) (off w : Nat) (h : readU32At root off = some w) : off + 4 ≤ root.length := by
  unfold readU32At at h; split at h <;> simp_all

/-- `decode_header(&root[off..])?` = the model's `headerAt` (for an offset inside the buffer) -/
theorem decode_header_at (root : Bytes) (off : Nat) (h : off ≤ root.length) :
    Rs.mapErr (Tr.decode_header (root.drop off)) "InvalidJsonb" =
      (Sel.headerAt root off).map (fun p => (root.drop (off + 4), ((p.1 : Nat) : Int), ((p.2 : Nat) : Int))) := by
  rw [decode_header_drop root off h]
  unfold Sel.headerAt
  have : ¬ off > root.length := by omega
  rw [if_neg this]
  cases readU32At root off <;> rfl

/-! ## `decode_jentries` -/

theorem decode_jentries_drop (root : Bytes) : ∀ (n off : Nat), off ≤ root.length →
    Rs.nomCountAux Tr.decode_jentry n (root.drop off) =
      match Sel.entriesAt root n off with
      | .ok es => .ok (root.drop (off + 4 * n), es.map ofPairI)
      | _ => .err "Eof" := by
  intro n
  induction n with
  | zero => intro off h; simp [Rs.nomCountAux, Sel.entriesAt]
  | succ n ih =>
    intro off h
    rw [Rs.nomCountAux, decode_jentry_drop root off h, Sel.entriesAt]
    cases hr : readU32At root off with
    | none => rfl
    | some w =>
      have h4 := readU32At_some_le_g root off w hr
      simp only [ih (off + 4) (by omega)]
      cases he : Sel.entriesAt root n (off + 4) with
      | ok es' =>
        simp only [Res.map, Res.bind, List.map_cons, Res.ok.injEq, Prod.mk.injEq]
        refine ⟨?_, rfl⟩
        congr 1; omega
      | err e => rfl
      | panic s => rfl
      | fuel => rfl

theorem entriesAt_cases_g (root : Bytes) : ∀ (n off : Nat),
    (∃ es, Sel.entriesAt root n off = .ok es) ∨ Sel.entriesAt root n off = .err "InvalidJsonb" := by
  intro n
  induction n with
  | zero => intro off; exact Or.inl ⟨[], rfl⟩
  | succ n ih =>
    intro off
    rw [Sel.entriesAt]
    cases readU32At root off with
    | none => exact Or.inr rfl
    | some w =>
      rcases ih (off + 4) with ⟨es, he⟩ | he
      · exact Or.inl ⟨(jeType w, jeLen w) :: es, by simp [he, Res.map, Res.bind]⟩
      · exact Or.inr (by simp [he, Res.map, Res.bind])

/-- `decode_jentries(rest, n)?` on the rest of the buffer = the model's `entriesAt` -/
theorem decode_jentries_at (root : Bytes) (n off : Nat) (h : off ≤ root.length) :
    Rs.mapErr (Tr.decode_jentries (root.drop off) (n : Int)) "InvalidJsonb" =
      (Sel.entriesAt root n off).map (fun es => (root.drop (off + 4 * n), es.map ofPairI)) := by
  unfold Tr.decode_jentries
  simp only [Ctl.run, Rs.nomCount, Int.toNat_natCast]
  rw [decode_jentries_drop root n off h]
  rcases entriesAt_cases_g root n off with ⟨es, he⟩ | he <;> rw [he] <;> rfl

/-- what `entriesAt` answers: `n` entries whose lengths are 28-bit values, read from inside the buffer; it never
panics and its only error is `InvalidJsonb` -/
theorem entriesAt_ok_g (root : Bytes) : ∀ (n off : Nat) (es : List (Nat × Nat)), Sel.entriesAt root n off = .ok es →
    es.length = n ∧ (n ≠ 0 → off + 4 * n ≤ root.length) ∧ Sel.sumLens es ≤ n * 268435455 := by
  intro n
  induction n with
  | zero =>
    intro off es h
    simp only [Sel.entriesAt, Res.ok.injEq] at h
    subst h; simp [Sel.sumLens]
  | succ n ih =>
    intro off es h
    rw [Sel.entriesAt] at h
    cases hr : readU32At root off with
    | none => simp [hr] at h
    | some w =>
      simp only [hr] at h
      have h4 := readU32At_some_le_g root off w hr
      cases he : Sel.entriesAt root n (off + 4) with
      | ok es' =>
        simp only [he, Res.map, Res.bind, Res.ok.injEq] at h
        subst h
        obtain ⟨h1, h2, h3⟩ := ih _ _ he
        have hl := jeLen_lt w
        refine ⟨by simp [h1], ?_, ?_⟩
        · intro _
          by_cases hn : n = 0
          · subst hn; omega
          · have := h2 hn; omega
        · simp only [Sel.sumLens, List.map_cons, List.sum_cons] at h3 ⊢; omega
      | err e => simp [he, Res.map, Res.bind] at h
      | panic s => simp [he, Res.map, Res.bind] at h
      | fuel => simp [he, Res.map, Res.bind] at h

/-- `decode_string(&root[off..], len)?` -/
theorem decode_string_at (root : Bytes) (off len : Nat) (h : off ≤ root.length) :
    Rs.mapErr (Tr.decode_string (root.drop off) (len : Int)) "InvalidJsonb" =
      if off + len ≤ root.length then .ok (root.drop (off + len), (root.drop off).take len)
      else .err "InvalidJsonb" := by
  unfold Tr.decode_string
  simp only [Ctl.run, Rs.nomTake, Int.toNat_natCast]
  by_cases hl : off + len ≤ root.length
  · have : len ≤ (root.drop off).length := by simp; omega
    rw [if_pos this, if_pos hl]; simp [Rs.mapErr, List.drop_drop, Nat.add_comm]
  · have : ¬ len ≤ (root.drop off).length := by simp; omega
    rw [if_neg this, if_neg hl]; rfl

end Jsonb.TrAgree
