/-
C17: the frame property of the Encoder model (`Value::write_to_vec`) for EVERY value, also outside
the field widths of the format (lengths ≥ 2^28, counts ≥ 2^29, ill-formed UTF-8, any number).
The encoder never reads the caller's bytes: it reserves entry words at the current end and patches
them by absolute index, and every length it stores is taken `% 2^32` of a quantity that does not
depend on the prior content.  So prefixing the buffer with `pre` shifts every index and every
bounds check by `pre.length` and nothing else: the result (value, or the same panic) is that of the
empty-buffer call with `pre` in front.
-/
import JsonbModel.Ser

namespace Jsonb
open JV

theorem setBytes_frame (pre : Bytes) (ws b : Bytes) (i : Nat) :
    setBytes (pre ++ b) (pre.length + i) ws = pre ++ setBytes b i ws := by
  induction ws generalizing b i with
  | nil => rfl
  | cons w ws ih =>
    simp only [setBytes]
    have e : (pre ++ b).set (pre.length + i) w = pre ++ b.set i w := by
      rw [List.set_append, if_neg (by omega)]; congr 2; omega
    rw [e, Nat.add_assoc, ih]

theorem replaceJentry_frame (pre b : Bytes) (w i : Nat) :
    replaceJentry (pre ++ b) w (pre.length + i) = (replaceJentry b w i).map (pre ++ ·) := by
  unfold replaceJentry
  by_cases h : i + 4 ≤ b.length
  · rw [if_pos (by rw [List.length_append]; omega), if_pos h, setBytes_frame]; rfl
  · rw [if_neg (by rw [List.length_append]; omega), if_neg h]; rfl

mutual
theorem encValue_frame : (v : JV) → (pre b : Bytes) →
    encValue (pre ++ b) v = (encValue b v).map (fun p => (pre ++ p.1, p.2))
  | .null, pre, b => rfl
  | .bool true, pre, b => rfl
  | .bool false, pre, b => rfl
  | .num n, pre, b => by simp [encValue, Res.map, Res.bind]
  | .str s, pre, b => by simp [encValue, Res.map, Res.bind]
  | .arr vs, pre, b => by
    simp only [encValue]
    have ih := encArrLoop_frame vs pre ((b ++ u32be (headerWord C.ARRAY_CONTAINER_TAG vs.length)) ++ zeros (vs.length * 4))
      (b.length + 4) (4 + vs.length * 4)
    rw [← Nat.add_assoc, ← List.length_append] at ih
    simp only [List.append_assoc] at ih ⊢
    rw [ih]
    cases encArrLoop (b ++ (u32be (headerWord C.ARRAY_CONTAINER_TAG vs.length) ++ zeros (vs.length * 4)))
      (b.length + 4) (4 + vs.length * 4) vs <;> rfl
  | .obj kvs, pre, b => by
    simp only [encValue]
    have ihk := encObjKeys_frame kvs pre ((b ++ u32be (headerWord C.OBJECT_CONTAINER_TAG kvs.length)) ++ zeros (kvs.length * 8))
      (b.length + 4) (4 + kvs.length * 8)
    rw [← Nat.add_assoc, ← List.length_append] at ihk
    simp only [List.append_assoc] at ihk ⊢
    rw [ihk]
    cases encObjKeys (b ++ (u32be (headerWord C.OBJECT_CONTAINER_TAG kvs.length) ++ zeros (kvs.length * 8)))
      (b.length + 4) (4 + kvs.length * 8) kvs with
    | ok p =>
      obtain ⟨b', idx, len⟩ := p
      simp only [Res.map, Res.bind]
      rw [encObjVals_frame kvs pre b' idx len]
      cases encObjVals b' idx len kvs <;> rfl
    | err e => rfl
    | panic s => rfl
    | fuel => rfl
theorem encArrLoop_frame : (vs : List JV) → (pre b : Bytes) → (i acc : Nat) →
    encArrLoop (pre ++ b) (pre.length + i) acc vs = (encArrLoop b i acc vs).map (fun p => (pre ++ p.1, p.2))
  | [], pre, b, i, acc => rfl
  | v :: vs, pre, b, i, acc => by
    simp only [encArrLoop]
    rw [encValue_frame v pre b]
    cases encValue b v with
    | ok p =>
      obtain ⟨b', ty, len⟩ := p
      simp only [Res.map, Res.bind]
      rw [replaceJentry_frame]
      cases replaceJentry b' (jentryWord ty len) i with
      | ok b'' =>
        simp only [Res.map, Res.bind]
        rw [Nat.add_assoc]
        exact encArrLoop_frame vs pre b'' (i + 4) (acc + len)
      | err e => rfl
      | panic s => rfl
      | fuel => rfl
    | err e => rfl
    | panic s => rfl
    | fuel => rfl
theorem encObjVals_frame : (kvs : List (Bytes × JV)) → (pre b : Bytes) → (i acc : Nat) →
    encObjVals (pre ++ b) (pre.length + i) acc kvs = (encObjVals b i acc kvs).map (fun p => (pre ++ p.1, p.2))
  | [], pre, b, i, acc => rfl
  | (k, v) :: kvs, pre, b, i, acc => by
    simp only [encObjVals]
    rw [encValue_frame v pre b]
    cases encValue b v with
    | ok p =>
      obtain ⟨b', ty, len⟩ := p
      simp only [Res.map, Res.bind]
      rw [replaceJentry_frame]
      cases replaceJentry b' (jentryWord ty len) i with
      | ok b'' =>
        simp only [Res.map, Res.bind]
        rw [Nat.add_assoc]
        exact encObjVals_frame kvs pre b'' (i + 4) (acc + len)
      | err e => rfl
      | panic s => rfl
      | fuel => rfl
    | err e => rfl
    | panic s => rfl
    | fuel => rfl
theorem encObjKeys_frame : (kvs : List (Bytes × JV)) → (pre b : Bytes) → (i acc : Nat) →
    encObjKeys (pre ++ b) (pre.length + i) acc kvs
      = (encObjKeys b i acc kvs).map (fun p => (pre ++ p.1, pre.length + p.2.1, p.2.2))
  | [], pre, b, i, acc => rfl
  | (k, v) :: kvs, pre, b, i, acc => by
    simp only [encObjKeys]
    rw [List.append_assoc, replaceJentry_frame]
    cases replaceJentry (b ++ k) (jentryWord C.STRING_TAG k.length) i with
    | ok b'' =>
      simp only [Res.map, Res.bind]
      rw [Nat.add_assoc]
      exact encObjKeys_frame kvs pre b'' (i + 4) (acc + k.length)
    | err e => rfl
    | panic s => rfl
    | fuel => rfl
end

theorem encScalarDoc_frame (pre : Bytes) (v : JV) :
    encScalarDoc pre v = (encScalarDoc [] v).map (pre ++ ·) := by
  unfold encScalarDoc
  have h := encValue_frame v pre (([] ++ u32be C.SCALAR_CONTAINER_TAG) ++ zeros 4)
  simp only [List.nil_append, List.append_assoc] at h ⊢
  rw [h]
  cases encValue (u32be C.SCALAR_CONTAINER_TAG ++ zeros 4) v with
  | ok p =>
    obtain ⟨b', ty, len⟩ := p
    simp only [Res.map, Res.bind]
    exact replaceJentry_frame pre b' (jentryWord ty len) 4
  | err e => rfl
  | panic s => rfl
  | fuel => rfl

/-- **frame property of `Value::write_to_vec`, unconditional**: for every value (any sizes) and
every prior buffer, the result is that of the empty-buffer call with the prior bytes in front
(and the same panic, if the model panics) -/
theorem writeToVec_frame (pre : Bytes) (v : JV) :
    writeToVec pre v = (writeToVec [] v).map (pre ++ ·) := by
  have hc : ∀ w : JV, (match encValue pre w with
      | .ok (b, _, _) => Res.ok b | .err e => .err e | .panic s => .panic s | .fuel => .fuel)
      = (match encValue [] w with
      | .ok (b, _, _) => Res.ok b | .err e => .err e | .panic s => .panic s | .fuel => .fuel).map (pre ++ ·) := by
    intro w
    have h := encValue_frame w pre []
    rw [List.append_nil] at h
    rw [h]
    cases encValue [] w <;> rfl
  cases v with
  | arr vs => exact hc (.arr vs)
  | obj kvs => exact hc (.obj kvs)
  | null => exact encScalarDoc_frame pre .null
  | bool b => exact encScalarDoc_frame pre (.bool b)
  | num n => exact encScalarDoc_frame pre (.num n)
  | str s => exact encScalarDoc_frame pre (.str s)

/-- any two prior buffers: the appended bytes are the same -/
theorem writeToVec_appended (pre pre' : Bytes) (v : JV) (out : Bytes)
    (h : writeToVec pre v = .ok out) :
    ∃ app, out = pre ++ app ∧ writeToVec pre' v = .ok (pre' ++ app) ∧ writeToVec [] v = .ok app := by
  rw [writeToVec_frame] at h
  cases h0 : writeToVec [] v with
  | ok app =>
    rw [h0] at h
    simp only [Res.map, Res.bind, Res.ok.injEq] at h
    exact ⟨app, h.symm, by rw [writeToVec_frame, h0]; rfl, rfl⟩
  | err e => rw [h0] at h; cases h
  | panic s => rw [h0] at h; cases h
  | fuel => rw [h0] at h; cases h

/-! ### and the model never panics: the reserved entry words always exist -/

theorem setBytes_length (b ws : Bytes) (i : Nat) : (setBytes b i ws).length = b.length := by
  induction ws generalizing b i with
  | nil => rfl
  | cons w ws ih => simp only [setBytes]; rw [ih, List.length_set]

theorem replaceJentry_ok (b : Bytes) (w i : Nat) (h : i + 4 ≤ b.length) :
    ∃ b', replaceJentry b w i = .ok b' ∧ b'.length = b.length := by
  unfold replaceJentry
  rw [if_pos h]
  exact ⟨_, rfl, setBytes_length _ _ _⟩

mutual
theorem encValue_ok : (v : JV) → (b : Bytes) →
    ∃ b' ty len, encValue b v = .ok (b', ty, len) ∧ b.length ≤ b'.length
  | .null, b => ⟨b, _, _, rfl, Nat.le_refl _⟩
  | .bool true, b => ⟨b, _, _, rfl, Nat.le_refl _⟩
  | .bool false, b => ⟨b, _, _, rfl, Nat.le_refl _⟩
  | .num n, b => ⟨_, _, _, rfl, by rw [List.length_append]; omega⟩
  | .str s, b => ⟨_, _, _, rfl, by rw [List.length_append]; omega⟩
  | .arr vs, b => by
    obtain ⟨b', n, h, hl⟩ := encArrLoop_ok vs
      ((b ++ u32be (headerWord C.ARRAY_CONTAINER_TAG vs.length)) ++ zeros (vs.length * 4))
      (b.length + 4) (4 + vs.length * 4)
      (by simp only [List.length_append, u32be_length, zeros, List.length_replicate]; omega)
    refine ⟨b', C.CONTAINER_TAG, n % 4294967296, by simp only [encValue, h], ?_⟩
    simp only [List.length_append] at hl; omega
  | .obj kvs, b => by
    obtain ⟨b', n, h, hl⟩ := encObjKeys_ok kvs
      ((b ++ u32be (headerWord C.OBJECT_CONTAINER_TAG kvs.length)) ++ zeros (kvs.length * 8))
      (b.length + 4) (4 + kvs.length * 8)
      (by simp only [List.length_append, u32be_length, zeros, List.length_replicate]; omega)
    simp only [List.length_append, u32be_length, zeros, List.length_replicate] at hl
    obtain ⟨b'', m, h2, hl2⟩ := encObjVals_ok kvs b' (b.length + 4 + kvs.length * 4) n (by omega)
    refine ⟨b'', C.CONTAINER_TAG, m % 4294967296, by simp only [encValue, h, h2], ?_⟩
    omega
theorem encArrLoop_ok : (vs : List JV) → (b : Bytes) → (i acc : Nat) → i + vs.length * 4 ≤ b.length →
    ∃ b' n, encArrLoop b i acc vs = .ok (b', n) ∧ b.length ≤ b'.length
  | [], b, i, acc, _ => ⟨b, acc, rfl, Nat.le_refl _⟩
  | v :: vs, b, i, acc, hi => by
    obtain ⟨b1, ty, len, h1, hl1⟩ := encValue_ok v b
    simp only [List.length_cons] at hi
    obtain ⟨b2, h2, hl2⟩ := replaceJentry_ok b1 (jentryWord ty len) i (by omega)
    obtain ⟨b3, n, h3, hl3⟩ := encArrLoop_ok vs b2 (i + 4) (acc + len) (by omega)
    exact ⟨b3, n, by simp only [encArrLoop, h1, h2, h3], by omega⟩
theorem encObjVals_ok : (kvs : List (Bytes × JV)) → (b : Bytes) → (i acc : Nat) →
    i + kvs.length * 4 ≤ b.length →
    ∃ b' n, encObjVals b i acc kvs = .ok (b', n) ∧ b.length ≤ b'.length
  | [], b, i, acc, _ => ⟨b, acc, rfl, Nat.le_refl _⟩
  | (k, v) :: kvs, b, i, acc, hi => by
    obtain ⟨b1, ty, len, h1, hl1⟩ := encValue_ok v b
    simp only [List.length_cons] at hi
    obtain ⟨b2, h2, hl2⟩ := replaceJentry_ok b1 (jentryWord ty len) i (by omega)
    obtain ⟨b3, n, h3, hl3⟩ := encObjVals_ok kvs b2 (i + 4) (acc + len) (by omega)
    exact ⟨b3, n, by simp only [encObjVals, h1, h2, h3], by omega⟩
theorem encObjKeys_ok : (kvs : List (Bytes × JV)) → (b : Bytes) → (i acc : Nat) →
    i + kvs.length * 4 ≤ b.length →
    ∃ b' n, encObjKeys b i acc kvs = .ok (b', i + kvs.length * 4, n) ∧ b.length ≤ b'.length
  | [], b, i, acc, _ => ⟨b, acc, rfl, Nat.le_refl _⟩
  | (k, v) :: kvs, b, i, acc, hi => by
    simp only [List.length_cons] at hi
    obtain ⟨b2, h2, hl2⟩ := replaceJentry_ok (b ++ k) (jentryWord C.STRING_TAG k.length) i
      (by rw [List.length_append]; omega)
    rw [List.length_append] at hl2
    obtain ⟨b3, n, h3, hl3⟩ := encObjKeys_ok kvs b2 (i + 4) (acc + k.length) (by omega)
    refine ⟨b3, n, ?_, by omega⟩
    simp only [encObjKeys, h2, h3, List.length_cons]
    congr 3; omega
end

/-- `write_to_vec` of the model returns a buffer for EVERY value and every prior buffer: no panic
site of the reserve-then-patch encoder is reachable -/
theorem writeToVec_ok (pre : Bytes) (v : JV) : ∃ app, writeToVec pre v = .ok (pre ++ app) := by
  have h0 : ∃ app, writeToVec [] v = .ok app := by
    have hc : ∀ w : JV, ∃ app, (match encValue [] w with
        | .ok (b, _, _) => Res.ok b | .err e => .err e | .panic s => .panic s | .fuel => .fuel) = .ok app := by
      intro w
      obtain ⟨b', ty, len, h, _⟩ := encValue_ok w []
      exact ⟨b', by rw [h]⟩
    have hs : ∀ w : JV, ∃ app, encScalarDoc [] w = .ok app := by
      intro w
      unfold encScalarDoc
      obtain ⟨b', ty, len, h, hl⟩ := encValue_ok w (([] ++ u32be C.SCALAR_CONTAINER_TAG) ++ zeros 4)
      obtain ⟨b2, h2, _⟩ := replaceJentry_ok b' (jentryWord ty len) (([] : Bytes).length + 4)
        (by simp [zeros] at hl; simp; omega)
      exact ⟨b2, by rw [h]; exact h2⟩
    cases v with
    | arr vs => exact hc (.arr vs)
    | obj kvs => exact hc (.obj kvs)
    | null => exact hs .null
    | bool b => exact hs (.bool b)
    | num n => exact hs (.num n)
    | str s => exact hs (.str s)
  obtain ⟨app, h⟩ := h0
  exact ⟨app, by rw [writeToVec_frame, h]; rfl⟩

end Jsonb

