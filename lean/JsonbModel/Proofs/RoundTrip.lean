/-
C01 core: decoding the README layout of a good value gives back its normal form, leaving
exactly the trailing bytes.
-/
import JsonbModel.Proofs.Codec

namespace Jsonb
open JV

theorem tag_arr : C.ARRAY_CONTAINER_TAG = 4 * 536870912 := by decide
theorem tag_obj : C.OBJECT_CONTAINER_TAG = 2 * 536870912 := by decide
theorem tag_sca : C.SCALAR_CONTAINER_TAG = 1 * 536870912 := by decide

theorem szS_pos (v : JV) : 1 ≤ szS v := by cases v <;> simp [szS] <;> omega
theorem szL_pos (vs : List JV) : 1 ≤ szL vs := by cases vs <;> simp [szL] <;> omega
theorem szK_pos (kvs : List (Bytes × JV)) : 1 ≤ szK kvs := by
  cases kvs with
  | nil => simp [szK]
  | cons kv kvs => obtain ⟨k, v⟩ := kv; simp [szK]; omega

theorem take_append_len (a b : Bytes) : (a ++ b).take a.length = a := by simp
theorem drop_append_len (a b : Bytes) : (a ++ b).drop a.length = b := by simp

theorem keyEntries_length (kvs : List (Bytes × JV)) : (keyEntries kvs).length = kvs.length := by
  simp [keyEntries]

mutual
theorem decScalar_entry : (v : JV) → good v = true → (fuel : Nat) → szS v ≤ fuel → (rest : Bytes) →
    decScalar fuel (ety v) (elen v) ((entry v).2 ++ rest) = .ok (norm v, rest)
  | .null, _, fuel, hf, rest => by
    cases fuel with
    | zero => simp [szS] at hf
    | succ f => simp [decScalar, ety, entry, norm]
  | .bool b, _, fuel, hf, rest => by
    cases fuel with
    | zero => simp [szS] at hf
    | succ f =>
      have c1 : ¬ C.TRUE_TAG = C.NULL_TAG := by decide
      have c2 : ¬ C.FALSE_TAG = C.NULL_TAG := by decide
      have c3 : ¬ C.FALSE_TAG = C.TRUE_TAG := by decide
      cases b <;> simp [decScalar, ety, entry, norm, c1, c2, c3]
  | .num n, hg, fuel, hf, rest => by
    cases fuel with
    | zero => simp [szS] at hf
    | succ f =>
      have c1 : ¬ C.NUMBER_TAG = C.NULL_TAG := by decide
      have c2 : ¬ C.NUMBER_TAG = C.TRUE_TAG := by decide
      have c3 : ¬ C.NUMBER_TAG = C.FALSE_TAG := by decide
      have c4 : ¬ C.NUMBER_TAG = C.STRING_TAG := by decide
      simp only [good, decide_eq_true_eq] at hg
      simp only [decScalar, ety, elen, entry, norm, c1, c2, c3, c4, if_false, if_true,
        List.length_append, Nat.le_add_right, take_append_len, drop_append_len, Num.dec_enc n hg]
  | .str s, hg, fuel, hf, rest => by
    cases fuel with
    | zero => simp [szS] at hf
    | succ f =>
      have c1 : ¬ C.STRING_TAG = C.NULL_TAG := by decide
      have c2 : ¬ C.STRING_TAG = C.TRUE_TAG := by decide
      have c3 : ¬ C.STRING_TAG = C.FALSE_TAG := by decide
      simp only [good, Bool.and_eq_true, decide_eq_true_eq] at hg
      simp only [decScalar, ety, elen, entry, norm, c1, c2, c3, if_false, if_true,
        List.length_append, Nat.le_add_right, take_append_len, drop_append_len, hg.2]
  | .arr vs, hg, fuel, hf, rest => by
    simp only [szS] at hf
    have hp := szL_pos vs
    match fuel, hf with
    | 0, hf => omega
    | 1, hf => omega
    | f + 2, hf =>
      have c1 : ¬ C.CONTAINER_TAG = C.NULL_TAG := by decide
      have c2 : ¬ C.CONTAINER_TAG = C.TRUE_TAG := by decide
      have c3 : ¬ C.CONTAINER_TAG = C.FALSE_TAG := by decide
      have c4 : ¬ C.CONTAINER_TAG = C.STRING_TAG := by decide
      have c5 : ¬ C.CONTAINER_TAG = C.NUMBER_TAG := by decide
      simp only [good, Bool.and_eq_true, decide_eq_true_eq] at hg
      obtain ⟨⟨hn, _⟩, hgl⟩ := hg
      have ih := decItems_entries vs hgl f (by omega) rest
      simp only [decScalar, ety, c1, c2, c3, c4, c5, if_false, if_true, entry, List.append_assoc]
      simp only [decJsonb]
      rw [readU32_u32be _ _ (by rw [tag_arr]; omega)]
      have t1 : hdrType (C.ARRAY_CONTAINER_TAG + vs.length) = C.ARRAY_CONTAINER_TAG := by
        rw [tag_arr]; exact hdrType_add 4 _ (by omega) hn
      have t2 : hdrLen (C.ARRAY_CONTAINER_TAG + vs.length) = vs.length := by
        rw [tag_arr]; exact hdrLen_add 4 _ hn
      have d1 : ¬ C.ARRAY_CONTAINER_TAG = C.SCALAR_CONTAINER_TAG := by decide
      simp only [t1, t2, d1, if_false, if_true, readEntries_wordsL vs hgl, ih, norm]
  | .obj kvs, hg, fuel, hf, rest => by
    simp only [szS] at hf
    have hp := szK_pos kvs
    match fuel, hf with
    | 0, hf => omega
    | 1, hf => omega
    | f + 2, hf =>
      have c1 : ¬ C.CONTAINER_TAG = C.NULL_TAG := by decide
      have c2 : ¬ C.CONTAINER_TAG = C.TRUE_TAG := by decide
      have c3 : ¬ C.CONTAINER_TAG = C.FALSE_TAG := by decide
      have c4 : ¬ C.CONTAINER_TAG = C.STRING_TAG := by decide
      have c5 : ¬ C.CONTAINER_TAG = C.NUMBER_TAG := by decide
      simp only [good, Bool.and_eq_true, decide_eq_true_eq] at hg
      obtain ⟨⟨⟨hn, _⟩, hs⟩, hgk⟩ := hg
      have ihk := decItems_keys kvs hgk f (by omega) (paysK kvs ++ rest)
      have ihv := decObjVals_entries kvs hgk f (by omega) rest
      simp only [decScalar, ety, c1, c2, c3, c4, c5, if_false, if_true, entry, List.append_assoc]
      simp only [decJsonb]
      rw [readU32_u32be _ _ (by rw [tag_obj]; omega)]
      have t1 : hdrType (C.OBJECT_CONTAINER_TAG + kvs.length) = C.OBJECT_CONTAINER_TAG := by
        rw [tag_obj]; exact hdrType_add 2 _ (by omega) hn
      have t2 : hdrLen (C.OBJECT_CONTAINER_TAG + kvs.length) = kvs.length := by
        rw [tag_obj]; exact hdrLen_add 2 _ hn
      have d1 : ¬ C.OBJECT_CONTAINER_TAG = C.SCALAR_CONTAINER_TAG := by decide
      have d2 : ¬ C.OBJECT_CONTAINER_TAG = C.ARRAY_CONTAINER_TAG := by decide
      have re : readEntries (kvs.length * 2) (keyWords kvs ++ (wordsK kvs ++ (keyBytes kvs ++ (paysK kvs ++ rest))))
          = some (keyEntries kvs ++ entriesK kvs, keyBytes kvs ++ (paysK kvs ++ rest)) := by
        rw [show kvs.length * 2 = kvs.length + kvs.length by omega]
        exact readEntries_append _ _ _ _ (readEntries_keyWords kvs hgk _) _ _ _
          (readEntries_wordsK kvs hgk _)
      have hk : (keyEntries kvs).length = kvs.length := keyEntries_length kvs
      simp only [t1, t2, d1, d2, if_false, if_true, re]
      rw [show (keyEntries kvs ++ entriesK kvs).take kvs.length = keyEntries kvs by
            rw [← hk]; simp,
          show (keyEntries kvs ++ entriesK kvs).drop kvs.length = entriesK kvs by
            rw [← hk]; simp]
      simp only [ihk, ihv, norm]
      rw [mkObj_sorted _ (by rw [keysSorted_normKvs]; exact hs)]
theorem decItems_entries : (vs : List JV) → goodL vs = true → (fuel : Nat) → szL vs ≤ fuel →
    (rest : Bytes) →
    decItems fuel (entriesL vs) (paysL vs ++ rest) = .ok (normList vs, rest)
  | [], _, fuel, hf, rest => by
    cases fuel with
    | zero => simp [szL] at hf
    | succ f => simp [decItems, entriesL, paysL, normList]
  | v :: vs, hg, fuel, hf, rest => by
    simp only [szL] at hf
    cases fuel with
    | zero => omega
    | succ f =>
      simp only [goodL, Bool.and_eq_true] at hg
      have ih1 := decScalar_entry v hg.1 f (by omega) (paysL vs ++ rest)
      have ih2 := decItems_entries vs hg.2 f (by omega) rest
      simp only [entriesL, List.map_cons, paysL, List.append_assoc, decItems]
      simp only [entriesL] at ih2
      simp only [ih1, ih2, normList]
theorem decObjVals_entries : (kvs : List (Bytes × JV)) → goodK kvs = true → (fuel : Nat) →
    szK kvs ≤ fuel → (rest : Bytes) →
    decObjVals fuel (kvs.map (fun kv => JV.str kv.1)) (entriesK kvs) (paysK kvs ++ rest)
      = .ok (normKvs kvs, rest)
  | [], _, fuel, hf, rest => by
    cases fuel with
    | zero => simp [szK] at hf
    | succ f => simp [decObjVals, entriesK, paysK, normKvs]
  | (k, v) :: kvs, hg, fuel, hf, rest => by
    simp only [szK] at hf
    cases fuel with
    | zero => omega
    | succ f =>
      simp only [goodK, Bool.and_eq_true] at hg
      have ih1 := decScalar_entry v hg.1.2 f (by omega) (paysK kvs ++ rest)
      have ih2 := decObjVals_entries kvs hg.2 f (by omega) rest
      simp only [entriesK, List.map_cons, paysK, List.append_assoc, decObjVals]
      simp only [entriesK] at ih2
      simp only [ih1, ih2, normKvs]
end

end Jsonb
