/-
Phase 6c, editors: the `delete_by_keypath` family.  I19: the object loop, the model's loop functions unfolded by case,
the entries behind the hit, the precondition `KeysDistinct`.
-/
import JsonbModel.Proofs.TranslatedAgreeI18

set_option linter.unusedSimpArgs false
set_option linter.unusedVariables false

namespace Jsonb.TrAgree
open Jsonb.Rs

/-! ## the object loop -/

theorem dko_loop1_other (recA : DelArrFn) (recO : DelObjFn) (name : Bytes) (m : Bytes × JE × Bytes) (acc : List (Bytes × BEntry))
    (kpT : List Tr.KeyPath) (h : m.1 ≠ name) :
    Tr.delete_jsonb_object_by_keypath.loop1 recA recO name (ofMember m) (objB acc, kpT) =
      Ctl.val (.next (objB (bInsert m.1 (.raw m.2.1.ty m.2.1.len m.2.2) acc), kpT)) := by
  obtain ⟨key, je, item⟩ := m
  unfold Tr.delete_jsonb_object_by_keypath.loop1 ofMember objB
  dsimp only at h ⊢
  simp only [decide_eq_false h, Bool.not_false, if_true, object_push_raw_any, Ctl.ofRes_ok', Ctl.val_bind', Ctl.pure_eq',
    Rs.loopStep_val', ← btreeInsert_bInsert, ofBE, ofJE]

theorem dko_loop1_drop (recA : DelArrFn) (recO : DelObjFn) (name : Bytes) (m : Bytes × JE × Bytes) (acc : List (Bytes × BEntry))
    (h : m.1 = name) :
    Tr.delete_jsonb_object_by_keypath.loop1 recA recO name (ofMember m) (objB acc, []) = Ctl.val (.next (objB acc, [])) := by
  obtain ⟨key, je, item⟩ := m
  unfold Tr.delete_jsonb_object_by_keypath.loop1 ofMember objB
  dsimp only at h ⊢
  have hemp : Rs.isEmpty ([] : List Tr.KeyPath) = true := rfl
  simp only [decide_eq_true h, Bool.not_true, Bool.false_eq_true, if_false, hemp, Ctl.pure_eq', Ctl.val_bind', Rs.loopStep_val']

theorem dko_loop1_hit (recA : DelArrFn) (recO : DelObjFn) (name : Bytes) (m : Bytes × JE × Bytes) (acc : List (Bytes × BEntry))
    (kpT : List Tr.KeyPath) (hk : Rs.isEmpty kpT = false) (h : m.1 = name)
    (ra : Nat → Res (Option (List BEntry))) (ro : Nat → Res (Option (List (Bytes × BEntry))))
    (ha : ∀ ih, m.2.1.ty = C.CONTAINER_TAG → readU32At m.2.2 0 = some ih → hdrType ih = C.ARRAY_CONTAINER_TAG → ra ih ≠ .fuel → (ra ih).isPanic = false →
      DelRel arrB (recA m.2.2 (ih : Int) kpT) (ra ih))
    (ho : ∀ ih, m.2.1.ty = C.CONTAINER_TAG → readU32At m.2.2 0 = some ih → hdrType ih = C.OBJECT_CONTAINER_TAG → ro ih ≠ .fuel → (ro ih).isPanic = false →
      DelRel objB (recO m.2.2 (ih : Int) kpT) (ro ih)) :
    HitRel (Tr.delete_jsonb_object_by_keypath.loop1 recA recO name (ofMember m) (objB acc, kpT))
      (fun e kp' => (objB (bInsert m.1 e acc), kp')) (hitOf ra ro m.2.1 m.2.2) := by
  obtain ⟨key, je, item⟩ := m
  unfold Tr.delete_jsonb_object_by_keypath.loop1 ofMember ofJE objB hitOf
  dsimp only at ha ho h ⊢
  simp only [decide_eq_true h, Bool.not_true, Bool.false_eq_true, if_false, hk, Bool.not_false, if_true, tag_eq]
  by_cases hc : je.ty = C.CONTAINER_TAG
  · simp only [decide_eq_true hc, if_true, if_pos hc, read_u32_zero]
    cases hr : readU32At item 0 with
    | none => simp only [Ctl.ofRes_err', Ctl.ret_bind', Rs.loopStep_err', HitRel]
    | some ih =>
      simp only [Ctl.ofRes_ok', Ctl.val_bind', hdrType_eq]
      simp only [decide_eq_true_eq]
      by_cases hA : hdrType ih = C.ARRAY_CONTAINER_TAG
      · simp only [if_pos hA]
        have ha' := ha ih hc hr hA
        cases hra : ra ih with
        | fuel => simp only [Res.map, Res.bind, HitRel]
        | panic s => simp only [Res.map, Res.bind, HitRel]
        | err e =>
          rw [hra] at ha'
          have h1 := ha' (fun c => by cases c) rfl
          simp only [DelRel] at h1
          simp only [h1, Res.map, Res.bind, Ctl.ofRes_err', Ctl.ret_bind', Rs.loopStep_err', HitRel]
        | ok o =>
          rw [hra] at ha'
          have h1 := ha' (fun c => by cases c) rfl
          cases o with
          | none =>
            simp only [DelRel] at h1
            obtain ⟨kp', h1⟩ := h1
            simp only [h1, Res.map, Res.bind, Option.map, Ctl.ofRes_ok', Ctl.val_bind', Ctl.ret_bind', Rs.loopStep_ret', HitRel]
            exact ⟨kp', rfl⟩
          | some es =>
            simp only [DelRel] at h1
            obtain ⟨kp', h1⟩ := h1
            simp only [h1, Res.map, Res.bind, Option.map, Ctl.ofRes_ok', Ctl.val_bind', object_push_array_any, Ctl.pure_eq',
              Rs.loopStep_val', HitRel, arrB, objB, ← btreeInsert_bInsert, ofBE]
            exact ⟨kp', rfl⟩
      · simp only [if_neg hA]
        by_cases hO : hdrType ih = C.OBJECT_CONTAINER_TAG
        · simp only [if_pos hO]
          have ho' := ho ih hc hr hO
          cases hro : ro ih with
          | fuel => simp only [Res.map, Res.bind, HitRel]
          | panic s => simp only [Res.map, Res.bind, HitRel]
          | err e =>
            rw [hro] at ho'
            have h1 := ho' (fun c => by cases c) rfl
            simp only [DelRel] at h1
            simp only [h1, Res.map, Res.bind, Ctl.ofRes_err', Ctl.ret_bind', Rs.loopStep_err', HitRel]
          | ok o =>
            rw [hro] at ho'
            have h1 := ho' (fun c => by cases c) rfl
            cases o with
            | none =>
              simp only [DelRel] at h1
              obtain ⟨kp', h1⟩ := h1
              simp only [h1, Res.map, Res.bind, Option.map, Ctl.ofRes_ok', Ctl.val_bind', Ctl.ret_bind', Rs.loopStep_ret', HitRel]
              exact ⟨kp', rfl⟩
            | some sub =>
              simp only [DelRel] at h1
              obtain ⟨kp', h1⟩ := h1
              simp only [h1, Res.map, Res.bind, Option.map, Ctl.ofRes_ok', Ctl.val_bind', object_push_object_any, Ctl.pure_eq',
                Rs.loopStep_val', HitRel, objB, ← btreeInsert_bInsert, ofBE]
              exact ⟨kp', rfl⟩
        · simp only [if_neg hO, HitRel]
  · simp only [decide_eq_false hc, Bool.false_eq_true, if_false, if_neg hc, Ctl.ret_bind', Rs.loopStep_ret', HitRel]
    exact ⟨kpT, rfl⟩

/-! ## the model's loop functions, by case -/

theorem delArrItems_other (f : Nat) (kp : List KeyPath) (x : JE × Bytes) (rest : List (JE × Bytes)) (idx i : Nat) (h : i ≠ idx) :
    Fn.delArrItems (f + 1) kp (x :: rest) idx i =
      match Fn.delArrItems f kp rest idx (i + 1) with
      | .ok (some es) => .ok (some (Fn.rawOf x :: es))
      | r => r := by
  obtain ⟨je, item⟩ := x
  rw [Fn.delArrItems]
  simp only [h, ne_eq, not_false_eq_true, if_true, Fn.rawOf]
  cases Fn.delArrItems f kp rest idx (i + 1) with
  | ok o => cases o <;> rfl
  | err e => rfl
  | panic s => rfl
  | fuel => rfl

theorem delArrItems_drop (f : Nat) (x : JE × Bytes) (rest : List (JE × Bytes)) (idx : Nat) :
    Fn.delArrItems (f + 1) [] (x :: rest) idx idx = Fn.delArrItems f [] rest idx (idx + 1) := by
  obtain ⟨je, item⟩ := x
  rw [Fn.delArrItems]
  simp only [ne_eq, not_true_eq_false, if_false, List.isEmpty_nil, if_true]

theorem delArrItems_hit (f : Nat) (p : KeyPath) (kp : List KeyPath) (x : JE × Bytes) (rest : List (JE × Bytes)) (idx : Nat) :
    Fn.delArrItems (f + 1) (p :: kp) (x :: rest) idx idx =
      match hitOf (fun ih => Fn.delArrKp f (p :: kp) ih x.2) (fun ih => Fn.delObjKp f (p :: kp) ih x.2) x.1 x.2 with
      | .ok (some e) =>
        (match Fn.delArrItems f [] rest idx (idx + 1) with
         | .ok (some es) => .ok (some (e :: es))
         | r => r)
      | .ok none => .ok none
      | .err e => .err e
      | .panic s => .panic s
      | .fuel => .fuel := by
  obtain ⟨je, item⟩ := x
  rw [Fn.delArrItems]
  unfold hitOf
  simp only [ne_eq, not_true_eq_false, if_false, List.isEmpty_cons, Bool.false_eq_true]
  by_cases hc : je.ty = C.CONTAINER_TAG
  · simp only [if_pos hc]
    cases readU32At item 0 with
    | none => rfl
    | some ih =>
      dsimp only
      by_cases hA : hdrType ih = C.ARRAY_CONTAINER_TAG
      · simp only [if_pos hA]
        cases Fn.delArrKp f (p :: kp) ih item with
        | ok o => cases o <;> rfl
        | err e => rfl
        | panic s => rfl
        | fuel => rfl
      · simp only [if_neg hA]
        by_cases hO : hdrType ih = C.OBJECT_CONTAINER_TAG
        · simp only [if_pos hO]
          cases Fn.delObjKp f (p :: kp) ih item with
          | ok o => cases o <;> rfl
          | err e => rfl
          | panic s => rfl
          | fuel => rfl
        · simp only [if_neg hO]
  · simp only [if_neg hc]

theorem delObjMembers_other (f : Nat) (kp : List KeyPath) (name : Bytes) (m : Bytes × JE × Bytes) (rest : List (Bytes × JE × Bytes))
    (acc : List (Bytes × BEntry)) (h : m.1 ≠ name) :
    Fn.delObjMembers (f + 1) kp name (m :: rest) acc =
      Fn.delObjMembers f kp name rest (bInsert m.1 (.raw m.2.1.ty m.2.1.len m.2.2) acc) := by
  obtain ⟨key, je, item⟩ := m
  rw [Fn.delObjMembers]
  have hb : (key != name) = true := by simpa using h
  simp only [hb, if_true]

theorem delObjMembers_drop (f : Nat) (name : Bytes) (m : Bytes × JE × Bytes) (rest : List (Bytes × JE × Bytes))
    (acc : List (Bytes × BEntry)) (h : m.1 = name) :
    Fn.delObjMembers (f + 1) [] name (m :: rest) acc = Fn.delObjMembers f [] name rest acc := by
  obtain ⟨key, je, item⟩ := m
  rw [Fn.delObjMembers]
  have hb : (key != name) = false := by simpa using h
  simp only [hb, Bool.false_eq_true, if_false, List.isEmpty_nil, if_true]

theorem delObjMembers_hit (f : Nat) (p : KeyPath) (kp : List KeyPath) (name : Bytes) (m : Bytes × JE × Bytes)
    (rest : List (Bytes × JE × Bytes)) (acc : List (Bytes × BEntry)) (h : m.1 = name) :
    Fn.delObjMembers (f + 1) (p :: kp) name (m :: rest) acc =
      match hitOf (fun ih => Fn.delArrKp f (p :: kp) ih m.2.2) (fun ih => Fn.delObjKp f (p :: kp) ih m.2.2) m.2.1 m.2.2 with
      | .ok (some e) => Fn.delObjMembers f [] name rest (bInsert m.1 e acc)
      | .ok none => .ok none
      | .err e => .err e
      | .panic s => .panic s
      | .fuel => .fuel := by
  obtain ⟨key, je, item⟩ := m
  rw [Fn.delObjMembers]
  unfold hitOf
  have hb : (key != name) = false := by simpa using h
  simp only [hb, Bool.false_eq_true, if_false, List.isEmpty_cons]
  by_cases hc : je.ty = C.CONTAINER_TAG
  · simp only [if_pos hc]
    cases readU32At item 0 with
    | none => rfl
    | some ih =>
      dsimp only
      by_cases hA : hdrType ih = C.ARRAY_CONTAINER_TAG
      · simp only [if_pos hA]
        cases Fn.delArrKp f (p :: kp) ih item with
        | ok o => cases o <;> rfl
        | err e => rfl
        | panic s => rfl
        | fuel => rfl
      · simp only [if_neg hA]
        by_cases hO : hdrType ih = C.OBJECT_CONTAINER_TAG
        · simp only [if_pos hO]
          cases Fn.delObjKp f (p :: kp) ih item with
          | ok o => cases o <;> rfl
          | err e => rfl
          | panic s => rfl
          | fuel => rfl
        · simp only [if_neg hO]
  · simp only [if_neg hc]

end Jsonb.TrAgree
