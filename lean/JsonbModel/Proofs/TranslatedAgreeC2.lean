import JsonbModel.Proofs.TranslatedAgreeC1
import JsonbModel.Proofs.DecPrefix

set_option linter.unusedSimpArgs false
set_option linter.unusedVariables false

namespace Jsonb.TrAgree
open Jsonb.Rs

/-- `(value, remaining bytes)` of the model ↦ `(value, decoder)` of the translation -/
def ofVB (p : JV × Bytes) : Tr.Value × Tr.Decoder := (ofJV p.1, ⟨p.2⟩)

/-- a result of the decoder model seen from the translation -/
def tr (r : Res (JV × Bytes)) : Res (Tr.Value × Tr.Decoder) := (eofErr r).map ofVB

theorem tr_ok (v : JV) (bs : Bytes) : tr (.ok (v, bs)) = .ok (ofJV v, ⟨bs⟩) := rfl
theorem tr_panic (s : String) : tr (.panic s) = .panic s := rfl
theorem tr_fuel : tr .fuel = .fuel := rfl
theorem tr_err (e : String) : tr (.err e) = .err (if e = "InvalidEOF" then "InvalidUtf8" else e) := rfl

/-- `let (v, self) ← callee?; Ok(v)` is the callee's result -/
theorem run_bind_ret_pair {α β : Type} (r : Res (α × β)) :
    Ctl.run (Ctl.ofRes r >>= fun p => Ctl.ret (Res.ok (p.1, p.2))) = r := by
  cases r <;> rfl

/-! ## one unfolding of each member of the group -/

theorem tag_eq (a b : Nat) : decide (((a : Nat) : Int) = ((b : Nat) : Int)) = decide (a = b) := by
  by_cases h : a = b
  · simp [h]
  · have : ¬ ((a : Int) = (b : Int)) := by omega
    simp [h, this]

theorem decode_scalar_succ (g ty len : Nat) (hlen : len < 4294967296) (bs : Bytes) :
    Tr.Decoder.decode_scalar (g + 1) ⟨bs⟩ ⟨(ty : Nat), (len : Nat)⟩ =
      if ty = C.NULL_TAG then .ok (.Null, ⟨bs⟩)
      else if ty = C.TRUE_TAG then .ok (.Bool true, ⟨bs⟩)
      else if ty = C.FALSE_TAG then .ok (.Bool false, ⟨bs⟩)
      else if ty = C.STRING_TAG then
        (if len ≤ bs.length then
          (if validUtf8 (bs.take len) then .ok (.String (bs.take len), ⟨bs.drop len⟩) else .err "InvalidUtf8")
         else .err "InvalidUtf8")
      else if ty = C.NUMBER_TAG then
        (if len ≤ bs.length then
          (Num.dec (bs.take len)).map (fun n => (.Number (ofNum n), ⟨bs.drop len⟩))
         else .err "InvalidJsonbNumber")
      else if ty = C.CONTAINER_TAG then Tr.Decoder.decode_jsonb g ⟨bs⟩
      else .err "InvalidJsonbJEntry" := by
  rw [Tr.Decoder.decode_scalar]
  have hc : Rs.cast .usize ((len : Nat) : Int) = (len : Int) := Rs.usize_nat _ (by omega)
  simp only [tag_eq, hc, getTo_nat, decide_eq_true_eq]
  by_cases h1 : ty = C.NULL_TAG
  · simp only [if_pos h1, Ctl.run_ret']
  by_cases h2 : ty = C.TRUE_TAG
  · simp only [if_neg h1, if_pos h2, Ctl.run_ret']
  by_cases h3 : ty = C.FALSE_TAG
  · simp only [if_neg h1, if_neg h2, if_pos h3, Ctl.run_ret']
  by_cases h4 : ty = C.STRING_TAG
  · simp only [if_neg h1, if_neg h2, if_neg h3, if_pos h4]
    by_cases hl : len ≤ bs.length
    · simp only [if_pos hl, Rs.okOr, Ctl.ofRes_ok', Ctl.val_bind', Rs.strFromUtf8]
      by_cases hu : validUtf8 (List.take len bs) = true
      · simp only [if_pos hu, Rs.mapErr, Ctl.ofRes_ok', Ctl.val_bind', sliceFrom_nat _ _ hl, Ctl.run_ret']
      · simp only [if_neg hu, Rs.mapErr, Ctl.ofRes_err', Ctl.ret_bind', Ctl.run_ret']
    · simp only [if_neg hl, Rs.okOr, Ctl.ofRes_err', Ctl.ret_bind', Ctl.run_ret']
  by_cases h5 : ty = C.NUMBER_TAG
  · simp only [if_neg h1, if_neg h2, if_neg h3, if_neg h4, if_pos h5]
    by_cases hl : len ≤ bs.length
    · simp only [if_pos hl, Rs.okOr, Ctl.ofRes_ok', Ctl.val_bind']
      rw [decode_agrees _ (by simp; omega)]
      cases Num.dec (List.take len bs) with
      | ok n => simp only [Res.map, Res.bind, Ctl.ofRes_ok', Ctl.val_bind', sliceFrom_nat _ _ hl, Ctl.run_ret']
      | err e => simp only [Res.map, Res.bind, Ctl.ofRes_err', Ctl.ret_bind', Ctl.run_ret']
      | panic s => simp only [Res.map, Res.bind, Ctl.ofRes_panic', Ctl.ret_bind', Ctl.run_ret']
      | fuel => rfl
    · simp only [if_neg hl, Rs.okOr, Ctl.ofRes_err', Ctl.ret_bind', Ctl.run_ret']
  by_cases h6 : ty = C.CONTAINER_TAG
  · simp only [if_neg h1, if_neg h2, if_neg h3, if_neg h4, if_neg h5, if_pos h6]
    exact run_bind_ret_pair _
  · simp only [if_neg h1, if_neg h2, if_neg h3, if_neg h4, if_neg h5, if_neg h6, Ctl.run_ret']

theorem and_ne_dec (a b c : Nat) :
    (decide (((a : Nat) : Int) = ((b : Nat) : Int)) && decide (((c : Nat) : Int) ≠ ((b : Nat) : Int))) = (decide (a = b) && decide (c ≠ b)) := by
  have h1 := tag_eq a b
  have h2 : decide (((c : Nat) : Int) ≠ ((b : Nat) : Int)) = decide (c ≠ b) := by
    by_cases h : c = b
    · simp [h]
    · have : ¬ ((c : Int) = (b : Int)) := by omega
      simp [h, this]
  rw [h1, h2]

theorem decode_jsonb_succ (g : Nat) (bs : Bytes) :
    Tr.Decoder.decode_jsonb (g + 1) ⟨bs⟩ = match readU32 bs with
      | none => .err "InvalidUtf8"
      | some (h, bs1) =>
        if hdrType h = C.SCALAR_CONTAINER_TAG then
          if h ≠ C.SCALAR_CONTAINER_TAG then .err "InvalidJsonbHeader"
          else match readU32 bs1 with
            | none => .err "InvalidUtf8"
            | some (e, bs2) => Tr.Decoder.decode_scalar g ⟨bs2⟩ ⟨(jeType e : Nat), (jeLen e : Nat)⟩
        else if hdrType h = C.ARRAY_CONTAINER_TAG then Tr.Decoder.decode_array g ⟨bs1⟩ (h : Int)
        else if hdrType h = C.OBJECT_CONTAINER_TAG then Tr.Decoder.decode_object g ⟨bs1⟩ (h : Int)
        else .err "InvalidJsonbHeader" := by
  rw [Tr.Decoder.decode_jsonb]
  simp only [readU32BE_agrees]
  cases readU32 bs with
  | none => simp only [Ctl.ofRes_err', Ctl.ret_bind', Ctl.run_ret']
  | some p =>
    obtain ⟨h, bs1⟩ := p
    have hflip : (C.SCALAR_CONTAINER_TAG = h) = (h = C.SCALAR_CONTAINER_TAG) := propext eq_comm
    simp only [Ctl.ofRes_ok', Ctl.val_bind', Rs.bitand_natCast, Bool.and_eq_true, decide_eq_true_eq, Int.natCast_inj, ne_eq, hflip]
    have hT : h &&& C.CONTAINER_HEADER_TYPE_MASK = hdrType h := rfl
    rw [hT]
    by_cases h1 : hdrType h = C.SCALAR_CONTAINER_TAG
    · by_cases h2 : h = C.SCALAR_CONTAINER_TAG
      · have h2' : ¬ ¬ (h = C.SCALAR_CONTAINER_TAG) := by simpa using h2
        have h3 : ¬ (hdrType h = C.SCALAR_CONTAINER_TAG ∧ ¬ h = C.SCALAR_CONTAINER_TAG) := fun c => c.2 h2
        simp only [if_neg h3, if_pos h1, if_neg h2']
        cases readU32 bs1 with
        | none => simp only [Ctl.ofRes_err', Ctl.ret_bind', Ctl.run_ret']
        | some q =>
          obtain ⟨e, bs2⟩ := q
          simp only [Ctl.ofRes_ok', Ctl.val_bind', decode_jentry_agrees]
          exact run_bind_ret_pair _
      · have h3 : hdrType h = C.SCALAR_CONTAINER_TAG ∧ ¬ h = C.SCALAR_CONTAINER_TAG := ⟨h1, h2⟩
        simp only [if_pos h3, if_pos h1, if_pos h2, Ctl.run_ret']
    · have h3 : ¬ (hdrType h = C.SCALAR_CONTAINER_TAG ∧ ¬ h = C.SCALAR_CONTAINER_TAG) := fun c => h1 c.1
      simp only [if_neg h3, if_neg h1]
      by_cases h4 : hdrType h = C.ARRAY_CONTAINER_TAG
      · simp only [if_pos h4]; exact run_bind_ret_pair _
      · simp only [if_neg h4]
        by_cases h5 : hdrType h = C.OBJECT_CONTAINER_TAG
        · simp only [if_pos h5]; exact run_bind_ret_pair _
        · simp only [if_neg h5, Ctl.run_ret']

/-! ## the loops, for any callee `rec` that agrees with `decScalar` below some fuel -/

/-- what the loops assume about the function they call -/
def RecOK (f : Nat) (rec : Tr.Decoder → Tr.JEntry → Res (Tr.Value × Tr.Decoder)) : Prop :=
  ∀ f', f' < f → ∀ (ty len : Nat) (bs : Bytes), len < 4294967296 → decScalar f' ty len bs ≠ .fuel →
    rec ⟨bs⟩ ⟨(ty : Nat), (len : Nat)⟩ = tr (decScalar f' ty len bs)

theorem RecOK.mono {f f' : Nat} {rec} (h : RecOK f rec) (hf : f' ≤ f) : RecOK f' rec :=
  fun f'' hlt => h f'' (by omega)

theorem da_loop1_step (rec : Tr.Decoder → Tr.JEntry → Res (Tr.Value × Tr.Decoder)) (je : Tr.JEntry)
    (self : Tr.Decoder) (values : List Tr.Value) :
    Tr.Decoder.decode_array.loop1 rec je (self, values) =
      (Ctl.ofRes (rec self je) >>= fun p => Ctl.val (.next (p.2, values ++ [p.1]))) := by
  unfold Tr.Decoder.decode_array.loop1
  dsimp only
  cases rec self je with
  | ok p => simp only [Ctl.ofRes_ok', Ctl.val_bind', Rs.vecPush, Ctl.pure_eq', Rs.loopStep_val']
  | err e => simp only [Ctl.ofRes_err', Ctl.ret_bind', Rs.loopStep_err']
  | panic s => simp only [Ctl.ofRes_panic', Ctl.ret_bind', Rs.loopStep_panic']
  | fuel => rfl

theorem entry_bound_cons {e : Nat × Nat} {es : List (Nat × Nat)} (h : ∀ x ∈ e :: es, x.2 < 4294967296) :
    e.2 < 4294967296 ∧ ∀ x ∈ es, x.2 < 4294967296 :=
  ⟨h e (by simp), fun x hx => h x (by simp [hx])⟩

/-- the loop of `decode_array` is the model's `decItems` -/
theorem da_run (rec : Tr.Decoder → Tr.JEntry → Res (Tr.Value × Tr.Decoder)) :
    ∀ (es : List (Nat × Nat)) (f : Nat) (bs : Bytes) (acc : List Tr.Value), RecOK f rec →
      (∀ x ∈ es, x.2 < 4294967296) → decItems f es bs ≠ .fuel →
      Rs.forIn (es.map ofEntry) (⟨bs⟩, acc) (Tr.Decoder.decode_array.loop1 rec) =
        (Ctl.ofRes (eofErr (decItems f es bs)) >>= fun p => Ctl.val (⟨p.2⟩, acc ++ ofJVs p.1) :
          Ctl (Tr.Value × Tr.Decoder) (Tr.Decoder × List Tr.Value)) := by
  intro es
  induction es with
  | nil =>
    intro f bs acc hrec hb hne
    cases f with
    | zero => simp [decItems] at hne
    | succ f => simp [decItems, Rs.forIn_nil, eofErr, ofJVs, Ctl.ofRes_ok', Ctl.val_bind']
  | cons e es ih =>
    intro f bs acc hrec hb hne
    obtain ⟨ty, len⟩ := e
    obtain ⟨hb1, hb2⟩ := entry_bound_cons hb
    cases f with
    | zero => simp [decItems] at hne
    | succ f =>
      simp only [decItems] at hne ⊢
      have hs : decScalar f ty len bs ≠ .fuel := by
        intro c; rw [c] at hne; exact hne rfl
      have hcall := hrec f (by omega) ty len bs hb1 hs
      have hstep := da_loop1_step rec (ofEntry (ty, len)) ⟨bs⟩ acc
      simp only [ofEntry] at hstep
      rw [hcall] at hstep
      simp only [List.map_cons, ofEntry]
      cases hd : decScalar f ty len bs with
      | fuel => exact absurd hd hs
      | err e =>
        rw [hd] at hstep
        simp only [tr_err, Ctl.ofRes_err', Ctl.ret_bind'] at hstep
        rw [Rs.forIn_ret _ _ _ _ _ hstep]
        simp only [eofErr, Ctl.ofRes_err', Ctl.ret_bind']
      | panic s =>
        rw [hd] at hstep
        simp only [tr_panic, Ctl.ofRes_panic', Ctl.ret_bind'] at hstep
        rw [Rs.forIn_ret _ _ _ _ _ hstep]
        simp only [eofErr, Ctl.ofRes_panic', Ctl.ret_bind']
      | ok p =>
        obtain ⟨v, bs'⟩ := p
        rw [hd] at hstep hne
        simp only [tr_ok, Ctl.ofRes_ok', Ctl.val_bind'] at hstep
        rw [Rs.forIn_next _ _ _ _ _ hstep]
        have hne' : decItems f es bs' ≠ .fuel := by
          intro c; simp only [c] at hne; exact hne rfl
        have := ih f bs' (acc ++ [ofJV v]) (hrec.mono (by omega)) hb2 hne'
        try simp only [ofEntry] at this
        rw [this]
        dsimp only
        cases hi : decItems f es bs' with
        | fuel => exact absurd hi hne'
        | err e => simp only [eofErr, Ctl.ofRes_err', Ctl.ret_bind']
        | panic s => simp only [eofErr, Ctl.ofRes_panic', Ctl.ret_bind']
        | ok q =>
          obtain ⟨vs, r⟩ := q
          simp only [eofErr, Ctl.ofRes_ok', Ctl.val_bind', ofJVs, List.append_assoc, List.singleton_append]

/-! ### `decode_object`: the key loop -/

theorem do_loop1_step (rec : Tr.Decoder → Tr.JEntry → Res (Tr.Value × Tr.Decoder)) (i : Int) (je : Tr.JEntry)
    (jentries : List Tr.JEntry) (self : Tr.Decoder) (keys : List Tr.Value) :
    Tr.Decoder.decode_object.loop1 rec i (je :: jentries, self, keys) =
      (Ctl.ofRes (rec self je) >>= fun p => Ctl.val (.next (jentries, p.2, keys ++ [p.1]))) := by
  unfold Tr.Decoder.decode_object.loop1
  dsimp only
  simp only [Rs.popFront, Rs.unwrap_some, Ctl.ofRes_ok', Ctl.val_bind']
  cases rec self je with
  | ok p => simp only [Ctl.ofRes_ok', Ctl.val_bind', Rs.pushBack, Ctl.pure_eq', Rs.loopStep_val']
  | err e => simp only [Ctl.ofRes_err', Ctl.ret_bind', Rs.loopStep_err']
  | panic s => simp only [Ctl.ofRes_panic', Ctl.ret_bind', Rs.loopStep_panic']
  | fuel => rfl

/-- the first loop of `decode_object` is the model's `decItems` on the key entries; the value entries
stay in the queue -/
theorem do_run1 (rec : Tr.Decoder → Tr.JEntry → Res (Tr.Value × Tr.Decoder)) :
    ∀ (es1 : List (Nat × Nat)) (f : Nat) (bs : Bytes) (keys : List Tr.Value) (es2 : List (Nat × Nat)) (i : Int),
      RecOK f rec → (∀ x ∈ es1, x.2 < 4294967296) → decItems f es1 bs ≠ .fuel →
      Rs.forRangeAux (Tr.Decoder.decode_object.loop1 rec) es1.length i ((es1 ++ es2).map ofEntry, ⟨bs⟩, keys) =
        (Ctl.ofRes (eofErr (decItems f es1 bs)) >>= fun p => Ctl.val (es2.map ofEntry, ⟨p.2⟩, keys ++ ofJVs p.1) :
          Ctl (Tr.Value × Tr.Decoder) (List Tr.JEntry × Tr.Decoder × List Tr.Value)) := by
  intro es1
  induction es1 with
  | nil =>
    intro f bs keys es2 i hrec hb hne
    cases f with
    | zero => simp [decItems] at hne
    | succ f => simp [decItems, Rs.forRangeAux_zero, eofErr, ofJVs, Ctl.ofRes_ok', Ctl.val_bind']
  | cons e es ih =>
    intro f bs keys es2 i hrec hb hne
    obtain ⟨ty, len⟩ := e
    obtain ⟨hb1, hb2⟩ := entry_bound_cons hb
    cases f with
    | zero => simp [decItems] at hne
    | succ f =>
      simp only [decItems] at hne ⊢
      have hs : decScalar f ty len bs ≠ .fuel := by
        intro c; rw [c] at hne; exact hne rfl
      have hcall := hrec f (by omega) ty len bs hb1 hs
      have hstep := do_loop1_step rec i (ofEntry (ty, len)) ((es ++ es2).map ofEntry) ⟨bs⟩ keys
      simp only [ofEntry] at hstep
      rw [hcall] at hstep
      simp only [List.map_cons, List.cons_append, List.length_cons, ofEntry]
      cases hd : decScalar f ty len bs with
      | fuel => exact absurd hd hs
      | err e =>
        rw [hd] at hstep
        simp only [tr_err, Ctl.ofRes_err', Ctl.ret_bind'] at hstep
        rw [Rs.forRangeAux_ret _ _ _ _ _ hstep]
        simp only [eofErr, Ctl.ofRes_err', Ctl.ret_bind']
      | panic s =>
        rw [hd] at hstep
        simp only [tr_panic, Ctl.ofRes_panic', Ctl.ret_bind'] at hstep
        rw [Rs.forRangeAux_ret _ _ _ _ _ hstep]
        simp only [eofErr, Ctl.ofRes_panic', Ctl.ret_bind']
      | ok p =>
        obtain ⟨v, bs'⟩ := p
        rw [hd] at hstep hne
        simp only [tr_ok, Ctl.ofRes_ok', Ctl.val_bind'] at hstep
        rw [Rs.forRangeAux_next _ _ _ _ _ hstep]
        have hne' : decItems f es bs' ≠ .fuel := by
          intro c; simp only [c] at hne; exact hne rfl
        have := ih f bs' (keys ++ [ofJV v]) es2 (i + 1) (hrec.mono (by omega)) hb2 hne'
        try simp only [ofEntry] at this
        rw [this]
        dsimp only
        cases hi : decItems f es bs' with
        | fuel => exact absurd hi hne'
        | err e => simp only [eofErr, Ctl.ofRes_err', Ctl.ret_bind']
        | panic s => simp only [eofErr, Ctl.ofRes_panic', Ctl.ret_bind']
        | ok q =>
          obtain ⟨vs, r⟩ := q
          simp only [eofErr, Ctl.ofRes_ok', Ctl.val_bind', ofJVs, List.append_assoc, List.singleton_append]

/-! ### `decode_object`: the value loop -/

theorem as_str_agrees (k : JV) :
    Tr.Value.as_str (ofJV k) = .ok (match k with | .str s => some s | _ => none) := by
  cases k <;> rfl

theorem do_loop2_step (rec : Tr.Decoder → Tr.JEntry → Res (Tr.Value × Tr.Decoder)) (i : Int) (k : JV)
    (keys : List Tr.Value) (je : Tr.JEntry) (jentries : List Tr.JEntry) (self : Tr.Decoder)
    (obj : List (Bytes × Tr.Value)) :
    Tr.Decoder.decode_object.loop2 rec i (ofJV k :: keys, je :: jentries, self, obj) =
      match k with
      | .str s => (Ctl.ofRes (rec self je) >>= fun p => Ctl.val (.next (keys, jentries, p.2, Rs.btreeInsert obj s p.1)))
      | _ => Ctl.ret (.err "InvalidJsonbJEntry") := by
  unfold Tr.Decoder.decode_object.loop2
  dsimp only
  simp only [Rs.popFront, Rs.unwrap_some, Ctl.ofRes_ok', Ctl.val_bind', as_str_agrees]
  cases k with
  | str s =>
    simp only [Rs.okOr, Ctl.ofRes_ok', Ctl.val_bind']
    cases rec self je with
    | ok p => simp only [Ctl.ofRes_ok', Ctl.val_bind', Ctl.pure_eq', Rs.loopStep_val']
    | err e => simp only [Ctl.ofRes_err', Ctl.ret_bind', Rs.loopStep_err']
    | panic s => simp only [Ctl.ofRes_panic', Ctl.ret_bind', Rs.loopStep_panic']
    | fuel => rfl
  | _ => simp only [Rs.okOr, Ctl.ofRes_err', Ctl.ret_bind', Rs.loopStep_err']

/-- inserting the decoded pairs one by one, as the loop does -/
def insertAll (m : List (Bytes × JV)) (kvs : List (Bytes × JV)) : List (Bytes × JV) :=
  kvs.foldl (fun m kv => insertKV kv.1 kv.2 m) m

theorem mkObj_eq (kvs : List (Bytes × JV)) : mkObj kvs = insertAll [] kvs := rfl

/-- the second loop of `decode_object` is the model's `decObjVals` followed by the inserts of `mkObj` -/
theorem do_run2 (rec : Tr.Decoder → Tr.JEntry → Res (Tr.Value × Tr.Decoder)) :
    ∀ (ks : List JV) (f : Nat) (es : List (Nat × Nat)) (bs : Bytes) (m : List (Bytes × JV)) (i : Int),
      RecOK f rec → (∀ x ∈ es, x.2 < 4294967296) → ks.length ≤ es.length → decObjVals f ks es bs ≠ .fuel →
      Rs.forRangeAux (Tr.Decoder.decode_object.loop2 rec) ks.length i (ofJVs ks, es.map ofEntry, ⟨bs⟩, ofKVs m) =
        (Ctl.ofRes (eofErr (decObjVals f ks es bs)) >>= fun p =>
            Ctl.val ([], (es.drop ks.length).map ofEntry, ⟨p.2⟩, ofKVs (insertAll m p.1)) :
          Ctl (Tr.Value × Tr.Decoder) (List Tr.Value × List Tr.JEntry × Tr.Decoder × List (Bytes × Tr.Value))) := by
  intro ks
  induction ks with
  | nil =>
    intro f es bs m i hrec hb hl hne
    cases f with
    | zero => simp [decObjVals] at hne
    | succ f => simp [decObjVals, Rs.forRangeAux_zero, eofErr, ofJVs, insertAll, Ctl.ofRes_ok', Ctl.val_bind']
  | cons k ks ih =>
    intro f es bs m i hrec hb hl hne
    cases f with
    | zero => simp [decObjVals] at hne
    | succ f =>
      cases es with
      | nil => simp at hl
      | cons e es =>
        obtain ⟨ty, len⟩ := e
        obtain ⟨hb1, hb2⟩ := entry_bound_cons hb
        have hstep := do_loop2_step rec i k (ofJVs ks) (ofEntry (ty, len)) (es.map ofEntry) ⟨bs⟩ (ofKVs m)
        simp only [List.length_cons, ofJVs, List.map_cons, List.drop_succ_cons]
        cases k with
        | str s =>
          simp only [decObjVals] at hne ⊢
          have hs : decScalar f ty len bs ≠ .fuel := by
            intro c; rw [c] at hne; exact hne rfl
          have hcall := hrec f (by omega) ty len bs hb1 hs
          simp only [ofEntry] at hstep
          rw [hcall] at hstep
          simp only [ofEntry]
          cases hd : decScalar f ty len bs with
          | fuel => exact absurd hd hs
          | err e =>
            rw [hd] at hstep
            simp only [tr_err, Ctl.ofRes_err', Ctl.ret_bind'] at hstep
            rw [Rs.forRangeAux_ret _ _ _ _ _ hstep]
            simp only [eofErr, Ctl.ofRes_err', Ctl.ret_bind']
          | panic s =>
            rw [hd] at hstep
            simp only [tr_panic, Ctl.ofRes_panic', Ctl.ret_bind'] at hstep
            rw [Rs.forRangeAux_ret _ _ _ _ _ hstep]
            simp only [eofErr, Ctl.ofRes_panic', Ctl.ret_bind']
          | ok p =>
            obtain ⟨v, bs'⟩ := p
            rw [hd] at hstep hne
            simp only [tr_ok, Ctl.ofRes_ok', Ctl.val_bind', btreeInsert_agrees] at hstep
            rw [Rs.forRangeAux_next _ _ _ _ _ hstep]
            have hne' : decObjVals f ks es bs' ≠ .fuel := by
              intro c; simp only [c] at hne; exact hne rfl
            have := ih f es bs' (insertKV s v m) (i + 1) (hrec.mono (by omega)) hb2 (by simpa using hl) hne'
            rw [this]
            dsimp only
            cases hi : decObjVals f ks es bs' with
            | fuel => exact absurd hi hne'
            | err e => simp only [eofErr, Ctl.ofRes_err', Ctl.ret_bind']
            | panic s => simp only [eofErr, Ctl.ofRes_panic', Ctl.ret_bind']
            | ok q =>
              obtain ⟨kvs, r⟩ := q
              simp only [eofErr, Ctl.ofRes_ok', Ctl.val_bind', insertAll, List.foldl_cons]
        | null | bool _ | num _ | arr _ | obj _ =>
          simp only [decObjVals]
          rw [Rs.forRangeAux_ret _ _ _ _ _ hstep]
          simp only [eofErr, Ctl.ofRes_err', Ctl.ret_bind']
          rfl

end Jsonb.TrAgree
