/-
C02, upper bound: the crate's JSON text parser accepts NOTHING outside the documented relaxed
language, and with the documented meaning.

`Relaxed.parse` (Spec/RelaxedJson.lean) is an independent reader for "RFC 8259 + exactly the
relaxations the change log and tests establish".  Proved here:

* `relaxed_bound`    : `parseValue t = .ok v → Relaxed.parse t = some v`
* `relaxed_complete` : `Relaxed.parse t = some v → parseValue t = .ok v`
  hence `relaxed_exact`: the accepted language of the crate's parser IS the relaxed language;
* `relaxed_rejects`  : whatever `Relaxed.parse` rejects is rejected with an error (no panic);
* `strict_relaxed`   : `Strict.parse t = some v → Relaxed.parse t = some v` (sanity of the spec:
  it extends RFC 8259).

Undocumented relaxations found: none that enlarge the accepted LANGUAGE.  Three quirks of the
MEANING of relaxation (d) (unpaired surrogates), visible in `Relaxed.afterU`:
  1. `"\uD800\u0041"`       ↦ the 12 characters `\uD800\u0041` — the escape following an unpaired
     high surrogate is kept literally as well, although it denotes `A`;
  2. `"\uD800\uD800\uDC00"` ↦ the 18 characters as written — the second high surrogate is consumed
     together with the first and therefore not paired with the low one that follows;
  3. `"\u{D800}"`           ↦ `\uD800` — the braces of a bracketed escape are not kept.
(The model follows util.rs `parse_escaped_string` lines 110–143 here.)
-/
import JsonbModel.Proofs.RelaxedBound4

namespace Jsonb
open RB JP

/-- **upper bound**: every byte string the crate's parser accepts is a document of the relaxed
language (RFC 8259 + the documented relaxations), and the value returned is the value the
specification assigns to it -/
theorem relaxed_bound {t : Bytes} {v : JV} (h : parseValue t = .ok v) : Relaxed.parse t = some v := by
  unfold parseValue at h
  have hV := (agree_all (fuelFor t)).1 t 0
  cases hp : parseJsonValue (fuelFor t) t 0 with
  | ok p =>
    obtain ⟨val, idx⟩ := p
    rw [hp] at h hV
    have hv : Relaxed.value (2 * t.length + 2) t = some (val, t.drop idx) := by
      have : Relaxed.value (fuelFor t) (t.drop 0) = some (val, t.drop idx) := hV
      simpa [fuelFor] using this
    obtain ⟨j, hsk, -, hdj⟩ := skipUnused_ws t idx
    simp only [bind_ok, hsk] at h
    split at h
    · exact absurd h (by simp)
    · rename_i hge
      simp only [pure_eq, Res.ok.injEq] at h
      subst h
      have hnil : Relaxed.ws (t.drop idx) = [] := by
        rw [← hdj]; exact List.drop_eq_nil_of_le (by omega)
      unfold Relaxed.parse
      rw [hv]
      simp [hnil]
  | err e => rw [hp] at h; exact absurd h (by simp)
  | panic e => rw [hp] at h; exact absurd h (by simp)
  | fuel => rw [hp] at h; exact absurd h (by simp)

/-- **completeness**: every document of the relaxed language is accepted by the crate's parser,
with the value the specification assigns to it -/
theorem relaxed_complete {t : Bytes} {v : JV} (h : Relaxed.parse t = some v) : parseValue t = .ok v := by
  unfold Relaxed.parse at h
  split at h
  rotate_left
  · exact absurd h (by simp)
  rename_i v' r hv
  split at h
  rotate_left
  · exact absurd h (by simp)
  rename_i hws
  simp only [Option.some.injEq] at h
  subst h
  have hnil : Relaxed.ws r = [] := by simpa using hws
  have hV := (agree_all (fuelFor t)).1 t 0
  have hv' : Relaxed.value (fuelFor t) (t.drop 0) = some (v', r) := by simpa [fuelFor] using hv
  have hnf := parseValue_fuel t
  unfold parseValue at hnf ⊢
  cases hp : parseJsonValue (fuelFor t) t 0 with
  | ok p =>
    obtain ⟨val, idx⟩ := p
    rw [hp] at hV
    have : Relaxed.value (fuelFor t) (t.drop 0) = some (val, t.drop idx) := hV
    rw [hv'] at this
    simp only [Option.some.injEq, Prod.mk.injEq] at this
    obtain ⟨rfl, rfl⟩ := this
    obtain ⟨j, hsk, -, hdj⟩ := skipUnused_ws t idx
    rw [hnil] at hdj
    have hge : ¬ j < t.length := by
      have := congrArg List.length hdj
      simp only [List.length_drop, List.length_nil] at this
      omega
    simp only [bind_ok, hsk, if_neg hge, pure_eq]
  | err e =>
    rw [hp] at hV
    have : Relaxed.value (fuelFor t) (t.drop 0) = none := hV
    rw [hv'] at this; exact absurd this (by simp)
  | panic e =>
    rw [hp] at hV
    have : Relaxed.value (fuelFor t) (t.drop 0) = none := hV
    rw [hv'] at this; exact absurd this (by simp)
  | fuel => rw [hp] at hnf; exact absurd rfl hnf

/-- **exactness**: the language the crate's parser accepts is exactly the relaxed language, with
the same meaning -/
theorem relaxed_exact (t : Bytes) (v : JV) : parseValue t = .ok v ↔ Relaxed.parse t = some v :=
  ⟨relaxed_bound, relaxed_complete⟩

/-- **every other byte string is rejected with an error** (not a panic, not a value) -/
theorem relaxed_rejects {t : Bytes} (h : Relaxed.parse t = none) : ∃ e, parseValue t = .err e := by
  rcases relaxed_rejects_or_accepts t with ⟨v, hv⟩ | he
  · rw [relaxed_bound hv] at h; exact absurd h (by simp)
  · exact he

theorem relaxed_rejects_iff (t : Bytes) : Relaxed.parse t = none ↔ ∃ e, parseValue t = .err e := by
  refine ⟨relaxed_rejects, ?_⟩
  rintro ⟨e, he⟩
  cases hs : Relaxed.parse t with
  | none => rfl
  | some v => rw [relaxed_complete hs] at he; exact absurd he (by simp)

/-- **the relaxed language extends RFC 8259**, with the same meaning (sanity check of the
specification; follows from `strict_subset` and `relaxed_bound`) -/
theorem strict_relaxed {t : Bytes} {v : JV} (h : Strict.parse t = some v) : Relaxed.parse t = some v :=
  relaxed_bound (strict_subset h)

/-! ### Kernel-checked examples

The specification side is evaluated by the kernel (`by rfl`); the statement about the crate's
parser follows from `relaxed_complete` / `relaxed_rejects`.  (`parseValue` itself uses
well-founded recursion in `skip_unused` and the string scanner and does not reduce in the
kernel; `#eval parseValue …` gives the same outcomes.) -/

/-! #### accepted: one example per relaxation -/

/-- (a) form feed between tokens: `<FF>[1<FF>,2]<FF>` -/
example : parseValue [0x0C, 0x5B, 0x31, 0x0C, 0x2C, 0x32, 0x5D, 0x0C] = .ok (Jsonb.JV.arr [Jsonb.JV.num (Jsonb.Num.uint 1), Jsonb.JV.num (Jsonb.Num.uint 2)]) :=
  relaxed_complete (by rfl)

/-- (a) backslash-escaped white space, spelled with a backslash and a letter: `\n[1\t,\r2]\x0C` -/
example : parseValue [0x5C, 0x6E, 0x5B, 0x31, 0x5C, 0x74, 0x2C, 0x5C, 0x72, 0x32, 0x5D, 0x5C, 0x78, 0x30, 0x43] = .ok (Jsonb.JV.arr [Jsonb.JV.num (Jsonb.Num.uint 1), Jsonb.JV.num (Jsonb.Num.uint 2)]) :=
  relaxed_complete (by rfl)

/-- (a) the same inside an object: `{\n"a"\t:\r1\x0C}` -/
example : parseValue [0x7B, 0x5C, 0x6E, 0x22, 0x61, 0x22, 0x5C, 0x74, 0x3A, 0x5C, 0x72, 0x31, 0x5C, 0x78, 0x30, 0x43, 0x7D] = .ok (Jsonb.JV.obj [([97], Jsonb.JV.num (Jsonb.Num.uint 1))]) :=
  relaxed_complete (by rfl)

/-- (b) raw control characters inside a string: `"a<01><LF><00>b"` -/
example : parseValue [0x22, 0x61, 0x01, 0x0A, 0x00, 0x62, 0x22] = .ok (Jsonb.JV.str [97, 1, 10, 0, 98]) :=
  relaxed_complete (by rfl)

/-- (c) bracketed escape: `"\u{0041}"` -/
example : parseValue [0x22, 0x5C, 0x75, 0x7B, 0x30, 0x30, 0x34, 0x31, 0x7D, 0x22] = .ok (Jsonb.JV.str [65]) :=
  relaxed_complete (by rfl)

/-- (c) bracketed surrogate pair, also mixed: `"\u{D83D}\u{DE00}\uD83D\u{DE00}"` -/
example : parseValue [0x22, 0x5C, 0x75, 0x7B, 0x44, 0x38, 0x33, 0x44, 0x7D, 0x5C, 0x75, 0x7B, 0x44, 0x45, 0x30, 0x30, 0x7D, 0x5C, 0x75, 0x44, 0x38, 0x33, 0x44, 0x5C, 0x75, 0x7B, 0x44, 0x45, 0x30, 0x30, 0x7D, 0x22] = .ok (Jsonb.JV.str [240, 159, 152, 128, 240, 159, 152, 128]) :=
  relaxed_complete (by rfl)

/-- (d) lone high surrogate: `"\uD800"` -/
example : parseValue [0x22, 0x5C, 0x75, 0x44, 0x38, 0x30, 0x30, 0x22] = .ok (Jsonb.JV.str [92, 117, 68, 56, 48, 48]) :=
  relaxed_complete (by rfl)

/-- (d) lone low surrogate, digits kept as written: `"\udc00"` -/
example : parseValue [0x22, 0x5C, 0x75, 0x64, 0x63, 0x30, 0x30, 0x22] = .ok (Jsonb.JV.str [92, 117, 100, 99, 48, 48]) :=
  relaxed_complete (by rfl)

/-- (d) high surrogate followed by a plain character: `"\uD800x"` -/
example : parseValue [0x22, 0x5C, 0x75, 0x44, 0x38, 0x30, 0x30, 0x78, 0x22] = .ok (Jsonb.JV.str [92, 117, 68, 56, 48, 48, 120]) :=
  relaxed_complete (by rfl)

/-- (d) high surrogate followed by a simple escape: `"\uD800\n"` -/
example : parseValue [0x22, 0x5C, 0x75, 0x44, 0x38, 0x30, 0x30, 0x5C, 0x6E, 0x22] = .ok (Jsonb.JV.str [92, 117, 68, 56, 48, 48, 10]) :=
  relaxed_complete (by rfl)

/-- (d) QUIRK: high surrogate followed by an ordinary `\u` escape — both kept literally, `\u0041` is NOT decoded to `A`: `"\uD800\u0041"` -/
example : parseValue [0x22, 0x5C, 0x75, 0x44, 0x38, 0x30, 0x30, 0x5C, 0x75, 0x30, 0x30, 0x34, 0x31, 0x22] = .ok (Jsonb.JV.str [92, 117, 68, 56, 48, 48, 92, 117, 48, 48, 52, 49]) :=
  relaxed_complete (by rfl)

/-- (d) QUIRK: high, high, low — the second high is not paired with the low: `"\uD800\uD800\uDC00"` -/
example : parseValue [0x22, 0x5C, 0x75, 0x44, 0x38, 0x30, 0x30, 0x5C, 0x75, 0x44, 0x38, 0x30, 0x30, 0x5C, 0x75, 0x44, 0x43, 0x30, 0x30, 0x22] = .ok (Jsonb.JV.str [92, 117, 68, 56, 48, 48, 92, 117, 68, 56, 48, 48, 92, 117, 68, 67, 48, 48]) :=
  relaxed_complete (by rfl)

/-- (d) QUIRK: the braces of a bracketed lone surrogate are dropped: `"\u{D800}"` -/
example : parseValue [0x22, 0x5C, 0x75, 0x7B, 0x44, 0x38, 0x30, 0x30, 0x7D, 0x22] = .ok (Jsonb.JV.str [92, 117, 68, 56, 48, 48]) :=
  relaxed_complete (by rfl)

/-- (e) beyond the double range: `[1e400,-1e400,1e-400]` -/
example : parseValue [0x5B, 0x31, 0x65, 0x34, 0x30, 0x30, 0x2C, 0x2D, 0x31, 0x65, 0x34, 0x30, 0x30, 0x2C, 0x31, 0x65, 0x2D, 0x34, 0x30, 0x30, 0x5D] = .ok (Jsonb.JV.arr
  [Jsonb.JV.num (Jsonb.Num.float 9218868437227405312),
   Jsonb.JV.num (Jsonb.Num.float 18442240474082181120),
   Jsonb.JV.num (Jsonb.Num.float 0)]) :=
  relaxed_complete (by rfl)

/-- everything together: ` {"b" : [1, -0, 1.5e3], "a" : "\u00e9\ud83d\ude00\n", "b" : null} ` -/
example : parseValue [0x20, 0x7B, 0x22, 0x62, 0x22, 0x20, 0x3A, 0x20, 0x5B, 0x31, 0x2C, 0x20, 0x2D, 0x30, 0x2C, 0x20, 0x31, 0x2E, 0x35, 0x65, 0x33, 0x5D, 0x2C, 0x20, 0x22, 0x61, 0x22, 0x20, 0x3A, 0x20, 0x22, 0x5C, 0x75, 0x30, 0x30, 0x65, 0x39, 0x5C, 0x75, 0x64, 0x38, 0x33, 0x64, 0x5C, 0x75, 0x64, 0x65, 0x30, 0x30, 0x5C, 0x6E, 0x22, 0x2C, 0x20, 0x22, 0x62, 0x22, 0x20, 0x3A, 0x20, 0x6E, 0x75, 0x6C, 0x6C, 0x7D, 0x20] = .ok (Jsonb.JV.obj [([97], Jsonb.JV.str [195, 169, 240, 159, 152, 128, 10]), ([98], Jsonb.JV.null)]) :=
  relaxed_complete (by rfl)

/-! #### rejected -/

/-- leading plus `+1` -/
example : ∃ e, parseValue [0x2B, 0x31] = .err e := relaxed_rejects (by rfl)

/-- `.5` -/
example : ∃ e, parseValue [0x2E, 0x35] = .err e := relaxed_rejects (by rfl)

/-- `1.` -/
example : ∃ e, parseValue [0x31, 0x2E] = .err e := relaxed_rejects (by rfl)

/-- leading zero `01` -/
example : ∃ e, parseValue [0x30, 0x31] = .err e := relaxed_rejects (by rfl)

/-- `-01` -/
example : ∃ e, parseValue [0x2D, 0x30, 0x31] = .err e := relaxed_rejects (by rfl)

/-- `1e` -/
example : ∃ e, parseValue [0x31, 0x65] = .err e := relaxed_rejects (by rfl)

/-- `1e+` -/
example : ∃ e, parseValue [0x31, 0x65, 0x2B] = .err e := relaxed_rejects (by rfl)

/-- hex `0x10` -/
example : ∃ e, parseValue [0x30, 0x78, 0x31, 0x30] = .err e := relaxed_rejects (by rfl)

/-- `NaN` -/
example : ∃ e, parseValue [0x4E, 0x61, 0x4E] = .err e := relaxed_rejects (by rfl)

/-- `Infinity` -/
example : ∃ e, parseValue [0x49, 0x6E, 0x66, 0x69, 0x6E, 0x69, 0x74, 0x79] = .err e := relaxed_rejects (by rfl)

/-- `-Infinity` -/
example : ∃ e, parseValue [0x2D, 0x49, 0x6E, 0x66, 0x69, 0x6E, 0x69, 0x74, 0x79] = .err e := relaxed_rejects (by rfl)

/-- `nan` -/
example : ∃ e, parseValue [0x6E, 0x61, 0x6E] = .err e := relaxed_rejects (by rfl)

/-- `inf` -/
example : ∃ e, parseValue [0x69, 0x6E, 0x66] = .err e := relaxed_rejects (by rfl)

/-- `- 1` -/
example : ∃ e, parseValue [0x2D, 0x20, 0x31] = .err e := relaxed_rejects (by rfl)

/-- trailing comma `[1,]` -/
example : ∃ e, parseValue [0x5B, 0x31, 0x2C, 0x5D] = .err e := relaxed_rejects (by rfl)

/-- `[,1]` -/
example : ∃ e, parseValue [0x5B, 0x2C, 0x31, 0x5D] = .err e := relaxed_rejects (by rfl)

/-- `[1 2]` -/
example : ∃ e, parseValue [0x5B, 0x31, 0x20, 0x32, 0x5D] = .err e := relaxed_rejects (by rfl)

/-- trailing comma `{"a":1,}` -/
example : ∃ e, parseValue [0x7B, 0x22, 0x61, 0x22, 0x3A, 0x31, 0x2C, 0x7D] = .err e := relaxed_rejects (by rfl)

/-- single quotes `'a'` -/
example : ∃ e, parseValue [0x27, 0x61, 0x27] = .err e := relaxed_rejects (by rfl)

/-- unquoted key `{a:1}` -/
example : ∃ e, parseValue [0x7B, 0x61, 0x3A, 0x31, 0x7D] = .err e := relaxed_rejects (by rfl)

/-- non-string key `{1:1}` -/
example : ∃ e, parseValue [0x7B, 0x31, 0x3A, 0x31, 0x7D] = .err e := relaxed_rejects (by rfl)

/-- comment `// c<LF>1` -/
example : ∃ e, parseValue [0x2F, 0x2F, 0x20, 0x63, 0x0A, 0x31] = .err e := relaxed_rejects (by rfl)

/-- comment `/* c */1` -/
example : ∃ e, parseValue [0x2F, 0x2A, 0x20, 0x63, 0x20, 0x2A, 0x2F, 0x31] = .err e := relaxed_rejects (by rfl)

/-- `1 // c` -/
example : ∃ e, parseValue [0x31, 0x20, 0x2F, 0x2F, 0x20, 0x63] = .err e := relaxed_rejects (by rfl)

/-- UTF-8 byte order mark before the value -/
example : ∃ e, parseValue [0xEF, 0xBB, 0xBF, 0x31] = .err e := relaxed_rejects (by rfl)

/-- NUL byte as white space -/
example : ∃ e, parseValue [0x00, 0x31] = .err e := relaxed_rejects (by rfl)

/-- NUL byte after the value -/
example : ∃ e, parseValue [0x31, 0x00] = .err e := relaxed_rejects (by rfl)

/-- invalid UTF-8 inside a string (0xFF) -/
example : ∃ e, parseValue [0x22, 0xFF, 0x22] = .err e := relaxed_rejects (by rfl)

/-- overlong UTF-8 inside a string (C0 80) -/
example : ∃ e, parseValue [0x22, 0xC0, 0x80, 0x22] = .err e := relaxed_rejects (by rfl)

/-- `"\x41"` -/
example : ∃ e, parseValue [0x22, 0x5C, 0x78, 0x34, 0x31, 0x22] = .err e := relaxed_rejects (by rfl)

/-- `"\a"` -/
example : ∃ e, parseValue [0x22, 0x5C, 0x61, 0x22] = .err e := relaxed_rejects (by rfl)

/-- `"\'"` -/
example : ∃ e, parseValue [0x22, 0x5C, 0x27, 0x22] = .err e := relaxed_rejects (by rfl)

/-- backslash at the end of a string `"abc\"` -/
example : ∃ e, parseValue [0x22, 0x61, 0x62, 0x63, 0x5C, 0x22] = .err e := relaxed_rejects (by rfl)

/-- `"\u1"` -/
example : ∃ e, parseValue [0x22, 0x5C, 0x75, 0x31, 0x22] = .err e := relaxed_rejects (by rfl)

/-- `"\u12"` -/
example : ∃ e, parseValue [0x22, 0x5C, 0x75, 0x31, 0x32, 0x22] = .err e := relaxed_rejects (by rfl)

/-- `"\u123"` -/
example : ∃ e, parseValue [0x22, 0x5C, 0x75, 0x31, 0x32, 0x33, 0x22] = .err e := relaxed_rejects (by rfl)

/-- `"\u12"34"` -/
example : ∃ e, parseValue [0x22, 0x5C, 0x75, 0x31, 0x32, 0x22, 0x33, 0x34, 0x22] = .err e := relaxed_rejects (by rfl)

/-- `"\u{}"` -/
example : ∃ e, parseValue [0x22, 0x5C, 0x75, 0x7B, 0x7D, 0x22] = .err e := relaxed_rejects (by rfl)

/-- `"\u{41}"` -/
example : ∃ e, parseValue [0x22, 0x5C, 0x75, 0x7B, 0x34, 0x31, 0x7D, 0x22] = .err e := relaxed_rejects (by rfl)

/-- `"\u{041}"` -/
example : ∃ e, parseValue [0x22, 0x5C, 0x75, 0x7B, 0x30, 0x34, 0x31, 0x7D, 0x22] = .err e := relaxed_rejects (by rfl)

/-- `"\u{00041}"` -/
example : ∃ e, parseValue [0x22, 0x5C, 0x75, 0x7B, 0x30, 0x30, 0x30, 0x34, 0x31, 0x7D, 0x22] = .err e := relaxed_rejects (by rfl)

/-- `"\u{1F600}"` -/
example : ∃ e, parseValue [0x22, 0x5C, 0x75, 0x7B, 0x31, 0x46, 0x36, 0x30, 0x30, 0x7D, 0x22] = .err e := relaxed_rejects (by rfl)

/-- `"\u{0041"` -/
example : ∃ e, parseValue [0x22, 0x5C, 0x75, 0x7B, 0x30, 0x30, 0x34, 0x31, 0x22] = .err e := relaxed_rejects (by rfl)

/-- upper-case `"\U0041"` -/
example : ∃ e, parseValue [0x22, 0x5C, 0x55, 0x30, 0x30, 0x34, 0x31, 0x22] = .err e := relaxed_rejects (by rfl)

/-- `"\u004G"` -/
example : ∃ e, parseValue [0x22, 0x5C, 0x75, 0x30, 0x30, 0x34, 0x47, 0x22] = .err e := relaxed_rejects (by rfl)

/-- high surrogate followed by a malformed escape `"\uD800\uZZZZ"` -/
example : ∃ e, parseValue [0x22, 0x5C, 0x75, 0x44, 0x38, 0x30, 0x30, 0x5C, 0x75, 0x5A, 0x5A, 0x5A, 0x5A, 0x22] = .err e := relaxed_rejects (by rfl)

/-- vertical tab as white space -/
example : ∃ e, parseValue [0x0B, 0x31] = .err e := relaxed_rejects (by rfl)

/-- U+00A0 as white space -/
example : ∃ e, parseValue [0xC2, 0xA0, 0x31] = .err e := relaxed_rejects (by rfl)

/-- `\f1` (backslash, letter f) -/
example : ∃ e, parseValue [0x5C, 0x66, 0x31] = .err e := relaxed_rejects (by rfl)

/-- `\b1` -/
example : ∃ e, parseValue [0x5C, 0x62, 0x31] = .err e := relaxed_rejects (by rfl)

/-- lower-case `\x0c1` -/
example : ∃ e, parseValue [0x5C, 0x78, 0x30, 0x63, 0x31] = .err e := relaxed_rejects (by rfl)

/-- `\ 1` -/
example : ∃ e, parseValue [0x5C, 0x20, 0x31] = .err e := relaxed_rejects (by rfl)

/-- a lone backslash -/
example : ∃ e, parseValue [0x5C] = .err e := relaxed_rejects (by rfl)

/-- `1\` -/
example : ∃ e, parseValue [0x31, 0x5C] = .err e := relaxed_rejects (by rfl)

/-- escaped white space inside a literal `tru\ne` -/
example : ∃ e, parseValue [0x74, 0x72, 0x75, 0x5C, 0x6E, 0x65] = .err e := relaxed_rejects (by rfl)

/-- `-\n1` -/
example : ∃ e, parseValue [0x2D, 0x5C, 0x6E, 0x31] = .err e := relaxed_rejects (by rfl)

/-- two values `1 2` -/
example : ∃ e, parseValue [0x31, 0x20, 0x32] = .err e := relaxed_rejects (by rfl)

/-- `null null` -/
example : ∃ e, parseValue [0x6E, 0x75, 0x6C, 0x6C, 0x20, 0x6E, 0x75, 0x6C, 0x6C] = .err e := relaxed_rejects (by rfl)

/-- `[]]` -/
example : ∃ e, parseValue [0x5B, 0x5D, 0x5D] = .err e := relaxed_rejects (by rfl)

/-- the empty text -/
example : ∃ e, parseValue [] = .err e := relaxed_rejects (by rfl)

/-- only white space -/
example : ∃ e, parseValue [0x20, 0x0C] = .err e := relaxed_rejects (by rfl)

/-- `nul` -/
example : ∃ e, parseValue [0x6E, 0x75, 0x6C] = .err e := relaxed_rejects (by rfl)

/-- `True` -/
example : ∃ e, parseValue [0x54, 0x72, 0x75, 0x65] = .err e := relaxed_rejects (by rfl)

/-- unterminated `[1` -/
example : ∃ e, parseValue [0x5B, 0x31] = .err e := relaxed_rejects (by rfl)

/-- unterminated `"a` -/
example : ∃ e, parseValue [0x22, 0x61] = .err e := relaxed_rejects (by rfl)

/-- missing colon `{"a" 1}` -/
example : ∃ e, parseValue [0x7B, 0x22, 0x61, 0x22, 0x20, 0x31, 0x7D] = .err e := relaxed_rejects (by rfl)

/-- missing value `{"a":}` -/
example : ∃ e, parseValue [0x7B, 0x22, 0x61, 0x22, 0x3A, 0x7D] = .err e := relaxed_rejects (by rfl)

/-- raw control character OUTSIDE a string -/
example : ∃ e, parseValue [0x5B, 0x01, 0x31, 0x5D] = .err e := relaxed_rejects (by rfl)


end Jsonb

#print axioms Jsonb.relaxed_bound
#print axioms Jsonb.relaxed_complete
#print axioms Jsonb.relaxed_exact
#print axioms Jsonb.relaxed_rejects
#print axioms Jsonb.relaxed_rejects_iff
#print axioms Jsonb.strict_relaxed
#print axioms Jsonb.RB.skipUnused_ws
#print axioms Jsonb.RB.parseNumber_iff
#print axioms Jsonb.RB.string_agree
#print axioms Jsonb.RB.agree_all
