/-
Agreement theorems, part 3: the translated `cmp_int_float` and `impl Ord for Number` (`cmp`)
of number.rs EQUAL the model's `Num.cmpIntFloat` and `Num.cmp` (the functions C04/C18 are about).
-/
import JsonbModel.Proofs.TranslatedAgree2
import JsonbModel.NumOrd

set_option linter.unusedSimpArgs false

namespace Jsonb.TrAgree
open Jsonb.Rs

/-! ### shifts and masks on natural numbers -/

theorem shr_u64_nat (B : Nat) (s : Int) (hs : 0 ≤ s ∧ s < 64) :
    Rs.shr .u64 (B : Int) s = .ok ((B / 2 ^ s.toNat : Nat) : Int) := by
  have : (0 ≤ s ∧ s < ((IntTy.u64.bits : Nat) : Int)) := by simp [IntTy.bits]; omega
  simp only [Rs.shr, this, and_self, if_true]
  congr 1

theorem shl_u64_one (s : Int) (hs : 0 ≤ s ∧ s < 64) :
    Rs.shl .u64 1 s = .ok ((2 ^ s.toNat : Nat) : Int) := by
  have : (0 ≤ s ∧ s < ((IntTy.u64.bits : Nat) : Int)) := by simp [IntTy.bits]; omega
  have hlt : 2 ^ s.toNat < 2 ^ 64 := Nat.pow_lt_pow_right (by decide) (by omega)
  simp only [Rs.shl, this, and_self, if_true, Int.one_mul]
  generalize 2 ^ s.toNat = P at hlt ⊢
  congr 1
  apply Rs.wrap_of_inRange
  rw [Rs.inRange_iff, Rs.minVal_u64, Rs.maxVal_u64]
  have h2 : (2 : Nat) ^ 64 = 18446744073709551616 := by decide
  rw [h2] at hlt
  omega

theorem bitand_mask (M k : Nat) : Rs.bitand (M : Int) (((2 ^ k : Nat) : Int) - 1) = ((M % 2 ^ k : Nat) : Int) := by
  have hpos : 0 < 2 ^ k := Nat.pow_pos (by decide)
  have : ((2 ^ k : Nat) : Int) - 1 = ((2 ^ k - 1 : Nat) : Int) := by omega
  rw [this, Rs.bitand_natCast, Nat.and_two_pow_sub_one_eq_mod]

/-! ### cmp_int_float -/

/-- the model's `(int_part, has_fraction)` for mantissa `M` and exponent `X` -/
def mPart (M : Nat) (X : Int) : Int × Bool :=
  if M == 0 then (0, false)
  else if X ≥ 12 then (Num.i128Max, false)
  else if X ≥ 0 then ((M : Int) * 2 ^ X.toNat, false)
  else if X > -64 then (((M / 2 ^ (-X).toNat : Nat) : Int), M % 2 ^ (-X).toNat != 0)
  else (0, true)

/-- the model's final comparison -/
def mFinish (i : Int) (negative : Bool) (ph : Int × Bool) : Ordering :=
  match compare i (if negative then -ph.1 else ph.1) with
  | .eq => if ph.2 then (if negative then .gt else .lt) else .eq
  | order => order

/-- `Num.cmpIntFloat` with its `let`s named (definitional unfolding only) -/
theorem model_eq (i : Int) (B : Nat) (hnan : ¬ F64.isNaN B = true) :
    Num.cmpIntFloat i B =
      mFinish i (B / 9223372036854775808 == 1)
        (if ((B / 4503599627370496 % 2048 : Nat) : Int) == 0 then mPart (B % 4503599627370496) (-1074)
         else mPart (B % 4503599627370496 ||| 4503599627370496)
                ((B / 4503599627370496 % 2048 : Nat) - 1075)) := by
  unfold Num.cmpIntFloat
  rw [if_neg hnan]
  by_cases h : (((B / 4503599627370496 % 2048 : Nat) : Int) == 0) = true
  · simp only [h, if_true]; rfl
  · simp only [h]; rfl

/-- run a `let x ← a; K x` once `a` is known to yield `v` (keeps the continuation `K` abstract:
the proofs below never restate translated syntax) -/
theorem bind_run_of {ρ α : Type} (a : Ctl ρ α) (v : α) (K : α → Ctl ρ ρ) (r : Res ρ)
    (ha : a = Ctl.val v) (hK : (K v).run = r) : (a >>= K).run = r := by
  subst ha; exact hK

theorem or_two52 (Fr : Nat) (h : Fr < 4503599627370496) :
    Fr ||| 4503599627370496 = Fr + 4503599627370496 := by
  have := or_lo 1 52 Fr (by simpa using h)
  rw [Nat.or_comm]; simpa [Nat.add_comm] using this

theorem pow_toNat_le (X : Int) (k : Nat) (h : X.toNat ≤ k) : 2 ^ X.toNat ≤ 2 ^ k :=
  Nat.pow_le_pow_right (by decide) h

theorem mPart_range (M : Nat) (X : Int) (hM : M < 9007199254740992) :
    0 ≤ (mPart M X).1 ∧ (mPart M X).1 ≤ 170141183460469231731687303715884105727 := by
  unfold mPart
  by_cases m0 : (M == 0) = true
  · simp [m0]
  by_cases x12 : X ≥ 12
  · simp [m0, x12, Num.i128Max]
  by_cases x0 : X ≥ 0
  · have hP := pow_toNat_le X 11 (by omega)
    have hMP : M * 2 ^ X.toNat ≤ 9007199254740992 * 2 ^ 11 := Nat.mul_le_mul (Nat.le_of_lt hM) hP
    have hc : (M : Int) * 2 ^ X.toNat = ((M * 2 ^ X.toNat : Nat) : Int) := by push_cast; rfl
    simp only [m0, x12, x0, if_false, if_true, Bool.false_eq_true, hc]
    generalize M * 2 ^ X.toNat = Q at hMP
    omega
  by_cases x64 : X > -64
  · have hq : M / 2 ^ (-X).toNat ≤ M := Nat.div_le_self _ _
    simp only [m0, x12, x0, x64, if_false, if_true, Bool.false_eq_true]
    generalize M / 2 ^ (-X).toNat = Q at hq
    omega
  · simp [m0, x12, x0, x64]

theorem cmp_int_float_agrees (i : Int) (B : Nat) (hB : B < 18446744073709551616) :
    Tr.cmp_int_float i B = .ok (Num.cmpIntFloat i B) := by
  by_cases hnan : F64.isNaN B = true
  · simp [Tr.cmp_int_float, Num.cmpIntFloat, f64IsNan_eq, hnan]
  rw [model_eq i B hnan]
  unfold Tr.cmp_int_float
  rw [f64IsNan_eq]
  have e1 : Rs.shr .u64 (Rs.f64ToBits B) 63 = .ok ((B / 9223372036854775808 : Nat) : Int) := by
    have := shr_u64_nat B 63 (by omega); simpa [Rs.f64ToBits] using this
  have e2 : Rs.shr .u64 (Rs.f64ToBits B) 52 = .ok ((B / 4503599627370496 : Nat) : Int) := by
    have := shr_u64_nat B 52 (by omega); simpa [Rs.f64ToBits] using this
  have e3 : Rs.cast .i32 (Rs.bitand ((B / 4503599627370496 : Nat) : Int) 2047)
      = ((B / 4503599627370496 % 2048 : Nat) : Int) := by
    have h := bitand_mask (B / 4503599627370496) 11
    have h' : Rs.bitand ((B / 4503599627370496 : Nat) : Int) 2047 = ((B / 4503599627370496 % 2048 : Nat) : Int) := by
      simpa using h
    rw [h']
    exact Rs.cast_of_inRange _ _ (by rw [Rs.inRange_iff]; simp; omega)
  have e4 : Rs.bitand (Rs.f64ToBits B) 4503599627370495 = ((B % 4503599627370496 : Nat) : Int) := by
    have h := bitand_mask B 52
    simpa [Rs.f64ToBits] using h
  simp only [hnan, Bool.false_eq_true, if_false, Ctl.pure_eq, Ctl.val_bind, e1, e2, e3, e4, Ctl.ofRes_ok]
  have hE : B / 4503599627370496 % 2048 < 2048 := Nat.mod_lt _ (by decide)
  have hF : B % 4503599627370496 < 4503599627370496 := Nat.mod_lt _ (by decide)
  have hS : B / 9223372036854775808 < 2 := by omega
  generalize B / 4503599627370496 % 2048 = E at hE ⊢
  generalize B % 4503599627370496 = Fr at hF ⊢
  generalize B / 9223372036854775808 = S at hS ⊢
  -- stage 1: (mantissa, exp2)
  obtain ⟨M, X, hM, hX, hMX, hmodel, hpair⟩ : ∃ (M : Nat) (X : Int),
      M < 9007199254740992 ∧ (-1074 ≤ X ∧ X ≤ 972) ∧ (-1074 < X → 4503599627370496 ≤ M) ∧
      (if ((E : Int) == 0) = true then mPart Fr (-1074) else mPart (Fr ||| 4503599627370496) ((E : Int) - 1075))
        = mPart M X ∧
      ((E = 0 ∧ M = Fr ∧ X = -1074) ∨ (E ≠ 0 ∧ M = Fr ||| 4503599627370496 ∧ X = (E : Int) - 1075)) := by
    by_cases hE0 : E = 0
    · refine ⟨Fr, -1074, by omega, by omega, by omega, ?_, Or.inl ⟨hE0, rfl, rfl⟩⟩
      simp [hE0]
    · have hne : ¬ ((E : Int) = 0) := by omega
      refine ⟨Fr ||| 4503599627370496, (E : Int) - 1075, ?_, by omega, ?_, ?_, Or.inr ⟨hE0, rfl, rfl⟩⟩
      · rw [or_two52 Fr hF]; omega
      · intro _; rw [or_two52 Fr hF]; omega
      · simp [hne, hE0]
  rw [hmodel]
  refine bind_run_of _ ((M : Int), X) _ _ ?st1 ?rest1
  case st1 =>
    rcases hpair with ⟨hE0, hm, hx⟩ | ⟨hE0, hm, hx⟩
    · subst hE0; subst hm; subst hx; simp
    · have hne : ¬ ((E : Int) = 0) := by omega
      have e5 : Rs.shl .u64 1 52 = .ok ((4503599627370496 : Nat) : Int) := by
        have := shl_u64_one 52 (by omega); simpa using this
      have e6 : Rs.sub .i32 (E : Int) 1075 = .ok ((E : Int) - 1075) :=
        Rs.sub_ok _ _ _ (by rw [Rs.inRange_iff]; simp; omega)
      subst hm; subst hx
      simp only [hne, decide_false, Bool.false_eq_true, if_false, e5, e6, Ctl.ofRes_ok, Ctl.val_bind,
        Rs.bitor_natCast]
  case rest1 =>
    dsimp only
    -- stage 2: (int_part, has_fraction)
    refine bind_run_of _ (mPart M X) _ _ ?st2 ?rest2
    case st2 =>
      unfold mPart
      by_cases m0 : M = 0
      · subst m0; simp
      have m0i : ¬ ((M : Int) = 0) := by omega
      have m0b : ¬ ((M == 0) = true) := by simpa using m0
      by_cases x12 : X ≥ 12
      · simp [m0, m0i, x12, Num.i128Max]
      by_cases x0 : X ≥ 0
      · have hP := pow_toNat_le X 11 (by omega)
        have hMP : M * 2 ^ X.toNat ≤ 9007199254740992 * 2 ^ 11 := Nat.mul_le_mul (Nat.le_of_lt hM) hP
        have hc : (M : Int) * ((2 ^ X.toNat : Nat) : Int) = ((M * 2 ^ X.toNat : Nat) : Int) := by push_cast; rfl
        have hcast : Rs.cast .i128 (M : Int) = (M : Int) :=
          Rs.cast_of_inRange _ _ (by rw [Rs.inRange_iff]; simp; omega)
        have hshl : Rs.shl .i128 (M : Int) X = .ok ((M : Int) * 2 ^ X.toNat) := by
          have hx : (0 ≤ X ∧ X < ((IntTy.i128.bits : Nat) : Int)) := by simp [IntTy.bits]; omega
          simp only [Rs.shl, hx, and_self, if_true, hc]
          congr 1
          have : Rs.wrap .i128 ((M * 2 ^ X.toNat : Nat) : Int) = ((M * 2 ^ X.toNat : Nat) : Int) := by
            apply Rs.wrap_of_inRange
            rw [Rs.inRange_iff, Rs.minVal_i128, Rs.maxVal_i128]
            generalize M * 2 ^ X.toNat = Q at hMP
            omega
          rw [this]; push_cast; rfl
        simp only [m0i, m0b, x12, x0, decide_false, decide_true, Bool.false_eq_true, if_false, if_true,
          hcast, hshl, Ctl.ofRes_ok, Ctl.val_bind]
      by_cases x64 : X > -64
      · have hneg : Rs.neg .i32 X = .ok (-X) := Rs.neg_ok _ _ (by rw [Rs.inRange_iff]; simp; omega)
        have hshr : Rs.shr .u64 (M : Int) (-X) = .ok ((M / 2 ^ (-X).toNat : Nat) : Int) :=
          shr_u64_nat M (-X) (by omega)
        have hshl : Rs.shl .u64 1 (-X) = .ok ((2 ^ (-X).toNat : Nat) : Int) := shl_u64_one (-X) (by omega)
        have hpow : 1 ≤ 2 ^ (-X).toNat ∧ 2 ^ (-X).toNat < 2 ^ 64 :=
          ⟨Nat.pow_pos (by decide), Nat.pow_lt_pow_right (by decide) (by omega)⟩
        have hsub : Rs.sub .u64 ((2 ^ (-X).toNat : Nat) : Int) 1 = .ok (((2 ^ (-X).toNat : Nat) : Int) - 1) := by
          apply Rs.sub_ok
          rw [Rs.inRange_iff, Rs.minVal_u64, Rs.maxVal_u64]
          have h2 : (2 : Nat) ^ 64 = 18446744073709551616 := by decide
          rw [h2] at hpow
          generalize 2 ^ (-X).toNat = P at hpow
          omega
        have hq : M / 2 ^ (-X).toNat ≤ M := Nat.div_le_self _ _
        have hcast : Rs.cast .i128 ((M / 2 ^ (-X).toNat : Nat) : Int) = ((M / 2 ^ (-X).toNat : Nat) : Int) := by
          apply Rs.cast_of_inRange
          rw [Rs.inRange_iff, Rs.minVal_i128, Rs.maxVal_i128]
          generalize M / 2 ^ (-X).toNat = Q at hq
          omega
        simp only [m0i, m0b, x12, x0, x64, decide_false, decide_true, Bool.false_eq_true, if_false, if_true,
          hneg, hshr, hshl, hsub, hcast, bitand_mask, Ctl.ofRes_ok, Ctl.val_bind]
        congr 2
        generalize M % 2 ^ (-X).toNat = R
        by_cases h : R = 0
        · subst h; simp
        · have : ¬ ((R : Int) = 0) := by omega
          simp [h, this]
      · simp [m0, m0i, x12, x0, x64]
    case rest2 =>
      -- stage 3: sign and final comparison
      have hr := mPart_range M X hM
      generalize mPart M X = ph at hr ⊢
      obtain ⟨ip, hf⟩ := ph
      dsimp only at hr ⊢
      have hneg : Rs.neg .i128 ip = .ok (-ip) :=
        Rs.neg_ok _ _ (by rw [Rs.inRange_iff, Rs.minVal_i128, Rs.maxVal_i128]; omega)
      have hS' : S = 0 ∨ S = 1 := by omega
      rcases hS' with hS' | hS' <;> subst hS'
      · simp only [show ((0 : Nat) : Int) = 0 from rfl, Int.reduceEq, decide_false, Bool.false_eq_true, if_false, Ctl.val_bind,
          Nat.reduceBEq, mFinish]
        generalize compare i ip = c
        cases c <;> cases hf <;> simp
      · simp only [show ((1 : Nat) : Int) = 1 from rfl, decide_true, if_true, hneg, Ctl.ofRes_ok, Ctl.val_bind, BEq.rfl, mFinish]
        generalize compare i (-ip) = c
        cases c <;> cases hf <;> simp

/-! ### impl Ord for Number -/

theorem icmp_def' (a b : Int) :
    compare a b = if a < b then .lt else if a = b then .eq else .gt := by
  simp only [compare, compareOfLessAndEq]

theorem ncmp_def' (a b : Nat) :
    compare a b = if a < b then .lt else if a = b then .eq else .gt := by
  simp only [compare, compareOfLessAndEq]

theorem compare_natCast (a b : Nat) : compare (a : Int) (b : Int) = compare a b := by
  rw [icmp_def', ncmp_def']; split <;> split <;> (try split) <;> (try split) <;> first | rfl | omega

theorem f64Key_eq (b : Nat) : Rs.f64Key b = F64.key b := by
  simp only [Rs.f64Key, F64.key, f64Sign_eq]

/-- the documented contract of `OrderedFloat::cmp` (prelude) against the model's transcription of
its source (`lt = !ge`, `gt(a,b) = !ge(b,a)`) -/
theorem orderedFloatCmp_eq (a b : Nat) : Rs.orderedFloatCmp a b = F64.cmpOF a b := by
  simp only [Rs.orderedFloatCmp, F64.cmpOF, F64.geOF, F64.ge, f64IsNan_eq, f64Key_eq, icmp_def']
  by_cases ha : F64.isNaN a = true <;> by_cases hb : F64.isNaN b = true <;> simp [ha, hb]
  rcases Int.lt_trichotomy (F64.key a) (F64.key b) with h | h | h
  · have h1 : ¬ F64.key b ≤ F64.key a := by omega
    simp [h, h1]
  · simp [h]
  · have h1 : ¬ F64.key a < F64.key b := by omega
    have h2 : ¬ F64.key a = F64.key b := by omega
    have h3 : F64.key b ≤ F64.key a := by omega
    have h4 : ¬ F64.key a ≤ F64.key b := by omega
    simp [h1, h2, h3, h4]

theorem cmp_agrees (a b : Num) (ha : a.WF) (hb : b.WF) :
    Tr.Number.cmp (ofNum a) (ofNum b) = .ok (Num.cmp a b) := by
  have hi128 : ∀ x : Int, -9223372036854775808 ≤ x ∧ x ≤ 18446744073709551615 → Rs.cast .i128 x = x :=
    fun x h => Rs.cast_of_inRange _ _ (by rw [Rs.inRange_iff]; simp; omega)
  cases a with
  | int l =>
    cases b with
    | int r => simp [ofNum, Tr.Number.cmp, Num.cmp]
    | uint r =>
      simp only [Num.WF] at ha hb
      simp only [ofNum, Tr.Number.cmp, Num.cmp]
      by_cases h : l < 0
      · simp [h]
      · have hc : Rs.cast .u64 l = ((l.toNat : Nat) : Int) := by
          rw [Rs.cast_of_inRange _ _ (by rw [Rs.inRange_iff]; simp; omega)]; omega
        simp only [h, decide_false, Bool.false_eq_true, if_false, hc, compare_natCast, Ctl.run_ret]
    | float r =>
      simp only [Num.WF] at ha hb
      simp [ofNum, Tr.Number.cmp, Num.cmp, hi128 l (by omega), cmp_int_float_agrees l r hb]
  | uint l =>
    cases b with
    | int r =>
      simp only [Num.WF] at ha hb
      simp only [ofNum, Tr.Number.cmp, Num.cmp]
      by_cases h : r < 0
      · simp [h]
      · have hc : Rs.cast .u64 r = ((r.toNat : Nat) : Int) := by
          rw [Rs.cast_of_inRange _ _ (by rw [Rs.inRange_iff]; simp; omega)]; omega
        simp only [h, decide_false, Bool.false_eq_true, if_false, hc, compare_natCast, Ctl.run_ret]
    | uint r => simp [ofNum, Tr.Number.cmp, Num.cmp, compare_natCast]
    | float r =>
      simp only [Num.WF] at ha hb
      simp [ofNum, Tr.Number.cmp, Num.cmp, hi128 (l : Int) (by omega), cmp_int_float_agrees (l : Int) r hb]
  | float l =>
    cases b with
    | int r =>
      simp only [Num.WF] at ha hb
      simp [ofNum, Tr.Number.cmp, Num.cmp, hi128 r (by omega), cmp_int_float_agrees r l ha]
    | uint r =>
      simp only [Num.WF] at ha hb
      simp [ofNum, Tr.Number.cmp, Num.cmp, hi128 (r : Int) (by omega), cmp_int_float_agrees (r : Int) l ha]
    | float r => simp [ofNum, Tr.Number.cmp, Num.cmp, orderedFloatCmp_eq]

/-! ### as_f64 (structure only: the rounding itself is the model's `ofIntRNE`, see
`RustPreludeFloat.lean`) -/

theorem as_f64_agrees (n : Num) : Tr.Number.as_f64 (ofNum n) = .ok (some (Num.asF64 n)) := by
  cases n with
  | int i => simp [ofNum, Tr.Number.as_f64, Num.asF64, Rs.intAsF64]
  | uint n =>
    have h : ¬ ((n : Int) < 0) := by omega
    simp [ofNum, Tr.Number.as_f64, Num.asF64, Rs.intAsF64, F64.ofIntRNE, h]
  | float b => simp [ofNum, Tr.Number.as_f64, Num.asF64]

end Jsonb.TrAgree
