/-
Agreement theorems, phase 7, part 3: the public dispatchers with TWO document arguments, each sniffed and converted on
its own (`array_insert`, `array_intersection`, `array_except`, `array_overlap`, `object_insert`) = the model's
`T.viaJsonb2 …`.
-/
import JsonbModel.Proofs.TranslatedAgreeK1

set_option linter.unusedSimpArgs false
set_option linter.unusedVariables false

namespace Jsonb.TrAgree
open Jsonb.Rs

/-- **`array_insert`**, the whole public function (both sniffing tests, the three text branches, the JSONB branch) -/
theorem array_insert_whole (value : Bytes) (pos : Int) (newValue buf : Bytes) (fuel : Nat)
    (hpos : -2147483648 ≤ pos ∧ pos ≤ 2147483647) (hfuel : 536870913 < fuel)
    (hd : DocOK fuel value) (hn : DocOK fuel newValue) (hb : buf.length < 1152921504606846976) :
    Tr.array_insert fuel value pos newValue buf = T.arrayInsert value pos newValue buf := by
  unfold Tr.array_insert T.arrayInsert
  rw [viaJsonb2_doc]
  simp only [is_jsonb_agrees]
  have key : ∀ a b, docBytes value = .ok a → docBytes newValue = .ok b →
      Tr.array_insert_jsonb fuel a pos b buf = Fn.arrayInsert a pos b buf := by
    intro a b ha hb'
    rw [array_insert_jsonb_agrees a pos b buf fuel hpos hfuel (hd.len a ha) (hn.len b hb') hb]
  cases hj : isJsonb value <;> cases hj2 : isJsonb newValue
  · simp only [Ctl.ofRes_ok', Ctl.val_bind', Bool.not_false, if_true]
    rw [text_step fuel value hj hd]
    cases hdoc : docBytes value with
    | ok a =>
      simp only [Ctl.ofRes_ok', Ctl.val_bind', Res.bind]
      rw [text_step fuel newValue hj2 hn]
      cases hdoc2 : docBytes newValue with
      | ok b => simp only [Ctl.ofRes_ok', Ctl.val_bind']; rw [key a b hdoc hdoc2]; cases Fn.arrayInsert a pos b buf <;> rfl
      | err e => rfl
      | panic s => rfl
      | fuel => rfl
    | err e => rfl
    | panic s => rfl
    | fuel => rfl
  · simp only [Ctl.ofRes_ok', Ctl.val_bind', Bool.not_false, Bool.not_true, Bool.false_eq_true, if_true, if_false, Ctl.pure_eq']
    rw [text_step fuel value hj hd, docBytes_jsonb newValue hj2]
    cases hdoc : docBytes value with
    | ok a => simp only [Ctl.ofRes_ok', Ctl.val_bind', Res.bind]; rw [key a newValue hdoc (docBytes_jsonb newValue hj2)]; cases Fn.arrayInsert a pos newValue buf <;> rfl
    | err e => rfl
    | panic s => rfl
    | fuel => rfl
  · simp only [Ctl.ofRes_ok', Ctl.val_bind', Bool.not_false, Bool.not_true, Bool.false_eq_true, if_true, if_false, Ctl.pure_eq']
    rw [text_step fuel newValue hj2 hn, docBytes_jsonb value hj]
    cases hdoc2 : docBytes newValue with
    | ok b => simp only [Ctl.ofRes_ok', Ctl.val_bind', Res.bind]; rw [key value b (docBytes_jsonb value hj) hdoc2]; cases Fn.arrayInsert value pos b buf <;> rfl
    | err e => rfl
    | panic s => rfl
    | fuel => rfl
  · simp only [Ctl.ofRes_ok', Ctl.val_bind', Bool.not_true, Bool.false_eq_true, if_false, Ctl.pure_eq']
    rw [docBytes_jsonb value hj, docBytes_jsonb newValue hj2]
    simp only [Res.bind]
    rw [key value newValue (docBytes_jsonb value hj) (docBytes_jsonb newValue hj2)]; cases Fn.arrayInsert value pos newValue buf <;> rfl

/-- **`array_intersection`**, the whole public function -/
theorem array_intersection_whole (v1 v2 buf : Bytes) (fuel : Nat) (hfuel : 536870913 < fuel)
    (hd : DocOK fuel v1) (hn : DocOK fuel v2) (hb : buf.length < 1152921504606846976) :
    Tr.array_intersection fuel v1 v2 buf = T.arrayIntersection v1 v2 buf := by
  unfold Tr.array_intersection T.arrayIntersection
  rw [viaJsonb2_doc]
  simp only [is_jsonb_agrees]
  have key : ∀ a b, docBytes v1 = .ok a → docBytes v2 = .ok b →
      Tr.array_intersection_jsonb fuel a b buf = Fn.arraySetOp true a b buf := by
    intro a b ha hb'
    rw [array_intersection_jsonb_agrees a b buf fuel hfuel (hd.len a ha) (hn.len b hb') hb]
  cases hj : isJsonb v1 <;> cases hj2 : isJsonb v2
  · simp only [Ctl.ofRes_ok', Ctl.val_bind', Bool.not_false, if_true]
    rw [text_step fuel v1 hj hd]
    cases hdoc : docBytes v1 with
    | ok a =>
      simp only [Ctl.ofRes_ok', Ctl.val_bind', Res.bind]
      rw [text_step fuel v2 hj2 hn]
      cases hdoc2 : docBytes v2 with
      | ok b => simp only [Ctl.ofRes_ok', Ctl.val_bind']; rw [key a b hdoc hdoc2]; cases Fn.arraySetOp true a b buf <;> rfl
      | err e => rfl
      | panic s => rfl
      | fuel => rfl
    | err e => rfl
    | panic s => rfl
    | fuel => rfl
  · simp only [Ctl.ofRes_ok', Ctl.val_bind', Bool.not_false, Bool.not_true, Bool.false_eq_true, if_true, if_false, Ctl.pure_eq']
    rw [text_step fuel v1 hj hd, docBytes_jsonb v2 hj2]
    cases hdoc : docBytes v1 with
    | ok a => simp only [Ctl.ofRes_ok', Ctl.val_bind', Res.bind]; rw [key a v2 hdoc (docBytes_jsonb v2 hj2)]; cases Fn.arraySetOp true a v2 buf <;> rfl
    | err e => rfl
    | panic s => rfl
    | fuel => rfl
  · simp only [Ctl.ofRes_ok', Ctl.val_bind', Bool.not_false, Bool.not_true, Bool.false_eq_true, if_true, if_false, Ctl.pure_eq']
    rw [text_step fuel v2 hj2 hn, docBytes_jsonb v1 hj]
    cases hdoc2 : docBytes v2 with
    | ok b => simp only [Ctl.ofRes_ok', Ctl.val_bind', Res.bind]; rw [key v1 b (docBytes_jsonb v1 hj) hdoc2]; cases Fn.arraySetOp true v1 b buf <;> rfl
    | err e => rfl
    | panic s => rfl
    | fuel => rfl
  · simp only [Ctl.ofRes_ok', Ctl.val_bind', Bool.not_true, Bool.false_eq_true, if_false, Ctl.pure_eq']
    rw [docBytes_jsonb v1 hj, docBytes_jsonb v2 hj2]
    simp only [Res.bind]
    rw [key v1 v2 (docBytes_jsonb v1 hj) (docBytes_jsonb v2 hj2)]; cases Fn.arraySetOp true v1 v2 buf <;> rfl

/-- **`array_except`**, the whole public function -/
theorem array_except_whole (v1 v2 buf : Bytes) (fuel : Nat) (hfuel : 536870913 < fuel)
    (hd : DocOK fuel v1) (hn : DocOK fuel v2) (hb : buf.length < 1152921504606846976) :
    Tr.array_except fuel v1 v2 buf = T.arrayExcept v1 v2 buf := by
  unfold Tr.array_except T.arrayExcept
  rw [viaJsonb2_doc]
  simp only [is_jsonb_agrees]
  have key : ∀ a b, docBytes v1 = .ok a → docBytes v2 = .ok b →
      Tr.array_except_jsonb fuel a b buf = Fn.arraySetOp false a b buf := by
    intro a b ha hb'
    rw [array_except_jsonb_agrees a b buf fuel hfuel (hd.len a ha) (hn.len b hb') hb]
  cases hj : isJsonb v1 <;> cases hj2 : isJsonb v2
  · simp only [Ctl.ofRes_ok', Ctl.val_bind', Bool.not_false, if_true]
    rw [text_step fuel v1 hj hd]
    cases hdoc : docBytes v1 with
    | ok a =>
      simp only [Ctl.ofRes_ok', Ctl.val_bind', Res.bind]
      rw [text_step fuel v2 hj2 hn]
      cases hdoc2 : docBytes v2 with
      | ok b => simp only [Ctl.ofRes_ok', Ctl.val_bind']; rw [key a b hdoc hdoc2]; cases Fn.arraySetOp false a b buf <;> rfl
      | err e => rfl
      | panic s => rfl
      | fuel => rfl
    | err e => rfl
    | panic s => rfl
    | fuel => rfl
  · simp only [Ctl.ofRes_ok', Ctl.val_bind', Bool.not_false, Bool.not_true, Bool.false_eq_true, if_true, if_false, Ctl.pure_eq']
    rw [text_step fuel v1 hj hd, docBytes_jsonb v2 hj2]
    cases hdoc : docBytes v1 with
    | ok a => simp only [Ctl.ofRes_ok', Ctl.val_bind', Res.bind]; rw [key a v2 hdoc (docBytes_jsonb v2 hj2)]; cases Fn.arraySetOp false a v2 buf <;> rfl
    | err e => rfl
    | panic s => rfl
    | fuel => rfl
  · simp only [Ctl.ofRes_ok', Ctl.val_bind', Bool.not_false, Bool.not_true, Bool.false_eq_true, if_true, if_false, Ctl.pure_eq']
    rw [text_step fuel v2 hj2 hn, docBytes_jsonb v1 hj]
    cases hdoc2 : docBytes v2 with
    | ok b => simp only [Ctl.ofRes_ok', Ctl.val_bind', Res.bind]; rw [key v1 b (docBytes_jsonb v1 hj) hdoc2]; cases Fn.arraySetOp false v1 b buf <;> rfl
    | err e => rfl
    | panic s => rfl
    | fuel => rfl
  · simp only [Ctl.ofRes_ok', Ctl.val_bind', Bool.not_true, Bool.false_eq_true, if_false, Ctl.pure_eq']
    rw [docBytes_jsonb v1 hj, docBytes_jsonb v2 hj2]
    simp only [Res.bind]
    rw [key v1 v2 (docBytes_jsonb v1 hj) (docBytes_jsonb v2 hj2)]; cases Fn.arraySetOp false v1 v2 buf <;> rfl

/-- **`array_overlap`**, the whole public function.  The `_jsonb` half leaves at the first common element, the model
collects both arrays first (phase 6c, `array_overlap_lazy_witness`): an equality wherever the model's answer is not a
panic -/
theorem array_overlap_whole (v1 v2 : Bytes) (fuel : Nat) (hfuel : 536870913 < fuel)
    (hd : DocOK fuel v1) (hn : DocOK fuel v2) (hnp : (T.arrayOverlap v1 v2).isPanic = false) :
    Tr.array_overlap fuel v1 v2 = T.arrayOverlap v1 v2 := by
  unfold T.arrayOverlap at hnp ⊢
  unfold Tr.array_overlap
  rw [viaJsonb2_doc] at hnp ⊢
  simp only [is_jsonb_agrees]
  have key : ∀ a b, docBytes v1 = .ok a → docBytes v2 = .ok b →
      Tr.array_overlap_jsonb fuel a b = Fn.arrayOverlap a b := by
    intro a b ha hb'
    rw [ha, hb'] at hnp
    exact array_overlap_jsonb_agrees a b fuel hfuel (hd.len a ha) (hn.len b hb') hnp
  clear hnp
  cases hj : isJsonb v1 <;> cases hj2 : isJsonb v2
  · simp only [Ctl.ofRes_ok', Ctl.val_bind', Bool.not_false, if_true]
    rw [text_step fuel v1 hj hd]
    cases hdoc : docBytes v1 with
    | ok a =>
      simp only [Ctl.ofRes_ok', Ctl.val_bind', Res.bind]
      rw [text_step fuel v2 hj2 hn]
      cases hdoc2 : docBytes v2 with
      | ok b => simp only [Ctl.ofRes_ok', Ctl.val_bind']; rw [key a b hdoc hdoc2]; cases Fn.arrayOverlap a b <;> rfl
      | err e => rfl
      | panic s => rfl
      | fuel => rfl
    | err e => rfl
    | panic s => rfl
    | fuel => rfl
  · simp only [Ctl.ofRes_ok', Ctl.val_bind', Bool.not_false, Bool.not_true, Bool.false_eq_true, if_true, if_false, Ctl.pure_eq']
    rw [text_step fuel v1 hj hd, docBytes_jsonb v2 hj2]
    cases hdoc : docBytes v1 with
    | ok a => simp only [Ctl.ofRes_ok', Ctl.val_bind', Res.bind]; rw [key a v2 hdoc (docBytes_jsonb v2 hj2)]; cases Fn.arrayOverlap a v2 <;> rfl
    | err e => rfl
    | panic s => rfl
    | fuel => rfl
  · simp only [Ctl.ofRes_ok', Ctl.val_bind', Bool.not_false, Bool.not_true, Bool.false_eq_true, if_true, if_false, Ctl.pure_eq']
    rw [text_step fuel v2 hj2 hn, docBytes_jsonb v1 hj]
    cases hdoc2 : docBytes v2 with
    | ok b => simp only [Ctl.ofRes_ok', Ctl.val_bind', Res.bind]; rw [key v1 b (docBytes_jsonb v1 hj) hdoc2]; cases Fn.arrayOverlap v1 b <;> rfl
    | err e => rfl
    | panic s => rfl
    | fuel => rfl
  · simp only [Ctl.ofRes_ok', Ctl.val_bind', Bool.not_true, Bool.false_eq_true, if_false, Ctl.pure_eq']
    rw [docBytes_jsonb v1 hj, docBytes_jsonb v2 hj2]
    simp only [Res.bind]
    rw [key v1 v2 (docBytes_jsonb v1 hj) (docBytes_jsonb v2 hj2)]; cases Fn.arrayOverlap v1 v2 <;> rfl

/-- **`object_insert`**, the whole public function.  `ObjWalkOK` (phase 6c) is asked of the JSONB document the function
works on - the argument itself, or the encoding of the parsed text -/
theorem object_insert_whole (value newKey newValue : Bytes) (update : Bool) (buf : Bytes) (fuel : Nat)
    (hfuel : 536870913 < fuel) (hd : DocOK fuel value) (hn : DocOK fuel newValue)
    (hk : newKey.length < 1152921504606846976) (hb : buf.length < 1152921504606846976)
    (hok : ∀ a, docBytes value = .ok a → ObjWalkOK a = true) :
    Tr.object_insert fuel value newKey newValue update buf = T.objectInsert value newKey newValue update buf := by
  unfold Tr.object_insert T.objectInsert
  rw [viaJsonb2_doc]
  simp only [is_jsonb_agrees]
  have key : ∀ a b, docBytes value = .ok a → docBytes newValue = .ok b →
      Tr.object_insert_jsonb fuel a newKey b update buf = Fn.objectInsert a newKey b update buf := by
    intro a b ha hb'
    exact object_insert_jsonb_agrees a newKey b update buf fuel hfuel (hd.len a ha) hk (hn.len b hb') hb (hok a ha)
  cases hj : isJsonb value <;> cases hj2 : isJsonb newValue
  · simp only [Ctl.ofRes_ok', Ctl.val_bind', Bool.not_false, if_true]
    rw [text_step fuel value hj hd]
    cases hdoc : docBytes value with
    | ok a =>
      simp only [Ctl.ofRes_ok', Ctl.val_bind', Res.bind]
      rw [text_step fuel newValue hj2 hn]
      cases hdoc2 : docBytes newValue with
      | ok b => simp only [Ctl.ofRes_ok', Ctl.val_bind']; rw [key a b hdoc hdoc2]; cases Fn.objectInsert a newKey b update buf <;> rfl
      | err e => rfl
      | panic s => rfl
      | fuel => rfl
    | err e => rfl
    | panic s => rfl
    | fuel => rfl
  · simp only [Ctl.ofRes_ok', Ctl.val_bind', Bool.not_false, Bool.not_true, Bool.false_eq_true, if_true, if_false, Ctl.pure_eq']
    rw [text_step fuel value hj hd, docBytes_jsonb newValue hj2]
    cases hdoc : docBytes value with
    | ok a => simp only [Ctl.ofRes_ok', Ctl.val_bind', Res.bind]; rw [key a newValue hdoc (docBytes_jsonb newValue hj2)]; cases Fn.objectInsert a newKey newValue update buf <;> rfl
    | err e => rfl
    | panic s => rfl
    | fuel => rfl
  · simp only [Ctl.ofRes_ok', Ctl.val_bind', Bool.not_false, Bool.not_true, Bool.false_eq_true, if_true, if_false, Ctl.pure_eq']
    rw [text_step fuel newValue hj2 hn, docBytes_jsonb value hj]
    cases hdoc2 : docBytes newValue with
    | ok b => simp only [Ctl.ofRes_ok', Ctl.val_bind', Res.bind]; rw [key value b (docBytes_jsonb value hj) hdoc2]; cases Fn.objectInsert value newKey b update buf <;> rfl
    | err e => rfl
    | panic s => rfl
    | fuel => rfl
  · simp only [Ctl.ofRes_ok', Ctl.val_bind', Bool.not_true, Bool.false_eq_true, if_false, Ctl.pure_eq']
    rw [docBytes_jsonb value hj, docBytes_jsonb newValue hj2]
    simp only [Res.bind]
    rw [key value newValue (docBytes_jsonb value hj) (docBytes_jsonb newValue hj2)]; cases Fn.objectInsert value newKey newValue update buf <;> rfl

end Jsonb.TrAgree
