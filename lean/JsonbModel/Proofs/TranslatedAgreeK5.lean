/-
Agreement theorems, phase 7, part 5: `delete_by_name` with its `Value`-level text branch (`arr.retain(|item| !matches!(item,
Value::String(v) if v.eq(name)))`, `obj.remove(name)`, then `val.write_to_vec(buf)`) = the model's `T.deleteByName`.
-/
import JsonbModel.Proofs.TranslatedAgreeK4

set_option linter.unusedSimpArgs false
set_option linter.unusedVariables false

namespace Jsonb.TrAgree
open Jsonb.Rs

/-! ## filtering keeps a value inside the domain of the encoder theorem -/

theorem filterL_bounds (p : JV → Bool) : ∀ (vs : List JV), numsWFL vs →
    numsWFL (vs.filter p) ∧ depthL (vs.filter p) ≤ depthL vs ∧ encSizeL (vs.filter p) ≤ encSizeL vs ∧
      (vs.filter p).length ≤ vs.length
  | [], h => ⟨h, Nat.le_refl _, Nat.le_refl _, Nat.le_refl _⟩
  | v :: vs, h => by
    obtain ⟨a, b, c, d⟩ := filterL_bounds p vs h.2
    by_cases hp : p v = true
    · simp only [List.filter_cons_of_pos hp, numsWFL, depthL, encSizeL, List.length_cons]
      exact ⟨⟨h.1, a⟩, by omega, by omega, by omega⟩
    · simp only [List.filter_cons_of_neg hp, numsWFL, depthL, encSizeL, List.length_cons]
      exact ⟨a, by omega, by omega, by omega⟩

theorem filterK_bounds (p : Bytes × JV → Bool) : ∀ (kvs : List (Bytes × JV)), numsWFK kvs →
    numsWFK (kvs.filter p) ∧ depthK (kvs.filter p) ≤ depthK kvs ∧ encSizeK (kvs.filter p) ≤ encSizeK kvs ∧
      keySizeK (kvs.filter p) ≤ keySizeK kvs ∧ (kvs.filter p).length ≤ kvs.length
  | [], h => ⟨h, Nat.le_refl _, Nat.le_refl _, Nat.le_refl _, Nat.le_refl _⟩
  | (k, v) :: kvs, h => by
    obtain ⟨a, b, c, d, e⟩ := filterK_bounds p kvs h.2
    by_cases hp : p (k, v) = true
    · simp only [List.filter_cons_of_pos hp, numsWFK, depthK, encSizeK, keySizeK, List.length_cons]
      exact ⟨⟨h.1, a⟩, by omega, by omega, by omega, by omega⟩
    · simp only [List.filter_cons_of_neg hp, numsWFK, depthK, encSizeK, keySizeK, List.length_cons]
      exact ⟨a, by omega, by omega, by omega, by omega⟩

/-- `arr.retain(p)` on the translated values, for a closure that answers as `q` does on the model's values -/
theorem filter_ofJVs (p : Tr.Value → Bool) (q : JV → Bool) (h : ∀ v, p (ofJV v) = q v) (vs : List JV) :
    List.filter p (ofJVs vs) = ofJVs (vs.filter q) := by
  induction vs with
  | nil => rfl
  | cons v vs ih =>
    by_cases hq : q v = true
    · rw [List.filter_cons_of_pos hq]; simp only [ofJVs]; rw [List.filter_cons_of_pos (by rw [h]; exact hq), ih]
    · rw [List.filter_cons_of_neg hq]; simp only [ofJVs]; rw [List.filter_cons_of_neg (by rw [h]; exact hq), ih]

theorem btreeRemove_ofKVs (name : Bytes) (kvs : List (Bytes × JV)) :
    Rs.btreeRemove (ofKVs kvs) name = ofKVs (Spec.removeKey name kvs) := by
  unfold Rs.btreeRemove Spec.removeKey
  induction kvs with
  | nil => rfl
  | cons kv kvs ih =>
    obtain ⟨k, v⟩ := kv
    by_cases hk : k = name <;> simp [hk, ofKVs, List.filter_cons, ih]

/-- **`delete_by_name`**, the whole public function; modulo the texts of panics, as the `_jsonb` half (phase 4) -/
theorem delete_by_name_whole (value name buf : Bytes) (fuel : Nat) (hfuel : 536870913 < fuel)
    (hv : value.length < 1152921504606846976) (hb : buf.length < 1152921504606846976)
    (ht : isJsonb value = false → TextEditOK fuel buf value) :
    panicAny (Tr.Whole.delete_by_name fuel value name buf) = panicAny (T.deleteByName value name buf) := by
  unfold Tr.Whole.delete_by_name T.deleteByName
  rw [is_jsonb_agrees]
  cases hj : isJsonb value
  · obtain ⟨hlen, hpf, hval⟩ := ht hj
    simp only [Ctl.ofRes_ok', Ctl.val_bind', Bool.not_false, if_true]
    rw [parse_value_agrees value hlen fuel hpf]
    cases hp : parseValue value with
    | ok v =>
      obtain ⟨hwf, hdep, hsz⟩ := hval v hp
      simp only [Res.map, Res.bind, Ctl.ofRes_ok', Ctl.val_bind']
      cases v with
      | arr vs =>
        obtain ⟨f1, f2, f3, f4⟩ := filterL_bounds (fun v => match v with | .str s => s != name | _ => true) vs hwf
        have hd' : 2 * depth (.arr (vs.filter (fun v => match v with | .str s => s != name | _ => true))) < fuel := by
          simp only [depth] at hdep ⊢; omega
        have hs' : buf.length + 8 + encSize (.arr (vs.filter (fun v => match v with | .str s => s != name | _ => true))) <
            18446744073709551616 := by
          simp only [encSize] at hsz ⊢; omega
        have hw := write_to_vec_agrees _ buf fuel hd' f1 hs'
        simp only [ofJV] at hw
        simp only [ofJV, Spec.deleteByName, Ctl.pure_eq', Ctl.val_bind']
        rw [filter_ofJVs _ (fun v => match v with | .str s => s != name | _ => true) ?_ vs]
        rotate_left
        · intro v
          cases v <;> simp [ofJV]
          rename_i s
          by_cases hs : s = name
          · simp [hs]
          · have hs' : ¬ name = s := fun h => hs h.symm
            simp [hs, hs']
        rw [hw]
        congr 1
        cases writeToVec buf (.arr (vs.filter (fun v => match v with | .str s => s != name | _ => true))) <;> rfl
      | obj kvs =>
        obtain ⟨f1, f2, f3, f4, f5⟩ := filterK_bounds (fun kv => kv.1 != name) kvs hwf
        have hd' : 2 * depth (.obj (Spec.removeKey name kvs)) < fuel := by
          simp only [depth, Spec.removeKey] at hdep ⊢; omega
        have hs' : buf.length + 8 + encSize (.obj (Spec.removeKey name kvs)) < 18446744073709551616 := by
          simp only [encSize, Spec.removeKey] at hsz ⊢; omega
        have hw := write_to_vec_agrees (.obj (Spec.removeKey name kvs)) buf fuel hd' f1 hs'
        simp only [ofJV] at hw
        simp only [ofJV, Spec.deleteByName, Ctl.pure_eq', Ctl.val_bind', btreeRemove_ofKVs, hw]
        congr 1
        cases writeToVec buf (.obj (Spec.removeKey name kvs)) <;> rfl
      | null => rfl
      | bool b => rfl
      | num n => rfl
      | str s => rfl
    | err e => rfl
    | panic s => rfl
    | fuel => rfl
  · simp only [Ctl.ofRes_ok', Ctl.val_bind', Bool.not_true, Bool.false_eq_true, if_false, Ctl.pure_eq']
    have h := delete_jsonb_by_name_agrees value name buf fuel hfuel hv hb
    revert h
    cases Tr.delete_jsonb_by_name fuel value name buf <;> exact fun h => h

end Jsonb.TrAgree
