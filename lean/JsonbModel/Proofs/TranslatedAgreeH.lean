/-
Root of the phase-6b agreement theorems (tools/rs2lean6b.py → Generated/Translated6b.lean): the JSON text parser
of parser.rs and the string helpers of util.rs against the model of JsonParser.lean.  See tools/RS2LEAN.md.
H1 primitives and cursor helpers · H2 `step_digits`, `skip_unused`, literals · H3 the simulation calculus ·
H4 `encode_invalid_unicode`, `parse_escaped_string` · H5 `parse_string` · H6 `parse_json_string` ·
H7 `parse_json_number` · H8 the loops of the recursive group · H9 the group, `parse`, `parse_value`, `from_slice`.
-/
import JsonbModel.Proofs.TranslatedAgreeH1
import JsonbModel.Proofs.TranslatedAgreeH2
import JsonbModel.Proofs.TranslatedAgreeH3
import JsonbModel.Proofs.TranslatedAgreeH4
import JsonbModel.Proofs.TranslatedAgreeH5
import JsonbModel.Proofs.TranslatedAgreeH6
import JsonbModel.Proofs.TranslatedAgreeH7
import JsonbModel.Proofs.TranslatedAgreeH8
import JsonbModel.Proofs.TranslatedAgreeH9
