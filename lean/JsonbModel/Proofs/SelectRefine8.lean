/-
C08 refinement, part 8: fuel.  The model's evaluator is monotone in its fuel (an answer other
than "out of fuel" is kept when more fuel is given) and, on supported ASTs and good documents,
some amount of fuel is enough.  Hence, for all sufficiently large fuel, the model answers `Ok`
with exactly the items the spec denotes, or `Err` and the spec is undefined.
-/
import JsonbModel.Proofs.SelectRefine7

namespace Jsonb
open JV Sel

/-! ### the model is monotone in its fuel -/

def ModelMono (fuel : Nat) : Prop :=
  (∀ root cur paths r, findPositions fuel root cur paths = r → r ≠ .fuel → findPositions (fuel + 1) root cur paths = r) ∧
  (∀ root paths ps r, walk fuel root paths ps = r → r ≠ .fuel → walk (fuel + 1) root paths ps = r) ∧
  (∀ root e ps r, filterAll fuel root e ps = r → r ≠ .fuel → filterAll (fuel + 1) root e ps = r) ∧
  (∀ root pos e r, filterExpr fuel root pos e = r → r ≠ .fuel → filterExpr (fuel + 1) root pos e = r) ∧
  (∀ root pos e r, exprVal fuel root pos e = r → r ≠ .fuel → exprVal (fuel + 1) root pos e = r)

theorem walk_nil (fuel : Nat) (root : Bytes) (ps : List Pos) : walk (fuel + 1) root [] ps = .ok ps := by
  simp only [walk]
theorem walk_root (fuel : Nat) (root : Bytes) (rest : List Path) (ps : List Pos) :
    walk (fuel + 1) root (.root :: rest) ps = walk fuel root rest ps := by simp only [walk]
theorem walk_current (fuel : Nat) (root : Bytes) (rest : List Path) (ps : List Pos) :
    walk (fuel + 1) root (.current :: rest) ps = walk fuel root rest ps := by simp only [walk]

theorem filterAll_nil (fuel : Nat) (root : Bytes) (e : Expr) : filterAll (fuel + 1) root e [] = .ok [] := by
  simp only [filterAll]

theorem filterAll_cons (fuel : Nat) (root : Bytes) (e : Expr) (pos : Pos) (rest : List Pos) :
    filterAll (fuel + 1) root e (pos :: rest)
      = match filterExpr fuel root pos e with
        | .ok keep =>
          (match filterAll fuel root e rest with
           | .ok r => .ok (if keep then pos :: r else r)
           | .err er => .err er
           | .panic s => .panic s
           | .fuel => .fuel)
        | .err er => .err er
        | .panic s => .panic s
        | .fuel => .fuel := by
  simp only [filterAll] <;> rfl

/-- the two-sided evaluation of `&&` / `||`: both sides are evaluated, the first failure wins -/
def logic2 (g : Bool → Bool → Bool) (L R : Res Bool) : Res Bool :=
  match L, R with
  | .ok a, .ok b => .ok (g a b)
  | .ok _, x => x
  | x, _ => x

theorem filterExpr_or (fuel : Nat) (root : Bytes) (pos : Pos) (l r : Expr) :
    filterExpr (fuel + 1) root pos (.binaryOp .or l r)
      = logic2 (· || ·) (filterExpr fuel root pos l) (filterExpr fuel root pos r) := by
  simp only [filterExpr, logic2] <;> rfl

theorem filterExpr_and (fuel : Nat) (root : Bytes) (pos : Pos) (l r : Expr) :
    filterExpr (fuel + 1) root pos (.binaryOp .and l r)
      = logic2 (· && ·) (filterExpr fuel root pos l) (filterExpr fuel root pos r) := by
  simp only [filterExpr, logic2] <;> rfl

theorem filterExpr_exists (fuel : Nat) (root : Bytes) (pos : Pos) (paths : List Path) :
    filterExpr (fuel + 1) root pos (.existsFn paths)
      = (findPositions fuel root (some pos) paths).map (fun ps => !ps.isEmpty) := by
  simp only [filterExpr]

theorem exprVal_succ_succ (fuel : Nat) (root : Bytes) (pos : Pos) (e : Expr) :
    exprVal (fuel + 2) root pos e = exprVal (fuel + 1) root pos e := by
  cases e <;> simp only [exprVal]

/-- a two-sided `&&` / `||` keeps its answer when both sides keep theirs -/
theorem logic_mono {L R L' R' : Res Bool} (g : Bool → Bool → Bool)
    (hL : L ≠ .fuel → L' = L) (hR : R ≠ .fuel → R' = R) (hne : logic2 g L R ≠ .fuel) :
    logic2 g L' R' = logic2 g L R := by
  cases L with
  | ok a =>
    rw [hL (by simp)]
    cases R with
    | ok b => rw [hR (by simp)]
    | err e => rw [hR (by simp)]
    | panic s => rw [hR (by simp)]
    | fuel => simp [logic2] at hne
  | err e => rw [hL (by simp)]; cases R <;> cases R' <;> rfl
  | panic s => rw [hL (by simp)]; cases R <;> cases R' <;> rfl
  | fuel => cases R <;> simp [logic2] at hne

theorem model_mono : ∀ fuel, ModelMono fuel
  | 0 => by
    refine ⟨?_, ?_, ?_, ?_, ?_⟩
    · intro root cur paths r h hne; simp only [findPositions] at h; exact absurd h.symm hne
    · intro root paths ps r h hne; simp only [walk] at h; exact absurd h.symm hne
    · intro root e ps r h hne; simp only [filterAll] at h; exact absurd h.symm hne
    · intro root pos e r h hne; simp only [filterExpr] at h; exact absurd h.symm hne
    · intro root pos e r h hne; simp only [exprVal] at h; exact absurd h.symm hne
  | fuel + 1 => by
    obtain ⟨m1, m2, m3, m4, m5⟩ := model_mono fuel
    refine ⟨?_, ?_, ?_, ?_, ?_⟩
    · intro root cur paths r h hne
      rw [findPositions_succ] at h ⊢
      cases hs : startOf root cur paths with
      | ok start =>
        rw [hs] at h
        exact m2 _ _ _ _ h hne
      | err e => rw [hs] at h; exact h
      | panic s => rw [hs] at h; exact h
      | fuel => rw [hs] at h; exact h
    · intro root paths ps r h hne
      cases paths with
      | nil => rw [walk_nil] at h ⊢; exact h
      | cons p rest =>
        rcases path_cases p with hp | rfl | rfl | ⟨e, hpe⟩
        · rw [walk_plain _ _ p hp] at h ⊢
          cases hs : stepAll root p ps with
          | ok ps1 => rw [hs] at h; exact m2 _ _ _ _ h hne
          | err e => rw [hs] at h; exact h
          | panic s => rw [hs] at h; exact h
          | fuel => rw [hs] at h; exact h
        · rw [walk_root] at h ⊢; exact m2 _ _ _ _ h hne
        · rw [walk_current] at h ⊢; exact m2 _ _ _ _ h hne
        · rw [walk_filter _ _ p e hpe] at h ⊢
          cases hs : filterAll fuel root e ps with
          | ok ps1 =>
            rw [hs] at h
            rw [m3 _ _ _ _ hs (by simp)]
            exact m2 _ _ _ _ h hne
          | err er => rw [hs] at h; rw [m3 _ _ _ _ hs (by simp)]; exact h
          | panic s => rw [hs] at h; rw [m3 _ _ _ _ hs (by simp)]; exact h
          | fuel => rw [hs] at h; exact absurd h.symm hne
    · intro root e ps r h hne
      cases ps with
      | nil => rw [filterAll_nil] at h ⊢; exact h
      | cons pos rest =>
        rw [filterAll_cons] at h ⊢
        cases hk : filterExpr fuel root pos e with
        | ok keep =>
          rw [hk] at h
          rw [m4 _ _ _ _ hk (by simp)]
          simp only [] at h ⊢
          cases hr : filterAll fuel root e rest with
          | ok r' => rw [hr] at h; rw [m3 _ _ _ _ hr (by simp)]; exact h
          | err er => rw [hr] at h; rw [m3 _ _ _ _ hr (by simp)]; exact h
          | panic s => rw [hr] at h; rw [m3 _ _ _ _ hr (by simp)]; exact h
          | fuel => rw [hr] at h; exact absurd h.symm hne
        | err er => rw [hk] at h; rw [m4 _ _ _ _ hk (by simp)]; exact h
        | panic s => rw [hk] at h; rw [m4 _ _ _ _ hk (by simp)]; exact h
        | fuel => rw [hk] at h; exact absurd h.symm hne
    · intro root pos e r h hne
      cases e with
      | binaryOp op l r' =>
        by_cases hor : op = .or
        · subst hor
          rw [filterExpr_or] at h ⊢
          rw [← h] at hne ⊢
          exact logic_mono (· || ·) (fun hl => m4 _ _ _ _ rfl hl) (fun hr => m4 _ _ _ _ rfl hr) hne
        · by_cases hand : op = .and
          · subst hand
            rw [filterExpr_and] at h ⊢
            rw [← h] at hne ⊢
            exact logic_mono (· && ·) (fun hl => m4 _ _ _ _ rfl hl) (fun hr => m4 _ _ _ _ rfl hr) hne
          · rw [filterExpr_cmp _ _ _ op hand hor] at h ⊢
            cases hl : exprVal fuel root pos l with
            | ok lv =>
              rw [hl] at h
              rw [m5 _ _ _ _ hl (by simp)]
              simp only [] at h ⊢
              cases hr : exprVal fuel root pos r' with
              | ok rv => rw [hr] at h; rw [m5 _ _ _ _ hr (by simp)]; exact h
              | err er => rw [hr] at h; rw [m5 _ _ _ _ hr (by simp)]; exact h
              | panic s => rw [hr] at h; rw [m5 _ _ _ _ hr (by simp)]; exact h
              | fuel => rw [hr] at h; exact absurd h.symm hne
            | err er => rw [hl] at h; rw [m5 _ _ _ _ hl (by simp)]; exact h
            | panic s => rw [hl] at h; rw [m5 _ _ _ _ hl (by simp)]; exact h
            | fuel => rw [hl] at h; exact absurd h.symm hne
      | existsFn paths =>
        rw [filterExpr_exists] at h ⊢
        cases hf : findPositions fuel root (some pos) paths with
        | ok ps => rw [hf] at h; rw [m1 _ _ _ _ hf (by simp)]; exact h
        | err er => rw [hf] at h; rw [m1 _ _ _ _ hf (by simp)]; exact h
        | panic s => rw [hf] at h; rw [m1 _ _ _ _ hf (by simp)]; exact h
        | fuel => rw [hf] at h; exact absurd h.symm hne
      | paths ps => simp only [filterExpr] at h ⊢; exact h
      | value pv => simp only [filterExpr] at h ⊢; exact h
      | arithUnary op e => simp only [filterExpr] at h ⊢; exact h
      | arithBinary op l r' => simp only [filterExpr] at h ⊢; exact h
    · intro root pos e r h hne
      rw [exprVal_succ_succ]; exact h

theorem mono_le {α : Type} {g : Nat → Res α} (hm : ∀ f r, g f = r → r ≠ .fuel → g (f + 1) = r)
    {f f' : Nat} {r : Res α} (h : g f = r) (hne : r ≠ .fuel) (hle : f ≤ f') : g f' = r := by
  induction f' with
  | zero => have : f = 0 := by omega
            subst this; exact h
  | succ n ih =>
    by_cases hn : f ≤ n
    · exact hm n r (ih hn) hne
    · have : f = n + 1 := by omega
      subst this; exact h

theorem walk_mono_le {root : Bytes} {paths : List Path} {ps : List Pos} {f f' : Nat} {r : Res (List Pos)}
    (h : walk f root paths ps = r) (hne : r ≠ .fuel) (hle : f ≤ f') : walk f' root paths ps = r :=
  mono_le (g := fun f => walk f root paths ps) (fun f r => (model_mono f).2.1 root paths ps r) h hne hle

theorem filterAll_mono_le {root : Bytes} {e : Expr} {ps : List Pos} {f f' : Nat} {r : Res (List Pos)}
    (h : filterAll f root e ps = r) (hne : r ≠ .fuel) (hle : f ≤ f') : filterAll f' root e ps = r :=
  mono_le (g := fun f => filterAll f root e ps) (fun f r => (model_mono f).2.2.1 root e ps r) h hne hle

theorem filterExpr_mono_le {root : Bytes} {e : Expr} {pos : Pos} {f f' : Nat} {r : Res Bool}
    (h : filterExpr f root pos e = r) (hne : r ≠ .fuel) (hle : f ≤ f') : filterExpr f' root pos e = r :=
  mono_le (g := fun f => filterExpr f root pos e) (fun f r => (model_mono f).2.2.2.1 root pos e r) h hne hle

theorem findPositions_mono_le {root : Bytes} {cur : Option Pos} {paths : List Path} {f f' : Nat}
    {r : Res (List Pos)} (h : findPositions f root cur paths = r) (hne : r ≠ .fuel) (hle : f ≤ f') :
    findPositions f' root cur paths = r :=
  mono_le (g := fun f => findPositions f root cur paths) (fun f r => (model_mono f).1 root cur paths r) h hne hle

/-! ### some fuel is enough -/

/-- given that every single item can be decided, the whole frontier can be filtered -/
theorem filterAll_terminates (v₀ : JV) (hg : goodTop v₀ = true) (e : Expr) (hok : okExpr e = true)
    (hfe : ∀ pos w, Sel.Rep (encodeSpec v₀) pos w → ∃ F, filterExpr F (encodeSpec v₀) pos e ≠ .fuel) :
    ∀ (ps : List Pos) (ws : List JV), Sel.RepL (encodeSpec v₀) ps ws → ∃ F, filterAll F (encodeSpec v₀) e ps ≠ .fuel
  | [], _, _ => ⟨1, by simp [filterAll]⟩
  | _ :: _, [], h => h.elim
  | pos :: rest, w :: ws, h => by
    obtain ⟨F1, h1⟩ := hfe pos w h.1
    obtain ⟨F2, h2⟩ := filterAll_terminates v₀ hg e hok hfe rest ws h.2
    refine ⟨F1 + F2 + 1, ?_⟩
    rw [filterAll_cons, filterExpr_mono_le rfl h1 (by omega : F1 ≤ F1 + F2),
      filterAll_mono_le rfl h2 (by omega : F2 ≤ F1 + F2)]
    cases hk : filterExpr F1 (encodeSpec v₀) pos e with
    | ok keep =>
      simp only []
      cases hr : filterAll F2 (encodeSpec v₀) e rest with
      | ok r => simp
      | err er => simp
      | panic s => simp
      | fuel => exact absurd hr h2
    | err er => simp
    | panic s => simp
    | fuel => exact absurd hk h1

mutual
theorem walk_terminates (v₀ : JV) (hg : goodTop v₀ = true) : (paths : List Path) → suppPaths paths = true →
    ∀ (ps : List Pos) (ws : List JV), Sel.RepL (encodeSpec v₀) ps ws →
      ∃ F, walk F (encodeSpec v₀) paths ps ≠ .fuel
  | [], _, ps, _, _ => ⟨1, by simp [walk]⟩
  | .root :: rest, hs, ps, ws, hr => by
    simp only [suppPaths, Bool.and_eq_true] at hs
    obtain ⟨F, hF⟩ := walk_terminates v₀ hg rest hs.2 ps ws hr
    exact ⟨F + 1, by rw [walk_root]; exact hF⟩
  | .current :: rest, hs, ps, ws, hr => by
    simp only [suppPaths, Bool.and_eq_true] at hs
    obtain ⟨F, hF⟩ := walk_terminates v₀ hg rest hs.2 ps ws hr
    exact ⟨F + 1, by rw [walk_current]; exact hF⟩
  | .dotWildcard :: rest, hs, ps, ws, hr => by
    simp only [suppPaths, Bool.and_eq_true] at hs
    obtain ⟨ps1, h1, h2⟩ := stepAll_rep _ .dotWildcard rfl ps ws hr
    obtain ⟨F, hF⟩ := walk_terminates v₀ hg rest hs.2 ps1 _ h2
    exact ⟨F + 1, by rw [walk_plain _ _ _ rfl, h1]; exact hF⟩
  | .bracketWildcard :: rest, hs, ps, ws, hr => by
    simp only [suppPaths, Bool.and_eq_true] at hs
    obtain ⟨ps1, h1, h2⟩ := stepAll_rep _ .bracketWildcard rfl ps ws hr
    obtain ⟨F, hF⟩ := walk_terminates v₀ hg rest hs.2 ps1 _ h2
    exact ⟨F + 1, by rw [walk_plain _ _ _ rfl, h1]; exact hF⟩
  | .dotField nm :: rest, hs, ps, ws, hr => by
    simp only [suppPaths, Bool.and_eq_true] at hs
    obtain ⟨ps1, h1, h2⟩ := stepAll_rep _ (.dotField nm) rfl ps ws hr
    obtain ⟨F, hF⟩ := walk_terminates v₀ hg rest hs.2 ps1 _ h2
    exact ⟨F + 1, by rw [walk_plain _ _ _ rfl, h1]; exact hF⟩
  | .colonField nm :: rest, hs, ps, ws, hr => by
    simp only [suppPaths, Bool.and_eq_true] at hs
    obtain ⟨ps1, h1, h2⟩ := stepAll_rep _ (.colonField nm) rfl ps ws hr
    obtain ⟨F, hF⟩ := walk_terminates v₀ hg rest hs.2 ps1 _ h2
    exact ⟨F + 1, by rw [walk_plain _ _ _ rfl, h1]; exact hF⟩
  | .objectField nm :: rest, hs, ps, ws, hr => by
    simp only [suppPaths, Bool.and_eq_true] at hs
    obtain ⟨ps1, h1, h2⟩ := stepAll_rep _ (.objectField nm) rfl ps ws hr
    obtain ⟨F, hF⟩ := walk_terminates v₀ hg rest hs.2 ps1 _ h2
    exact ⟨F + 1, by rw [walk_plain _ _ _ rfl, h1]; exact hF⟩
  | .arrayIndices is :: rest, hs, ps, ws, hr => by
    simp only [suppPaths, Bool.and_eq_true] at hs
    obtain ⟨ps1, h1, h2⟩ := stepAll_rep _ (.arrayIndices is) rfl ps ws hr
    obtain ⟨F, hF⟩ := walk_terminates v₀ hg rest hs.2 ps1 _ h2
    exact ⟨F + 1, by rw [walk_plain _ _ _ rfl, h1]; exact hF⟩
  | .arithmeticExpr e :: rest, hs, _, _, _ => by simp [suppPaths, suppPath] at hs
  | .filterExpr e :: rest, hs, ps, ws, hr => by
    simp only [suppPaths, suppPath, Bool.and_eq_true] at hs
    have hok := suppFilter_ok e hs.1
    obtain ⟨F1, h1⟩ := filterAll_terminates v₀ hg e hok (filterExpr_terminates v₀ hg e hs.1) ps ws hr
    cases hfa : filterAll F1 (encodeSpec v₀) e ps with
    | ok ps1 =>
      obtain ⟨ws1, hr1, _⟩ := (select_main v₀ hg F1).2.2.1 e ps ws ps1 hfa hok hr
      obtain ⟨F2, h2⟩ := walk_terminates v₀ hg rest hs.2 ps1 ws1 hr1
      refine ⟨F1 + F2 + 1, ?_⟩
      rw [walk_filter _ _ _ e (.inl rfl), filterAll_mono_le hfa (by simp) (by omega : F1 ≤ F1 + F2)]
      simp only []
      rw [walk_mono_le rfl h2 (by omega : F2 ≤ F1 + F2)]; exact h2
    | err er => exact ⟨F1 + 1, by rw [walk_filter _ _ _ e (.inl rfl), hfa]; simp⟩
    | panic s => exact ⟨F1 + 1, by rw [walk_filter _ _ _ e (.inl rfl), hfa]; simp⟩
    | fuel => exact absurd hfa h1
  | .predicate e :: rest, hs, ps, ws, hr => by
    simp only [suppPaths, suppPath, Bool.and_eq_true] at hs
    have hok := suppFilter_ok e hs.1
    obtain ⟨F1, h1⟩ := filterAll_terminates v₀ hg e hok (filterExpr_terminates v₀ hg e hs.1) ps ws hr
    cases hfa : filterAll F1 (encodeSpec v₀) e ps with
    | ok ps1 =>
      obtain ⟨ws1, hr1, _⟩ := (select_main v₀ hg F1).2.2.1 e ps ws ps1 hfa hok hr
      obtain ⟨F2, h2⟩ := walk_terminates v₀ hg rest hs.2 ps1 ws1 hr1
      refine ⟨F1 + F2 + 1, ?_⟩
      rw [walk_filter _ _ _ e (.inr rfl), filterAll_mono_le hfa (by simp) (by omega : F1 ≤ F1 + F2)]
      simp only []
      rw [walk_mono_le rfl h2 (by omega : F2 ≤ F1 + F2)]; exact h2
    | err er => exact ⟨F1 + 1, by rw [walk_filter _ _ _ e (.inr rfl), hfa]; simp⟩
    | panic s => exact ⟨F1 + 1, by rw [walk_filter _ _ _ e (.inr rfl), hfa]; simp⟩
    | fuel => exact absurd hfa h1
theorem filterExpr_terminates (v₀ : JV) (hg : goodTop v₀ = true) : (e : Expr) → suppFilter e = true →
    ∀ (pos : Pos) (w : JV), Sel.Rep (encodeSpec v₀) pos w →
      ∃ F, filterExpr F (encodeSpec v₀) pos e ≠ .fuel
  | .binaryOp op l r, hs, pos, w, hr => by
    simp only [suppFilter] at hs
    by_cases hlg : isLogic op = true
    · rw [if_pos hlg] at hs
      simp only [Bool.and_eq_true] at hs
      obtain ⟨F1, h1⟩ := filterExpr_terminates v₀ hg l hs.1 pos w hr
      obtain ⟨F2, h2⟩ := filterExpr_terminates v₀ hg r hs.2 pos w hr
      refine ⟨F1 + F2 + 1, ?_⟩
      have e1 := filterExpr_mono_le (f' := F1 + F2) rfl h1 (by omega)
      have e2 := filterExpr_mono_le (f' := F1 + F2) rfl h2 (by omega)
      have hop : op = .and ∨ op = .or := by cases op <;> simp_all [isLogic]
      rcases hop with rfl | rfl
      · rw [filterExpr_and, e1, e2]
        cases hL : filterExpr F1 (encodeSpec v₀) pos l <;> cases hR : filterExpr F2 (encodeSpec v₀) pos r <;>
          first | (exact absurd hL h1) | (exact absurd hR h2) | simp [logic2]
      · rw [filterExpr_or, e1, e2]
        cases hL : filterExpr F1 (encodeSpec v₀) pos l <;> cases hR : filterExpr F2 (encodeSpec v₀) pos r <;>
          first | (exact absurd hL h1) | (exact absurd hR h2) | simp [logic2]
    · rw [if_neg hlg] at hs
      simp only [Bool.and_eq_true] at hs
      have hand : op ≠ .and := by intro h; subst h; simp [isLogic] at hlg
      have hor : op ≠ .or := by intro h; subst h; simp [isLogic] at hlg
      obtain ⟨lv, hl⟩ := exprVal_total v₀ hg 0 pos w l hs.1 hr
      obtain ⟨rv, hrv⟩ := exprVal_total v₀ hg 0 pos w r hs.2 hr
      obtain ⟨b, hb⟩ := anyPair_total op hand hor lv rv
      exact ⟨2, by rw [filterExpr_cmp 1 _ pos op hand hor, hl, hrv]; simp [hb]⟩
  | .existsFn paths, hs, pos, w, hr => by
    simp only [suppFilter] at hs
    have hst := startOf_exprStart (encodeSpec v₀) pos paths
    have hrs := startOf_rep v₀ hg (some pos) (some w) paths _ hst hr
    obtain ⟨F, hF⟩ := walk_terminates v₀ hg paths hs [exprStart (encodeSpec v₀) pos paths]
      [sstartOf v₀ (some w) paths] ⟨hrs, trivial⟩
    refine ⟨F + 2, ?_⟩
    rw [filterExpr_exists, findPositions_succ, hst]
    simp only []
    cases hw : walk F (encodeSpec v₀) paths [exprStart (encodeSpec v₀) pos paths] with
    | ok ps => simp [Res.map, Res.bind]
    | err er => simp [Res.map, Res.bind]
    | panic s => simp [Res.map, Res.bind]
    | fuel => exact absurd hw hF
  | .paths _, _, _, _, _ => ⟨1, by simp [filterExpr]⟩
  | .value _, _, _, _, _ => ⟨1, by simp [filterExpr]⟩
  | .arithUnary _ _, _, _, _, _ => ⟨1, by simp [filterExpr]⟩
  | .arithBinary _ _ _, _, _, _, _ => ⟨1, by simp [filterExpr]⟩
end

/-- **some fuel is enough**: from that amount on, `find_positions` never reports "out of fuel" -/
theorem findPositions_terminates (v₀ : JV) (hg : goodTop v₀ = true) (jp : JsonPath) (hs : suppPaths jp = true)
    (hhead : jp.head? ≠ some .current) :
    ∃ F, ∀ fuel, F ≤ fuel → findPositions fuel (encodeSpec v₀) none jp ≠ .fuel := by
  obtain ⟨start, hst⟩ := startOf_total (encodeSpec v₀) none jp (fun _ => hhead)
  have hrs := startOf_rep v₀ hg none none jp start hst trivial
  obtain ⟨F, hF⟩ := walk_terminates v₀ hg jp hs [start] [sstartOf v₀ none jp] ⟨hrs, trivial⟩
  have h1 : findPositions (F + 1) (encodeSpec v₀) none jp ≠ .fuel := by
    rw [findPositions_succ, hst]; exact hF
  exact ⟨F + 1, fun fuel hle => by rw [findPositions_mono_le rfl h1 hle]; exact h1⟩

/-- **the evaluator, with enough fuel**: `Ok` with positions representing exactly the items the
path denotes, or `Err` and the path has no denotation (unsupported expression) -/
theorem findPositions_exact (v₀ : JV) (hg : goodTop v₀ = true) (jp : JsonPath) (hs : suppPaths jp = true)
    (hhead : jp.head? ≠ some .current) :
    ∃ F, ∀ fuel, F ≤ fuel →
      (∃ ps items, findPositions fuel (encodeSpec v₀) none jp = .ok ps ∧ Sel.RepL (encodeSpec v₀) ps items ∧
        Ev (fun f => Spec.evalPaths f v₀ none jp) items) ∨
      (∃ e, findPositions fuel (encodeSpec v₀) none jp = .err e ∧ ∀ f, Spec.evalPaths f v₀ none jp = none) := by
  obtain ⟨F, hF⟩ := findPositions_terminates v₀ hg jp hs hhead
  refine ⟨F, fun fuel hle => ?_⟩
  rcases findPositions_trichotomy v₀ hg jp hs hhead fuel with h | h | h
  · exact absurd h (hF fuel hle)
  · exact .inl h
  · exact .inr h

end Jsonb
