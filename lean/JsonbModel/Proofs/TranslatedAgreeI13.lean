/-
Phase 6c, editors: the `strip_nulls` family (`strip_nulls_array`, `strip_nulls_object`, `strip_nulls_jsonb`), recursive
functions that RETURN builders, against `Fn.stripArray` / `Fn.stripItems` / `Fn.stripObject` / `Fn.stripMembers` /
`Fn.stripNulls` of Functions/Edit.lean.  I13: the two loops for ANY callees that agree with the model below the fuel.
As for the serde bridge the model collects the iterators eagerly where the source walks them lazily with `?` in the
loop body: equalities wherever the model's answer is not a panic.
-/
import JsonbModel.Proofs.TranslatedAgreeI12

set_option linter.unusedSimpArgs false
set_option linter.unusedVariables false

namespace Jsonb.TrAgree
open Jsonb.Rs

/-- the builders the two functions return, from the model's entry lists -/
def arrB (es : List BEntry) : Tr.ArrayBuilder := ⟨ofBEs es⟩
def objB (m : List (Bytes × BEntry)) : Tr.ObjectBuilder := ⟨ofBKVs m⟩

/-- what the loops assume about the two functions they call: they agree with the model below some fuel -/
def StripRecOK (f : Nat) (recO : Int → Bytes → Res Tr.ObjectBuilder) (recA : Int → Bytes → Res Tr.ArrayBuilder) : Prop :=
  ∀ f', f' < f → ∀ (h : Nat) (value : Bytes), value.length < 1152921504606846976 →
    (Fn.stripObject f' h value ≠ .fuel → (Fn.stripObject f' h value).isPanic = false →
      recO (h : Int) value = (Fn.stripObject f' h value).map objB) ∧
    (Fn.stripArray f' h value ≠ .fuel → (Fn.stripArray f' h value).isPanic = false →
      recA (h : Int) value = (Fn.stripArray f' h value).map arrB)

theorem StripRecOK.mono {f f' : Nat} {recO recA} (h : StripRecOK f recO recA) (hf : f' ≤ f) : StripRecOK f' recO recA :=
  fun f'' hlt => h f'' (by omega)

theorem array_push_object_any (b : Tr.ArrayBuilder) (ob : Tr.ObjectBuilder) :
    Tr.ArrayBuilder.push_object b ob = .ok ⟨b.entries ++ [.ObjectBuilder ob]⟩ := by
  unfold Tr.ArrayBuilder.push_object
  simp only [Ctl.run_ret', Rs.vecPush]

theorem array_push_array_any (b ab : Tr.ArrayBuilder) :
    Tr.ArrayBuilder.push_array b ab = .ok ⟨b.entries ++ [.ArrayBuilder ab]⟩ := by
  unfold Tr.ArrayBuilder.push_array
  simp only [Ctl.run_ret', Rs.vecPush]

theorem object_push_object_any (b : Tr.ObjectBuilder) (k : Bytes) (ob : Tr.ObjectBuilder) :
    Tr.ObjectBuilder.push_object b k ob = .ok ⟨Rs.btreeInsert b.entries k (.ObjectBuilder ob)⟩ := by
  unfold Tr.ObjectBuilder.push_object
  simp only [Ctl.run_ret']

theorem object_push_array_any (b : Tr.ObjectBuilder) (k : Bytes) (ab : Tr.ArrayBuilder) :
    Tr.ObjectBuilder.push_array b k ab = .ok ⟨Rs.btreeInsert b.entries k (.ArrayBuilder ab)⟩ := by
  unfold Tr.ObjectBuilder.push_array
  simp only [Ctl.run_ret']

/-- the model's treatment of one array item, given the answers of the two callees -/
def stripHeadOf (ro : Nat → Res (List (Bytes × BEntry))) (ra : Nat → Res (List BEntry)) (x : JE × Bytes) : Res BEntry :=
  if x.1.ty = C.CONTAINER_TAG then
    match readU32At x.2 0 with
    | none => .err "InvalidEOF"
    | some ih =>
      if hdrType ih = C.OBJECT_CONTAINER_TAG then (ro ih).map BEntry.obj
      else if hdrType ih = C.ARRAY_CONTAINER_TAG then (ra ih).map BEntry.arr
      else .panic "unreachable"
  else .ok (.raw x.1.ty x.1.len x.2)

/-- what one iteration answers in terms of the model's step (a model panic is excluded by hypothesis) -/
def StepRel {ρ σ : Type} (c : Ctl ρ (Step σ)) (m : Res σ) : Prop :=
  match m with
  | .ok s => c = .val (.next s)
  | .err e => c = .ret (.err e)
  | .panic _ => True
  | .fuel => True

/-- one iteration of the loop of `strip_nulls_array`, for callees whose answers on the item are the model's -/
theorem sa_loop1_step (recO : Int → Bytes → Res Tr.ObjectBuilder) (recA : Int → Bytes → Res Tr.ArrayBuilder)
    (x : JE × Bytes) (acc : List BEntry)
    (ro : Nat → Res (List (Bytes × BEntry))) (ra : Nat → Res (List BEntry))
    (ho : ∀ ih, readU32At x.2 0 = some ih → hdrType ih = C.OBJECT_CONTAINER_TAG → ro ih ≠ .fuel → (ro ih).isPanic = false →
      recO (ih : Int) x.2 = (ro ih).map objB)
    (ha : ∀ ih, readU32At x.2 0 = some ih → hdrType ih = C.ARRAY_CONTAINER_TAG → ra ih ≠ .fuel → (ra ih).isPanic = false →
      recA (ih : Int) x.2 = (ra ih).map arrB) :
    StepRel (Tr.strip_nulls_array.loop1 recO recA (ofItem x) (arrB acc))
      ((stripHeadOf ro ra x).map (fun e => arrB (acc ++ [e]))) := by
  obtain ⟨je, item⟩ := x
  unfold Tr.strip_nulls_array.loop1 ofItem ofJE stripHeadOf arrB
  dsimp only at ho ha ⊢
  simp only [tag_eq]
  by_cases hc : je.ty = C.CONTAINER_TAG
  · simp only [decide_eq_true hc, if_true, if_pos hc, read_u32_zero]
    cases hr : readU32At item 0 with
    | none => simp only [Ctl.ofRes_err', Ctl.ret_bind', Rs.loopStep_err', Res.map, Res.bind, StepRel]
    | some ih =>
      simp only [Ctl.ofRes_ok', Ctl.val_bind', hdrType_eq]
      simp only [decide_eq_true_eq]
      by_cases hO : hdrType ih = C.OBJECT_CONTAINER_TAG
      · simp only [if_pos hO]
        have ho' := ho ih hr hO
        cases hro : ro ih with
        | ok m =>
          rw [hro] at ho'
          simp only [ho' (fun c => by cases c) rfl, Res.map, Res.bind, Ctl.ofRes_ok', Ctl.val_bind', array_push_object_any,
            Ctl.pure_eq', Rs.loopStep_val', objB, ofBEs_append, ofBEs, ofBE, StepRel]
        | err e =>
          rw [hro] at ho'
          simp only [ho' (fun c => by cases c) rfl, Res.map, Res.bind, Ctl.ofRes_err', Ctl.ret_bind', Rs.loopStep_err', StepRel]
        | panic s => simp only [Res.map, Res.bind, StepRel]
        | fuel => simp only [Res.map, Res.bind, StepRel]
      · simp only [if_neg hO]
        by_cases hA : hdrType ih = C.ARRAY_CONTAINER_TAG
        · simp only [if_pos hA]
          have ha' := ha ih hr hA
          cases hra : ra ih with
          | ok es =>
            rw [hra] at ha'
            simp only [ha' (fun c => by cases c) rfl, Res.map, Res.bind, Ctl.ofRes_ok', Ctl.val_bind', array_push_array_any,
              Ctl.pure_eq', Rs.loopStep_val', arrB, ofBEs_append, ofBEs, ofBE, StepRel]
          | err e =>
            rw [hra] at ha'
            simp only [ha' (fun c => by cases c) rfl, Res.map, Res.bind, Ctl.ofRes_err', Ctl.ret_bind', Rs.loopStep_err', StepRel]
          | panic s => simp only [Res.map, Res.bind, StepRel]
          | fuel => simp only [Res.map, Res.bind, StepRel]
        · simp only [if_neg hA, Res.map, Res.bind, StepRel]
  · simp only [decide_eq_false hc, Bool.false_eq_true, if_false, if_neg hc, array_push_raw_any, Ctl.ofRes_ok', Ctl.val_bind', Ctl.pure_eq', Rs.loopStep_val', ofBEs_append,
      ofBEs, ofBE, Res.map, Res.bind, StepRel]

/-- the model's treatment of one object member, given the answers of the two callees -/
def stripMemberOf (ro : Nat → Res (List (Bytes × BEntry))) (ra : Nat → Res (List BEntry)) (m : Bytes × JE × Bytes)
    (acc : List (Bytes × BEntry)) : Res (List (Bytes × BEntry)) :=
  if m.2.1.ty = C.CONTAINER_TAG then
    match readU32At m.2.2 0 with
    | none => .err "InvalidEOF"
    | some ih =>
      if hdrType ih = C.OBJECT_CONTAINER_TAG then (ro ih).map (fun s => bInsert m.1 (.obj s) acc)
      else if hdrType ih = C.ARRAY_CONTAINER_TAG then (ra ih).map (fun es => bInsert m.1 (.arr es) acc)
      else .panic "unreachable"
  else if m.2.1.ty = C.NULL_TAG then .ok acc
  else .ok (bInsert m.1 (.raw m.2.1.ty m.2.1.len m.2.2) acc)

/-- one iteration of the loop of `strip_nulls_object` -/
theorem so_loop1_step (recO : Int → Bytes → Res Tr.ObjectBuilder) (recA : Int → Bytes → Res Tr.ArrayBuilder)
    (m : Bytes × JE × Bytes) (acc : List (Bytes × BEntry))
    (ro : Nat → Res (List (Bytes × BEntry))) (ra : Nat → Res (List BEntry))
    (ho : ∀ ih, readU32At m.2.2 0 = some ih → hdrType ih = C.OBJECT_CONTAINER_TAG → ro ih ≠ .fuel → (ro ih).isPanic = false →
      recO (ih : Int) m.2.2 = (ro ih).map objB)
    (ha : ∀ ih, readU32At m.2.2 0 = some ih → hdrType ih = C.ARRAY_CONTAINER_TAG → ra ih ≠ .fuel → (ra ih).isPanic = false →
      recA (ih : Int) m.2.2 = (ra ih).map arrB) :
    StepRel (Tr.strip_nulls_object.loop1 recO recA (ofMember m) (objB acc))
      ((stripMemberOf ro ra m acc).map objB) := by
  obtain ⟨key, je, item⟩ := m
  unfold Tr.strip_nulls_object.loop1 ofMember ofJE stripMemberOf objB
  dsimp only at ho ha ⊢
  simp only [tag_eq]
  by_cases hc : je.ty = C.CONTAINER_TAG
  · simp only [decide_eq_true hc, if_true, if_pos hc, read_u32_zero]
    cases hr : readU32At item 0 with
    | none => simp only [Ctl.ofRes_err', Ctl.ret_bind', Rs.loopStep_err', Res.map, Res.bind, StepRel]
    | some ih =>
      simp only [Ctl.ofRes_ok', Ctl.val_bind', hdrType_eq]
      simp only [decide_eq_true_eq]
      by_cases hO : hdrType ih = C.OBJECT_CONTAINER_TAG
      · simp only [if_pos hO]
        have ho' := ho ih hr hO
        cases hro : ro ih with
        | ok s =>
          rw [hro] at ho'
          simp only [ho' (fun c => by cases c) rfl, Res.map, Res.bind, Ctl.ofRes_ok', Ctl.val_bind', object_push_object_any,
            Ctl.pure_eq', Rs.loopStep_val', objB, ← btreeInsert_bInsert, ofBE, StepRel]
        | err e =>
          rw [hro] at ho'
          simp only [ho' (fun c => by cases c) rfl, Res.map, Res.bind, Ctl.ofRes_err', Ctl.ret_bind', Rs.loopStep_err', StepRel]
        | panic s => simp only [Res.map, Res.bind, StepRel]
        | fuel => simp only [Res.map, Res.bind, StepRel]
      · simp only [if_neg hO]
        by_cases hA : hdrType ih = C.ARRAY_CONTAINER_TAG
        · simp only [if_pos hA]
          have ha' := ha ih hr hA
          cases hra : ra ih with
          | ok es =>
            rw [hra] at ha'
            simp only [ha' (fun c => by cases c) rfl, Res.map, Res.bind, Ctl.ofRes_ok', Ctl.val_bind', object_push_array_any,
              Ctl.pure_eq', Rs.loopStep_val', arrB, ← btreeInsert_bInsert, ofBE, StepRel]
          | err e =>
            rw [hra] at ha'
            simp only [ha' (fun c => by cases c) rfl, Res.map, Res.bind, Ctl.ofRes_err', Ctl.ret_bind', Rs.loopStep_err', StepRel]
          | panic s => simp only [Res.map, Res.bind, StepRel]
          | fuel => simp only [Res.map, Res.bind, StepRel]
        · simp only [if_neg hA, Res.map, Res.bind, StepRel]
  · simp only [decide_eq_false hc, Bool.false_eq_true, if_false, if_neg hc]
    by_cases hn : je.ty = C.NULL_TAG
    · simp only [decide_eq_true hn, if_true, if_pos hn, Ctl.ret_bind', Rs.loopStep_cont', Res.map, Res.bind, StepRel]
    · simp only [decide_eq_false hn, Bool.false_eq_true, if_false, if_neg hn, object_push_raw_any, Ctl.ofRes_ok', Ctl.val_bind',
        Ctl.pure_eq', Rs.loopStep_val', ← btreeInsert_bInsert, ofBE, Res.map, Res.bind, StepRel]

end Jsonb.TrAgree
