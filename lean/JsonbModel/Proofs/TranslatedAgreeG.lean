/-
Root of the phase-6a agreement theorems (tools/rs2lean6a.py, Generated/Translated6a.lean): the JSONPath selector of
src/jsonpath/selector.rs against the model of Selector.lean.  See tools/RS2LEAN.md, "Phase 6a".
  G1  representation maps, the nom readers (`decode_header`, `decode_jentry`, `decode_jentries`, `decode_string`)
  G2  `select_object_values`, `select_array_values`
  G3  `select_by_name`
  G4  `select_by_indices`
  G5  `build_predicate_result`, `build_values`
  G6  `build_scalar_array`
  G7  AST maps, the agreement relations `AgR` / `AgC`, `root_position`, `select_path`
  G8  the frontier step (`Sel.stepAll`), the operand steps (`Sel.operandSteps`)
  G9  the scalar value of a position
  G10 `Sel.valuesOf`, `convert_expr_val`, derived `PartialOrd` of `PathValue`, `compare_value`, `compare`
  G11 the filter loop (`Sel.filterAll`) and the path loop (`Sel.walk`) for any callee
  G12 `find_positions` / `filter_expr`, one unfolding
  G13 the group theorem: `find_positions_agrees`, `filter_expr_agrees`
  G14 `is_predicate`, `Selector::select` / `exists` / `predicate_match`
  G15 every frontier position is a value of its Rust types; `select_agrees'`
  G16 the public wrappers of functions.rs: `path_exists`, `path_match`, `get_by_path`, `get_by_path_first`, `get_by_path_array`
-/
import JsonbModel.Proofs.TranslatedAgreeG16
