/-
Agreement theorems, phase 5a, part 2: `object_keys` (two loops: the key entry words are copied while the key
ends are collected in a `Vec<usize>`; then the key bytes) = `Fn.objectKeys`.
-/
import JsonbModel.Proofs.TranslatedAgreeE1

set_option linter.unusedSimpArgs false
set_option linter.unusedVariables false

namespace Jsonb.TrAgree
open Jsonb.Rs

/-! ## object_keys -/

/-- the last element of a list, `d` for the empty list -/
def lastD : List Nat → Nat → Nat
  | [], d => d
  | o :: os, _ => lastD os o

def natsI (l : List Nat) : List Int := l.map (fun (n : Nat) => (n : Int))

theorem natsI_append (a b : List Nat) : natsI (a ++ b) = natsI a ++ natsI b := by simp [natsI]

/-- one iteration of the first loop: the key entry word is copied, the end of the key recorded -/
theorem okeys_loop1_step (value : Bytes) (i : Int) (buf : Bytes) (jo ko : Nat) (offs : List Nat)
    (hjo : jo + 4 < 18446744073709551616) (hko : ko + 268435456 < 18446744073709551616) :
    Tr.object_keys.loop1 value i (buf, (jo : Int), (ko : Int), natsI offs) =
      match readU32At value jo with
      | none => Ctl.ret (.ok none)
      | some w => Ctl.val (.next (buf ++ u32be w, ((jo + 4 : Nat) : Int), ((ko + jeLen w : Nat) : Int),
          natsI (offs ++ [ko + jeLen w]))) := by
  unfold Tr.object_keys.loop1
  dsimp only
  rw [read_u32_agrees value jo (Rs.le_max_of_lt hjo)]
  cases hr : readU32At value jo with
  | none => simp
  | some w =>
    have hl := jeLen_lt w
    have hw := readU32At_lt _ _ _ hr
    have h4 : Rs.add .usize (jo : Int) 4 = .ok ((jo + 4 : Nat) : Int) := Rs.add_usize_nat jo 4 hjo
    have h5 : Rs.add .usize (ko : Int) (jeLen w : Int) = .ok ((ko + jeLen w : Nat) : Int) :=
      Rs.add_usize_nat ko (jeLen w) (by omega)
    simp only [Rs.okQ_ok', Ctl.val_bind', decode_jentry_agrees, Ctl.ofRes_ok', Rs.usize_nat (jeLen w) (by omega),
      toBeBytes_u32 _ hw, h4, h5, Ctl.pure_eq', Rs.loopStep_val', Rs.extendFromSlice, Rs.vecPush, natsI_append]
    rfl

theorem okeys_loop1_run (value : Bytes) : ∀ (n : Nat) (i : Int) (buf : Bytes) (jo ko : Nat) (offs : List Nat),
    jo + n * 4 < 18446744073709551616 → ko + n * 268435456 < 18446744073709551616 →
    Rs.forRangeAux (Tr.object_keys.loop1 value) n i (buf, (jo : Int), (ko : Int), natsI offs) =
      match Fn.objectKeysWords value n jo ko with
      | none => Ctl.ret (.ok none)
      | some (ws, os) => Ctl.val (buf ++ ws, ((jo + n * 4 : Nat) : Int), ((lastD os ko : Nat) : Int), natsI (offs ++ os)) := by
  intro n
  induction n with
  | zero => intro i buf jo ko offs _ _; simp [Rs.forRangeAux, Fn.objectKeysWords, lastD]
  | succ n ih =>
    intro i buf jo ko offs hjo hko
    rw [Rs.forRangeAux, okeys_loop1_step value i buf jo ko offs (by omega) (by omega), Fn.objectKeysWords]
    cases hr : readU32At value jo with
    | none => rfl
    | some w =>
      have hl := jeLen_lt w
      simp only []
      rw [ih (i + 1) (buf ++ u32be w) (jo + 4) (ko + jeLen w) (offs ++ [ko + jeLen w]) (by omega) (by omega)]
      cases Fn.objectKeysWords value n (jo + 4) (ko + jeLen w) with
      | none => rfl
      | some p =>
        obtain ⟨ws, os⟩ := p
        simp only [List.append_assoc, List.singleton_append, lastD]
        congr 3
        omega

/-- the offsets the first loop records stay below `2^64` -/
theorem okeysWords_bound (value : Bytes) : ∀ (n jo ko : Nat) (ws : Bytes) (os : List Nat),
    Fn.objectKeysWords value n jo ko = some (ws, os) → ∀ o ∈ os, o ≤ ko + n * 268435456 := by
  intro n
  induction n with
  | zero => intro jo ko ws os h; simp only [Fn.objectKeysWords, Option.some.injEq, Prod.mk.injEq] at h; obtain ⟨_, rfl⟩ := h; simp
  | succ n ih =>
    intro jo ko ws os h
    rw [Fn.objectKeysWords] at h
    cases hr : readU32At value jo with
    | none => simp [hr] at h
    | some w =>
      simp only [hr] at h
      have hl := jeLen_lt w
      cases hq : Fn.objectKeysWords value n (jo + 4) (ko + jeLen w) with
      | none => simp [hq] at h
      | some p =>
        obtain ⟨ws1, os1⟩ := p
        simp only [hq, Option.some.injEq, Prod.mk.injEq] at h
        obtain ⟨_, rfl⟩ := h
        intro o ho
        simp only [List.mem_cons] at ho
        cases ho with
        | inl ho => omega
        | inr ho => have := ih _ _ _ _ hq o ho; omega

/-- one iteration of the second loop (`x` = the shadowed outer `key_offset`, never read) -/
theorem okeys_loop2_step (value : Bytes) (x : Int) (o : Nat) (buf : Bytes) (prev : Nat) :
    Tr.object_keys.loop2 value x (o : Int) (buf, (prev : Int)) =
      if o > prev then
        match Jsonb.slice value prev o with
        | .ok s => Ctl.val (.next (buf ++ s, (o : Int)))
        | .err e => Ctl.ret (.err e)
        | .panic s => Ctl.ret (.panic s)
        | .fuel => Ctl.ret .fuel
      else Ctl.val (.next (buf, (o : Int))) := by
  unfold Tr.object_keys.loop2
  dsimp only
  by_cases h : o > prev
  · have h' : ((o : Nat) : Int) > ((prev : Nat) : Int) := by omega
    simp only [h, h', decide_true, if_true, slice_model]
    cases Jsonb.slice value prev o <;> simp [Ctl.ofRes, Rs.loopStep, Rs.extendFromSlice]
  · have h' : ¬ (((o : Nat) : Int) > ((prev : Nat) : Int)) := by omega
    simp [h, h', Rs.loopStep]

theorem okeys_loop2_run (value : Bytes) (x : Int) : ∀ (offs : List Nat) (buf : Bytes) (prev : Nat),
    Rs.forIn (natsI offs) (buf, (prev : Int)) (Tr.object_keys.loop2 value x) =
      match Fn.objectKeysCopy value offs prev with
      | .ok ks => Ctl.val (buf ++ ks, ((lastD offs prev : Nat) : Int))
      | .err e => Ctl.ret (.err e)
      | .panic s => Ctl.ret (.panic s)
      | .fuel => Ctl.ret .fuel := by
  intro offs
  induction offs with
  | nil => intro buf prev; simp [natsI, Rs.forIn, Fn.objectKeysCopy, lastD]
  | cons o offs ih =>
    intro buf prev
    simp only [natsI, List.map_cons] at ih ⊢
    rw [Rs.forIn, okeys_loop2_step, Fn.objectKeysCopy]
    by_cases h : o > prev
    · simp only [h, if_true]
      cases hs : Jsonb.slice value prev o with
      | ok s =>
        simp only [ih]
        cases Fn.objectKeysCopy value offs o <;> simp [lastD]
      | err e => rfl
      | panic e => rfl
      | fuel => rfl
    · simp only [h, if_false, ih]
      cases Fn.objectKeysCopy value offs o <;> simp [lastD]

/-- the first loop from any spelling of its start offsets -/
theorem okeys_loop1_run_int (value : Bytes) (n : Nat) (i : Int) (buf : Bytes) (joI koI : Int) (jo ko : Nat)
    (hj : joI = (jo : Int)) (hk : koI = (ko : Int))
    (hjo : jo + n * 4 < 18446744073709551616) (hko : ko + n * 268435456 < 18446744073709551616) :
    Rs.forRangeAux (Tr.object_keys.loop1 value) n i (buf, joI, koI, ([] : List Int)) =
      match Fn.objectKeysWords value n jo ko with
      | none => Ctl.ret (.ok none)
      | some (ws, os) => Ctl.val (buf ++ ws, ((jo + n * 4 : Nat) : Int), ((lastD os ko : Nat) : Int), natsI os) := by
  subst hj hk
  have := okeys_loop1_run value n i buf jo ko [] hjo hko
  simpa [natsI] using this

/-- the second loop from any spelling of the start of the keys -/
theorem okeys_loop2_run_int (value : Bytes) (x : Int) (offs : List Nat) (buf : Bytes) (prevI : Int) (prev : Nat)
    (hp : prevI = (prev : Int)) :
    Rs.forIn (natsI offs) (buf, prevI) (Tr.object_keys.loop2 value x) =
      match Fn.objectKeysCopy value offs prev with
      | .ok ks => Ctl.val (buf ++ ks, ((lastD offs prev : Nat) : Int))
      | .err e => Ctl.ret (.err e)
      | .panic s => Ctl.ret (.panic s)
      | .fuel => Ctl.ret .fuel := by
  subst hp; exact okeys_loop2_run value x offs buf prev

theorem object_keys_agrees (value : Bytes) (text : Res (Option Bytes)) :
    Tr.object_keys value text = if isJsonb value then Fn.objectKeys value else text := by
  unfold Tr.object_keys Fn.objectKeys
  rw [is_jsonb_agrees, read_u32_zero]
  cases hj : isJsonb value
  · simp [Ctl.ofRes, Ctl.run]
  · cases hr : readU32At value 0 with
    | none => simp [Ctl.ofRes, Ctl.run, Rs.okQ]
    | some w =>
      have ht := hdrType_eq w C.OBJECT_CONTAINER_TAG
      have hL := hdrLen_lt w
      simp only [Rs.okQ_ok', Ctl.ofRes_ok', Ctl.val_bind', Ctl.pure_eq', Bool.not_true, Bool.false_eq_true, if_false,
        if_true, ht]
      by_cases hh : hdrType w = C.OBJECT_CONTAINER_TAG
      · simp only [hh, decide_true, if_true]
        have hw := headerWord_lt C.ARRAY_CONTAINER_TAG (hdrLen w) (by decide)
        simp (disch := omega) only [hdrLen_cast, header_term, header_term', toBeBytes_u32 _ hw, Rs.add_usize_ok',
          Rs.mul_usize_ok', Ctl.ofRes_ok', Ctl.val_bind', Ctl.pure_eq', vecWithCapacity_ok Int 8 (hdrLen w) (by omega),
          Rs.forRange_zero, Rs.extendFromSlice, List.nil_append]
        -- whatever the start offsets are spelled like, they are these numbers
        rw [okeys_loop1_run_int value (hdrLen w) 0 _ _ _ 4 (8 * hdrLen w + 4) (by omega) (by omega) (by omega) (by omega)]
        cases Fn.objectKeysWords value (hdrLen w) 4 (8 * hdrLen w + 4) with
        | none => rfl
        | some p =>
          obtain ⟨ws, os⟩ := p
          simp only [Ctl.val_bind']
          rw [okeys_loop2_run_int value _ os _ _ (8 * hdrLen w + 4) (by omega)]
          cases Fn.objectKeysCopy value os (8 * hdrLen w + 4) <;> simp [Ctl.run]
      · simp [hh]

end Jsonb.TrAgree
