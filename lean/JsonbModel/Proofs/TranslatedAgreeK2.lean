/-
Agreement theorems, phase 7, part 2: the public dispatchers of the shape "text → `parse_value` → `write_to_vec` → the
`_jsonb` half" with ONE document argument (`array_distinct`, `object_delete`, `object_pick`) = the model's
`T.viaJsonb1 …` (`T.arrayDistinct`, `T.objectDelete`, `T.objectPick`).
-/
import JsonbModel.Proofs.TranslatedAgreeK1

set_option linter.unusedSimpArgs false
set_option linter.unusedVariables false

namespace Jsonb.TrAgree
open Jsonb.Rs

/-- **`array_distinct`**, the whole public function (sniffing test, text branch, JSONB branch) -/
theorem array_distinct_whole (value buf : Bytes) (fuel : Nat) (hfuel : 536870913 < fuel)
    (hd : DocOK fuel value) (hb : buf.length < 1152921504606846976) :
    Tr.array_distinct fuel value buf = T.arrayDistinct value buf := by
  unfold Tr.array_distinct T.arrayDistinct
  rw [viaJsonb1_doc, is_jsonb_agrees]
  cases hj : isJsonb value
  · simp only [Ctl.ofRes_ok', Ctl.val_bind', Bool.not_false, if_true]
    rw [text_step fuel value hj hd]
    cases hdoc : docBytes value with
    | ok b =>
      simp only [Ctl.ofRes_ok', Ctl.val_bind', Res.bind]
      rw [array_distinct_jsonb_agrees b buf fuel hfuel (hd.len b hdoc) hb]
      cases Fn.arrayDistinct b buf <;> rfl
    | err e => rfl
    | panic s => rfl
    | fuel => rfl
  · simp only [Ctl.ofRes_ok', Ctl.val_bind', Bool.not_true, Bool.false_eq_true, if_false, Ctl.pure_eq']
    rw [docBytes_jsonb value hj, array_distinct_jsonb_agrees value buf fuel hfuel (hd.len value (docBytes_jsonb value hj)) hb]
    simp only [Res.bind]
    cases Fn.arrayDistinct value buf <;> rfl

/-- **`object_delete`**, the whole public function; modulo the texts of panics, as the `_jsonb` half (phase 4) -/
theorem object_delete_whole (value buf : Bytes) (keys : List Bytes) (fuel : Nat) (hfuel : 536870913 < fuel)
    (hkeys : SortedBy Rs.cmpBytes keys) (hd : DocOK fuel value) (hb : buf.length < 1152921504606846976) :
    panicAny (Tr.object_delete fuel value keys buf) = panicAny (T.objectDelete value keys buf) := by
  unfold Tr.object_delete T.objectDelete
  rw [viaJsonb1_doc, is_jsonb_agrees]
  cases hj : isJsonb value
  · simp only [Ctl.ofRes_ok', Ctl.val_bind', Bool.not_false, if_true]
    rw [text_step fuel value hj hd]
    cases hdoc : docBytes value with
    | ok b =>
      simp only [Ctl.ofRes_ok', Ctl.val_bind', Res.bind]
      have h := object_delete_jsonb_agrees b buf keys fuel hfuel hkeys (hd.len b hdoc) hb
      revert h
      cases Tr.object_delete_jsonb fuel b keys buf <;> exact fun h => h
    | err e => rfl
    | panic s => rfl
    | fuel => rfl
  · simp only [Ctl.ofRes_ok', Ctl.val_bind', Bool.not_true, Bool.false_eq_true, if_false, Ctl.pure_eq']
    rw [docBytes_jsonb value hj]
    simp only [Res.bind]
    have h := object_delete_jsonb_agrees value buf keys fuel hfuel hkeys (hd.len value (docBytes_jsonb value hj)) hb
    revert h
    cases Tr.object_delete_jsonb fuel value keys buf <;> exact fun h => h

/-- **`object_pick`**, the whole public function; modulo the texts of panics, as the `_jsonb` half (phase 4) -/
theorem object_pick_whole (value buf : Bytes) (keys : List Bytes) (fuel : Nat) (hfuel : 536870913 < fuel)
    (hkeys : SortedBy Rs.cmpBytes keys) (hd : DocOK fuel value) (hb : buf.length < 1152921504606846976) :
    panicAny (Tr.object_pick fuel value keys buf) = panicAny (T.objectPick value keys buf) := by
  unfold Tr.object_pick T.objectPick
  rw [viaJsonb1_doc, is_jsonb_agrees]
  cases hj : isJsonb value
  · simp only [Ctl.ofRes_ok', Ctl.val_bind', Bool.not_false, if_true]
    rw [text_step fuel value hj hd]
    cases hdoc : docBytes value with
    | ok b =>
      simp only [Ctl.ofRes_ok', Ctl.val_bind', Res.bind]
      have h := object_pick_jsonb_agrees b buf keys fuel hfuel hkeys (hd.len b hdoc) hb
      revert h
      cases Tr.object_pick_jsonb fuel b keys buf <;> exact fun h => h
    | err e => rfl
    | panic s => rfl
    | fuel => rfl
  · simp only [Ctl.ofRes_ok', Ctl.val_bind', Bool.not_true, Bool.false_eq_true, if_false, Ctl.pure_eq']
    rw [docBytes_jsonb value hj]
    simp only [Res.bind]
    have h := object_pick_jsonb_agrees value buf keys fuel hfuel hkeys (hd.len value (docBytes_jsonb value hj)) hb
    revert h
    cases Tr.object_pick_jsonb fuel value keys buf <;> exact fun h => h

end Jsonb.TrAgree
