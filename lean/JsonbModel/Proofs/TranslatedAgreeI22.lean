/-
Phase 6c, editors: the `delete_by_keypath` family.  I22: one unfolding of each member, the group against `Fn.delArrKp` /
`Fn.delObjKp` by strong induction on the model's fuel.
-/
import JsonbModel.Proofs.TranslatedAgreeI21

set_option linter.unusedSimpArgs false
set_option linter.unusedVariables false

namespace Jsonb.TrAgree
open Jsonb.Rs

theorem popFrontOpt_nil {α : Type} : Rs.popFrontOpt ([] : List α) = (none, []) := rfl
theorem popFrontOpt_cons {α : Type} (x : α) (xs : List α) : Rs.popFrontOpt (x :: xs) = (some x, xs) := rfl

/-- one unfolding of `delete_jsonb_array_by_keypath` -/
theorem del_arr_step (root : Bytes) (g f : Nat) (value : Bytes) (h : Nat) (kp : List KeyPath)
    (hsub : SubDoc root value) (hr : readU32At value 0 = some h) (ht : hdrType h = C.ARRAY_CONTAINER_TAG)
    (hlen : value.length < 1152921504606846976)
    (hg : 536870913 < g) (hrec : DelRecOK root f (Tr.delete_jsonb_array_by_keypath g) (Tr.delete_jsonb_object_by_keypath g))
    (hne : Fn.delArrKp (f + 1) kp h value ≠ .fuel) (hnp : (Fn.delArrKp (f + 1) kp h value).isPanic = false) :
    DelRel arrB (Tr.delete_jsonb_array_by_keypath (g + 1) value (h : Int) (kp.map ofKPath)) (Fn.delArrKp (f + 1) kp h value) := by
  have hL := hdrLen_lt h
  cases kp with
  | nil =>
    rw [Tr.delete_jsonb_array_by_keypath, Fn.delArrKp]
    simp only [List.map_nil, popFrontOpt_nil, Ctl.run_ret', DelRel]
    exact ⟨[], rfl⟩
  | cons p kp' =>
    cases p with
    | quoted s =>
      rw [Tr.delete_jsonb_array_by_keypath, Fn.delArrKp]
      · simp only [List.map_cons, popFrontOpt_cons, ofKPath, Ctl.run_ret', DelRel]
        exact ⟨_, rfl⟩
      · intro idx0 c; cases c
    | name s =>
      rw [Tr.delete_jsonb_array_by_keypath, Fn.delArrKp]
      · simp only [List.map_cons, popFrontOpt_cons, ofKPath, Ctl.run_ret', DelRel]
        exact ⟨_, rfl⟩
      · intro idx0 c; cases c
    | index idx0 =>
      rw [Tr.delete_jsonb_array_by_keypath]
      rw [Fn.delArrKp] at hne hnp ⊢
      simp only [List.map_cons, popFrontOpt_cons, ofKPath, hdrLen_cast_i32, addI32_agrees]
      -- the effective index
      generalize hix : (if idx0 < 0 then Fn.addI32 ((hdrLen h : Nat) : Int) idx0 else Res.ok idx0) = ixr at hne hnp ⊢
      have hix' : (if decide (idx0 < 0) = true then (Ctl.ofRes (Fn.addI32 ((hdrLen h : Nat) : Int) idx0) : Ctl (Option Tr.ArrayBuilder × List Tr.KeyPath) Int)
          else pure idx0) = Ctl.ofRes ixr := by
        rw [← hix]
        by_cases hlt : idx0 < 0
        · simp only [decide_eq_true hlt, if_true, if_pos hlt]
        · simp only [decide_eq_false hlt, Bool.false_eq_true, if_false, if_neg hlt]
          rfl
      rw [hix']
      cases ixr with
      | fuel => exact absurd rfl hne
      | panic s => simp [Res.isPanic] at hnp
      | err e => simp only [Ctl.ofRes_err', Ctl.ret_bind', Ctl.run_ret', DelRel]
      | ok idx =>
        simp only [Ctl.ofRes_ok', Ctl.val_bind', Bool.or_eq_true, decide_eq_true_eq]
        dsimp only at hne hnp ⊢
        by_cases hout : idx < 0 ∨ idx ≥ ((hdrLen h : Nat) : Int)
        · have hout' : idx ≥ ((hdrLen h : Nat) : Int) ∨ idx < 0 := hout.symm
          simp only [if_pos hout, if_pos hout', Ctl.ret_bind', Ctl.run_ret', DelRel]
          exact ⟨_, rfl⟩
        · have hout' : ¬ (idx ≥ ((hdrLen h : Nat) : Int) ∨ idx < 0) := fun c => hout c.symm
          simp only [if_neg hout, if_neg hout', Ctl.pure_eq', Ctl.val_bind'] at hne hnp ⊢
          have hi0 : 0 ≤ idx := by omega
          have hi1 : idx < ((hdrLen h : Nat) : Int) := by omega
          obtain ⟨ix, rfl⟩ : ∃ n : Nat, idx = (n : Int) := ⟨idx.toNat, by omega⟩
          have hixl : ix < hdrLen h := by omega
          simp only [Rs.usize_nat (hdrLen h) (by omega), array_builder_new_agrees (hdrLen h) (by omega), Ctl.ofRes_ok',
            Rs.usize_nat ix (by omega), iterate_array_agrees, Int.toNat_natCast]
          have hi : ∃ items, iterArray value h = .ok items := by
            apply res_ok_of _ (iterArray_ne_fuel value h) _ (iterArray_ne_err value h)
            cases hia : iterArray value h with
            | panic s => rw [hia] at hnp; simp [Res.isPanic] at hnp
            | _ => rfl
          obtain ⟨items, hit⟩ := hi
          rw [hit] at hne hnp ⊢
          dsimp only at hne hnp ⊢
          unfold Rs.forIterEnum
          simp only [Ctl.val_bind', Int.toNat_natCast] at hne hnp ⊢
          rw [forIterEnumFrom_of_drain _ _ g 0 _ (items.map ofItem) _ (drain_array_ok value h g items (by omega) hit)]
          have hrun := dka_run root (Tr.delete_jsonb_array_by_keypath g) (Tr.delete_jsonb_object_by_keypath g) ix items f 0 [] kp'
            (by omega) hrec (fun x hx hc => SubDoc.arr value h items x hsub hr ht hit hx hc)
          have hb0 : (⟨ofBEs []⟩ : Tr.ArrayBuilder) = arrB [] := rfl
          rw [hb0]
          cases hm : Fn.delArrItems f kp' items ix 0 with
          | fuel => rw [hm] at hne; exact absurd rfl hne
          | panic s => rw [hm] at hnp; simp [Res.isPanic] at hnp
          | err e =>
            rw [hm] at hrun
            simp only [ArrRel] at hrun
            simp only [hrun, Ctl.ret_bind', Ctl.run_ret', DelRel]
          | ok o =>
            rw [hm] at hrun
            cases o with
            | none =>
              simp only [ArrRel] at hrun
              obtain ⟨kp2, hrun⟩ := hrun
              simp only [hrun, Ctl.ret_bind', Ctl.run_ret', DelRel]
              exact ⟨kp2, rfl⟩
            | some es =>
              simp only [ArrRel, List.nil_append] at hrun
              obtain ⟨kp2, hrun⟩ := hrun
              simp only [hrun, Ctl.val_bind', Ctl.run_ret', DelRel]
              exact ⟨kp2, rfl⟩

/-- one unfolding of `delete_jsonb_object_by_keypath` -/
theorem del_obj_step (root : Bytes) (g f : Nat) (value : Bytes) (h : Nat) (kp : List KeyPath)
    (hsub : SubDoc root value) (hr : readU32At value 0 = some h) (ht : hdrType h = C.OBJECT_CONTAINER_TAG)
    (hlen : value.length < 1152921504606846976)
    (hkd : KeysDistinct root)
    (hg : 536870913 < g) (hrec : DelRecOK root f (Tr.delete_jsonb_array_by_keypath g) (Tr.delete_jsonb_object_by_keypath g))
    (hne : Fn.delObjKp (f + 1) kp h value ≠ .fuel) (hnp : (Fn.delObjKp (f + 1) kp h value).isPanic = false) :
    DelRel objB (Tr.delete_jsonb_object_by_keypath (g + 1) value (h : Int) (kp.map ofKPath)) (Fn.delObjKp (f + 1) kp h value) := by
  have hL := hdrLen_lt h
  -- the two named arms of the model are the same expression
  have key : ∀ (name : Bytes) (kp' : List KeyPath),
      (match iterObjEntries value h with
        | .ok ms => Fn.delObjMembers f kp' name ms []
        | .err e => .err e
        | .panic s => .panic s
        | .fuel => .fuel) ≠ .fuel →
      (match iterObjEntries value h with
        | .ok ms => Fn.delObjMembers f kp' name ms []
        | .err e => .err e
        | .panic s => .panic s
        | .fuel => .fuel).isPanic = false →
      DelRel objB
        ((do
          let builder ← Ctl.ofRes Tr.ObjectBuilder.new
          let tmp3 ← Ctl.ofRes (Tr.iterate_object_entries value (h : Int))
          let x ← Rs.forIter g Tr.ObjectEntryIterator.next tmp3 (builder, kp'.map ofKPath)
            (Tr.delete_jsonb_object_by_keypath.loop1 (Tr.delete_jsonb_array_by_keypath g) (Tr.delete_jsonb_object_by_keypath g) name)
          Ctl.ret (Res.ok (some x.1, x.2)) : Ctl (Option Tr.ObjectBuilder × List Tr.KeyPath) (Option Tr.ObjectBuilder × List Tr.KeyPath))).run
        (match iterObjEntries value h with
          | .ok ms => Fn.delObjMembers f kp' name ms []
          | .err e => .err e
          | .panic s => .panic s
          | .fuel => .fuel) := by
    intro name kp' hne hnp
    simp only [object_builder_new_agrees, Ctl.ofRes_ok', Ctl.val_bind', iterate_object_entries_agrees]
    have hi : ∃ ms, iterObjEntries value h = .ok ms := by
      apply res_ok_of _ _ _ (iterObjEntries_ne_err value h)
      · intro c; rw [c] at hne; exact hne rfl
      · cases hia : iterObjEntries value h with
        | panic s => rw [hia] at hnp; simp [Res.isPanic] at hnp
        | _ => rfl
    obtain ⟨ms, hms⟩ := hi
    rw [hms] at hne hnp ⊢
    dsimp only at hne hnp ⊢
    rw [forIter_of_drain _ _ g _ (ms.map ofMember) _ (drain_object_ok value h g ms (by omega) hms)]
    have hrun := dko_run root (Tr.delete_jsonb_array_by_keypath g) (Tr.delete_jsonb_object_by_keypath g) name ms f [] kp'
      hrec (fun m hm hc => SubDoc.obj value h ms m hsub hr ht hms hm hc) (hkd value hsub h ms hr ht hms)
    have hb0 : (⟨ofBKVs []⟩ : Tr.ObjectBuilder) = objB [] := rfl
    rw [hb0]
    cases hm : Fn.delObjMembers f kp' name ms [] with
    | fuel => exact absurd hm hne
    | panic s => rw [hm] at hnp; simp [Res.isPanic] at hnp
    | err e =>
      rw [hm] at hrun
      simp only [ObjRel] at hrun
      simp only [hrun, Ctl.ret_bind', Ctl.run_ret', DelRel]
    | ok o =>
      rw [hm] at hrun
      cases o with
      | none =>
        simp only [ObjRel] at hrun
        obtain ⟨kp2, hrun⟩ := hrun
        simp only [hrun, Ctl.ret_bind', Ctl.run_ret', DelRel]
        exact ⟨kp2, rfl⟩
      | some r =>
        simp only [ObjRel] at hrun
        obtain ⟨kp2, hrun⟩ := hrun
        simp only [hrun, Ctl.val_bind', Ctl.run_ret', DelRel]
        exact ⟨kp2, rfl⟩
  cases kp with
  | nil =>
    rw [Tr.delete_jsonb_object_by_keypath, Fn.delObjKp]
    simp only [List.map_nil, popFrontOpt_nil, Ctl.run_ret', DelRel]
    exact ⟨[], rfl⟩
  | cons p kp' =>
    cases p with
    | index i =>
      rw [Tr.delete_jsonb_object_by_keypath, Fn.delObjKp]
      simp only [List.map_cons, popFrontOpt_cons, ofKPath, Ctl.run_ret', DelRel]
      exact ⟨_, rfl⟩
    | quoted name =>
      rw [Tr.delete_jsonb_object_by_keypath]
      rw [Fn.delObjKp] at hne hnp ⊢
      simp only [List.map_cons, popFrontOpt_cons, ofKPath]
      exact key name kp' hne hnp
    | name name =>
      rw [Tr.delete_jsonb_object_by_keypath]
      rw [Fn.delObjKp] at hne hnp ⊢
      simp only [List.map_cons, popFrontOpt_cons, ofKPath]
      exact key name kp' hne hnp

/-- the `delete_by_keypath` group: wherever the model with fuel `f` answers without panicking, the translation with
fuel `g > f + 2^29 + 1` computes the model's builder (or `None`), on every container reachable from a document
without duplicate keys -/
theorem del_all (root : Bytes) (hroot : root.length < 1152921504606846976) (hkd : KeysDistinct root) :
    ∀ f g : Nat, f + 536870914 < g → ∀ (value : Bytes) (h : Nat) (kp : List KeyPath), SubDoc root value →
      readU32At value 0 = some h →
      (hdrType h = C.ARRAY_CONTAINER_TAG → Fn.delArrKp f kp h value ≠ .fuel → (Fn.delArrKp f kp h value).isPanic = false →
        DelRel arrB (Tr.delete_jsonb_array_by_keypath g value (h : Int) (kp.map ofKPath)) (Fn.delArrKp f kp h value)) ∧
      (hdrType h = C.OBJECT_CONTAINER_TAG → Fn.delObjKp f kp h value ≠ .fuel → (Fn.delObjKp f kp h value).isPanic = false →
        DelRel objB (Tr.delete_jsonb_object_by_keypath g value (h : Int) (kp.map ofKPath)) (Fn.delObjKp f kp h value)) := by
  intro f
  induction f using Nat.strong_induction_on with
  | _ f IH =>
    intro g hfg value h kp hsub hr
    have hlen : value.length < 1152921504606846976 := by have := subDoc_length_le root value hsub; omega
    cases f with
    | zero =>
      constructor
      · intro _ hne _; exact absurd (by rw [Fn.delArrKp]) hne
      · intro _ hne _; exact absurd (by rw [Fn.delObjKp]) hne
    | succ f =>
      obtain ⟨g', rfl⟩ : ∃ m, g = m + 1 := ⟨g - 1, by omega⟩
      have hrec : DelRecOK root f (Tr.delete_jsonb_array_by_keypath g') (Tr.delete_jsonb_object_by_keypath g') :=
        fun f' hf' item ih kp' hs hri => IH f' (by omega) g' (by omega) item ih kp' hs hri
      exact ⟨fun ht hne hnp => del_arr_step root g' f value h kp hsub hr ht hlen (by omega) hrec hne hnp,
        fun ht hne hnp => del_obj_step root g' f value h kp hsub hr ht hlen hkd (by omega) hrec hne hnp⟩

end Jsonb.TrAgree
