/-
Agreement theorems, phase 6d, part 5 (property C09): the recursive part of the JSONPath grammar (`filter_expr`, `path`,
`exists_paths`, `exists`, `filter_func`, `expr_atom`, `expr_and`, `expr_or`: one `mutual` block on fuel, one unit per
call) and `predicate`, `paths`, `predicate_or_paths`, `json_path`, `parse_json_path` translated from source EQUAL the
model (`PathParser.exprOr` ties the same knot with one unit per nesting level: a level of the model costs at most 8
calls of the translation).
-/
import JsonbModel.Proofs.TranslatedAgreeJ4

set_option linter.unusedSimpArgs false
set_option linter.unusedVariables false
set_option linter.unusedSectionVars false

namespace Jsonb.TrAgree
open Jsonb.Nom Jsonb.PathParser

theorem separatedList1_ok_ne_nil {α β : Type} (sep : Parser β) (p : Parser α) (i : Bytes) (es : List α) (rest : Bytes)
    (hsl : separatedList1 sep p i = .ok es rest) : es ≠ [] := by
  unfold separatedList1 at hsl
  cases hp1 : p i with
  | ok a r1 =>
    rw [hp1] at hsl; simp only [PR.bind] at hsl
    exact sepList1Loop_ok_ne_nil _ _ _ _ _ _ _ (by simp) hsl
  | error => rw [hp1] at hsl; simp [PR.bind] at hsl
  | failure => rw [hp1] at hsl; simp [PR.bind] at hsl
  | panic t => rw [hp1] at hsl; simp [PR.bind] at hsl
  | fuel => rw [hp1] at hsl; simp [PR.bind] at hsl

/-- `map` with a block closure against the model's explicit continuation, on the values the parser can return -/
theorem agr_mapTry_on {α α' β β' : Type} {L : Nat} {h : α → α'} {k : β → β'} {p : Parser α} {p' : Parser α'}
    {g : α → Bytes → PR β} {f' : α' → Res β'} (hp : Agr L h p p')
    (hf : ∀ i a r, p i = .ok a r → Rs.resToPR (f' (h a)) r = mapR k (g a r)) :
    Agr L k (fun i => (p i).bind g) (Rs.mapTry p' f') := by
  intro i hi; unfold Rs.mapTry; rw [hp i hi]
  exact mapR_bind h _ _ _ _ (fun a t e => hf i a t e)

variable {L : Nat}

theorem agr_map_id {α α' : Type} {h : α → α'} {p : Parser α} {p' : Parser α'} (hp : Agr L h p p') :
    Agr L h p (map p' (fun v => v)) := by
  intro i hi; unfold map; rw [hp i hi]; cases p i <;> rfl

/-- a `map` that only the translation has (the model applies the constructor later) -/
theorem agr_map_tr {α α' β' : Type} {h : α → α'} {p : Parser α} {p' : Parser α'} (hp : Agr L h p p') (g' : α' → β') :
    Agr L (fun a => g' (h a)) p (map p' g') := by
  intro i hi; unfold map; rw [hp i hi]; cases p i <;> rfl

theorem foldRes_pure {α σ : Type} (f : σ → α → σ) (xs : List α) (init : σ) :
    Rs.foldRes xs init (fun x s => Res.ok (f s x)) = .ok (xs.foldl f init) := by
  induction xs generalizing init with
  | nil => rfl
  | cons x xs ih => simp only [Rs.foldRes, Res.bind, List.foldl_cons]; exact ih _

theorem ofExpr_foldl (o : BinOp) (es : List Expr) (e : Expr) :
    ofExpr (es.foldl (fun acc r => Expr.binaryOp o acc r) e) =
      (es.map ofExpr).foldl (fun acc r => Tr.Expr.BinaryOp (ofBinOp o) acc r) (ofExpr e) := by
  induction es generalizing e with
  | nil => rfl
  | cons x xs ih => simp only [List.foldl_cons, List.map_cons]; rw [ih]; rfl

/-- the closure of `expr_and` / `expr_or` (`exprs[0]`, then a left fold) on a non-empty vector = the model's `foldBin` -/
theorem fold_closure (o : BinOp) (o' : Tr.BinaryOperator) (ho : o' = ofBinOp o) (a : List Expr) (r : Bytes) (ha : a ≠ []) :
    Rs.resToPR (do
        let tmp1 ← Rs.vecIndex (a.map ofExpr) (0 : Int)
        Rs.foldRes (List.drop 1 (a.map ofExpr)) tmp1 (fun right expr => pure (Tr.Expr.BinaryOp o' expr right)) : Res Tr.Expr) r
      = mapR ofExpr (foldBin o a r) := by
  subst ho
  cases a with
  | nil => exact absurd rfl ha
  | cons e es =>
    have h0 : Rs.vecIndex (ofExpr e :: List.map ofExpr es) (0 : Int) = .ok (ofExpr e) := by simp [Rs.vecIndex]
    have hf := foldRes_pure (fun acc r => Tr.Expr.BinaryOp (ofBinOp o) acc r) (es.map ofExpr) (ofExpr e)
    simp only [bind, Res.bind, pure, List.map_cons, List.drop_succ_cons, List.drop_zero, h0] at hf ⊢
    rw [hf]
    simp only [foldBin, mapR_ok, ofExpr_foldl, Rs.resToPR]

section knot
variable (ps : Bytes → Int → Int → Res (Bytes × Int)) (hps : PSpec ps) (hL : L + 1 ≤ 9223372036854775808)
variable {rec : Bool → Parser Expr} (hfine : ∀ rp, Fine L (rec rp)) (g0 : Nat)
variable (hrec : ∀ g, g0 ≤ g → ∀ rp, Agr L ofExpr (rec rp) (fun i => Tr.expr_or g ps i rp))
include hps hL hfine hrec

theorem filter_expr_agr (g : Nat) (hg : g0 + 1 ≤ g) : Agr (L + 1) ofExpr (filterExpr rec) (Tr.filter_expr g ps) := by
  obtain ⟨g', rfl⟩ : ∃ g', g = g' + 1 := ⟨g - 1, by omega⟩
  have e : Tr.filter_expr (g' + 1) ps = _ := funext (fun i => by rw [Tr.filter_expr])
  rw [e]
  unfold filterExpr
  exact agr_map_id (agr_delimited_strict (agr_refl _) (fine_delimited (fine_char _) fine_ws (fine_char _)) filterOpen_strict
    (agr_delimited agr_ws fine_ws (hrec g' (by omega) false) (hfine false) agr_ws)
    (fine_delimited fine_ws (hfine false) fine_ws) (agr_char _))

theorem path_agr (g : Nat) (hg : g0 + 2 ≤ g) : Agr (L + 1) ofPath (PathParser.path rec) (Tr.path g ps) := by
  obtain ⟨g', rfl⟩ : ∃ g', g = g' + 1 := ⟨g - 1, by omega⟩
  have e : Tr.path (g' + 1) ps = _ := funext (fun i => by rw [Tr.path])
  rw [e]
  unfold PathParser.path
  exact agr_alt (agr_map_id (agr_delimited agr_ws fine_ws (inner_path_agr ps hps hL) fine_innerPath agr_ws))
    (agr_map (agr_delimited agr_ws fine_ws (filter_expr_agr ps hps hL hfine g0 hrec g' (by omega)) (fine_filterExpr hfine) agr_ws)
      (fun a => rfl))

theorem exists_paths_agr (g : Nat) (hg : g0 + 3 ≤ g) :
    Agr (L + 1) (List.map ofPath) (existsPaths rec) (Tr.exists_paths g ps) := by
  obtain ⟨g', rfl⟩ : ∃ g', g = g' + 1 := ⟨g - 1, by omega⟩
  have e : Tr.exists_paths (g' + 1) ps = _ := funext (fun i => by rw [Tr.exists_paths])
  rw [e]
  unfold existsPaths
  exact agr_mapTry_pure (h := Prod.map ofPath (List.map ofPath))
    (agr_pair (agr_alt (agr_value (k := ofPath) Path.root (agr_char _)) (agr_value (k := ofPath) Path.current (agr_char _)))
      (fine_alt (fine_value _ (fine_char _)) (fine_value _ (fine_char _)))
      (agr_many0 (path_agr ps hps hL hfine g0 hrec g' (by omega)) (fine_path hfine)))
    (fun a => rfl)

theorem exists_agr (g : Nat) (hg : g0 + 4 ≤ g) :
    Agr (L + 1) (fun l => Tr.FilterFunc.Exists (l.map ofPath)) (existsFn rec) (Tr.exists_ g ps) := by
  obtain ⟨g', rfl⟩ : ∃ g', g = g' + 1 := ⟨g - 1, by omega⟩
  have e : Tr.exists_ (g' + 1) ps = _ := funext (fun i => by rw [Tr.exists_])
  rw [e]
  unfold existsFn
  simp only [lit_exists]
  exact agr_preceded (agr_refl _) (fine_tag _) (agr_preceded agr_ws fine_ws
    (agr_delimited (agr_terminated (agr_char _) (fine_char _) agr_ws) (fine_terminated (fine_char _) fine_ws)
      (agr_map_tr (exists_paths_agr ps hps hL hfine g0 hrec g' (by omega)) _)
      (fine_existsPaths hfine) (agr_preceded agr_ws fine_ws (agr_char _))))

theorem filter_func_agr (g : Nat) (hg : g0 + 5 ≤ g) :
    Agr (L + 1) (fun l => Tr.FilterFunc.Exists (l.map ofPath)) (existsFn rec) (Tr.filter_func g ps) := by
  obtain ⟨g', rfl⟩ : ∃ g', g = g' + 1 := ⟨g - 1, by omega⟩
  have e : Tr.filter_func (g' + 1) ps = _ := funext (fun i => by rw [Tr.filter_func])
  rw [e]
  exact exists_agr ps hps hL hfine g0 hrec g' (by omega)

theorem expr_atom_agr (g : Nat) (hg : g0 + 6 ≤ g) (rp : Bool) :
    Agr (L + 1) ofExpr (exprAtom rec rp) (fun i => Tr.expr_atom g ps i rp) := by
  obtain ⟨g', rfl⟩ : ∃ g', g = g' + 1 := ⟨g - 1, by omega⟩
  have e : (fun i => Tr.expr_atom (g' + 1) ps i rp) = _ := funext (fun i => by rw [Tr.expr_atom])
  rw [e]
  unfold exprAtom
  have hin : Agr (L + 1) ofExpr (delimited ws (innerExpr rp) ws)
      (delimited multispace0 (fun i => Tr.inner_expr ps i rp) multispace0) :=
    agr_delimited agr_ws fine_ws (inner_expr_agr ps hps hL rp) (fine_innerExpr rp) agr_ws
  have fin : Fine (L + 1) (delimited ws (innerExpr rp) ws) := fine_delimited fine_ws (fine_innerExpr rp) fine_ws
  exact agr_alt (agr_map (agr_tuple3 hin fin binary_arith_op_agr fine_binaryArithOp hin) (fun a => rfl))
    (agr_alt (agr_map (agr_tuple3 hin fin op_agr fine_op hin) (fun a => rfl))
      (agr_alt (agr_map (agr_pair unary_arith_op_agr fine_unaryArithOp hin) (fun a => rfl))
        (agr_alt (agr_map_id (agr_delimited_strict (agr_terminated (agr_char _) (fine_char _) agr_ws)
              (fine_terminated (fine_char _) fine_ws) (terminated_char_ws_strict 40)
              (hrec g' (by omega) rp) (hfine rp) (agr_preceded agr_ws fine_ws (agr_char _))))
          (agr_map (filter_func_agr ps hps hL hfine g0 hrec g' (by omega)) (fun a => by simp [ofExpr, ofPaths_eq_map])))))

theorem expr_and_agr (g : Nat) (hg : g0 + 7 ≤ g) (rp : Bool) :
    Agr (L + 1) ofExpr (exprAnd rec rp) (fun i => Tr.expr_and g ps i rp) := by
  obtain ⟨g', rfl⟩ : ∃ g', g = g' + 1 := ⟨g - 1, by omega⟩
  have e : (fun i => Tr.expr_and (g' + 1) ps i rp) = _ := funext (fun i => by rw [Tr.expr_and])
  rw [e]
  unfold exprAnd
  simp only [lit_andand]
  exact agr_mapTry_on (agr_separatedList1 (agr_refl _) (fine_delimited fine_ws (fine_tag _) fine_ws)
      (expr_atom_agr ps hps hL hfine g0 hrec g' (by omega) rp) (fine_exprAtom hfine rp))
    (fun i a r ha => fold_closure BinOp.and Tr.BinaryOperator.And rfl a r (separatedList1_ok_ne_nil _ _ _ _ _ ha))

theorem expr_or_step_agr (g : Nat) (hg : g0 + 8 ≤ g) (rp : Bool) :
    Agr (L + 1) ofExpr (exprOrStep rec rp) (fun i => Tr.expr_or g ps i rp) := by
  obtain ⟨g', rfl⟩ : ∃ g', g = g' + 1 := ⟨g - 1, by omega⟩
  have e : (fun i => Tr.expr_or (g' + 1) ps i rp) = _ := funext (fun i => by rw [Tr.expr_or])
  rw [e]
  unfold exprOrStep
  simp only [lit_oror]
  exact agr_mapTry_on (agr_separatedList1 (agr_refl _) (fine_delimited fine_ws (fine_tag _) fine_ws)
      (expr_and_agr ps hps hL hfine g0 hrec g' (by omega) rp) (fine_exprAnd hfine rp))
    (fun i a r ha => fold_closure BinOp.or Tr.BinaryOperator.Or rfl a r (separatedList1_ok_ne_nil _ _ _ _ _ ha))

end knot



section top
variable (ps : Bytes → Int → Int → Res (Bytes × Int)) (hps : PSpec ps)
include hps

/-- **the recursive group**: with `n` units of fuel the model's `expr_or` handles inputs shorter than `n`; the translation
agrees with it there as soon as it has 8 units per level -/
theorem expr_or_agr : ∀ n : Nat, n ≤ 9223372036854775808 → ∀ g, 8 * n ≤ g → ∀ rp,
    Agr n ofExpr (exprOr n rp) (fun i => Tr.expr_or g ps i rp) := by
  intro n
  induction n with
  | zero => intro _ g _ rp i hi; omega
  | succ n ih =>
    intro hn g hg rp
    exact expr_or_step_agr ps hps hn (fine_exprOr n) (8 * n) (fun g' hg' rp' => ih (by omega) g' hg' rp') g (by omega) rp

theorem predicate_agr (n : Nat) (hn : n ≤ 9223372036854775808) (g : Nat) (hg : 8 * n ≤ g) :
    Agr n (List.map ofPath) (predicate n) (Tr.predicate g ps) := by
  unfold predicate Tr.predicate
  exact agr_map (agr_delimited agr_ws fine_ws (expr_or_agr ps hps n hn g hg true) (fine_exprOr n true) agr_ws) (fun a => rfl)

theorem paths_agr (n : Nat) (hn : n + 1 ≤ 9223372036854775808) (g : Nat) (hg : 8 * n + 2 ≤ g) :
    Agr (n + 1) (List.map ofPath) (paths n) (Tr.paths g ps) := by
  unfold paths Tr.paths
  exact agr_mapTry_pure (h := Prod.map (Option.map ofPath) (List.map ofPath))
    (agr_pair (agr_opt (pre_path_agr ps hps hn)) (fine_opt fine_prePath)
      (agr_many0 (path_agr ps hps hn (fine_exprOr n) (8 * n) (fun g' hg' rp' => expr_or_agr ps hps n (by omega) g' hg' rp') g hg)
        (fine_path (fine_exprOr n))))
    (fun a => by obtain ⟨o, l⟩ := a; cases o <;> rfl)

theorem predicate_or_paths_agr (n : Nat) (hn : n + 1 ≤ 9223372036854775808) (g : Nat) (hg : 8 * n + 2 ≤ g) :
    Agr n (List.map ofPath) (predicateOrPaths n) (Tr.predicate_or_paths g ps) := by
  unfold predicateOrPaths Tr.predicate_or_paths
  exact agr_alt (predicate_agr ps hps n (by omega) g (by omega)) (agr_mono (Nat.le_succ n) (paths_agr ps hps n hn g hg))

theorem json_path_agr (n : Nat) (hn : n + 1 ≤ 9223372036854775808) (g : Nat) (hg : 8 * n + 2 ≤ g) :
    Agr n ofJsonPath (jsonPath n) (Tr.json_path g ps) := by
  unfold jsonPath Tr.json_path
  have hpp : Fine n (predicateOrPaths n) :=
    fine_alt (fine_predicate _) (fun i hi => fine_paths n i (by omega))
  exact agr_map_tr (agr_delimited agr_ws fine_ws (predicate_or_paths_agr ps hps n hn g hg) hpp agr_ws) _

/-- **`parse_json_path`** (C09): for every input shorter than 2^63 - 1 bytes, every fuel of at least `8 * len + 10` and every
callee `parse_string__` that answers like the model's, the translated function computes the model's `parseJsonPath` -/
theorem parse_json_path_agrees (bs : Bytes) (hlen : bs.length + 2 ≤ 9223372036854775808) (fuel : Nat)
    (hf : 8 * bs.length + 10 ≤ fuel) :
    Tr.parse_json_path fuel ps bs = (parseJsonPath bs).map ofJsonPath := by
  unfold Tr.parse_json_path parseJsonPath
  rw [json_path_agr ps hps (bs.length + 1) (by omega) fuel (by omega) bs (by omega)]
  cases jsonPath (bs.length + 1) bs with
  | ok a r =>
    cases r with
    | nil => rfl
    | cons b r => rfl
  | error => rfl
  | failure => rfl
  | panic s => rfl
  | fuel => rfl

end top

/-- `parse_json_path` with the model's `parse_string` as callee -/
theorem parse_json_path_model (bs : Bytes) (hlen : bs.length + 2 ≤ 9223372036854775808) (fuel : Nat)
    (hf : 8 * bs.length + 10 ≤ fuel) :
    Tr.parse_json_path fuel psModel bs = (parseJsonPath bs).map ofJsonPath :=
  parse_json_path_agrees psModel pspec_model bs hlen fuel hf

/-- the fuel conventions differ (the model spends one unit per nesting level, the translation one per call of a member of
the recursive group): with one unit the translation cannot even enter `expr_and`, the model parses `$` -/
theorem parse_json_path_fuel_one :
    Tr.parse_json_path 1 psModel [36] = .fuel ∧ parseJsonPath [36] = .ok [Path.root] := by
  constructor <;> rfl

end Jsonb.TrAgree
