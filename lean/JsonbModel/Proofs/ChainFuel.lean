/-
C07 (chains of operations), part 3b: discharging the fuel-adequacy conjunct of `PathOK`.

* For a path WITHOUT filters / predicates (`plainPaths`: `$`, member, wildcard and index steps)
  the tree evaluator needs `length + 2` units of fuel and always answers; the chain's fuel
  `Sel.selFuel` is larger.  So for such paths `PathOK` reduces to "supported, not starting with
  `@`" (`pathOK_of_plain`).
* In general it is enough that the tree evaluator answers at SOME fuel below the chain's fuel
  (`pathOK_of_le`, by monotonicity).
For paths with filters the adequacy of `Sel.selFuel` remains a hypothesis.
No Mathlib.
-/
import JsonbModel.Proofs.ChainSelect

namespace Jsonb
open JV Sel

/-- no filter, predicate or arithmetic step -/
def plainPath : Path → Bool
  | .filterExpr _ => false
  | .predicate _ => false
  | .arithmeticExpr _ => false
  | _ => true

def plainPaths (jp : JsonPath) : Bool := jp.all plainPath

theorem evalSteps_plainPaths (root : JV) : ∀ (paths : List Path), plainPaths paths = true →
    ∀ (fuel : Nat), paths.length + 1 ≤ fuel → ∀ items, (Spec.evalSteps fuel root paths items).isSome = true
  | [], _, fuel, hf, items => by
    obtain ⟨f, rfl⟩ : ∃ f, fuel = f + 1 := ⟨fuel - 1, by omega⟩
    simp [Spec.evalSteps]
  | p :: rest, hp, fuel, hf, items => by
    obtain ⟨f, rfl⟩ : ∃ f, fuel = f + 1 := ⟨fuel - 1, by omega⟩
    simp only [plainPaths, List.all_cons, Bool.and_eq_true] at hp
    have ih := evalSteps_plainPaths root rest hp.2 f (by simp only [List.length_cons] at hf; omega)
    cases p with
    | filterExpr e => simp [plainPath] at hp
    | predicate e => simp [plainPath] at hp
    | arithmeticExpr e => simp [plainPath] at hp
    | root => simp only [Spec.evalSteps]; exact ih _
    | current => simp only [Spec.evalSteps]; exact ih _
    | dotWildcard => simp only [Spec.evalSteps]; exact ih _
    | bracketWildcard => simp only [Spec.evalSteps]; exact ih _
    | dotField s => simp only [Spec.evalSteps]; exact ih _
    | colonField s => simp only [Spec.evalSteps]; exact ih _
    | objectField s => simp only [Spec.evalSteps]; exact ih _
    | arrayIndices is => simp only [Spec.evalSteps]; exact ih _

theorem evalPaths_plainPaths (root : JV) (cur : Option JV) (paths : List Path) (hp : plainPaths paths = true)
    (fuel : Nat) (hf : paths.length + 2 ≤ fuel) : (Spec.evalPaths fuel root cur paths).isSome = true := by
  obtain ⟨f, rfl⟩ : ∃ f, fuel = f + 1 := ⟨fuel - 1, by omega⟩
  simp only [Spec.evalPaths]
  exact evalSteps_plainPaths root paths hp f (by omega) _

theorem pathSize_pos (p : Path) : 1 ≤ pathSize p := by
  cases p <;> simp [pathSize] <;> omega

theorem length_le_pathsSize : ∀ (ps : List Path), ps.length ≤ pathsSize ps
  | [] => by simp [pathsSize]
  | p :: ps => by
    have := length_le_pathsSize ps
    have := pathSize_pos p
    simp only [pathsSize, List.length_cons]; omega

/-- the chain's fuel exceeds the number of steps of the path -/
theorem selFuel_ge (root : Bytes) (jp : JsonPath) : jp.length + 2 ≤ selFuel root jp := by
  have h1 := length_le_pathsSize jp
  have hb : 1 < (root.length + 4) * (pathsIdx jp + 2) := by
    have : 4 * 2 ≤ (root.length + 4) * (pathsIdx jp + 2) := Nat.mul_le_mul (by omega) (by omega)
    omega
  have h2 := Nat.lt_pow_self (n := pathsSize jp + 2) hb
  unfold selFuel
  omega

/-- **filter-free paths need no fuel hypothesis** -/
theorem pathOK_of_plain (v : JV) (jp : JsonPath) (hs : suppPaths jp = true)
    (hhead : jp.head? ≠ some .current) (hp : plainPaths jp = true) : PathOK v jp :=
  ⟨hs, hhead, Or.inl (evalPaths_plainPaths v none jp hp _ (selFuel_ge (encodeSpec v) jp))⟩

theorem evalPaths_mono_le (v : JV) (cur : Option JV) (paths : List Path) (r : List JV) :
    ∀ (f g : Nat), f ≤ g → Spec.evalPaths f v cur paths = some r → Spec.evalPaths g v cur paths = some r := by
  intro f g hle h
  induction hle with
  | refl => exact h
  | step _ ih => exact (spec_mono _).1 v cur paths r ih

/-- in general: it suffices that the tree evaluator answers at some fuel up to the chain's fuel -/
theorem pathOK_of_le (v : JV) (jp : JsonPath) (hs : suppPaths jp = true)
    (hhead : jp.head? ≠ some .current) (f : Nat) (hf : f ≤ Spec.chainSelFuel v jp)
    (h : (Spec.evalPaths f v none jp).isSome = true) : PathOK v jp := by
  refine ⟨hs, hhead, Or.inl ?_⟩
  cases hr : Spec.evalPaths f v none jp with
  | none => rw [hr] at h; simp at h
  | some r => rw [evalPaths_mono_le v none jp r f _ hf hr]; rfl

end Jsonb
