/-
Agreement theorems, phase 2, part 3: the buffer patching of the two encoders.  `reserve_jentries`
and `replace_jentry` of builder.rs (free functions on `&mut Vec<u8>` / `&mut [u8]`) and of ser.rs
(`Encoder` methods on `self.buf`), translated from source, EQUAL what the encoder models of
`Ser.lean` / `Builder.lean` do at those places: `buf ++ zeros len` with the old length, and
`replaceJentry` (`setBytes` of the big-endian entry word at an absolute index) with the index + 4.
-/
import JsonbModel.Proofs.TranslatedAgreeB1
import JsonbModel.Ser

set_option linter.unusedSimpArgs false
set_option linter.unusedVariables false

namespace Jsonb.TrAgree
open Jsonb.Rs

/-! ## reserve_jentries (builder.rs, ser.rs) -/

theorem resize_zeros (buf : Bytes) (len : Nat) (n : Int) (hn : n = ((buf.length + len : Nat) : Int)) :
    Rs.resize buf n 0 = buf ++ zeros len := by
  subst hn
  unfold Rs.resize zeros
  simp only [Int.toNat_natCast]
  by_cases h : len = 0
  · subst h; simp
  · rw [if_neg (by omega)]
    have : buf.length + len - buf.length = len := by omega
    rw [this]; rfl

/-- `reserve_jentries(buf, len)`: the old length, and `len` zero bytes appended (what the encoder
model writes as `buf ++ zeros len`) -/
theorem reserve_jentries_agrees (buf : Bytes) (len : Nat) (h : buf.length + len < 18446744073709551616) :
    Tr.reserve_jentries buf (len : Int) = .ok (((buf.length : Nat) : Int), buf ++ zeros len) := by
  unfold Tr.reserve_jentries
  simp (disch := omega) only [Rs.len, Rs.add_usize_ok', Ctl.ofRes_ok', Ctl.val_bind', Ctl.pure_eq']
  rw [resize_zeros buf len _ (by omega), Ctl.run_ret']

theorem encoder_reserve_jentries_agrees (buf : Bytes) (len : Nat) (h : buf.length + len < 18446744073709551616) :
    Tr.Encoder.reserve_jentries ⟨buf⟩ (len : Int) = .ok (((buf.length : Nat) : Int), ⟨buf ++ zeros len⟩) := by
  unfold Tr.Encoder.reserve_jentries
  simp (disch := omega) only [Rs.len, Rs.add_usize_ok', Ctl.ofRes_ok', Ctl.val_bind', Ctl.pure_eq']
  rw [resize_zeros buf len _ (by omega), Ctl.run_ret']

/-! ## replace_jentry (builder.rs, ser.rs) -/

theorem u8_toNat (b : UInt8) : Rs.u8 ((b.toNat : Nat) : Int) = b := by simp [Rs.u8]

theorem setIndex_nat (buf : Bytes) (i : Nat) (b : UInt8) :
    Rs.setIndex buf (i : Int) ((b.toNat : Nat) : Int) =
      if i < buf.length then .ok (buf.set i b) else .panic "index out of bounds" := by
  unfold Rs.setIndex
  rw [u8_toNat]
  by_cases h : i < buf.length
  · rw [if_pos (by omega), if_pos h]; simp
  · rw [if_neg (by omega), if_neg h]

/-- one iteration of `for (i, b) in jentry_bytes.iter().enumerate() { buf[*jentry_index + i] = *b }` -/
theorem rj_loop1_step (idx k : Nat) (b : UInt8) (buf : Bytes) (h : idx + k < 18446744073709551616) :
    Tr.replace_jentry.loop1 (idx : Int) ((k : Int), ((b.toNat : Nat) : Int)) buf =
      if idx + k < buf.length then Ctl.val (.next (buf.set (idx + k) b)) else Ctl.ret (.panic "index out of bounds") := by
  unfold Tr.replace_jentry.loop1
  dsimp only
  simp only [Rs.add_usize_nat _ _ h, Ctl.ofRes_ok', Ctl.val_bind', setIndex_nat]
  by_cases hb : idx + k < buf.length
  · simp only [hb, if_true, Ctl.ofRes_ok', Ctl.val_bind', Ctl.pure_eq', Rs.loopStep_val']
  · simp only [hb, if_false, Ctl.ofRes_panic', Ctl.ret_bind', Rs.loopStep_panic']

/-- the patch loop writes exactly the model's `setBytes` when the positions exist -/
theorem rj_run (idx : Nat) : ∀ (bs : Bytes) (k : Nat) (buf : Bytes), idx + k + bs.length ≤ buf.length →
    buf.length < 18446744073709551616 →
    Rs.forIn (Rs.enumerateFrom k (Rs.iterBytes bs)) buf (Tr.replace_jentry.loop1 (idx : Int))
      = Ctl.val (setBytes buf (idx + k) bs) := by
  intro bs
  induction bs with
  | nil => intro k buf _ _; simp [Rs.iterBytes, Rs.enumerateFrom, Rs.forIn, setBytes]
  | cons b bs ih =>
    intro k buf h hl
    simp only [List.length_cons] at h
    have hstep := rj_loop1_step idx k b buf (by omega)
    rw [if_pos (by omega)] at hstep
    simp only [Rs.iterBytes, List.map_cons, Rs.enumerateFrom] at ih ⊢
    rw [Rs.forIn_next _ _ _ _ _ hstep, ih (k + 1) _ (by simp; omega) (by simpa using hl), setBytes]
    congr 1

/-- …and panics when one of them does not -/
theorem rj_run_oob (idx : Nat) : ∀ (bs : Bytes) (k : Nat) (buf : Bytes), buf.length < idx + k + bs.length →
    idx + k ≤ buf.length → buf.length < 18446744073709551616 →
    Rs.forIn (Rs.enumerateFrom k (Rs.iterBytes bs)) buf (Tr.replace_jentry.loop1 (idx : Int))
      = (Ctl.ret (.panic "index out of bounds") : Ctl (Bytes × Int) Bytes) := by
  intro bs
  induction bs with
  | nil => intro k buf h1 h2 _; simp at h1; omega
  | cons b bs ih =>
    intro k buf h1 h2 hl
    simp only [List.length_cons] at h1
    have hstep := rj_loop1_step idx k b buf (by omega)
    simp only [Rs.iterBytes, List.map_cons, Rs.enumerateFrom] at ih ⊢
    by_cases hb : idx + k < buf.length
    · rw [if_pos hb] at hstep
      rw [Rs.forIn_next _ _ _ _ _ hstep]
      exact ih (k + 1) _ (by simp; omega) (by simp; omega) (by simpa using hl)
    · rw [if_neg hb] at hstep
      rw [Rs.forIn_ret _ _ _ _ _ hstep]

theorem or_lt_u32 (a b : Nat) (ha : a < 4294967296) (hb : b < 4294967296) : a ||| b < 4294967296 :=
  Nat.or_lt_two_pow (n := 32) ha hb

/-- `replace_jentry(buf, jentry, &mut jentry_index)` when the four positions exist: the buffer is
the model's `replaceJentry` with the entry word `type_code | length`, the index advances by 4 -/
theorem replace_jentry_agrees (buf : Bytes) (ty len idx : Nat) (hty : ty < 4294967296) (hlen : len < 4294967296)
    (h : idx + 4 ≤ buf.length) (hl : buf.length < 18446744073709551616) :
    Tr.replace_jentry buf ⟨(ty : Int), (len : Int)⟩ (idx : Int) =
      (replaceJentry buf (ty ||| len) idx).map (fun b => (b, ((idx + 4 : Nat) : Int))) := by
  have hw := or_lt_u32 ty len hty hlen
  have hrun := rj_run idx (beN 4 (ty ||| len)) 0 buf (by simpa using h) hl
  unfold Tr.replace_jentry replaceJentry
  rw [encoded_agrees]
  simp only [Ctl.ofRes_ok', Ctl.val_bind', Rs.toBeBytes_u32_nat _ hw, Rs.enumerate, hrun, Nat.add_zero,
    Rs.add_usize_nat idx 4 (by omega), Ctl.pure_eq', Ctl.run_ret', if_pos h, u32be, Res.map, Res.bind]
  have h4 : ((4 : Nat) : Int) = 4 := rfl
  simp only [← h4, Rs.add_usize_nat idx 4 (by omega), Ctl.ofRes_ok', Ctl.val_bind', Ctl.run_ret']

/-- …and when they do not, both sides panic (the Rust code on the first missing position, at
`buf[*jentry_index + i]`; the model names the function in its message) -/
theorem replace_jentry_oob (buf : Bytes) (ty len idx : Nat) (hty : ty < 4294967296) (hlen : len < 4294967296)
    (h : buf.length < idx + 4) (hidx : idx ≤ buf.length) (hl : buf.length < 18446744073709551616) :
    Tr.replace_jentry buf ⟨(ty : Int), (len : Int)⟩ (idx : Int) = .panic "index out of bounds" ∧
      (replaceJentry buf (ty ||| len) idx).isPanic = true := by
  have hw := or_lt_u32 ty len hty hlen
  have hrun := rj_run_oob idx (beN 4 (ty ||| len)) 0 buf (by simpa using h) (by simpa using hidx) hl
  refine ⟨?_, by unfold replaceJentry; rw [if_neg (by omega)]; rfl⟩
  unfold Tr.replace_jentry
  rw [encoded_agrees]
  simp only [Ctl.ofRes_ok', Ctl.val_bind', Rs.toBeBytes_u32_nat _ hw, Rs.enumerate, hrun, Ctl.ret_bind', Ctl.run_ret']

/-! ### the `Encoder` methods of ser.rs (same code on `self.buf`) -/

theorem erj_loop1_step (idx k : Nat) (b : UInt8) (buf : Bytes) (h : idx + k < 18446744073709551616) :
    Tr.Encoder.replace_jentry.loop1 (idx : Int) ((k : Int), ((b.toNat : Nat) : Int)) ⟨buf⟩ =
      if idx + k < buf.length then Ctl.val (.next ⟨buf.set (idx + k) b⟩) else Ctl.ret (.panic "index out of bounds") := by
  unfold Tr.Encoder.replace_jentry.loop1
  dsimp only
  simp only [Rs.add_usize_nat _ _ h, Ctl.ofRes_ok', Ctl.val_bind', setIndex_nat]
  by_cases hb : idx + k < buf.length
  · simp only [hb, if_true, Ctl.ofRes_ok', Ctl.val_bind', Ctl.pure_eq', Rs.loopStep_val']
  · simp only [hb, if_false, Ctl.ofRes_panic', Ctl.ret_bind', Rs.loopStep_panic']

theorem erj_run (idx : Nat) : ∀ (bs : Bytes) (k : Nat) (buf : Bytes), idx + k + bs.length ≤ buf.length →
    buf.length < 18446744073709551616 →
    Rs.forIn (Rs.enumerateFrom k (Rs.iterBytes bs)) (⟨buf⟩ : Tr.Encoder) (Tr.Encoder.replace_jentry.loop1 (idx : Int))
      = Ctl.val ⟨setBytes buf (idx + k) bs⟩ := by
  intro bs
  induction bs with
  | nil => intro k buf _ _; simp [Rs.iterBytes, Rs.enumerateFrom, Rs.forIn, setBytes]
  | cons b bs ih =>
    intro k buf h hl
    simp only [List.length_cons] at h
    have hstep := erj_loop1_step idx k b buf (by omega)
    rw [if_pos (by omega)] at hstep
    simp only [Rs.iterBytes, List.map_cons, Rs.enumerateFrom] at ih ⊢
    rw [Rs.forIn_next _ _ _ _ _ hstep, ih (k + 1) _ (by simp; omega) (by simpa using hl), setBytes]
    congr 2

theorem encoder_replace_jentry_agrees (buf : Bytes) (ty len idx : Nat) (hty : ty < 4294967296) (hlen : len < 4294967296)
    (h : idx + 4 ≤ buf.length) (hl : buf.length < 18446744073709551616) :
    Tr.Encoder.replace_jentry ⟨buf⟩ ⟨(ty : Int), (len : Int)⟩ (idx : Int) =
      (replaceJentry buf (ty ||| len) idx).map (fun b => (⟨b⟩, ((idx + 4 : Nat) : Int))) := by
  have hw := or_lt_u32 ty len hty hlen
  have hrun := erj_run idx (beN 4 (ty ||| len)) 0 buf (by simpa using h) hl
  unfold Tr.Encoder.replace_jentry replaceJentry
  rw [encoded_agrees]
  have h4 : ((4 : Nat) : Int) = 4 := rfl
  simp only [Ctl.ofRes_ok', Ctl.val_bind', Rs.toBeBytes_u32_nat _ hw, Rs.enumerate, hrun, Nat.add_zero,
    Ctl.pure_eq', if_pos h, u32be, Res.map, Res.bind]
  simp only [← h4, Rs.add_usize_nat idx 4 (by omega), Ctl.ofRes_ok', Ctl.val_bind', Ctl.run_ret']

end Jsonb.TrAgree
