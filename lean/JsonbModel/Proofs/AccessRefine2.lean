/-
Refinement of the remaining read-only accessors, part 1: the scalar views
(`type_of`, `as_null`, `as_bool`, `as_number`, `as_str`, `is_array`, `is_object`) and the
whole-container readers (`array_values`, `object_each`, `object_keys`).
-/
import JsonbModel.Proofs.AccessRefine
import JsonbModel.Proofs.SerLayout

namespace Jsonb
open JV

/-! ### first words of a document -/

def isScalar : JV → Bool
  | arr _ => false
  | obj _ => false
  | _ => true

theorem tagDefs : C.NULL_TAG = 0 ∧ C.STRING_TAG = 268435456 ∧ C.NUMBER_TAG = 536870912 ∧
    C.FALSE_TAG = 805306368 ∧ C.TRUE_TAG = 1073741824 ∧ C.CONTAINER_TAG = 1342177280 := by decide

theorem sca_lt : C.SCALAR_CONTAINER_TAG < 4294967296 := by decide

theorem encodeSpec_scalarA (v : JV) (hs : isScalar v = true) :
    encodeSpec v = u32be C.SCALAR_CONTAINER_TAG ++ (u32be (entry v).1 ++ ((entry v).2 ++ [])) := by
  cases v <;> simp_all [isScalar, encodeSpec]

theorem hdr_scalar (v : JV) (hs : isScalar v = true) :
    readU32At (encodeSpec v) 0 = some C.SCALAR_CONTAINER_TAG := by
  rw [encodeSpec_scalarA v hs]; exact readU32At_zero _ _ sca_lt

theorem hdr_arr (vs : List JV) (hn : vs.length < 536870912) :
    readU32At (encodeSpec (arr vs)) 0 = some (C.ARRAY_CONTAINER_TAG + vs.length) := by
  simp only [encodeSpec, entry]; exact readU32At_zero _ _ (arr_header_lt _ hn)

theorem hdr_obj (kvs : List (Bytes × JV)) (hn : kvs.length < 536870912) :
    readU32At (encodeSpec (obj kvs)) 0 = some (C.OBJECT_CONTAINER_TAG + kvs.length) := by
  simp only [encodeSpec, entry]; exact readU32At_zero _ _ (obj_header_lt _ hn)

theorem goodTop_scalar (v : JV) (hs : isScalar v = true) (hg : goodTop v = true) : good v = true := by
  cases v <;> simp_all [isScalar, goodTop]

theorem scalarWord_scalar (v : JV) (hs : isScalar v = true) (hg : goodTop v = true) :
    Fn.scalarWord (encodeSpec v) = some (entry v).1 := by
  have hgv := goodTop_scalar v hs hg
  have hl := elen_lt_of_good v hgv
  simp only [Fn.scalarWord, hdr_scalar v hs, hdrType_sca, if_true]
  rw [encodeSpec_scalarA v hs]
  exact readU32At_mid _ _ _ 4 (by simp) (entry_lt v hl)

theorem scalarWord_arr (vs : List JV) (hn : vs.length < 536870912) :
    Fn.scalarWord (encodeSpec (arr vs)) = none := by
  simp only [Fn.scalarWord, hdr_arr vs hn, hdrType_arr _ hn]
  rw [if_neg ne_arr_sca]

theorem scalarWord_obj (kvs : List (Bytes × JV)) (hn : kvs.length < 536870912) :
    Fn.scalarWord (encodeSpec (obj kvs)) = none := by
  simp only [Fn.scalarWord, hdr_obj kvs hn, hdrType_obj _ hn]
  rw [if_neg ne_obj_sca]

theorem slice_payload (v : JV) (hs : isScalar v = true) :
    slice (encodeSpec v) 8 (8 + elen v) = .ok (entry v).2 := by
  rw [encodeSpec_scalarA v hs]
  have e : u32be C.SCALAR_CONTAINER_TAG ++ (u32be (entry v).1 ++ ((entry v).2 ++ []))
      = (u32be C.SCALAR_CONTAINER_TAG ++ u32be (entry v).1) ++ ((entry v).2 ++ []) := by simp
  rw [e]
  exact slice_mid' _ _ _ 8 (8 + elen v) (by simp) (by simp [elen])

/-! ### type_of -/

theorem typeOf_refines (v : JV) (hg : goodTop v = true) :
    Fn.typeOf (encodeSpec v) = .ok (Spec.typeOf v) := by
  cases v with
  | arr vs =>
    simp only [goodTop, Bool.and_eq_true, decide_eq_true_eq] at hg
    simp only [Fn.typeOf, hdr_arr vs hg.1, hdrType_arr _ hg.1, Spec.typeOf]
    simp [ne_arr_sca]
  | obj kvs =>
    simp only [goodTop, Bool.and_eq_true, decide_eq_true_eq] at hg
    simp only [Fn.typeOf, hdr_obj kvs hg.1.1, hdrType_obj _ hg.1.1, Spec.typeOf]
    simp [ne_obj_sca, ne_obj_arr]
  | null =>
    have hw := scalarWord_scalar null rfl hg
    simp only [Fn.scalarWord, hdr_scalar null rfl, hdrType_sca, if_true] at hw
    simp only [Fn.typeOf, hdr_scalar null rfl, hdrType_sca, if_true, hw,
      jeType_entry null (elen_lt_of_good _ hg), ety, Spec.typeOf]
  | bool b =>
    have hw := scalarWord_scalar (bool b) rfl hg
    simp only [Fn.scalarWord, hdr_scalar (bool b) rfl, hdrType_sca, if_true] at hw
    simp only [Fn.typeOf, hdr_scalar (bool b) rfl, hdrType_sca, if_true, hw,
      jeType_entry (bool b) (elen_lt_of_good _ hg), Spec.typeOf]
    cases b <;> simp [ety, tagDefs]
  | num n =>
    have hw := scalarWord_scalar (num n) rfl hg
    simp only [Fn.scalarWord, hdr_scalar (num n) rfl, hdrType_sca, if_true] at hw
    simp only [Fn.typeOf, hdr_scalar (num n) rfl, hdrType_sca, if_true, hw,
      jeType_entry (num n) (elen_lt_of_good _ hg), ety, Spec.typeOf]
    simp [tagDefs]
  | str s =>
    have hw := scalarWord_scalar (str s) rfl hg
    simp only [Fn.scalarWord, hdr_scalar (str s) rfl, hdrType_sca, if_true] at hw
    simp only [Fn.typeOf, hdr_scalar (str s) rfl, hdrType_sca, if_true, hw,
      jeType_entry (str s) (elen_lt_of_good _ hg), ety, Spec.typeOf]
    simp [tagDefs]

/-! ### as_null / as_bool / as_number / as_str -/

theorem asNull_refines (v : JV) (hg : goodTop v = true) :
    Fn.asNull (encodeSpec v) = .ok (Spec.asNull v) := by
  cases v with
  | arr vs =>
    simp only [goodTop, Bool.and_eq_true, decide_eq_true_eq] at hg
    simp only [Fn.asNull, scalarWord_arr vs hg.1, Spec.asNull]
  | obj kvs =>
    simp only [goodTop, Bool.and_eq_true, decide_eq_true_eq] at hg
    simp only [Fn.asNull, scalarWord_obj kvs hg.1.1, Spec.asNull]
  | null => simp [Fn.asNull, scalarWord_scalar null rfl hg, entry, Spec.asNull]
  | bool b =>
    simp only [Fn.asNull, scalarWord_scalar (bool b) rfl hg, Spec.asNull]
    cases b <;> simp [entry, tagDefs]
  | num n =>
    simp only [Fn.asNull, scalarWord_scalar (num n) rfl hg, Spec.asNull, entry]
    rw [if_neg (by simp [C.NUMBER_TAG, C.NULL_TAG])]
  | str s =>
    simp only [Fn.asNull, scalarWord_scalar (str s) rfl hg, Spec.asNull, entry]
    rw [if_neg (by simp [C.STRING_TAG, C.NULL_TAG])]

theorem asBool_refines (v : JV) (hg : goodTop v = true) :
    Fn.asBool (encodeSpec v) = .ok (Spec.asBool v) := by
  cases v with
  | arr vs =>
    simp only [goodTop, Bool.and_eq_true, decide_eq_true_eq] at hg
    simp only [Fn.asBool, scalarWord_arr vs hg.1, Spec.asBool]
  | obj kvs =>
    simp only [goodTop, Bool.and_eq_true, decide_eq_true_eq] at hg
    simp only [Fn.asBool, scalarWord_obj kvs hg.1.1, Spec.asBool]
  | null =>
    simp only [Fn.asBool, scalarWord_scalar null rfl hg, entry, Spec.asBool]
    rw [if_neg (by decide), if_neg (by decide)]
  | bool b =>
    simp only [Fn.asBool, scalarWord_scalar (bool b) rfl hg, Spec.asBool]
    cases b <;> simp [entry, tagDefs]
  | num n =>
    have hl := elen_lt_of_good (num n) hg
    simp only [elen, entry] at hl
    simp only [Fn.asBool, scalarWord_scalar (num n) rfl hg, Spec.asBool, entry]
    rw [if_neg (by simp only [C.NUMBER_TAG, C.FALSE_TAG]; omega),
      if_neg (by simp only [C.NUMBER_TAG, C.TRUE_TAG]; omega)]
  | str s =>
    have hl := elen_lt_of_good (str s) hg
    simp only [elen, entry] at hl
    simp only [Fn.asBool, scalarWord_scalar (str s) rfl hg, Spec.asBool, entry]
    rw [if_neg (by simp only [C.STRING_TAG, C.FALSE_TAG]; omega),
      if_neg (by simp only [C.STRING_TAG, C.TRUE_TAG]; omega)]

/-- `as_number` returns the codec-normalised number (`Int64(0)` comes back as `UInt64(0)`, every
NaN as `f64::NAN`). -/
theorem asNumber_refines (v : JV) (hg : goodTop v = true) :
    Fn.asNumber (encodeSpec v) = .ok ((Spec.asNumber v).map Num.norm) := by
  cases v with
  | arr vs =>
    simp only [goodTop, Bool.and_eq_true, decide_eq_true_eq] at hg
    simp only [Fn.asNumber, scalarWord_arr vs hg.1, Spec.asNumber, Option.map_none]
  | obj kvs =>
    simp only [goodTop, Bool.and_eq_true, decide_eq_true_eq] at hg
    simp only [Fn.asNumber, scalarWord_obj kvs hg.1.1, Spec.asNumber, Option.map_none]
  | null =>
    simp only [Fn.asNumber, scalarWord_scalar null rfl hg, Spec.asNumber, Option.map_none,
      jeType_entry null (elen_lt_of_good _ hg), ety]
    rw [if_neg (by decide)]
  | bool b =>
    simp only [Fn.asNumber, scalarWord_scalar (bool b) rfl hg, Spec.asNumber, Option.map_none,
      jeType_entry (bool b) (elen_lt_of_good _ hg)]
    cases b <;> simp [ety, tagDefs]
  | num n =>
    have hl := elen_lt_of_good (num n) hg
    have hwf : n.WF := by simpa [goodTop, good] using hg
    simp only [Fn.asNumber, scalarWord_scalar (num n) rfl hg, Spec.asNumber, Option.map_some,
      jeType_entry (num n) hl, jeLen_entry (num n) hl, ety, if_true, slice_payload (num n) rfl]
    simp only [entry, Num.dec_enc n hwf]
  | str s =>
    simp only [Fn.asNumber, scalarWord_scalar (str s) rfl hg, Spec.asNumber, Option.map_none,
      jeType_entry (str s) (elen_lt_of_good _ hg), ety]
    rw [if_neg (by decide)]

theorem asStr_refines (v : JV) (hg : goodTop v = true) :
    Fn.asStr (encodeSpec v) = .ok (Spec.asStr v) := by
  cases v with
  | arr vs =>
    simp only [goodTop, Bool.and_eq_true, decide_eq_true_eq] at hg
    simp only [Fn.asStr, scalarWord_arr vs hg.1, Spec.asStr]
  | obj kvs =>
    simp only [goodTop, Bool.and_eq_true, decide_eq_true_eq] at hg
    simp only [Fn.asStr, scalarWord_obj kvs hg.1.1, Spec.asStr]
  | null =>
    simp only [Fn.asStr, scalarWord_scalar null rfl hg, Spec.asStr,
      jeType_entry null (elen_lt_of_good _ hg), ety]
    rw [if_neg (by decide)]
  | bool b =>
    simp only [Fn.asStr, scalarWord_scalar (bool b) rfl hg, Spec.asStr,
      jeType_entry (bool b) (elen_lt_of_good _ hg)]
    cases b <;> simp [ety, tagDefs]
  | num n =>
    simp only [Fn.asStr, scalarWord_scalar (num n) rfl hg, Spec.asStr,
      jeType_entry (num n) (elen_lt_of_good _ hg), ety]
    rw [if_neg (by decide)]
  | str s =>
    have hl := elen_lt_of_good (str s) hg
    simp only [Fn.asStr, scalarWord_scalar (str s) rfl hg, Spec.asStr,
      jeType_entry (str s) hl, jeLen_entry (str s) hl, ety, if_true, slice_payload (str s) rfl]
    simp only [entry]

/-! ### is_array / is_object -/

theorem isArray_refines (v : JV) (hg : goodTop v = true) :
    Fn.isArray (encodeSpec v) = Spec.isArray v := by
  cases v with
  | arr vs =>
    simp only [goodTop, Bool.and_eq_true, decide_eq_true_eq] at hg
    simp [Fn.isArray, hdr_arr vs hg.1, hdrType_arr _ hg.1, Spec.isArray]
  | obj kvs =>
    simp only [goodTop, Bool.and_eq_true, decide_eq_true_eq] at hg
    simp [Fn.isArray, hdr_obj kvs hg.1.1, hdrType_obj _ hg.1.1, Spec.isArray, ne_obj_arr]
  | null => simp [Fn.isArray, hdr_scalar null rfl, hdrType_sca, Spec.isArray, ne_sca_arr]
  | bool b => simp [Fn.isArray, hdr_scalar (bool b) rfl, hdrType_sca, Spec.isArray, ne_sca_arr]
  | num n => simp [Fn.isArray, hdr_scalar (num n) rfl, hdrType_sca, Spec.isArray, ne_sca_arr]
  | str s => simp [Fn.isArray, hdr_scalar (str s) rfl, hdrType_sca, Spec.isArray, ne_sca_arr]

theorem isObject_refines (v : JV) (hg : goodTop v = true) :
    Fn.isObject (encodeSpec v) = Spec.isObject v := by
  cases v with
  | arr vs =>
    simp only [goodTop, Bool.and_eq_true, decide_eq_true_eq] at hg
    simp [Fn.isObject, hdr_arr vs hg.1, hdrType_arr _ hg.1, Spec.isObject, ne_arr_obj]
  | obj kvs =>
    simp only [goodTop, Bool.and_eq_true, decide_eq_true_eq] at hg
    simp [Fn.isObject, hdr_obj kvs hg.1.1, hdrType_obj _ hg.1.1, Spec.isObject]
  | null => simp [Fn.isObject, hdr_scalar null rfl, hdrType_sca, Spec.isObject, ne_sca_obj]
  | bool b => simp [Fn.isObject, hdr_scalar (bool b) rfl, hdrType_sca, Spec.isObject, ne_sca_obj]
  | num n => simp [Fn.isObject, hdr_scalar (num n) rfl, hdrType_sca, Spec.isObject, ne_sca_obj]
  | str s => simp [Fn.isObject, hdr_scalar (str s) rfl, hdrType_sca, Spec.isObject, ne_sca_obj]

/-! ### array_values -/

theorem extract_entry' (v : JV) (hg : good v = true) (a b : Bytes) (off : Nat) (hoff : off = a.length) :
    extractByJentry ⟨ety v, elen v, (entry v).1⟩ off (a ++ ((entry v).2 ++ b)) = .ok (encodeSpec v) := by
  subst hoff; exact extract_entry v hg a b

theorem arrayValuesLoop_spec (vs : List JV) (hg : goodL vs = true) (pre mid post : Bytes) (jo vo : Nat)
    (hjo : jo = pre.length) (hvo : vo = pre.length + 4 * vs.length + mid.length) :
    Fn.arrayValuesLoop (pre ++ (wordsL vs ++ (mid ++ (paysL vs ++ post)))) vs.length jo vo
      = .ok (some (vs.map encodeSpec)) := by
  induction vs generalizing pre mid jo vo with
  | nil => simp [Fn.arrayValuesLoop]
  | cons v vs ih =>
    simp only [goodL, Bool.and_eq_true] at hg
    have hl := elen_lt_of_good v hg.1
    simp only [List.length_cons, Fn.arrayValuesLoop, wordsL, paysL, List.append_assoc]
    rw [readU32At_mid pre _ _ jo hjo (entry_lt v hl)]
    simp only [jeLen_entry v hl, JE_ofWord_entry v hl]
    have e1 : pre ++ (u32be (entry v).1 ++ (wordsL vs ++ (mid ++ ((entry v).2 ++ (paysL vs ++ post)))))
        = (pre ++ (u32be (entry v).1 ++ (wordsL vs ++ mid))) ++ ((entry v).2 ++ (paysL vs ++ post)) := by
      simp
    rw [e1, extract_entry' v hg.1 _ _ vo (by simp [wordsL_length']; simp at hvo; omega)]
    have e2 : (pre ++ (u32be (entry v).1 ++ (wordsL vs ++ mid))) ++ ((entry v).2 ++ (paysL vs ++ post))
        = (pre ++ u32be (entry v).1) ++ (wordsL vs ++ ((mid ++ (entry v).2) ++ (paysL vs ++ post))) := by
      simp
    rw [e2, ih hg.2 (pre ++ u32be (entry v).1) (mid ++ (entry v).2) (jo + 4) (vo + elen v)
      (by simp; omega) (by simp [elen]; simp at hvo; omega)]
    simp

theorem arrayValues_arr (vs : List JV) (hn : vs.length < 536870912) (hg : goodL vs = true) :
    Fn.arrayValues (encodeSpec (arr vs)) = .ok (some (vs.map encodeSpec)) := by
  simp only [Fn.arrayValues, hdr_arr vs hn, hdrType_arr _ hn, hdrLen_arr _ hn, if_true]
  simp only [encodeSpec, entry]
  have := arrayValuesLoop_spec vs hg (u32be (C.ARRAY_CONTAINER_TAG + vs.length)) [] [] 4 (4 * vs.length + 4)
    (by simp) (by simp; omega)
  simpa using this

/-- `array_values`: every element re-wrapped as its own document -/
theorem arrayValues_refines (v : JV) (hg : goodTop v = true) :
    Fn.arrayValues (encodeSpec v) = .ok ((Spec.arrayValues v).map (fun vs => vs.map encodeSpec)) := by
  cases v with
  | arr vs =>
    simp only [goodTop, Bool.and_eq_true, decide_eq_true_eq] at hg
    simp only [Spec.arrayValues, Option.map_some]; exact arrayValues_arr vs hg.1 hg.2
  | obj kvs =>
    simp only [goodTop, Bool.and_eq_true, decide_eq_true_eq] at hg
    simp [Fn.arrayValues, hdr_obj kvs hg.1.1, hdrType_obj _ hg.1.1, Spec.arrayValues, ne_obj_arr]
  | null => simp [Fn.arrayValues, hdr_scalar null rfl, hdrType_sca, Spec.arrayValues, ne_sca_arr]
  | bool b => simp [Fn.arrayValues, hdr_scalar (bool b) rfl, hdrType_sca, Spec.arrayValues, ne_sca_arr]
  | num n => simp [Fn.arrayValues, hdr_scalar (num n) rfl, hdrType_sca, Spec.arrayValues, ne_sca_arr]
  | str s => simp [Fn.arrayValues, hdr_scalar (str s) rfl, hdrType_sca, Spec.arrayValues, ne_sca_arr]

/-! ### object_each -/

theorem readWords_add (value : Bytes) (n m off : Nat) :
    Fn.readWords value (n + m) off =
      match Fn.readWords value n off with
      | none => none
      | some a => (Fn.readWords value m (off + 4 * n)).map (a ++ ·) := by
  induction n generalizing off with
  | zero =>
    simp only [Nat.zero_add, Fn.readWords, Nat.mul_zero, Nat.add_zero]
    cases Fn.readWords value m off <;> simp
  | succ n ih =>
    rw [show n + 1 + m = (n + m) + 1 by omega]
    simp only [Fn.readWords]
    cases readU32At value off with
    | none => rfl
    | some w =>
      simp only [ih (off + 4)]
      cases Fn.readWords value n (off + 4) with
      | none => rfl
      | some a =>
        simp only [Option.map_some]
        rw [show off + 4 + 4 * n = off + 4 * (n + 1) by omega]
        cases Fn.readWords value m (off + 4 * (n + 1)) <;> simp

def keyWordOf (kv : Bytes × JV) : Nat := C.STRING_TAG + kv.1.length

theorem string_tag' : C.STRING_TAG = 1 * 268435456 := by decide

theorem keyWord_lt (k : Bytes) (h : k.length < 268435456) : C.STRING_TAG + k.length < 4294967296 := by
  rw [string_tag']; omega
theorem jeLen_keyWord (k : Bytes) (h : k.length < 268435456) : jeLen (C.STRING_TAG + k.length) = k.length := by
  rw [string_tag']; exact jeLen_add 1 _ h
theorem jeType_keyWord (k : Bytes) (h : k.length < 268435456) : jeType (C.STRING_TAG + k.length) = C.STRING_TAG := by
  rw [string_tag']; exact jeType_add 1 _ (by omega) h

theorem readWords_keyWords (kvs : List (Bytes × JV)) (hg : goodK kvs = true) (pre post : Bytes) (off : Nat)
    (hoff : off = pre.length) :
    Fn.readWords (pre ++ (keyWords kvs ++ post)) kvs.length off = some (kvs.map keyWordOf) := by
  induction kvs generalizing pre off with
  | nil => simp [Fn.readWords]
  | cons kv kvs ih =>
    obtain ⟨k, v⟩ := kv
    simp only [goodK, Bool.and_eq_true, decide_eq_true_eq] at hg
    simp only [List.length_cons, Fn.readWords, keyWords, List.append_assoc]
    rw [readU32At_mid pre _ _ off hoff (keyWord_lt k hg.1.1.1)]
    have e2 : pre ++ (u32be (C.STRING_TAG + k.length) ++ (keyWords kvs ++ post))
        = (pre ++ u32be (C.STRING_TAG + k.length)) ++ (keyWords kvs ++ post) := by simp
    simp only []
    rw [e2, ih hg.2 (pre ++ u32be (C.STRING_TAG + k.length)) (off + 4) (by simp; omega)]
    simp [keyWordOf]

theorem readWords_wordsK (kvs : List (Bytes × JV)) (hg : goodK kvs = true) (pre post : Bytes) (off : Nat)
    (hoff : off = pre.length) :
    Fn.readWords (pre ++ (wordsK kvs ++ post)) kvs.length off = some (kvs.map (fun kv => (entry kv.2).1)) := by
  induction kvs generalizing pre off with
  | nil => simp [Fn.readWords]
  | cons kv kvs ih =>
    obtain ⟨k, v⟩ := kv
    simp only [goodK, Bool.and_eq_true, decide_eq_true_eq] at hg
    have hl := elen_lt_of_good v hg.1.2
    simp only [List.length_cons, Fn.readWords, wordsK, List.append_assoc]
    rw [readU32At_mid pre _ _ off hoff (entry_lt v hl)]
    have e2 : pre ++ (u32be (entry v).1 ++ (wordsK kvs ++ post))
        = (pre ++ u32be (entry v).1) ++ (wordsK kvs ++ post) := by simp
    simp only []
    rw [e2, ih hg.2 (pre ++ u32be (entry v).1) (off + 4) (by simp; omega)]
    simp

theorem eachKeys_spec (kvs : List (Bytes × JV)) (hg : goodK kvs = true) (pre post : Bytes) (off : Nat)
    (hoff : off = pre.length) :
    Fn.eachKeys (pre ++ (keyBytes kvs ++ post)) (kvs.map keyWordOf) off
      = .ok (kvs.map (·.1), off + (keyBytes kvs).length) := by
  induction kvs generalizing pre off with
  | nil => simp [Fn.eachKeys, keyBytes]
  | cons kv kvs ih =>
    obtain ⟨k, v⟩ := kv
    simp only [goodK, Bool.and_eq_true, decide_eq_true_eq] at hg
    simp only [List.map_cons, Fn.eachKeys, keyBytes, keyWordOf, List.append_assoc, jeLen_keyWord k hg.1.1.1]
    rw [slice_mid' pre k _ off (off + k.length) hoff (by omega)]
    have e2 : pre ++ (k ++ (keyBytes kvs ++ post)) = (pre ++ k) ++ (keyBytes kvs ++ post) := by simp
    simp only []
    have := ih hg.2 (pre ++ k) (off + k.length) (by simp; omega)
    rw [e2, this]
    simp only [List.length_append, Res.ok.injEq, Prod.mk.injEq, true_and]
    omega

theorem eachVals_spec (kvs : List (Bytes × JV)) (hg : goodK kvs = true) (pre post : Bytes) (off : Nat)
    (hoff : off = pre.length) :
    Fn.eachVals (pre ++ (paysK kvs ++ post)) (kvs.map (fun kv => (entry kv.2).1)) off
      = .ok (kvs.map (fun kv => encodeSpec kv.2)) := by
  induction kvs generalizing pre off with
  | nil => simp [Fn.eachVals]
  | cons kv kvs ih =>
    obtain ⟨k, v⟩ := kv
    simp only [goodK, Bool.and_eq_true, decide_eq_true_eq] at hg
    have hl := elen_lt_of_good v hg.1.2
    simp only [List.map_cons, Fn.eachVals, paysK, List.append_assoc, jeLen_entry v hl, JE_ofWord_entry v hl]
    rw [extract_entry' v hg.1.2 pre _ off hoff]
    have e2 : pre ++ ((entry v).2 ++ (paysK kvs ++ post)) = (pre ++ (entry v).2) ++ (paysK kvs ++ post) := by simp
    simp only []
    rw [e2, ih hg.2 (pre ++ (entry v).2) (off + elen v) (by simp [elen]; omega)]

theorem objectEach_obj (kvs : List (Bytes × JV)) (hn : kvs.length < 536870912) (hg : goodK kvs = true) :
    Fn.objectEach (encodeSpec (obj kvs)) = .ok (some (kvs.map (fun kv => (kv.1, encodeSpec kv.2)))) := by
  simp only [Fn.objectEach, hdr_obj kvs hn, hdrType_obj _ hn, hdrLen_obj _ hn, if_true]
  rw [show encodeSpec (obj kvs) = u32be (C.OBJECT_CONTAINER_TAG + kvs.length) ++
      (keyWords kvs ++ (wordsK kvs ++ (keyBytes kvs ++ paysK kvs))) by simp [encodeSpec, entry]]
  have hw : Fn.readWords (u32be (C.OBJECT_CONTAINER_TAG + kvs.length) ++
      (keyWords kvs ++ (wordsK kvs ++ (keyBytes kvs ++ paysK kvs)))) (kvs.length * 2) 4
      = some (kvs.map keyWordOf ++ kvs.map (fun kv => (entry kv.2).1)) := by
    rw [show kvs.length * 2 = kvs.length + kvs.length by omega, readWords_add,
      readWords_keyWords kvs hg _ _ 4 (by simp)]
    have e : u32be (C.OBJECT_CONTAINER_TAG + kvs.length) ++ (keyWords kvs ++ (wordsK kvs ++ (keyBytes kvs ++ paysK kvs)))
        = (u32be (C.OBJECT_CONTAINER_TAG + kvs.length) ++ keyWords kvs) ++ (wordsK kvs ++ (keyBytes kvs ++ paysK kvs)) := by
      simp
    simp only []
    rw [e, readWords_wordsK kvs hg _ _ _ (by simp [keyWords_length']; omega)]
    simp
  rw [hw]
  have ht : (kvs.map keyWordOf ++ kvs.map (fun kv => (entry kv.2).1)).take kvs.length = kvs.map keyWordOf := by
    exact List.take_left' (by simp)
  have hd : (kvs.map keyWordOf ++ kvs.map (fun kv => (entry kv.2).1)).drop kvs.length
      = kvs.map (fun kv => (entry kv.2).1) := by
    exact List.drop_left' (by simp)
  simp only [ht, hd]
  have e1 : u32be (C.OBJECT_CONTAINER_TAG + kvs.length) ++ (keyWords kvs ++ (wordsK kvs ++ (keyBytes kvs ++ paysK kvs)))
      = (u32be (C.OBJECT_CONTAINER_TAG + kvs.length) ++ (keyWords kvs ++ wordsK kvs)) ++ (keyBytes kvs ++ paysK kvs) := by
    simp
  rw [e1, eachKeys_spec kvs hg _ _ _ (by simp [keyWords_length', wordsK_length']; omega)]
  simp only []
  have e2 : (u32be (C.OBJECT_CONTAINER_TAG + kvs.length) ++ (keyWords kvs ++ wordsK kvs)) ++ (keyBytes kvs ++ paysK kvs)
      = (u32be (C.OBJECT_CONTAINER_TAG + kvs.length) ++ (keyWords kvs ++ (wordsK kvs ++ keyBytes kvs))) ++ (paysK kvs ++ []) := by
    simp
  rw [e2, eachVals_spec kvs hg _ _ _ (by simp [keyWords_length', wordsK_length']; omega)]
  simp only [Res.ok.injEq, Option.some.injEq]
  rw [List.zip_map']

/-- `object_each`: every member value re-wrapped as its own document -/
theorem objectEach_refines (v : JV) (hg : goodTop v = true) :
    Fn.objectEach (encodeSpec v)
      = .ok ((Spec.objectEach v).map (fun kvs => kvs.map (fun kv => (kv.1, encodeSpec kv.2)))) := by
  cases v with
  | arr vs =>
    simp only [goodTop, Bool.and_eq_true, decide_eq_true_eq] at hg
    simp [Fn.objectEach, hdr_arr vs hg.1, hdrType_arr _ hg.1, Spec.objectEach, ne_arr_obj]
  | obj kvs =>
    simp only [goodTop, Bool.and_eq_true, decide_eq_true_eq] at hg
    simp only [Spec.objectEach, Option.map_some]; exact objectEach_obj kvs hg.1.1 hg.2
  | null => simp [Fn.objectEach, hdr_scalar null rfl, hdrType_sca, Spec.objectEach, ne_sca_obj]
  | bool b => simp [Fn.objectEach, hdr_scalar (bool b) rfl, hdrType_sca, Spec.objectEach, ne_sca_obj]
  | num n => simp [Fn.objectEach, hdr_scalar (num n) rfl, hdrType_sca, Spec.objectEach, ne_sca_obj]
  | str s => simp [Fn.objectEach, hdr_scalar (str s) rfl, hdrType_sca, Spec.objectEach, ne_sca_obj]

/-! ### object_keys -/

/-- running key end offsets collected by the first loop of `object_keys` -/
def keyEnds : Nat → List (Bytes × JV) → List Nat
  | _, [] => []
  | ko, (k, _) :: kvs => (ko + k.length) :: keyEnds (ko + k.length) kvs

theorem objectKeysWords_spec (kvs : List (Bytes × JV)) (hg : goodK kvs = true) (pre post : Bytes) (jo ko : Nat)
    (hjo : jo = pre.length) :
    Fn.objectKeysWords (pre ++ (keyWords kvs ++ post)) kvs.length jo ko = some (keyWords kvs, keyEnds ko kvs) := by
  induction kvs generalizing pre jo ko with
  | nil => simp [Fn.objectKeysWords, keyWords, keyEnds]
  | cons kv kvs ih =>
    obtain ⟨k, v⟩ := kv
    simp only [goodK, Bool.and_eq_true, decide_eq_true_eq] at hg
    simp only [List.length_cons, Fn.objectKeysWords, keyWords, List.append_assoc]
    rw [readU32At_mid pre _ _ jo hjo (keyWord_lt k hg.1.1.1)]
    have e2 : pre ++ (u32be (C.STRING_TAG + k.length) ++ (keyWords kvs ++ post))
        = (pre ++ u32be (C.STRING_TAG + k.length)) ++ (keyWords kvs ++ post) := by simp
    simp only [jeLen_keyWord k hg.1.1.1]
    rw [e2, ih hg.2 (pre ++ u32be (C.STRING_TAG + k.length)) (jo + 4) (ko + k.length) (by simp; omega)]
    simp [keyEnds]

theorem objectKeysCopy_spec (kvs : List (Bytes × JV)) (pre post : Bytes) (prev : Nat) (hp : prev = pre.length) :
    Fn.objectKeysCopy (pre ++ (keyBytes kvs ++ post)) (keyEnds prev kvs) prev = .ok (keyBytes kvs) := by
  induction kvs generalizing pre prev with
  | nil => simp [Fn.objectKeysCopy, keyEnds, keyBytes]
  | cons kv kvs ih =>
    obtain ⟨k, v⟩ := kv
    simp only [keyEnds, Fn.objectKeysCopy, keyBytes, List.append_assoc]
    have e2 : pre ++ (k ++ (keyBytes kvs ++ post)) = (pre ++ k) ++ (keyBytes kvs ++ post) := by simp
    by_cases hk : prev + k.length > prev
    · rw [if_pos hk, slice_mid' pre k _ prev (prev + k.length) hp (by omega)]
      simp only []
      rw [e2, ih (pre ++ k) (prev + k.length) (by simp; omega)]
    · rw [if_neg hk]
      have : k = [] := by
        cases k with
        | nil => rfl
        | cons _ _ => simp at hk
      subst this
      simpa using ih pre prev hp

theorem wordsL_strs (kvs : List (Bytes × JV)) : wordsL (kvs.map (fun kv => str kv.1)) = keyWords kvs := by
  induction kvs with
  | nil => rfl
  | cons kv kvs ih => obtain ⟨k, v⟩ := kv; simp [wordsL, keyWords, entry, ih]

theorem paysL_strs (kvs : List (Bytes × JV)) : paysL (kvs.map (fun kv => str kv.1)) = keyBytes kvs := by
  induction kvs with
  | nil => rfl
  | cons kv kvs ih => obtain ⟨k, v⟩ := kv; simp [paysL, keyBytes, entry, ih]

theorem encodeSpec_keys (kvs : List (Bytes × JV)) :
    encodeSpec (arr (kvs.map (fun kv => str kv.1)))
      = u32be (C.ARRAY_CONTAINER_TAG + kvs.length) ++ (keyWords kvs ++ keyBytes kvs) := by
  simp [encodeSpec, entry, wordsL_strs, paysL_strs]

theorem objectKeys_obj (kvs : List (Bytes × JV)) (hn : kvs.length < 536870912) (hg : goodK kvs = true) :
    Fn.objectKeys (encodeSpec (obj kvs)) = .ok (some (encodeSpec (arr (kvs.map (fun kv => str kv.1))))) := by
  simp only [Fn.objectKeys, hdr_obj kvs hn, hdrType_obj _ hn, hdrLen_obj _ hn, if_true]
  rw [show encodeSpec (obj kvs) = u32be (C.OBJECT_CONTAINER_TAG + kvs.length) ++
      (keyWords kvs ++ (wordsK kvs ++ (keyBytes kvs ++ paysK kvs))) by simp [encodeSpec, entry]]
  rw [objectKeysWords_spec kvs hg _ _ 4 _ (by simp)]
  simp only []
  have e1 : u32be (C.OBJECT_CONTAINER_TAG + kvs.length) ++ (keyWords kvs ++ (wordsK kvs ++ (keyBytes kvs ++ paysK kvs)))
      = (u32be (C.OBJECT_CONTAINER_TAG + kvs.length) ++ (keyWords kvs ++ wordsK kvs)) ++ (keyBytes kvs ++ paysK kvs) := by
    simp
  rw [e1, objectKeysCopy_spec kvs _ _ _ (by simp [keyWords_length', wordsK_length']; omega)]
  have hw : headerWord C.ARRAY_CONTAINER_TAG kvs.length = C.ARRAY_CONTAINER_TAG + kvs.length := by
    rw [tag_arr']; exact headerWord_eq 4 _ hn
  simp only [hw, encodeSpec_keys]

/-- `object_keys`: the array of the object's key strings, in key order -/
theorem objectKeys_refines (v : JV) (hg : goodTop v = true) :
    Fn.objectKeys (encodeSpec v) = .ok ((Spec.objectKeys v).map encodeSpec) := by
  cases v with
  | arr vs =>
    simp only [goodTop, Bool.and_eq_true, decide_eq_true_eq] at hg
    simp [Fn.objectKeys, hdr_arr vs hg.1, hdrType_arr _ hg.1, Spec.objectKeys, ne_arr_obj]
  | obj kvs =>
    simp only [goodTop, Bool.and_eq_true, decide_eq_true_eq] at hg
    simp only [Spec.objectKeys, Option.map_some]; exact objectKeys_obj kvs hg.1.1 hg.2
  | null => simp [Fn.objectKeys, hdr_scalar null rfl, hdrType_sca, Spec.objectKeys, ne_sca_obj]
  | bool b => simp [Fn.objectKeys, hdr_scalar (bool b) rfl, hdrType_sca, Spec.objectKeys, ne_sca_obj]
  | num n => simp [Fn.objectKeys, hdr_scalar (num n) rfl, hdrType_sca, Spec.objectKeys, ne_sca_obj]
  | str s => simp [Fn.objectKeys, hdr_scalar (str s) rfl, hdrType_sca, Spec.objectKeys, ne_sca_obj]

end Jsonb
